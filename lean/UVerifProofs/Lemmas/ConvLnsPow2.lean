/-
  UVerifProofs.Lemmas.ConvLnsPow2 — lns::convert_ieee754<double> on powers of two.

  A power-of-two double ±2^e inside the lns range whose logarithm was observed exactly (the double that holds the
  integer e) is stored with exactly the exponent field e·2^rbits (`convertF64_pow2_wrap`, `convertF64_pow2_sat`);
  ±1.0 with observed log2 = +0.0 takes the `logv == 0.0` exit (`convertF64_one`); the stored encoding decodes to
  `Val.num neg (e·2^rbits)` (`decode_encodeNum`).
  Discipline for `omega`: non-literal powers of two are generalised to variables first; 2^52, 2^63, 2^64, 2^11 are
  turned into literals with `Nat.reducePow`.
-/
import UVerif.Spec.Lns
import UVerif.Model.Lns
import UVerifProofs.Lemmas.LnsBits
import UVerifProofs.Lemmas.LnsOps
import UVerifProofs.Lemmas.LnsRound
import Mathlib.Tactic.Ring
import Mathlib.Tactic.Linarith
import Mathlib.Tactic.SplitIfs
import Mathlib.Tactic.Positivity

set_option linter.unusedSimpArgs false
set_option linter.unusedVariables false
set_option linter.unnecessarySeqFocus false

namespace UVerif.ConvLnsLemmas
open UVerif UVerif.Lns UVerif.Lns.Model UVerif.IeeeBits UVerif.LnsLemmas

/-- bit pattern of the binary64 number that holds the non-zero integer e exactly (|e| < 2^53) -/
def f64OfInt (e : Int) : Nat :=
  let m := e.natAbs
  let L := Nat.log2 m
  (if e < 0 then 2 ^ 63 else 0) + (1023 + L) * 2 ^ 52 + (m - 2 ^ L) * 2 ^ (52 - L)

/-- bit pattern of (-1)^neg * 2^e as a NORMAL binary64 number, -1022 ≤ e ≤ 1023 -/
def f64Pow2 (neg : Bool) (e : Int) : Nat := (if neg then 2 ^ 63 else 0) + (e + 1023).toNat * 2 ^ 52

/-! ### fields of a pattern assembled as sign·2^63 + E·2^52 + F -/

theorem fields_of_parts (sgn : Bool) (E F : Nat) (hE : E < 2048) (hF : F < 2 ^ 52) :
    signOf f64 ((if sgn then 2 ^ 63 else 0) + E * 2 ^ 52 + F) = sgn ∧
    expOf f64 ((if sgn then 2 ^ 63 else 0) + E * 2 ^ 52 + F) = E ∧
    fracOf f64 ((if sgn then 2 ^ 63 else 0) + E * 2 ^ 52 + F) = F := by
  have hlt : (if sgn then 2 ^ 63 else 0) + E * 2 ^ 52 + F < 2 ^ (63 + 1) := by
    simp only [Nat.reducePow, Nat.reduceAdd] at hF ⊢
    cases sgn <;> simp <;> omega
  refine ⟨?_, ?_, ?_⟩
  · show Nat.testBit _ 63 = sgn
    rw [testBit_top hlt]
    simp only [Nat.reducePow] at hF ⊢
    cases sgn <;> simp <;> omega
  · show (_ >>> 52) % 2 ^ 11 = E
    rw [Nat.shiftRight_eq_div_pow]
    simp only [Nat.reducePow] at hF ⊢
    cases sgn <;> simp <;> omega
  · show _ % 2 ^ 52 = F
    simp only [Nat.reducePow] at hF ⊢
    cases sgn <;> simp <;> omega

/-! ### (A) fields of `f64OfInt e` -/

/-- m = 2^L + k with k < 2^L, L = log2 m ≤ 52, and the fraction k·2^(52-L) is below 2^52 -/
theorem log2_split {m : Nat} (hm : m ≠ 0) (hlt : m < 2 ^ 53) :
    Nat.log2 m ≤ 52 ∧ 2 ^ Nat.log2 m ≤ m ∧ m - 2 ^ Nat.log2 m < 2 ^ Nat.log2 m ∧
    (m - 2 ^ Nat.log2 m) * 2 ^ (52 - Nat.log2 m) < 2 ^ 52 := by
  have h1 : Nat.log2 m < 53 := (Nat.log2_lt hm).mpr hlt
  have h2 : 2 ^ Nat.log2 m ≤ m := Nat.log2_self_le hm
  have h3 : m < 2 ^ (Nat.log2 m + 1) := Nat.lt_log2_self
  have h4 : m - 2 ^ Nat.log2 m < 2 ^ Nat.log2 m := by rw [Nat.pow_succ] at h3; omega
  refine ⟨by omega, h2, h4, ?_⟩
  have h5 : 2 ^ 52 = 2 ^ Nat.log2 m * 2 ^ (52 - Nat.log2 m) := by
    rw [← Nat.pow_add]; congr 1; omega
  rw [h5]
  exact Nat.mul_lt_mul_of_pos_right h4 (Nat.two_pow_pos _)

theorem f64OfInt_eq (e : Int) :
    f64OfInt e = (if decide (e < 0) then 2 ^ 63 else 0) + (1023 + Nat.log2 e.natAbs) * 2 ^ 52 +
      (e.natAbs - 2 ^ Nat.log2 e.natAbs) * 2 ^ (52 - Nat.log2 e.natAbs) := by
  unfold f64OfInt
  by_cases h : e < 0 <;> simp [h]

theorem f64OfInt_fields (e : Int) (he0 : e ≠ 0) (hlt : e.natAbs < 2 ^ 53) :
    signOf f64 (f64OfInt e) = decide (e < 0) ∧
    expOf f64 (f64OfInt e) = 1023 + Nat.log2 e.natAbs ∧
    fracOf f64 (f64OfInt e) = (e.natAbs - 2 ^ Nat.log2 e.natAbs) * 2 ^ (52 - Nat.log2 e.natAbs) := by
  have hm : e.natAbs ≠ 0 := by omega
  obtain ⟨h1, h2, h3, h4⟩ := log2_split hm hlt
  rw [f64OfInt_eq]
  exact fields_of_parts _ _ _ (by omega) h4

theorem signOf_f64OfInt (e : Int) (he0 : e ≠ 0) (hlt : e.natAbs < 2 ^ 53) :
    signOf f64 (f64OfInt e) = decide (e < 0) := (f64OfInt_fields e he0 hlt).1

theorem expOf_f64OfInt (e : Int) (he0 : e ≠ 0) (hlt : e.natAbs < 2 ^ 53) :
    expOf f64 (f64OfInt e) = 1023 + Nat.log2 e.natAbs := (f64OfInt_fields e he0 hlt).2.1

theorem fracOf_f64OfInt (e : Int) (he0 : e ≠ 0) (hlt : e.natAbs < 2 ^ 53) :
    fracOf f64 (f64OfInt e) = (e.natAbs - 2 ^ Nat.log2 e.natAbs) * 2 ^ (52 - Nat.log2 e.natAbs) :=
  (f64OfInt_fields e he0 hlt).2.2

theorem isZero_f64OfInt (e : Int) (he0 : e ≠ 0) (hlt : e.natAbs < 2 ^ 53) :
    IeeeBits.isZero f64 (f64OfInt e) = false := by
  unfold IeeeBits.isZero
  rw [expOf_f64OfInt e he0 hlt]
  have : (1023 + Nat.log2 e.natAbs == 0) = false := by simp
  rw [this, Bool.false_and]

/-! ### (D) the stored encoding decodes to the number -/

theorem emod_small (E Q : Int) (h1 : -Q < E) (h2 : E < Q) : E % Q = if 0 ≤ E then E else E + Q := by
  split
  · exact Int.emod_eq_of_lt ‹_› h2
  · have : E % Q = (E + Q * 1) % Q := (Int.add_mul_emod_self_left E Q 1).symm
    rw [this, Int.mul_one]
    exact Int.emod_eq_of_lt (by omega) (by omega)

/-- `ofSigned` of an exponent inside the lns range, with p = 2^(nbits-2) abstract -/
theorem ofSigned_range {n : Nat} (hn : 2 ≤ n) (E : Int) (hlo : minE n ≤ E) (hhi : E ≤ maxE n) :
    ∃ p : Nat, 0 < p ∧ 2 ^ (n - 2) = p ∧ 2 ^ (n - 1) = 2 * p ∧ 2 ^ n = 4 * p ∧
      -(p : Int) < E ∧ E < (p : Int) ∧
      (ofSigned (n - 1) E : Int) = if 0 ≤ E then E else E + 2 * (p : Int) := by
  obtain ⟨p, hp, e2, e1, e0, _⟩ := pow_n_var hn
  rw [minE_eq, e2] at hlo
  rw [maxE_eq, e2] at hhi
  refine ⟨p, hp, e2, e1, e0, by omega, by omega, ?_⟩
  unfold ofSigned
  rw [e1]
  have hm := emod_small E ((2 * p : Nat) : Int) (by push_cast; omega) (by push_cast; omega)
  rw [hm]
  push_cast
  split_ifs <;> omega

theorem decode_encodeNum (n : Nat) (hn : 2 ≤ n) (neg : Bool) (E : Int) (hlo : minE n ≤ E) (hhi : E ≤ maxE n) :
    encodeNum n neg E < 2 ^ n ∧ decode n (encodeNum n neg E) = Val.num neg E := by
  obtain ⟨p, hp, e2, e1, e0, r1, r2, ho⟩ := ofSigned_range hn E hlo hhi
  have hlt : ofSigned (n - 1) E < 2 ^ (n - 1) := by rw [e1]; split_ifs at ho <;> omega
  have hne : ofSigned (n - 1) E ≠ 2 ^ (n - 2) := by rw [e2]; split_ifs at ho <;> omega
  have hts : toSigned (n - 1) (ofSigned (n - 1) E) = E := by
    rw [toSigned_eq (by omega) hlt, show n - 1 - 1 = n - 2 by omega, e2, e1]
    push_cast
    split_ifs at ho ⊢ <;> omega
  obtain ⟨d1, d2⟩ := decode_num hn neg hlt hne
  unfold encodeNum
  rw [Nat.add_comm]
  exact ⟨d1, by rw [d2, hts]⟩

/-! ### comparison of a normal pattern with +0.0 -/

theorem f64_eAll : f64.eAll = 2047 := by decide

theorem isNaN_of_exp {v : Nat} (h : expOf f64 v ≠ 2047) : IeeeBits.isNaN f64 v = false := by
  unfold IeeeBits.isNaN; rw [f64_eAll]; simp [h]

theorem isInf_of_exp {v : Nat} (h : expOf f64 v ≠ 2047) : IeeeBits.isInf f64 v = false := by
  unfold IeeeBits.isInf; rw [f64_eAll]; simp [h]

theorem scaled_zero (k : Int) : scaled f64 0 k = 0 := by
  have hm : mant f64 0 = 0 := by decide
  have hs : signOf f64 0 = false := by decide
  unfold scaled
  simp [hm, hs]

/-- `v < 0.0` for a normal (finite, non-zero) pattern is its sign bit -/
theorem lt_zero_of_normal (v : Nat) (hE1 : 1 ≤ expOf f64 v) (hE2 : expOf f64 v < 2047) :
    IeeeBits.lt f64 v 0 = signOf f64 v := by
  have e0 : expOf f64 0 ≠ 2047 := by decide
  have hm : 0 < mant f64 v := by
    unfold mant; rw [if_neg (by omega)]; exact Nat.lt_of_lt_of_le (Nat.two_pow_pos _) (Nat.le_add_left _ _)
  unfold IeeeBits.lt
  simp only [isNaN_of_exp e0, isNaN_of_exp (show expOf f64 v ≠ 2047 by omega), isInf_of_exp e0,
    isInf_of_exp (show expOf f64 v ≠ 2047 by omega), Bool.or_false, Bool.false_eq_true, if_false, scaled_zero]
  unfold scaled
  generalize ulpExp f64 v - min (ulpExp f64 v) (ulpExp f64 0) = d
  have hpos : (0 : Int) < (mant f64 v : Int) * ((2 ^ d.toNat : Nat) : Int) :=
    Int.mul_pos (by exact_mod_cast hm) (by exact_mod_cast Nat.two_pow_pos _)
  generalize (mant f64 v : Int) * ((2 ^ d.toNat : Nat) : Int) = M at hpos
  cases signOf f64 v <;> simp <;> omega

/-- `0.0 < v` for a normal (finite, non-zero) pattern is the negated sign bit -/
theorem zero_lt_of_normal (v : Nat) (hE1 : 1 ≤ expOf f64 v) (hE2 : expOf f64 v < 2047) :
    IeeeBits.lt f64 0 v = !signOf f64 v := by
  have e0 : expOf f64 0 ≠ 2047 := by decide
  have hm : 0 < mant f64 v := by
    unfold mant; rw [if_neg (by omega)]; exact Nat.lt_of_lt_of_le (Nat.two_pow_pos _) (Nat.le_add_left _ _)
  unfold IeeeBits.lt
  simp only [isNaN_of_exp e0, isNaN_of_exp (show expOf f64 v ≠ 2047 by omega), isInf_of_exp e0,
    isInf_of_exp (show expOf f64 v ≠ 2047 by omega), Bool.or_false, Bool.false_eq_true, if_false, scaled_zero]
  unfold scaled
  generalize ulpExp f64 v - min (ulpExp f64 0) (ulpExp f64 v) = d
  have hpos : (0 : Int) < (mant f64 v : Int) * ((2 ^ d.toNat : Nat) : Int) :=
    Int.mul_pos (by exact_mod_cast hm) (by exact_mod_cast Nat.two_pow_pos _)
  generalize (mant f64 v : Int) * ((2 ^ d.toNat : Nat) : Int) = M at hpos
  cases signOf f64 v <;> simp <;> omega

/-! ### fields of `f64Pow2 neg e` -/

theorem f64Pow2_fields (neg : Bool) (e : Int) (he1 : -1022 ≤ e) (he2 : e ≤ 1023) :
    signOf f64 (f64Pow2 neg e) = neg ∧ expOf f64 (f64Pow2 neg e) = (e + 1023).toNat ∧
    fracOf f64 (f64Pow2 neg e) = 0 ∧ 1 ≤ (e + 1023).toNat ∧ (e + 1023).toNat < 2047 := by
  have := fields_of_parts neg (e + 1023).toNat 0 (by omega) (Nat.two_pow_pos _)
  rw [Nat.add_zero] at this
  exact ⟨this.1, this.2.1, this.2.2, by omega, by omega⟩

theorem lt_zero_f64Pow2 (neg : Bool) (e : Int) (he1 : -1022 ≤ e) (he2 : e ≤ 1023) :
    IeeeBits.lt f64 (f64Pow2 neg e) 0 = neg := by
  obtain ⟨h1, h2, h3, h4, h5⟩ := f64Pow2_fields neg e he1 he2
  rw [lt_zero_of_normal _ (by omega) (by omega), h1]

/-! ### the logarithm path of convert_ieee754 as a function of (negative, logv) -/

/-- the part of `convertF64` after the special-value and saturation tests -/
def logPath (c : Cfg) (negative : Bool) (logv : Nat) : Nat :=
  let n := c.nbits
  if IeeeBits.isZero f64 logv then setBit 0 (n - 1) negative
  else
    let ls := signOf f64 logv
    let lue := expOf f64 logv
    let lrf0 := fracOf f64 logv
    let lrf := if lue > 0 then lrf0 ||| 2 ^ 52 else lrf0
    let radixPoint : Int := 52 - ((lue : Int) - 1023)
    let shiftRight : Int := radixPoint - (c.rbits : Int)
    let twos (x : Nat) : Nat := if ls then (u64 - x % u64) % u64 else x
    let lnsExponent : Nat :=
      if shiftRight > 0 then
        if shiftRight > 63 then 0
        else
          let q := roundGRS lrf shiftRight.toNat
          (twos q) % 2 ^ (n - 1)
      else
        let sl := (-shiftRight).toNat
        if sl < 64 - 52 then
          (twos ((lrf <<< sl) % u64)) % 2 ^ (n - 1)
        else
          let x := (lrf <<< sl) % 2 ^ (n - 1)
          if ls then twosComp (n - 1) x else x
    setSign n (assign (n - 1) n lnsExponent) negative

/-- Wrapping: a finite non-zero double goes to the logarithm path -/
theorem convertF64_wrap_logPath (c : Cfg) (t : Thresholds) (v logv : Nat) (hw : c.wrap = true)
    (hE : expOf f64 v ≠ 2047) (hz : IeeeBits.isZero f64 v = false) :
    convertF64 c t v logv = logPath c (IeeeBits.lt f64 v 0) logv := by
  have hE' : (expOf f64 v == 2047) = false := by simp [hE]
  unfold convertF64 logPath
  simp only [hE', hz, hw, Bool.false_and, Bool.false_eq_true, if_false, if_true]

/-- Saturating: a finite non-zero double for which none of the four threshold tests fires goes to the logarithm path -/
theorem convertF64_sat_logPath (c : Cfg) (t : Thresholds) (v logv : Nat) (hw : c.wrap = false)
    (hE : expOf f64 v ≠ 2047) (hz : IeeeBits.isZero f64 v = false)
    (h1 : (IeeeBits.lt f64 0 v && IeeeBits.le f64 t.mx v) = false)
    (h2 : (IeeeBits.lt f64 v 0 && IeeeBits.le f64 v (negate f64 t.mx)) = false)
    (h3 : IeeeBits.le f64 (absB f64 v) t.hm = false) (h4 : IeeeBits.le f64 (absB f64 v) t.mn = false) :
    convertF64 c t v logv = logPath c (IeeeBits.lt f64 v 0) logv := by
  have hE' : (expOf f64 v == 2047) = false := by simp [hE]
  unfold convertF64 logPath
  simp only [hE', hz, hw, h1, h2, h3, h4, Bool.false_and, Bool.false_eq_true, if_false, if_true]

/-! ### the logarithm path on an exactly observed integer logarithm -/

theorem or_two_pow_52 {F : Nat} (hF : F < 2 ^ 52) : F ||| 2 ^ 52 = F + 2 ^ 52 := by
  have := Nat.two_pow_add_eq_or_of_lt hF 1
  rw [Nat.mul_one] at this
  rw [Nat.or_comm, ← this, Nat.add_comm]

theorem rneShr_mul_two_pow (a s : Nat) : rneShr (a * 2 ^ s) s = a := by
  unfold rneShr
  have h1 : (a * 2 ^ s) >>> s = a := by
    rw [Nat.shiftRight_eq_div_pow]; exact Nat.mul_div_cancel _ (Nat.two_pow_pos _)
  have h2 : a * 2 ^ s % 2 ^ s = 0 := Nat.mul_mod_left _ _
  simp only [h1, h2, Nat.mul_zero]
  rw [if_pos (Nat.two_pow_pos _)]

/-- the exponent field written for a magnitude q = |E| below 2^(nbits-2): two's complement in 64 bits, low nbits-1 bits -/
theorem field_of_mag {n : Nat} (hn : 2 ≤ n) (hn64 : n ≤ 64) (E : Int) (q : Nat)
    (hq : (q : Int) = if E < 0 then -E else E)
    (hlo : minE n ≤ E) (hhi : E ≤ maxE n) :
    (if decide (E < 0) = true then (u64 - q % u64) % u64 else q) % 2 ^ (n - 1) = ofSigned (n - 1) E := by
  obtain ⟨p, hp, e2, e1, e0, r1, r2, ho⟩ := ofSigned_range hn E hlo hhi
  obtain ⟨K, hK⟩ : ∃ K, u64 = 2 ^ (n - 1) * K + 2 ^ (n - 1) := by
    refine ⟨2 ^ (65 - n) - 1, ?_⟩
    have h1 : u64 = 2 ^ (n - 1) * 2 ^ (65 - n) := by
      unfold u64; rw [← Nat.pow_add]; congr 1; omega
    have h2 : 0 < 2 ^ (65 - n) := Nat.two_pow_pos _
    rw [h1, Nat.mul_sub, Nat.mul_one]
    have h3 : 2 ^ (n - 1) ≤ 2 ^ (n - 1) * 2 ^ (65 - n) := Nat.le_mul_of_pos_right _ h2
    omega
  by_cases hE : E < 0
  · simp only [hE, decide_true, if_true] at hq ⊢
    have hq1 : q < u64 := by
      have : 2 ^ (n - 1) * K + 2 ^ (n - 1) = u64 := hK.symm
      generalize 2 ^ (n - 1) * K = T at *
      omega
    rw [Nat.mod_eq_of_lt hq1, Nat.mod_eq_of_lt (show u64 - q < u64 by omega)]
    have h4 : u64 - q = 2 ^ (n - 1) * K + (2 ^ (n - 1) - q) := by
      generalize 2 ^ (n - 1) * K = T at *
      omega
    rw [h4, Nat.mul_add_mod, Nat.mod_eq_of_lt (by omega)]
    rw [if_neg (by omega)] at ho
    omega
  · simp only [hE, decide_false, Bool.false_eq_true, if_false] at hq ⊢
    rw [Nat.mod_eq_of_lt (by omega)]
    rw [if_pos (by omega)] at ho
    omega

theorem logPath_f64OfInt (c : Cfg) (negative : Bool) (e : Int)
    (hn : 2 ≤ c.nbits) (hn64 : c.nbits ≤ 64) (he0 : e ≠ 0) (hlt : e.natAbs < 2 ^ 53)
    (hr : c.rbits + Nat.log2 e.natAbs < 52)
    (hlo : minE c.nbits ≤ e * ((2 ^ c.rbits : Nat) : Int)) (hhi : e * ((2 ^ c.rbits : Nat) : Int) ≤ maxE c.nbits) :
    logPath c negative (f64OfInt e) = encodeNum c.nbits negative (e * ((2 ^ c.rbits : Nat) : Int)) := by
  have hm : e.natAbs ≠ 0 := by omega
  obtain ⟨l1, l2, l3, l4⟩ := log2_split hm hlt
  obtain ⟨f1, f2, f3⟩ := f64OfInt_fields e he0 hlt
  unfold logPath
  simp only [isZero_f64OfInt e he0 hlt, f1, f2, f3, Bool.false_eq_true, if_false]
  clear f1 f2 f3
  generalize hL : Nat.log2 e.natAbs = L at *
  have hsr : (52 : Int) - (((1023 + L : Nat) : Int) - 1023) - (c.rbits : Int) = ((52 - L - c.rbits : Nat) : Int) := by
    omega
  rw [hsr]
  have hpos : ((52 - L - c.rbits : Nat) : Int) > 0 := by omega
  have h63 : ¬ ((52 - L - c.rbits : Nat) : Int) > 63 := by omega
  rw [if_pos hpos, if_neg h63, Int.toNat_natCast, if_pos (show 1023 + L > 0 by omega), or_two_pow_52 l4]
  -- the significand is |e|·2^rbits shifted left by the number of dropped bits
  have hx : (e.natAbs - 2 ^ L) * 2 ^ (52 - L) + 2 ^ 52 = (e.natAbs * 2 ^ c.rbits) * 2 ^ (52 - L - c.rbits) := by
    have h1 : 2 ^ 52 = 2 ^ L * 2 ^ (52 - L) := by rw [← Nat.pow_add]; congr 1; omega
    have h2 : 2 ^ (52 - L) = 2 ^ c.rbits * 2 ^ (52 - L - c.rbits) := by rw [← Nat.pow_add]; congr 1; omega
    rw [h1, ← Nat.add_mul, Nat.sub_add_cancel l2, h2, Nat.mul_assoc]
  rw [hx, roundGRS_eq_rneShr _ _ (by omega), rneShr_mul_two_pow]
  -- the exponent field
  have hq : ((e.natAbs * 2 ^ c.rbits : Nat) : Int) =
      if e * ((2 ^ c.rbits : Nat) : Int) < 0 then -(e * ((2 ^ c.rbits : Nat) : Int)) else e * ((2 ^ c.rbits : Nat) : Int) := by
    have hRpos : (0 : Int) < ((2 ^ c.rbits : Nat) : Int) := by exact_mod_cast Nat.two_pow_pos _
    rw [Nat.cast_mul]
    generalize ((2 ^ c.rbits : Nat) : Int) = R at *
    by_cases h : e < 0
    · have h1 : e * R < 0 := Int.mul_neg_of_neg_of_pos h hRpos
      have h2 : (e.natAbs : Int) = -e := by omega
      rw [if_pos h1, h2]; ring
    · have h1 : ¬ e * R < 0 := by
        have : 0 ≤ e * R := Int.mul_nonneg (by omega) (by omega)
        omega
      have h2 : (e.natAbs : Int) = e := by omega
      rw [if_neg h1, h2]
  have hdec : decide (e < 0) = decide (e * ((2 ^ c.rbits : Nat) : Int) < 0) := by
    have hRpos : (0 : Int) < ((2 ^ c.rbits : Nat) : Int) := by exact_mod_cast Nat.two_pow_pos _
    generalize ((2 ^ c.rbits : Nat) : Int) = R at *
    by_cases h : e < 0
    · have h1 : e * R < 0 := Int.mul_neg_of_neg_of_pos h hRpos
      simp [h, h1]
    · have h1 : ¬ e * R < 0 := by
        have : 0 ≤ e * R := Int.mul_nonneg (by omega) (by omega)
        omega
      simp [h, h1]
  rw [hdec, field_of_mag hn hn64 _ _ hq hlo hhi]
  -- assign + setsign
  generalize e * ((2 ^ c.rbits : Nat) : Int) = E at *
  obtain ⟨p, hp, e2, e1, e0, r1, r2, ho⟩ := ofSigned_range hn E hlo hhi
  have hv : ofSigned (c.nbits - 1) E < 2 ^ (c.nbits - 1) := by rw [e1]; split_ifs at ho <;> omega
  obtain ⟨w1, w2, w3⟩ := wrapTail hn hv negative
  rw [enc_split hn w1, w2, w3]
  rfl

/-! ### (B) powers of two with an exactly observed logarithm -/

theorem natAbs_lt_of_exp_range (e : Int) (he1 : -1022 ≤ e) (he2 : e ≤ 1023) : e.natAbs < 2 ^ 53 := by
  simp only [Nat.reducePow]; omega

theorem isZero_f64Pow2 (neg : Bool) (e : Int) (he1 : -1022 ≤ e) (he2 : e ≤ 1023) :
    IeeeBits.isZero f64 (f64Pow2 neg e) = false := by
  obtain ⟨h1, h2, h3, h4, h5⟩ := f64Pow2_fields neg e he1 he2
  unfold IeeeBits.isZero
  rw [h2]
  have : ((e + 1023).toNat == 0) = false := by simp; omega
  rw [this, Bool.false_and]

/-- Wrapping: ±2^e inside the lns range, log2 observed exactly, is stored with exponent field e·2^rbits -/
theorem convertF64_pow2_wrap (c : Cfg) (t : Thresholds) (neg : Bool) (e : Int)
    (hn : 2 ≤ c.nbits) (hn64 : c.nbits ≤ 64) (hw : c.wrap = true)
    (he1 : -1022 ≤ e) (he2 : e ≤ 1023) (he0 : e ≠ 0)
    (hr : c.rbits + Nat.log2 e.natAbs < 52)
    (hlo : minE c.nbits ≤ e * ((2 ^ c.rbits : Nat) : Int)) (hhi : e * ((2 ^ c.rbits : Nat) : Int) ≤ maxE c.nbits) :
    convertF64 c t (f64Pow2 neg e) (f64OfInt e) = encodeNum c.nbits neg (e * ((2 ^ c.rbits : Nat) : Int)) := by
  obtain ⟨h1, h2, h3, h4, h5⟩ := f64Pow2_fields neg e he1 he2
  rw [convertF64_wrap_logPath c t _ _ hw (by rw [h2]; omega) (isZero_f64Pow2 neg e he1 he2),
    lt_zero_f64Pow2 neg e he1 he2]
  exact logPath_f64OfInt c neg e hn hn64 he0 (natAbs_lt_of_exp_range e he1 he2) hr hlo hhi

/-- Saturating: the same, when none of the four threshold pre-tests of the model fires -/
theorem convertF64_pow2_sat (c : Cfg) (t : Thresholds) (neg : Bool) (e : Int)
    (hn : 2 ≤ c.nbits) (hn64 : c.nbits ≤ 64) (hw : c.wrap = false)
    (he1 : -1022 ≤ e) (he2 : e ≤ 1023) (he0 : e ≠ 0)
    (hr : c.rbits + Nat.log2 e.natAbs < 52)
    (hlo : minE c.nbits ≤ e * ((2 ^ c.rbits : Nat) : Int)) (hhi : e * ((2 ^ c.rbits : Nat) : Int) ≤ maxE c.nbits)
    (h1 : (IeeeBits.lt f64 0 (f64Pow2 neg e) && IeeeBits.le f64 t.mx (f64Pow2 neg e)) = false)
    (h2 : (IeeeBits.lt f64 (f64Pow2 neg e) 0 && IeeeBits.le f64 (f64Pow2 neg e) (negate f64 t.mx)) = false)
    (h3 : IeeeBits.le f64 (absB f64 (f64Pow2 neg e)) t.hm = false)
    (h4 : IeeeBits.le f64 (absB f64 (f64Pow2 neg e)) t.mn = false) :
    convertF64 c t (f64Pow2 neg e) (f64OfInt e) = encodeNum c.nbits neg (e * ((2 ^ c.rbits : Nat) : Int)) := by
  obtain ⟨g1, g2, g3, g4, g5⟩ := f64Pow2_fields neg e he1 he2
  rw [convertF64_sat_logPath c t _ _ hw (by rw [g2]; omega) (isZero_f64Pow2 neg e he1 he2) h1 h2 h3 h4,
    lt_zero_f64Pow2 neg e he1 he2]
  exact logPath_f64OfInt c neg e hn hn64 he0 (natAbs_lt_of_exp_range e he1 he2) hr hlo hhi

/-! ### (C) ±1.0 with observed log2 = +0.0 -/

theorem logPath_zero (c : Cfg) (negative : Bool) : logPath c negative 0 = encodeNum c.nbits negative 0 := by
  have hz : IeeeBits.isZero f64 0 = true := by decide
  have ht : (0 : Nat).testBit (c.nbits - 1) = false := Nat.zero_testBit _
  unfold logPath
  simp only [hz, if_true]
  unfold setBit encodeNum ofSigned
  cases negative <;> simp [ht]

theorem convertF64_one (c : Cfg) (t : Thresholds) (neg : Bool) (hn : 2 ≤ c.nbits) (hw : c.wrap = true) :
    convertF64 c t (f64Pow2 neg 0) 0 = encodeNum c.nbits neg 0 := by
  obtain ⟨h1, h2, h3, h4, h5⟩ := f64Pow2_fields neg 0 (by omega) (by omega)
  rw [convertF64_wrap_logPath c t _ _ hw (by rw [h2]; omega) (isZero_f64Pow2 neg 0 (by omega) (by omega)),
    lt_zero_f64Pow2 neg 0 (by omega) (by omega)]
  exact logPath_zero c neg

/-- the Saturating variant of `convertF64_one` -/
theorem convertF64_one_sat (c : Cfg) (t : Thresholds) (neg : Bool) (hn : 2 ≤ c.nbits) (hw : c.wrap = false)
    (h1 : (IeeeBits.lt f64 0 (f64Pow2 neg 0) && IeeeBits.le f64 t.mx (f64Pow2 neg 0)) = false)
    (h2 : (IeeeBits.lt f64 (f64Pow2 neg 0) 0 && IeeeBits.le f64 (f64Pow2 neg 0) (negate f64 t.mx)) = false)
    (h3 : IeeeBits.le f64 (absB f64 (f64Pow2 neg 0)) t.hm = false)
    (h4 : IeeeBits.le f64 (absB f64 (f64Pow2 neg 0)) t.mn = false) :
    convertF64 c t (f64Pow2 neg 0) 0 = encodeNum c.nbits neg 0 := by
  obtain ⟨g1, g2, g3, g4, g5⟩ := f64Pow2_fields neg 0 (by omega) (by omega)
  rw [convertF64_sat_logPath c t _ _ hw (by rw [g2]; omega) (isZero_f64Pow2 neg 0 (by omega) (by omega)) h1 h2 h3 h4,
    lt_zero_f64Pow2 neg 0 (by omega) (by omega)]
  exact logPath_zero c neg

/-- the stored power of two decodes to (-1)^neg · 2^(e·2^rbits / 2^rbits) -/
theorem convertF64_pow2_wrap_decode (c : Cfg) (t : Thresholds) (neg : Bool) (e : Int)
    (hn : 2 ≤ c.nbits) (hn64 : c.nbits ≤ 64) (hw : c.wrap = true)
    (he1 : -1022 ≤ e) (he2 : e ≤ 1023) (he0 : e ≠ 0)
    (hr : c.rbits + Nat.log2 e.natAbs < 52)
    (hlo : minE c.nbits ≤ e * ((2 ^ c.rbits : Nat) : Int)) (hhi : e * ((2 ^ c.rbits : Nat) : Int) ≤ maxE c.nbits) :
    convertF64 c t (f64Pow2 neg e) (f64OfInt e) < 2 ^ c.nbits ∧
    decode c.nbits (convertF64 c t (f64Pow2 neg e) (f64OfInt e)) = Val.num neg (e * ((2 ^ c.rbits : Nat) : Int)) := by
  rw [convertF64_pow2_wrap c t neg e hn hn64 hw he1 he2 he0 hr hlo hhi]
  exact decode_encodeNum c.nbits hn neg _ hlo hhi

/-! ### (E) non-vacuity -/

example : f64OfInt 5 = 0x4014000000000000 := by decide
example : f64OfInt (-3) = 0xC008000000000000 := by decide
example : f64Pow2 true (-3) = 0xBFC0000000000000 := by decide
example : f64Pow2 false 5 = 0x4040000000000000 := by decide
-- lns<8,3> Wrapping: 2^5 ↦ exponent field 5·8 = 40
example : convertF64 ⟨8, 3, 8, true⟩ ⟨0, 0, 0⟩ (f64Pow2 false 5) (f64OfInt 5) = 40 := by decide +kernel
example : encodeNum 8 false (5 * ((2 ^ 3 : Nat) : Int)) = 40 := by decide
-- -2^-3 ↦ sign bit + two's complement of 24 in 7 bits = 128 + 104
example : convertF64 ⟨8, 3, 8, true⟩ ⟨0, 0, 0⟩ (f64Pow2 true (-3)) (f64OfInt (-3)) = 232 := by decide +kernel
example : encodeNum 8 true ((-3) * ((2 ^ 3 : Nat) : Int)) = 232 := by decide
example : decode 8 232 = Val.num true (-24) := by decide
-- the hypotheses of `convertF64_pow2_wrap` are satisfiable (lns<8,3>, e = 5 and e = -3)
example : (3 + Nat.log2 (5 : Int).natAbs < 52) ∧ minE 8 ≤ 5 * ((2 ^ 3 : Nat) : Int) ∧ 5 * ((2 ^ 3 : Nat) : Int) ≤ maxE 8 := by
  decide
example : (3 + Nat.log2 (-3 : Int).natAbs < 52) ∧ minE 8 ≤ (-3) * ((2 ^ 3 : Nat) : Int) ∧
    (-3) * ((2 ^ 3 : Nat) : Int) ≤ maxE 8 := by
  decide
-- ±1.0
example : convertF64 ⟨8, 3, 8, true⟩ ⟨0, 0, 0⟩ (f64Pow2 true 0) 0 = 128 := by decide +kernel
example : convertF64 ⟨8, 3, 8, true⟩ ⟨0, 0, 0⟩ 0xBFF0000000000000 0 = encodeNum 8 true 0 := by decide +kernel

-- Saturating lns<8,3> with the thresholds double(maxpos) = 2^(63/8), double(minpos) = 2^(-63/8),
-- double(lns<9,4> minpos) = 2^(-127/16): the four pre-tests of `convertF64_pow2_sat` do not fire for -2^-3 and 2^5
example :
    let t : Thresholds := ⟨0x406d5818dcfba487, 0x3f7172b83c7d517b, 0x3f70b5586cf9890f⟩
    let v := f64Pow2 true (-3)
    (IeeeBits.lt f64 0 v && IeeeBits.le f64 t.mx v) = false ∧
    (IeeeBits.lt f64 v 0 && IeeeBits.le f64 v (negate f64 t.mx)) = false ∧
    IeeeBits.le f64 (absB f64 v) t.hm = false ∧ IeeeBits.le f64 (absB f64 v) t.mn = false ∧
    convertF64 ⟨8, 3, 8, false⟩ t v (f64OfInt (-3)) = 232 := by decide +kernel
example :
    let t : Thresholds := ⟨0x406d5818dcfba487, 0x3f7172b83c7d517b, 0x3f70b5586cf9890f⟩
    let v := f64Pow2 false 5
    (IeeeBits.lt f64 0 v && IeeeBits.le f64 t.mx v) = false ∧
    (IeeeBits.lt f64 v 0 && IeeeBits.le f64 v (negate f64 t.mx)) = false ∧
    IeeeBits.le f64 (absB f64 v) t.hm = false ∧ IeeeBits.le f64 (absB f64 v) t.mn = false ∧
    convertF64 ⟨8, 3, 8, false⟩ t v (f64OfInt 5) = 40 := by decide +kernel

end UVerif.ConvLnsLemmas
