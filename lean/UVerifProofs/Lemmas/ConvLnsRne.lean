/-
  UVerifProofs.Lemmas.ConvLnsRne — lns::convert_ieee754<double> on ANY normal observed logarithm.

  On the logarithm path the stored exponent field is round-half-even of 2^rbits·|logv| with the sign of logv
  (`logPath_rneShr` on naturals, `logPath_rne` on the rational reading of the observed double), provided the rounded
  exponent is inside the lns range and the right shift is between 1 and 63.  Corollaries for the whole conversion:
  `convertF64_nearest_observed_wrap`, `convertF64_nearest_observed_sat`.
-/
import UVerifProofs.Lemmas.ConvLnsPow2
import UVerifProofs.Lemmas.LnsRound
import UVerifProofs.Lemmas.ArealVal

set_option linter.unusedSimpArgs false
set_option linter.unusedVariables false
set_option linter.unnecessarySeqFocus false

namespace UVerif.ConvLnsLemmas
open UVerif UVerif.Lns UVerif.Lns.Model UVerif.IeeeBits UVerif.LnsLemmas

/-- the exponent field written for a magnitude q with the sign `ls` of the logarithm (q = 0 allowed with either sign) -/
theorem field_of_signed_mag {n : Nat} (hn : 2 ≤ n) (hn64 : n ≤ 64) (ls : Bool) (q : Nat) (E : Int)
    (hE : E = (if ls then -1 else 1) * (q : Int)) (hlo : minE n ≤ E) (hhi : E ≤ maxE n) :
    (if ls = true then (u64 - q % u64) % u64 else q) % 2 ^ (n - 1) = ofSigned (n - 1) E := by
  cases ls
  · -- non-negative logarithm
    simp only [Bool.false_eq_true, if_false] at hE ⊢
    have hq : (q : Int) = if E < 0 then -E else E := by split_ifs <;> omega
    have := field_of_mag hn hn64 E q hq hlo hhi
    rwa [show decide (E < 0) = false by simp; omega] at this
  · simp only [if_true] at hE ⊢
    by_cases h0 : q = 0
    · subst h0
      have hE0 : E = 0 := by omega
      subst hE0
      have h1 : (u64 - 0 % u64) % u64 = 0 := by decide
      rw [h1]
      unfold ofSigned
      simp
    · have hq : (q : Int) = if E < 0 then -E else E := by split_ifs <;> omega
      have := field_of_mag hn hn64 E q hq hlo hhi
      rwa [show decide (E < 0) = true by simp; omega] at this

/-- (1) the logarithm path on a normal observed logarithm: the exponent field is ± rneShr (significand) sr -/
theorem logPath_rneShr (c : Cfg) (negative : Bool) (logv : Nat) (hn : 2 ≤ c.nbits) (hn64 : c.nbits ≤ 64)
    (hE1 : 1 ≤ expOf f64 logv) (hE2 : expOf f64 logv < 2047)
    (sr : Nat) (hsr : (sr : Int) = 1075 - (expOf f64 logv : Int) - (c.rbits : Int)) (h1 : 1 ≤ sr) (h63 : sr ≤ 63)
    (E : Int) (hE : E = (if signOf f64 logv then -1 else 1) * ((rneShr (fracOf f64 logv + 2 ^ 52) sr : Nat) : Int))
    (hlo : minE c.nbits ≤ E) (hhi : E ≤ maxE c.nbits) :
    logPath c negative logv = encodeNum c.nbits negative E := by
  have hz : IeeeBits.isZero f64 logv = false := by
    unfold IeeeBits.isZero
    have : (expOf f64 logv == 0) = false := by simp; omega
    rw [this, Bool.false_and]
  have hF : fracOf f64 logv < 2 ^ 52 := Nat.mod_lt _ (Nat.two_pow_pos _)
  unfold logPath
  simp only [hz, Bool.false_eq_true, if_false]
  have hshift : (52 : Int) - ((expOf f64 logv : Int) - 1023) - (c.rbits : Int) = (sr : Int) := by omega
  rw [hshift]
  rw [if_pos (show (sr : Int) > 0 by omega), if_neg (show ¬ (sr : Int) > 63 by omega), Int.toNat_natCast,
    if_pos (show expOf f64 logv > 0 by omega), or_two_pow_52 hF, roundGRS_eq_rneShr _ _ h1]
  rw [field_of_signed_mag hn hn64 _ _ E hE hlo hhi]
  obtain ⟨p, hp, e2, e1, e0, r1, r2, ho⟩ := ofSigned_range hn E hlo hhi
  have hv : ofSigned (c.nbits - 1) E < 2 ^ (c.nbits - 1) := by rw [e1]; split_ifs at ho <;> omega
  obtain ⟨w1, w2, w3⟩ := wrapTail hn hv negative
  rw [enc_split hn w1, w2, w3]
  rfl

/-- the scaled quotient is exactly 2^rbits·|logv| (the computation of `C09_log_scaled_value`, re-proved locally) -/
theorem log_scaled_value (logv rbits : Nat) (hue : 1 ≤ expOf f64 logv)
    (sr : Nat) (hsr : (sr : Int) = 1075 - (expOf f64 logv : Int) - (rbits : Int)) :
    ((fracOf f64 logv + 2 ^ 52 : Nat) : Rat) / ((2 ^ sr : Nat) : Rat) =
      ((2 ^ rbits : Nat) : Rat) * |IeeeBits.toRat f64 logv| := by
  have hm : mant f64 logv = fracOf f64 logv + 2 ^ 52 := by
    unfold mant; rw [if_neg (by omega)]; rfl
  have hu : ulpExp f64 logv = (expOf f64 logv : Int) - 1075 := by
    unfold ulpExp
    have : Nat.max (expOf f64 logv) 1 = expOf f64 logv := Nat.max_eq_left hue
    rw [this]
    have hb : (f64.bias : Int) = 1023 := by decide
    have hf : (f64.fbits : Int) = 52 := by decide
    rw [hb, hf]; ring
  have habs : |IeeeBits.toRat f64 logv| =
      ((fracOf f64 logv + 2 ^ 52 : Nat) : Rat) * pow2 ((expOf f64 logv : Int) - 1075) := by
    unfold IeeeBits.toRat
    simp only [ArealLemmas.dyadic_def, hm, hu]
    have hnn : (0 : Rat) ≤ (((fracOf f64 logv + 2 ^ 52 : Nat) : Int) : Rat) *
        pow2 ((expOf f64 logv : Int) - 1075) :=
      mul_nonneg (by positivity) (le_of_lt (ArealLemmas.pow2_pos _))
    split
    · rw [abs_neg, abs_of_nonneg hnn]; push_cast; ring
    · rw [abs_of_nonneg hnn]; push_cast; ring
  rw [habs]
  have hp : pow2 ((expOf f64 logv : Int) - 1075) * ((2 ^ sr : Nat) : Rat) * ((2 ^ rbits : Nat) : Rat) = 1 := by
    rw [← ArealLemmas.pow2_natCast, ← ArealLemmas.pow2_natCast, ← ArealLemmas.pow2_add, ← ArealLemmas.pow2_add]
    have : (expOf f64 logv : Int) - 1075 + (sr : Int) + (rbits : Int) = 0 := by omega
    rw [this, ArealLemmas.pow2_eq_zpow]; simp
  have hsrpos : (0 : Rat) < ((2 ^ sr : Nat) : Rat) := by exact_mod_cast Nat.two_pow_pos sr
  rw [div_eq_iff (ne_of_gt hsrpos)]
  calc ((fracOf f64 logv + 2 ^ 52 : Nat) : Rat)
      = ((fracOf f64 logv + 2 ^ 52 : Nat) : Rat) *
          (pow2 ((expOf f64 logv : Int) - 1075) * ((2 ^ sr : Nat) : Rat) * ((2 ^ rbits : Nat) : Rat)) := by
        rw [hp, mul_one]
    _ = _ := by ring

/-- round-half-even of 2^rbits·|logv| is the natural-number rounding of the significand -/
theorem rne_scaled_log (logv rbits : Nat) (hue : 1 ≤ expOf f64 logv)
    (sr : Nat) (hsr : (sr : Int) = 1075 - (expOf f64 logv : Int) - (rbits : Int)) :
    rne (((2 ^ rbits : Nat) : Rat) * |IeeeBits.toRat f64 logv|) = ((rneShr (fracOf f64 logv + 2 ^ 52) sr : Nat) : Int) := by
  rw [← log_scaled_value logv rbits hue sr hsr, rne_div_two_pow]

/-- (2) the logarithm path stores round-half-even of 2^rbits·|logv| with the sign of logv -/
theorem logPath_rne (c : Cfg) (negative : Bool) (logv : Nat) (hn : 2 ≤ c.nbits) (hn64 : c.nbits ≤ 64)
    (hE1 : 1 ≤ expOf f64 logv) (hE2 : expOf f64 logv < 2047)
    (sr : Nat) (hsr : (sr : Int) = 1075 - (expOf f64 logv : Int) - (c.rbits : Int)) (h1 : 1 ≤ sr) (h63 : sr ≤ 63)
    (E : Int)
    (hE : E = (if signOf f64 logv then -1 else 1) * rne (((2 ^ c.rbits : Nat) : Rat) * |IeeeBits.toRat f64 logv|))
    (hlo : minE c.nbits ≤ E) (hhi : E ≤ maxE c.nbits) :
    logPath c negative logv = encodeNum c.nbits negative E := by
  rw [rne_scaled_log logv c.rbits hE1 sr hsr] at hE
  exact logPath_rneShr c negative logv hn hn64 hE1 hE2 sr hsr h1 h63 E hE hlo hhi

/-- (3) Wrapping: a finite non-zero double is stored as the lns value nearest (half-even) to the OBSERVED logarithm -/
theorem convertF64_nearest_observed_wrap (c : Cfg) (t : Thresholds) (v logv : Nat)
    (hn : 2 ≤ c.nbits) (hn64 : c.nbits ≤ 64) (hw : c.wrap = true)
    (hvE : expOf f64 v ≠ 2047) (hvz : IeeeBits.isZero f64 v = false)
    (hE1 : 1 ≤ expOf f64 logv) (hE2 : expOf f64 logv < 2047)
    (sr : Nat) (hsr : (sr : Int) = 1075 - (expOf f64 logv : Int) - (c.rbits : Int)) (h1 : 1 ≤ sr) (h63 : sr ≤ 63)
    (E : Int)
    (hE : E = (if signOf f64 logv then -1 else 1) * rne (((2 ^ c.rbits : Nat) : Rat) * |IeeeBits.toRat f64 logv|))
    (hlo : minE c.nbits ≤ E) (hhi : E ≤ maxE c.nbits) :
    convertF64 c t v logv < 2 ^ c.nbits ∧
    decode c.nbits (convertF64 c t v logv) = Val.num (IeeeBits.lt f64 v 0) E := by
  rw [convertF64_wrap_logPath c t v logv hw hvE hvz,
    logPath_rne c _ logv hn hn64 hE1 hE2 sr hsr h1 h63 E hE hlo hhi]
  exact decode_encodeNum c.nbits hn _ E hlo hhi

/-- (3) Saturating twin: none of the four threshold pre-tests fires -/
theorem convertF64_nearest_observed_sat (c : Cfg) (t : Thresholds) (v logv : Nat)
    (hn : 2 ≤ c.nbits) (hn64 : c.nbits ≤ 64) (hw : c.wrap = false)
    (hvE : expOf f64 v ≠ 2047) (hvz : IeeeBits.isZero f64 v = false)
    (g1 : (IeeeBits.lt f64 0 v && IeeeBits.le f64 t.mx v) = false)
    (g2 : (IeeeBits.lt f64 v 0 && IeeeBits.le f64 v (negate f64 t.mx)) = false)
    (g3 : IeeeBits.le f64 (absB f64 v) t.hm = false) (g4 : IeeeBits.le f64 (absB f64 v) t.mn = false)
    (hE1 : 1 ≤ expOf f64 logv) (hE2 : expOf f64 logv < 2047)
    (sr : Nat) (hsr : (sr : Int) = 1075 - (expOf f64 logv : Int) - (c.rbits : Int)) (h1 : 1 ≤ sr) (h63 : sr ≤ 63)
    (E : Int)
    (hE : E = (if signOf f64 logv then -1 else 1) * rne (((2 ^ c.rbits : Nat) : Rat) * |IeeeBits.toRat f64 logv|))
    (hlo : minE c.nbits ≤ E) (hhi : E ≤ maxE c.nbits) :
    convertF64 c t v logv < 2 ^ c.nbits ∧
    decode c.nbits (convertF64 c t v logv) = Val.num (IeeeBits.lt f64 v 0) E := by
  rw [convertF64_sat_logPath c t v logv hw hvE hvz g1 g2 g3 g4,
    logPath_rne c _ logv hn hn64 hE1 hE2 sr hsr h1 h63 E hE hlo hhi]
  exact decode_encodeNum c.nbits hn _ E hlo hhi

/-! ### (4) non-vacuity: a NON-integer logarithm -/

-- lns<8,3> Wrapping, v = 3.0, logv = log2 3 = 1.58496…: 8·1.585 = 12.68 ↦ exponent field 13
example : convertF64 ⟨8, 3, 8, true⟩ ⟨0, 0, 0⟩ 0x4008000000000000 0x3ff95c01a39fbd68 = 13 := by decide +kernel
example : decode 8 13 = Val.num false 13 := by decide
-- the hypotheses of `logPath_rneShr` hold for it: expOf = 1023, sr = 1075 - 1023 - 3 = 49, rneShr significand 49 = 13
example : expOf f64 0x3ff95c01a39fbd68 = 1023 ∧ signOf f64 0x3ff95c01a39fbd68 = false ∧
    rneShr (fracOf f64 0x3ff95c01a39fbd68 + 2 ^ 52) 49 = 13 ∧ minE 8 ≤ 13 ∧ (13 : Int) ≤ maxE 8 := by decide +kernel
-- v = 1/3, logv = -log2 3 (sign bit set): exponent field -13 ↦ two's complement in 7 bits = 115
example : convertF64 ⟨8, 3, 8, true⟩ ⟨0, 0, 0⟩ 0x3fd5555555555555 0xbff95c01a39fbd68 = 115 := by decide +kernel
example : decode 8 115 = Val.num false (-13) := by decide

end UVerif.ConvLnsLemmas
