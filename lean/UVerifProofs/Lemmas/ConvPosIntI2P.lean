/-
  UVerifProofs.Lemmas.ConvPosIntI2P — `convert_i2p` (integer → posit adapter):
  `scale(integer)` is ⌊log2 |x|⌋, the copied fraction denotes |x| exactly whenever the most significant bit position
  does not exceed nbits, and the bitset throws otherwise.
-/
import UVerif.Model.ConvPosInt
import UVerifProofs.Lemmas.Integer
import UVerifProofs.Lemmas.PositArith
import UVerifProofs.Lemmas.Pow2

namespace UVerif.ConvPosInt
open UVerif UVerif.Limbs UVerif.Posit

variable {w : Nat}

/-- magnitude of the value of an n-bit pattern, as a pattern computation -/
theorem natAbs_toSigned {n A : Nat} (hn : 0 < n) (hA : A < 2 ^ n) :
    (toSigned n A).natAbs = if A < 2 ^ (n - 1) then A else 2 ^ n - A := by
  rw [toSigned_of_lt hn hA]
  split
  · simp
  · have : ((A : Nat) : Int) - ((2 ^ n : Nat) : Int) = -(((2 ^ n - A : Nat)) : Int) := by
      rw [Nat.cast_sub (le_of_lt hA)]; ring
    rw [this]; simp

/-- `w2 = sign ? twosComplement(w) : w` holds |x| -/
theorem absPattern_spec {n : Nat} (hw : 0 < w) (hn : 0 < n) {a : List Nat}
    (ha : Canon w n a) :
    toNat w (if Integer.isneg w n a then Integer.twosC w n a else a) = (toInt w n a).natAbs := by
  have hA := ha.2.2
  have hp : 2 ^ n = 2 ^ (n - 1) * 2 := by rw [← Nat.pow_succ]; congr 1; omega
  rw [Integer.isneg_spec hw hn ha]
  unfold toInt
  rw [natAbs_toSigned hn hA, toSigned_of_lt hn hA]
  by_cases hs : toNat w a < 2 ^ (n - 1)
  · rw [if_pos hs, if_pos hs]
    have : ¬ ((toNat w a : Nat) : Int) < 0 := by omega
    rw [decide_eq_false this]
    simp
  · rw [if_neg hs, if_neg hs]
    have h1 : ((toNat w a : Nat) : Int) < ((2 ^ n : Nat) : Int) := by exact_mod_cast hA
    have : ((toNat w a : Nat) : Int) - ((2 ^ n : Nat) : Int) < 0 := by omega
    rw [decide_eq_true this, if_pos rfl]
    obtain ⟨_, htv⟩ := Integer.twosC_spec hw hn ha.shape
    rw [htv, Nat.mod_eq_of_lt hA, Nat.mod_eq_of_lt (by omega)]

/-- the (sign, scale, fraction) triple assembled by `convert_i2p`: scale = position of the most significant bit of |x|, the
    fraction loop `i2pFrac` into `P` fraction bits -/
def i2pVal (P : Nat) (x : Int) : Val :=
  let m := x.natAbs.log2
  { sign := decide (x < 0), scale := (m : Int), frac := i2pFrac P m x.natAbs, fb := P,
    zero := decide (x = 0), inf := false }

/-- the model's `i2p` in closed form: the conversion of the triple `i2pVal` -/
theorem i2p_eq {n P es : Nat} (hw : 0 < w) (hn : 2 ≤ n) {a : List Nat}
    (ha : Canon w n a) (hx : toInt w n a ≠ 0) :
    i2p w n P es a = .enc (Posit.convert P es (i2pVal P (toInt w n a))) := by
  have hn0 : 0 < n := by omega
  unfold i2p i2pCore
  simp only
  have habs := absPattern_spec hw hn0 ha
  have hne : (toInt w n a).natAbs ≠ 0 := by omega
  have hmsb : msbPos w (if Integer.isneg w n a then Integer.twosC w n a else a) = (((toInt w n a).natAbs.log2 : Nat) : Int) := by
    rw [Integer.msbPos_eq (by rw [habs]; exact hne), habs]
  rw [hmsb, habs]
  obtain ⟨hz, hzv⟩ := Integer.convertSigned_zero (w := w) hw hn0
  have hsign : Integer.isneg w n a = decide (toInt w n a < 0) := Integer.isneg_spec hw hn0 ha
  have hzero : Integer.eq a (Integer.convertSigned w n 0) = decide (toInt w n a = 0) := by
    rw [Integer.eq_spec ha hz]
    have : toSigned n (toNat w (Integer.convertSigned w n 0)) = 0 := by rw [hzv]; unfold toSigned; simp
    rw [this]; rfl
  simp only [Int.toNat_natCast, hsign, hzero, i2pVal]

/-- when the most significant bit position does not exceed the fraction width every bit below it is copied: the triple
    denotes the integer exactly -/
theorem i2pVal_exact (P : Nat) (x : Int) (hx : x ≠ 0) (hfit : x.natAbs.log2 ≤ P) :
    (i2pVal P x).Fin ∧ (i2pVal P x).toRat = (x : ℚ) := by
  have hm0 : x.natAbs ≠ 0 := by omega
  set mag := x.natAbs with hmag
  have hlo : 2 ^ mag.log2 ≤ mag := Nat.log2_self_le hm0
  have hhi : mag < 2 ^ (mag.log2 + 1) := Nat.lt_log2_self
  set sc := mag.log2 with hsc
  have hmod : mag % 2 ^ sc = mag - 2 ^ sc := by
    rw [Nat.pow_succ] at hhi
    rw [Nat.mod_eq_sub_mod hlo, Nat.mod_eq_of_lt (by omega)]
  have hfr : i2pFrac P sc mag = (mag - 2 ^ sc) * 2 ^ (P - sc) := by
    unfold i2pFrac
    rw [if_pos hfit, Nat.shiftLeft_eq, hmod]
  have hP : 2 ^ P = 2 ^ sc * 2 ^ (P - sc) := by rw [← Nat.pow_add]; congr 1; omega
  have hx0 : decide (x = 0) = false := decide_eq_false hx
  refine ⟨⟨by simp [i2pVal, hx0], rfl, ?_⟩, ?_⟩
  · show i2pFrac P sc mag < 2 ^ P
    rw [hfr, hP]
    apply Nat.mul_lt_mul_of_pos_right _ (Nat.two_pow_pos _)
    rw [Nat.pow_succ] at hhi; omega
  · unfold Val.toRat i2pVal
    simp only [hx0, Bool.false_eq_true, if_false]
    rw [← hmag, ← hsc, hfr, pow2_natCast]
    have hxq : (x : ℚ) = if x < 0 then -(mag : ℚ) else (mag : ℚ) := by
      split
      · have : x = -(mag : Int) := by omega
        rw [this]; push_cast; ring
      · have : x = (mag : Int) := by omega
        rw [this]; push_cast; ring
    have hval : (1 + ((((mag - 2 ^ sc) * 2 ^ (P - sc) : Nat)) : ℚ) / ((2 ^ P : Nat) : ℚ)) * ((2 ^ sc : Nat) : ℚ) = (mag : ℚ) := by
      rw [hP]
      push_cast [Nat.cast_sub hlo]
      have p1 : (0 : ℚ) < 2 ^ (P - sc) := by positivity
      have p2 : (0 : ℚ) < 2 ^ sc := by positivity
      field_simp
      ring
    rw [hxq]
    by_cases hneg : x < 0
    · simp only [hneg, decide_true, if_true, hval]
    · simp only [hneg, decide_false, Bool.false_eq_true, if_false, hval]

/-! ### more significant bits than the `bitblock<nbits>` holds: the sticky bit

`convert_<nbits,es,fbits>` reads at most `nbits − 1` fraction bits from the top and ORs everything below into one sticky bit,
so a fraction whose low bits were already collapsed into bit 0 converts like the full-width fraction. -/

theorem stickyShr_shr (x k j : Nat) (hj : 1 ≤ j) : stickyShr x k >>> j = x >>> (k + j) := by
  unfold stickyShr
  rw [Nat.shiftRight_or_distrib, ← Nat.shiftRight_add]
  have : (if x % 2 ^ k ≠ 0 then 1 else 0) >>> j = 0 := by
    rw [Nat.shiftRight_eq_div_pow]
    apply Nat.div_eq_of_lt
    have : 1 < 2 ^ j := Nat.one_lt_two_pow (by omega)
    split <;> omega
  rw [this, Nat.or_zero]

theorem stickyShr_mod_eq_zero (x k j : Nat) (hj : 1 ≤ j) : stickyShr x k % 2 ^ j = 0 ↔ x % 2 ^ (k + j) = 0 := by
  unfold stickyShr
  have h1 : 1 < 2 ^ j := Nat.one_lt_two_pow (by omega)
  have hb : (if x % 2 ^ k ≠ 0 then 1 else 0) % 2 ^ j = (if x % 2 ^ k ≠ 0 then 1 else 0) := by
    apply Nat.mod_eq_of_lt; split <;> omega
  rw [Nat.or_mod_two_pow, hb, Nat.or_eq_zero_iff, Nat.shiftRight_eq_div_pow, Nat.pow_add, Nat.mod_mul]
  have hp := Nat.two_pow_pos k
  constructor
  · rintro ⟨ha, hb⟩
    have : x % 2 ^ k = 0 := by
      by_contra hc; rw [if_pos hc] at hb; omega
    rw [this, ha]; simp
  · intro h
    have h0 : x % 2 ^ k = 0 := by omega
    have h2 : 2 ^ k * (x / 2 ^ k % 2 ^ j) = 0 := by omega
    refine ⟨?_, by rw [h0]; simp⟩
    rcases Nat.mul_eq_zero.mp h2 with h3 | h3
    · omega
    · exact h3

/-- `convert_` looks at the fraction only through the top `nf ≤ nbits − 1` bits and the OR of the rest -/
theorem convert_sticky_frac (n es : Nat) (sign : Bool) (scale : Int) (m frac : Nat) (hn : 1 ≤ n) (hm : n < m) :
    convert_ n es sign scale n (stickyShr frac (m - n)) = convert_ n es sign scale m frac := by
  unfold convert_
  split
  · rfl
  · simp only
    generalize (if decide (scale ≥ 0) = true then (1 + scale.fdiv ((2 ^ es : Nat) : Int)).toNat
      else (-scale.fdiv ((2 ^ es : Nat) : Int)).toNat) = run
    generalize hnf : ((n : Int) + 1 - (2 + (run : Int) + (es : Int))).toNat = nf
    have hnf1 : nf + 1 ≤ n := by omega
    have hle : nf ≤ n := by omega
    have hlem : nf ≤ m := by omega
    simp only [if_pos hle, if_pos hlem]
    · have e1 : stickyShr frac (m - n) >>> (n - nf) = frac >>> (m - nf) := by
        rw [stickyShr_shr _ _ _ (by omega)]; congr 1; omega
      have e2 : (stickyShr frac (m - n) % 2 ^ (n - nf) ≠ 0) ↔ (frac % 2 ^ (m - nf) ≠ 0) := by
        rw [not_iff_not, stickyShr_mod_eq_zero _ _ _ (by omega)]
        have : m - n + (n - nf) = m - nf := by omega
        rw [this]
      rw [e1]
      simp only [e2]

/-- **the triple assembled by `convert_i2p` converts to the correct rounding of the integer**, whatever the number of
    significant bits: up to nbits+1 of them the triple is exact (`i2pVal_exact`); beyond, the triple with the sticky bit
    converts like the exact triple with `msb` fraction bits (`convert_sticky_frac`). -/
theorem i2pVal_round (n es : Nat) (hn : 2 ≤ n) (x : Int) (hx : x ≠ 0) :
    nearestB n es (x : ℚ) (Posit.convert n es (i2pVal n x)) = true := by
  by_cases hfit : x.natAbs.log2 ≤ n
  · obtain ⟨hfin, hval⟩ := i2pVal_exact n x hx hfit
    have := convert_val_correct n es hn _ hfin
    rwa [hval] at this
  · obtain ⟨hfin, hval⟩ := i2pVal_exact x.natAbs.log2 x hx (le_refl _)
    have h := convert_val_correct n es hn _ hfin
    rw [hval] at h
    have e : Posit.convert n es (i2pVal n x) = Posit.convert n es (i2pVal x.natAbs.log2 x) := by
      unfold Posit.convert i2pVal i2pFrac
      simp only [decide_eq_false hx, Bool.false_eq_true, if_false, if_neg hfit, le_refl, if_true, Nat.sub_self,
        Nat.shiftLeft_zero]
      exact convert_sticky_frac n es _ _ _ _ (by omega) (by omega)
    rwa [e]

end UVerif.ConvPosInt
