/-
  UVerifProofs.Lemmas.ConvPosIntI2P — `convert_i2p` (integer → posit adapter):
  `scale(integer)` is ⌊log2 |x|⌋, the copied fraction denotes |x| exactly whenever the most significant bit position
  does not exceed nbits, and the bitset throws otherwise.
-/
import UVerif.Model.ConvPosInt
import UVerifProofs.Lemmas.Integer
import UVerifProofs.Lemmas.PositArith
import UVerifProofs.Lemmas.Pow2

namespace UVerif.ConvPosInt
open UVerif UVerif.Limbs UVerif.Posit

variable {w : Nat}

theorem toNat_one {N : Nat} (hw : 0 < w) :
    Canon w (N + 1) (Integer.convertSigned w (N + 1) 1) ∧ toNat w (Integer.convertSigned w (N + 1) 1) = 1 := by
  obtain ⟨h, hv⟩ := Integer.convertSigned_spec (w := w) (n := N + 1) hw (by omega) 1
  exact ⟨h, by rw [hv, Integer.ofSigned_one (by omega)]⟩

/-- the loop `while (v > 1) { ++scale; v >>= 1; }` on a non-negative value counts ⌊log2 v⌋ rounds -/
theorem scaleLoop_spec {N : Nat} (hw : 0 < w) (hN : 0 < N) (h64 : w ≠ 64 ∨ nrBlocks w (N + 1) = 1) :
    ∀ (f : Nat) (v : List Nat), Canon w (N + 1) v → toNat w v < 2 ^ N → toNat w v < 2 ^ f →
      scaleLoop w (N + 1) (f + 1) v = some (toNat w v).log2 := by
  intro f
  induction f with
  | zero =>
    intro v hv hlt hf
    have h0 : toNat w v = 0 := by simpa using hf
    obtain ⟨h1, h1v⟩ := toNat_one (w := w) (N := N) hw
    unfold scaleLoop
    rw [Integer.lt_spec hw (by omega) h64 h1 hv, h1v, h0]
    have e1 : toSigned (N + 1) 1 = 1 := by
      rw [Integer.toSigned_small (by omega) (by simpa using Nat.one_lt_two_pow (by omega : N ≠ 0))]; rfl
    have e0 : toSigned (N + 1) 0 = 0 := by unfold toSigned; simp
    rw [e1, e0]
    simp [Nat.log2_def]
  | succ f ih =>
    intro v hv hlt hf
    obtain ⟨h1, h1v⟩ := toNat_one (w := w) (N := N) hw
    unfold scaleLoop
    rw [Integer.lt_spec hw (by omega) h64 h1 hv, h1v]
    have e1 : toSigned (N + 1) 1 = 1 := by
      rw [Integer.toSigned_small (by omega) (by simpa using Nat.one_lt_two_pow (by omega : N ≠ 0))]; rfl
    have eV : toSigned (N + 1) (toNat w v) = ((toNat w v : Nat) : Int) :=
      Integer.toSigned_small (by omega) (by simpa using hlt)
    rw [e1, eV]
    by_cases h2 : 2 ≤ toNat w v
    · have hd : decide ((1 : Int) < ((toNat w v : Nat) : Int)) = true := by
        apply decide_eq_true; omega
      rw [hd, if_pos rfl]
      obtain ⟨hc, hsv⟩ := Integer.shr_one_small hw hN hv hlt
      have hlt' : toNat w (Integer.shr w (N + 1) v 1) < 2 ^ N := by rw [hsv]; omega
      have hf' : toNat w (Integer.shr w (N + 1) v 1) < 2 ^ f := by
        rw [hsv]; rw [Nat.pow_succ] at hf; omega
      rw [ih _ hc hlt' hf', hsv]
      simp only [Option.map_some]
      congr 1
      conv_rhs => rw [Nat.log2_def]
      rw [if_pos h2]
    · have hd : decide ((1 : Int) < ((toNat w v : Nat) : Int)) = false := by
        apply decide_eq_false; omega
      rw [hd]
      simp only [Bool.false_eq_true, if_false]
      congr 1
      rw [Nat.log2_def, if_neg h2]

/-- magnitude of the value of an n-bit pattern, as a pattern computation -/
theorem natAbs_toSigned {n A : Nat} (hn : 0 < n) (hA : A < 2 ^ n) :
    (toSigned n A).natAbs = if A < 2 ^ (n - 1) then A else 2 ^ n - A := by
  rw [toSigned_of_lt hn hA]
  split
  · simp
  · have : ((A : Nat) : Int) - ((2 ^ n : Nat) : Int) = -(((2 ^ n - A : Nat)) : Int) := by
      rw [Nat.cast_sub (le_of_lt hA)]; ring
    rw [this]; simp

/-- `scale(const integer&)` returns ⌊log2 |x|⌋ (0 for x = 0), the most negative value included -/
theorem intScale_spec {n : Nat} (hw : 0 < w) (hn : 2 ≤ n) (h64 : w ≠ 64 ∨ nrBlocks w n = 1) {a : List Nat}
    (ha : Canon w n a) : intScale w n a = some (toInt w n a).natAbs.log2 := by
  obtain ⟨N, rfl⟩ : ∃ N, n = N + 1 := ⟨n - 1, by omega⟩
  have hN : 0 < N := by omega
  have hA := ha.2.2
  have hp : 2 ^ (N + 1) = 2 ^ N * 2 := by rw [Nat.pow_succ]
  unfold intScale toInt
  rw [natAbs_toSigned (by omega) hA, Integer.sign_canon hw (by omega) ha]
  simp only [Nat.add_sub_cancel]
  by_cases hs : 2 ^ N ≤ toNat w a
  · rw [decide_eq_true hs, if_pos rfl, if_neg (by omega : ¬ toNat w a < 2 ^ N)]
    obtain ⟨ht, htv⟩ := Integer.twosC_spec hw (by omega : 0 < N + 1) h64 ha.shape
    rw [Nat.mod_eq_of_lt hA, Nat.mod_eq_of_lt (by omega)] at htv
    rw [Integer.eq_spec ht ha]
    by_cases he : toNat w a = 2 ^ N
    · have : toSigned (N + 1) (toNat w (Integer.twosC w (N + 1) a)) = toSigned (N + 1) (toNat w a) := by
        rw [htv, he]; congr 1; omega
      rw [decide_eq_true this, if_pos rfl, he]
      congr 1
      have : 2 ^ (N + 1) - 2 ^ N = 2 ^ N := by omega
      rw [this, Nat.log2_two_pow]
    · have : ¬ toSigned (N + 1) (toNat w (Integer.twosC w (N + 1) a)) = toSigned (N + 1) (toNat w a) := by
        rw [Integer.toSigned_inj ht.2.2 hA, htv]; omega
      rw [decide_eq_false this]
      simp only [Bool.false_eq_true, if_false]
      have hlt : toNat w (Integer.twosC w (N + 1) a) < 2 ^ N := by rw [htv]; omega
      have hf : toNat w (Integer.twosC w (N + 1) a) < 2 ^ (N + 1 + 1) := by
        have : 2 ^ N < 2 ^ (N + 1 + 1) := Nat.pow_lt_pow_right (by decide) (by omega)
        omega
      rw [scaleLoop_spec hw hN h64 (N + 1 + 1) _ ht hlt hf, htv]
  · rw [decide_eq_false hs]
    simp only [Bool.false_eq_true, if_false]
    rw [if_pos (by omega : toNat w a < 2 ^ N)]
    have hlt : toNat w a < 2 ^ N := by omega
    have hf : toNat w a < 2 ^ (N + 1 + 1) := by
      have : 2 ^ N < 2 ^ (N + 1 + 1) := Nat.pow_lt_pow_right (by decide) (by omega)
      omega
    rw [scaleLoop_spec hw hN h64 (N + 1 + 1) _ ha hlt hf]

/-- `w2 = sign ? twosComplement(w) : w` holds |x| -/
theorem absPattern_spec {n : Nat} (hw : 0 < w) (hn : 0 < n) (h64 : w ≠ 64 ∨ nrBlocks w n = 1) {a : List Nat}
    (ha : Canon w n a) :
    toNat w (if Integer.isneg w n a then Integer.twosC w n a else a) = (toInt w n a).natAbs := by
  have hA := ha.2.2
  have hp : 2 ^ n = 2 ^ (n - 1) * 2 := by rw [← Nat.pow_succ]; congr 1; omega
  rw [Integer.isneg_spec hw hn h64 ha]
  unfold toInt
  rw [natAbs_toSigned hn hA, toSigned_of_lt hn hA]
  by_cases hs : toNat w a < 2 ^ (n - 1)
  · rw [if_pos hs, if_pos hs]
    have : ¬ ((toNat w a : Nat) : Int) < 0 := by omega
    rw [decide_eq_false this]
    simp
  · rw [if_neg hs, if_neg hs]
    have h1 : ((toNat w a : Nat) : Int) < ((2 ^ n : Nat) : Int) := by exact_mod_cast hA
    have : ((toNat w a : Nat) : Int) - ((2 ^ n : Nat) : Int) < 0 := by omega
    rw [decide_eq_true this, if_pos rfl]
    obtain ⟨_, htv⟩ := Integer.twosC_spec hw hn h64 ha.shape
    rw [htv, Nat.mod_eq_of_lt hA, Nat.mod_eq_of_lt (by omega)]

/-- the (sign, scale, fraction) triple assembled by `convert_i2p` -/
def i2pVal (P : Nat) (x : Int) : Val :=
  let m := x.natAbs.log2
  { sign := decide (x < 0), scale := (m : Int), frac := (x.natAbs % 2 ^ m) <<< (P - m), fb := P,
    zero := decide (x = 0), inf := false }

/-- the model's `i2p` in closed form: throws iff ⌊log2 |x|⌋ > nbits, otherwise converts the triple `i2pVal` -/
theorem i2p_eq {n P es : Nat} (hw : 0 < w) (hn : 2 ≤ n) (h64 : w ≠ 64 ∨ nrBlocks w n = 1) {a : List Nat}
    (ha : Canon w n a) (hx : toInt w n a ≠ 0) :
    i2p w n P es a = if (toInt w n a).natAbs.log2 > P then .exc else .enc (Posit.convert P es (i2pVal P (toInt w n a))) := by
  have hn0 : 0 < n := by omega
  unfold i2p
  simp only
  rw [intScale_spec hw hn h64 ha]
  simp only
  have habs := absPattern_spec hw hn0 h64 ha
  have hne : (toInt w n a).natAbs ≠ 0 := by omega
  have hmsb : msbPos w (if Integer.isneg w n a then Integer.twosC w n a else a) = (((toInt w n a).natAbs.log2 : Nat) : Int) := by
    rw [Integer.msbPos_eq (by rw [habs]; exact hne), habs]
  rw [hmsb, habs]
  obtain ⟨hz, hzv⟩ := Integer.convertSigned_zero (w := w) hw hn0
  have hsign : Integer.isneg w n a = decide (toInt w n a < 0) := Integer.isneg_spec hw hn0 h64 ha
  have hzero : Integer.eq a (Integer.convertSigned w n 0) = decide (toInt w n a = 0) := by
    rw [Integer.eq_spec ha hz]
    have : toSigned n (toNat w (Integer.convertSigned w n 0)) = 0 := by rw [hzv]; unfold toSigned; simp
    rw [this]; rfl
  by_cases hgt : (toInt w n a).natAbs.log2 > P
  · rw [if_pos hgt, if_pos (by exact_mod_cast hgt)]
  · rw [if_neg hgt, if_neg (by exact_mod_cast hgt)]
    simp only [Int.toNat_natCast, hsign, hzero, i2pVal]

/-- the triple denotes the integer exactly when its most significant bit position does not exceed the fraction width -/
theorem i2pVal_exact (P : Nat) (x : Int) (hx : x ≠ 0) (hfit : x.natAbs.log2 ≤ P) :
    (i2pVal P x).Fin ∧ (i2pVal P x).toRat = (x : ℚ) := by
  have hm0 : x.natAbs ≠ 0 := by omega
  set mag := x.natAbs with hmag
  have hlo : 2 ^ mag.log2 ≤ mag := Nat.log2_self_le hm0
  have hhi : mag < 2 ^ (mag.log2 + 1) := Nat.lt_log2_self
  set sc := mag.log2 with hsc
  have hmod : mag % 2 ^ sc = mag - 2 ^ sc := by
    rw [Nat.pow_succ] at hhi
    rw [Nat.mod_eq_sub_mod hlo, Nat.mod_eq_of_lt (by omega)]
  have hfr : (mag % 2 ^ sc) <<< (P - sc) = (mag - 2 ^ sc) * 2 ^ (P - sc) := by rw [Nat.shiftLeft_eq, hmod]
  have hP : 2 ^ P = 2 ^ sc * 2 ^ (P - sc) := by rw [← Nat.pow_add]; congr 1; omega
  have hx0 : decide (x = 0) = false := decide_eq_false hx
  refine ⟨⟨by simp [i2pVal, hx0], rfl, ?_⟩, ?_⟩
  · show (mag % 2 ^ sc) <<< (P - sc) < 2 ^ P
    rw [hfr, hP]
    apply Nat.mul_lt_mul_of_pos_right _ (Nat.two_pow_pos _)
    rw [Nat.pow_succ] at hhi; omega
  · unfold Val.toRat i2pVal
    simp only [hx0, Bool.false_eq_true, if_false]
    rw [← hmag, ← hsc, hfr, pow2_natCast]
    have hxq : (x : ℚ) = if x < 0 then -(mag : ℚ) else (mag : ℚ) := by
      split
      · have : x = -(mag : Int) := by omega
        rw [this]; push_cast; ring
      · have : x = (mag : Int) := by omega
        rw [this]; push_cast; ring
    have hval : (1 + ((((mag - 2 ^ sc) * 2 ^ (P - sc) : Nat)) : ℚ) / ((2 ^ P : Nat) : ℚ)) * ((2 ^ sc : Nat) : ℚ) = (mag : ℚ) := by
      rw [hP]
      push_cast [Nat.cast_sub hlo]
      have p1 : (0 : ℚ) < 2 ^ (P - sc) := by positivity
      have p2 : (0 : ℚ) < 2 ^ sc := by positivity
      field_simp
      ring
    rw [hxq]
    by_cases hneg : x < 0
    · simp only [hneg, decide_true, if_true, hval]
    · simp only [hneg, decide_false, Bool.false_eq_true, if_false, hval]

end UVerif.ConvPosInt
