/-
  UVerifProofs.Lemmas.ConvPosIntP2I — `convert_p2i` (posit → integer adapter):
  the truncation toward zero of a (sign, scale, fraction) triple as a natural-number quotient, and the value of the
  model's shift / negate pipeline in the regions where the pinned code is right.
-/
import UVerif.Model.ConvPosInt
import UVerif.Spec.ConvPosInt
import UVerifProofs.Lemmas.Integer
import UVerifProofs.Lemmas.PositArith
import UVerifProofs.Lemmas.Pow2

namespace UVerif.ConvPosInt
open UVerif UVerif.Limbs UVerif.Posit

/-- truncation toward zero of ±A/D -/
theorem truncZ_signed_div (sign : Bool) (A D : Nat) (hD : 0 < D) :
    truncZ ((if sign then -1 else 1) * ((A : ℚ) / (D : ℚ))) =
      if sign then -(((A / D : Nat)) : Int) else (((A / D : Nat)) : Int) := by
  have hDq : (0 : ℚ) < (D : ℚ) := by exact_mod_cast hD
  have hq0 : (0 : ℚ) ≤ (A : ℚ) / (D : ℚ) := by positivity
  have hfl : ((A : ℚ) / (D : ℚ)).floor = ((A / D : Nat) : Int) := by
    show ⌊(A : ℚ) / (D : ℚ)⌋ = _
    rw [Rat.floor_natCast_div_natCast]; exact (Int.natCast_div A D).symm
  unfold truncZ
  cases sign
  · simp only [Bool.false_eq_true, if_false, one_mul]
    rw [if_pos hq0, hfl]
  · simp only [if_true, neg_one_mul]
    by_cases h0 : -((A : ℚ) / (D : ℚ)) ≥ 0
    · rw [if_pos h0]
      have hz : (A : ℚ) / (D : ℚ) = 0 := by linarith
      have hA : A = 0 := by
        rcases div_eq_zero_iff.mp hz with h | h
        · exact_mod_cast h
        · exact absurd h (ne_of_gt hDq)
      subst hA
      simp [Rat.floor]
    · rw [if_neg h0, Rat.ceil_eq_neg_floor_neg, neg_neg, hfl]

/-- the real value of a triple as a signed quotient of naturals: numerator `sig·2^max(s,0)`, denominator `2^fb·2^max(−s,0)` -/
theorem tripleVal_eq_div (sign : Bool) (s : Int) (fb frac : Nat) :
    tripleVal sign s fb frac =
      (if sign then -1 else 1) * ((((2 ^ fb + frac) * 2 ^ s.toNat : Nat) : ℚ) / ((2 ^ fb * 2 ^ (-s).toNat : Nat) : ℚ)) := by
  unfold tripleVal valS
  congr 1
  have p1 : (0 : ℚ) < 2 ^ fb := by positivity
  by_cases hs : 0 ≤ s
  · obtain ⟨k, rfl⟩ := Int.eq_ofNat_of_zero_le hs
    have : (-(k : Int)).toNat = 0 := by omega
    rw [this]
    simp only [Int.toNat_natCast, zpow_natCast, Nat.pow_zero, Nat.mul_one]
    push_cast
    field_simp
  · obtain ⟨k, hk⟩ : ∃ k : Nat, s = -((k : Int)) := ⟨(-s).toNat, by omega⟩
    subst hk
    have h1 : (-(k : Int)).toNat = 0 := by omega
    have h2 : (- -(k : Int)).toNat = k := by omega
    rw [h1, h2]
    simp only [zpow_neg, zpow_natCast, Nat.pow_zero, Nat.mul_one]
    push_cast
    have p2 : (0 : ℚ) < 2 ^ k := by positivity
    field_simp

/-- magnitude of the truncated value of a triple -/
def truncMag (s : Int) (fb frac : Nat) : Nat := ((2 ^ fb + frac) * 2 ^ s.toNat) / (2 ^ fb * 2 ^ (-s).toNat)

theorem truncZ_tripleVal (sign : Bool) (s : Int) (fb frac : Nat) :
    truncZ (tripleVal sign s fb frac) = if sign then -((truncMag s fb frac : Nat) : Int) else ((truncMag s fb frac : Nat) : Int) := by
  rw [tripleVal_eq_div]
  exact truncZ_signed_div sign _ _ (Nat.mul_pos (Nat.two_pow_pos _) (Nat.two_pow_pos _))

theorem truncMag_neg {s : Int} {fb frac : Nat} (hs : s < 0) (hf : frac < 2 ^ fb) : truncMag s fb frac = 0 := by
  unfold truncMag
  have h1 : s.toNat = 0 := by omega
  obtain ⟨k, hk⟩ : ∃ k : Nat, (-s).toNat = k + 1 := ⟨(-s).toNat - 1, by omega⟩
  rw [h1, hk]
  apply Nat.div_eq_of_lt
  have : 2 ^ (k + 1) = 2 * 2 ^ k := by rw [Nat.pow_succ, Nat.mul_comm]
  have hk1 : 1 ≤ 2 ^ k := Nat.one_le_two_pow
  calc (2 ^ fb + frac) * 2 ^ 0 < 2 ^ fb * 2 := by omega
    _ ≤ 2 ^ fb * (2 * 2 ^ k) := by
        apply Nat.mul_le_mul_left
        omega
    _ = 2 ^ fb * 2 ^ (k + 1) := by rw [this]

theorem truncMag_zero {fb frac : Nat} (hf : frac < 2 ^ fb) : truncMag 0 fb frac = 1 := by
  unfold truncMag
  simp only [Int.toNat_zero, Nat.pow_zero, Nat.mul_one, neg_zero]
  apply Nat.div_eq_of_lt_le <;> omega

theorem truncMag_pos {s : Int} {fb frac : Nat} (hs : 0 ≤ s) :
    truncMag s fb frac = (2 ^ fb + frac) * 2 ^ s.toNat / 2 ^ fb := by
  unfold truncMag
  have : (-s).toNat = 0 := by omega
  rw [this]; simp

/-- `v <<= scale − fbits` applied to the copied significand bits gives the truncated magnitude modulo 2^ibits:
    always for a left shift (scale ≥ fbits), and for a right shift when the integer is wider than the significand -/
theorem shl_core {ibits fb frac : Nat} {s : Int} (hib : 0 < ibits) (hf : frac < 2 ^ fb) (hs : 0 < s)
    (h : (fb : Int) ≤ s ∨ fb + 1 < ibits) :
    ofSigned ibits (IntegerSpec.shlZ (toSigned ibits ((2 ^ fb + frac) % 2 ^ (if ibits < fb + 1 then ibits else fb + 1))) (s - (fb : Int)))
      = ofSigned ibits ((truncMag s fb frac : Nat) : Int) := by
  obtain ⟨k, rfl⟩ := Int.eq_ofNat_of_zero_le (le_of_lt hs)
  rw [truncMag_pos (by omega)]
  simp only [Int.toNat_natCast]
  set sig := 2 ^ fb + frac with hsig
  have hsiglt : sig < 2 ^ (fb + 1) := by rw [Nat.pow_succ]; omega
  unfold IntegerSpec.shlZ
  by_cases hge : fb ≤ k
  · -- left shift by k − fb: everything is a congruence modulo 2^ibits
    rw [if_pos (by omega)]
    have hk : ((k : Int) - (fb : Int)).toNat = k - fb := by omega
    rw [hk]
    have hq : sig * 2 ^ k / 2 ^ fb = sig * 2 ^ (k - fb) := by
      have : 2 ^ k = 2 ^ (k - fb) * 2 ^ fb := by rw [← Nat.pow_add]; congr 1; omega
      rw [this, ← Nat.mul_assoc, Nat.mul_div_cancel _ (Nat.two_pow_pos _)]
    rw [hq]
    apply ofSigned_congr
    have hmod : toSigned ibits (sig % 2 ^ (if ibits < fb + 1 then ibits else fb + 1)) ≡ (sig : Int) [ZMOD M2 ibits] := by
      refine (modEq_toSigned ibits _).trans ?_
      split
      · exact modEq_natMod sig ibits
      · rw [Nat.mod_eq_of_lt hsiglt]
    have h2 := (hmod.mul_right (((2 ^ (k - fb) : Nat)) : Int)).symm.dvd
    unfold M2 at h2
    rw [Nat.cast_mul]
    exact h2
  · -- right shift: only when the integer is wider than the significand, so that nothing was cut off
    have hwide : fb + 1 < ibits := by
      rcases h with h | h
      · omega
      · exact h
    rw [if_neg (by omega), if_neg (by omega), Nat.mod_eq_of_lt hsiglt]
    have hsmall : sig < 2 ^ (ibits - 1) := Nat.lt_of_lt_of_le hsiglt (Nat.pow_le_pow_right (by decide) (by omega))
    rw [Integer.toSigned_small hib hsmall]
    have hk : (-((k : Int) - (fb : Int))).toNat = fb - k := by omega
    rw [hk]
    have hq : sig * 2 ^ k / 2 ^ fb = sig / 2 ^ (fb - k) := by
      have : 2 ^ fb = 2 ^ (fb - k) * 2 ^ k := by rw [← Nat.pow_add]; congr 1; omega
      rw [this, Nat.mul_div_mul_right _ _ (Nat.two_pow_pos _)]
    rw [hq]
    congr 1

/-- two's complement of a pattern that holds `M` modulo 2^n holds `−M` -/
theorem neg_pattern (n : Nat) (M : Int) :
    (2 ^ n - ofSigned n M % 2 ^ n) % 2 ^ n = ofSigned n (-M) := by
  rw [← ofSigned_neg]
  apply ofSigned_congr
  have h := (modEq_toSigned n (ofSigned n M)).trans (modEq_ofSigned n M)
  have := h.neg
  rw [Int.modEq_iff_dvd] at this
  have h' := Int.dvd_neg.mpr this
  unfold M2 at h'
  simpa [neg_sub] using h'


theorem decode_eq_extract {n es p : Nat} (hp : p < 2 ^ n) (h0 : p ≠ 0) (hnar : p ≠ 2 ^ (n - 1)) :
    decode n es p = extractFields n es p := by
  unfold decode
  simp only [Nat.mod_eq_of_lt hp]
  rw [if_neg h0, if_neg hnar]

theorem extract_sign (n es p : Nat) : (extractFields n es p).sign = p.testBit (n - 1) := by
  unfold extractFields
  rfl

/-- the truncation toward zero of a posit's value, computed on the decoded triple with natural-number arithmetic only
    (so that concrete instances are decidable without rational arithmetic) -/
def truncDec (n es p : Nat) : Int :=
  if (decode n es p).sign then -((truncMag (decode n es p).scale (decode n es p).fb (decode n es p).frac : Nat) : Int)
  else ((truncMag (decode n es p).scale (decode n es p).fb (decode n es p).frac : Nat) : Int)

theorem truncZ_positVal {n es p : Nat} (hn : 2 ≤ n) (hp : p < 2 ^ n) (h0 : p ≠ 0) (hnar : p ≠ 2 ^ (n - 1)) {x : ℚ}
    (hx : positVal n es p = some x) : truncZ x = truncDec n es p := by
  obtain ⟨hdv, _, _, _, _, hval⟩ := decode_value n es p hn hp h0 hnar
  rw [hx] at hdv
  injection hdv with hdv
  rw [hdv, hval, truncZ_tripleVal]
  rfl

/-- the regions of `convert_p2i` in which the pinned code computes the truncation: |x| < 1; positive x in [1,2);
    scale > 0 with a left shift (scale ≥ fbits) or an integer wider than the significand (ibits > fbits + 1) -/
def P2IGood (ibits fb : Nat) (sign : Bool) (sc : Int) : Prop :=
  sc < 0 ∨ (sc = 0 ∧ sign = false) ∨ (0 < sc ∧ ((fb : Int) ≤ sc ∨ fb + 1 < ibits))

instance (ibits fb : Nat) (sign : Bool) (sc : Int) : Decidable (P2IGood ibits fb sign sc) := by
  unfold P2IGood; infer_instance

/-- value and canonical form of `p2i` on the good regions, in terms of the decoded triple -/
theorem p2i_spec {w ibits n es p : Nat} (hw : 0 < w) (hib : 2 ≤ ibits) (h64 : w ≠ 64 ∨ nrBlocks w ibits = 1)
    (hn : 2 ≤ n) (hp : p < 2 ^ n) (h0 : p ≠ 0) (hnar : p ≠ 2 ^ (n - 1))
    (hgood : P2IGood ibits (fbitsOf n es) (decode n es p).sign (decode n es p).scale) :
    Canon w ibits (p2i w ibits n es p) ∧
    toNat w (p2i w ibits n es p) = ofSigned ibits (truncZ (decode n es p).toRat) := by
  have hib0 : 0 < ibits := by omega
  obtain ⟨_, hz, _, hf, hfb, hval⟩ := decode_value n es p hn hp h0 hnar
  have hde := decode_eq_extract (es := es) hp h0 hnar
  rw [hval, truncZ_tripleVal, hfb]
  rw [hfb] at hf
  unfold p2i positScale significant
  simp only [Nat.mod_eq_of_lt hp]
  rw [← hde, ← extract_sign n es p, ← hde]
  set d := decode n es p with hd
  set fb := fbitsOf n es with hfbdef
  rcases hgood with hneg | ⟨hzero, hsg⟩ | ⟨hpos, hshape⟩
  · rw [if_pos hneg, truncMag_neg hneg hf]
    obtain ⟨hc, hv⟩ := Integer.convertSigned_zero (w := w) hw hib0
    refine ⟨hc, ?_⟩
    rw [hv]; cases d.sign <;> simp [ofSigned]
  · rw [if_neg (by omega), if_pos hzero, hzero, truncMag_zero hf, hsg]
    obtain ⟨hc, hv⟩ := Integer.convertSigned_spec (w := w) hw hib0 1
    refine ⟨hc, ?_⟩
    rw [hv]; simp
  · rw [if_neg (by omega), if_neg (by omega)]
    have hmsb : (2 ^ fb + d.frac) % 2 ^ (if ibits < fb + 1 then ibits else fb + 1) < 2 ^ ibits := by
      split
      · exact Nat.mod_lt _ (Nat.two_pow_pos _)
      · exact Nat.lt_of_lt_of_le (Nat.mod_lt _ (Nat.two_pow_pos _)) (Nat.pow_le_pow_right (by decide) (by omega))
    obtain ⟨hc0, hv0⟩ := canon_ofNat (w := w) hw hib0 hmsb
    obtain ⟨hc1, hv1⟩ := Integer.shl_spec hw hib0 hc0 (d.scale - (fb : Int))
    unfold IntegerSpec.shl IntegerSpec.wrap IntegerSpec.val at hv1
    rw [hv0, shl_core hib0 hf hpos hshape] at hv1
    cases hs : d.sign
    · simp only [Bool.false_eq_true, if_false]
      exact ⟨hc1, hv1⟩
    · simp only [if_true]
      obtain ⟨hc2, hv2⟩ := Integer.neg_spec hw hib0 h64 hc1.shape
      unfold Integer.neg at hc2 hv2
      refine ⟨hc2, ?_⟩
      rw [hv2, hv1, neg_pattern]

theorem runLen_false_of_low {y : Nat} : ∀ (m : Nat), (∀ i, i < m → y.testBit i = false) → runLen y false m = m
  | 0, _ => rfl
  | m + 1, h => by
    unfold runLen
    rw [if_pos (h m (by omega)), runLen_false_of_low m (fun i hi => h i (by omega))]

/-- `scale(posit)` of a pattern whose low n−1 bits are all zero (posit 0 and NaR) is −(n−2)·2^es -/
theorem positScale_special {N es p : Nat} (hp : p = 0 ∨ p = 2 ^ (N + 2)) :
    positScale (N + 3) es p = -(((N + 1 : Nat) : Int)) * ((2 ^ es : Nat) : Int) := by
  have hlt : p < 2 ^ (N + 3) := by
    rcases hp with rfl | rfl
    · exact Nat.two_pow_pos _
    · exact Nat.pow_lt_pow_right (by decide) (by omega)
  -- the magnitude pattern after the conditional two's complement
  have htmp : (if p.testBit (N + 2) then twosComp (N + 3) p else p) = p := by
    rcases hp with rfl | rfl
    · simp
    · rw [Nat.testBit_two_pow_self, if_pos rfl]
      unfold twosComp
      have h2 : 2 ^ (N + 3) = 2 * 2 ^ (N + 2) := by rw [Nat.pow_succ, Nat.mul_comm]
      have hpos := Nat.two_pow_pos (N + 2)
      rw [Nat.mod_eq_of_lt hlt]
      have : 2 ^ (N + 3) - 2 ^ (N + 2) = 2 ^ (N + 2) := by omega
      rw [this, Nat.mod_eq_of_lt hlt]
  have hlow : ∀ i, i < N + 2 → p.testBit i = false := by
    intro i hi
    rcases hp with rfl | rfl
    · simp
    · rw [Nat.testBit_two_pow]; simp; omega
  unfold positScale extractFields
  simp only [Nat.mod_eq_of_lt hlt, show N + 3 - 1 = N + 2 from rfl, htmp]
  have hdr : decodeRegime (N + 3) p = -(((N + 2 : Nat)) : Int) := by
    unfold decodeRegime
    simp only [show N + 3 - 2 = N + 1 from rfl, hlow (N + 1) (by omega)]
    rw [if_neg (by omega : ¬ N + 3 = 2), show N + 3 - 3 + 1 = N + 1 by omega,
      runLen_false_of_low (N + 1) (fun i hi => hlow i (by omega))]
    simp only [Bool.false_eq_true, if_false]
    congr 1; omega
  rw [hdr]
  have har : assignRegimePattern (N + 3) (-(((N + 2 : Nat)) : Int)) = (-(((N + 1 : Nat)) : Int), N + 2) := by
    unfold assignRegimePattern
    simp only []
    split_ifs <;> first | (exfalso; omega) | (refine Prod.ext ?_ ?_ <;> simp only [] <;> omega)
  rw [har]
  simp only
  have : ((N + 3 : Nat) : Int) - 1 - (1 + ((N + 2 : Nat) : Int)) = -1 := by omega
  rw [this]
  simp

example : positScale 8 2 0 = -24 ∧ positScale 8 2 0x80 = -24 := by decide


end UVerif.ConvPosInt
