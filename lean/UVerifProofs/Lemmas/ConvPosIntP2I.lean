/-
  UVerifProofs.Lemmas.ConvPosIntP2I — `convert_p2i` (posit → integer adapter):
  the truncation toward zero of a (sign, scale, fraction) triple as a natural-number quotient, and the value of the
  model's copy / shift / negate pipeline for every real-valued posit.
-/
import UVerif.Model.ConvPosInt
import UVerif.Spec.ConvPosInt
import UVerifProofs.Lemmas.Integer
import UVerifProofs.Lemmas.PositArith
import UVerifProofs.Lemmas.Pow2

namespace UVerif.ConvPosInt
open UVerif UVerif.Limbs UVerif.Posit

/-- truncation toward zero of ±A/D -/
theorem truncZ_signed_div (sign : Bool) (A D : Nat) (hD : 0 < D) :
    truncZ ((if sign then -1 else 1) * ((A : ℚ) / (D : ℚ))) =
      if sign then -(((A / D : Nat)) : Int) else (((A / D : Nat)) : Int) := by
  have hDq : (0 : ℚ) < (D : ℚ) := by exact_mod_cast hD
  have hq0 : (0 : ℚ) ≤ (A : ℚ) / (D : ℚ) := by positivity
  have hfl : ((A : ℚ) / (D : ℚ)).floor = ((A / D : Nat) : Int) := by
    show ⌊(A : ℚ) / (D : ℚ)⌋ = _
    rw [Rat.floor_natCast_div_natCast]; exact (Int.natCast_div A D).symm
  unfold truncZ
  cases sign
  · simp only [Bool.false_eq_true, if_false, one_mul]
    rw [if_pos hq0, hfl]
  · simp only [if_true, neg_one_mul]
    by_cases h0 : -((A : ℚ) / (D : ℚ)) ≥ 0
    · rw [if_pos h0]
      have hz : (A : ℚ) / (D : ℚ) = 0 := by linarith
      have hA : A = 0 := by
        rcases div_eq_zero_iff.mp hz with h | h
        · exact_mod_cast h
        · exact absurd h (ne_of_gt hDq)
      subst hA
      simp [Rat.floor]
    · rw [if_neg h0, Rat.ceil_eq_neg_floor_neg, neg_neg, hfl]

/-- the real value of a triple as a signed quotient of naturals: numerator `sig·2^max(s,0)`, denominator `2^fb·2^max(−s,0)` -/
theorem tripleVal_eq_div (sign : Bool) (s : Int) (fb frac : Nat) :
    tripleVal sign s fb frac =
      (if sign then -1 else 1) * ((((2 ^ fb + frac) * 2 ^ s.toNat : Nat) : ℚ) / ((2 ^ fb * 2 ^ (-s).toNat : Nat) : ℚ)) := by
  unfold tripleVal valS
  congr 1
  have p1 : (0 : ℚ) < 2 ^ fb := by positivity
  by_cases hs : 0 ≤ s
  · obtain ⟨k, rfl⟩ := Int.eq_ofNat_of_zero_le hs
    have : (-(k : Int)).toNat = 0 := by omega
    rw [this]
    simp only [Int.toNat_natCast, zpow_natCast, Nat.pow_zero, Nat.mul_one]
    push_cast
    field_simp
  · obtain ⟨k, hk⟩ : ∃ k : Nat, s = -((k : Int)) := ⟨(-s).toNat, by omega⟩
    subst hk
    have h1 : (-(k : Int)).toNat = 0 := by omega
    have h2 : (- -(k : Int)).toNat = k := by omega
    rw [h1, h2]
    simp only [zpow_neg, zpow_natCast, Nat.pow_zero, Nat.mul_one]
    push_cast
    have p2 : (0 : ℚ) < 2 ^ k := by positivity
    field_simp

/-- magnitude of the truncated value of a triple -/
def truncMag (s : Int) (fb frac : Nat) : Nat := ((2 ^ fb + frac) * 2 ^ s.toNat) / (2 ^ fb * 2 ^ (-s).toNat)

theorem truncZ_tripleVal (sign : Bool) (s : Int) (fb frac : Nat) :
    truncZ (tripleVal sign s fb frac) = if sign then -((truncMag s fb frac : Nat) : Int) else ((truncMag s fb frac : Nat) : Int) := by
  rw [tripleVal_eq_div]
  exact truncZ_signed_div sign _ _ (Nat.mul_pos (Nat.two_pow_pos _) (Nat.two_pow_pos _))

theorem truncMag_neg {s : Int} {fb frac : Nat} (hs : s < 0) (hf : frac < 2 ^ fb) : truncMag s fb frac = 0 := by
  unfold truncMag
  have h1 : s.toNat = 0 := by omega
  obtain ⟨k, hk⟩ : ∃ k : Nat, (-s).toNat = k + 1 := ⟨(-s).toNat - 1, by omega⟩
  rw [h1, hk]
  apply Nat.div_eq_of_lt
  have : 2 ^ (k + 1) = 2 * 2 ^ k := by rw [Nat.pow_succ, Nat.mul_comm]
  have hk1 : 1 ≤ 2 ^ k := Nat.one_le_two_pow
  calc (2 ^ fb + frac) * 2 ^ 0 < 2 ^ fb * 2 := by omega
    _ ≤ 2 ^ fb * (2 * 2 ^ k) := by
        apply Nat.mul_le_mul_left
        omega
    _ = 2 ^ fb * 2 ^ (k + 1) := by rw [this]

theorem truncMag_zero {fb frac : Nat} (hf : frac < 2 ^ fb) : truncMag 0 fb frac = 1 := by
  unfold truncMag
  simp only [Int.toNat_zero, Nat.pow_zero, Nat.mul_one, neg_zero]
  apply Nat.div_eq_of_lt_le <;> omega

theorem truncMag_pos {s : Int} {fb frac : Nat} (hs : 0 ≤ s) :
    truncMag s fb frac = (2 ^ fb + frac) * 2 ^ s.toNat / 2 ^ fb := by
  unfold truncMag
  have : (-s).toNat = 0 := by omega
  rw [this]; simp

/-- `v <<= scale − fbits` (scale ≥ fbits: a left shift or none) applied to the copied low bits of the significand gives the
    truncated magnitude modulo 2^ibits: everything is a congruence modulo 2^ibits -/
theorem shl_left_core {ibits fb frac k : Nat} (hf : frac < 2 ^ fb) (hge : fb ≤ k) :
    ofSigned ibits (IntegerSpec.shlZ (toSigned ibits ((2 ^ fb + frac) % 2 ^ (if ibits < fb + 1 then ibits else fb + 1)))
        ((k : Int) - (fb : Int)))
      = ofSigned ibits ((((2 ^ fb + frac) * 2 ^ (k - fb) : Nat)) : Int) := by
  set sig := 2 ^ fb + frac with hsig
  have hsiglt : sig < 2 ^ (fb + 1) := by rw [Nat.pow_succ]; omega
  unfold IntegerSpec.shlZ
  rw [if_pos (by omega)]
  have hk : ((k : Int) - (fb : Int)).toNat = k - fb := by omega
  rw [hk]
  apply ofSigned_congr
  have hmod : toSigned ibits (sig % 2 ^ (if ibits < fb + 1 then ibits else fb + 1)) ≡ (sig : Int) [ZMOD M2 ibits] := by
    refine (modEq_toSigned ibits _).trans ?_
    split
    · exact modEq_natMod sig ibits
    · rw [Nat.mod_eq_of_lt hsiglt]
  have h2 := (hmod.mul_right (((2 ^ (k - fb) : Nat)) : Int)).symm.dvd
  unfold M2 at h2
  rw [Nat.cast_mul]
  exact h2

/-- **the magnitude part of `convert_p2i`** (`p2iMag`: `v = 1` for scale 0; otherwise the bits of the significand at and above
    the radix point copied into the integer, shifted left when scale > fbits): canonical, and equal to the truncated magnitude
    of the triple modulo 2^ibits — for every scale ≥ 0, every integer size and every limb width -/
theorem p2iMag_spec {w ibits fb frac : Nat} {s : Int} (hw : 0 < w) (hib : 0 < ibits) (hf : frac < 2 ^ fb) (hs : 0 ≤ s) :
    Canon w ibits (p2iMag w ibits fb (2 ^ fb + frac) s) ∧
    toNat w (p2iMag w ibits fb (2 ^ fb + frac) s) = ofSigned ibits ((truncMag s fb frac : Nat) : Int) := by
  obtain ⟨k, rfl⟩ := Int.eq_ofNat_of_zero_le hs
  unfold p2iMag
  by_cases hk0 : k = 0
  · subst hk0
    simp only [Nat.cast_zero, if_true]
    rw [truncMag_zero hf]
    exact Integer.convertSigned_spec (w := w) hw hib 1
  rw [if_neg (by omega), truncMag_pos (by omega)]
  simp only [Int.toNat_natCast]
  set sig := 2 ^ fb + frac with hsig
  have hsiglt : sig < 2 ^ (fb + 1) := by rw [Nat.pow_succ]; omega
  by_cases hlt : k < fb
  · -- the low fb − k bits of the significand are below the radix point: not copied
    have hsh : ((k : Int) - (fb : Int) < 0) := by omega
    have hl : (-((k : Int) - (fb : Int))).toNat = fb - k := by omega
    simp only [if_pos hsh, hl, if_neg (by omega : ¬ ((k : Int) - (fb : Int) > 0))]
    have hq : sig * 2 ^ k / 2 ^ fb = sig / 2 ^ (fb - k) := by
      have : 2 ^ fb = 2 ^ (fb - k) * 2 ^ k := by rw [← Nat.pow_add]; congr 1; omega
      rw [this, Nat.mul_div_mul_right _ _ (Nat.two_pow_pos _)]
    have hqlt : sig / 2 ^ (fb - k) < 2 ^ (k + 1) := by
      rw [Nat.div_lt_iff_lt_mul (Nat.two_pow_pos _), ← Nat.pow_add]
      have : k + 1 + (fb - k) = fb + 1 := by omega
      rw [this]; exact hsiglt
    have hw1 : fb + 1 - (fb - k) = k + 1 := by omega
    rw [hq, ofSigned_natCast, Nat.shiftRight_eq_div_pow, hw1]
    have hX : sig / 2 ^ (fb - k) % 2 ^ (if ibits < k + 1 then ibits else k + 1) = sig / 2 ^ (fb - k) % 2 ^ ibits := by
      split
      · rfl
      · rw [Nat.mod_eq_of_lt hqlt, Nat.mod_eq_of_lt
          (Nat.lt_of_lt_of_le hqlt (Nat.pow_le_pow_right (by decide) (by omega)))]
    rw [hX]
    exact canon_ofNat (w := w) hw hib (Nat.mod_lt _ (Nat.two_pow_pos _))
  · -- scale ≥ fbits: every bit of the significand is copied (as far as it fits), then shifted left
    have hsh : ¬ ((k : Int) - (fb : Int) < 0) := by omega
    simp only [if_neg hsh, Nat.sub_zero, Nat.shiftRight_zero]
    have hmsb : sig % 2 ^ (if ibits < fb + 1 then ibits else fb + 1) < 2 ^ ibits := by
      split
      · exact Nat.mod_lt _ (Nat.two_pow_pos _)
      · exact Nat.lt_of_lt_of_le (Nat.mod_lt _ (Nat.two_pow_pos _)) (Nat.pow_le_pow_right (by decide) (by omega))
    obtain ⟨hc0, hv0⟩ := canon_ofNat (w := w) hw hib hmsb
    have hq : sig * 2 ^ k / 2 ^ fb = sig * 2 ^ (k - fb) := by
      have : 2 ^ k = 2 ^ (k - fb) * 2 ^ fb := by rw [← Nat.pow_add]; congr 1; omega
      rw [this, ← Nat.mul_assoc, Nat.mul_div_cancel _ (Nat.two_pow_pos _)]
    rw [hq]
    have hcore := shl_left_core (ibits := ibits) hf (show fb ≤ k by omega)
    rw [← hsig] at hcore
    by_cases hgt : (k : Int) - (fb : Int) > 0
    · rw [if_pos hgt]
      obtain ⟨hc1, hv1⟩ := Integer.shl_spec hw hib hc0 ((k : Int) - (fb : Int)) (Or.inl (by omega))
      unfold IntegerSpec.shl IntegerSpec.wrap IntegerSpec.val at hv1
      rw [hv0, hcore] at hv1
      exact ⟨hc1, hv1⟩
    · rw [if_neg hgt]
      have hkf : k = fb := by omega
      refine ⟨hc0, ?_⟩
      rw [hv0, ← hcore]
      have : (k : Int) - (fb : Int) = 0 := by omega
      rw [this]
      unfold IntegerSpec.shlZ
      simp only [le_refl, if_true, Int.toNat_zero, Nat.pow_zero, Nat.cast_one, mul_one]
      exact (ofSigned_toSigned_of_lt hmsb).symm

/-- two's complement of a pattern that holds `M` modulo 2^n holds `−M` -/
theorem neg_pattern (n : Nat) (M : Int) :
    (2 ^ n - ofSigned n M % 2 ^ n) % 2 ^ n = ofSigned n (-M) := by
  rw [← ofSigned_neg]
  apply ofSigned_congr
  have h := (modEq_toSigned n (ofSigned n M)).trans (modEq_ofSigned n M)
  have := h.neg
  rw [Int.modEq_iff_dvd] at this
  have h' := Int.dvd_neg.mpr this
  unfold M2 at h'
  simpa [neg_sub] using h'


theorem decode_eq_extract {n es p : Nat} (hp : p < 2 ^ n) (h0 : p ≠ 0) (hnar : p ≠ 2 ^ (n - 1)) :
    decode n es p = extractFields n es p := by
  unfold decode
  simp only [Nat.mod_eq_of_lt hp]
  rw [if_neg h0, if_neg hnar]

theorem extract_sign (n es p : Nat) : (extractFields n es p).sign = p.testBit (n - 1) := by
  unfold extractFields
  rfl

/-- the truncation toward zero of a posit's value, computed on the decoded triple with natural-number arithmetic only
    (so that concrete instances are decidable without rational arithmetic) -/
def truncDec (n es p : Nat) : Int :=
  if (decode n es p).sign then -((truncMag (decode n es p).scale (decode n es p).fb (decode n es p).frac : Nat) : Int)
  else ((truncMag (decode n es p).scale (decode n es p).fb (decode n es p).frac : Nat) : Int)

theorem truncZ_positVal {n es p : Nat} (hn : 2 ≤ n) (hp : p < 2 ^ n) (h0 : p ≠ 0) (hnar : p ≠ 2 ^ (n - 1)) {x : ℚ}
    (hx : positVal n es p = some x) : truncZ x = truncDec n es p := by
  obtain ⟨hdv, _, _, _, _, hval⟩ := decode_value n es p hn hp h0 hnar
  rw [hx] at hdv
  injection hdv with hdv
  rw [hdv, hval, truncZ_tripleVal]
  rfl

/-- **value and canonical form of `p2i` for every real-valued posit**, in terms of the decoded triple: the truncation toward
    zero of the posit's value, reduced modulo 2^ibits -/
theorem p2i_spec {w ibits n es p : Nat} (hw : 0 < w) (hib : 2 ≤ ibits)
    (hn : 2 ≤ n) (hp : p < 2 ^ n) (h0 : p ≠ 0) (hnar : p ≠ 2 ^ (n - 1)) :
    Canon w ibits (p2i w ibits n es p) ∧
    toNat w (p2i w ibits n es p) = ofSigned ibits (truncZ (decode n es p).toRat) := by
  have hib0 : 0 < ibits := by omega
  obtain ⟨_, hz, _, hf, hfb, hval⟩ := decode_value n es p hn hp h0 hnar
  have hde := decode_eq_extract (es := es) hp h0 hnar
  rw [hval, truncZ_tripleVal, hfb]
  rw [hfb] at hf
  unfold p2i positScale significant
  simp only [Nat.mod_eq_of_lt hp]
  rw [← hde, ← extract_sign n es p, ← hde]
  set d := decode n es p with hd
  set fb := fbitsOf n es with hfbdef
  by_cases hneg : d.scale < 0
  · rw [if_pos (Or.inr (Or.inr hneg)), truncMag_neg hneg hf]
    obtain ⟨hc, hv⟩ := Integer.convertSigned_zero (w := w) hw hib0
    refine ⟨hc, ?_⟩
    rw [hv]; cases d.sign <;> simp [ofSigned]
  · rw [if_neg (by simp only [h0, hnar, hneg, or_self, not_false_eq_true])]
    obtain ⟨hc1, hv1⟩ := p2iMag_spec (w := w) (ibits := ibits) (s := d.scale) hw hib0 hf (by omega)
    cases hs : d.sign
    · simp only [Bool.false_eq_true, if_false]
      exact ⟨hc1, hv1⟩
    · simp only [if_true]
      obtain ⟨hc2, hv2⟩ := Integer.neg_spec hw hib0 hc1.shape
      unfold Integer.neg at hc2 hv2
      refine ⟨hc2, ?_⟩
      rw [hv2, hv1, neg_pattern]

end UVerif.ConvPosInt
