/-
  UVerifProofs.Lemmas.ConvPosIntWhole — `convert_i2p` for integer<ibits, bt, WholeNumber | NaturalNumber>:
  the block-wise `operator<` of the unsigned number types on the one comparison the adapter makes (`w < 0`: never true),
  and the closed form of the conversion: the triple of the plain binary value.
-/
import UVerifProofs.Lemmas.ConvPosIntI2P
open UVerif UVerif.Limbs UVerif.Posit

namespace UVerif.ConvPosInt

theorem ofNat_zero (w : Nat) : ∀ k, ofNat w k 0 = List.replicate k 0
  | 0 => rfl
  | k + 1 => by
    unfold ofNat
    simp only [Nat.zero_mod, Nat.zero_div]
    rw [ofNat_zero w k]; rfl

/-- nothing is below zero in the block-wise comparison -/
theorem ltWholeRev_zero : ∀ (xs : List Nat) (m : Nat), ltWholeRev xs (List.replicate m 0) = false
  | [], _ => by unfold ltWholeRev; rfl
  | x :: xs, 0 => by simp [ltWholeRev]
  | x :: xs, m + 1 => by
    rw [List.replicate_succ]
    unfold ltWholeRev
    have ih := ltWholeRev_zero xs m
    by_cases h : x = 0
    · simp [h, ih]
    · simp [h, ih]

/-- `w < 0` is false for the unsigned number types -/
theorem ltWhole_zero_spec {w n : Nat} (a : List Nat) : ltWhole a (Integer.convertSigned w n 0) = false := by
  unfold ltWhole Integer.convertSigned
  have : ofSigned n 0 = 0 := by simp [ofSigned]
  rw [this, ofNat_zero, List.reverse_replicate]
  exact ltWholeRev_zero _ _

/-- **the unsigned number types in closed form**: the conversion of integer<ibits, bt, WholeNumber|NaturalNumber> is the
    conversion of the triple of its plain binary value — for every limb width (no limb arithmetic is reached: `w < 0` is a
    block scan, no two's complement is taken) and every value, the top bit included -/
theorem i2pWhole_eq {w ibits n es : Nat} (hw : 0 < w) (hib : 0 < ibits) {a : List Nat} (ha : Canon w ibits a)
    (hx : toNat w a ≠ 0) :
    i2pWhole w ibits n es a = .enc (Posit.convert n es (i2pVal n ((toNat w a : Nat) : Int))) := by
  unfold i2pWhole i2pCore
  simp only [ltWhole_zero_spec, Bool.false_eq_true, if_false]
  rw [Integer.msbPos_eq hx]
  obtain ⟨hz, hzv⟩ := Integer.convertSigned_zero (w := w) hw hib
  have hzero : Integer.eq a (Integer.convertSigned w ibits 0) = false := by
    rw [Integer.eq_spec ha hz, hzv]
    apply decide_eq_false
    rw [Integer.toSigned_inj ha.2.2 (Nat.two_pow_pos _)]; exact hx
  rw [hzero]
  unfold i2pVal
  have h1 : decide ((((toNat w a : Nat) : Int)) < 0) = false := decide_eq_false (by omega)
  have h2 : decide ((((toNat w a : Nat) : Int)) = 0) = false := decide_eq_false (by omega)
  simp only [Int.natAbs_natCast, Int.toNat_natCast, h1, h2]

end UVerif.ConvPosInt
