/-
  UVerifProofs.Lemmas.ConvPosIntWhole — `convert_i2p` for integer<ibits, bt, WholeNumber | NaturalNumber>:
  the block-wise `operator<` of the unsigned number types on the two comparisons the adapter makes (`w < 0`, `1 < v`),
  and the equality with the IntegerNumber conversion for values below 2^(ibits-1).
-/
import UVerifProofs.Lemmas.ConvPosIntI2P
open UVerif UVerif.Limbs UVerif.Posit

namespace UVerif.ConvPosInt

theorem ofNat_zero (w : Nat) : ∀ k, ofNat w k 0 = List.replicate k 0
  | 0 => rfl
  | k + 1 => by
    unfold ofNat
    simp only [Nat.zero_mod, Nat.zero_div]
    rw [ofNat_zero w k]; rfl

theorem ofNat_one {w : Nat} (hw : 0 < w) (k : Nat) : ofNat w (k + 1) 1 = 1 :: List.replicate k 0 := by
  unfold ofNat
  have h1 : 1 % 2 ^ w = 1 := Nat.mod_eq_of_lt (Nat.one_lt_two_pow (by omega))
  have h2 : 1 / 2 ^ w = 0 := Nat.div_eq_of_lt (Nat.one_lt_two_pow (by omega))
  rw [h1, h2, ofNat_zero]

/-- nothing is below zero in the block-wise comparison -/
theorem ltWholeRev_zero : ∀ (xs : List Nat) (m : Nat), ltWholeRev xs (List.replicate m 0) = false
  | [], _ => by unfold ltWholeRev; rfl
  | x :: xs, 0 => by simp [ltWholeRev]
  | x :: xs, m + 1 => by
    rw [List.replicate_succ]
    unfold ltWholeRev
    have ih := ltWholeRev_zero xs m
    by_cases h : x = 0
    · simp [h, ih]
    · simp [h, ih]

/-- `1 < v` in the block-wise comparison: some higher block is non-zero, or the lowest block exceeds 1 -/
theorem ltWholeRev_one : ∀ (ys : List Nat) (y0 : Nat),
    ltWholeRev (List.replicate ys.length 0 ++ [1]) (ys ++ [y0]) = (ys.any (· ≠ 0) || decide (1 < y0))
  | [], y0 => by
    simp only [List.length_nil, List.replicate_zero, List.nil_append, List.any_nil, Bool.false_or]
    unfold ltWholeRev
    by_cases h1 : 1 = y0
    · subst h1; simp [ltWholeRev]
    · by_cases h2 : 1 < y0
      · simp [h1, h2]
      · simp [h1, h2, ltWholeRev]
  | y :: ys, y0 => by
    simp only [List.length_cons, List.replicate_succ, List.cons_append, List.any_cons]
    unfold ltWholeRev
    have ih := ltWholeRev_one ys y0
    by_cases h : y = 0
    · subst h; simp [ih]
    · have hp : 0 < y := Nat.pos_of_ne_zero h
      have hne : (0 == y) = false := by simp; omega
      simp [hne, hp, h]

theorem toNat_gt_one_iff {w : Nat} (hw : 0 < w) : ∀ (b0 : Nat) (rest : List Nat), b0 < 2 ^ w →
    (1 < toNat w (b0 :: rest) ↔ (rest.any (· ≠ 0) = true ∨ 1 < b0)) := by
  intro b0 rest hb0
  rw [toNat_cons]
  have hpw : 2 ≤ 2 ^ w := by
    have := Nat.pow_le_pow_right (show 0 < 2 by decide) (show 1 ≤ w by omega); simpa using this
  constructor
  · intro h
    by_cases hr : toNat w rest = 0
    · right; rw [hr] at h; omega
    · left
      by_contra hc
      apply hr
      have hall : ∀ x ∈ rest, x = 0 := by
        intro x hx
        by_contra hx0
        exact hc (List.any_eq_true.mpr ⟨x, hx, by simp [hx0]⟩)
      clear hc hr h
      induction rest with
      | nil => rfl
      | cons x xs ih =>
        rw [toNat_cons, hall x (List.mem_cons_self ..), ih (fun y hy => hall y (List.mem_cons_of_mem _ hy))]
        simp
  · rintro (h | h)
    · obtain ⟨x, hx, hx0⟩ := List.any_eq_true.mp h
      have hx0' : x ≠ 0 := by simpa using hx0
      have : 0 < toNat w rest := by
        clear h hb0
        induction rest with
        | nil => cases hx
        | cons y ys ih =>
          rw [toNat_cons]
          rcases List.mem_cons.mp hx with rfl | hm
          · omega
          · have := ih hm
            have hp := Nat.two_pow_pos w
            have : 0 < 2 ^ w * toNat w ys := Nat.mul_pos hp this
            omega
      have : 2 ^ w * 1 ≤ 2 ^ w * toNat w rest := Nat.mul_le_mul_left _ this
      omega
    · omega


/-- `integer(1) < v` for the unsigned number types is `1 < v` -/
theorem ltWhole_one_spec {w n : Nat} (hw : 0 < w) (hn : 0 < n) {v : List Nat} (hv : Canon w n v) :
    ltWhole (Integer.convertSigned w n 1) v = decide (1 < toNat w v) := by
  obtain ⟨k', hk⟩ : ∃ k', nrBlocks w n = k' + 1 := ⟨nrBlocks w n - 1, by have := nrBlocks_pos w n; omega⟩
  have hone : Integer.convertSigned w n 1 = 1 :: List.replicate k' 0 := by
    unfold Integer.convertSigned
    rw [Integer.ofSigned_one hn, hk, ofNat_one hw]
  have hlen := hv.1
  rw [hk] at hlen
  match v, hlen, hv with
  | b0 :: rest, hlen, hv =>
    have hrl : rest.length = k' := by simpa using hlen
    unfold ltWhole
    rw [hone, List.reverse_cons, List.reverse_replicate, List.reverse_cons]
    have := ltWholeRev_one rest.reverse b0
    rw [List.length_reverse, hrl] at this
    rw [this, List.any_reverse]
    have hb0 : b0 < 2 ^ w := hv.2.1 b0 (List.mem_cons_self ..)
    have hiff := toNat_gt_one_iff hw b0 rest hb0
    by_cases h : 1 < toNat w (b0 :: rest)
    · rw [decide_eq_true h]
      rcases hiff.mp h with h1 | h1
      · rw [h1, Bool.true_or]
      · rw [decide_eq_true h1, Bool.or_true]
    · rw [decide_eq_false h]
      have h1 : ¬ (rest.any (· ≠ 0) = true) := fun hc => h (hiff.mpr (Or.inl hc))
      have h2 : ¬ 1 < b0 := fun hc => h (hiff.mpr (Or.inr hc))
      simp only [Bool.not_eq_true] at h1
      rw [h1, decide_eq_false h2]; rfl

/-- `w < 0` is false for the unsigned number types -/
theorem ltWhole_zero_spec {w n : Nat} (a : List Nat) : ltWhole a (Integer.convertSigned w n 0) = false := by
  unfold ltWhole Integer.convertSigned
  have : ofSigned n 0 = 0 := by simp [ofSigned]
  rw [this, ofNat_zero, List.reverse_replicate]
  exact ltWholeRev_zero _ _

/-- on values below 2^(n-1) the unsigned scale loop is the signed one -/
theorem scaleLoopWhole_eq {w N : Nat} (hw : 0 < w) (hN : 0 < N) (h64 : w ≠ 64 ∨ nrBlocks w (N + 1) = 1) :
    ∀ (f : Nat) (v : List Nat), Canon w (N + 1) v → toNat w v < 2 ^ N →
      scaleLoopWhole w (N + 1) f v = scaleLoop w (N + 1) f v := by
  intro f
  induction f with
  | zero => intro v _ _; rfl
  | succ f ih =>
    intro v hv hlt
    obtain ⟨h1, h1v⟩ := toNat_one (w := w) (N := N) hw
    unfold scaleLoopWhole scaleLoop
    rw [ltWhole_one_spec hw (by omega) hv, Integer.lt_spec hw (by omega) h64 h1 hv, h1v]
    have e1 : toSigned (N + 1) 1 = 1 := by
      rw [Integer.toSigned_small (by omega) (by simpa using Nat.one_lt_two_pow (by omega : N ≠ 0))]; rfl
    have eV : toSigned (N + 1) (toNat w v) = ((toNat w v : Nat) : Int) :=
      Integer.toSigned_small (by omega) (by simpa using hlt)
    rw [e1, eV]
    have hd : decide ((1 : Int) < ((toNat w v : Nat) : Int)) = decide (1 < toNat w v) := by
      by_cases h : 1 < toNat w v
      · rw [decide_eq_true h, decide_eq_true (by omega)]
      · rw [decide_eq_false h, decide_eq_false (by omega)]
    rw [hd]
    obtain ⟨hc, hsv⟩ := Integer.shr_one_small hw hN hv hlt
    rw [ih _ hc (by rw [hsv]; omega)]

/-- **unsigned number types below the top bit behave like IntegerNumber**: for a value < 2^(ibits-1) the conversion of
    integer<ibits, bt, WholeNumber|NaturalNumber> is the conversion of the same pattern as an IntegerNumber -/
theorem i2pWhole_eq_i2p {w ibits n es : Nat} (hw : 0 < w) (hib : 2 ≤ ibits) (h64 : w ≠ 64 ∨ nrBlocks w ibits = 1)
    {a : List Nat} (ha : Canon w ibits a) (hlt : toNat w a < 2 ^ (ibits - 1)) :
    i2pWhole w ibits n es a = i2p w ibits n es a := by
  obtain ⟨N, rfl⟩ : ∃ N, ibits = N + 1 := ⟨ibits - 1, by omega⟩
  simp only [Nat.add_sub_cancel] at hlt
  have hsign : Integer.sign w (N + 1) a = false := by
    rw [Integer.sign_canon hw (by omega) ha]
    simp only [Nat.add_sub_cancel]
    exact decide_eq_false (by omega)
  have hneg : Integer.isneg w (N + 1) a = false := by
    rw [Integer.isneg_spec hw (by omega) h64 ha, Integer.toSigned_small (by omega) (by simpa using hlt)]
    exact decide_eq_false (by omega)
  have hsc : intScaleWhole w (N + 1) a = intScale w (N + 1) a := by
    unfold intScaleWhole intScale
    rw [hsign]
    simp only [Bool.false_eq_true, if_false]
    exact scaleLoopWhole_eq hw (by omega) h64 _ a ha hlt
  unfold i2pWhole i2p
  simp only
  rw [hsc, ltWhole_zero_spec, hneg]

end UVerif.ConvPosInt
