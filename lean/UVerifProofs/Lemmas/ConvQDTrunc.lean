/-
  UVerifProofs.Lemmas.ConvQDTrunc — truncation toward zero of a normalised quad-double (`qd::convert_to_signed`, the loop
  over the four limbs in which the first limb with a fraction decides the correction).

  Part 1 (`QdCore`, pure integers, any unit U > 0): for limbs z0..z3 with |z_{i+1}| ≤ g_i / 2, g_i ≤ |z_i| and the "fraction
  gap" `z_i mod U ≠ 0 → g_i ≤ z_i mod U ≤ U − g_i` (what a float with quantum g_i satisfies),
      tdiv (z0 + z1 + z2 + z3) U = Σ tr(z_i) + (correction selected by the first limb with a fraction).
  Part 2: the model `ConvDD.qdToInt` is that expression (bridge), and the hypotheses hold for normalised binary64 limbs.
-/
import UVerifProofs.Lemmas.ConvDD
import UVerif.Model.ConvDD
import Mathlib.Tactic.Ring
import Mathlib.Tactic.Linarith
import Mathlib.Tactic.LinearCombination

namespace UVerif.QdCore


/-- truncation toward zero through floor division: `z / U`, one more when `z` is negative and not a multiple -/
def tr (U z : Int) : Int := z / U + (if z < 0 ∧ z % U ≠ 0 then 1 else 0)

def corrZ (U z0 zi : Int) : Int :=
  (if 0 < z0 ∧ (zi < 0 ∧ zi % U ≠ 0) then -1 else 0) + (if z0 < 0 ∧ (0 < zi ∧ zi % U ≠ 0) then 1 else 0)

/-- the correction selected by the first limb with a fraction -/
def corrSel (U z0 z1 z2 z3 : Int) : Int :=
  if z0 % U ≠ 0 then corrZ U z0 z0
  else if z1 % U ≠ 0 then corrZ U z0 z1
  else if z2 % U ≠ 0 then corrZ U z0 z2
  else if z3 % U ≠ 0 then corrZ U z0 z3 else 0

structure Norm (U z0 z1 z2 z3 g0 g1 g2 : Int) : Prop where
  n1 : -g0 ≤ 2 * z1 ∧ 2 * z1 ≤ g0
  n2 : -g1 ≤ 2 * z2 ∧ 2 * z2 ≤ g1
  n3 : -g2 ≤ 2 * z3 ∧ 2 * z3 ≤ g2
  G0 : (0 < z0 → g0 ≤ z0) ∧ (z0 < 0 → g0 ≤ -z0) ∧ (z0 = 0 → g0 = 1)
  G1 : (0 < z1 → g1 ≤ z1) ∧ (z1 < 0 → g1 ≤ -z1) ∧ (z1 = 0 → g1 = 1)
  G2 : (0 < z2 → g2 ≤ z2) ∧ (z2 < 0 → g2 ≤ -z2) ∧ (z2 = 0 → g2 = 1)
  R0 : z0 % U ≠ 0 → g0 ≤ z0 % U ∧ z0 % U + g0 ≤ U
  R1 : z1 % U ≠ 0 → g1 ≤ z1 % U ∧ z1 % U + g1 ≤ U
  R2 : z2 % U ≠ 0 → g2 ≤ z2 % U ∧ z2 % U + g2 ≤ U

theorem ediv_eq_of {V U K : Int} (hU : 0 < U) (h0 : 0 ≤ V - K * U) (h1 : V - K * U < U) : V / U = K :=
  ((Int.ediv_emod_unique hU).2 ⟨by ring, h0, h1⟩).1

theorem emod_small_nonneg {U z : Int} (h0 : 0 ≤ z) (h1 : z < U) : z % U = z := Int.emod_eq_of_lt h0 h1

theorem emod_small_neg {U z : Int} (h0 : z < 0) (h1 : -U < z) : z % U = z + U := by
  have h := Int.emod_eq_of_lt (a := z + U) (b := U) (by omega) (by omega)
  rw [Int.add_emod_right] at h
  exact h

set_option maxHeartbeats 1000000 in
/-- floor of the sum from the limbs' own quotients / remainders: positive head -/
theorem core_pos (U z0 z1 z2 z3 g0 g1 g2 : Int) (hUpos : 0 < U) (N : Norm U z0 z1 z2 z3 g0 g1 g2) (hpos : 0 < z0) :
    (z0 + z1 + z2 + z3) / U = tr U z0 + tr U z1 + tr U z2 + tr U z3 + corrSel U z0 z1 z2 z3 := by
  obtain ⟨n1, n2, n3, G0, G1, G2, R0, R1, R2⟩ := N
  have e0 := Int.emod_add_mul_ediv z0 U
  have e1 := Int.emod_add_mul_ediv z1 U
  have e2 := Int.emod_add_mul_ediv z2 U
  have e3 := Int.emod_add_mul_ediv z3 U
  have a0 := Int.emod_nonneg z0 (ne_of_gt hUpos)
  have a1 := Int.emod_nonneg z1 (ne_of_gt hUpos)
  have a2 := Int.emod_nonneg z2 (ne_of_gt hUpos)
  have a3 := Int.emod_nonneg z3 (ne_of_gt hUpos)
  have b0 := Int.emod_lt_of_pos z0 hUpos
  have b1 := Int.emod_lt_of_pos z1 hUpos
  have b2 := Int.emod_lt_of_pos z2 hUpos
  have b3 := Int.emod_lt_of_pos z3 hUpos
  have s1p := @emod_small_nonneg U z1
  have s1n := @emod_small_neg U z1
  have s2p := @emod_small_nonneg U z2
  have s2n := @emod_small_neg U z2
  have s3p := @emod_small_nonneg U z3
  have s3n := @emod_small_neg U z3
  -- the remainder of the claimed quotient, uniformly
  have key : (z0 + z1 + z2 + z3) - (tr U z0 + tr U z1 + tr U z2 + tr U z3 + corrSel U z0 z1 z2 z3) * U
      = z0 % U + z1 % U + z2 % U + z3 % U
        - ((if z0 < 0 ∧ z0 % U ≠ 0 then 1 else 0) + (if z1 < 0 ∧ z1 % U ≠ 0 then 1 else 0)
          + (if z2 < 0 ∧ z2 % U ≠ 0 then 1 else 0) + (if z3 < 0 ∧ z3 % U ≠ 0 then 1 else 0) + corrSel U z0 z1 z2 z3) * U := by
    unfold tr
    nth_rewrite 1 [← e0, ← e1, ← e2, ← e3]
    ring
  apply ediv_eq_of hUpos <;>
  · rw [key]
    unfold corrSel corrZ
    generalize z0 % U = r0 at *
    generalize z1 % U = r1 at *
    generalize z2 % U = r2 at *
    generalize z3 % U = r3 at *
    by_cases h0 : r0 ≠ 0
    · rw [if_pos h0]; have := R0 h0; split_ifs <;> omega
    · rw [if_neg h0]
      by_cases h1 : r1 ≠ 0
      · rw [if_pos h1]; have := R1 h1; split_ifs <;> omega
      · rw [if_neg h1]
        by_cases h2 : r2 ≠ 0
        · rw [if_pos h2]; have := R2 h2; split_ifs <;> omega
        · rw [if_neg h2]
          by_cases h3 : r3 ≠ 0
          · rw [if_pos h3]; split_ifs <;> omega
          · rw [if_neg h3]; split_ifs <;> omega


/-- floor division and remainder of the negation -/
theorem neg_divmod {U z : Int} (hU : 0 < U) :
    (z % U = 0 → (-z) / U = -(z / U) ∧ (-z) % U = 0) ∧
    (z % U ≠ 0 → (-z) / U = -(z / U) - 1 ∧ (-z) % U = U - z % U) := by
  have e := Int.emod_add_mul_ediv z U
  have a := Int.emod_nonneg z (ne_of_gt hU)
  have b := Int.emod_lt_of_pos z hU
  constructor
  · intro h
    rw [h] at e
    exact (Int.ediv_emod_unique hU).2 ⟨by linear_combination (-1 : Int) * e, le_refl _, hU⟩
  · intro h
    exact (Int.ediv_emod_unique hU).2 ⟨by linear_combination (-1 : Int) * e, by omega, by omega⟩

theorem tr_neg {U z : Int} (hU : 0 < U) : tr U (-z) = -tr U z := by
  obtain ⟨h0, h1⟩ := neg_divmod (z := z) hU
  unfold tr
  by_cases h : z % U = 0
  · obtain ⟨d, m⟩ := h0 h
    rw [d, m, h]; simp
  · obtain ⟨d, m⟩ := h1 h
    have b := Int.emod_lt_of_pos z hU
    have a := Int.emod_nonneg z (ne_of_gt hU)
    have hz : z ≠ 0 := by intro hz; rw [hz] at h; simp at h
    rw [d, m]
    split_ifs <;> omega

theorem emod_neg_ne {U z : Int} (hU : 0 < U) : (-z) % U ≠ 0 ↔ z % U ≠ 0 := by
  obtain ⟨h0, h1⟩ := neg_divmod (z := z) hU
  have b := Int.emod_lt_of_pos z hU
  constructor
  · intro h hz; exact h (h0 hz).2
  · intro h; rw [(h1 h).2]; omega

theorem corrZ_neg {U z0 zi : Int} (hU : 0 < U) : corrZ U (-z0) (-zi) = -corrZ U z0 zi := by
  unfold corrZ
  have := emod_neg_ne (z := zi) hU
  by_cases h : zi % U ≠ 0
  · have h' := this.2 h
    simp only [h, h', ne_eq, not_false_eq_true, and_true]
    split_ifs <;> omega
  · have h' : ¬ ((-zi) % U ≠ 0) := fun hc => h (this.1 hc)
    simp only [h, h', and_false, if_false]
    simp

theorem corrSel_neg {U z0 z1 z2 z3 : Int} (hU : 0 < U) :
    corrSel U (-z0) (-z1) (-z2) (-z3) = -corrSel U z0 z1 z2 z3 := by
  unfold corrSel
  have m0 := emod_neg_ne (z := z0) hU
  have m1 := emod_neg_ne (z := z1) hU
  have m2 := emod_neg_ne (z := z2) hU
  have m3 := emod_neg_ne (z := z3) hU
  by_cases h0 : z0 % U ≠ 0
  · rw [if_pos h0, if_pos (m0.2 h0)]; exact corrZ_neg hU
  · rw [if_neg h0, if_neg (fun hc => h0 (m0.1 hc))]
    by_cases h1 : z1 % U ≠ 0
    · rw [if_pos h1, if_pos (m1.2 h1)]; exact corrZ_neg hU
    · rw [if_neg h1, if_neg (fun hc => h1 (m1.1 hc))]
      by_cases h2 : z2 % U ≠ 0
      · rw [if_pos h2, if_pos (m2.2 h2)]; exact corrZ_neg hU
      · rw [if_neg h2, if_neg (fun hc => h2 (m2.1 hc))]
        by_cases h3 : z3 % U ≠ 0
        · rw [if_pos h3, if_pos (m3.2 h3)]; exact corrZ_neg hU
        · rw [if_neg h3, if_neg (fun hc => h3 (m3.1 hc))]; simp

theorem Norm.neg {U z0 z1 z2 z3 g0 g1 g2 : Int} (hU : 0 < U) (N : Norm U z0 z1 z2 z3 g0 g1 g2) :
    Norm U (-z0) (-z1) (-z2) (-z3) g0 g1 g2 := by
  obtain ⟨n1, n2, n3, G0, G1, G2, R0, R1, R2⟩ := N
  have q0 := neg_divmod (z := z0) hU
  have q1 := neg_divmod (z := z1) hU
  have q2 := neg_divmod (z := z2) hU
  refine ⟨by omega, by omega, by omega, ⟨?_, ?_, ?_⟩, ⟨?_, ?_, ?_⟩, ⟨?_, ?_, ?_⟩, ?_, ?_, ?_⟩
  · intro h; have := G0.2.1 (by omega); omega
  · intro h; have := G0.1 (by omega); omega
  · intro h; exact G0.2.2 (by omega)
  · intro h; have := G1.2.1 (by omega); omega
  · intro h; have := G1.1 (by omega); omega
  · intro h; exact G1.2.2 (by omega)
  · intro h; have := G2.2.1 (by omega); omega
  · intro h; have := G2.1 (by omega); omega
  · intro h; exact G2.2.2 (by omega)
  · intro h
    have hz := (emod_neg_ne (z := z0) hU).1 h
    have := R0 hz; rw [(q0.2 hz).2]; omega
  · intro h
    have hz := (emod_neg_ne (z := z1) hU).1 h
    have := R1 hz; rw [(q1.2 hz).2]; omega
  · intro h
    have hz := (emod_neg_ne (z := z2) hU).1 h
    have := R2 hz; rw [(q2.2 hz).2]; omega

/-- the head dominates: the sum has the sign of the head -/
theorem Norm.sum_pos {U z0 z1 z2 z3 g0 g1 g2 : Int} (N : Norm U z0 z1 z2 z3 g0 g1 g2) (h : 0 < z0) :
    0 < z0 + z1 + z2 + z3 := by
  obtain ⟨n1, n2, n3, G0, G1, G2, _, _, _⟩ := N
  have := G0.1 h
  rcases lt_trichotomy z1 0 with h1 | h1 | h1
  · have := G1.2.1 h1
    rcases lt_trichotomy z2 0 with h2 | h2 | h2
    · have := G2.2.1 h2; omega
    · have := G2.2.2 h2; omega
    · have := G2.1 h2; omega
  · have := G1.2.2 h1; omega
  · have := G1.1 h1
    rcases lt_trichotomy z2 0 with h2 | h2 | h2
    · have := G2.2.1 h2; omega
    · have := G2.2.2 h2; omega
    · have := G2.1 h2; omega

/-- **the sum of the truncated limbs plus the correction of the first fractional limb is the truncated sum** -/
theorem core (U z0 z1 z2 z3 g0 g1 g2 : Int) (hU : 0 < U) (N : Norm U z0 z1 z2 z3 g0 g1 g2) :
    Int.tdiv (z0 + z1 + z2 + z3) U = tr U z0 + tr U z1 + tr U z2 + tr U z3 + corrSel U z0 z1 z2 z3 := by
  rcases lt_trichotomy z0 0 with h | h | h
  · have Nn := N.neg hU
    have hp := Nn.sum_pos (by omega : 0 < -z0)
    have c := core_pos U (-z0) (-z1) (-z2) (-z3) g0 g1 g2 hU Nn (by omega)
    rw [tr_neg hU, tr_neg hU, tr_neg hU, tr_neg hU, corrSel_neg hU] at c
    have e : z0 + z1 + z2 + z3 = -(-z0 + -z1 + -z2 + -z3) := by ring
    rw [e, Int.neg_tdiv, Int.tdiv_eq_ediv_of_nonneg (le_of_lt hp), c]
    ring
  · -- zero head: every limb is zero
    obtain ⟨n1, n2, n3, G0, G1, G2, _, _, _⟩ := N
    have hg0 := G0.2.2 h
    have h1 : z1 = 0 := by omega
    have hg1 := G1.2.2 h1
    have h2 : z2 = 0 := by omega
    have hg2 := G2.2.2 h2
    have h3 : z3 = 0 := by omega
    subst h; subst h1; subst h2; subst h3
    simp [tr, corrSel]
  · have hp := N.sum_pos h
    rw [Int.tdiv_eq_ediv_of_nonneg (le_of_lt hp)]
    exact core_pos U z0 z1 z2 z3 g0 g1 g2 hU N h


end UVerif.QdCore

/-! ### Part 2: the model is that expression; the hypotheses hold for normalised binary64 limbs -/

namespace UVerif.QdBridge
open UVerif UVerif.F64 UVerif.ConvDDLemmas UVerif.QdCore


/-- the unit of binary64 as an integer -/
def UZ : Int := ((2 ^ ConvDD.b64.q : Nat) : Int)

theorem UZ_pos : 0 < UZ := by
  have : 0 < 2 ^ ConvDD.b64.q := Nat.two_pow_pos _
  unfold UZ
  exact_mod_cast this

theorem tr_sg (s : Bool) (n : Nat) : tr UZ (sg s n) = sg s (n / 2 ^ ConvDD.b64.q) := by
  have hnn : tr UZ (n : Int) = ((n / 2 ^ ConvDD.b64.q : Nat) : Int) := by
    unfold tr
    have : ¬ ((n : Int) < 0 ∧ (n : Int) % UZ ≠ 0) := by
      have := Int.natCast_nonneg n; omega
    rw [if_neg this, add_zero]
    unfold UZ
    exact (Int.natCast_ediv n (2 ^ ConvDD.b64.q)).symm
  cases s
  · simpa [sg] using hnn
  · simp only [sg, if_true]
    rw [tr_neg UZ_pos, hnn]

theorem emod_sg_ne (s : Bool) (n : Nat) : sg s n % UZ ≠ 0 ↔ n % 2 ^ ConvDD.b64.q ≠ 0 := by
  have hn : ((n : Int) % UZ ≠ 0) ↔ n % 2 ^ ConvDD.b64.q ≠ 0 := by
    rw [show (n : Int) % UZ = ((n % 2 ^ ConvDD.b64.q : Nat) : Int) from by unfold UZ; exact (Int.natCast_mod n (2 ^ ConvDD.b64.q)).symm]
    exact_mod_cast Iff.rfl
  cases s
  · simpa [sg] using hn
  · simp only [sg, if_true]
    rw [emod_neg_ne UZ_pos]; exact hn

/-- `int64_t(trunc(x))` in terms of the integer value -/
def tiZ (z : Int) : Int := if -(2 ^ 63 : Int) ≤ tr UZ z ∧ tr UZ z < (2 ^ 63 : Int) then tr UZ z else -(2 ^ 63 : Int)

theorem toI64_eq_tiZ (s : Bool) (n : Nat) : toI64 ConvDD.b64 (.fin s n) = tiZ (sg s n) := by
  rw [toI64_fin]; unfold tiZ; rw [tr_sg]

theorem sg_pos_iff (s : Bool) (n : Nat) : 0 < sg s n ↔ (s = false ∧ 0 < n) := by
  have := Int.natCast_nonneg n
  cases s
  · simp [sg]
  · simp only [sg, if_true]; constructor
    · intro h; omega
    · intro h; exact absurd h.1 (by simp)

theorem sg_neg_iff (s : Bool) (n : Nat) : sg s n < 0 ↔ (s = true ∧ 0 < n) := by
  have := Int.natCast_nonneg n
  cases s
  · simp only [sg, Bool.false_eq_true, if_false]; constructor
    · intro h; omega
    · intro h; exact absurd h.1 (by simp)
  · simp [sg]

theorem corrZ_sg (s0 : Bool) (n0 : Nat) (s : Bool) (n : Nat) :
    corrZ UZ (sg s0 n0) (sg s n) =
      (if (!s0 && decide (0 < n0)) && (s && decide (0 < n % 2 ^ ConvDD.b64.q)) then -1 else 0)
        + (if (s0 && decide (0 < n0)) && (!s && decide (0 < n % 2 ^ ConvDD.b64.q)) then 1 else 0) := by
  unfold corrZ
  simp only [sg_pos_iff, sg_neg_iff, emod_sg_ne]
  have hmpos : n % 2 ^ ConvDD.b64.q ≠ 0 → 0 < n := by
    intro h; rcases Nat.eq_zero_or_pos n with h0 | h0
    · rw [h0] at h; simp at h
    · exact h0
  by_cases hfr : n % 2 ^ ConvDD.b64.q = 0
  · simp [hfr]
  · have hnpos := hmpos hfr
    have hfpos : 0 < n % 2 ^ ConvDD.b64.q := Nat.pos_of_ne_zero hfr
    cases s0 <;> cases s <;> simp [hfr, hnpos, hfpos]

/-- one loop iteration on sign / magnitude limbs, in integer terms -/
theorem step_eq (s0 : Bool) (n0 : Nat) (st : Int × Bool) (s : Bool) (n : Nat) :
    ConvDD.qdToIntStep false (.fin s0 n0) st (.fin s n) =
      (if !st.2 && decide (sg s n % UZ ≠ 0) then (st.1 + tiZ (sg s n) + corrZ UZ (sg s0 n0) (sg s n), true)
       else (st.1 + tiZ (sg s n), st.2)) := by
  unfold ConvDD.qdToIntStep
  simp only [Bool.false_and, Bool.false_eq_true, if_false, fracPart, nez_fin, toI64_eq_tiZ, flt_fin_pzero, fgt_fin_pzero]
  rw [corrZ_sg]
  have hm := emod_sg_ne s n
  have hd : decide (sg s n % UZ ≠ 0) = decide (n % 2 ^ ConvDD.b64.q ≠ 0) := by
    by_cases h : n % 2 ^ ConvDD.b64.q ≠ 0
    · rw [decide_eq_true h, decide_eq_true (hm.2 h)]
    · rw [decide_eq_false h, decide_eq_false (fun hc => h (hm.1 hc))]
  rw [hd]
  split_ifs <;> simp [add_assoc]


/-- the four iterations: sum of the truncated limbs plus the correction of the first limb with a fraction -/
theorem fold_eq (s0 s1 s2 s3 : Bool) (n0 n1 n2 n3 : Nat) :
    ([F.fin s0 n0, F.fin s1 n1, F.fin s2 n2, F.fin s3 n3].foldl (ConvDD.qdToIntStep false (F.fin s0 n0)) (0, false)).1
      = tiZ (sg s0 n0) + tiZ (sg s1 n1) + tiZ (sg s2 n2) + tiZ (sg s3 n3)
        + corrSel UZ (sg s0 n0) (sg s1 n1) (sg s2 n2) (sg s3 n3) := by
  simp only [List.foldl, step_eq]
  unfold corrSel
  by_cases h0 : sg s0 n0 % UZ ≠ 0
  · simp [h0]; ring
  · by_cases h1 : sg s1 n1 % UZ ≠ 0
    · simp [h0, h1]; ring
    · by_cases h2 : sg s2 n2 % UZ ≠ 0
      · simp [h0, h1, h2]; ring
      · by_cases h3 : sg s3 n3 % UZ ≠ 0
        · simp [h0, h1, h2, h3]
        · simp [h0, h1, h2, h3]

/-- what a float (quantum `ulpNat p n`) satisfies: the quantum is at most the value, and a fraction keeps a quantum's distance
    from both neighbouring multiples of the unit -/
theorem float_facts {p n : Nat} (q : Nat) (hp : 1 ≤ p) (hfl : IsFloatN p n) :
    (n ≠ 0 → ulpNat p n ≤ n) ∧ (n = 0 → ulpNat p n = 1) ∧
    (n % 2 ^ q ≠ 0 → ulpNat p n ≤ n % 2 ^ q ∧ n % 2 ^ q + ulpNat p n ≤ 2 ^ q) := by
  unfold ulpNat
  refine ⟨?_, ?_, ?_⟩
  · intro hn0
    have h1 : 2 ^ (size n - p) ≤ 2 ^ (size n - 1) := Nat.pow_le_pow_right (by decide) (by omega)
    have h2 := two_pow_size_le hn0
    omega
  · intro h0; subst h0
    have : size 0 = 0 := by simp [size]
    rw [this]; simp
  · intro hr
    set e := size n - p with he
    have hd : 2 ^ e ∣ n := isFloatN_canon hp hfl
    have heq : e < q := by
      by_contra hc
      have : 2 ^ q ∣ 2 ^ e := Nat.pow_dvd_pow 2 (by omega)
      exact hr (Nat.mod_eq_zero_of_dvd (Nat.dvd_trans this hd))
    have hU : 2 ^ e ∣ 2 ^ q := Nat.pow_dvd_pow 2 (by omega)
    have hdr : 2 ^ e ∣ n % 2 ^ q := (Nat.dvd_mod_iff hU).2 hd
    have hrpos : 0 < n % 2 ^ q := Nat.pos_of_ne_zero hr
    have hrlt : n % 2 ^ q < 2 ^ q := Nat.mod_lt _ (Nat.two_pow_pos q)
    have h1 : 2 ^ e ≤ n % 2 ^ q := Nat.le_of_dvd hrpos hdr
    have h2 : 2 ^ e ≤ 2 ^ q - n % 2 ^ q := Nat.le_of_dvd (by omega) (Nat.dvd_sub hU hdr)
    omega

/-- the same for the signed value, in integers -/
theorem sg_facts {p n : Nat} (s : Bool) (hp : 1 ≤ p) (hfl : IsFloatN p n) :
    ((0 < sg s n → ((ulpNat p n : Nat) : Int) ≤ sg s n) ∧ (sg s n < 0 → ((ulpNat p n : Nat) : Int) ≤ -sg s n)
      ∧ (sg s n = 0 → ((ulpNat p n : Nat) : Int) = 1)) ∧
    (sg s n % UZ ≠ 0 → ((ulpNat p n : Nat) : Int) ≤ sg s n % UZ ∧ sg s n % UZ + ((ulpNat p n : Nat) : Int) ≤ UZ) := by
  obtain ⟨f1, f2, f3⟩ := float_facts ConvDD.b64.q hp hfl
  have hnn := Int.natCast_nonneg n
  constructor
  · refine ⟨?_, ?_, ?_⟩
    · intro h
      have := (sg_pos_iff s n).1 h
      have h1 := f1 (by omega)
      rw [this.1]; simp only [sg, Bool.false_eq_true, if_false]; exact_mod_cast h1
    · intro h
      have := (sg_neg_iff s n).1 h
      have h1 := f1 (by omega)
      rw [this.1]; simp only [sg, if_true, neg_neg]; exact_mod_cast h1
    · intro h
      have hn0 : n = 0 := by
        cases s <;> simp only [sg, Bool.false_eq_true, if_false, if_true] at h <;> omega
      rw [f2 hn0]; rfl
  · intro h
    have hr := (emod_sg_ne s n).1 h
    obtain ⟨g1, g2⟩ := f3 hr
    have hmod : (n : Int) % UZ = ((n % 2 ^ ConvDD.b64.q : Nat) : Int) := by
      unfold UZ; exact (Int.natCast_mod n (2 ^ ConvDD.b64.q)).symm
    have g1z : ((ulpNat p n : Nat) : Int) ≤ ((n % 2 ^ ConvDD.b64.q : Nat) : Int) := by exact_mod_cast g1
    have g2z : ((n % 2 ^ ConvDD.b64.q : Nat) : Int) + ((ulpNat p n : Nat) : Int) ≤ UZ := by
      unfold UZ; exact_mod_cast g2
    cases s
    · simp only [sg, Bool.false_eq_true, if_false]
      rw [hmod]; exact ⟨g1z, g2z⟩
    · simp only [sg, if_true]
      have hne : (n : Int) % UZ ≠ 0 := by rw [hmod]; exact_mod_cast hr
      rw [((neg_divmod (z := (n : Int)) UZ_pos).2 hne).2, hmod]
      constructor <;> omega


/-- a head whose sum with a remainder smaller than its quantum stays below `2^K` is at most `2^K` -/
theorem head_le_of_sum_lt' {p n m : Nat} (K : Nat) (hp2 : 2 ≤ p) (hfl : IsFloatN p n) (hm : m < ulpNat p n)
    (h : n < 2 ^ K + m) : n ≤ 2 ^ K := by
  by_contra hc
  have hgt : 2 ^ K < n := by omega
  have hn0 : n ≠ 0 := by have := Nat.two_pow_pos K; omega
  have hsz : K + 1 ≤ size n := by
    by_contra h2
    have : size n ≤ K := by omega
    have := size_le.1 this
    omega
  unfold ulpNat at hm
  have hd : 2 ^ (size n - p) ∣ n := isFloatN_canon (by omega) hfl
  rcases Nat.lt_or_ge (size n) (K + 2) with h1 | h1
  · have hgK : 2 ^ (size n - p) ∣ 2 ^ K := Nat.pow_dvd_pow 2 (by omega)
    have hdiff : 2 ^ (size n - p) ∣ n - 2 ^ K := Nat.dvd_sub hd hgK
    have : 2 ^ (size n - p) ≤ n - 2 ^ K := Nat.le_of_dvd (by omega) hdiff
    omega
  · have h2 := two_pow_size_le hn0
    have h3 : 2 ^ (size n - p) ≤ 2 ^ (size n - 2) := Nat.pow_le_pow_right (by decide) (by omega)
    have h4 : 2 ^ (K + 1) ≤ 2 ^ (size n - 1) := Nat.pow_le_pow_right (by decide) (by omega)
    have h5 : 2 ^ (K + 1) = 2 * 2 ^ K := by rw [Nat.pow_succ]; ring
    have h6 : 2 ^ (size n - 1) = 2 * 2 ^ (size n - 2) := by
      have : size n - 1 = (size n - 2) + 1 := by omega
      rw [this, Nat.pow_succ]; ring
    omega

theorem ofSigned_congr {x y : Int} (h : (x - y) % (2 ^ 64 : Int) = 0) : ofSigned 64 x = ofSigned 64 y := by
  unfold ofSigned
  have e : (((2 : Nat) ^ 64 : Nat) : Int) = 18446744073709551616 := by norm_num
  rw [e]
  omega

theorem sg_natAbs (s : Bool) (n : Nat) : (sg s n).natAbs = n := by cases s <;> simp [sg]

theorem tr_bound (s : Bool) {n B : Nat} (h : n ≤ B * 2 ^ ConvDD.b64.q) : -(B : Int) ≤ tr UZ (sg s n) ∧ tr UZ (sg s n) ≤ (B : Int) := by
  rw [tr_sg]
  exact sg_bound s (Nat.div_le_of_le_mul (by rw [Nat.mul_comm]; exact h))

theorem half_le {a b : Nat} (h : 2 * a ≤ b) : a ≤ b := by omega

theorem chain_step {m n g : Nat} (N : 2 * m ≤ g) (a : n ≠ 0 → g ≤ n) (b : n = 0 → g = 1) : 2 * m ≤ n := by
  by_cases h : n = 0
  · rw [b h] at N; omega
  · have := a h; omega

theorem rest_lt {z1 z2 z3 : Int} {n1 n2 n3 g : Nat} (c1 : z1.natAbs = n1) (c2 : z2.natAbs = n2) (c3 : z3.natAbs = n3)
    (N1 : 2 * n1 ≤ g) (h21 : 2 * n2 ≤ n1) (h32 : 2 * n3 ≤ n2) (hg : 0 < g) : (z1 + z2 + z3).natAbs < g := by
  omega

theorem head_lt {z0 z1 z2 z3 : Int} {n0 B : Nat} (c0 : z0.natAbs = n0) (hr : (z0 + z1 + z2 + z3).natAbs < B) :
    n0 < B + (z1 + z2 + z3).natAbs := by
  omega

theorem half_bound {m n g B : Nat} (N : 2 * m ≤ g) (a : n ≠ 0 → g ≤ n) (b : n = 0 → g = 1) (h : n ≤ 2 * B) : m ≤ B := by
  by_cases h0 : n = 0
  · rw [b h0] at N; omega
  · have := a h0; omega

set_option exponentiation.threshold 2000 in
/-- **`(long long)qd` is the represented value truncated toward zero** for a normalised binary64 quad-double (every limb at
    most half an ulp of the previous one) whose value fits: `|x0 + x1 + x2 + x3| < 2^63`. -/
theorem qdToInt_trunc (s0 s1 s2 s3 : Bool) (n0 n1 n2 n3 : Nat)
    (fl0 : IsFloatN ConvDD.b64.p n0) (fl1 : IsFloatN ConvDD.b64.p n1) (fl2 : IsFloatN ConvDD.b64.p n2)
    (N1 : 2 * n1 ≤ ulpNat ConvDD.b64.p n0) (N2 : 2 * n2 ≤ ulpNat ConvDD.b64.p n1) (N3 : 2 * n3 ≤ ulpNat ConvDD.b64.p n2)
    (hr : (sg s0 n0 + sg s1 n1 + sg s2 n2 + sg s3 n3).natAbs < 2 ^ 63 * 2 ^ ConvDD.b64.q) :
    ConvDD.qdToInt 64 true (.fin s0 n0, .fin s1 n1, .fin s2 n2, .fin s3 n3)
      = ofSigned 64 (Int.tdiv (sg s0 n0 + sg s1 n1 + sg s2 n2 + sg s3 n3) UZ) := by
  have hp1 : 1 ≤ ConvDD.b64.p := by decide
  have hp2 : 2 ≤ ConvDD.b64.p := by decide
  obtain ⟨G0, R0⟩ := sg_facts s0 hp1 fl0
  obtain ⟨G1, R1⟩ := sg_facts s1 hp1 fl1
  obtain ⟨G2, R2⟩ := sg_facts s2 hp1 fl2
  obtain ⟨a0, b0, _⟩ := float_facts ConvDD.b64.q hp1 fl0
  obtain ⟨a1, b1, _⟩ := float_facts ConvDD.b64.q hp1 fl1
  obtain ⟨a2, b2, _⟩ := float_facts ConvDD.b64.q hp1 fl2
  have c1 := sg_natAbs s1 n1
  have c2 := sg_natAbs s2 n2
  have c3 := sg_natAbs s3 n3
  have c0 := sg_natAbs s0 n0
  have N1z : (2 * n1 : Int) ≤ ((ulpNat ConvDD.b64.p n0 : Nat) : Int) := by exact_mod_cast N1
  have N2z : (2 * n2 : Int) ≤ ((ulpNat ConvDD.b64.p n1 : Nat) : Int) := by exact_mod_cast N2
  have N3z : (2 * n3 : Int) ≤ ((ulpNat ConvDD.b64.p n2 : Nat) : Int) := by exact_mod_cast N3
  have N : Norm UZ (sg s0 n0) (sg s1 n1) (sg s2 n2) (sg s3 n3) ((ulpNat ConvDD.b64.p n0 : Nat) : Int)
      ((ulpNat ConvDD.b64.p n1 : Nat) : Int) ((ulpNat ConvDD.b64.p n2 : Nat) : Int) :=
    ⟨by omega, by omega, by omega, G0, G1, G2, R0, R1, R2⟩
  have hcore := core UZ _ _ _ _ _ _ _ UZ_pos N
  -- magnitudes: the chain n1 ≥ 2 n2 ≥ 4 n3 and 2 n1 ≤ ulp(n0)
  have h21 : 2 * n2 ≤ n1 := chain_step N2 a1 b1
  have h32 : 2 * n3 ≤ n2 := chain_step N3 a2 b2
  have hg0pos : 0 < ulpNat ConvDD.b64.p n0 := Nat.two_pow_pos _
  have hm : (sg s1 n1 + sg s2 n2 + sg s3 n3).natAbs < ulpNat ConvDD.b64.p n0 := rest_lt c1 c2 c3 N1 h21 h32 hg0pos
  have hr' : (sg s0 n0 + sg s1 n1 + sg s2 n2 + sg s3 n3).natAbs < 2 ^ (63 + ConvDD.b64.q) :=
    lt_of_lt_of_eq hr (Nat.pow_add 2 63 ConvDD.b64.q).symm
  have hn0' : n0 ≤ 2 ^ (63 + ConvDD.b64.q) := head_le_of_sum_lt' (63 + ConvDD.b64.q) hp2 fl0 hm (head_lt c0 hr')
  have hn0 : n0 ≤ 2 ^ 63 * 2 ^ ConvDD.b64.q := le_of_le_of_eq hn0' (Nat.pow_add 2 63 ConvDD.b64.q)
  have hn1 : n1 ≤ 2 ^ 62 * 2 ^ ConvDD.b64.q := by
    have e : 2 ^ 63 * 2 ^ ConvDD.b64.q = 2 * (2 ^ 62 * 2 ^ ConvDD.b64.q) := by
      have : (2 : Nat) ^ 63 = 2 * 2 ^ 62 := by norm_num
      rw [this, Nat.mul_assoc]
    rw [e] at hn0
    exact half_bound N1 a0 b0 hn0
  have hn2 : n2 ≤ 2 ^ 62 * 2 ^ ConvDD.b64.q := le_trans (half_le h21) hn1
  have hn3 : n3 ≤ 2 ^ 62 * 2 ^ ConvDD.b64.q := le_trans (half_le h32) hn2
  have t0 := tr_bound s0 hn0
  have t1 := tr_bound s1 hn1
  have t2 := tr_bound s2 hn2
  have t3 := tr_bound s3 hn3
  push_cast at t0 t1 t2 t3
  unfold ConvDD.qdToInt
  simp only [Bool.not_true]
  rw [fold_eq, hcore]
  rw [show (2 : Nat) ^ 64 = 18446744073709551616 from by norm_num, UVerif.ConvDDLemmas.ofSigned_mod]
  apply ofSigned_congr
  unfold tiZ
  generalize tr UZ (sg s0 n0) = T0 at *
  generalize tr UZ (sg s1 n1) = T1 at *
  generalize tr UZ (sg s2 n2) = T2 at *
  generalize tr UZ (sg s3 n3) = T3 at *
  generalize corrSel UZ (sg s0 n0) (sg s1 n1) (sg s2 n2) (sg s3 n3) = C at *
  split_ifs <;> omega



/-! ### unsigned reads -/


/-- the integer added for one limb by the unsigned loop: `t < 2^63 ? uint64_t(int64_t(t)) : uint64_t(t)` -/
def tiU (x : F) : Int :=
  if true && !(flt x (ofNatExact ConvDD.b64 (2 ^ 63))) then ((toU64 ConvDD.b64 x : Nat) : Int) else toI64 ConvDD.b64 x

set_option exponentiation.threshold 2000 in
/-- it is congruent to the truncated limb modulo 2^64 for `−2^63 ≤ trunc ≤ 2^64` -/
theorem tiU_congr (s : Bool) (n : Nat) (hlo : s = true → n / 2 ^ ConvDD.b64.q ≤ 2 ^ 63) (hhi : n / 2 ^ ConvDD.b64.q ≤ 2 ^ 64) :
    (tiU (.fin s n) - tr UZ (sg s n)) % (2 ^ 64 : Int) = 0 := by
  have hc := uhead_congr ConvDD.b64 s n hlo hhi
  rw [tr_sg]
  unfold tiU
  by_cases hf : flt (.fin s n) (ofNatExact ConvDD.b64 (2 ^ 63)) = true
  · -- below 2^63: the int64 conversion is in range
    simp only [hf, Bool.not_true, Bool.and_false, Bool.false_eq_true, if_false]
    rw [if_pos hf] at hc
    rw [toI64_fin] at hc ⊢
    generalize sg s (n / 2 ^ ConvDD.b64.q) = T at *
    unfold ofSigned at hc
    have e : (((2 : Nat) ^ 64 : Nat) : Int) = 18446744073709551616 := by norm_num
    rw [e] at hc
    split_ifs at hc ⊢ <;> omega
  · simp only [hf, Bool.not_false, Bool.and_self, if_true]
    rw [if_neg hf] at hc
    exact hc


/-- one iteration of the unsigned loop in integer terms -/
theorem step_eq_u (s0 : Bool) (n0 : Nat) (st : Int × Bool) (s : Bool) (n : Nat) :
    ConvDD.qdToIntStep true (.fin s0 n0) st (.fin s n) =
      (if !st.2 && decide (sg s n % UZ ≠ 0) then (st.1 + tiU (.fin s n) + corrZ UZ (sg s0 n0) (sg s n), true)
       else (st.1 + tiU (.fin s n), st.2)) := by
  unfold ConvDD.qdToIntStep tiU
  simp only [fracPart, nez_fin, flt_fin_pzero, fgt_fin_pzero]
  rw [corrZ_sg]
  have hm := emod_sg_ne s n
  have hd : decide (sg s n % UZ ≠ 0) = decide (n % 2 ^ ConvDD.b64.q ≠ 0) := by
    by_cases h : n % 2 ^ ConvDD.b64.q ≠ 0
    · rw [decide_eq_true h, decide_eq_true (hm.2 h)]
    · rw [decide_eq_false h, decide_eq_false (fun hc => h (hm.1 hc))]
  rw [hd]
  split_ifs <;> simp [add_assoc]

theorem fold_eq_u (s0 s1 s2 s3 : Bool) (n0 n1 n2 n3 : Nat) :
    ([F.fin s0 n0, F.fin s1 n1, F.fin s2 n2, F.fin s3 n3].foldl (ConvDD.qdToIntStep true (F.fin s0 n0)) (0, false)).1
      = tiU (.fin s0 n0) + tiU (.fin s1 n1) + tiU (.fin s2 n2) + tiU (.fin s3 n3)
        + corrSel UZ (sg s0 n0) (sg s1 n1) (sg s2 n2) (sg s3 n3) := by
  simp only [List.foldl, step_eq_u]
  unfold corrSel
  by_cases h0 : sg s0 n0 % UZ ≠ 0
  · simp [h0]; ring
  · by_cases h1 : sg s1 n1 % UZ ≠ 0
    · simp [h0, h1]; ring
    · by_cases h2 : sg s2 n2 % UZ ≠ 0
      · simp [h0, h1, h2]; ring
      · by_cases h3 : sg s3 n3 % UZ ≠ 0
        · simp [h0, h1, h2, h3]
        · simp [h0, h1, h2, h3]

theorem ofSigned_of_congr {x y : Int} (h : (x - y) % (2 ^ 64 : Int) = 0) (h0 : 0 ≤ y) (h1 : y < 2 ^ 64) :
    ((ofSigned 64 x : Nat) : Int) = y := by
  unfold ofSigned
  have e : (((2 : Nat) ^ 64 : Nat) : Int) = 18446744073709551616 := by norm_num
  rw [e]
  omega

theorem neg_head_small {z0 r : Int} {n0 m W : Nat} (c0 : z0 = -(n0 : Int)) (hm : r.natAbs ≤ m) (hmn : 8 * m ≤ 7 * n0)
    (hlo : -(W : Int) < z0 + r) : n0 < 8 * W := by
  omega

theorem chain_sum {n0 n1 n2 n3 : Nat} (h10 : 2 * n1 ≤ n0) (h21 : 2 * n2 ≤ n1) (h32 : 2 * n3 ≤ n2) :
    8 * (n1 + n2 + n3) ≤ 7 * n0 := by omega

theorem natAbs_sum3_le {z1 z2 z3 : Int} {n1 n2 n3 : Nat} (c1 : z1.natAbs = n1) (c2 : z2.natAbs = n2) (c3 : z3.natAbs = n3) :
    (z1 + z2 + z3).natAbs ≤ n1 + n2 + n3 := by omega

set_option exponentiation.threshold 2000 in
/-- **`(unsigned long long)qd` is the represented value truncated toward zero** for a normalised binary64 quad-double with
    `−1 < x0 + x1 + x2 + x3 < 2^64` (values in [2^63, 2^64) included). -/
theorem qdToUInt_trunc (s0 s1 s2 s3 : Bool) (n0 n1 n2 n3 : Nat)
    (fl0 : IsFloatN ConvDD.b64.p n0) (fl1 : IsFloatN ConvDD.b64.p n1) (fl2 : IsFloatN ConvDD.b64.p n2)
    (N1 : 2 * n1 ≤ ulpNat ConvDD.b64.p n0) (N2 : 2 * n2 ≤ ulpNat ConvDD.b64.p n1) (N3 : 2 * n3 ≤ ulpNat ConvDD.b64.p n2)
    (hlo : -UZ < sg s0 n0 + sg s1 n1 + sg s2 n2 + sg s3 n3)
    (hhi : (sg s0 n0 + sg s1 n1 + sg s2 n2 + sg s3 n3) < ((2 ^ 64 * 2 ^ ConvDD.b64.q : Nat) : Int)) :
    ((ConvDD.qdToInt 64 false (.fin s0 n0, .fin s1 n1, .fin s2 n2, .fin s3 n3) : Nat) : Int)
      = Int.tdiv (sg s0 n0 + sg s1 n1 + sg s2 n2 + sg s3 n3) UZ := by
  have hp1 : 1 ≤ ConvDD.b64.p := by decide
  have hp2 : 2 ≤ ConvDD.b64.p := by decide
  obtain ⟨G0, R0⟩ := sg_facts s0 hp1 fl0
  obtain ⟨G1, R1⟩ := sg_facts s1 hp1 fl1
  obtain ⟨G2, R2⟩ := sg_facts s2 hp1 fl2
  obtain ⟨a0, b0, _⟩ := float_facts ConvDD.b64.q hp1 fl0
  obtain ⟨a1, b1, _⟩ := float_facts ConvDD.b64.q hp1 fl1
  obtain ⟨a2, b2, _⟩ := float_facts ConvDD.b64.q hp1 fl2
  have c0 := sg_natAbs s0 n0
  have c1 := sg_natAbs s1 n1
  have c2 := sg_natAbs s2 n2
  have c3 := sg_natAbs s3 n3
  have N1z : (2 * n1 : Int) ≤ ((ulpNat ConvDD.b64.p n0 : Nat) : Int) := by exact_mod_cast N1
  have N2z : (2 * n2 : Int) ≤ ((ulpNat ConvDD.b64.p n1 : Nat) : Int) := by exact_mod_cast N2
  have N3z : (2 * n3 : Int) ≤ ((ulpNat ConvDD.b64.p n2 : Nat) : Int) := by exact_mod_cast N3
  have N : Norm UZ (sg s0 n0) (sg s1 n1) (sg s2 n2) (sg s3 n3) ((ulpNat ConvDD.b64.p n0 : Nat) : Int)
      ((ulpNat ConvDD.b64.p n1 : Nat) : Int) ((ulpNat ConvDD.b64.p n2 : Nat) : Int) :=
    ⟨by omega, by omega, by omega, G0, G1, G2, R0, R1, R2⟩
  have hcore := core UZ _ _ _ _ _ _ _ UZ_pos N
  have h10 : 2 * n1 ≤ n0 := chain_step N1 a0 b0
  have h21 : 2 * n2 ≤ n1 := chain_step N2 a1 b1
  have h32 : 2 * n3 ≤ n2 := chain_step N3 a2 b2
  have hg0pos : 0 < ulpNat ConvDD.b64.p n0 := Nat.two_pow_pos _
  have hm : (sg s1 n1 + sg s2 n2 + sg s3 n3).natAbs < ulpNat ConvDD.b64.p n0 := rest_lt c1 c2 c3 N1 h21 h32 hg0pos
  -- the head is at most 2^64 units; a negative head is below 8 units
  have hUle : UZ ≤ ((2 ^ 64 * 2 ^ ConvDD.b64.q : Nat) : Int) := by
    have : 2 ^ ConvDD.b64.q ≤ 2 ^ 64 * 2 ^ ConvDD.b64.q := Nat.le_mul_of_pos_left _ (by norm_num)
    unfold UZ; exact_mod_cast this
  have habs : (sg s0 n0 + sg s1 n1 + sg s2 n2 + sg s3 n3).natAbs < 2 ^ (64 + ConvDD.b64.q) := by
    have : (((sg s0 n0 + sg s1 n1 + sg s2 n2 + sg s3 n3).natAbs : Nat) : Int) < ((2 ^ 64 * 2 ^ ConvDD.b64.q : Nat) : Int) := by
      generalize ((2 ^ 64 * 2 ^ ConvDD.b64.q : Nat) : Int) = B at *
      have := UZ_pos
      omega
    rw [Nat.pow_add]
    exact_mod_cast this
  have hn0' : n0 ≤ 2 ^ (64 + ConvDD.b64.q) := head_le_of_sum_lt' (64 + ConvDD.b64.q) hp2 fl0 hm (head_lt c0 habs)
  have hn0 : n0 ≤ 2 ^ 64 * 2 ^ ConvDD.b64.q := le_of_le_of_eq hn0' (Nat.pow_add 2 64 ConvDD.b64.q)
  have e64 : 2 ^ 64 * 2 ^ ConvDD.b64.q = 2 * (2 ^ 63 * 2 ^ ConvDD.b64.q) := by
    have : (2 : Nat) ^ 64 = 2 * 2 ^ 63 := by norm_num
    rw [this, Nat.mul_assoc]
  have hn1 : n1 ≤ 2 ^ 63 * 2 ^ ConvDD.b64.q := by rw [e64] at hn0; exact half_bound N1 a0 b0 hn0
  have hn2 : n2 ≤ 2 ^ 63 * 2 ^ ConvDD.b64.q := le_trans (half_le h21) hn1
  have hn3 : n3 ≤ 2 ^ 63 * 2 ^ ConvDD.b64.q := le_trans (half_le h32) hn2
  have d0 : n0 / 2 ^ ConvDD.b64.q ≤ 2 ^ 64 := Nat.div_le_of_le_mul (by rw [Nat.mul_comm]; exact hn0)
  have d1 : n1 / 2 ^ ConvDD.b64.q ≤ 2 ^ 63 := Nat.div_le_of_le_mul (by rw [Nat.mul_comm]; exact hn1)
  have d2 : n2 / 2 ^ ConvDD.b64.q ≤ 2 ^ 63 := Nat.div_le_of_le_mul (by rw [Nat.mul_comm]; exact hn2)
  have d3 : n3 / 2 ^ ConvDD.b64.q ≤ 2 ^ 63 := Nat.div_le_of_le_mul (by rw [Nat.mul_comm]; exact hn3)
  have dneg : s0 = true → n0 / 2 ^ ConvDD.b64.q ≤ 2 ^ 63 := by
    intro hs
    have hz0 : sg s0 n0 = -(n0 : Int) := by rw [hs]; simp [sg]
    have hrest := natAbs_sum3_le c1 c2 c3
    have hsmall : n0 < 8 * 2 ^ ConvDD.b64.q := by
      have hW : UZ = ((2 ^ ConvDD.b64.q : Nat) : Int) := rfl
      rw [hW] at hlo
      have hl : -((2 ^ ConvDD.b64.q : Nat) : Int) < sg s0 n0 + (sg s1 n1 + sg s2 n2 + sg s3 n3) := by
        have : sg s0 n0 + (sg s1 n1 + sg s2 n2 + sg s3 n3) = sg s0 n0 + sg s1 n1 + sg s2 n2 + sg s3 n3 := by ring
        rw [this]; exact hlo
      exact neg_head_small hz0 hrest (chain_sum h10 h21 h32) hl
    have : n0 / 2 ^ ConvDD.b64.q < 8 := Nat.div_lt_of_lt_mul (by rw [Nat.mul_comm]; exact hsmall)
    omega
  have q0 := tiU_congr s0 n0 dneg d0
  have q1 := tiU_congr s1 n1 (fun _ => d1) (le_trans d1 (by norm_num))
  have q2 := tiU_congr s2 n2 (fun _ => d2) (le_trans d2 (by norm_num))
  have q3 := tiU_congr s3 n3 (fun _ => d3) (le_trans d3 (by norm_num))
  -- 0 ≤ tdiv < 2^64
  have hR0 : 0 ≤ Int.tdiv (sg s0 n0 + sg s1 n1 + sg s2 n2 + sg s3 n3) UZ := by
    by_cases hv : 0 ≤ sg s0 n0 + sg s1 n1 + sg s2 n2 + sg s3 n3
    · exact Int.tdiv_nonneg hv (le_of_lt UZ_pos)
    · have h0 := tdiv_of_rem_nonpos (V := sg s0 n0 + sg s1 n1 + sg s2 n2 + sg s3 n3) (U := UZ) (k := 0)
        (r := -(sg s0 n0 + sg s1 n1 + sg s2 n2 + sg s3 n3)) UZ_pos (by omega) (by ring) (by omega) (by omega)
      rw [h0]; simp
  have hR1 : Int.tdiv (sg s0 n0 + sg s1 n1 + sg s2 n2 + sg s3 n3) UZ < (2 ^ 64 : Int) := by
    have hna : (Int.tdiv (sg s0 n0 + sg s1 n1 + sg s2 n2 + sg s3 n3) UZ).natAbs < 2 ^ 64 := by
      rw [Int.natAbs_tdiv]
      have : UZ.natAbs = 2 ^ ConvDD.b64.q := by unfold UZ; exact Int.natAbs_natCast _
      rw [this]
      apply Nat.div_lt_of_lt_mul
      rw [Nat.mul_comm, ← Nat.pow_add]
      exact habs
    omega
  unfold ConvDD.qdToInt
  simp only [Bool.not_false]
  rw [fold_eq_u]
  rw [show (2 : Nat) ^ 64 = 18446744073709551616 from by norm_num, UVerif.ConvDDLemmas.ofSigned_mod]
  apply ofSigned_of_congr _ hR0 hR1
  rw [hcore]
  generalize tiU (.fin s0 n0) = A0 at *
  generalize tiU (.fin s1 n1) = A1 at *
  generalize tiU (.fin s2 n2) = A2 at *
  generalize tiU (.fin s3 n3) = A3 at *
  generalize tr UZ (sg s0 n0) = T0 at *
  generalize tr UZ (sg s1 n1) = T1 at *
  generalize tr UZ (sg s2 n2) = T2 at *
  generalize tr UZ (sg s3 n3) = T3 at *
  generalize corrSel UZ (sg s0 n0) (sg s1 n1) (sg s2 n2) (sg s3 n3) = C at *
  omega


end UVerif.QdBridge
