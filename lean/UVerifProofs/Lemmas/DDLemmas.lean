/-
  UVerifProofs.Lemmas.DDLemmas — value-level facts about the dd operators of UVerif.Model.DD,
  derived from the model-level TwoSum theorem.
-/
import UVerifProofs.Lemmas.F64ProdLift
import UVerif.Model.DD

namespace UVerif.DDLemmas
open UVerif UVerif.F64

/-- value form of the TwoSum contract. -/
theorem twoSum_val (f : Fmt) (ok : f.Ok) {a b : F} (ha : a.Rep f) (hb : b.Rep f) (hg : a.mag + b.mag ≤ maxMag f) :
    (twoSum f a b).1.Rep f ∧ (twoSum f a b).2.Rep f ∧
    (twoSum f a b).1.toInt = rnInt f.p (a.toInt + b.toInt) ∧
    (twoSum f a b).2.toInt = a.toInt + b.toInt - rnInt f.p (a.toInt + b.toInt) := by
  obtain ⟨h1, h2, h3, h4⟩ := twoSum_spec f ok ha hb hg
  refine ⟨h1, h2, h4, ?_⟩
  omega

/-- TwoSum with a zero operand returns the other operand and a zero residual (values). -/
theorem twoSum_zero_right (f : Fmt) (ok : f.Ok) {a b : F} (ha : a.Rep f) (hb : b.Rep f) (hb0 : b.toInt = 0)
    (hg : a.mag ≤ maxMag f) :
    (twoSum f a b).1.Rep f ∧ (twoSum f a b).2.Rep f ∧
    (twoSum f a b).1.toInt = a.toInt ∧ (twoSum f a b).2.toInt = 0 := by
  have hp : 1 ≤ f.p := by have := ok.hp2; omega
  have hbm : b.mag = 0 := by rw [F.mag_eq_natAbs, hb0]; rfl
  obtain ⟨h1, h2, h3, h4⟩ := twoSum_val f ok ha hb (by omega)
  rw [hb0, Int.add_zero, rnInt_exact hp ha.2] at h3 h4
  exact ⟨h1, h2, h3, by omega⟩

theorem twoSum_zero_left (f : Fmt) (ok : f.Ok) {a b : F} (ha : a.Rep f) (hb : b.Rep f) (ha0 : a.toInt = 0)
    (hg : b.mag ≤ maxMag f) :
    (twoSum f a b).1.Rep f ∧ (twoSum f a b).2.Rep f ∧
    (twoSum f a b).1.toInt = b.toInt ∧ (twoSum f a b).2.toInt = 0 := by
  have hp : 1 ≤ f.p := by have := ok.hp2; omega
  have ham : a.mag = 0 := by rw [F.mag_eq_natAbs, ha0]; rfl
  obtain ⟨h1, h2, h3, h4⟩ := twoSum_val f ok ha hb (by omega)
  rw [ha0, Int.zero_add, rnInt_exact hp hb.2] at h3 h4
  exact ⟨h1, h2, h3, by omega⟩

theorem mag_zero_of_toInt {x : F} (h : x.toInt = 0) : x.mag = 0 := by
  rw [F.mag_eq_natAbs, h]; rfl

/-- the closing `three_sum(hi, lo, t)` of `dd::operator+=` when `hi = RN(hi + lo)` already and `t = 0`:
    the pair is returned unchanged (values). -/
theorem threeSum_normalised (f : Fmt) (ok : f.Ok) {hi lo t : F} (hhi : hi.Rep f) (hlo : lo.Rep f) (ht : t.Rep f)
    (ht0 : t.toInt = 0) (hn : rnInt f.p (hi.toInt + lo.toInt) = hi.toInt) (hg : hi.mag + lo.mag ≤ maxMag f) :
    (threeSum f hi lo t).1.Rep f ∧ (threeSum f hi lo t).2.1.Rep f ∧
    (threeSum f hi lo t).1.toInt = hi.toInt ∧ (threeSum f hi lo t).2.1.toInt = lo.toInt := by
  obtain ⟨hu, hv, huv, hvv⟩ := twoSum_val f ok hhi hlo hg
  rw [hn] at huv hvv
  have hum : (twoSum f hi lo).1.mag ≤ maxMag f := by
    rw [F.mag_eq_natAbs, huv, ← F.mag_eq_natAbs]; omega
  obtain ⟨hx', hw, hx'v, hwv⟩ := twoSum_zero_left f ok ht hu ht0 hum
  have hvm : (twoSum f hi lo).2.mag ≤ maxMag f := by
    rw [F.mag_eq_natAbs, hvv]
    have : (hi.toInt + lo.toInt - hi.toInt).natAbs = lo.mag := by rw [F.mag_eq_natAbs]; congr 1; ring
    omega
  obtain ⟨hy', _, hy'v, _⟩ := twoSum_zero_right f ok hv hw hwv hvm
  unfold threeSum
  simp only
  refine ⟨hx', hy', ?_, ?_⟩
  · rw [hx'v, huv]
  · rw [hy'v, hvv]; ring

/-- `dd(a) + dd(b)` for two representable doubles: the result is the exact sum, head correctly rounded. -/
theorem add_of_doubles (f : Fmt) (ok : f.Ok) {a b : F} (ha : a.Rep f) (hb : b.Rep f)
    (hg : 2 * (a.mag + b.mag) ≤ maxMag f) :
    (DD.add f (DD.ofF a) (DD.ofF b)).hi.Rep f ∧ (DD.add f (DD.ofF a) (DD.ofF b)).lo.Rep f ∧
    (DD.add f (DD.ofF a) (DD.ofF b)).hi.toInt + (DD.add f (DD.ofF a) (DD.ofF b)).lo.toInt = a.toInt + b.toInt ∧
    (DD.add f (DD.ofF a) (DD.ofF b)).hi.toInt = rnInt f.p (a.toInt + b.toInt) := by
  have hp : 1 ≤ f.p := by have := ok.hp2; omega
  have hz := pzero_rep f
  have hz0 := pzero_toInt
  -- (hi, s2) = two_sum(a, b)
  obtain ⟨h1, h2, h1v, h2v⟩ := twoSum_val f ok ha hb (by omega)
  obtain ⟨hr1, hr2, hr3⟩ := twoSum_residual_le f ok ha hb (by omega)
  -- (t1, t2) = two_sum(0, 0)
  obtain ⟨ht1, ht2, ht1v, ht2v⟩ := twoSum_zero_right f ok hz hz hz0 (by rw [mag_zero_of_toInt hz0]; omega)
  rw [hz0] at ht1v
  -- (lo, t1') = two_sum(s2, t1)
  obtain ⟨hl, ht1', hlv, ht1'v⟩ := twoSum_zero_right f ok h2 ht1 ht1v (by omega)
  -- t1'' = t1' + t2
  have hsum0 : (twoSum f (twoSum f a b).2 (twoSum f pzero pzero).1).2.toInt + (twoSum f pzero pzero).2.toInt = 0 := by
    rw [ht1'v, ht2v]; rfl
  obtain ⟨ht, htv⟩ := add_exact f hp ok.hpt ht1'.1 ht2.1 (by rw [hsum0]; simp) (by rw [hsum0]; exact isFloat_zero _)
  rw [hsum0] at htv
  -- three_sum(hi, lo, t1'')
  have hn : rnInt f.p ((twoSum f a b).1.toInt + (twoSum f (twoSum f a b).2 (twoSum f pzero pzero).1).1.toInt)
      = (twoSum f a b).1.toInt := by
    rw [hlv, h1v, h2v]
    have e : rnInt f.p (a.toInt + b.toInt) + (a.toInt + b.toInt - rnInt f.p (a.toInt + b.toInt)) = a.toInt + b.toInt := by ring
    rw [e]
  have hlm : (twoSum f (twoSum f a b).2 (twoSum f pzero pzero).1).1.mag = (twoSum f a b).2.mag := by
    rw [F.mag_eq_natAbs, hlv, ← F.mag_eq_natAbs]
  obtain ⟨hH, hL, hHv, hLv⟩ := threeSum_normalised f ok h1 hl ht htv hn (by rw [hlm]; omega)
  unfold DD.add DD.ofF
  simp only [h1.1, if_true]
  refine ⟨hH, hL, ?_, ?_⟩
  · rw [hHv, hLv, hlv, h1v, h2v]; ring
  · rw [hHv, h1v]

/-- TwoSum of `a` and `−a`: both outputs are zero (no range restriction beyond `a` being finite). -/
theorem twoSum_self_neg (f : Fmt) (ok : f.Ok) {a : F} (ha : a.Rep f) (hm : a.mag ≤ maxMag f) :
    (twoSum f a a.neg).1.Rep f ∧ (twoSum f a a.neg).2.Rep f ∧
    (twoSum f a a.neg).1.toInt = 0 ∧ (twoSum f a a.neg).2.toInt = 0 := by
  have hp : 1 ≤ f.p := by have := ok.hp2; omega
  have hpt := ok.hpt
  have hna := F.neg_rep ha
  rw [F.mag_eq_natAbs] at hm
  have e0 : a.toInt + a.neg.toInt = 0 := by rw [F.neg_toInt]; ring
  obtain ⟨hs, hsv⟩ := add_exact f hp hpt ha.1 hna.1 (by rw [e0]; simp) (by rw [e0]; exact isFloat_zero _)
  rw [e0] at hsv
  -- bb = s − a = −a
  have e1 : (add f a a.neg).toInt - a.toInt = -a.toInt := by rw [hsv]; ring
  obtain ⟨hbb, hbbv⟩ := sub_exact f hp hpt hs.1 ha.1 (by rw [e1]; omega) (by rw [e1]; exact isFloat_neg ha.2)
  rw [e1] at hbbv
  -- a' = s − bb = a
  have e2 : (add f a a.neg).toInt - (sub f (add f a a.neg) a).toInt = a.toInt := by rw [hsv, hbbv]; ring
  obtain ⟨ha', ha'v⟩ := sub_exact f hp hpt hs.1 hbb.1 (by rw [e2]; omega) (by rw [e2]; exact ha.2)
  rw [e2] at ha'v
  -- da = a − a' = 0
  have e3 : a.toInt - (sub f (add f a a.neg) (sub f (add f a a.neg) a)).toInt = 0 := by rw [ha'v]; ring
  obtain ⟨hda, hdav⟩ := sub_exact f hp hpt ha.1 ha'.1 (by rw [e3]; simp) (by rw [e3]; exact isFloat_zero _)
  rw [e3] at hdav
  -- db = −a − bb = 0
  have e4 : a.neg.toInt - (sub f (add f a a.neg) a).toInt = 0 := by rw [hbbv, F.neg_toInt]; ring
  obtain ⟨hdb, hdbv⟩ := sub_exact f hp hpt hna.1 hbb.1 (by rw [e4]; simp) (by rw [e4]; exact isFloat_zero _)
  rw [e4] at hdbv
  have e5 : (sub f a (sub f (add f a a.neg) (sub f (add f a a.neg) a))).toInt + (sub f a.neg (sub f (add f a a.neg) a)).toInt = 0 := by
    rw [hdav, hdbv]; rfl
  obtain ⟨hr, hrv⟩ := add_exact f hp hpt hda.1 hdb.1 (by rw [e5]; simp) (by rw [e5]; exact isFloat_zero _)
  rw [e5] at hrv
  unfold twoSum
  simp only [hs.1, if_true]
  exact ⟨hs, hr, hsv, hrv⟩

/-- `x − x` is zero for every finite dd value (both limbs representable and in range). -/
theorem sub_self (f : Fmt) (ok : f.Ok) {x : DD.DD} (hh : x.hi.Rep f) (hl : x.lo.Rep f)
    (hmh : x.hi.mag ≤ maxMag f) (hml : x.lo.mag ≤ maxMag f) :
    (DD.sub f x x).hi.toInt = 0 ∧ (DD.sub f x x).lo.toInt = 0 ∧
    (DD.sub f x x).hi.isFinite = true ∧ (DD.sub f x x).lo.isFinite = true := by
  have hp : 1 ≤ f.p := by have := ok.hp2; omega
  have z0 : (0 : Nat) ≤ maxMag f := Nat.zero_le _
  obtain ⟨h1, h2, h1v, h2v⟩ := twoSum_self_neg f ok hh hmh
  obtain ⟨g1, g2, g1v, g2v⟩ := twoSum_self_neg f ok hl hml
  -- (lo, t1) = two_sum(s2, t1)
  obtain ⟨hl', ht1', hl'v, ht1'v⟩ := twoSum_zero_right f ok h2 g1 g1v (by rw [mag_zero_of_toInt h2v]; exact z0)
  rw [h2v] at hl'v
  have hsum0 : (twoSum f (twoSum f x.hi x.hi.neg).2 (twoSum f x.lo x.lo.neg).1).2.toInt + (twoSum f x.lo x.lo.neg).2.toInt = 0 := by
    rw [ht1'v, g2v]; rfl
  obtain ⟨ht, htv⟩ := add_exact f hp ok.hpt ht1'.1 g2.1 (by rw [hsum0]; simp) (by rw [hsum0]; exact isFloat_zero _)
  rw [hsum0] at htv
  have hn : rnInt f.p ((twoSum f x.hi x.hi.neg).1.toInt + (twoSum f (twoSum f x.hi x.hi.neg).2 (twoSum f x.lo x.lo.neg).1).1.toInt)
      = (twoSum f x.hi x.hi.neg).1.toInt := by
    rw [h1v, hl'v]; simp [rnInt_zero]
  obtain ⟨hH, hL, hHv, hLv⟩ := threeSum_normalised f ok h1 hl' ht htv hn
    (by rw [mag_zero_of_toInt h1v, mag_zero_of_toInt hl'v]; exact z0)
  unfold DD.sub DD.add DD.DD.neg
  simp only [h1.1, if_true]
  refine ⟨?_, ?_, hH.1, hL.1⟩
  · rw [hHv, h1v]
  · rw [hLv, hl'v]

end UVerif.DDLemmas

namespace UVerif.DDLemmas
open UVerif UVerif.F64

theorem rep_of_toInt_zero (f : Fmt) {x : F} (hx : x.isFinite = true) (h0 : x.toInt = 0) : x.Rep f :=
  ⟨hx, by rw [h0]; exact isFloat_zero _⟩

/-- a product with a zero factor is a (signed) zero. -/
theorem mul_zero_right (f : Fmt) {x y : F} (hx : x.isFinite = true) (hy : y.isFinite = true) (h0 : y.toInt = 0) :
    (mul f x y).isFinite = true ∧ (mul f x y).toInt = 0 := by
  cases x with
  | fin s n =>
    cases y with
    | fin t m =>
      have hm : m = 0 := by
        have := F.toInt_fin_natAbs t m
        rw [h0] at this; simpa using this.symm
      subst hm
      simp [mul, roundShr, rnShr, rneShr, pack, size, F.isFinite, F.toInt]
    | inf t => simp [F.isFinite] at hy
    | nan => simp [F.isFinite] at hy
  | inf s => simp [F.isFinite] at hx
  | nan => simp [F.isFinite] at hx

theorem mul_zero_left (f : Fmt) {x y : F} (hx : x.isFinite = true) (hy : y.isFinite = true) (h0 : x.toInt = 0) :
    (mul f x y).isFinite = true ∧ (mul f x y).toInt = 0 := by
  cases x with
  | fin s n =>
    cases y with
    | fin t m =>
      have hm : n = 0 := by
        have := F.toInt_fin_natAbs s n
        rw [h0] at this; simpa using this.symm
      subst hm
      simp [mul, roundShr, rnShr, rneShr, pack, size, F.isFinite, F.toInt]
    | inf t => simp [F.isFinite] at hy
    | nan => simp [F.isFinite] at hy
  | inf s => simp [F.isFinite] at hx
  | nan => simp [F.isFinite] at hx

/-- an exact addition of values that sum to zero. -/
theorem add_zero_vals (f : Fmt) (ok : f.Ok) {x y : F} (hx : x.isFinite = true) (hy : y.isFinite = true)
    (h0 : x.toInt + y.toInt = 0) : (add f x y).Rep f ∧ (add f x y).toInt = 0 := by
  have hp : 1 ≤ f.p := by have := ok.hp2; omega
  have := add_exact f hp ok.hpt hx hy (by rw [h0]; simp) (by rw [h0]; exact isFloat_zero _)
  rw [h0] at this; exact this

theorem sub_zero_vals (f : Fmt) (ok : f.Ok) {x y : F} (hx : x.isFinite = true) (hy : y.isFinite = true)
    (h0 : x.toInt - y.toInt = 0) : (sub f x y).Rep f ∧ (sub f x y).toInt = 0 := by
  have hp : 1 ≤ f.p := by have := ok.hp2; omega
  have := sub_exact f hp ok.hpt hx hy (by rw [h0]; simp) (by rw [h0]; exact isFloat_zero _)
  rw [h0] at this; exact this

/-- `split` of a zero: both parts are zeros. -/
theorem split_zero (f : Fmt) (ok : f.Ok) {z : F} (hz : z.isFinite = true) (h0 : z.toInt = 0) :
    (split f z).1.Rep f ∧ (split f z).2.Rep f ∧ (split f z).1.toInt = 0 ∧ (split f z).2.toInt = 0 := by
  have hzr := rep_of_toInt_zero f hz h0
  obtain ⟨h1, h2, h3, h4, _, _⟩ := split_spec_val f ok hzr (by rw [mag_zero_of_toInt h0]; exact Nat.zero_le _)
  rw [h0] at h3 h4
  simp [rnInt_zero] at h3 h4
  exact ⟨h1, h2, h3, h4⟩

/-- `two_prod` with a zero second factor: both outputs are zeros. -/
theorem twoProd_zero_right (f : Fmt) (ok : f.Ok) {x z : F} (hx : x.Rep f)
    (hth : x.mag ≤ maxMag f >>> (splitBits f + 1)) (hz : z.isFinite = true) (h0 : z.toInt = 0) :
    (twoProd f x z).1.Rep f ∧ (twoProd f x z).2.Rep f ∧ (twoProd f x z).1.toInt = 0 ∧ (twoProd f x z).2.toInt = 0 := by
  obtain ⟨pf, pv⟩ := mul_zero_right f hx.1 hz h0
  obtain ⟨xh, xl, _, _, _, _⟩ := split_spec_val f ok hx hth
  obtain ⟨zh, zl, zhv, zlv⟩ := split_zero f ok hz h0
  obtain ⟨m1f, m1v⟩ := mul_zero_right f xh.1 zh.1 zhv
  obtain ⟨m2f, m2v⟩ := mul_zero_right f xh.1 zl.1 zlv
  obtain ⟨m3f, m3v⟩ := mul_zero_right f xl.1 zh.1 zhv
  obtain ⟨m4f, m4v⟩ := mul_zero_right f xl.1 zl.1 zlv
  obtain ⟨t1, t1v⟩ := sub_zero_vals f ok m1f pf (by rw [m1v, pv]; rfl)
  obtain ⟨t2, t2v⟩ := add_zero_vals f ok t1.1 m2f (by rw [t1v, m2v]; rfl)
  obtain ⟨t3, t3v⟩ := add_zero_vals f ok t2.1 m3f (by rw [t2v, m3v]; rfl)
  obtain ⟨r, rv⟩ := add_zero_vals f ok t3.1 m4f (by rw [t3v, m4v]; rfl)
  rw [twoProd_eq]
  simp only [pf, if_true]
  exact ⟨rep_of_toInt_zero f pf pv, r, pv, rv⟩

theorem twoProd_zero_left (f : Fmt) (ok : f.Ok) {x z : F} (hx : x.Rep f)
    (hth : x.mag ≤ maxMag f >>> (splitBits f + 1)) (hz : z.isFinite = true) (h0 : z.toInt = 0) :
    (twoProd f z x).1.Rep f ∧ (twoProd f z x).2.Rep f ∧ (twoProd f z x).1.toInt = 0 ∧ (twoProd f z x).2.toInt = 0 := by
  obtain ⟨pf, pv⟩ := mul_zero_left f hz hx.1 h0
  obtain ⟨xh, xl, _, _, _, _⟩ := split_spec_val f ok hx hth
  obtain ⟨zh, zl, zhv, zlv⟩ := split_zero f ok hz h0
  obtain ⟨m1f, m1v⟩ := mul_zero_left f zh.1 xh.1 zhv
  obtain ⟨m2f, m2v⟩ := mul_zero_left f zh.1 xl.1 zhv
  obtain ⟨m3f, m3v⟩ := mul_zero_left f zl.1 xh.1 zlv
  obtain ⟨m4f, m4v⟩ := mul_zero_left f zl.1 xl.1 zlv
  obtain ⟨t1, t1v⟩ := sub_zero_vals f ok m1f pf (by rw [m1v, pv]; rfl)
  obtain ⟨t2, t2v⟩ := add_zero_vals f ok t1.1 m2f (by rw [t1v, m2v]; rfl)
  obtain ⟨t3, t3v⟩ := add_zero_vals f ok t2.1 m3f (by rw [t2v, m3v]; rfl)
  obtain ⟨r, rv⟩ := add_zero_vals f ok t3.1 m4f (by rw [t3v, m4v]; rfl)
  rw [twoProd_eq]
  simp only [pf, if_true]
  exact ⟨rep_of_toInt_zero f pf pv, r, pv, rv⟩

end UVerif.DDLemmas

namespace UVerif.DDLemmas
open UVerif UVerif.F64

/-- `three_sum(x, 0, 0)` returns `(x, 0, 0)` (values). -/
theorem threeSum_two_zeros (f : Fmt) (ok : f.Ok) {x y z : F} (hx : x.Rep f) (hy : y.isFinite = true) (hz : z.isFinite = true)
    (hy0 : y.toInt = 0) (hz0 : z.toInt = 0) (hm : x.mag ≤ maxMag f) :
    (threeSum f x y z).1.Rep f ∧ (threeSum f x y z).2.1.Rep f ∧ (threeSum f x y z).2.2.Rep f ∧
    (threeSum f x y z).1.toInt = x.toInt ∧ (threeSum f x y z).2.1.toInt = 0 ∧ (threeSum f x y z).2.2.toInt = 0 := by
  have hyr := rep_of_toInt_zero f hy hy0
  have hzr := rep_of_toInt_zero f hz hz0
  obtain ⟨hu, hv, huv, hvv⟩ := twoSum_zero_right f ok hx hyr hy0 hm
  have hum : (twoSum f x y).1.mag ≤ maxMag f := by rw [F.mag_eq_natAbs, huv, ← F.mag_eq_natAbs]; exact hm
  obtain ⟨hx', hw, hx'v, hwv⟩ := twoSum_zero_left f ok hzr hu hz0 hum
  obtain ⟨hy', hz', hy'v, hz'v⟩ := twoSum_zero_right f ok hv hw hwv (by rw [mag_zero_of_toInt hvv]; exact Nat.zero_le _)
  unfold threeSum
  simp only
  refine ⟨hx', hy', hz', ?_, ?_, hz'v⟩
  · rw [hx'v, huv]
  · rw [hy'v, hvv]

theorem DD_mul_eq (f : Fmt) (a b : DD.DD) :
    DD.mul f a b =
      (if (twoProd f a.hi b.hi).1.isFinite then
        (⟨(threeSum f (twoProd f a.hi b.hi).1
              (threeSum f (twoProd f a.hi b.hi).2 (twoProd f a.hi b.lo).1 (twoProd f a.lo b.hi).1).1
              (F64.add f (threeSum f (twoProd f a.hi b.hi).2 (twoProd f a.hi b.lo).1 (twoProd f a.lo b.hi).1).2.1
                (F64.add f (F64.add f (twoProd f a.hi b.lo).2 (twoProd f a.lo b.hi).2) (F64.mul f a.lo b.lo)))).1,
          (threeSum f (twoProd f a.hi b.hi).1
              (threeSum f (twoProd f a.hi b.hi).2 (twoProd f a.hi b.lo).1 (twoProd f a.lo b.hi).1).1
              (F64.add f (threeSum f (twoProd f a.hi b.hi).2 (twoProd f a.hi b.lo).1 (twoProd f a.lo b.hi).1).2.1
                (F64.add f (F64.add f (twoProd f a.hi b.lo).2 (twoProd f a.lo b.hi).2) (F64.mul f a.lo b.lo)))).2.1⟩ : DD.DD)
      else ⟨(twoProd f a.hi b.hi).1, pzero⟩) := by
  unfold DD.mul
  rfl

/-- `dd(a) * dd(b)` for two NORMAL doubles (guards of `twoProd_spec`): the result is the exact product, head
    correctly rounded. -/
theorem mul_of_doubles (f : Fmt) (ok : f.Ok) (h4 : 4 ≤ f.p) {a b : F} (ha : a.Rep f) (hb : b.Rep f) {ea eb : Nat}
    (ha5 : 2 ^ (f.p - 1 + ea) ≤ a.mag) (ha6 : a.mag < 2 ^ (f.p + ea))
    (hb5 : 2 ^ (f.p - 1 + eb) ≤ b.mag) (hb6 : b.mag < 2 ^ (f.p + eb))
    (hq : f.q ≤ ea + eb)
    (htha : a.mag ≤ maxMag f >>> (splitBits f + 1)) (hthb : b.mag ≤ maxMag f >>> (splitBits f + 1))
    (hrange : 8 * 2 ^ (f.p + ea + (f.p + eb)) ≤ maxMag f * 2 ^ f.q) :
    ((DD.mul f (DD.ofF a) (DD.ofF b)).hi.toInt + (DD.mul f (DD.ofF a) (DD.ofF b)).lo.toInt) * ((2 ^ f.q : Nat) : Int)
      = a.toInt * b.toInt ∧
    (DD.mul f (DD.ofF a) (DD.ofF b)).hi.toInt * ((2 ^ f.q : Nat) : Int) = rnInt f.p (a.toInt * b.toInt) := by
  have hp : 1 ≤ f.p := by omega
  have hpt := ok.hpt
  have hzf : pzero.isFinite = true := rfl
  have hz0 := pzero_toInt
  -- (p0, p1) = two_prod(a, b)
  obtain ⟨p0r, p1r, hsum, hp0v⟩ := twoProd_spec f ok h4 ha hb ha5 ha6 hb5 hb6 hq htha hthb hrange
  -- magnitudes of p0, p1 (scaled by 2^q they are at most W = 2^(2p+E))
  have wab : (a.toInt * b.toInt).natAbs ≤ 2 ^ (f.p + ea + (f.p + eb)) := by
    rw [Nat.pow_add]; rw [F.mag_eq_natAbs] at ha6 hb6
    exact natAbs_mul_le (Nat.le_of_lt ha6) (Nat.le_of_lt hb6)
  have wP : (rnInt f.p (a.toInt * b.toInt)).natAbs ≤ 2 ^ (f.p + ea + (f.p + eb)) :=
    rnInt_natAbs_le hp (isFloatN_two_pow _ _ hp) wab
  have hp0m : 4 * (twoProd f a b).1.mag ≤ maxMag f := by
    have h : (twoProd f a b).1.mag * 2 ^ f.q ≤ 2 ^ (f.p + ea + (f.p + eb)) := by
      have := congrArg Int.natAbs hp0v
      rw [Int.natAbs_mul] at this
      simp only [Int.natAbs_natCast] at this
      rw [F.mag_eq_natAbs, this]; exact wP
    have h2 : (4 * (twoProd f a b).1.mag) * 2 ^ f.q ≤ maxMag f * 2 ^ f.q := by
      have : (4 * (twoProd f a b).1.mag) * 2 ^ f.q = 4 * ((twoProd f a b).1.mag * 2 ^ f.q) := by ring
      omega
    exact Nat.le_of_mul_le_mul_right h2 (Nat.two_pow_pos _)
  have hp1m : 4 * (twoProd f a b).2.mag ≤ maxMag f := by
    have hv : (twoProd f a b).2.toInt * ((2 ^ f.q : Nat) : Int) = a.toInt * b.toInt - rnInt f.p (a.toInt * b.toInt) := by
      rw [← hp0v, ← hsum]; ring
    have h : (twoProd f a b).2.mag * 2 ^ f.q ≤ 2 * 2 ^ (f.p + ea + (f.p + eb)) := by
      have := congrArg Int.natAbs hv
      rw [Int.natAbs_mul] at this
      simp only [Int.natAbs_natCast] at this
      rw [F.mag_eq_natAbs, this]; omega
    have h2 : (4 * (twoProd f a b).2.mag) * 2 ^ f.q ≤ maxMag f * 2 ^ f.q := by
      have : (4 * (twoProd f a b).2.mag) * 2 ^ f.q = 4 * ((twoProd f a b).2.mag * 2 ^ f.q) := by ring
      omega
    exact Nat.le_of_mul_le_mul_right h2 (Nat.two_pow_pos _)
  -- the products with the zero tails
  obtain ⟨q2r, q4r, q2v, q4v⟩ := twoProd_zero_right f ok ha htha hzf hz0
  obtain ⟨q3r, q5r, q3v, q5v⟩ := twoProd_zero_left f ok hb hthb hzf hz0
  obtain ⟨p6f, p6v⟩ := mul_zero_left f hzf hzf hz0
  -- three_sum(p1, p2, p3) = (p1, 0, 0)
  obtain ⟨s1r, s2r, _, s1v, s2v, _⟩ := threeSum_two_zeros f ok p1r q2r.1 q3r.1 q2v q3v (by omega)
  -- p2 += p4 + p5 + p6 : all zeros
  obtain ⟨u1r, u1v⟩ := add_zero_vals f ok q4r.1 q5r.1 (by rw [q4v, q5v]; rfl)
  obtain ⟨u2r, u2v⟩ := add_zero_vals f ok u1r.1 p6f (by rw [u1v, p6v]; rfl)
  obtain ⟨u3r, u3v⟩ := add_zero_vals f ok s2r.1 u2r.1 (by rw [s2v, u2v]; rfl)
  -- three_sum(p0, p1', 0) with p0 = RN(p0 + p1)
  have hn : rnInt f.p ((twoProd f a b).1.toInt + (threeSum f (twoProd f a b).2 (twoProd f a pzero).1 (twoProd f pzero b).1).1.toInt)
      = (twoProd f a b).1.toInt := by
    rw [s1v]
    have hQ : (0 : Int) < ((2 ^ f.q : Nat) : Int) := by have := Nat.two_pow_pos f.q; omega
    have h1 := rnInt_mul_two_pow f.p ((twoProd f a b).1.toInt + (twoProd f a b).2.toInt) f.q hp
    rw [hsum, ← hp0v] at h1
    exact (Int.eq_of_mul_eq_mul_right (Int.ne_of_gt hQ) h1).symm
  have hs1m : (threeSum f (twoProd f a b).2 (twoProd f a pzero).1 (twoProd f pzero b).1).1.mag = (twoProd f a b).2.mag := by
    rw [F.mag_eq_natAbs, s1v, ← F.mag_eq_natAbs]
  obtain ⟨hH, hL, hHv, hLv⟩ := threeSum_normalised f ok p0r s1r u3r u3v hn (by rw [hs1m]; omega)
  rw [DD_mul_eq]
  simp only [DD.ofF, p0r.1, if_true]
  refine ⟨?_, ?_⟩
  · rw [hHv, hLv, s1v]; exact hsum
  · rw [hHv]; exact hp0v

end UVerif.DDLemmas

namespace UVerif.DDLemmas
open UVerif UVerif.F64

/-- `two_prod(x, c)` with `c = ±2^k` (normal, guards of `twoProd_spec`): the head is the exact product and the
    residual is zero. -/
theorem twoProd_pow2 (f : Fmt) (ok : f.Ok) (h4 : 4 ≤ f.p) {x c : F} (hx : x.Rep f) (hc : c.Rep f) {ex ec : Nat}
    (hx5 : 2 ^ (f.p - 1 + ex) ≤ x.mag) (hx6 : x.mag < 2 ^ (f.p + ex))
    (hcm : c.mag = 2 ^ (f.p - 1 + ec))
    (hq : f.q ≤ ex + ec)
    (hthx : x.mag ≤ maxMag f >>> (splitBits f + 1)) (hthc : c.mag ≤ maxMag f >>> (splitBits f + 1))
    (hrange : 8 * 2 ^ (f.p + ex + (f.p + ec)) ≤ maxMag f * 2 ^ f.q) :
    (twoProd f x c).1.Rep f ∧ (twoProd f x c).2.Rep f ∧
    (twoProd f x c).1.toInt * ((2 ^ f.q : Nat) : Int) = x.toInt * c.toInt ∧ (twoProd f x c).2.toInt = 0 := by
  have hp : 1 ≤ f.p := by omega
  have hc5 : 2 ^ (f.p - 1 + ec) ≤ c.mag := by rw [hcm]
  have hc6 : c.mag < 2 ^ (f.p + ec) := by
    rw [hcm]; exact Nat.pow_lt_pow_right (by decide) (by omega)
  obtain ⟨h1, h2, h3, h4'⟩ := twoProd_spec f ok h4 hx hc hx5 hx6 hc5 hc6 hq hthx hthc hrange
  -- x·c is a float
  have hfl : IsFloat f.p (x.toInt * c.toInt) := by
    have hcabs : c.toInt.natAbs = 2 ^ (f.p - 1 + ec) := by rw [← F.mag_eq_natAbs]; exact hcm
    unfold IsFloat
    rw [Int.natAbs_mul, hcabs]
    exact isFloatN_mul_two_pow hx.2 _
  rw [rnInt_exact hp hfl] at h4'
  refine ⟨h1, h2, h4', ?_⟩
  have hQ : (0 : Int) < ((2 ^ f.q : Nat) : Int) := by have := Nat.two_pow_pos f.q; omega
  have : (twoProd f x c).2.toInt * ((2 ^ f.q : Nat) : Int) = 0 := by
    have e : ((twoProd f x c).1.toInt + (twoProd f x c).2.toInt) * ((2 ^ f.q : Nat) : Int)
        = (twoProd f x c).1.toInt * ((2 ^ f.q : Nat) : Int) + (twoProd f x c).2.toInt * ((2 ^ f.q : Nat) : Int) := by ring
    rw [e, h4'] at h3
    omega
  rcases Int.mul_eq_zero.1 this with h | h
  · exact h
  · omega

/-- `dd × (±2^k, 0)` for a dd value with NORMAL head and NORMAL tail (guards of `twoProd_spec` for both limbs):
    the result is the exact product. -/
theorem mul_pow2 (f : Fmt) (ok : f.Ok) (h4 : 4 ≤ f.p) {x : DD.DD} {c : F} (hh : x.hi.Rep f) (hl : x.lo.Rep f) (hc : c.Rep f)
    {eh el ec : Nat}
    (hh5 : 2 ^ (f.p - 1 + eh) ≤ x.hi.mag) (hh6 : x.hi.mag < 2 ^ (f.p + eh))
    (hl5 : 2 ^ (f.p - 1 + el) ≤ x.lo.mag) (hl6 : x.lo.mag < 2 ^ (f.p + el))
    (hle : el ≤ eh)
    (hcm : c.mag = 2 ^ (f.p - 1 + ec))
    (hq : f.q ≤ el + ec)
    (hthh : x.hi.mag ≤ maxMag f >>> (splitBits f + 1)) (hthl : x.lo.mag ≤ maxMag f >>> (splitBits f + 1))
    (hthc : c.mag ≤ maxMag f >>> (splitBits f + 1))
    (hrange : 8 * 2 ^ (f.p + eh + (f.p + ec)) ≤ maxMag f * 2 ^ f.q) :
    ((DD.mul f x (DD.ofF c)).hi.toInt + (DD.mul f x (DD.ofF c)).lo.toInt) * ((2 ^ f.q : Nat) : Int)
      = (x.hi.toInt + x.lo.toInt) * c.toInt := by
  have hp : 1 ≤ f.p := by omega
  have hzf : pzero.isFinite = true := rfl
  have hz0 := pzero_toInt
  have hrange_l : 8 * 2 ^ (f.p + el + (f.p + ec)) ≤ maxMag f * 2 ^ f.q := by
    have : 2 ^ (f.p + el + (f.p + ec)) ≤ 2 ^ (f.p + eh + (f.p + ec)) := Nat.pow_le_pow_right (by decide) (by omega)
    omega
  obtain ⟨p0r, p1r, p0v, p1v⟩ := twoProd_pow2 f ok h4 hh hc hh5 hh6 hcm (by omega) hthh hthc hrange
  obtain ⟨p3r, p5r, p3v, p5v⟩ := twoProd_pow2 f ok h4 hl hc hl5 hl6 hcm hq hthl hthc hrange_l
  obtain ⟨q2r, q4r, q2v, q4v⟩ := twoProd_zero_right f ok hh hthh hzf hz0
  obtain ⟨p6f, p6v⟩ := mul_zero_right f hl.1 hzf hz0
  -- magnitudes: |p0|·2^q = |hi·c| ≤ W/… ; we only need 2(|p0| + |p3|) ≤ maxMag
  have hcabs : c.toInt.natAbs = c.mag := (F.mag_eq_natAbs c).symm
  have hc6 : c.mag < 2 ^ (f.p + ec) := by rw [hcm]; exact Nat.pow_lt_pow_right (by decide) (by omega)
  have bound : ∀ (y : F) (e : Nat), y.mag < 2 ^ (f.p + e) → e ≤ eh →
      ∀ v : F, v.toInt * ((2 ^ f.q : Nat) : Int) = y.toInt * c.toInt → 8 * v.mag ≤ maxMag f := by
    intro y e hy he v hv
    have h1 : v.mag * 2 ^ f.q = y.mag * c.mag := by
      have := congrArg Int.natAbs hv
      rw [Int.natAbs_mul, Int.natAbs_mul] at this
      simp only [Int.natAbs_natCast] at this
      rw [F.mag_eq_natAbs v, F.mag_eq_natAbs y, this, hcabs]
    have h2 : y.mag * c.mag ≤ 2 ^ (f.p + eh + (f.p + ec)) := by
      rw [Nat.pow_add]
      have : 2 ^ (f.p + e) ≤ 2 ^ (f.p + eh) := Nat.pow_le_pow_right (by decide) (by omega)
      exact Nat.mul_le_mul (by omega) (Nat.le_of_lt hc6)
    have h3 : (8 * v.mag) * 2 ^ f.q ≤ maxMag f * 2 ^ f.q := by
      have : (8 * v.mag) * 2 ^ f.q = 8 * (v.mag * 2 ^ f.q) := by ring
      omega
    exact Nat.le_of_mul_le_mul_right h3 (Nat.two_pow_pos _)
  have hp0m := bound x.hi eh hh6 (Nat.le_refl _) _ p0v
  have hp3m := bound x.lo el hl6 hle _ p3v
  -- three_sum(p1 = 0, p2 = 0, p3) = (p3, 0, 0)
  have hTS1 : (threeSum f (twoProd f x.hi c).2 (twoProd f x.hi pzero).1 (twoProd f x.lo c).1).1.Rep f ∧
      (threeSum f (twoProd f x.hi c).2 (twoProd f x.hi pzero).1 (twoProd f x.lo c).1).2.1.Rep f ∧
      (threeSum f (twoProd f x.hi c).2 (twoProd f x.hi pzero).1 (twoProd f x.lo c).1).1.toInt = (twoProd f x.lo c).1.toInt ∧
      (threeSum f (twoProd f x.hi c).2 (twoProd f x.hi pzero).1 (twoProd f x.lo c).1).2.1.toInt = 0 := by
    obtain ⟨hu, hv, huv, hvv⟩ := twoSum_zero_right f ok p1r q2r q2v (by rw [mag_zero_of_toInt p1v]; exact Nat.zero_le _)
    rw [p1v] at huv
    obtain ⟨hx', hw, hx'v, hwv⟩ := twoSum_zero_right f ok p3r hu huv (by omega)
    obtain ⟨hy', _, hy'v, _⟩ := twoSum_zero_right f ok hv hw hwv (by rw [mag_zero_of_toInt hvv]; exact Nat.zero_le _)
    unfold threeSum
    simp only
    exact ⟨hx', hy', hx'v, by rw [hy'v, hvv]⟩
  obtain ⟨s1r, s2r, s1v, s2v⟩ := hTS1
  -- p2 += p4 + p5 + p6 : zeros
  obtain ⟨u1r, u1v⟩ := add_zero_vals f ok q4r.1 p5r.1 (by rw [q4v, p5v]; rfl)
  obtain ⟨u2r, u2v⟩ := add_zero_vals f ok u1r.1 p6f (by rw [u1v, p6v]; rfl)
  obtain ⟨u3r, u3v⟩ := add_zero_vals f ok s2r.1 u2r.1 (by rw [s2v, u2v]; rfl)
  -- three_sum(p0, p3', 0): the first two outputs sum to p0 + p3
  have hs1m : (threeSum f (twoProd f x.hi c).2 (twoProd f x.hi pzero).1 (twoProd f x.lo c).1).1.mag = (twoProd f x.lo c).1.mag := by
    rw [F.mag_eq_natAbs, s1v, ← F.mag_eq_natAbs]
  obtain ⟨hu, hv, hsum, _⟩ := twoSum_spec f ok p0r s1r (by rw [hs1m]; omega)
  obtain ⟨hv1, hv2, hu1⟩ := twoSum_residual_le f ok p0r s1r (by rw [hs1m]; omega)
  obtain ⟨hX, hW, hXv, hWv⟩ := twoSum_zero_left f ok u3r hu u3v (by rw [hs1m] at hv2 hu1; omega)
  obtain ⟨hY, _, hYv, _⟩ := twoSum_zero_right f ok hv hW hWv (by omega)
  rw [DD_mul_eq]
  simp only [DD.ofF, p0r.1, if_true]
  have e1 : ∀ A B C : F, (threeSum f A B C).1 = (twoSum f C (twoSum f A B).1).1 := fun _ _ _ => rfl
  have e2 : ∀ A B C : F, (threeSum f A B C).2.1 = (twoSum f (twoSum f A B).2 (twoSum f C (twoSum f A B).1).2).1 := fun _ _ _ => rfl
  rw [e1 (twoProd f x.hi c).1, e2 (twoProd f x.hi c).1, hXv, hYv]
  have e : ((twoSum f (twoProd f x.hi c).1 (threeSum f (twoProd f x.hi c).2 (twoProd f x.hi pzero).1 (twoProd f x.lo c).1).1).1.toInt
      + (twoSum f (twoProd f x.hi c).1 (threeSum f (twoProd f x.hi c).2 (twoProd f x.hi pzero).1 (twoProd f x.lo c).1).1).2.toInt)
      = (twoProd f x.hi c).1.toInt + (twoProd f x.lo c).1.toInt := by rw [hsum, s1v]
  rw [e, Int.add_mul, p0v, p3v]; ring

end UVerif.DDLemmas
