/-
  UVerifProofs.Lemmas.DDNorm — what the closing `three_sum` of the dd operators guarantees:
  weak normalisation `|lo| ≤ ulp(hi)` (integer-unit model, generic precision).

  `Q p z = 2^(size|z| − p)` is the quantum (ulp) of the binade of `z`.
  * `rnNat_tie_up`       RN(2^j − δ) = 2^j for δ ≤ ¼·(quantum above 2^j)   (ties go to the even neighbour 2^j)
  * `Q_rn_add_ge`        4|t| ≤ Q(u) ⇒ Q(RN(u + t)) ≥ Q(u)               (a small addend cannot push u a binade down)
  * `three_sum_weak`     for floats h, l, t with  v = 0 ∨ 4|t| ≤ Q(u)  (u = RN(h+l), v = h+l−u):
                         the first two outputs (x', y') of three_sum(h, l, t) satisfy |y'| ≤ Q(x').
-/
import UVerifProofs.Lemmas.F64ProdLift
import UVerif.Model.DD

namespace UVerif.F64

/-- quantum of the binade of `z` at precision `p` (a power of two; 1 below `2^p`). -/
def Q (p : Nat) (z : Int) : Nat := 2 ^ (size z.natAbs - p)

theorem Q_pos (p : Nat) (z : Int) : 0 < Q p z := Nat.two_pow_pos _

theorem Q_neg (p : Nat) (z : Int) : Q p (-z) = Q p z := by unfold Q; rw [Int.natAbs_neg]

theorem Q_mono {p : Nat} {x y : Int} (h : x.natAbs ≤ y.natAbs) : Q p x ≤ Q p y := by
  unfold Q
  exact Nat.pow_le_pow_right (by decide) (by have := size_mono h; omega)

theorem rn_err_le_Q (p : Nat) (z : Int) : 2 * (z - rnInt p z).natAbs ≤ Q p z := rnInt_close p z

/-- rounding never decreases the bit length. -/
theorem size_rn_ge {p : Nat} (hp : 1 ≤ p) (z : Int) : size z.natAbs ≤ size (rnInt p z).natAbs := by
  rw [rnInt_natAbs]
  by_cases h0 : z.natAbs = 0
  · rw [h0]; simp [size_zero]
  · have h1 := two_pow_size_le h0
    have h2 := rnNat_ge_of_ge hp (isFloatN_two_pow p (size z.natAbs - 1) hp) h1
    have : size z.natAbs - 1 < size (rnNat p z.natAbs) := lt_size.2 h2
    omega

theorem Q_rn_ge {p : Nat} (hp : 1 ≤ p) (z : Int) : Q p z ≤ Q p (rnInt p z) := by
  unfold Q
  exact Nat.pow_le_pow_right (by decide) (by have := size_rn_ge hp z; omega)

theorem Q_isFloatN (p : Nat) (hp : 1 ≤ p) (z : Int) : IsFloatN p (Q p z) := isFloatN_two_pow p _ hp

/-- a value just below a power of two `2^j` (`j > p`), within a quarter of the quantum above it, rounds up to
    `2^j`: the midpoint between `2^j − 2^(j−p)` and `2^j` is a tie that goes to the even neighbour `2^j`. -/
theorem rnNat_tie_up {p j n : Nat} (hp : 1 ≤ p) (hj : p < j) (hlo : 2 ^ j ≤ n + 2 ^ (j - p - 1)) (hhi : n ≤ 2 ^ j) :
    rnNat p n = 2 ^ j := by
  rcases Nat.lt_or_ge n (2 ^ j) with hlt | hge
  · -- quantum of the binade below 2^j
    have hg : 2 ^ (j - p) = 2 * 2 ^ (j - p - 1) := by
      have : j - p = (j - p - 1) + 1 := by omega
      rw [this, Nat.pow_succ]; simp; ring
    have hjp : 2 ^ j = 2 ^ p * 2 ^ (j - p) := by rw [← Nat.pow_add]; congr 1; omega
    have hp2 : 2 ^ p = 2 * 2 ^ (p - 1) := two_pow_pred hp
    have hpos := Nat.two_pow_pos (j - p - 1)
    have hppos := Nat.two_pow_pos (p - 1)
    have hsmall : 2 ^ (j - p - 1) ≤ 2 ^ (j - 1) := Nat.pow_le_pow_right (by decide) (by omega)
    have hj1 : 2 ^ j = 2 * 2 ^ (j - 1) := two_pow_pred (by omega)
    have hsz : size n = j := by
      apply size_eq_of_bounds _ hlt (by omega)
      omega
    rw [rnNat_eq, hsz]
    -- n = (2^p − 1)·g + r with 2r ≥ g
    have hq : n / 2 ^ (j - p) = 2 ^ p - 1 := by
      apply Nat.div_eq_of_lt_le
      · have : (2 ^ p - 1) * 2 ^ (j - p) = 2 ^ p * 2 ^ (j - p) - 2 ^ (j - p) := by
          rw [Nat.sub_mul]; simp
        omega
      · have : (2 ^ p - 1 + 1) * 2 ^ (j - p) = 2 ^ p * 2 ^ (j - p) := by
          have : 2 ^ p - 1 + 1 = 2 ^ p := by omega
          rw [this]
        omega
    have hdm := Nat.div_add_mod n (2 ^ (j - p))
    rw [hq] at hdm
    have hmul : 2 ^ (j - p) * (2 ^ p - 1) = 2 ^ p * 2 ^ (j - p) - 2 ^ (j - p) := by
      rw [Nat.mul_comm, Nat.sub_mul]; simp
    have hr : 2 ^ (j - p) ≤ 2 * (n % 2 ^ (j - p)) := by omega
    have hodd : (2 ^ p - 1) % 2 = 1 := by omega
    have hres : rneDiv n (2 ^ (j - p)) = 2 ^ p := by
      unfold rneDiv
      simp only [hq]
      have c1 : ¬ 2 * (n % 2 ^ (j - p)) < 2 ^ (j - p) := by omega
      simp only [c1, if_false]
      by_cases c2 : 2 * (n % 2 ^ (j - p)) > 2 ^ (j - p)
      · simp only [c2, if_true]; omega
      · simp only [c2, if_false]
        have : ¬ (2 ^ p - 1) % 2 = 0 := by omega
        simp only [this, if_false]; omega
    rw [hres, ← hjp]
  · have : n = 2 ^ j := Nat.le_antisymm hhi hge
    rw [this]; exact rnNat_exact hp (isFloatN_two_pow p j hp)

/-- a small addend (at most a quarter of the quantum of `u`) cannot move `u` into a lower binade. -/
theorem size_rn_add_ge {p : Nat} (hp : 1 ≤ p) {u t : Int} (hu : IsFloat p u) (ht : 4 * t.natAbs ≤ Q p u) :
    size u.natAbs ≤ size (rnInt p (u + t)).natAbs := by
  -- non-negative u first
  have key : ∀ u t : Int, IsFloat p u → 0 ≤ u → 4 * t.natAbs ≤ Q p u → size u.natAbs ≤ size (rnInt p (u + t)).natAbs := by
    intro u t hu hu0 ht
    by_cases hz : u.natAbs = 0
    · rw [hz]; simp [size_zero]
    rcases Nat.lt_or_ge p (size u.natAbs) with hbig | hsmall
    · -- genuine quantum g = 2^(k−p) ≥ 2
      have hlow := two_pow_size_le hz
      have hk1 : 2 ^ (size u.natAbs - 1) = 2 ^ (p - 1) * 2 ^ (size u.natAbs - p) := by
        rw [← Nat.pow_add]; congr 1; omega
      have hfl : IsFloat p ((2 ^ (size u.natAbs - 1) : Nat) : Int) := by
        rw [isFloat_natCast]; exact isFloatN_two_pow p _ hp
      unfold Q at ht
      suffices h : ((2 ^ (size u.natAbs - 1) : Nat) : Int) ≤ rnInt p (u + t) by
        have : size u.natAbs - 1 < size (rnInt p (u + t)).natAbs := lt_size.2 (by omega)
        omega
      rcases Int.lt_or_le t 0 with htn | htp
      · -- t < 0
        have hdu : ((2 ^ (size u.natAbs - p) : Nat) : Int) ∣ u := isFloat_quantum_dvd hp hu
        have hdl : ((2 ^ (size u.natAbs - p) : Nat) : Int) ∣ ((2 ^ (size u.natAbs - 1) : Nat) : Int) := by
          rw [hk1]; push_cast; exact Int.dvd_mul_left _ _
        have hgpos : (0 : Int) < ((2 ^ (size u.natAbs - p) : Nat) : Int) := by
          have := Nat.two_pow_pos (size u.natAbs - p); omega
        rcases Int.lt_or_le ((2 ^ (size u.natAbs - 1) : Nat) : Int) u with hgt | hle
        · have := int_mult_gap hgpos hdu hdl hgt
          exact rnInt_ge_of_ge hp hfl (by omega)
        · -- u = 2^(k−1): the tie case
          have hue : u = ((2 ^ (size u.natAbs - 1) : Nat) : Int) := by omega
          have hnn : 0 ≤ u + t := by
            have := Nat.two_pow_pos (size u.natAbs - p)
            have h2 : 2 ^ (size u.natAbs - p) ≤ 2 ^ (size u.natAbs - 1) := Nat.pow_le_pow_right (by decide) (by omega)
            omega
          rw [rnInt_of_nonneg hnn]
          have hq4 : 2 ^ (size u.natAbs - p) = 2 * 2 ^ (size u.natAbs - p - 1) := two_pow_pred (by omega)
          have heq : rnNat p (u + t).natAbs = 2 ^ (size u.natAbs - 1) := by
            rcases Nat.lt_or_ge (size u.natAbs) (p + 2) with hk | hk
            · -- quantum 2: 4|t| ≤ 2 forces t = 0
              have hk' : size u.natAbs - p = 1 := by omega
              rw [hk'] at ht
              have : t = 0 := by omega
              subst this
              have : (u + 0).natAbs = 2 ^ (size u.natAbs - 1) := by omega
              rw [this]; exact rnNat_exact hp (isFloatN_two_pow p _ hp)
            · apply rnNat_tie_up hp (j := size u.natAbs - 1) (by omega)
              · have e : size u.natAbs - 1 - p - 1 = size u.natAbs - p - 2 := by omega
                have hq8 : 2 ^ (size u.natAbs - p - 1) = 2 * 2 ^ (size u.natAbs - p - 2) := by
                  have h8 := two_pow_pred (k := size u.natAbs - p - 1) (by omega)
                  have e8 : size u.natAbs - p - 1 - 1 = size u.natAbs - p - 2 := by omega
                  rw [e8] at h8; exact h8
                rw [e]; omega
              · omega
          rw [heq]
      · exact rnInt_ge_of_ge hp hfl (by omega)
    · -- u below 2^p: Q = 1, so t = 0
      have hq : Q p u = 1 := by unfold Q; have : size u.natAbs - p = 0 := by omega
                                rw [this]; rfl
      rw [hq] at ht
      have : t = 0 := by omega
      subst this
      rw [Int.add_zero, rnInt_exact hp hu]
  rcases Int.lt_or_le u 0 with hn | hn
  · have := key (-u) (-t) (isFloat_neg hu) (by omega) (by rw [Q_neg]; simpa using ht)
    have e : -u + -t = -(u + t) := by ring
    rw [e, rnInt_neg] at this
    simpa using this
  · exact key u t hu hn ht

theorem Q_rn_add_ge {p : Nat} (hp : 1 ≤ p) {u t : Int} (hu : IsFloat p u) (ht : 4 * t.natAbs ≤ Q p u) :
    Q p u ≤ Q p (rnInt p (u + t)) := by
  unfold Q
  exact Nat.pow_le_pow_right (by decide) (by have := size_rn_add_ge hp hu ht; omega)

/-- **the three_sum tail**: for floats `h`, `l`, `t`, with `u = RN(h+l)`, `v = h+l−u`, `x' = RN(t+u)`, `w = t+u−x'`,
    `y' = RN(v+w)` (the first two outputs of `three_sum(h, l, t)`): if the first addition is exact or `t` is at most a
    quarter of the quantum of `u`, then `|y'| ≤ ulp(x')`. -/
theorem three_sum_weak {p : Nat} (hp : 1 ≤ p) {h l t : Int} (ht : IsFloat p t)
    (hc : h + l - rnInt p (h + l) = 0 ∨ 4 * t.natAbs ≤ Q p (rnInt p (h + l))) :
    (rnInt p ((h + l - rnInt p (h + l)) + (t + rnInt p (h + l) - rnInt p (t + rnInt p (h + l))))).natAbs
      ≤ Q p (rnInt p (t + rnInt p (h + l))) := by
  have hu := rnInt_isFloat p (h + l)
  have hw := sum_error_isFloat hp ht hu
  have hwb := rn_err_le_Q p (t + rnInt p (h + l))
  have hQx := Q_rn_ge hp (t + rnInt p (h + l))
  rcases hc with hv0 | htq
  · rw [hv0, Int.zero_add, rnInt_exact hp hw]
    have := Q_pos p (rnInt p (t + rnInt p (h + l)))
    omega
  · have hvb := rn_err_le_Q p (h + l)
    have hQu := Q_rn_ge hp (h + l)
    have hnd := Q_rn_add_ge hp hu htq
    have e : rnInt p (h + l) + t = t + rnInt p (h + l) := by ring
    rw [e] at hnd
    apply rnInt_natAbs_le hp (Q_isFloatN p hp _)
    omega

end UVerif.F64

namespace UVerif.F64

theorem Q_eq_one {p : Nat} {z : Int} (h : size z.natAbs ≤ p) : Q p z = 1 := by
  unfold Q; have : size z.natAbs - p = 0 := by omega
  rw [this]; rfl

theorem Q_dvd {p : Nat} {z : Int} (hp : 1 ≤ p) (h : IsFloat p z) : ((Q p z : Nat) : Int) ∣ z := isFloat_quantum_dvd hp h

/-- `|z| < 2^p · Q(z)`. -/
theorem lt_P_mul_Q (p : Nat) (z : Int) : z.natAbs < 2 ^ p * Q p z := by
  unfold Q
  rw [← Nat.pow_add]
  exact Nat.lt_of_lt_of_le (lt_two_pow_size _) (Nat.pow_le_pow_right (by decide) (by omega))

/-- `2^p · Q(z) ≤ 2|z|` once `z` has more than `p` bits … and in general `Q(z) = 1` otherwise. -/
theorem P_mul_Q_le {p : Nat} {z : Int} (h : p ≤ size z.natAbs) (h0 : z ≠ 0) : 2 ^ p * Q p z ≤ 2 * z.natAbs := by
  unfold Q
  rw [← Nat.pow_add]
  have e : p + (size z.natAbs - p) = size z.natAbs := by omega
  rw [e]
  have hz : z.natAbs ≠ 0 := by omega
  have := two_pow_size_le hz
  have h2 := two_pow_pred (k := size z.natAbs) (by
    rcases Nat.eq_zero_or_pos (size z.natAbs) with h | h
    · have := lt_two_pow_size z.natAbs; rw [h] at this; simp at this; omega
    · exact h)
  omega

/-- relative form of the half-ulp bound: `2^p · 2|e| ≤ 2|x|` whenever `2|e| ≤ Q(x)` (with `e = 0` below `2^p`). -/
theorem rel_of_half_Q {p : Nat} (hp : 1 ≤ p) {x : Int} {e : Nat} (h : 2 * e ≤ Q p x) : 2 ^ p * e ≤ x.natAbs := by
  rcases Nat.lt_or_ge p (size x.natAbs) with hb | hs
  · have hx0 : x ≠ 0 := by
      intro h0; subst h0; simp [size_zero] at hb
    have := P_mul_Q_le (p := p) (z := x) (by omega) hx0
    have h3 : 2 ^ p * (2 * e) ≤ 2 ^ p * Q p x := Nat.mul_le_mul_left _ h
    have h4 : 2 ^ p * (2 * e) = 2 * (2 ^ p * e) := by ring
    omega
  · rw [Q_eq_one hs] at h
    have : e = 0 := by omega
    subst this; simp

/-- relative rounding error: `2^p · |z − RN z| ≤ |z|`. -/
theorem rn_rel_err {p : Nat} (hp : 1 ≤ p) (z : Int) : 2 ^ p * (z - rnInt p z).natAbs ≤ z.natAbs :=
  rel_of_half_Q hp (rn_err_le_Q p z)

/-- an inexact float sum is at least half the larger operand. -/
theorem two_rn_ge_of_inexact {p : Nat} (hp : 1 ≤ p) {A B : Int} (hA : IsFloat p A) (hB : IsFloat p B)
    (hAB : B.natAbs ≤ A.natAbs) (hne : A + B - rnInt p (A + B) ≠ 0) : A.natAbs ≤ 2 * (rnInt p (A + B)).natAbs := by
  have key : ∀ A B : Int, IsFloat p A → IsFloat p B → B.natAbs ≤ A.natAbs → 0 ≤ A →
      A + B - rnInt p (A + B) ≠ 0 → A.natAbs ≤ 2 * (rnInt p (A + B)).natAbs := by
    intro A B hA hB hAB hA0 hne
    rcases Int.lt_or_le B 0 with hBn | hBp
    · rcases Int.lt_or_le (2 * -B) A with hfar | hnear
      · have h1 := half_le_rnInt hp hA hA0 (show A ≤ 2 * (A + B) by omega)
        have h2 : 0 ≤ rnInt p (A + B) := rnInt_nonneg (by omega)
        omega
      · exfalso
        have hst := sterbenz hp hA (isFloat_neg hB) (by omega) (by omega) hnear
        have e : A - -B = A + B := by ring
        rw [e] at hst
        apply hne
        rw [rnInt_exact hp hst]; ring
    · have h1 := rnInt_ge_of_ge hp hA (show A ≤ A + B by omega)
      omega
  rcases Int.lt_or_le A 0 with hn | hn
  · have := key (-A) (-B) (isFloat_neg hA) (isFloat_neg hB) (by omega) (by omega) (by
      have e : -A + -B = -(A + B) := by ring
      rw [e, rnInt_neg]; intro h; apply hne; omega)
    have e : -A + -B = -(A + B) := by ring
    rw [e, rnInt_neg] at this
    simpa using this
  · exact key A B hA hB hAB hn hne

end UVerif.F64

namespace UVerif.F64

theorem natAbs_le_of_eq_add {x y z : Int} (h : x = y + z) : x.natAbs ≤ y.natAbs + z.natAbs := by omega
theorem natAbs_le_of_eq_sub {x y z : Int} (h : x = y - z) : x.natAbs ≤ y.natAbs + z.natAbs := by omega
theorem natAbs_le_of_eq_add_sub {x y z w : Int} (h : x = y + z - w) : x.natAbs ≤ y.natAbs + z.natAbs + w.natAbs := by omega

/-- the arithmetic core of regime A: first-order quantities are `O(S/P)`, second-order ones `O(S/P²)`. -/
theorem regimeA_arith (P S Aa Bb xa xb X T2 T1 S2 AB Y T1p Z E T L V SL U W TU Xp : Nat) (hP : 64 ≤ P)
    (hA : Aa ≤ 2 * S) (hB : Bb ≤ 2 * S) (fa : P * xa ≤ Aa) (fb : P * xb ≤ Bb)
    (ft2 : P * T2 ≤ X) (fs2 : P * S2 ≤ AB) (ft1p : P * T1p ≤ Y) (fe : P * E ≤ Z) (fv : P * V ≤ SL)
    (c1 : X ≤ xa + xb) (c2 : T1 ≤ X + T2) (c3 : AB ≤ S + S2) (c4 : Y ≤ S2 + T1) (c5 : L ≤ Y + T1p)
    (c6 : Z ≤ T1p + T2) (c7 : T ≤ Z + E) (c8 : SL ≤ S + L) (c9 : S ≤ U + V + L)
    (fw : P * W ≤ TU) (c10 : TU ≤ T + U) (c11 : U ≤ Xp + W + T) :
    4 * (P * T) ≤ U ∧ 6 * (P * (P * E)) ≤ Xp := by
  have m1 : P * X ≤ P * xa + P * xb := by rw [← Nat.mul_add]; exact Nat.mul_le_mul_left _ c1
  have m2 : P * T1 ≤ P * X + P * T2 := by rw [← Nat.mul_add]; exact Nat.mul_le_mul_left _ c2
  have m3 : P * Y ≤ P * S2 + P * T1 := by rw [← Nat.mul_add]; exact Nat.mul_le_mul_left _ c4
  have m4 : P * Z ≤ P * T1p + P * T2 := by rw [← Nat.mul_add]; exact Nat.mul_le_mul_left _ c6
  have m5 : P * T ≤ P * Z + P * E := by rw [← Nat.mul_add]; exact Nat.mul_le_mul_left _ c7
  have k1 := Nat.mul_le_mul_right X hP
  have k2 := Nat.mul_le_mul_right T2 hP
  have k3 := Nat.mul_le_mul_right S2 hP
  have k5 := Nat.mul_le_mul_right Y hP
  have k6 := Nat.mul_le_mul_right T1p hP
  have k7 := Nat.mul_le_mul_right Z hP
  have k9 := Nat.mul_le_mul_right V hP
  have m6 : P * (P * E) ≤ P * Z := Nat.mul_le_mul_left _ fe
  have k10 := Nat.mul_le_mul_right W hP
  have k11 := Nat.mul_le_mul_right T hP
  have h1 : 4 * (P * T) ≤ U := by omega
  exact ⟨h1, by omega⟩

/-- **dd `+=`, regime A** (the head sum `A + B` is inexact, so there is no cancellation): the third input `t` of the
    closing three_sum is at most a quarter of the quantum of `u = RN(s1 + lo)`.  `p ≥ 6`. -/
theorem add_tail_regimeA {p : Nat} (hp6 : 6 ≤ p) {A a B b s1 s2 t1 t2 lo t1' t u : Int}
    (hA : IsFloat p A) (hB : IsFloat p B)
    (na : 2 * a.natAbs ≤ Q p A) (nb : 2 * b.natAbs ≤ Q p B)
    (hs1 : s1 = rnInt p (A + B)) (hs2 : s2 = A + B - s1)
    (ht1 : t1 = rnInt p (a + b)) (ht2 : t2 = a + b - t1)
    (hlo : lo = rnInt p (s2 + t1)) (ht1' : t1' = s2 + t1 - lo)
    (ht : t = rnInt p (t1' + t2)) (hu : u = rnInt p (s1 + lo)) {x : Int} (hx : x = rnInt p (t + u))
    (hne : s2 ≠ 0) :
    4 * t.natAbs ≤ Q p u ∧ 6 * (2 ^ p * (2 ^ p * (t1' + t2 - t).natAbs)) ≤ x.natAbs := by
  have hp : 1 ≤ p := by omega
  have c1 : (a + b).natAbs ≤ a.natAbs + b.natAbs := Int.natAbs_add_le a b
  have c2 : t1.natAbs ≤ (a + b).natAbs + t2.natAbs := natAbs_le_of_eq_sub (by rw [ht2]; ring)
  have c3 : (A + B).natAbs ≤ s1.natAbs + s2.natAbs := natAbs_le_of_eq_add (by rw [hs2]; ring)
  have c4 : (s2 + t1).natAbs ≤ s2.natAbs + t1.natAbs := Int.natAbs_add_le s2 t1
  have c5 : lo.natAbs ≤ (s2 + t1).natAbs + t1'.natAbs := natAbs_le_of_eq_sub (by rw [ht1']; ring)
  have c6 : (t1' + t2).natAbs ≤ t1'.natAbs + t2.natAbs := Int.natAbs_add_le t1' t2
  have c7 : t.natAbs ≤ (t1' + t2).natAbs + (t1' + t2 - t).natAbs := natAbs_le_of_eq_sub (by ring)
  have c8 : (s1 + lo).natAbs ≤ s1.natAbs + lo.natAbs := Int.natAbs_add_le s1 lo
  have c9 : s1.natAbs ≤ u.natAbs + (s1 + lo - u).natAbs + lo.natAbs := natAbs_le_of_eq_add_sub (by ring)
  have c10 : (t + u).natAbs ≤ t.natAbs + u.natAbs := Int.natAbs_add_le t u
  have c11 : u.natAbs ≤ x.natAbs + (t + u - x).natAbs + t.natAbs := natAbs_le_of_eq_add_sub (by ring)
  obtain ⟨P, hP⟩ : ∃ P, P = 2 ^ p := ⟨_, rfl⟩
  have hP64 : 64 ≤ P := by
    rw [hP]; have : 2 ^ 6 ≤ 2 ^ p := Nat.pow_le_pow_right (by decide) hp6
    simpa using this
  have hAB : A.natAbs ≤ 2 * s1.natAbs ∧ B.natAbs ≤ 2 * s1.natAbs := by
    rcases Nat.le_total B.natAbs A.natAbs with h | h
    · have := two_rn_ge_of_inexact hp hA hB h (by rw [← hs1, ← hs2]; exact hne)
      rw [← hs1] at this; omega
    · have := two_rn_ge_of_inexact hp hB hA h (by rw [Int.add_comm B A, ← hs1, ← hs2]; exact hne)
      rw [Int.add_comm B A, ← hs1] at this; omega
  have fa := rel_of_half_Q hp na
  have fb := rel_of_half_Q hp nb
  have ft2 := rn_rel_err hp (a + b)
  have fs2 := rn_rel_err hp (A + B)
  have ft1p := rn_rel_err hp (s2 + t1)
  have fe := rn_rel_err hp (t1' + t2)
  have fv := rn_rel_err hp (s1 + lo)
  have fw := rn_rel_err hp (t + u)
  rw [← hx] at fw
  rw [← ht1, ← ht2] at ft2
  rw [← hs1, ← hs2] at fs2
  rw [← hlo, ← ht1'] at ft1p
  rw [← ht] at fe
  rw [← hu] at fv
  rw [← hP] at fa fb ft2 fs2 ft1p fe fv fw
  have key := regimeA_arith P s1.natAbs A.natAbs B.natAbs a.natAbs b.natAbs (a + b).natAbs t2.natAbs t1.natAbs s2.natAbs
    (A + B).natAbs (s2 + t1).natAbs t1'.natAbs (t1' + t2).natAbs (t1' + t2 - t).natAbs t.natAbs lo.natAbs
    (s1 + lo - u).natAbs (s1 + lo).natAbs u.natAbs (t + u - x).natAbs (t + u).natAbs x.natAbs
    hP64 hAB.1 hAB.2 fa fb ft2 fs2 ft1p fe fv c1 c2 c3 c4 c5 c6 c7 c8 c9 fw c10 c11
  have hub := lt_P_mul_Q p u
  rw [← hP] at hub
  have : P * (4 * t.natAbs) < P * Q p u := by
    have e : P * (4 * t.natAbs) = 4 * (P * t.natAbs) := by ring
    have := key.1
    omega
  rw [← hP]
  exact ⟨Nat.le_of_lt (Nat.lt_of_mul_lt_mul_left this), key.2⟩

end UVerif.F64

namespace UVerif.F64

theorem natAbs_lt_two_pow_size_rn {p : Nat} (hp : 1 ≤ p) {z : Int} {m : Nat} (h : size (rnInt p z).natAbs ≤ m) :
    z.natAbs < 2 ^ m := by
  have := size_rn_ge hp z
  exact size_le.1 (by omega)

/-- regime B, one orientation (`Q(B) ≤ Q(A)`): with an exact head sum, either the tail sum `t1` sits in a lower
    binade than `u` (then its rounding error is at most a quarter of the quantum of `u`) or `A + B + t1` is exact. -/
theorem add_tail_regimeB_aux {p : Nat} (hp3 : 3 ≤ p) {A a B b t1 t2 u : Int}
    (hA : IsFloat p A) (hB : IsFloat p B) (hQ : Q p B ≤ Q p A)
    (na : 2 * a.natAbs ≤ Q p A) (nb : 2 * b.natAbs ≤ Q p B)
    (ht1 : t1 = rnInt p (a + b)) (ht2 : t2 = a + b - t1) (hu : u = rnInt p (A + B + t1)) :
    A + B + t1 - u = 0 ∨ 4 * t2.natAbs ≤ Q p u := by
  have hp : 1 ≤ p := by omega
  have ht1f : IsFloat p t1 := by rw [ht1]; exact rnInt_isFloat _ _
  have herr : 2 * t2.natAbs ≤ Q p t1 := by
    have h1 := rn_err_le_Q p (a + b)
    have h2 := Q_rn_ge hp (a + b)
    rw [← ht1, ← ht2] at h1; rw [← ht1] at h2; omega
  rcases Nat.lt_or_ge (size t1.natAbs) (size u.natAbs) with hlt | hge
  · -- B1
    right
    rcases Nat.lt_or_ge p (size t1.natAbs) with hb | hs
    · have : 2 * Q p t1 ≤ Q p u := by
        unfold Q
        have e : size u.natAbs - p = (size t1.natAbs - p) + (size u.natAbs - size t1.natAbs) := by omega
        rw [e, Nat.pow_add]
        have : 2 ≤ 2 ^ (size u.natAbs - size t1.natAbs) := by
          have : 2 ^ 1 ≤ 2 ^ (size u.natAbs - size t1.natAbs) := Nat.pow_le_pow_right (by decide) (by omega)
          simpa using this
        calc 2 * 2 ^ (size t1.natAbs - p) = 2 ^ (size t1.natAbs - p) * 2 := by ring
          _ ≤ 2 ^ (size t1.natAbs - p) * 2 ^ (size u.natAbs - size t1.natAbs) := Nat.mul_le_mul_left _ this
      omega
    · rw [Q_eq_one hs] at herr
      have : t2.natAbs = 0 := by omega
      rw [this]; simp
  · -- B2: the sum is exact
    left
    have hzlt : (A + B + t1).natAbs < 2 ^ size t1.natAbs := natAbs_lt_two_pow_size_rn hp (by rw [← hu]; exact hge)
    have hfl : IsFloat p (A + B + t1) := by
      rcases Nat.lt_or_ge p (size t1.natAbs) with hb | hs
      · -- m > p : Q(t1) divides A, B and t1
        have hab : (a + b).natAbs ≤ Q p A := by
          have := Int.natAbs_add_le a b; omega
        have ht1le : t1.natAbs ≤ Q p A := by
          rw [ht1]; exact rnInt_natAbs_le hp (Q_isFloatN p hp A) hab
        have ht10 : t1.natAbs ≠ 0 := by
          intro h0; rw [h0] at hb; simp [size_zero] at hb
        have hlow := two_pow_size_le ht10
        -- m − 1 ≤ eA
        have hmA : size t1.natAbs - 1 ≤ size A.natAbs - p := by
          by_contra hc
          have : 2 ^ (size A.natAbs - p + 1) ≤ 2 ^ (size t1.natAbs - 1) := Nat.pow_le_pow_right (by decide) (by omega)
          have h2 : 2 ^ (size A.natAbs - p + 1) = 2 * 2 ^ (size A.natAbs - p) := by rw [Nat.pow_succ]; ring
          unfold Q at ht1le
          have := Nat.two_pow_pos (size A.natAbs - p)
          omega
        have hdA : ((2 ^ (size t1.natAbs - p) : Nat) : Int) ∣ A :=
          pow_dvd_of_le_int (by omega) (isFloat_quantum_dvd hp hA)
        have hdT : ((2 ^ (size t1.natAbs - p) : Nat) : Int) ∣ t1 := isFloat_quantum_dvd hp ht1f
        have hmB : size t1.natAbs - p ≤ size B.natAbs - p := by
          by_contra hc
          -- then B and t1 are tiny against A and u is far above t1
          have hsA : size A.natAbs = (size A.natAbs - p) + p := by omega
          have hA0 : A.natAbs ≠ 0 := by
            intro h0; rw [h0] at hmA; simp [size_zero] at hmA; omega
          have hAlow := two_pow_size_le hA0
          have hBlt := lt_two_pow_size B.natAbs
          have hBle : 2 ^ size B.natAbs ≤ 2 ^ (size A.natAbs - p) := Nat.pow_le_pow_right (by decide) (by omega)
          unfold Q at ht1le
          -- |z| ≥ |A| − |B| − |t1| ≥ 2^(eA+p−1) − 2·2^eA ≥ 2^(eA+p−2)
          have e1 : 2 ^ (size A.natAbs - 1) = 2 ^ (p - 1) * 2 ^ (size A.natAbs - p) := by
            rw [← Nat.pow_add]; congr 1; omega
          have e2 : 2 ^ (p - 1) = 2 * 2 ^ (p - 2) := by
            have h := two_pow_pred (k := p - 1) (by omega)
            have e : p - 1 - 1 = p - 2 := by omega
            rw [e] at h; exact h
          have e3 : 2 ≤ 2 ^ (p - 2) := by
            have : 2 ^ 1 ≤ 2 ^ (p - 2) := Nat.pow_le_pow_right (by decide) (by omega)
            simpa using this
          have hprod : 2 * 2 ^ (size A.natAbs - p) ≤ 2 ^ (p - 2) * 2 ^ (size A.natAbs - p) := Nat.mul_le_mul_right _ e3
          have hzlow : 2 ^ (p - 2) * 2 ^ (size A.natAbs - p) ≤ (A + B + t1).natAbs := by
            have e4 : 2 ^ (p - 1) * 2 ^ (size A.natAbs - p) = 2 ^ (p - 2) * 2 ^ (size A.natAbs - p) + 2 ^ (p - 2) * 2 ^ (size A.natAbs - p) := by
              rw [e2]; ring
            have : (A + B + t1).natAbs + B.natAbs + t1.natAbs ≥ A.natAbs := by omega
            omega
          rw [← Nat.pow_add] at hzlow
          have hcontra : 2 ^ size t1.natAbs ≤ 2 ^ (p - 2 + (size A.natAbs - p)) := Nat.pow_le_pow_right (by decide) (by omega)
          omega
        have hdB : ((2 ^ (size t1.natAbs - p) : Nat) : Int) ∣ B :=
          pow_dvd_of_le_int hmB (isFloat_quantum_dvd hp hB)
        apply isFloat_of_dvd_of_le (Int.dvd_add (Int.dvd_add hdA hdB) hdT)
        have e : p + (size t1.natAbs - p) = size t1.natAbs := by omega
        rw [e]; omega
      · apply isFloat_of_natAbs_lt
        exact Nat.lt_of_lt_of_le hzlt (Nat.pow_le_pow_right (by decide) hs)
    rw [hu, rnInt_exact hp hfl]; ring

/-- regime B (exact head sum `A + B`), either orientation. -/
theorem add_tail_regimeB {p : Nat} (hp3 : 3 ≤ p) {A a B b t1 t2 u : Int}
    (hA : IsFloat p A) (hB : IsFloat p B)
    (na : 2 * a.natAbs ≤ Q p A) (nb : 2 * b.natAbs ≤ Q p B)
    (ht1 : t1 = rnInt p (a + b)) (ht2 : t2 = a + b - t1) (hu : u = rnInt p (A + B + t1)) :
    A + B + t1 - u = 0 ∨ 4 * t2.natAbs ≤ Q p u := by
  rcases Nat.le_total (Q p B) (Q p A) with h | h
  · exact add_tail_regimeB_aux hp3 hA hB h na nb ht1 ht2 hu
  · have e1 : a + b = b + a := by ring
    have e2 : A + B + t1 = B + A + t1 := by ring
    rw [e1] at ht1 ht2
    rw [e2] at hu ⊢
    exact add_tail_regimeB_aux hp3 hB hA h nb na ht1 ht2 hu

end UVerif.F64

namespace UVerif.F64

/-- the values computed by `dd::operator+=` on integer units (heads `A`, `B`, tails `a`, `b`): `(hi, lo)`. -/
def ddAddInt (p : Nat) (A a B b : Int) : Int × Int :=
  let s1 := rnInt p (A + B)
  let s2 := A + B - s1
  let t1 := rnInt p (a + b)
  let t2 := a + b - t1
  let lo := rnInt p (s2 + t1)
  let t1' := s2 + t1 - lo
  let t := rnInt p (t1' + t2)
  let u := rnInt p (s1 + lo)
  let v := s1 + lo - u
  let x := rnInt p (t + u)
  let w := t + u - x
  (x, rnInt p (v + w))

/-- **weak normalisation of the dd sum** on integer units: for floats `A, a, B, b` with normalised pairs
    (`2|a| ≤ ulp(A)`, `2|b| ≤ ulp(B)`) and `p ≥ 6`, the result `(hi, lo)` of `dd::operator+=` satisfies `|lo| ≤ ulp(hi)`.
    No magnitude hypothesis (cancellation of the heads, subnormal values included). -/
theorem ddAddInt_weak {p : Nat} (hp6 : 6 ≤ p) {A a B b : Int}
    (hA : IsFloat p A) (ha : IsFloat p a) (hB : IsFloat p B) (hb : IsFloat p b)
    (na : 2 * a.natAbs ≤ Q p A) (nb : 2 * b.natAbs ≤ Q p B) :
    (ddAddInt p A a B b).2.natAbs ≤ Q p (ddAddInt p A a B b).1 := by
  have hp : 1 ≤ p := by omega
  unfold ddAddInt
  simp only
  have htf : IsFloat p (rnInt p (A + B - rnInt p (A + B) + rnInt p (a + b) - rnInt p (A + B - rnInt p (A + B) + rnInt p (a + b))
      + (a + b - rnInt p (a + b)))) := rnInt_isFloat _ _
  apply three_sum_weak hp htf
  by_cases hs2 : A + B - rnInt p (A + B) = 0
  · -- regime B
    have hsf : IsFloat p (A + B) := by
      have : A + B = rnInt p (A + B) := by omega
      rw [this]; exact rnInt_isFloat _ _
    have ht2f : IsFloat p (a + b - rnInt p (a + b)) := sum_error_isFloat hp ha hb
    have ht1f : IsFloat p (rnInt p (a + b)) := rnInt_isFloat _ _
    rw [hs2]
    simp only [Int.zero_add]
    rw [rnInt_exact hp ht1f]
    have e0 : rnInt p (a + b) - rnInt p (a + b) + (a + b - rnInt p (a + b)) = a + b - rnInt p (a + b) := by ring
    rw [e0, rnInt_exact hp ht2f]
    have hsx : rnInt p (A + B) = A + B := rnInt_exact hp hsf
    rw [hsx]
    exact add_tail_regimeB (by omega) hA hB na nb rfl rfl rfl
  · right
    exact (add_tail_regimeA hp6 hA hB na nb rfl rfl rfl rfl rfl rfl rfl rfl rfl hs2).1

end UVerif.F64

namespace UVerif.F64

/-- TwoSum contract with values and magnitude bounds in one statement. -/
theorem twoSum_full (f : Fmt) (ok : f.Ok) {a b : F} (ha : a.Rep f) (hb : b.Rep f) (hg : a.mag + b.mag ≤ maxMag f) :
    (twoSum f a b).1.Rep f ∧ (twoSum f a b).2.Rep f ∧
    (twoSum f a b).1.toInt = rnInt f.p (a.toInt + b.toInt) ∧
    (twoSum f a b).2.toInt = a.toInt + b.toInt - rnInt f.p (a.toInt + b.toInt) ∧
    (twoSum f a b).2.mag ≤ a.mag ∧ (twoSum f a b).2.mag ≤ b.mag ∧
    (twoSum f a b).1.mag ≤ a.mag + b.mag + (twoSum f a b).2.mag := by
  obtain ⟨h1, h2, h3, h4⟩ := twoSum_spec f ok ha hb hg
  obtain ⟨h5, h6, h7⟩ := twoSum_residual_le f ok ha hb hg
  exact ⟨h1, h2, h4, by omega, h5, h6, h7⟩

theorem DD_add_eq (f : Fmt) (a b : DD.DD) :
    DD.add f a b =
      (if (twoSum f a.hi b.hi).1.isFinite then
        (⟨(threeSum f (twoSum f a.hi b.hi).1
              (twoSum f (twoSum f a.hi b.hi).2 (twoSum f a.lo b.lo).1).1
              (add f (twoSum f (twoSum f a.hi b.hi).2 (twoSum f a.lo b.lo).1).2 (twoSum f a.lo b.lo).2)).1,
          (threeSum f (twoSum f a.hi b.hi).1
              (twoSum f (twoSum f a.hi b.hi).2 (twoSum f a.lo b.lo).1).1
              (add f (twoSum f (twoSum f a.hi b.hi).2 (twoSum f a.lo b.lo).1).2 (twoSum f a.lo b.lo).2)).2.1⟩ : DD.DD)
      else ⟨(twoSum f a.hi b.hi).1, pzero⟩) := by
  unfold DD.add
  rfl

/-- the model's `dd::operator+=` computes `ddAddInt` (values in integer units), when nothing overflows:
    guard `16·(|a.hi| + |a.lo| + |b.hi| + |b.lo|) ≤ maxMag`. -/
theorem DD_add_val (f : Fmt) (ok : f.Ok) {a b : DD.DD}
    (hah : a.hi.Rep f) (hal : a.lo.Rep f) (hbh : b.hi.Rep f) (hbl : b.lo.Rep f)
    (hg : 16 * (a.hi.mag + a.lo.mag + b.hi.mag + b.lo.mag) ≤ maxMag f) :
    (DD.add f a b).hi.Rep f ∧ (DD.add f a b).lo.Rep f ∧
    (DD.add f a b).hi.toInt = (ddAddInt f.p a.hi.toInt a.lo.toInt b.hi.toInt b.lo.toInt).1 ∧
    (DD.add f a b).lo.toInt = (ddAddInt f.p a.hi.toInt a.lo.toInt b.hi.toInt b.lo.toInt).2 := by
  have hp : 1 ≤ f.p := by have := ok.hp2; omega
  -- (s1, s2)
  obtain ⟨s1r, s2r, s1v, s2v, s2m1, s2m2, s1m⟩ := twoSum_full f ok hah hbh (by omega)
  -- (t1, t2)
  obtain ⟨t1r, t2r, t1v, t2v, t2m1, t2m2, t1m⟩ := twoSum_full f ok hal hbl (by omega)
  -- (lo, t1')
  obtain ⟨lor, t1pr, lov, t1pv, t1pm1, t1pm2, lom⟩ := twoSum_full f ok s2r t1r (by omega)
  -- t = t1' + t2
  have htb : ((twoSum f (twoSum f a.hi b.hi).2 (twoSum f a.lo b.lo).1).2.toInt + (twoSum f a.lo b.lo).2.toInt).natAbs ≤ maxMag f := by
    have h1 := F.mag_eq_natAbs (twoSum f (twoSum f a.hi b.hi).2 (twoSum f a.lo b.lo).1).2
    have h2 := F.mag_eq_natAbs (twoSum f a.lo b.lo).2
    have := Int.natAbs_add_le (twoSum f (twoSum f a.hi b.hi).2 (twoSum f a.lo b.lo).1).2.toInt (twoSum f a.lo b.lo).2.toInt
    omega
  obtain ⟨tr, tv⟩ := add_spec f hp ok.hpt t1pr.1 t2r.1 htb
  have htm : (add f (twoSum f (twoSum f a.hi b.hi).2 (twoSum f a.lo b.lo).1).2 (twoSum f a.lo b.lo).2).mag
      ≤ 2 * ((twoSum f (twoSum f a.hi b.hi).2 (twoSum f a.lo b.lo).1).2.mag + (twoSum f a.lo b.lo).2.mag) := by
    rw [F.mag_eq_natAbs, tv]
    have h0 := rnInt_nearest (z := (twoSum f (twoSum f a.hi b.hi).2 (twoSum f a.lo b.lo).1).2.toInt + (twoSum f a.lo b.lo).2.toInt)
      hp (isFloat_zero f.p)
    have h1 := F.mag_eq_natAbs (twoSum f (twoSum f a.hi b.hi).2 (twoSum f a.lo b.lo).1).2
    have h2 := F.mag_eq_natAbs (twoSum f a.lo b.lo).2
    have := Int.natAbs_add_le (twoSum f (twoSum f a.hi b.hi).2 (twoSum f a.lo b.lo).1).2.toInt (twoSum f a.lo b.lo).2.toInt
    omega
  -- three_sum(s1, lo, t)
  obtain ⟨ur, vr, uv, vv, vm1, vm2, um⟩ := twoSum_full f ok s1r lor (by omega)
  obtain ⟨xr, wr, xv, wv, wm1, wm2, _⟩ := twoSum_full f ok tr ur (by omega)
  obtain ⟨yr, _, yv, _, _, _, _⟩ := twoSum_full f ok vr wr (by omega)
  rw [DD_add_eq]
  simp only [s1r.1, if_true]
  have e1 : ∀ X Y Z : F, (threeSum f X Y Z).1 = (twoSum f Z (twoSum f X Y).1).1 := fun _ _ _ => rfl
  have e2 : ∀ X Y Z : F, (threeSum f X Y Z).2.1 = (twoSum f (twoSum f X Y).2 (twoSum f Z (twoSum f X Y).1).2).1 := fun _ _ _ => rfl
  rw [e1, e2]
  refine ⟨xr, yr, ?_, ?_⟩
  · rw [xv, tv, uv, t1pv, t2v, lov, s1v, s2v, t1v]
    rfl
  · rw [yv, vv, wv, tv, uv, t1pv, t2v, lov, s1v, s2v, t1v]
    rfl

end UVerif.F64

namespace UVerif.F64

theorem ulpNat_eq_Q (p : Nat) (x : F) : ulpNat p x.mag = Q p x.toInt := by
  unfold ulpNat Q; rw [F.mag_eq_natAbs]

/-- **weak normalisation of `dd::operator+=`** (model level): normalised operands, no overflow
    (`16·Σ|limbs| ≤ maxMag`), `p ≥ 6`:  `|lo| ≤ ulp(hi)`. -/
theorem DD_add_weak (f : Fmt) (ok : f.Ok) (h6 : 6 ≤ f.p) {a b : DD.DD}
    (hah : a.hi.Rep f) (hal : a.lo.Rep f) (hbh : b.hi.Rep f) (hbl : b.lo.Rep f)
    (na : 2 * a.lo.mag ≤ ulpNat f.p a.hi.mag) (nb : 2 * b.lo.mag ≤ ulpNat f.p b.hi.mag)
    (hg : 16 * (a.hi.mag + a.lo.mag + b.hi.mag + b.lo.mag) ≤ maxMag f) :
    (DD.add f a b).lo.mag ≤ ulpNat f.p (DD.add f a b).hi.mag := by
  obtain ⟨_, _, hv, lv⟩ := DD_add_val f ok hah hal hbh hbl hg
  rw [ulpNat_eq_Q] at na nb ⊢
  rw [F.mag_eq_natAbs] at na nb ⊢
  rw [hv, lv]
  exact ddAddInt_weak h6 hah.2 hal.2 hbh.2 hbl.2 na nb

theorem DD_sub_weak (f : Fmt) (ok : f.Ok) (h6 : 6 ≤ f.p) {a b : DD.DD}
    (hah : a.hi.Rep f) (hal : a.lo.Rep f) (hbh : b.hi.Rep f) (hbl : b.lo.Rep f)
    (na : 2 * a.lo.mag ≤ ulpNat f.p a.hi.mag) (nb : 2 * b.lo.mag ≤ ulpNat f.p b.hi.mag)
    (hg : 16 * (a.hi.mag + a.lo.mag + b.hi.mag + b.lo.mag) ≤ maxMag f) :
    (DD.sub f a b).lo.mag ≤ ulpNat f.p (DD.sub f a b).hi.mag := by
  have hm : ∀ x : F, x.neg.mag = x.mag := by intro x; cases x <;> rfl
  unfold DD.sub
  apply DD_add_weak f ok h6 hah hal (F.neg_rep hbh) (F.neg_rep hbl) na
  · simp only [DD.DD.neg, hm]; exact nb
  · simp only [DD.DD.neg, hm]; exact hg

end UVerif.F64

namespace UVerif.F64

/-- the discarded third output of the closing three_sum: with `x' = RN(t+u)`, `y' = RN(v+w)`, `z' = v+w−y'`:
    `2^p · 2^p · |z'| ≤ 2·|x'|` (under the same condition as `three_sum_weak`). -/
theorem three_sum_err {p : Nat} (hp : 1 ≤ p) {h l t : Int} (ht : IsFloat p t)
    (hc : h + l - rnInt p (h + l) = 0 ∨ 4 * t.natAbs ≤ Q p (rnInt p (h + l))) :
    2 ^ p * (2 ^ p * ((h + l - rnInt p (h + l)) + (t + rnInt p (h + l) - rnInt p (t + rnInt p (h + l)))
      - rnInt p ((h + l - rnInt p (h + l)) + (t + rnInt p (h + l) - rnInt p (t + rnInt p (h + l))))).natAbs)
      ≤ 2 * (rnInt p (t + rnInt p (h + l))).natAbs := by
  have hu := rnInt_isFloat p (h + l)
  have hw := sum_error_isFloat hp ht hu
  rcases hc with hv0 | htq
  · rw [hv0, Int.zero_add, rnInt_exact hp hw]
    simp
  · have hwb := rn_err_le_Q p (t + rnInt p (h + l))
    have hQx := Q_rn_ge hp (t + rnInt p (h + l))
    have hvb := rn_err_le_Q p (h + l)
    have hQu := Q_rn_ge hp (h + l)
    have hnd := Q_rn_add_ge hp hu htq
    have e : rnInt p (h + l) + t = t + rnInt p (h + l) := by ring
    rw [e] at hnd
    have hrel := rn_rel_err hp ((h + l - rnInt p (h + l)) + (t + rnInt p (h + l) - rnInt p (t + rnInt p (h + l))))
    have hvw : ((h + l - rnInt p (h + l)) + (t + rnInt p (h + l) - rnInt p (t + rnInt p (h + l)))).natAbs
        ≤ Q p (rnInt p (t + rnInt p (h + l))) := by omega
    rcases Nat.lt_or_ge (size (rnInt p (t + rnInt p (h + l))).natAbs) p with hs | hb
    · -- x' below 2^p: every quantum is 1, both errors vanish
      have q1 : Q p (rnInt p (t + rnInt p (h + l))) = 1 := Q_eq_one (by omega)
      rw [q1] at hvw hnd hQx
      have hv0 : h + l - rnInt p (h + l) = 0 := by
        have := Q_pos p (rnInt p (h + l)); omega
      have hw0 : t + rnInt p (h + l) - rnInt p (t + rnInt p (h + l)) = 0 := by
        have := Q_pos p (t + rnInt p (h + l)); omega
      rw [hv0, hw0]; simp [rnInt_zero]
    · have hx0 : rnInt p (t + rnInt p (h + l)) ≠ 0 := by
        intro h0; rw [h0] at hb; simp [size_zero] at hb; omega
      have hPQ := P_mul_Q_le hb hx0
      have h1 := Nat.mul_le_mul_left (2 ^ p) hrel
      have h2 := Nat.mul_le_mul_left (2 ^ p) hvw
      omega

/-- **relative error of the dd sum** on integer units: for normalised float pairs and `p ≥ 6`, the result
    `(hi, lo)` of `dd::operator+=` satisfies  `|(A+a+B+b) − (hi+lo)| ≤ 3·2^(−2p)·|A+a+B+b|`
    (3·2^-106 for binary64), whatever the cancellation. -/
theorem ddAddInt_err {p : Nat} (hp6 : 6 ≤ p) {A a B b : Int}
    (hA : IsFloat p A) (ha : IsFloat p a) (hB : IsFloat p B) (hb : IsFloat p b)
    (na : 2 * a.natAbs ≤ Q p A) (nb : 2 * b.natAbs ≤ Q p B) :
    2 ^ p * (2 ^ p * (A + a + B + b - ((ddAddInt p A a B b).1 + (ddAddInt p A a B b).2)).natAbs)
      ≤ 3 * (A + a + B + b).natAbs := by
  have hp : 1 ≤ p := by omega
  have hweak := ddAddInt_weak hp6 hA ha hB hb na nb
  obtain ⟨P, hP⟩ : ∃ P, P = 2 ^ p := ⟨_, rfl⟩
  have hP64 : 64 ≤ P := by
    rw [hP]; have : 2 ^ 6 ≤ 2 ^ p := Nat.pow_le_pow_right (by decide) hp6
    simpa using this
  -- name the intermediate values
  obtain ⟨s1, hs1⟩ : ∃ s1, s1 = rnInt p (A + B) := ⟨_, rfl⟩
  obtain ⟨s2, hs2⟩ : ∃ s2, s2 = A + B - s1 := ⟨_, rfl⟩
  obtain ⟨t1, ht1⟩ : ∃ t1, t1 = rnInt p (a + b) := ⟨_, rfl⟩
  obtain ⟨t2, ht2⟩ : ∃ t2, t2 = a + b - t1 := ⟨_, rfl⟩
  obtain ⟨lo, hlo⟩ : ∃ lo, lo = rnInt p (s2 + t1) := ⟨_, rfl⟩
  obtain ⟨t1', ht1'⟩ : ∃ t1', t1' = s2 + t1 - lo := ⟨_, rfl⟩
  obtain ⟨t, ht⟩ : ∃ t, t = rnInt p (t1' + t2) := ⟨_, rfl⟩
  obtain ⟨u, hu⟩ : ∃ u, u = rnInt p (s1 + lo) := ⟨_, rfl⟩
  obtain ⟨x, hx⟩ : ∃ x, x = rnInt p (t + u) := ⟨_, rfl⟩
  obtain ⟨y, hy⟩ : ∃ y, y = rnInt p ((s1 + lo - u) + (t + u - x)) := ⟨_, rfl⟩
  have hdef : ddAddInt p A a B b = (x, y) := by
    subst hs1 hs2 ht1 ht2 hlo ht1' ht hu hx hy; rfl
  rw [hdef] at hweak ⊢
  simp only at hweak ⊢
  have htf : IsFloat p t := by rw [ht]; exact rnInt_isFloat _ _
  -- the condition of the three_sum lemmas and the rounding error e of t
  have hcond : (s1 + lo - u = 0 ∨ 4 * t.natAbs ≤ Q p u) ∧
      (6 * (P * (P * (t1' + t2 - t).natAbs)) ≤ x.natAbs) := by
    by_cases h0 : s2 = 0
    · -- regime B: t = t2 exactly
      have hsf : IsFloat p (A + B) := by
        have : A + B = s1 := by omega
        rw [this, hs1]; exact rnInt_isFloat _ _
      have hsx : s1 = A + B := by rw [hs1]; exact rnInt_exact hp hsf
      have ht1f : IsFloat p t1 := by rw [ht1]; exact rnInt_isFloat _ _
      have hlo' : lo = t1 := by rw [hlo, h0, Int.zero_add]; exact rnInt_exact hp ht1f
      have ht1'0 : t1' = 0 := by rw [ht1', h0, hlo']; ring
      have ht2f : IsFloat p t2 := by rw [ht2, ht1]; exact sum_error_isFloat hp ha hb
      have htt : t = t2 := by rw [ht, ht1'0, Int.zero_add]; exact rnInt_exact hp ht2f
      have he0 : t1' + t2 - t = 0 := by rw [ht1'0, htt]; ring
      refine ⟨?_, by rw [he0]; simp⟩
      have := add_tail_regimeB (t1 := t1) (t2 := t2) (u := u) (by omega) hA hB na nb ht1 ht2 (by rw [hu, hsx, hlo'])
      rw [hsx, hlo', htt]; exact this
    · obtain ⟨r1, r2⟩ := add_tail_regimeA hp6 hA hB na nb hs1 hs2 ht1 ht2 hlo ht1' ht hu hx h0
      rw [← hP] at r2
      exact ⟨Or.inr r1, r2⟩
  obtain ⟨hc, he⟩ := hcond
  have hz := three_sum_err hp htf (h := s1) (l := lo) (by rw [← hu]; exact hc)
  rw [← hu, ← hx, ← hy, ← hP] at hz
  -- R − (x + y) = z' + e   and   x = R − y − z' − e
  have hid : A + a + B + b - (x + y) = ((s1 + lo - u) + (t + u - x) - y) + (t1' + t2 - t) := by
    rw [ht1', ht2, hs2]; ring
  rw [hid, ← hP]
  obtain ⟨z, hzd⟩ : ∃ z, z = (s1 + lo - u) + (t + u - x) - y := ⟨_, rfl⟩
  obtain ⟨e, hed⟩ : ∃ e, e = t1' + t2 - t := ⟨_, rfl⟩
  rw [← hzd] at hz ⊢
  rw [← hed] at he ⊢
  have hR : x.natAbs ≤ (A + a + B + b).natAbs + y.natAbs + z.natAbs + e.natAbs := by
    have : x = (A + a + B + b) - y - z - e := by rw [hzd, hed, ht1', ht2, hs2]; ring
    omega
  have hD : P * (P * (z + e).natAbs) ≤ P * (P * z.natAbs) + P * (P * e.natAbs) := by
    rw [← Nat.mul_add, ← Nat.mul_add]
    exact Nat.mul_le_mul_left _ (Nat.mul_le_mul_left _ (Int.natAbs_add_le z e))
  rcases Nat.lt_or_ge (size x.natAbs) p with hsx | hbx
  · -- result below 2^p: both discarded terms vanish
    have hxl : x.natAbs < P := by rw [hP]; exact size_le.1 (by omega)
    have h64 := Nat.mul_le_mul_right P hP64
    have hz0 : z.natAbs = 0 := by
      by_contra hc0
      have h1 : P ≤ P * z.natAbs := Nat.le_mul_of_pos_right P (by omega)
      have h2 : P * P ≤ P * (P * z.natAbs) := Nat.mul_le_mul_left P h1
      omega
    have he0 : e.natAbs = 0 := by
      by_contra hc0
      have h1 : P ≤ P * e.natAbs := Nat.le_mul_of_pos_right P (by omega)
      have h2 : P * P ≤ P * (P * e.natAbs) := Nat.mul_le_mul_left P h1
      omega
    have : (z + e).natAbs = 0 := by omega
    rw [this]; simp
  · have hx0 : x ≠ 0 := by
      intro h0; rw [h0] at hbx; simp [size_zero] at hbx; omega
    have hPQ := P_mul_Q_le hbx hx0
    rw [← hP] at hPQ
    have hPy : P * y.natAbs ≤ 2 * x.natAbs := by
      have := Nat.mul_le_mul_left P hweak
      omega
    have k1 := Nat.mul_le_mul_right y.natAbs hP64
    have k2 := Nat.mul_le_mul_right z.natAbs hP64
    have k3 := Nat.mul_le_mul_right (P * z.natAbs) hP64
    have k4 := Nat.mul_le_mul_right e.natAbs hP64
    have k5 := Nat.mul_le_mul_right (P * e.natAbs) hP64
    omega

end UVerif.F64

namespace UVerif.F64

/-- relative error of `dd::operator+=` at the model level: `|exact − (hi + lo)| ≤ 3·2^(−2p)·|exact|`. -/
theorem DD_add_err (f : Fmt) (ok : f.Ok) (h6 : 6 ≤ f.p) {a b : DD.DD}
    (hah : a.hi.Rep f) (hal : a.lo.Rep f) (hbh : b.hi.Rep f) (hbl : b.lo.Rep f)
    (na : 2 * a.lo.mag ≤ ulpNat f.p a.hi.mag) (nb : 2 * b.lo.mag ≤ ulpNat f.p b.hi.mag)
    (hg : 16 * (a.hi.mag + a.lo.mag + b.hi.mag + b.lo.mag) ≤ maxMag f) :
    2 ^ f.p * (2 ^ f.p * (a.hi.toInt + a.lo.toInt + b.hi.toInt + b.lo.toInt
        - ((DD.add f a b).hi.toInt + (DD.add f a b).lo.toInt)).natAbs)
      ≤ 3 * (a.hi.toInt + a.lo.toInt + b.hi.toInt + b.lo.toInt).natAbs := by
  obtain ⟨_, _, hv, lv⟩ := DD_add_val f ok hah hal hbh hbl hg
  rw [ulpNat_eq_Q] at na nb
  rw [F.mag_eq_natAbs] at na nb
  rw [hv, lv]
  exact ddAddInt_err h6 hah.2 hal.2 hbh.2 hbl.2 na nb

theorem DD_sub_err (f : Fmt) (ok : f.Ok) (h6 : 6 ≤ f.p) {a b : DD.DD}
    (hah : a.hi.Rep f) (hal : a.lo.Rep f) (hbh : b.hi.Rep f) (hbl : b.lo.Rep f)
    (na : 2 * a.lo.mag ≤ ulpNat f.p a.hi.mag) (nb : 2 * b.lo.mag ≤ ulpNat f.p b.hi.mag)
    (hg : 16 * (a.hi.mag + a.lo.mag + b.hi.mag + b.lo.mag) ≤ maxMag f) :
    2 ^ f.p * (2 ^ f.p * (a.hi.toInt + a.lo.toInt - (b.hi.toInt + b.lo.toInt)
        - ((DD.sub f a b).hi.toInt + (DD.sub f a b).lo.toInt)).natAbs)
      ≤ 3 * (a.hi.toInt + a.lo.toInt - (b.hi.toInt + b.lo.toInt)).natAbs := by
  have hm : ∀ x : F, x.neg.mag = x.mag := by intro x; cases x <;> rfl
  have h := DD_add_err f ok h6 (a := a) (b := b.neg) hah hal (F.neg_rep hbh) (F.neg_rep hbl) na
    (by simp only [DD.DD.neg, hm]; exact nb) (by simp only [DD.DD.neg, hm]; exact hg)
  simp only [DD.DD.neg, F.neg_toInt] at h
  have e : a.hi.toInt + a.lo.toInt + -b.hi.toInt + -b.lo.toInt = a.hi.toInt + a.lo.toInt - (b.hi.toInt + b.lo.toInt) := by ring
  rw [e] at h
  exact h

end UVerif.F64
