/-
  UVerifProofs.Lemmas.DDNormMul — weak normalisation of `dd::operator*=`: the closing
  `three_sum(p0, p1', p2'')` receives a third input of second order, so `|lo| ≤ ulp(hi)`.

  Integer-unit level: the seven values `p0 … p6` produced by the three two_prods and `lo·lo` are related by
     p0 = RN(p0 + p1),  p2 = RN(p2 + p4),  p3 = RN(p3 + p5),  p6 = RN(q4),
     2^p·|p2 + p4| ≤ |p0 + p1|,  2^p·|p3 + p5| ≤ |p0 + p1|,  2^p·|q4| ≤ |p2 + p4|
  (the exact partial products `A·b`, `a·B` are at most `2^-p·|A·B|`, `a·b` at most `2^-p·|A·b|`, for normalised
  operands).
-/
import UVerifProofs.Lemmas.DDNorm

namespace UVerif.F64

/-- arithmetic core: first-order quantities `O(S/P)`, second-order `O(S/P²)`; the third input `T` of the closing
    three_sum satisfies `4·P·T ≤ U`. -/
theorem mulTail_arith (P S P0 P1 S2 P4 P2 S3 P5 P3 S4 E6 P6 A12 V1 U1 A3 W1 X1 VW Z1 Y1 A45 E1 G1 A6 E2 G2 AT E3 T A0 V U : Nat)
    (hP : 64 ≤ P)
    (h1 : P * P1 ≤ S) (h0 : S ≤ P0 + P1)
    (h2 : P * S2 ≤ S) (h4 : P * P4 ≤ S2) (h2' : P2 ≤ S2 + P4)
    (h3 : P * S3 ≤ S) (h5 : P * P5 ≤ S3) (h3' : P3 ≤ S3 + P5)
    (h6 : P * S4 ≤ S2) (h6e : P * E6 ≤ S4) (h6' : P6 ≤ S4 + E6)
    (a12 : A12 ≤ P1 + P2) (v1 : P * V1 ≤ A12) (u1 : U1 ≤ A12 + V1)
    (a3 : A3 ≤ P3 + U1) (w1 : P * W1 ≤ A3) (x1 : X1 ≤ A3 + W1)
    (vw : VW ≤ V1 + W1) (z1 : P * Z1 ≤ VW) (y1 : Y1 ≤ VW + Z1)
    (a45 : A45 ≤ P4 + P5) (e1 : P * E1 ≤ A45) (g1 : G1 ≤ A45 + E1)
    (a6 : A6 ≤ G1 + P6) (e2 : P * E2 ≤ A6) (g2 : G2 ≤ A6 + E2)
    (at' : AT ≤ Y1 + G2) (e3 : P * E3 ≤ AT) (t : T ≤ AT + E3)
    (a0 : A0 ≤ P0 + X1) (v : P * V ≤ A0) (u : P0 ≤ U + V + X1) :
    4 * (P * T) ≤ U := by
  have m1 : P * T ≤ P * AT + P * E3 := by rw [← Nat.mul_add]; exact Nat.mul_le_mul_left _ t
  have m2 : P * AT ≤ P * Y1 + P * G2 := by rw [← Nat.mul_add]; exact Nat.mul_le_mul_left _ at'
  have m3 : P * Y1 ≤ P * VW + P * Z1 := by rw [← Nat.mul_add]; exact Nat.mul_le_mul_left _ y1
  have m4 : P * VW ≤ P * V1 + P * W1 := by rw [← Nat.mul_add]; exact Nat.mul_le_mul_left _ vw
  have m5 : P * G2 ≤ P * A6 + P * E2 := by rw [← Nat.mul_add]; exact Nat.mul_le_mul_left _ g2
  have m6 : P * A6 ≤ P * G1 + P * P6 := by rw [← Nat.mul_add]; exact Nat.mul_le_mul_left _ a6
  have m7 : P * G1 ≤ P * A45 + P * E1 := by rw [← Nat.mul_add]; exact Nat.mul_le_mul_left _ g1
  have m8 : P * A45 ≤ P * P4 + P * P5 := by rw [← Nat.mul_add]; exact Nat.mul_le_mul_left _ a45
  have m9 : P * P6 ≤ P * S4 + P * E6 := by rw [← Nat.mul_add]; exact Nat.mul_le_mul_left _ h6'
  have k1 := Nat.mul_le_mul_right P1 hP
  have k2 := Nat.mul_le_mul_right S2 hP
  have k3 := Nat.mul_le_mul_right S3 hP
  have k4 := Nat.mul_le_mul_right P4 hP
  have k5 := Nat.mul_le_mul_right P5 hP
  have k6 := Nat.mul_le_mul_right S4 hP
  have k7 := Nat.mul_le_mul_right V1 hP
  have k8 := Nat.mul_le_mul_right W1 hP
  have k9 := Nat.mul_le_mul_right V hP
  have k10 := Nat.mul_le_mul_right E6 hP
  have k11 := Nat.mul_le_mul_right Z1 hP
  have k12 := Nat.mul_le_mul_right E1 hP
  have k13 := Nat.mul_le_mul_right E2 hP
  omega

end UVerif.F64

namespace UVerif.F64

/-- the tail of `dd::operator*=` on integer units, from the seven values of the partial products. -/
def ddMulTail (p : Nat) (p0 p1 p2 p3 p4 p5 p6 : Int) : Int × Int :=
  let u1 := rnInt p (p1 + p2)
  let v1 := p1 + p2 - u1
  let x1 := rnInt p (p3 + u1)
  let w1 := p3 + u1 - x1
  let y1 := rnInt p (v1 + w1)
  let tt := rnInt p (y1 + rnInt p (rnInt p (p4 + p5) + p6))
  let u := rnInt p (p0 + x1)
  let v := p0 + x1 - u
  let x := rnInt p (tt + u)
  let w := tt + u - x
  (x, rnInt p (v + w))

/-- **weak normalisation of the dd product** on integer units (`p ≥ 6`). -/
theorem ddMulTail_weak {p : Nat} (hp6 : 6 ≤ p) {p0 p1 p2 p3 p4 p5 p6 q4 : Int}
    (h0 : p0 = rnInt p (p0 + p1)) (h2 : p2 = rnInt p (p2 + p4)) (h3 : p3 = rnInt p (p3 + p5)) (h6 : p6 = rnInt p q4)
    (r2 : 2 ^ p * (p2 + p4).natAbs ≤ (p0 + p1).natAbs) (r3 : 2 ^ p * (p3 + p5).natAbs ≤ (p0 + p1).natAbs)
    (r4 : 2 ^ p * q4.natAbs ≤ (p2 + p4).natAbs) :
    (ddMulTail p p0 p1 p2 p3 p4 p5 p6).2.natAbs ≤ Q p (ddMulTail p p0 p1 p2 p3 p4 p5 p6).1 := by
  have hp : 1 ≤ p := by omega
  obtain ⟨P, hP⟩ : ∃ P, P = 2 ^ p := ⟨_, rfl⟩
  have hP64 : 64 ≤ P := by
    rw [hP]; have : 2 ^ 6 ≤ 2 ^ p := Nat.pow_le_pow_right (by decide) hp6
    simpa using this
  -- name the intermediates
  obtain ⟨u1, hu1⟩ : ∃ u1, u1 = rnInt p (p1 + p2) := ⟨_, rfl⟩
  obtain ⟨x1, hx1⟩ : ∃ x1, x1 = rnInt p (p3 + u1) := ⟨_, rfl⟩
  obtain ⟨y1, hy1⟩ : ∃ y1, y1 = rnInt p ((p1 + p2 - u1) + (p3 + u1 - x1)) := ⟨_, rfl⟩
  obtain ⟨g1, hg1⟩ : ∃ g1, g1 = rnInt p (p4 + p5) := ⟨_, rfl⟩
  obtain ⟨g2, hg2⟩ : ∃ g2, g2 = rnInt p (g1 + p6) := ⟨_, rfl⟩
  obtain ⟨tt, htt⟩ : ∃ tt, tt = rnInt p (y1 + g2) := ⟨_, rfl⟩
  obtain ⟨u, hu⟩ : ∃ u, u = rnInt p (p0 + x1) := ⟨_, rfl⟩
  have hdef : ddMulTail p p0 p1 p2 p3 p4 p5 p6
      = (rnInt p (tt + u), rnInt p ((p0 + x1 - u) + (tt + u - rnInt p (tt + u)))) := by
    subst hu1 hx1 hy1 hg1 hg2 htt hu; rfl
  rw [hdef]
  simp only
  have httf : IsFloat p tt := by rw [htt]; exact rnInt_isFloat _ _
  have key : 4 * tt.natAbs ≤ Q p (rnInt p (p0 + x1)) := by
    rw [← hu]
    -- relative errors
    have f1 := rn_rel_err hp (p0 + p1)
    have f4 := rn_rel_err hp (p2 + p4)
    have f5 := rn_rel_err hp (p3 + p5)
    have f6 := rn_rel_err hp q4
    have fv1 := rn_rel_err hp (p1 + p2)
    have fw1 := rn_rel_err hp (p3 + u1)
    have fz1 := rn_rel_err hp ((p1 + p2 - u1) + (p3 + u1 - x1))
    have fe1 := rn_rel_err hp (p4 + p5)
    have fe2 := rn_rel_err hp (g1 + p6)
    have fe3 := rn_rel_err hp (y1 + g2)
    have fv := rn_rel_err hp (p0 + x1)
    rw [← h0] at f1; rw [← h2] at f4; rw [← h3] at f5; rw [← h6] at f6
    rw [← hu1] at fv1; rw [← hx1] at fw1; rw [← hy1] at fz1; rw [← hg1] at fe1; rw [← hg2] at fe2
    rw [← htt] at fe3; rw [← hu] at fv
    have e1 : p0 + p1 - p0 = p1 := by ring
    have e4 : p2 + p4 - p2 = p4 := by ring
    have e5 : p3 + p5 - p3 = p5 := by ring
    rw [e1] at f1; rw [e4] at f4; rw [e5] at f5
    rw [← hP] at f1 f4 f5 f6 fv1 fw1 fz1 fe1 fe2 fe3 fv r2 r3 r4
    have c0 : (p0 + p1).natAbs ≤ p0.natAbs + p1.natAbs := Int.natAbs_add_le _ _
    have c2 : p2.natAbs ≤ (p2 + p4).natAbs + p4.natAbs := natAbs_le_of_eq_sub (by ring)
    have c3 : p3.natAbs ≤ (p3 + p5).natAbs + p5.natAbs := natAbs_le_of_eq_sub (by ring)
    have c6 : p6.natAbs ≤ q4.natAbs + (q4 - p6).natAbs := natAbs_le_of_eq_sub (by ring)
    have c12 : (p1 + p2).natAbs ≤ p1.natAbs + p2.natAbs := Int.natAbs_add_le _ _
    have cu1 : u1.natAbs ≤ (p1 + p2).natAbs + (p1 + p2 - u1).natAbs := natAbs_le_of_eq_sub (by ring)
    have ca3 : (p3 + u1).natAbs ≤ p3.natAbs + u1.natAbs := Int.natAbs_add_le _ _
    have cx1 : x1.natAbs ≤ (p3 + u1).natAbs + (p3 + u1 - x1).natAbs := natAbs_le_of_eq_sub (by ring)
    have cvw : ((p1 + p2 - u1) + (p3 + u1 - x1)).natAbs ≤ (p1 + p2 - u1).natAbs + (p3 + u1 - x1).natAbs := Int.natAbs_add_le _ _
    have cy1 : y1.natAbs ≤ ((p1 + p2 - u1) + (p3 + u1 - x1)).natAbs + ((p1 + p2 - u1) + (p3 + u1 - x1) - y1).natAbs :=
      natAbs_le_of_eq_sub (by ring)
    have c45 : (p4 + p5).natAbs ≤ p4.natAbs + p5.natAbs := Int.natAbs_add_le _ _
    have cg1 : g1.natAbs ≤ (p4 + p5).natAbs + (p4 + p5 - g1).natAbs := natAbs_le_of_eq_sub (by ring)
    have ca6 : (g1 + p6).natAbs ≤ g1.natAbs + p6.natAbs := Int.natAbs_add_le _ _
    have cg2 : g2.natAbs ≤ (g1 + p6).natAbs + (g1 + p6 - g2).natAbs := natAbs_le_of_eq_sub (by ring)
    have cat : (y1 + g2).natAbs ≤ y1.natAbs + g2.natAbs := Int.natAbs_add_le _ _
    have ct : tt.natAbs ≤ (y1 + g2).natAbs + (y1 + g2 - tt).natAbs := natAbs_le_of_eq_sub (by ring)
    have ca0 : (p0 + x1).natAbs ≤ p0.natAbs + x1.natAbs := Int.natAbs_add_le _ _
    have cu : p0.natAbs ≤ u.natAbs + (p0 + x1 - u).natAbs + x1.natAbs := natAbs_le_of_eq_add_sub (by ring)
    have harith := mulTail_arith P (p0 + p1).natAbs p0.natAbs p1.natAbs (p2 + p4).natAbs p4.natAbs p2.natAbs
      (p3 + p5).natAbs p5.natAbs p3.natAbs q4.natAbs (q4 - p6).natAbs p6.natAbs (p1 + p2).natAbs (p1 + p2 - u1).natAbs u1.natAbs
      (p3 + u1).natAbs (p3 + u1 - x1).natAbs x1.natAbs ((p1 + p2 - u1) + (p3 + u1 - x1)).natAbs
      ((p1 + p2 - u1) + (p3 + u1 - x1) - y1).natAbs y1.natAbs (p4 + p5).natAbs (p4 + p5 - g1).natAbs g1.natAbs
      (g1 + p6).natAbs (g1 + p6 - g2).natAbs g2.natAbs (y1 + g2).natAbs (y1 + g2 - tt).natAbs tt.natAbs
      (p0 + x1).natAbs (p0 + x1 - u).natAbs u.natAbs
      hP64 f1 c0 r2 f4 c2 r3 f5 c3 r4 f6 c6 c12 fv1 cu1 ca3 fw1 cx1 cvw fz1 cy1 c45 fe1 cg1 ca6 fe2 cg2 cat fe3 ct ca0 fv cu
    have hub := lt_P_mul_Q p u
    rw [← hP] at hub
    have : P * (4 * tt.natAbs) < P * Q p u := by
      have e : P * (4 * tt.natAbs) = 4 * (P * tt.natAbs) := by ring
      omega
    exact Nat.le_of_lt (Nat.lt_of_mul_lt_mul_left this)
  have := three_sum_weak hp httf (h := p0) (l := x1) (Or.inr key)
  rw [← hu] at this
  exact this

end UVerif.F64
