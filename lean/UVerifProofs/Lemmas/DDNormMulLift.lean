/-
  UVerifProofs.Lemmas.DDNormMulLift — `dd::operator*=` of the model computes `ddMulTail` of its seven partial
  product values, hence `|lo| ≤ ulp(hi)` (weak normalisation of the dd product).
-/
import UVerifProofs.Lemmas.DDNormMul
import UVerifProofs.Lemmas.DDProdAll

namespace UVerif.F64
open UVerif UVerif.DDLemmas

/-- `add` with its value and a crude magnitude bound. -/
theorem add_full (f : Fmt) (hp : 1 ≤ f.p) (hpt : f.p ≤ f.top) {x y : F} (hx : x.Rep f) (hy : y.Rep f)
    (hg : x.mag + y.mag ≤ maxMag f) :
    (add f x y).Rep f ∧ (add f x y).toInt = rnInt f.p (x.toInt + y.toInt) ∧ (add f x y).mag ≤ 2 * (x.mag + y.mag) := by
  have hb : (x.toInt + y.toInt).natAbs ≤ maxMag f := by
    have := Int.natAbs_add_le x.toInt y.toInt
    rw [F.mag_eq_natAbs x, F.mag_eq_natAbs y] at hg; omega
  obtain ⟨h1, h2⟩ := add_spec f hp hpt hx.1 hy.1 hb
  refine ⟨h1, h2, ?_⟩
  rw [F.mag_eq_natAbs, h2]
  have h0 := rnInt_nearest (z := x.toInt + y.toInt) hp (isFloat_zero f.p)
  have := Int.natAbs_add_le x.toInt y.toInt
  rw [F.mag_eq_natAbs x, F.mag_eq_natAbs y]
  omega

/-- the contract of one `two_prod` inside `dd::operator*=`, uniform in "a factor is zero" / "no underflow". -/
theorem twoProd_rel (f : Fmt) (ok : f.Ok) (h4 : 4 ≤ f.p) (hfmt : f.p + 2 * (splitBits f + 1) ≤ f.top)
    {x y : F} (hx : x.Rep f) (hy : y.Rep f) (hlx : x.mag < 2 ^ (f.top - 1)) (hly : y.mag < 2 ^ (f.top - 1))
    (hq : x.toInt = 0 ∨ y.toInt = 0 ∨ f.q ≤ (size x.mag - f.p) + (size y.mag - f.p))
    {W : Nat} (hW : 2 ^ (size x.mag + size y.mag) ≤ W) (hrange : 64 * W ≤ maxMag f * 2 ^ f.q) :
    (twoProd f x y).1.Rep f ∧ (twoProd f x y).2.Rep f ∧
    ((twoProd f x y).1.toInt + (twoProd f x y).2.toInt) * ((2 ^ f.q : Nat) : Int) = x.toInt * y.toInt ∧
    (twoProd f x y).1.toInt = rnInt f.p ((twoProd f x y).1.toInt + (twoProd f x y).2.toInt) ∧
    64 * (twoProd f x y).1.mag ≤ maxMag f ∧ 32 * (twoProd f x y).2.mag ≤ maxMag f := by
  have hp : 1 ≤ f.p := by omega
  rcases hq with h0 | h0 | hqq
  · obtain ⟨r1, r2, v1, v2⟩ := twoProd_zero_left_all f ok hfmt hy hly hx.1 h0
    refine ⟨r1, r2, by rw [v1, v2, h0]; ring, by rw [v1, v2]; simp [rnInt_zero], ?_, ?_⟩
    · rw [mag_zero_of_toInt v1]; simp
    · rw [mag_zero_of_toInt v2]; simp
  · obtain ⟨r1, r2, v1, v2⟩ := twoProd_zero_right_all f ok hfmt hx hlx hy.1 h0
    refine ⟨r1, r2, by rw [v1, v2, h0]; ring, by rw [v1, v2]; simp [rnInt_zero], ?_, ?_⟩
    · rw [mag_zero_of_toInt v1]; simp
    · rw [mag_zero_of_toInt v2]; simp
  · have hr8 : 8 * 2 ^ (size x.mag + size y.mag) ≤ maxMag f * 2 ^ f.q := by omega
    obtain ⟨r1, r2, hsum, hv⟩ := twoProd_spec_all f ok h4 hfmt hx hy hlx hly hqq hr8
    have wab : (x.toInt * y.toInt).natAbs ≤ 2 ^ (size x.mag + size y.mag) := by
      rw [Nat.pow_add, F.mag_eq_natAbs x, F.mag_eq_natAbs y]
      exact natAbs_mul_le (Nat.le_of_lt (lt_two_pow_size _)) (Nat.le_of_lt (lt_two_pow_size _))
    have wP : (rnInt f.p (x.toInt * y.toInt)).natAbs ≤ 2 ^ (size x.mag + size y.mag) :=
      rnInt_natAbs_le hp (isFloatN_two_pow _ _ hp) wab
    have hQ : (0 : Int) < ((2 ^ f.q : Nat) : Int) := by have := Nat.two_pow_pos f.q; omega
    have hrn : (twoProd f x y).1.toInt = rnInt f.p ((twoProd f x y).1.toInt + (twoProd f x y).2.toInt) := by
      have h1 := rnInt_mul_two_pow f.p ((twoProd f x y).1.toInt + (twoProd f x y).2.toInt) f.q hp
      rw [hsum, ← hv] at h1
      exact Int.eq_of_mul_eq_mul_right (Int.ne_of_gt hQ) h1
    have hv2 : (twoProd f x y).2.toInt * ((2 ^ f.q : Nat) : Int) = x.toInt * y.toInt - rnInt f.p (x.toInt * y.toInt) := by
      rw [← hv, ← hsum]; ring
    refine ⟨r1, r2, hsum, hrn, ?_, ?_⟩
    · exact mag_le_of_scaled f hv (W := 64 * W) (by omega) hrange
    · exact mag_le_of_scaled f hv2 (W := 64 * W) (by omega) hrange

/-- the contract of `lo * rhs.lo`. -/
theorem mul_rel (f : Fmt) (hp : 1 ≤ f.p) (hpt : f.p ≤ f.top) {x y : F} (hx : x.Rep f) (hy : y.Rep f)
    (hq : x.toInt = 0 ∨ y.toInt = 0 ∨ f.q ≤ (size x.mag - f.p) + (size y.mag - f.p))
    {W : Nat} (hW : 2 ^ (size x.mag + size y.mag) ≤ W) (hrange : 64 * W ≤ maxMag f * 2 ^ f.q) :
    (mul f x y).Rep f ∧ 64 * (mul f x y).mag ≤ maxMag f ∧
    ∃ q4 : Int, (mul f x y).toInt = rnInt f.p q4 ∧ q4 * ((2 ^ f.q : Nat) : Int) = x.toInt * y.toInt := by
  rcases hq with h0 | h0 | hqq
  · obtain ⟨h1, h2⟩ := mul_zero_left f hx.1 hy.1 h0
    exact ⟨rep_of_toInt_zero f h1 h2, by rw [mag_zero_of_toInt h2]; simp, 0, by rw [h2, rnInt_zero], by rw [h0]; ring⟩
  · obtain ⟨h1, h2⟩ := mul_zero_right f hx.1 hy.1 h0
    exact ⟨rep_of_toInt_zero f h1 h2, by rw [mag_zero_of_toInt h2]; simp, 0, by rw [h2, rnInt_zero], by rw [h0]; ring⟩
  · have da : ((2 ^ (size x.mag - f.p) : Nat) : Int) ∣ x.toInt := by
      rw [F.mag_eq_natAbs]; exact isFloat_quantum_dvd hp hx.2
    have db : ((2 ^ (size y.mag - f.p) : Nat) : Int) ∣ y.toInt := by
      rw [F.mag_eq_natAbs]; exact isFloat_quantum_dvd hp hy.2
    have hdvd := pow_dvd_of_le_int hqq (pow_dvd_mul_int da db)
    have hdn : 2 ^ f.q ∣ x.mag * y.mag := by
      have h := Int.natAbs_dvd_natAbs.2 hdvd
      rw [Int.natAbs_mul] at h
      simpa [F.mag_eq_natAbs] using h
    have wab : x.mag * y.mag ≤ 2 ^ (size x.mag + size y.mag) := by
      rw [Nat.pow_add]
      exact Nat.mul_le_mul (Nat.le_of_lt (lt_two_pow_size _)) (Nat.le_of_lt (lt_two_pow_size _))
    obtain ⟨h1, h2, _⟩ := mul_spec_scaled f hp hpt hx.1 hy.1 hdn (by omega)
    obtain ⟨q4, hq4⟩ := hdvd
    have hq4' : x.toInt * y.toInt = q4 * ((2 ^ f.q : Nat) : Int) := by rw [hq4]; ring
    have hQ : (0 : Int) < ((2 ^ f.q : Nat) : Int) := by have := Nat.two_pow_pos f.q; omega
    have hval : (mul f x y).toInt = rnInt f.p q4 := by
      rw [hq4', rnInt_mul_two_pow _ _ _ hp] at h2
      exact Int.eq_of_mul_eq_mul_right (Int.ne_of_gt hQ) h2
    have hfl : IsFloat f.p (mul f x y).toInt := by rw [hval]; exact rnInt_isFloat _ _
    have hm : 64 * (mul f x y).mag ≤ maxMag f := by
      have wP : (rnInt f.p (x.toInt * y.toInt)).natAbs ≤ 2 ^ (size x.mag + size y.mag) := by
        apply rnInt_natAbs_le hp (isFloatN_two_pow _ _ hp)
        rw [Int.natAbs_mul, ← F.mag_eq_natAbs, ← F.mag_eq_natAbs]; exact wab
      exact mag_le_of_scaled f h2 (W := 64 * W) (by omega) hrange
    exact ⟨⟨h1, hfl⟩, hm, q4, hval, hq4'.symm⟩

end UVerif.F64

namespace UVerif.F64
open UVerif UVerif.DDLemmas

/-- from scaled equalities to a relative bound between the unscaled values. -/
theorem scaled_rel {Qn P : Nat} (hQ : 0 < Qn) {X Y x1 y1 x2 y2 : Int}
    (hX : X * (Qn : Int) = x1 * y1) (hY : Y * (Qn : Int) = x2 * y2)
    (h : P * (x1 * y1).natAbs ≤ (x2 * y2).natAbs) : P * X.natAbs ≤ Y.natAbs := by
  have e1 : X.natAbs * Qn = (x1 * y1).natAbs := by
    have := congrArg Int.natAbs hX; rw [Int.natAbs_mul] at this; simpa using this
  have e2 : Y.natAbs * Qn = (x2 * y2).natAbs := by
    have := congrArg Int.natAbs hY; rw [Int.natAbs_mul] at this; simpa using this
  have : (P * X.natAbs) * Qn ≤ Y.natAbs * Qn := by
    have e : (P * X.natAbs) * Qn = P * (X.natAbs * Qn) := by ring
    rw [e, e1, e2]; exact h
  exact Nat.le_of_mul_le_mul_right this hQ

theorem ulpNat_le_self {p n : Nat} (hp : 1 ≤ p) (hn : n ≠ 0) : ulpNat p n ≤ n := by
  unfold ulpNat
  have := two_pow_size_le hn
  have h2 : 2 ^ (size n - p) ≤ 2 ^ (size n - 1) := Nat.pow_le_pow_right (by decide) (by omega)
  omega

theorem lo_le_hi_of_norm {p : Nat} (hp : 1 ≤ p) {hi lo : Nat} (h : 2 * lo ≤ ulpNat p hi) : lo ≤ hi := by
  by_cases h0 : hi = 0
  · subst h0
    have : ulpNat p 0 = 1 := by unfold ulpNat; simp [size_zero]
    rw [this] at h; omega
  · have := ulpNat_le_self hp h0 (p := p); omega

/-- the tail of `dd::operator*=` over model values: inner three_sum, the second-order sum, closing three_sum. -/
def mulTailF (f : Fmt) (p0 p1 p2 p3 p4 p5 p6 : F) : F × F :=
  ((threeSum f p0 (threeSum f p1 p2 p3).1 (add f (threeSum f p1 p2 p3).2.1 (add f (add f p4 p5) p6))).1,
   (threeSum f p0 (threeSum f p1 p2 p3).1 (add f (threeSum f p1 p2 p3).2.1 (add f (add f p4 p5) p6))).2.1)

theorem DD_mul_eq_tail (f : Fmt) (a b : DD.DD) :
    DD.mul f a b =
      (if (twoProd f a.hi b.hi).1.isFinite then
        (⟨(mulTailF f (twoProd f a.hi b.hi).1 (twoProd f a.hi b.hi).2 (twoProd f a.hi b.lo).1 (twoProd f a.lo b.hi).1
              (twoProd f a.hi b.lo).2 (twoProd f a.lo b.hi).2 (mul f a.lo b.lo)).1,
          (mulTailF f (twoProd f a.hi b.hi).1 (twoProd f a.hi b.hi).2 (twoProd f a.hi b.lo).1 (twoProd f a.lo b.hi).1
              (twoProd f a.hi b.lo).2 (twoProd f a.lo b.hi).2 (mul f a.lo b.lo)).2⟩ : DD.DD)
      else ⟨(twoProd f a.hi b.hi).1, pzero⟩) := by
  rw [DD_mul_eq]; rfl

theorem threeSum_fst (f : Fmt) (X Y Z : F) : (threeSum f X Y Z).1 = (twoSum f Z (twoSum f X Y).1).1 := rfl
theorem threeSum_snd (f : Fmt) (X Y Z : F) :
    (threeSum f X Y Z).2.1 = (twoSum f (twoSum f X Y).2 (twoSum f Z (twoSum f X Y).1).2).1 := rfl

/-- the model tail computes `ddMulTail` of the values (all seven inputs representable, magnitudes at most `maxMag/32`).
    Every intermediate result is named before its contract is used, so that the arithmetic side goals stay small. -/
theorem mulTailF_val (f : Fmt) (ok : f.Ok) {p0 p1 p2 p3 p4 p5 p6 : F}
    (p0r : p0.Rep f) (p1r : p1.Rep f) (p2r : p2.Rep f) (p3r : p3.Rep f) (p4r : p4.Rep f) (p5r : p5.Rep f) (p6r : p6.Rep f)
    (m0 : 64 * p0.mag ≤ maxMag f) (m1 : 32 * p1.mag ≤ maxMag f) (m2 : 64 * p2.mag ≤ maxMag f) (m3 : 64 * p3.mag ≤ maxMag f)
    (m4 : 32 * p4.mag ≤ maxMag f) (m5 : 32 * p5.mag ≤ maxMag f) (m6 : 64 * p6.mag ≤ maxMag f) :
    (mulTailF f p0 p1 p2 p3 p4 p5 p6).1.toInt
      = (ddMulTail f.p p0.toInt p1.toInt p2.toInt p3.toInt p4.toInt p5.toInt p6.toInt).1 ∧
    (mulTailF f p0 p1 p2 p3 p4 p5 p6).2.toInt
      = (ddMulTail f.p p0.toInt p1.toInt p2.toInt p3.toInt p4.toInt p5.toInt p6.toInt).2 := by
  have hp : 1 ≤ f.p := by have := ok.hp2; omega
  have hpt := ok.hpt
  obtain ⟨T1, hT1⟩ : ∃ T1, T1 = twoSum f p1 p2 := ⟨_, rfl⟩
  obtain ⟨T2, hT2⟩ : ∃ T2, T2 = twoSum f p3 T1.1 := ⟨_, rfl⟩
  obtain ⟨T3, hT3⟩ : ∃ T3, T3 = twoSum f T1.2 T2.2 := ⟨_, rfl⟩
  obtain ⟨G1, hG1⟩ : ∃ G1, G1 = add f p4 p5 := ⟨_, rfl⟩
  obtain ⟨G2, hG2⟩ : ∃ G2, G2 = add f G1 p6 := ⟨_, rfl⟩
  obtain ⟨TT, hTT⟩ : ∃ TT, TT = add f T3.1 G2 := ⟨_, rfl⟩
  obtain ⟨T4, hT4⟩ : ∃ T4, T4 = twoSum f p0 T2.1 := ⟨_, rfl⟩
  obtain ⟨T5, hT5⟩ : ∃ T5, T5 = twoSum f TT T4.1 := ⟨_, rfl⟩
  obtain ⟨T6, hT6⟩ : ∃ T6, T6 = twoSum f T4.2 T5.2 := ⟨_, rfl⟩
  have hm : mulTailF f p0 p1 p2 p3 p4 p5 p6 = (T5.1, T6.1) := by
    subst hT1 hT2 hT3 hG1 hG2 hTT hT4 hT5 hT6; rfl
  rw [hm]
  simp only
  have a1 := twoSum_full f ok p1r p2r (by linarith)
  rw [← hT1] at a1
  obtain ⟨u1r, v1r, u1v, v1v, v1m1, v1m2, u1m⟩ := a1
  have a2 := twoSum_full f ok p3r u1r (by linarith)
  rw [← hT2] at a2
  obtain ⟨x1r, w1r, x1v, w1v, w1m1, w1m2, x1m⟩ := a2
  have a3 := twoSum_full f ok v1r w1r (by linarith)
  rw [← hT3] at a3
  obtain ⟨y1r, _, y1v, _, z1m1, _, y1m⟩ := a3
  have b1 := add_full f hp hpt p4r p5r (by linarith)
  rw [← hG1] at b1
  obtain ⟨g1r, g1v, g1m⟩ := b1
  have b2 := add_full f hp hpt g1r p6r (by linarith)
  rw [← hG2] at b2
  obtain ⟨g2r, g2v, g2m⟩ := b2
  have b3 := add_full f hp hpt y1r g2r (by linarith)
  rw [← hTT] at b3
  obtain ⟨ttr, ttv, ttm⟩ := b3
  have a4 := twoSum_full f ok p0r x1r (by linarith)
  rw [← hT4] at a4
  obtain ⟨ur, vr, uv, vv, vm1, vm2, um⟩ := a4
  have a5 := twoSum_full f ok ttr ur (by linarith)
  rw [← hT5] at a5
  obtain ⟨xr, wr, xv, wv, wm1, wm2, _⟩ := a5
  have a6 := twoSum_full f ok vr wr (by linarith)
  rw [← hT6] at a6
  obtain ⟨yr, _, yv, _, _, _, _⟩ := a6
  constructor
  · rw [xv, ttv, uv, y1v, g2v, g1v, v1v, w1v, x1v, u1v]; rfl
  · rw [yv, vv, wv, ttv, uv, y1v, g2v, g1v, v1v, w1v, x1v, u1v]; rfl

/-- **weak normalisation of `dd::operator*=`** (model level): normalised operands, `p ≥ 6`, format with room for the
    rescaled split; for each of the four partial products either a factor is zero or it does not underflow; six binades of
    headroom below overflow:  `|lo| ≤ ulp(hi)`. -/
theorem DD_mul_weak (f : Fmt) (ok : f.Ok) (h6 : 6 ≤ f.p) (hfmt : f.p + 2 * (splitBits f + 1) ≤ f.top) {a b : DD.DD}
    (hah : a.hi.Rep f) (hal : a.lo.Rep f) (hbh : b.hi.Rep f) (hbl : b.lo.Rep f)
    (na : 2 * a.lo.mag ≤ ulpNat f.p a.hi.mag) (nb : 2 * b.lo.mag ≤ ulpNat f.p b.hi.mag)
    (hla : a.hi.mag < 2 ^ (f.top - 1)) (hlb : b.hi.mag < 2 ^ (f.top - 1))
    (qhh : a.hi.toInt = 0 ∨ b.hi.toInt = 0 ∨ f.q ≤ (size a.hi.mag - f.p) + (size b.hi.mag - f.p))
    (qhl : a.hi.toInt = 0 ∨ b.lo.toInt = 0 ∨ f.q ≤ (size a.hi.mag - f.p) + (size b.lo.mag - f.p))
    (qlh : a.lo.toInt = 0 ∨ b.hi.toInt = 0 ∨ f.q ≤ (size a.lo.mag - f.p) + (size b.hi.mag - f.p))
    (qll : a.lo.toInt = 0 ∨ b.lo.toInt = 0 ∨ f.q ≤ (size a.lo.mag - f.p) + (size b.lo.mag - f.p))
    (hrange : 64 * 2 ^ (size a.hi.mag + size b.hi.mag) ≤ maxMag f * 2 ^ f.q) :
    (DD.mul f a b).lo.mag ≤ ulpNat f.p (DD.mul f a b).hi.mag := by
  have hp : 1 ≤ f.p := by omega
  have h4 : 4 ≤ f.p := by omega
  have hpt := ok.hpt
  have hQpos : 0 < 2 ^ f.q := Nat.two_pow_pos _
  have hal_le := lo_le_hi_of_norm hp na
  have hbl_le := lo_le_hi_of_norm hp nb
  have hlal : a.lo.mag < 2 ^ (f.top - 1) := by omega
  have hlbl : b.lo.mag < 2 ^ (f.top - 1) := by omega
  have sA := size_mono hal_le
  have sB := size_mono hbl_le
  have W1 : 2 ^ (size a.hi.mag + size b.lo.mag) ≤ 2 ^ (size a.hi.mag + size b.hi.mag) := Nat.pow_le_pow_right (by decide) (by omega)
  have W2 : 2 ^ (size a.lo.mag + size b.hi.mag) ≤ 2 ^ (size a.hi.mag + size b.hi.mag) := Nat.pow_le_pow_right (by decide) (by omega)
  have W3 : 2 ^ (size a.lo.mag + size b.lo.mag) ≤ 2 ^ (size a.hi.mag + size b.hi.mag) := Nat.pow_le_pow_right (by decide) (by omega)
  obtain ⟨p0r, p1r, s01, rn0, m0, m1⟩ := twoProd_rel f ok h4 hfmt hah hbh hla hlb qhh (Nat.le_refl _) hrange
  obtain ⟨p2r, p4r, s24, rn2, m2, m4⟩ := twoProd_rel f ok h4 hfmt hah hbl hla hlbl qhl W1 hrange
  obtain ⟨p3r, p5r, s35, rn3, m3, m5⟩ := twoProd_rel f ok h4 hfmt hal hbh hlal hlb qlh W2 hrange
  obtain ⟨p6r, m6, q4, rn6, s6⟩ := mul_rel f hp hpt hal hbl qll W3 hrange
  rw [ulpNat_eq_Q] at na nb
  have fa := rel_of_half_Q hp na
  have fb := rel_of_half_Q hp nb
  rw [F.mag_eq_natAbs] at fa fb
  have r2 : 2 ^ f.p * ((twoProd f a.hi b.lo).1.toInt + (twoProd f a.hi b.lo).2.toInt).natAbs
      ≤ ((twoProd f a.hi b.hi).1.toInt + (twoProd f a.hi b.hi).2.toInt).natAbs := by
    apply scaled_rel (Qn := 2 ^ f.q) hQpos s24 s01
    rw [Int.natAbs_mul, Int.natAbs_mul]
    calc 2 ^ f.p * (a.hi.toInt.natAbs * b.lo.toInt.natAbs) = a.hi.toInt.natAbs * (2 ^ f.p * b.lo.toInt.natAbs) := by ring
      _ ≤ a.hi.toInt.natAbs * b.hi.toInt.natAbs := Nat.mul_le_mul_left _ fb
  have r3 : 2 ^ f.p * ((twoProd f a.lo b.hi).1.toInt + (twoProd f a.lo b.hi).2.toInt).natAbs
      ≤ ((twoProd f a.hi b.hi).1.toInt + (twoProd f a.hi b.hi).2.toInt).natAbs := by
    apply scaled_rel (Qn := 2 ^ f.q) hQpos s35 s01
    rw [Int.natAbs_mul, Int.natAbs_mul]
    calc 2 ^ f.p * (a.lo.toInt.natAbs * b.hi.toInt.natAbs) = (2 ^ f.p * a.lo.toInt.natAbs) * b.hi.toInt.natAbs := by ring
      _ ≤ a.hi.toInt.natAbs * b.hi.toInt.natAbs := Nat.mul_le_mul_right _ fa
  have r4 : 2 ^ f.p * q4.natAbs ≤ ((twoProd f a.hi b.lo).1.toInt + (twoProd f a.hi b.lo).2.toInt).natAbs := by
    apply scaled_rel (Qn := 2 ^ f.q) hQpos s6 s24
    rw [Int.natAbs_mul, Int.natAbs_mul]
    calc 2 ^ f.p * (a.lo.toInt.natAbs * b.lo.toInt.natAbs) = (2 ^ f.p * a.lo.toInt.natAbs) * b.lo.toInt.natAbs := by ring
      _ ≤ a.hi.toInt.natAbs * b.lo.toInt.natAbs := Nat.mul_le_mul_right _ fa
  have hweak := ddMulTail_weak h6 rn0 rn2 rn3 rn6 r2 r3 r4
  obtain ⟨hxe, hye⟩ := mulTailF_val f ok p0r p1r p2r p3r p4r p5r p6r m0 m1 m2 m3 m4 m5 m6
  rw [DD_mul_eq_tail]
  simp only [p0r.1, if_true]
  rw [ulpNat_eq_Q, F.mag_eq_natAbs, hxe, hye]
  exact hweak

end UVerif.F64
