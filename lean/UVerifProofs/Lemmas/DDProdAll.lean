/-
  UVerifProofs.Lemmas.DDProdAll — the dd product clauses for ALL operands (zero / subnormal / normal limbs,
  below or above SPLIT_THRESHOLD), on top of `twoProd_spec_gen` and `split_val_all`.
-/
import UVerifProofs.Lemmas.DDLemmas
import UVerifProofs.Lemmas.F64ProdAll

namespace UVerif.DDLemmas
open UVerif UVerif.F64

/-- `two_prod` with a zero second factor, any first factor with `|x| < 2^(top−1)`. -/
theorem twoProd_zero_right_all (f : Fmt) (ok : f.Ok) (hfmt : f.p + 2 * (splitBits f + 1) ≤ f.top) {x z : F} (hx : x.Rep f)
    (hlx : x.mag < 2 ^ (f.top - 1)) (hz : z.isFinite = true) (h0 : z.toInt = 0) :
    (twoProd f x z).1.Rep f ∧ (twoProd f x z).2.Rep f ∧ (twoProd f x z).1.toInt = 0 ∧ (twoProd f x z).2.toInt = 0 := by
  obtain ⟨pf, pv⟩ := mul_zero_right f hx.1 hz h0
  obtain ⟨xh, xl, _, _, _, _⟩ := split_val_all f ok hfmt hx hlx
  obtain ⟨zh, zl, zhv, zlv⟩ := split_zero f ok hz h0
  obtain ⟨m1f, m1v⟩ := mul_zero_right f xh.1 zh.1 zhv
  obtain ⟨m2f, m2v⟩ := mul_zero_right f xh.1 zl.1 zlv
  obtain ⟨m3f, m3v⟩ := mul_zero_right f xl.1 zh.1 zhv
  obtain ⟨m4f, m4v⟩ := mul_zero_right f xl.1 zl.1 zlv
  obtain ⟨t1, t1v⟩ := sub_zero_vals f ok m1f pf (by rw [m1v, pv]; rfl)
  obtain ⟨t2, t2v⟩ := add_zero_vals f ok t1.1 m2f (by rw [t1v, m2v]; rfl)
  obtain ⟨t3, t3v⟩ := add_zero_vals f ok t2.1 m3f (by rw [t2v, m3v]; rfl)
  obtain ⟨r, rv⟩ := add_zero_vals f ok t3.1 m4f (by rw [t3v, m4v]; rfl)
  rw [twoProd_eq]
  simp only [pf, if_true]
  exact ⟨rep_of_toInt_zero f pf pv, r, pv, rv⟩

theorem twoProd_zero_left_all (f : Fmt) (ok : f.Ok) (hfmt : f.p + 2 * (splitBits f + 1) ≤ f.top) {x z : F} (hx : x.Rep f)
    (hlx : x.mag < 2 ^ (f.top - 1)) (hz : z.isFinite = true) (h0 : z.toInt = 0) :
    (twoProd f z x).1.Rep f ∧ (twoProd f z x).2.Rep f ∧ (twoProd f z x).1.toInt = 0 ∧ (twoProd f z x).2.toInt = 0 := by
  obtain ⟨pf, pv⟩ := mul_zero_left f hz hx.1 h0
  obtain ⟨xh, xl, _, _, _, _⟩ := split_val_all f ok hfmt hx hlx
  obtain ⟨zh, zl, zhv, zlv⟩ := split_zero f ok hz h0
  obtain ⟨m1f, m1v⟩ := mul_zero_left f zh.1 xh.1 zhv
  obtain ⟨m2f, m2v⟩ := mul_zero_left f zh.1 xl.1 zhv
  obtain ⟨m3f, m3v⟩ := mul_zero_left f zl.1 xh.1 zlv
  obtain ⟨m4f, m4v⟩ := mul_zero_left f zl.1 xl.1 zlv
  obtain ⟨t1, t1v⟩ := sub_zero_vals f ok m1f pf (by rw [m1v, pv]; rfl)
  obtain ⟨t2, t2v⟩ := add_zero_vals f ok t1.1 m2f (by rw [t1v, m2v]; rfl)
  obtain ⟨t3, t3v⟩ := add_zero_vals f ok t2.1 m3f (by rw [t2v, m3v]; rfl)
  obtain ⟨r, rv⟩ := add_zero_vals f ok t3.1 m4f (by rw [t3v, m4v]; rfl)
  rw [twoProd_eq]
  simp only [pf, if_true]
  exact ⟨rep_of_toInt_zero f pf pv, r, pv, rv⟩

/-- magnitude of a value given in scaled form against the range guard. -/
theorem mag_le_of_scaled (f : Fmt) {v : F} {Y : Int} {W k : Nat} (hv : v.toInt * ((2 ^ f.q : Nat) : Int) = Y)
    (hY : k * Y.natAbs ≤ W) (hr : W ≤ maxMag f * 2 ^ f.q) : k * v.mag ≤ maxMag f := by
  have h1 : v.mag * 2 ^ f.q = Y.natAbs := by
    have := congrArg Int.natAbs hv
    rw [Int.natAbs_mul] at this
    simp only [Int.natAbs_natCast] at this
    rw [F.mag_eq_natAbs v, this]
  have h3 : (k * v.mag) * 2 ^ f.q ≤ maxMag f * 2 ^ f.q := by
    have : (k * v.mag) * 2 ^ f.q = k * (v.mag * 2 ^ f.q) := by ring
    rw [this, h1]; omega
  exact Nat.le_of_mul_le_mul_right h3 (Nat.two_pow_pos _)

/-- `dd(a) * dd(b)` for two representable doubles of ANY kind (guards of `twoProd_spec_gen`): exact, head
    correctly rounded. -/
theorem mul_of_doubles_all (f : Fmt) (ok : f.Ok) (h4 : 4 ≤ f.p) (hfmt : f.p + 2 * (splitBits f + 1) ≤ f.top)
    {a b : F} (ha : a.Rep f) (hb : b.Rep f)
    (hla : a.mag < 2 ^ (f.top - 1)) (hlb : b.mag < 2 ^ (f.top - 1))
    {ea eb : Nat} (da : ((2 ^ ea : Nat) : Int) ∣ a.toInt) (db : ((2 ^ eb : Nat) : Int) ∣ b.toInt)
    (hq : f.q ≤ ea + eb)
    (hrange : 8 * 2 ^ (size a.mag + size b.mag) ≤ maxMag f * 2 ^ f.q) :
    ((DD.mul f (DD.ofF a) (DD.ofF b)).hi.toInt + (DD.mul f (DD.ofF a) (DD.ofF b)).lo.toInt) * ((2 ^ f.q : Nat) : Int)
      = a.toInt * b.toInt ∧
    (DD.mul f (DD.ofF a) (DD.ofF b)).hi.toInt * ((2 ^ f.q : Nat) : Int) = rnInt f.p (a.toInt * b.toInt) := by
  have hp : 1 ≤ f.p := by omega
  have hzf : pzero.isFinite = true := rfl
  have hz0 := pzero_toInt
  obtain ⟨p0r, p1r, hsum, hp0v⟩ := twoProd_spec_gen f ok h4 hfmt ha hb hla hlb da db hq hrange
  have wab : (a.toInt * b.toInt).natAbs ≤ 2 ^ (size a.mag + size b.mag) := by
    rw [Nat.pow_add, F.mag_eq_natAbs a, F.mag_eq_natAbs b]
    exact natAbs_mul_le (Nat.le_of_lt (lt_two_pow_size _)) (Nat.le_of_lt (lt_two_pow_size _))
  have wP : (rnInt f.p (a.toInt * b.toInt)).natAbs ≤ 2 ^ (size a.mag + size b.mag) :=
    rnInt_natAbs_le hp (isFloatN_two_pow _ _ hp) wab
  have hp0m : 8 * (twoProd f a b).1.mag ≤ maxMag f := mag_le_of_scaled f hp0v (by omega) hrange
  have hp1v : (twoProd f a b).2.toInt * ((2 ^ f.q : Nat) : Int) = a.toInt * b.toInt - rnInt f.p (a.toInt * b.toInt) := by
    rw [← hp0v, ← hsum]; ring
  have hp1m : 4 * (twoProd f a b).2.mag ≤ maxMag f := mag_le_of_scaled f hp1v (by omega) hrange
  obtain ⟨q2r, q4r, q2v, q4v⟩ := twoProd_zero_right_all f ok hfmt ha hla hzf hz0
  obtain ⟨q3r, q5r, q3v, q5v⟩ := twoProd_zero_left_all f ok hfmt hb hlb hzf hz0
  obtain ⟨p6f, p6v⟩ := mul_zero_left f hzf hzf hz0
  obtain ⟨s1r, s2r, _, s1v, s2v, _⟩ := threeSum_two_zeros f ok p1r q2r.1 q3r.1 q2v q3v (by omega)
  obtain ⟨u1r, u1v⟩ := add_zero_vals f ok q4r.1 q5r.1 (by rw [q4v, q5v]; rfl)
  obtain ⟨u2r, u2v⟩ := add_zero_vals f ok u1r.1 p6f (by rw [u1v, p6v]; rfl)
  obtain ⟨u3r, u3v⟩ := add_zero_vals f ok s2r.1 u2r.1 (by rw [s2v, u2v]; rfl)
  have hn : rnInt f.p ((twoProd f a b).1.toInt + (threeSum f (twoProd f a b).2 (twoProd f a pzero).1 (twoProd f pzero b).1).1.toInt)
      = (twoProd f a b).1.toInt := by
    rw [s1v]
    have hQ : (0 : Int) < ((2 ^ f.q : Nat) : Int) := by have := Nat.two_pow_pos f.q; omega
    have h1 := rnInt_mul_two_pow f.p ((twoProd f a b).1.toInt + (twoProd f a b).2.toInt) f.q hp
    rw [hsum, ← hp0v] at h1
    exact (Int.eq_of_mul_eq_mul_right (Int.ne_of_gt hQ) h1).symm
  have hs1m : (threeSum f (twoProd f a b).2 (twoProd f a pzero).1 (twoProd f pzero b).1).1.mag = (twoProd f a b).2.mag := by
    rw [F.mag_eq_natAbs, s1v, ← F.mag_eq_natAbs]
  obtain ⟨hH, hL, hHv, hLv⟩ := threeSum_normalised f ok p0r s1r u3r u3v hn (by rw [hs1m]; omega)
  rw [DD_mul_eq]
  simp only [DD.ofF, p0r.1, if_true]
  refine ⟨?_, ?_⟩
  · rw [hHv, hLv, s1v]; exact hsum
  · rw [hHv]; exact hp0v

/-- `two_prod(x, c)` with `c = ±2^k` units, any representable `x`: the head is the exact product, the residual zero. -/
theorem twoProd_pow2_gen (f : Fmt) (ok : f.Ok) (h4 : 4 ≤ f.p) (hfmt : f.p + 2 * (splitBits f + 1) ≤ f.top)
    {x c : F} (hx : x.Rep f) (hc : c.Rep f) {ex k : Nat}
    (hlx : x.mag < 2 ^ (f.top - 1)) (hlc : c.mag < 2 ^ (f.top - 1))
    (dx : ((2 ^ ex : Nat) : Int) ∣ x.toInt) (hcm : c.mag = 2 ^ k) (hq : f.q ≤ ex + k)
    (hrange : 8 * 2 ^ (size x.mag + size c.mag) ≤ maxMag f * 2 ^ f.q) :
    (twoProd f x c).1.Rep f ∧ (twoProd f x c).2.Rep f ∧
    (twoProd f x c).1.toInt * ((2 ^ f.q : Nat) : Int) = x.toInt * c.toInt ∧ (twoProd f x c).2.toInt = 0 := by
  have hp : 1 ≤ f.p := by omega
  have hcabs : c.toInt.natAbs = 2 ^ k := by rw [← F.mag_eq_natAbs]; exact hcm
  have dc : ((2 ^ k : Nat) : Int) ∣ c.toInt := by
    have : (2 ^ k : Nat) ∣ c.toInt.natAbs := by rw [hcabs]
    exact Int.natAbs_dvd_natAbs.1 (by simpa using this)
  obtain ⟨h1, h2, h3, h4'⟩ := twoProd_spec_gen f ok h4 hfmt hx hc hlx hlc dx dc hq hrange
  have hfl : IsFloat f.p (x.toInt * c.toInt) := by
    unfold IsFloat
    rw [Int.natAbs_mul, hcabs]
    exact isFloatN_mul_two_pow hx.2 _
  rw [rnInt_exact hp hfl] at h4'
  refine ⟨h1, h2, h4', ?_⟩
  have hQ : (0 : Int) < ((2 ^ f.q : Nat) : Int) := by have := Nat.two_pow_pos f.q; omega
  have : (twoProd f x c).2.toInt * ((2 ^ f.q : Nat) : Int) = 0 := by
    have e : ((twoProd f x c).1.toInt + (twoProd f x c).2.toInt) * ((2 ^ f.q : Nat) : Int)
        = (twoProd f x c).1.toInt * ((2 ^ f.q : Nat) : Int) + (twoProd f x c).2.toInt * ((2 ^ f.q : Nat) : Int) := by ring
    rw [e, h4'] at h3
    omega
  rcases Int.mul_eq_zero.1 this with h | h
  · exact h
  · omega

/-- **`dd × (±2^k, 0)` is exact** for every finite dd value: head any representable double, tail zero or any
    representable double (subnormal included) whose product with `2^k` does not underflow (`2^el ∣ lo`, `q ≤ el + k`). -/
theorem mul_pow2_all (f : Fmt) (ok : f.Ok) (h4 : 4 ≤ f.p) (hfmt : f.p + 2 * (splitBits f + 1) ≤ f.top)
    {x : DD.DD} {c : F} (hh : x.hi.Rep f) (hl : x.lo.Rep f) (hc : c.Rep f) {eh el k : Nat}
    (hlh : x.hi.mag < 2 ^ (f.top - 1)) (hlc : c.mag < 2 ^ (f.top - 1)) (hlo : x.lo.mag ≤ x.hi.mag)
    (dh : ((2 ^ eh : Nat) : Int) ∣ x.hi.toInt) (hcm : c.mag = 2 ^ k) (hqh : f.q ≤ eh + k)
    (hlow : x.lo.toInt = 0 ∨ (((2 ^ el : Nat) : Int) ∣ x.lo.toInt ∧ f.q ≤ el + k))
    (hrange : 8 * 2 ^ (size x.hi.mag + size c.mag) ≤ maxMag f * 2 ^ f.q) :
    ((DD.mul f x (DD.ofF c)).hi.toInt + (DD.mul f x (DD.ofF c)).lo.toInt) * ((2 ^ f.q : Nat) : Int)
      = (x.hi.toInt + x.lo.toInt) * c.toInt := by
  have hp : 1 ≤ f.p := by omega
  have hzf : pzero.isFinite = true := rfl
  have hz0 := pzero_toInt
  have hll : x.lo.mag < 2 ^ (f.top - 1) := by omega
  have hrange_l : 8 * 2 ^ (size x.lo.mag + size c.mag) ≤ maxMag f * 2 ^ f.q := by
    have : 2 ^ (size x.lo.mag + size c.mag) ≤ 2 ^ (size x.hi.mag + size c.mag) :=
      Nat.pow_le_pow_right (by decide) (by have := size_mono hlo; omega)
    omega
  obtain ⟨p0r, p1r, p0v, p1v⟩ := twoProd_pow2_gen f ok h4 hfmt hh hc hlh hlc dh hcm hqh hrange
  -- the tail product: exact, residual zero — in both cases
  have htail : (twoProd f x.lo c).1.Rep f ∧ (twoProd f x.lo c).2.Rep f ∧
      (twoProd f x.lo c).1.toInt * ((2 ^ f.q : Nat) : Int) = x.lo.toInt * c.toInt ∧ (twoProd f x.lo c).2.toInt = 0 := by
    rcases hlow with h0 | ⟨dl, hql⟩
    · obtain ⟨r1, r2, v1, v2⟩ := twoProd_zero_left_all f ok hfmt hc hlc hl.1 h0
      exact ⟨r1, r2, by rw [v1, h0]; ring, v2⟩
    · exact twoProd_pow2_gen f ok h4 hfmt hl hc hll hlc dl hcm hql hrange_l
  obtain ⟨p3r, p5r, p3v, p5v⟩ := htail
  obtain ⟨q2r, q4r, q2v, q4v⟩ := twoProd_zero_right_all f ok hfmt hh hlh hzf hz0
  obtain ⟨p6f, p6v⟩ := mul_zero_right f hl.1 hzf hz0
  -- magnitudes
  have wc : c.toInt.natAbs ≤ 2 ^ size c.mag := by
    rw [← F.mag_eq_natAbs]; exact Nat.le_of_lt (lt_two_pow_size _)
  have hp0m : 8 * (twoProd f x.hi c).1.mag ≤ maxMag f := by
    apply mag_le_of_scaled f p0v _ hrange
    have : (x.hi.toInt * c.toInt).natAbs ≤ 2 ^ (size x.hi.mag + size c.mag) := by
      rw [Nat.pow_add]
      exact natAbs_mul_le (by rw [← F.mag_eq_natAbs]; exact Nat.le_of_lt (lt_two_pow_size _)) wc
    omega
  have hp3m : 8 * (twoProd f x.lo c).1.mag ≤ maxMag f := by
    apply mag_le_of_scaled f p3v _ hrange_l
    have : (x.lo.toInt * c.toInt).natAbs ≤ 2 ^ (size x.lo.mag + size c.mag) := by
      rw [Nat.pow_add]
      exact natAbs_mul_le (by rw [← F.mag_eq_natAbs]; exact Nat.le_of_lt (lt_two_pow_size _)) wc
    omega
  -- three_sum(p1 = 0, p2 = 0, p3) = (p3, 0, 0)
  have hTS1 : (threeSum f (twoProd f x.hi c).2 (twoProd f x.hi pzero).1 (twoProd f x.lo c).1).1.Rep f ∧
      (threeSum f (twoProd f x.hi c).2 (twoProd f x.hi pzero).1 (twoProd f x.lo c).1).2.1.Rep f ∧
      (threeSum f (twoProd f x.hi c).2 (twoProd f x.hi pzero).1 (twoProd f x.lo c).1).1.toInt = (twoProd f x.lo c).1.toInt ∧
      (threeSum f (twoProd f x.hi c).2 (twoProd f x.hi pzero).1 (twoProd f x.lo c).1).2.1.toInt = 0 := by
    obtain ⟨hu, hv, huv, hvv⟩ := twoSum_zero_right f ok p1r q2r q2v (by rw [mag_zero_of_toInt p1v]; exact Nat.zero_le _)
    rw [p1v] at huv
    obtain ⟨hx', hw, hx'v, hwv⟩ := twoSum_zero_right f ok p3r hu huv (by omega)
    obtain ⟨hy', _, hy'v, _⟩ := twoSum_zero_right f ok hv hw hwv (by rw [mag_zero_of_toInt hvv]; exact Nat.zero_le _)
    unfold threeSum
    simp only
    exact ⟨hx', hy', hx'v, by rw [hy'v, hvv]⟩
  obtain ⟨s1r, s2r, s1v, s2v⟩ := hTS1
  obtain ⟨u1r, u1v⟩ := add_zero_vals f ok q4r.1 p5r.1 (by rw [q4v, p5v]; rfl)
  obtain ⟨u2r, u2v⟩ := add_zero_vals f ok u1r.1 p6f (by rw [u1v, p6v]; rfl)
  obtain ⟨u3r, u3v⟩ := add_zero_vals f ok s2r.1 u2r.1 (by rw [s2v, u2v]; rfl)
  have hs1m : (threeSum f (twoProd f x.hi c).2 (twoProd f x.hi pzero).1 (twoProd f x.lo c).1).1.mag = (twoProd f x.lo c).1.mag := by
    rw [F.mag_eq_natAbs, s1v, ← F.mag_eq_natAbs]
  obtain ⟨hu, hv, hsum, _⟩ := twoSum_spec f ok p0r s1r (by rw [hs1m]; omega)
  obtain ⟨hv1, hv2, hu1⟩ := twoSum_residual_le f ok p0r s1r (by rw [hs1m]; omega)
  obtain ⟨hX, hW, hXv, hWv⟩ := twoSum_zero_left f ok u3r hu u3v (by rw [hs1m] at hv2 hu1; omega)
  obtain ⟨hY, _, hYv, _⟩ := twoSum_zero_right f ok hv hW hWv (by omega)
  rw [DD_mul_eq]
  simp only [DD.ofF, p0r.1, if_true]
  have e1 : ∀ A B C : F, (threeSum f A B C).1 = (twoSum f C (twoSum f A B).1).1 := fun _ _ _ => rfl
  have e2 : ∀ A B C : F, (threeSum f A B C).2.1 = (twoSum f (twoSum f A B).2 (twoSum f C (twoSum f A B).1).2).1 := fun _ _ _ => rfl
  rw [e1 (twoProd f x.hi c).1, e2 (twoProd f x.hi c).1, hXv, hYv]
  have e : ((twoSum f (twoProd f x.hi c).1 (threeSum f (twoProd f x.hi c).2 (twoProd f x.hi pzero).1 (twoProd f x.lo c).1).1).1.toInt
      + (twoSum f (twoProd f x.hi c).1 (threeSum f (twoProd f x.hi c).2 (twoProd f x.hi pzero).1 (twoProd f x.lo c).1).1).2.toInt)
      = (twoProd f x.hi c).1.toInt + (twoProd f x.lo c).1.toInt := by rw [hsum, s1v]
  rw [e, Int.add_mul, p0v, p3v]; ring

end UVerif.DDLemmas
