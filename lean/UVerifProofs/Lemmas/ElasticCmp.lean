/-
  einteger comparisons on canonical, non-negative operands.
-/
import UVerifProofs.Lemmas.ElasticShift
import UVerif.Spec.Elastic

namespace UVerif.EInt

theorem toNat_inj_len (w : Nat) : ∀ (a b : List Nat), a.length = b.length → LimbsOk w a → LimbsOk w b →
    toNat w a = toNat w b → a = b
  | [], [], _, _, _, _ => rfl
  | [], _ :: _, h, _, _, _ => by simp at h
  | _ :: _, [], h, _, _, _ => by simp at h
  | x :: xs, y :: ys, h, ha, hb, he => by
    have ⟨hx, hxs⟩ := limbsOk_cons.mp ha
    have ⟨hy, hys⟩ := limbsOk_cons.mp hb
    simp only [toNat] at he
    have h1 : x = y := by
      have := congrArg (· % 2 ^ w) he
      simp only [Nat.add_mul_mod_self_left] at this
      rwa [Nat.mod_eq_of_lt hx, Nat.mod_eq_of_lt hy] at this
    subst h1
    have h2 : toNat w xs = toNat w ys := by
      have : 2 ^ w * toNat w xs = 2 ^ w * toNat w ys := by omega
      exact Nat.eq_of_mul_eq_mul_left (Nat.two_pow_pos w) this
    rw [toNat_inj_len w xs ys (by simpa using h) hxs hys h2]

theorem toNat_inj_canon (w : Nat) {a b : List Nat} (ha : LimbsOk w a) (hb : LimbsOk w b)
    (hza : NoLeadingZero a) (hzb : NoLeadingZero b) (he : toNat w a = toNat w b) : a = b := by
  have hl : a.length = b.length := by
    by_contra hne
    rcases Nat.lt_or_gt_of_ne hne with h | h
    · have := toNat_lt_of_length_lt w ha hzb h; omega
    · have := toNat_lt_of_length_lt w hb hza h; omega
  exact toNat_inj_len w a b hl ha hb he

/-- canonical zero test in terms of the value -/
theorem isZero_iff_toNat {w : Nat} {x : EI} (h : Canon w x) : isZero x = true ↔ toNat w x.limbs = 0 := by
  rw [isZero_canon h]
  constructor
  · intro h0; rw [h0]; rfl
  · intro h0
    by_contra hne
    have := toNat_ge_of_noLeadingZero w x.limbs hne h.2
    have : 0 < (2 ^ w) ^ (x.limbs.length - 1) := Nat.pow_pos (Nat.two_pow_pos w)
    omega

theorem isZero_false_iff {w : Nat} {x : EI} (h : Canon w x) : isZero x = false ↔ toNat w x.limbs ≠ 0 := by
  have := isZero_iff_toNat h
  cases hz : isZero x <;> simp_all

theorem ltMag_spec (w : Nat) {a b : List Nat} (ha : LimbsOk w a) (hb : LimbsOk w b)
    (hza : NoLeadingZero a) (hzb : NoLeadingZero b) : ltMag a b = decide (toNat w a < toNat w b) := by
  unfold ltMag
  by_cases h1 : a.length < b.length
  · have := toNat_lt_of_length_lt w ha hzb h1
    simp [h1, this]
  · by_cases h2 : a.length > b.length
    · have := toNat_lt_of_length_lt w hb hza h2
      simp only [h1, h2, if_false, if_true]
      symm; apply decide_eq_false; omega
    · have hl : a.length = b.length := by omega
      simp only [h1, h2, if_false]
      rw [cmpLE_spec w _ _ hl ha hb]
      rcases Nat.lt_trichotomy (toNat w a) (toNat w b) with h | h | h
      · rw [Nat.compare_eq_lt.mpr h]; simp [h]
      · rw [Nat.compare_eq_eq.mpr h]; simp [h]
      · rw [Nat.compare_eq_gt.mpr h]
        have : ¬ toNat w a < toNat w b := by omega
        simp [this]

/-- `operator==` is integer equality on canonical objects (a zero with a set sign flag included). -/
theorem eqE_spec (w : Nat) {a b : EI} (ha : Canon w a) (hb : Canon w b) :
    eqE a b = decide (toInt w a = toInt w b) := by
  unfold eqE
  by_cases hza : toNat w a.limbs = 0
  · by_cases hzb : toNat w b.limbs = 0
    · have h1 := (isZero_iff_toNat ha).mpr hza
      have h2 := (isZero_iff_toNat hb).mpr hzb
      have : toInt w a = toInt w b := by unfold toInt; rw [hza, hzb]; split <;> split <;> simp
      simp [h1, h2, this]
    · have h2 := (isZero_false_iff hb).mpr hzb
      have hne : a.limbs ≠ b.limbs := by intro h; rw [h] at hza; exact hzb hza
      have : toInt w a ≠ toInt w b := by
        unfold toInt; rw [hza]; split <;> split <;> simp <;> omega
      have hl : (a.limbs == b.limbs) = false := by simpa using hne
      simp [h2, hl, this]
  · have h1 := (isZero_false_iff ha).mpr hza
    by_cases hl : a.limbs = b.limbs
    · by_cases hs : a.sign = b.sign
      · have : toInt w a = toInt w b := by unfold toInt; rw [hl, hs]
        simp [h1, hl, hs, this]
      · have : toInt w a ≠ toInt w b := by
          rw [hl] at hza
          unfold toInt; rw [hl]
          cases hsa : a.sign <;> cases hsb : b.sign <;> simp_all
        have hs' : (a.sign == b.sign) = false := by simpa using hs
        simp [h1, hs', this]
    · have hv : toNat w a.limbs ≠ toNat w b.limbs := fun he => hl (toNat_inj_canon w ha.1 hb.1 ha.2 hb.2 he)
      have : toInt w a ≠ toInt w b := by
        unfold toInt; split <;> split <;> simp <;> omega
      have hl' : (a.limbs == b.limbs) = false := by simpa using hl
      simp [h1, hl', this]

theorem toInt_neg_iff (w : Nat) {x : EI} (h : Canon w x) : (x.sign && !isZero x) = decide (toInt w x < 0) := by
  by_cases hz : toNat w x.limbs = 0
  · have := (isZero_iff_toNat h).mpr hz
    simp [this, toInt, hz]
  · have := (isZero_false_iff h).mpr hz
    cases hs : x.sign
    · simp [toInt, hs]
    · simp [this, toInt, hs]; omega

/-- `operator<` is the integer order on canonical objects. -/
theorem ltE_spec (w : Nat) {a b : EI} (ha : Canon w a) (hb : Canon w b) :
    ltE a b = decide (toInt w a < toInt w b) := by
  unfold ltE
  simp only []
  rw [toInt_neg_iff w ha, toInt_neg_iff w hb, ltMag_spec w hb.1 ha.1 hb.2 ha.2, ltMag_spec w ha.1 hb.1 ha.2 hb.2]
  have hA : toInt w a = (toNat w a.limbs : Int) ∨ toInt w a = -(toNat w a.limbs : Int) := by
    unfold toInt; split <;> simp
  have hB : toInt w b = (toNat w b.limbs : Int) ∨ toInt w b = -(toNat w b.limbs : Int) := by
    unfold toInt; split <;> simp
  by_cases h1 : toInt w a < 0 <;> by_cases h2 : toInt w b < 0
  · -- both negative
    have ea : toInt w a = -(toNat w a.limbs : Int) := by rcases hA with h | h <;> omega
    have eb : toInt w b = -(toNat w b.limbs : Int) := by rcases hB with h | h <;> omega
    simp only [h1, h2, decide_true, bne_self_eq_false, Bool.false_eq_true, if_false, if_true]
    by_cases h3 : toNat w b.limbs < toNat w a.limbs
    · have : toInt w a < toInt w b := by omega
      simp [h3, this]
    · have : ¬ toInt w a < toInt w b := by omega
      simp [h3, this]
  · have : toInt w a < toInt w b := by omega
    simp [h1, h2, this]
  · have : ¬ toInt w a < toInt w b := by omega
    simp [h1, h2, this]
  · have ea : toInt w a = (toNat w a.limbs : Int) := by rcases hA with h | h <;> omega
    have eb : toInt w b = (toNat w b.limbs : Int) := by rcases hB with h | h <;> omega
    simp only [h1, h2, decide_false, bne_self_eq_false, Bool.false_eq_true, if_false]
    by_cases h3 : toNat w a.limbs < toNat w b.limbs
    · have : toInt w a < toInt w b := by omega
      simp [h3, this]
    · have : ¬ toInt w a < toInt w b := by omega
      simp [h3, this]

/-- all six comparison operators agree with the integer order on canonical operands, whatever their signs. -/
theorem cmpMask_spec (w : Nat) {a b : EI} (ha : Canon w a) (hb : Canon w b) :
    cmpMask a b = ElasticSpec.cmpMask (toInt w a) (toInt w b) := by
  unfold cmpMask ElasticSpec.cmpMask
  rw [eqE_spec w ha hb, ltE_spec w ha hb, ltE_spec w hb ha]
  rcases Int.lt_trichotomy (toInt w a) (toInt w b) with h | h | h
  · have h1 : ¬ toInt w a = toInt w b := by omega
    have h2 : ¬ toInt w b < toInt w a := by omega
    have h3 : toInt w a ≤ toInt w b := by omega
    have h4 : ¬ toInt w a ≥ toInt w b := by omega
    simp [h, h1, h2, h3, h4]
  · simp [h]
  · have h1 : ¬ toInt w a = toInt w b := by omega
    have h2 : ¬ toInt w a < toInt w b := by omega
    have h3 : ¬ toInt w a ≤ toInt w b := by omega
    have h4 : toInt w a ≥ toInt w b := by omega
    simp [h, h1, h2, h3, h4]

end UVerif.EInt
