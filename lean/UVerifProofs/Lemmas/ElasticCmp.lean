/-
  einteger comparisons on canonical, non-negative operands.
-/
import UVerifProofs.Lemmas.ElasticShift
import UVerif.Spec.Elastic

namespace UVerif.EInt

theorem toNat_inj_len (w : Nat) : ∀ (a b : List Nat), a.length = b.length → LimbsOk w a → LimbsOk w b →
    toNat w a = toNat w b → a = b
  | [], [], _, _, _, _ => rfl
  | [], _ :: _, h, _, _, _ => by simp at h
  | _ :: _, [], h, _, _, _ => by simp at h
  | x :: xs, y :: ys, h, ha, hb, he => by
    have ⟨hx, hxs⟩ := limbsOk_cons.mp ha
    have ⟨hy, hys⟩ := limbsOk_cons.mp hb
    simp only [toNat] at he
    have h1 : x = y := by
      have := congrArg (· % 2 ^ w) he
      simp only [Nat.add_mul_mod_self_left] at this
      rwa [Nat.mod_eq_of_lt hx, Nat.mod_eq_of_lt hy] at this
    subst h1
    have h2 : toNat w xs = toNat w ys := by
      have : 2 ^ w * toNat w xs = 2 ^ w * toNat w ys := by omega
      exact Nat.eq_of_mul_eq_mul_left (Nat.two_pow_pos w) this
    rw [toNat_inj_len w xs ys (by simpa using h) hxs hys h2]

theorem toNat_inj_canon (w : Nat) {a b : List Nat} (ha : LimbsOk w a) (hb : LimbsOk w b)
    (hza : NoLeadingZero a) (hzb : NoLeadingZero b) (he : toNat w a = toNat w b) : a = b := by
  have hl : a.length = b.length := by
    by_contra hne
    rcases Nat.lt_or_gt_of_ne hne with h | h
    · have := toNat_lt_of_length_lt w ha hzb h; omega
    · have := toNat_lt_of_length_lt w hb hza h; omega
  exact toNat_inj_len w a b hl ha hb he

theorem eqE_spec (w : Nat) {a b : EI} (ha : Canon w a) (hb : Canon w b) :
    eqE a b = decide (toNat w a.limbs = toNat w b.limbs) := by
  unfold eqE
  by_cases h : a.limbs = b.limbs
  · simp [h]
  · have : toNat w a.limbs ≠ toNat w b.limbs := fun he => h (toNat_inj_canon w ha.1 hb.1 ha.2 hb.2 he)
    simp [h, this]

theorem ltE_spec (w : Nat) {a b : EI} (ha : Canon w a) (hb : Canon w b) :
    ltE a b = decide (toNat w a.limbs < toNat w b.limbs) := by
  unfold ltE
  by_cases h1 : a.limbs.length < b.limbs.length
  · have := toNat_lt_of_length_lt w ha.1 hb.2 h1
    simp [h1, this]
  · by_cases h2 : a.limbs.length > b.limbs.length
    · have := toNat_lt_of_length_lt w hb.1 ha.2 h2
      simp only [h1, h2, if_false, if_true]
      symm; apply decide_eq_false; omega
    · have hl : a.limbs.length = b.limbs.length := by omega
      simp only [h1, h2, if_false]
      rw [cmpLE_spec w _ _ hl ha.1 hb.1]
      rcases Nat.lt_trichotomy (toNat w a.limbs) (toNat w b.limbs) with h | h | h
      · rw [Nat.compare_eq_lt.mpr h]; simp [h]
      · rw [Nat.compare_eq_eq.mpr h]; simp [h]
      · rw [Nat.compare_eq_gt.mpr h]
        have : ¬ toNat w a.limbs < toNat w b.limbs := by omega
        simp [this]

/-- all six comparison operators agree with the integer order on canonical non-negative operands. -/
theorem cmpMask_spec (w : Nat) {a b : EI} (ha : Canon w a) (hb : Canon w b)
    (hsa : a.sign = false) (hsb : b.sign = false) :
    cmpMask a b = ElasticSpec.cmpMask (toInt w a) (toInt w b) := by
  unfold cmpMask ElasticSpec.cmpMask
  rw [eqE_spec w ha hb, ltE_spec w ha hb, ltE_spec w hb ha]
  simp only [toInt, hsa, hsb, Bool.false_eq_true, if_false]
  rcases Nat.lt_trichotomy (toNat w a.limbs) (toNat w b.limbs) with h | h | h
  · have h1 : ¬ toNat w a.limbs = toNat w b.limbs := by omega
    have h2 : ¬ toNat w b.limbs < toNat w a.limbs := by omega
    have h3 : ((toNat w a.limbs : Int) < toNat w b.limbs) := by exact_mod_cast h
    have h4 : ¬ ((toNat w a.limbs : Int) = toNat w b.limbs) := by exact_mod_cast h1
    have h5 : ¬ ((toNat w a.limbs : Int) > toNat w b.limbs) := by omega
    have h6 : ((toNat w a.limbs : Int) ≤ toNat w b.limbs) := by omega
    have h7 : ¬ ((toNat w a.limbs : Int) ≥ toNat w b.limbs) := by omega
    simp [h, h1, h2, h3, h4, h5, h6, h7]
  · have h2 : ¬ toNat w b.limbs < toNat w a.limbs := by omega
    have h1 : ¬ toNat w a.limbs < toNat w b.limbs := by omega
    simp [h]
  · have h1 : ¬ toNat w a.limbs = toNat w b.limbs := by omega
    have h2 : ¬ toNat w a.limbs < toNat w b.limbs := by omega
    have h3 : ¬ ((toNat w a.limbs : Int) < toNat w b.limbs) := by omega
    have h4 : ¬ ((toNat w a.limbs : Int) = toNat w b.limbs) := by exact_mod_cast h1
    have h5 : ((toNat w a.limbs : Int) > toNat w b.limbs) := by omega
    have h6 : ¬ ((toNat w a.limbs : Int) ≤ toNat w b.limbs) := by omega
    have h7 : ((toNat w a.limbs : Int) ≥ toNat w b.limbs) := by omega
    simp [h, h1, h2, h3, h4, h5, h6, h7]

end UVerif.EInt
