/-
  edecimal: digit vectors base 10 (least significant digit first): the loops of += -= *=.
-/
import Mathlib.Tactic.Ring
import Mathlib.Tactic.Linarith
import UVerif.Model.Elastic

namespace UVerif.EDec

/-- every stored digit is a decimal digit -/
def DOk (l : List Nat) : Prop := ∀ d ∈ l, d < 10

/-- no most-significant zero digit, except the single digit of zero; at least one digit -/
def Unpadded (l : List Nat) : Prop := l ≠ [] ∧ (l.length = 1 ∨ l.getLast? ≠ some 0)

/-- invariant of an edecimal object as the constructors and operators leave it -/
def ECanon (x : ED) : Prop := DOk x.d ∧ Unpadded x.d

theorem dOk_nil : DOk [] := by intro x hx; cases hx

theorem dOk_cons {x : Nat} {xs : List Nat} : DOk (x :: xs) ↔ x < 10 ∧ DOk xs := by
  constructor
  · intro h
    exact ⟨h x (List.mem_cons_self ..), fun y hy => h y (List.mem_cons_of_mem _ hy)⟩
  · rintro ⟨h1, h2⟩ y hy
    rcases List.mem_cons.mp hy with rfl | hy
    · exact h1
    · exact h2 y hy

theorem toNat_lt : ∀ {l : List Nat}, DOk l → toNat l < 10 ^ l.length
  | [], _ => by simp [toNat]
  | x :: xs, h => by
    have ⟨hx, hxs⟩ := dOk_cons.mp h
    have ih := toNat_lt hxs
    simp only [toNat, List.length_cons, pow_succ]; omega

theorem toNat_append : ∀ (a b : List Nat), toNat (a ++ b) = toNat a + 10 ^ a.length * toNat b
  | [], b => by simp [toNat]
  | x :: xs, b => by
    simp only [List.cons_append, toNat, List.length_cons, toNat_append xs b, pow_succ]; ring

theorem toNat_replicate_zero (n : Nat) : toNat (List.replicate n 0) = 0 := by
  induction n with
  | zero => rfl
  | succ n ih => simp [List.replicate_succ, toNat, ih]

theorem toNat_padTo (n : Nat) (l : List Nat) : toNat (padTo n l) = toNat l := by
  simp [padTo, toNat_append, toNat_replicate_zero]

theorem length_padTo (n : Nat) (l : List Nat) : (padTo n l).length = max n l.length := by
  simp [padTo]; omega

theorem dOk_padTo {n : Nat} {l : List Nat} (h : DOk l) : DOk (padTo n l) := by
  intro x hx
  simp only [padTo, List.mem_append, List.mem_replicate] at hx
  rcases hx with hx | ⟨_, rfl⟩
  · exact h x hx
  · decide

/-! ### stripZeros / unpad -/

theorem toNat_stripZeros : ∀ l : List Nat, toNat (stripZeros l) = toNat l
  | [] => rfl
  | x :: xs => by
    have ih := toNat_stripZeros xs
    simp only [stripZeros]
    cases h : stripZeros xs with
    | nil =>
      rw [h] at ih
      by_cases hx : x = 0
      · simp [hx, toNat] at *; omega
      · simp [hx, toNat] at *; omega
    | cons y ys =>
      rw [h] at ih
      simp only [toNat] at *
      rw [ih]

theorem stripZeros_last : ∀ l : List Nat, (stripZeros l).getLast? ≠ some 0
  | [] => by simp [stripZeros]
  | x :: xs => by
    have ih := stripZeros_last xs
    simp only [stripZeros]
    cases h : stripZeros xs with
    | nil => by_cases hx : x = 0 <;> simp [hx]
    | cons y ys =>
      rw [h] at ih
      simpa [List.getLast?_cons_cons] using ih

theorem dOk_stripZeros : ∀ {l : List Nat}, DOk l → DOk (stripZeros l)
  | [], _ => by simpa [stripZeros] using dOk_nil
  | x :: xs, h => by
    have ⟨hx, hxs⟩ := dOk_cons.mp h
    have ih := dOk_stripZeros hxs
    simp only [stripZeros]
    cases h' : stripZeros xs with
    | nil =>
      by_cases hx0 : x = 0
      · simp [hx0]; exact dOk_nil
      · simp [hx0]; exact dOk_cons.mpr ⟨hx, dOk_nil⟩
    | cons y ys =>
      rw [h'] at ih
      exact dOk_cons.mpr ⟨hx, ih⟩

theorem toNat_unpad (l : List Nat) : toNat (unpad l) = toNat l := by
  cases l with
  | nil => rfl
  | cons x xs => simp [unpad, toNat, toNat_stripZeros]

theorem dOk_unpad {l : List Nat} (h : DOk l) : DOk (unpad l) := by
  cases l with
  | nil => exact dOk_nil
  | cons x xs =>
    have ⟨hx, hxs⟩ := dOk_cons.mp h
    exact dOk_cons.mpr ⟨hx, dOk_stripZeros hxs⟩

theorem unpadded_unpad {l : List Nat} (h : l ≠ []) : Unpadded (unpad l) := by
  cases l with
  | nil => exact absurd rfl h
  | cons x xs =>
    refine ⟨by simp [unpad], ?_⟩
    simp only [unpad]
    cases hs : stripZeros xs with
    | nil => left; rfl
    | cons y ys =>
      right
      have := stripZeros_last xs
      rw [hs] at this
      simpa [List.getLast?_cons_cons] using this

/-! ### the carry loop of operator+= -/

theorem addLoop_spec : ∀ (xs ys : List Nat) (c : Nat), DOk xs → DOk ys → ys.length ≤ xs.length → c ≤ 1 →
    toNat (addLoop xs ys c) = toNat xs + toNat ys + c ∧ DOk (addLoop xs ys c)
  | [], ys, c, _, _, hl, hc => by
    have : ys = [] := List.length_eq_zero_iff.mp (Nat.le_zero.mp hl)
    subst this
    by_cases h0 : c = 0
    · simp [addLoop, h0, toNat]; exact dOk_nil
    · have : c = 1 := by omega
      simp [addLoop, this, toNat]; exact dOk_cons.mpr ⟨by decide, dOk_nil⟩
  | x :: xs, ys, c, hx, hy, hl, hc => by
    have ⟨hx0, hxs⟩ := dOk_cons.mp hx
    have key : ∀ (y : Nat) (ys' : List Nat), y < 10 → DOk ys' → ys'.length ≤ xs.length →
        toNat (if x + y + c > 9 then (x + y + c - 10) :: addLoop xs ys' 1 else (x + y + c) :: addLoop xs ys' 0)
          = x + 10 * toNat xs + (y + 10 * toNat ys') + c ∧
        DOk (if x + y + c > 9 then (x + y + c - 10) :: addLoop xs ys' 1 else (x + y + c) :: addLoop xs ys' 0) := by
      intro y ys' hy0 hys' hl'
      by_cases h9 : x + y + c > 9
      · have ih := addLoop_spec xs ys' 1 hxs hys' hl' (by omega)
        simp only [h9, if_true, toNat, ih.1]
        exact ⟨by omega, dOk_cons.mpr ⟨by omega, ih.2⟩⟩
      · have ih := addLoop_spec xs ys' 0 hxs hys' hl' (by omega)
        simp only [h9, if_false, toNat, ih.1]
        exact ⟨by omega, dOk_cons.mpr ⟨by omega, ih.2⟩⟩
    cases ys with
    | nil =>
      have := key 0 [] (by decide) dOk_nil (by simp)
      simpa [addLoop, toNat] using this
    | cons y ys =>
      have ⟨hy0, hys⟩ := dOk_cons.mp hy
      have := key y ys hy0 hys (by simpa using hl)
      simpa [addLoop, toNat] using this

/-- same-sign branch of `operator+=`: the magnitudes are added. -/
theorem addCore_spec {x r : ED} (hx : DOk x.d) (hr : DOk r.d) :
    toNat (addCore x r).d = toNat x.d + toNat r.d ∧ DOk (addCore x r).d ∧ (addCore x r).neg = x.neg := by
  unfold addCore
  have h := addLoop_spec (padTo (max x.d.length r.d.length) x.d) (padTo (max x.d.length r.d.length) r.d) 0
    (dOk_padTo hx) (dOk_padTo hr) (by rw [length_padTo, length_padTo]; omega) (by omega)
  rw [toNat_padTo, toNat_padTo] at h
  exact ⟨by simpa using h.1, h.2, rfl⟩

/-! ### magnitude comparison -/

theorem cmpLE_spec : ∀ (a b : List Nat), a.length = b.length → DOk a → DOk b →
    cmpLE a b = compare (toNat a) (toNat b)
  | [], [], _, _, _ => by simp [cmpLE, toNat]
  | [], _ :: _, h, _, _ => by simp at h
  | _ :: _, [], h, _, _ => by simp at h
  | x :: xs, y :: ys, h, ha, hb => by
    have ⟨hx, hxs⟩ := dOk_cons.mp ha
    have ⟨hy, hys⟩ := dOk_cons.mp hb
    have ih := cmpLE_spec xs ys (by simpa using h) hxs hys
    simp only [cmpLE, toNat]
    rw [ih]
    rcases Nat.lt_trichotomy (toNat xs) (toNat ys) with hlt | heq | hgt
    · rw [Nat.compare_eq_lt.mpr hlt]; symm; apply Nat.compare_eq_lt.mpr; omega
    · rw [heq]; simp only [Nat.compare_eq_eq.mpr rfl]
      rcases Nat.lt_trichotomy x y with h1 | h1 | h1
      · rw [Nat.compare_eq_lt.mpr h1]; symm; apply Nat.compare_eq_lt.mpr; omega
      · subst h1; simp
      · rw [Nat.compare_eq_gt.mpr h1]; symm; apply Nat.compare_eq_gt.mpr; omega
    · rw [Nat.compare_eq_gt.mpr hgt]; symm; apply Nat.compare_eq_gt.mpr; omega

theorem toNat_ge_of_unpadded : ∀ (l : List Nat), l.length ≥ 2 → l.getLast? ≠ some 0 → 10 ^ (l.length - 1) ≤ toNat l
  | [], h, _ => by simp at h
  | [_], h, _ => by simp at h
  | [x, y], _, hz => by
    simp at hz
    simp [toNat]; omega
  | x :: y :: z :: zs, _, hz => by
    have ih := toNat_ge_of_unpadded (y :: z :: zs) (by simp) (by simpa [List.getLast?_cons_cons] using hz)
    simp only [List.length_cons, Nat.add_sub_cancel] at *
    simp only [toNat] at *
    rw [pow_succ]; omega

/-- a longer unpadded digit vector denotes a larger number. -/
theorem toNat_lt_of_length_lt {a b : List Nat} (ha : DOk a) (hane : a ≠ []) (hb : Unpadded b) (hl : a.length < b.length) :
    toNat a < toNat b := by
  have h1 := toNat_lt ha
  have hal : 0 < a.length := List.length_pos_iff.mpr hane
  rcases hb.2 with h | h
  · omega
  · have h2 := toNat_ge_of_unpadded b (by omega) h
    have : 10 ^ a.length ≤ 10 ^ (b.length - 1) := Nat.pow_le_pow_right (by decide) (by omega)
    omega

/-! ### the borrow loop of operator-= -/

theorem subLoop_spec : ∀ (xs ys : List Nat) (c : Nat), DOk xs → DOk ys → ys.length ≤ xs.length → c ≤ 1 →
    toNat ys + c ≤ toNat xs →
    toNat (subLoop xs ys c).1 = toNat xs - toNat ys - c ∧ DOk (subLoop xs ys c).1 ∧
      (subLoop xs ys c).1.length = xs.length
  | [], ys, c, _, _, hl, _, hle => by
    have : ys = [] := List.length_eq_zero_iff.mp (Nat.le_zero.mp hl)
    subst this
    simp [subLoop, toNat] at *
    exact dOk_nil
  | x :: xs, ys, c, hx, hy, hl, hc, hle => by
    have ⟨hx0, hxs⟩ := dOk_cons.mp hx
    have key : ∀ (y : Nat) (ys' : List Nat), y < 10 → DOk ys' → ys'.length ≤ xs.length →
        y + 10 * toNat ys' + c ≤ x + 10 * toNat xs →
        toNat (if (y : Int) > (x : Int) - (c : Int) then ((10 + x - c - y) % 256 :: (subLoop xs ys' 1).1, (subLoop xs ys' 1).2)
               else ((x - c - y) :: (subLoop xs ys' 0).1, (subLoop xs ys' 0).2)).1
          = x + 10 * toNat xs - (y + 10 * toNat ys') - c ∧
        DOk (if (y : Int) > (x : Int) - (c : Int) then ((10 + x - c - y) % 256 :: (subLoop xs ys' 1).1, (subLoop xs ys' 1).2)
               else ((x - c - y) :: (subLoop xs ys' 0).1, (subLoop xs ys' 0).2)).1 ∧
        (if (y : Int) > (x : Int) - (c : Int) then ((10 + x - c - y) % 256 :: (subLoop xs ys' 1).1, (subLoop xs ys' 1).2)
               else ((x - c - y) :: (subLoop xs ys' 0).1, (subLoop xs ys' 0).2)).1.length = xs.length + 1 := by
      intro y ys' hy0 hys' hl' hle'
      by_cases hb : (y : Int) > (x : Int) - (c : Int)
      · have hb' : y + c > x := by omega
        have ih := subLoop_spec xs ys' 1 hxs hys' hl' (by omega) (by omega)
        simp only [hb, if_true, toNat, ih.1]
        have hm : (10 + x - c - y) % 256 = 10 + x - c - y := Nat.mod_eq_of_lt (by omega)
        rw [hm]
        exact ⟨by omega, dOk_cons.mpr ⟨by omega, ih.2.1⟩, by simp [ih.2.2]⟩
      · have hb' : y + c ≤ x := by omega
        have ih := subLoop_spec xs ys' 0 hxs hys' hl' (by omega) (by omega)
        simp only [hb, if_false, toNat, ih.1]
        exact ⟨by omega, dOk_cons.mpr ⟨by omega, ih.2.1⟩, by simp [ih.2.2]⟩
    cases ys with
    | nil =>
      have := key 0 [] (by decide) dOk_nil (by simp) (by simpa [toNat] using hle)
      simpa [subLoop, toNat] using this
    | cons y ys =>
      have ⟨hy0, hys⟩ := dOk_cons.mp hy
      have := key y ys hy0 hys (by simpa using hl) (by simpa [toNat] using hle)
      simpa [subLoop, toNat] using this

/-! ### value ↔ shape -/

theorem all_zero_iff : ∀ (l : List Nat), l.all (· == 0) = true ↔ toNat l = 0
  | [] => by simp [toNat]
  | x :: xs => by
    have ih := all_zero_iff xs
    simp only [List.all_cons, Bool.and_eq_true, beq_iff_eq, toNat, ih]
    omega

theorem unpadded_of_ge {l : List Nat} (hl : DOk l) (hne : l ≠ [])
    (h : l.length ≥ 2 → 10 ^ (l.length - 1) ≤ toNat l) : Unpadded l := by
  refine ⟨hne, ?_⟩
  by_cases h1 : l.length = 1
  · left; exact h1
  · right
    intro hlast
    obtain ⟨l', rfl⟩ : ∃ l', l = l' ++ [0] := by
      rcases List.eq_nil_or_concat l with rfl | ⟨l', a, rfl⟩
      · simp at hlast
      · simp at hlast; subst hlast; exact ⟨l', by simp⟩
    have hlen : (l' ++ [0]).length ≥ 2 := by
      have : 0 < (l' ++ [0]).length := by simp
      omega
    have h2 := h hlen
    rw [toNat_append] at h2
    simp [toNat] at h2
    have hl' : DOk l' := fun x hx => hl x (List.mem_append_left _ hx)
    have := toNat_lt hl'
    omega

theorem addLoop_length : ∀ (xs ys : List Nat) (c : Nat), DOk xs → DOk ys → ys.length ≤ xs.length → c ≤ 1 →
    (addLoop xs ys c).length = if toNat xs + toNat ys + c < 10 ^ xs.length then xs.length else xs.length + 1
  | [], ys, c, _, _, hl, hc => by
    have : ys = [] := List.length_eq_zero_iff.mp (Nat.le_zero.mp hl)
    subst this
    by_cases h0 : c = 0
    · simp [addLoop, h0, toNat]
    · have : c = 1 := by omega
      simp [addLoop, this, toNat]
  | x :: xs, ys, c, hx, hy, hl, hc => by
    have ⟨hx0, hxs⟩ := dOk_cons.mp hx
    have key : ∀ (y : Nat) (ys' : List Nat), y < 10 → DOk ys' → ys'.length ≤ xs.length →
        (if x + y + c > 9 then (x + y + c - 10) :: addLoop xs ys' 1 else (x + y + c) :: addLoop xs ys' 0).length
          = if x + 10 * toNat xs + (y + 10 * toNat ys') + c < 10 ^ (xs.length + 1) then xs.length + 1 else xs.length + 1 + 1 := by
      intro y ys' hy0 hys' hl'
      by_cases h9 : x + y + c > 9
      · have ih := addLoop_length xs ys' 1 hxs hys' hl' (by omega)
        simp only [h9, if_true, List.length_cons, ih, pow_succ]
        by_cases hz : toNat xs + toNat ys' + 1 < 10 ^ xs.length
        · have : x + 10 * toNat xs + (y + 10 * toNat ys') + c < 10 ^ xs.length * 10 := by omega
          simp [hz, this]
        · have : ¬ (x + 10 * toNat xs + (y + 10 * toNat ys') + c < 10 ^ xs.length * 10) := by omega
          simp [hz, this]
      · have ih := addLoop_length xs ys' 0 hxs hys' hl' (by omega)
        simp only [h9, if_false, List.length_cons, ih, pow_succ]
        by_cases hz : toNat xs + toNat ys' + 0 < 10 ^ xs.length
        · have : x + 10 * toNat xs + (y + 10 * toNat ys') + c < 10 ^ xs.length * 10 := by omega
          simp only [hz, this, if_true]
        · have : ¬ (x + 10 * toNat xs + (y + 10 * toNat ys') + c < 10 ^ xs.length * 10) := by omega
          simp only [hz, this, if_false]
    cases ys with
    | nil =>
      have := key 0 [] (by decide) dOk_nil (by simp)
      simp only [addLoop, List.headD_nil, List.tail_nil, toNat, List.length_cons, Nat.mul_zero, Nat.add_zero] at this ⊢
      exact this
    | cons y ys =>
      have ⟨hy0, hys⟩ := dOk_cons.mp hy
      have := key y ys hy0 hys (by simpa using hl)
      simp only [addLoop, List.headD_cons, List.tail_cons, toNat, List.length_cons] at this ⊢
      exact this

theorem toNat_ge_of_canon {l : List Nat} (h : Unpadded l) (h2 : l.length ≥ 2) : 10 ^ (l.length - 1) ≤ toNat l := by
  rcases h.2 with h1 | h1
  · omega
  · exact toNat_ge_of_unpadded l h2 h1

/-- same-sign `+=` on canonical operands leaves a canonical object. -/
theorem addCore_canon {x r : ED} (hx : ECanon x) (hr : ECanon r) : ECanon (addCore x r) := by
  have hs := addCore_spec hx.1 hr.1
  refine ⟨hs.2.1, ?_⟩
  have hlen := addLoop_length (padTo (max x.d.length r.d.length) x.d) (padTo (max x.d.length r.d.length) r.d) 0
    (dOk_padTo hx.1) (dOk_padTo hr.1) (by rw [length_padTo, length_padTo]; omega) (by omega)
  rw [toNat_padTo, toNat_padTo, length_padTo] at hlen
  have hd : (addCore x r).d = addLoop (padTo (max x.d.length r.d.length) x.d) (padTo (max x.d.length r.d.length) r.d) 0 := rfl
  have hxl : 0 < x.d.length := List.length_pos_iff.mpr hx.2.1
  have hne : (addCore x r).d ≠ [] := by
    intro h0
    have : (addCore x r).d.length = 0 := by rw [h0]; rfl
    rw [hd, hlen] at this
    split at this <;> omega
  apply unpadded_of_ge hs.2.1 hne
  intro h2
  rw [hs.1]
  rw [hd, hlen] at h2 ⊢
  simp only [Nat.add_zero] at h2 ⊢
  split
  · rename_i hlt
    simp only [hlt, if_true] at h2
    by_cases hxl2 : r.d.length ≤ x.d.length
    · have e : max (max x.d.length r.d.length) x.d.length = x.d.length := by omega
      rw [e] at h2 ⊢
      have := toNat_ge_of_canon hx.2 h2
      omega
    · have e : max (max x.d.length r.d.length) x.d.length = r.d.length := by omega
      rw [e] at h2 ⊢
      have := toNat_ge_of_canon hr.2 h2
      omega
  · rename_i hge
    simp only [Nat.add_sub_cancel]
    omega

/-- same-sign branch of `operator-=` on canonical operands: the difference with its sign, canonical. -/
theorem subCore_spec {x r : ED} (hx : ECanon x) (hr : ECanon r) (hs : x.neg = r.neg) :
    toInt (subCore x r) = toInt x - toInt r ∧ ECanon (subCore x r) := by
  have hxne := hx.2.1
  have hrne := hr.2.1
  -- the three-way choice of (minuend, subtrahend, sign)
  have hchoice : ∃ (a b : List Nat) (sg : Bool),
      (subCore x r) = (if (unpad (subLoop a b 0).1).all (· == 0) then { neg := false, d := unpad (subLoop a b 0).1 }
                        else { neg := sg, d := unpad (subLoop a b 0).1 }) ∧
      DOk a ∧ DOk b ∧ b.length ≤ a.length ∧ a ≠ [] ∧
      ((toNat a = toNat x.d ∧ toNat b = toNat r.d ∧ sg = x.neg ∧ toNat r.d ≤ toNat x.d) ∨
       (toNat a = toNat r.d ∧ toNat b = toNat x.d ∧ sg = !x.neg ∧ toNat x.d < toNat r.d)) := by
    unfold subCore
    by_cases h1 : x.d.length < r.d.length
    · refine ⟨r.d, padTo r.d.length x.d, !x.neg, by simp [h1], hr.1, dOk_padTo hx.1, by rw [length_padTo]; omega, hrne, Or.inr ?_⟩
      exact ⟨rfl, toNat_padTo _ _, rfl, toNat_lt_of_length_lt hx.1 hxne hr.2 h1⟩
    · by_cases h2 : r.d.length < x.d.length
      · refine ⟨x.d, padTo x.d.length r.d, x.neg, by simp [h1, h2], hx.1, dOk_padTo hr.1, by rw [length_padTo]; omega, hxne, Or.inl ?_⟩
        exact ⟨rfl, toNat_padTo _ _, rfl, Nat.le_of_lt (toNat_lt_of_length_lt hr.1 hrne hx.2 h2)⟩
      · have hl : x.d.length = r.d.length := by omega
        have hc := cmpLE_spec x.d r.d hl hx.1 hr.1
        have hlt : lt { neg := false, d := x.d } { neg := false, d := r.d } = decide (toNat x.d < toNat r.d) := by
          unfold lt
          simp only [bne_self_eq_false, Bool.false_eq_true, if_false, hl, Nat.lt_irrefl, gt_iff_lt, Bool.not_false]
          rw [hc]
          rcases Nat.lt_trichotomy (toNat x.d) (toNat r.d) with h | h | h
          · rw [Nat.compare_eq_lt.mpr h]; simp [h]
          · rw [Nat.compare_eq_eq.mpr h]; simp [h]
          · rw [Nat.compare_eq_gt.mpr h]
            have : ¬ toNat x.d < toNat r.d := by omega
            simp [this]
        by_cases h3 : toNat x.d < toNat r.d
        · refine ⟨r.d, x.d, !x.neg, by simp [h1, h2, hlt, h3], hr.1, hx.1, by omega, hrne, Or.inr ⟨rfl, rfl, rfl, h3⟩⟩
        · refine ⟨x.d, r.d, x.neg, by simp [h1, h2, hlt, h3], hx.1, hr.1, by omega, hxne, Or.inl ⟨rfl, rfl, rfl, by omega⟩⟩
  obtain ⟨a, b, sg, heq, ha, hb, hlen, hane, hcase⟩ := hchoice
  have hle : toNat b + 0 ≤ toNat a := by rcases hcase with h | h <;> omega
  obtain ⟨s1, s2, s3⟩ := subLoop_spec a b 0 ha hb hlen (by omega) hle
  have hresne : (subLoop a b 0).1 ≠ [] := by
    intro h0; rw [h0] at s3; simp at s3
    exact hane (List.length_eq_zero_iff.mp s3.symm)
  have hcan : DOk (unpad (subLoop a b 0).1) ∧ Unpadded (unpad (subLoop a b 0).1) := ⟨dOk_unpad s2, unpadded_unpad hresne⟩
  have hval : toNat (unpad (subLoop a b 0).1) = toNat a - toNat b := by rw [toNat_unpad, s1]; omega
  rw [heq]
  by_cases hz : (unpad (subLoop a b 0).1).all (· == 0) = true
  · simp only [hz, if_true]
    refine ⟨?_, hcan⟩
    have h0 := (all_zero_iff _).mp hz
    rw [hval] at h0
    simp only [toInt, Bool.false_eq_true, if_false, hval, h0, hs]
    rcases hcase with ⟨e1, e2, _, hle'⟩ | ⟨e1, e2, _, hlt'⟩
    · have : toNat x.d = toNat r.d := by omega
      split <;> simp [this]
    · omega
  · simp only [hz, Bool.false_eq_true, if_false]
    refine ⟨?_, hcan⟩
    simp only [toInt, hval, ← hs]
    rcases hcase with ⟨e1, e2, e3, hle'⟩ | ⟨e1, e2, e3, hlt'⟩
    · subst e3; rw [e1, e2]
      cases x.neg <;> simp <;> omega
    · subst e3; rw [e1, e2]
      cases x.neg <;> simp <;> omega

end UVerif.EDec
