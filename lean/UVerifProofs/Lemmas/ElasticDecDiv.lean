/-
  edecimal long division (`decint_divide` with `findLargestMultiple`): values of quotient and remainder.
-/
import UVerifProofs.Lemmas.ElasticDecOps

namespace UVerif.EDec

/-- no negative zero -/
def NZ (x : ED) : Prop := ¬ (x.neg = true ∧ toNat x.d = 0)

theorem nz_of_nonneg {x : ED} (h : x.neg = false) : NZ x := by
  intro ⟨h1, _⟩; rw [h] at h1; cases h1

theorem nz_zero : NZ zero := nz_of_nonneg rfl

theorem toInt_nonneg_of {x : ED} (h : x.neg = false) : toInt x = (toNat x.d : Int) := by simp [toInt, h]

/-! ### order on canonical objects -/

theorem toNat_inj_len : ∀ (a b : List Nat), a.length = b.length → DOk a → DOk b → toNat a = toNat b → a = b
  | [], [], _, _, _, _ => rfl
  | [], _ :: _, h, _, _, _ => by simp at h
  | _ :: _, [], h, _, _, _ => by simp at h
  | x :: xs, y :: ys, h, ha, hb, he => by
    have ⟨hx, hxs⟩ := dOk_cons.mp ha
    have ⟨hy, hys⟩ := dOk_cons.mp hb
    simp only [toNat] at he
    have h1 : x = y := by omega
    subst h1
    have h2 : toNat xs = toNat ys := by omega
    rw [toNat_inj_len xs ys (by simpa using h) hxs hys h2]

theorem toNat_inj_canon {a b : List Nat} (ha : DOk a) (hb : DOk b) (hua : Unpadded a) (hub : Unpadded b)
    (he : toNat a = toNat b) : a = b := by
  have hl : a.length = b.length := by
    by_contra hne
    rcases Nat.lt_or_gt_of_ne hne with h | h
    · have := toNat_lt_of_length_lt ha hua.1 hub h; omega
    · have := toNat_lt_of_length_lt hb hub.1 hua h; omega
  exact toNat_inj_len a b hl ha hb he

/-- magnitude comparison as `operator<` performs it on equal signs -/
theorem magLt_spec {a b : List Nat} (ha : DOk a) (hb : DOk b) (hua : Unpadded a) (hub : Unpadded b) :
    (if a.length < b.length then true else if a.length > b.length then false
      else match cmpLE a b with | .lt => true | .gt => false | .eq => false) = decide (toNat a < toNat b) := by
  by_cases h1 : a.length < b.length
  · have := toNat_lt_of_length_lt ha hua.1 hub h1
    simp [h1, this]
  · by_cases h2 : a.length > b.length
    · have := toNat_lt_of_length_lt hb hub.1 hua h2
      have h3 : ¬ toNat a < toNat b := by omega
      simp [h1, h2, h3]
    · have hl : a.length = b.length := by omega
      simp only [h1, h2, if_false]
      rw [cmpLE_spec a b hl ha hb]
      rcases Nat.lt_trichotomy (toNat a) (toNat b) with h | h | h
      · rw [Nat.compare_eq_lt.mpr h]; simp [h]
      · rw [Nat.compare_eq_eq.mpr h]; simp [h]
      · rw [Nat.compare_eq_gt.mpr h]
        have : ¬ toNat a < toNat b := by omega
        simp [this]

/-- `operator<` is the integer order on canonical objects without a negative zero. -/
theorem lt_spec {a b : ED} (ha : ECanon a) (hb : ECanon b) (hna : NZ a) (hnb : NZ b) :
    lt a b = decide (toInt a < toInt b) := by
  unfold lt
  cases han : a.neg <;> cases hbn : b.neg
  · -- both non-negative
    have h := magLt_spec ha.1 hb.1 ha.2 hb.2
    simp only [bne_self_eq_false, Bool.false_eq_true, if_false, Bool.not_false]
    simp only [toInt, han, hbn, Bool.false_eq_true, if_false]
    by_cases h1 : a.d.length < b.d.length
    · simp only [h1, if_true] at h ⊢
      rw [h]; simp
    · by_cases h2 : a.d.length > b.d.length
      · simp only [h1, h2, if_false, if_true] at h ⊢
        rw [h]; simp
      · simp only [h1, h2, if_false] at h ⊢
        cases hc : cmpLE a.d b.d <;> rw [hc] at h <;> simp only [] at h ⊢ <;> rw [h] <;> simp
  · -- a ≥ 0 > b  (b is a non-zero negative)
    have hb0 : toNat b.d ≠ 0 := fun h0 => hnb ⟨hbn, h0⟩
    simp [toInt, han, hbn]
  · have ha0 : toNat a.d ≠ 0 := fun h0 => hna ⟨han, h0⟩
    simp [toInt, han, hbn]
    omega
  · -- both negative: the magnitude order is reversed
    have h := magLt_spec hb.1 ha.1 hb.2 ha.2
    simp only [bne_self_eq_false, Bool.false_eq_true, if_false, Bool.not_true]
    simp only [toInt, han, hbn, if_true]
    by_cases h1 : a.d.length < b.d.length
    · have h2 : ¬ b.d.length < a.d.length := by omega
      have h3 : b.d.length > a.d.length := h1
      simp only [h1, if_true]
      simp only [h2, h3, if_false, if_true] at h
      have : ¬ toNat b.d < toNat a.d := by simpa using h.symm
      symm; apply decide_eq_false; omega
    · by_cases h2 : a.d.length > b.d.length
      · have h3 : b.d.length < a.d.length := h2
        simp only [h1, h2, if_false, if_true]
        simp only [h3, if_true] at h
        have : toNat b.d < toNat a.d := by simpa using h.symm
        symm; apply decide_eq_true; omega
      · have hl : a.d.length = b.d.length := by omega
        have h3 : ¬ b.d.length < a.d.length := by omega
        have h4 : ¬ b.d.length > a.d.length := by omega
        simp only [h1, h2, if_false]
        simp only [h3, h4, if_false] at h
        have hc := cmpLE_spec a.d b.d hl ha.1 hb.1
        have hc' := cmpLE_spec b.d a.d hl.symm hb.1 ha.1
        rcases Nat.lt_trichotomy (toNat a.d) (toNat b.d) with hlt | heq | hgt
        · rw [hc, Nat.compare_eq_lt.mpr hlt]
          symm; apply decide_eq_false; omega
        · rw [hc, Nat.compare_eq_eq.mpr heq]
          symm; apply decide_eq_false; omega
        · rw [hc, Nat.compare_eq_gt.mpr hgt]
          symm; apply decide_eq_true; omega

/-- `operator==` is integer equality on canonical objects without a negative zero. -/
theorem eq_spec {a b : ED} (ha : ECanon a) (hb : ECanon b) (hna : NZ a) (hnb : NZ b) :
    eq a b = decide (toInt a = toInt b) := by
  unfold eq
  by_cases hd : a.d = b.d
  · by_cases hn : a.neg = b.neg
    · have : toInt a = toInt b := by simp [toInt, hd, hn]
      simp [hd, hn, this]
    · have hv : toNat a.d = toNat b.d := by rw [hd]
      have : toInt a ≠ toInt b := by
        cases han : a.neg <;> cases hbn : b.neg <;> simp_all [toInt, NZ]
      simp [hd, hn, this]
  · have hv : toNat a.d ≠ toNat b.d := fun he => hd (toNat_inj_canon ha.1 hb.1 ha.2 hb.2 he)
    have : toInt a ≠ toInt b := by
      cases han : a.neg <;> cases hbn : b.neg <;> simp_all [toInt, NZ]
    have hdd : (a.d == b.d) = false := by simpa using hd
    simp [hdd, this]

/-! ### no negative zero is produced by + and - -/

theorem nz_ite (res : List Nat) (sg : Bool) :
    NZ (if res.all (· == 0) then ({ neg := false, d := res } : ED) else { neg := sg, d := res }) := by
  by_cases h : res.all (· == 0) = true
  · simp only [h, if_true]; exact nz_of_nonneg rfl
  · simp only [h, Bool.false_eq_true, if_false]
    intro ⟨_, h2⟩; exact h ((all_zero_iff _).mpr h2)

theorem subCore_nz {x r : ED} : NZ (subCore x r) := by
  unfold subCore; exact nz_ite _ _

theorem addCore_nz {x r : ED} (hx : DOk x.d) (hr : DOk r.d) (hn : NZ x) : NZ (addCore x r) := by
  have h := addCore_spec hx hr
  intro ⟨h1, h2⟩
  rw [h.2.2] at h1
  rw [h.1] at h2
  exact hn ⟨h1, by omega⟩

theorem add_nz {x r : ED} (hx : ECanon x) (hr : ECanon r) (hn : NZ x) : NZ (add x r) := by
  unfold add
  split
  · exact subCore_nz
  · exact addCore_nz hx.1 hr.1 hn

theorem sub_nz {x r : ED} (hx : ECanon x) (hr : ECanon r) (hn : NZ x) : NZ (sub x r) := by
  unfold sub
  split
  · exact addCore_nz hx.1 hr.1 hn
  · exact subCore_nz

theorem ecanon_ofDigit {v : Nat} (h : v < 10) : ECanon (ofDigit v) := by
  refine ⟨?_, by simp [ofDigit], Or.inl rfl⟩
  intro d hd; simp [ofDigit] at hd; omega

theorem toInt_ofDigit (v : Nat) : toInt (ofDigit v) = v := by simp [toInt, ofDigit, toNat]

theorem toInt_zero : toInt zero = 0 := by simp [toInt, zero, toNat]

/-! ### findLargestMultiple -/

/-- the subtract-and-count loop: with `-S < R ≤ (fuel-1)·S` it returns `m ≥ 0` with `m·S ≤ R + t·S < (m+1)·S`. -/
theorem flmLoop_spec (rhs : ED) (hrhs : ECanon rhs) (S : Int) (hS : toInt rhs = S) (hSpos : 0 < S) :
    ∀ (fuel : Nat) (rem mult : ED) (t : Int), ECanon rem → NZ rem → ECanon mult → NZ mult → toInt mult = t → 0 ≤ t →
      -S < toInt rem → toInt rem ≤ ((fuel : Int) - 1) * S → 0 ≤ toInt rem + t * S →
      ∃ m : Int, toInt (flmLoop rhs fuel rem mult) = m ∧ 0 ≤ m ∧ m * S ≤ toInt rem + t * S ∧
        toInt rem + t * S < (m + 1) * S ∧ ECanon (flmLoop rhs fuel rem mult) ∧ NZ (flmLoop rhs fuel rem mult)
  | 0, rem, mult, t, _, _, hm, hmz, ht, ht0, hlo, hhi, hA => by
    -- fuel 0 forces rem ≤ -S: impossible
    simp at hhi; omega
  | fuel + 1, rem, mult, t, hr, hrz, hm, hmz, ht, ht0, hlo, hhi, hA => by
    simp only [flmLoop]
    rw [lt_spec ecanon_zero hr nz_zero hrz, lt_spec hr ecanon_zero hrz nz_zero, toInt_zero]
    by_cases hpos : 0 < toInt rem
    · simp only [hpos, decide_true, if_true]
      have hs := sub_spec hr hrhs
      have ha := add_spec hm (ecanon_ofDigit (v := 1) (by decide))
      have ih := flmLoop_spec rhs hrhs S hS hSpos fuel (sub rem rhs) (add mult (ofDigit 1)) (t + 1)
        hs.2 (sub_nz hr hrhs hrz) ha.2 (add_nz hm (ecanon_ofDigit (by decide)) hmz)
        (by rw [ha.1, ht, toInt_ofDigit]; rfl) (by omega)
        (by rw [hs.1, hS]; omega)
        (by rw [hs.1, hS]; push_cast at hhi ⊢; linarith)
        (by rw [hs.1, hS]; linarith)
      obtain ⟨m, h1, h2, h3, h4, h5, h6⟩ := ih
      refine ⟨m, h1, h2, ?_, ?_, h5, h6⟩
      · rw [hs.1, hS] at h3; linarith
      · rw [hs.1, hS] at h4; linarith
    · simp only [hpos, decide_false, Bool.false_eq_true, if_false]
      by_cases hneg : toInt rem < 0
      · simp only [hneg, decide_true, if_true]
        have hs := sub_spec hm (ecanon_ofDigit (v := 1) (by decide))
        refine ⟨t - 1, by rw [hs.1, ht, toInt_ofDigit]; rfl, ?_, ?_, ?_, hs.2, sub_nz hm (ecanon_ofDigit (by decide)) hmz⟩
        · -- t ≥ 1 because rem + t·S ≥ 0 with rem < 0
          by_contra hc
          have : t = 0 := by omega
          subst this; omega
        · nlinarith
        · nlinarith
      · simp only [hneg, decide_false, Bool.false_eq_true, if_false]
        have h0 : toInt rem = 0 := by omega
        refine ⟨t, ht, ht0, ?_, ?_, hm, hmz⟩
        · rw [h0]; linarith
        · rw [h0]; linarith

theorem findLargestMultiple_spec {lhs rhs : ED} (hl : ECanon lhs) (hr : ECanon rhs) (hrn : rhs.neg = false)
    (hrpos : 0 < toNat rhs.d) (hbound : toNat lhs.d < 10 * toNat rhs.d) :
    ∃ m : Nat, toInt (findLargestMultiple lhs rhs) = m ∧ m * toNat rhs.d ≤ toNat lhs.d ∧
      toNat lhs.d < (m + 1) * toNat rhs.d ∧ ECanon (findLargestMultiple lhs rhs) := by
  unfold findLargestMultiple
  have hS : toInt rhs = (toNat rhs.d : Int) := toInt_nonneg_of hrn
  have hlc : ECanon { lhs with neg := false } := hl
  have hlv : toInt { lhs with neg := false } = (toNat lhs.d : Int) := by simp [toInt]
  obtain ⟨m, h1, h2, h3, h4, h5, _⟩ := flmLoop_spec rhs hr (toNat rhs.d) hS (by exact_mod_cast hrpos) 12
    { lhs with neg := false } (ofDigit 0) 0 hlc (nz_of_nonneg rfl) (ecanon_ofDigit (by decide)) (nz_of_nonneg rfl)
    (by rw [toInt_ofDigit]; rfl) (le_refl _)
    (by rw [hlv]; have : (0:Int) < toNat rhs.d := by exact_mod_cast hrpos
        linarith [Int.natCast_nonneg (toNat lhs.d)])
    (by rw [hlv]; push_cast; have : (toNat lhs.d : Int) < 10 * toNat rhs.d := by exact_mod_cast hbound
        linarith)
    (by rw [hlv]; simp)
  rw [hlv] at h3 h4
  simp only [Int.zero_mul, Int.add_zero] at h3 h4
  refine ⟨m.toNat, by rw [h1]; exact (Int.toNat_of_nonneg h2).symm, ?_, ?_, h5⟩
  · have : ((m.toNat * toNat rhs.d : Nat) : Int) ≤ toNat lhs.d := by
      push_cast; rw [Int.toNat_of_nonneg h2]; exact h3
    exact_mod_cast this
  · have : (toNat lhs.d : Int) < ((m.toNat + 1) * toNat rhs.d : Nat) := by
      push_cast; rw [Int.toNat_of_nonneg h2]; exact h4
    exact_mod_cast this

/-! ### the long-division loop -/

theorem last_ne_zero_of_pos {b : List Nat} (hb : Unpadded b) (hpos : 0 < toNat b) : b.getLast? ≠ some 0 := by
  rcases hb.2 with h | h
  · obtain ⟨v, rfl⟩ := List.length_eq_one_iff.mp h
    simp [toNat] at hpos ⊢; omega
  · exact h

theorem ecanon_shifted {b : List Nat} (hb : DOk b) (hub : Unpadded b) (hpos : 0 < toNat b) (i : Nat) :
    ECanon { neg := false, d := List.replicate i 0 ++ b } ∧ toNat (List.replicate i 0 ++ b) = toNat b * 10 ^ i := by
  refine ⟨⟨?_, ?_, ?_⟩, ?_⟩
  · intro d hd
    rcases List.mem_append.mp hd with hd | hd
    · rw [(List.mem_replicate.mp hd).2]; decide
    · exact hb d hd
  · simp; intro _; exact hub.1
  · right
    have : (List.replicate i 0 ++ b).getLast? = b.getLast? := by
      rw [List.getLast?_append]
      cases hbl : b.getLast? with
      | none => simp at hbl; exact absurd hbl hub.1
      | some v => simp
    simp only [this]
    exact last_ne_zero_of_pos hub hpos
  · rw [toNat_append, toNat_replicate_zero]; simp; ring

theorem neg_false_of_nonneg {x : ED} (hnz : NZ x) (h : 0 ≤ toInt x) : x.neg = false := by
  cases hx : x.neg with
  | false => rfl
  | true =>
    exfalso
    apply hnz
    refine ⟨hx, ?_⟩
    simp [toInt, hx] at h
    omega

theorem le_spec {a b : ED} (ha : ECanon a) (hb : ECanon b) (hna : NZ a) (hnb : NZ b) :
    le a b = decide (toInt a ≤ toInt b) := by
  unfold le
  rw [lt_spec ha hb hna hnb, eq_spec ha hb hna hnb]
  by_cases h1 : toInt a < toInt b
  · have : toInt a ≤ toInt b := by omega
    simp [h1, this]
  · by_cases h2 : toInt a = toInt b
    · simp [h2]
    · have : ¬ toInt a ≤ toInt b := by omega
      simp [h1, h2, this]

theorem divLoop_succ (fuel : Nat) (st : DivSt) :
    divLoop (fuel + 1) st =
      if st.stop then st
      else
        divLoop fuel
          { (if le st.sub st.acc then
              { st with acc := sub st.acc (mul (findLargestMultiple st.acc st.sub) st.sub),
                        quot := toSmall (findLargestMultiple st.acc st.sub) :: st.quot }
             else { st with quot := 0 :: st.quot }) with
            sub := shr (if le st.sub st.acc then
              { st with acc := sub st.acc (mul (findLargestMultiple st.acc st.sub) st.sub),
                        quot := toSmall (findLargestMultiple st.acc st.sub) :: st.quot }
             else { st with quot := 0 :: st.quot }).sub 1,
            stop := eq (shr (if le st.sub st.acc then
              { st with acc := sub st.acc (mul (findLargestMultiple st.acc st.sub) st.sub),
                        quot := toSmall (findLargestMultiple st.acc st.sub) :: st.quot }
             else { st with quot := 0 :: st.quot }).sub 1) zero } := by
  rfl

/-- invariant of `divLoop` with `i+1` iterations to go -/
structure DivInv (A Bv : Nat) (b : List Nat) (i : Nat) (st : DivSt) : Prop where
  stop : st.stop = false
  accC : ECanon st.acc
  accN : st.acc.neg = false
  subE : st.sub = { neg := false, d := List.replicate i 0 ++ b }
  bound : toNat st.acc.d < Bv * 10 ^ (i + 1)
  total : A = toNat st.quot * (Bv * 10 ^ (i + 1)) + toNat st.acc.d
  quotD : DOk st.quot
  quotNe : st.quot ≠ []

theorem divLoop_spec (A Bv : Nat) (b : List Nat) (hb : DOk b) (hub : Unpadded b) (hBv : toNat b = Bv) (hpos : 0 < Bv) :
    ∀ (i : Nat) (st : DivSt), DivInv A Bv b i st →
      ECanon (divLoop (i + 1) st).acc ∧ (divLoop (i + 1) st).acc.neg = false ∧
      toNat (divLoop (i + 1) st).acc.d < Bv ∧
      A = toNat (divLoop (i + 1) st).quot * Bv + toNat (divLoop (i + 1) st).acc.d ∧
      DOk (divLoop (i + 1) st).quot ∧ (divLoop (i + 1) st).quot ≠ [] := by
  intro i
  induction i with
  | zero =>
    intro st inv
    -- one iteration, then fuel 0
    obtain ⟨hstop, hacc, haccn, hsub, hbound, htotal, hqd, hqne⟩ := inv
    have hsh := ecanon_shifted hb hub (by omega : 0 < toNat b) 0
    have hsubC : ECanon st.sub := by rw [hsub]; exact hsh.1
    have hsubV : toNat st.sub.d = Bv := by rw [hsub]; simp [hBv]
    have hsubN : st.sub.neg = false := by rw [hsub]
    simp only [divLoop, hstop, Bool.false_eq_true, if_false]
    rw [le_spec hsubC hacc (nz_of_nonneg hsubN) (nz_of_nonneg haccn), toInt_nonneg_of hsubN, toInt_nonneg_of haccn, hsubV]
    simp only [pow_one, Nat.zero_add] at hbound htotal
    by_cases hle : (Bv : Int) ≤ toNat st.acc.d
    · simp only [hle, decide_true, if_true]
      obtain ⟨m, f1, f2, f3, f4⟩ := findLargestMultiple_spec hacc hsubC hsubN (by omega) (by rw [hsubV]; omega)
      rw [hsubV] at f2 f3
      have hmul := mul_spec f4 hsubC
      have hsb := sub_spec hacc hmul.2
      have hv : toInt (sub st.acc (mul (findLargestMultiple st.acc st.sub) st.sub)) = (toNat st.acc.d : Int) - m * Bv := by
        rw [hsb.1, hmul.1, f1, toInt_nonneg_of haccn, toInt_nonneg_of hsubN, hsubV]
      have hnn : 0 ≤ toInt (sub st.acc (mul (findLargestMultiple st.acc st.sub) st.sub)) := by
        rw [hv]; have : ((m * Bv : Nat) : Int) ≤ toNat st.acc.d := by exact_mod_cast f2
        push_cast at this; linarith
      have hneg := neg_false_of_nonneg (sub_nz hacc hmul.2 (nz_of_nonneg haccn)) hnn
      have hval : (toNat (sub st.acc (mul (findLargestMultiple st.acc st.sub) st.sub)).d : Int) = (toNat st.acc.d : Int) - m * Bv := by
        rw [← toInt_nonneg_of hneg, hv]
      have hsm : toSmall (findLargestMultiple st.acc st.sub) = m := by
        simp only [toSmall, f1]
        have hm9 : m ≤ 9 := by
          by_contra hc
          have : 10 * Bv ≤ m * Bv := Nat.mul_le_mul_right _ (by omega)
          omega
        have : ((m : Int) % 256) = m := by omega
        rw [this]; simp
      have hm9' : m ≤ 9 := by
        by_contra hc
        have : 10 * Bv ≤ m * Bv := Nat.mul_le_mul_right _ (by omega)
        omega
      refine ⟨hsb.2, hneg, ?_, ?_, by rw [hsm]; exact dOk_cons.mpr ⟨by omega, hqd⟩, by simp⟩
      · have : (toNat (sub st.acc (mul (findLargestMultiple st.acc st.sub) st.sub)).d : Int) < Bv := by
          rw [hval]; have : (toNat st.acc.d : Int) < ((m + 1) * Bv : Nat) := by exact_mod_cast f3
          push_cast at this; linarith
        exact_mod_cast this
      · simp only [hsm, toNat]
        have e : (toNat (sub st.acc (mul (findLargestMultiple st.acc st.sub) st.sub)).d : Int) + m * Bv = toNat st.acc.d := by
          rw [hval]; ring
        have e' : toNat (sub st.acc (mul (findLargestMultiple st.acc st.sub) st.sub)).d + m * Bv = toNat st.acc.d := by
          exact_mod_cast e
        rw [htotal]; nlinarith
    · simp only [hle, decide_false, Bool.false_eq_true, if_false]
      refine ⟨hacc, haccn, by omega, ?_, dOk_cons.mpr ⟨by decide, hqd⟩, by simp⟩
      simp only [toNat]
      rw [htotal]; ring
  | succ i ih =>
    intro st inv
    obtain ⟨hstop, hacc, haccn, hsub, hbound, htotal, hqd, hqne⟩ := inv
    have hsh := ecanon_shifted hb hub (by omega : 0 < toNat b) (i + 1)
    have hsubC : ECanon st.sub := by rw [hsub]; exact hsh.1
    have hsubV : toNat st.sub.d = Bv * 10 ^ (i + 1) := by rw [hsub]; simp [hsh.2, hBv]
    have hsubN : st.sub.neg = false := by rw [hsub]
    have hSpos : 0 < Bv * 10 ^ (i + 1) := Nat.mul_pos hpos (Nat.pow_pos (by decide))
    -- the next subtractand
    have hshr : ∀ (s : DivSt), s.sub = st.sub → shr s.sub 1 = { neg := false, d := List.replicate i 0 ++ b } := by
      intro s hs
      rw [hs, hsub]
      unfold shr
      have hl2 : ¬ (0 :: (List.replicate i 0 ++ b)).length ≤ 1 := by
        have : 0 < b.length := List.length_pos_iff.mpr hub.1
        simp only [List.length_cons, List.length_append, List.length_replicate]; omega
      simp only [Nat.one_ne_zero, if_false, List.replicate_succ, List.cons_append, List.drop_succ_cons, List.drop_zero, hl2]
    have hnz : eq { neg := false, d := List.replicate i 0 ++ b } zero = false := by
      unfold eq
      have hv := (ecanon_shifted hb hub (by omega : 0 < toNat b) i).2
      have : (List.replicate i 0 ++ b) ≠ [0] := by
        intro h0; rw [h0] at hv; simp [toNat] at hv
        have : 0 < toNat b * 10 ^ i := Nat.mul_pos (by omega) (Nat.pow_pos (by decide))
        omega
      have hne : ((List.replicate i 0 ++ b) == zero.d) = false := by simpa [zero] using this
      simp [hne]
    rw [divLoop_succ]
    simp only [hstop, Bool.false_eq_true, if_false]
    rw [le_spec hsubC hacc (nz_of_nonneg hsubN) (nz_of_nonneg haccn), toInt_nonneg_of hsubN, toInt_nonneg_of haccn, hsubV]
    by_cases hle : ((Bv * 10 ^ (i + 1) : Nat) : Int) ≤ toNat st.acc.d
    · simp only [hle, decide_true, if_true]
      obtain ⟨m, f1, f2, f3, f4⟩ := findLargestMultiple_spec hacc hsubC hsubN (by omega)
        (by rw [hsubV]; rw [pow_succ] at hbound; linarith)
      rw [hsubV] at f2 f3
      have hmul := mul_spec f4 hsubC
      have hsb := sub_spec hacc hmul.2
      have hv : toInt (sub st.acc (mul (findLargestMultiple st.acc st.sub) st.sub)) = (toNat st.acc.d : Int) - m * (Bv * 10 ^ (i + 1) : Nat) := by
        rw [hsb.1, hmul.1, f1, toInt_nonneg_of haccn, toInt_nonneg_of hsubN, hsubV]
      have hnn : 0 ≤ toInt (sub st.acc (mul (findLargestMultiple st.acc st.sub) st.sub)) := by
        rw [hv]; have : ((m * (Bv * 10 ^ (i + 1)) : Nat) : Int) ≤ toNat st.acc.d := by exact_mod_cast f2
        push_cast at this ⊢; linarith
      have hneg := neg_false_of_nonneg (sub_nz hacc hmul.2 (nz_of_nonneg haccn)) hnn
      have hval : (toNat (sub st.acc (mul (findLargestMultiple st.acc st.sub) st.sub)).d : Int) = (toNat st.acc.d : Int) - m * (Bv * 10 ^ (i + 1) : Nat) := by
        rw [← toInt_nonneg_of hneg, hv]
      have hval' : toNat (sub st.acc (mul (findLargestMultiple st.acc st.sub) st.sub)).d + m * (Bv * 10 ^ (i + 1)) = toNat st.acc.d := by
        have : (toNat (sub st.acc (mul (findLargestMultiple st.acc st.sub) st.sub)).d : Int) + m * (Bv * 10 ^ (i + 1) : Nat) = toNat st.acc.d := by
          rw [hval]; ring
        exact_mod_cast this
      have hsm : toSmall (findLargestMultiple st.acc st.sub) = m := by
        simp only [toSmall, f1]
        have hm9 : m ≤ 9 := by
          by_contra hc
          have : 10 * (Bv * 10 ^ (i + 1)) ≤ m * (Bv * 10 ^ (i + 1)) := Nat.mul_le_mul_right _ (by omega)
          rw [pow_succ] at hbound
          have : toNat st.acc.d < 10 * (Bv * 10 ^ (i + 1)) := by linarith
          omega
        have : ((m : Int) % 256) = m := by omega
        rw [this]; simp
      have hm9' : m ≤ 9 := by
        by_contra hc
        have : 10 * (Bv * 10 ^ (i + 1)) ≤ m * (Bv * 10 ^ (i + 1)) := Nat.mul_le_mul_right _ (by omega)
        rw [pow_succ] at hbound
        have : toNat st.acc.d < 10 * (Bv * 10 ^ (i + 1)) := by linarith
        omega
      apply ih
      refine ⟨hnz ▸ ?_, hsb.2, hneg, ?_, ?_, ?_, by rw [hsm]; exact dOk_cons.mpr ⟨by omega, hqd⟩, by simp⟩
      · rw [hshr _ rfl]
      · rw [hshr _ rfl]
      · show toNat (sub st.acc (mul (findLargestMultiple st.acc st.sub) st.sub)).d < Bv * 10 ^ (i + 1)
        have : (m + 1) * (Bv * 10 ^ (i + 1)) = m * (Bv * 10 ^ (i + 1)) + Bv * 10 ^ (i + 1) := by ring
        linarith [f3, hval', this]
      · simp only [hsm, toNat]
        rw [htotal, ← hval']
        rw [pow_succ (10) (i + 1)]; ring
    · simp only [hle, decide_false, Bool.false_eq_true, if_false]
      apply ih
      refine ⟨hnz ▸ ?_, hacc, haccn, ?_, ?_, ?_, dOk_cons.mpr ⟨by decide, hqd⟩, by simp⟩
      · rw [hshr _ rfl]
      · rw [hshr _ rfl]
      · have : (toNat st.acc.d : Int) < (Bv * 10 ^ (i + 1) : Nat) := by omega
        exact_mod_cast this
      · simp only [toNat]
        rw [htotal, pow_succ (10) (i + 1)]; ring

/-! ### decint_divide -/

/-- a natural number with a sign flag -/
def sgn (s : Bool) (n : Nat) : Int := if s then -(n : Int) else n

theorem toInt_eq_sgn (x : ED) : toInt x = sgn x.neg (toNat x.d) := rfl

theorem tdiv_sgn (sa sb : Bool) (A B : Nat) : Int.tdiv (sgn sa A) (sgn sb B) = sgn (sa != sb) (A / B) := by
  have h : Int.tdiv (A : Int) (B : Int) = ((A / B : Nat) : Int) := rfl
  cases sa <;> cases sb <;> simp [sgn, Int.neg_tdiv, Int.tdiv_neg, h]

theorem tmod_sgn (sa sb : Bool) (A B : Nat) : Int.tmod (sgn sa A) (sgn sb B) = sgn sa (A % B) := by
  have h : Int.tmod (A : Int) (B : Int) = ((A % B : Nat) : Int) := rfl
  cases sa <;> cases sb <;> simp [sgn, Int.neg_tmod, Int.tmod_neg, h]

theorem divmod_cert' {a b q r : Nat} (hb : 0 < b) (h : a = q * b + r) (hr : r < b) : a / b = q ∧ a % b = r := by
  subst h
  constructor
  · rw [Nat.add_comm, Nat.add_mul_div_right _ _ hb, Nat.div_eq_of_lt hr, Nat.zero_add]
  · rw [Nat.add_comm, Nat.add_mul_mod_self_right, Nat.mod_eq_of_lt hr]

/-- `decint_divide`: the truncating quotient and remainder as integers (the sign FLAG of a zero remainder may be
    set — that is D17 and shows only in the printed text), canonical digit vectors. -/
theorem divide_spec {x y : ED} (hx : ECanon x) (hy : ECanon y) (hnx : NZ x) (hy0 : toNat y.d ≠ 0) :
    toInt (divide x y).1 = Int.tdiv (toInt x) (toInt y) ∧ toInt (divide x y).2 = Int.tmod (toInt x) (toInt y) ∧
      ECanon (divide x y).1 ∧ ECanon (divide x y).2 ∧
      ((divide x y).1.neg = (x.neg != y.neg) ∨ (divide x y).1 = zero) ∧
      (x.neg = false → (divide x y).2.neg = false) ∧ NZ (divide x y).1 ∧ NZ (divide x y).2 := by
  have hac : ECanon { x with neg := false } := hx
  have hbc : ECanon { y with neg := false } := hy
  have hBpos : 0 < toNat y.d := Nat.pos_of_ne_zero hy0
  rw [toInt_eq_sgn x, toInt_eq_sgn y, tdiv_sgn, tmod_sgn]
  simp only [divide]
  rw [lt_spec hac hbc (nz_of_nonneg rfl) (nz_of_nonneg rfl)]
  simp only [toInt, Bool.false_eq_true, if_false]
  by_cases hlt : (toNat x.d : Int) < toNat y.d
  · have hlt' : toNat x.d < toNat y.d := by exact_mod_cast hlt
    simp only [hlt, decide_true, if_true]
    refine ⟨?_, ?_, ecanon_zero, hx, Or.inr trivial, fun h => h, nz_zero, hnx⟩
    · rw [Nat.div_eq_of_lt hlt']; simp [sgn, zero, toNat]
    · rw [Nat.mod_eq_of_lt hlt']; simp [sgn]
  · have hge : toNat y.d ≤ toNat x.d := by
      have : ¬ (toNat x.d < toNat y.d) := by intro h; exact hlt (by exact_mod_cast h)
      omega
    simp only [hlt, decide_false, Bool.false_eq_true, if_false]
    -- most significant digit positions
    have hxl : 0 < x.d.length := List.length_pos_iff.mpr hx.2.1
    have hyl : 0 < y.d.length := List.length_pos_iff.mpr hy.2.1
    have heqa : eq { x with neg := false } zero = false := by
      rw [eq_spec hac ecanon_zero (nz_of_nonneg rfl) nz_zero, toInt_zero]
      simp [toInt]; omega
    have heqb : eq { y with neg := false } zero = false := by
      rw [eq_spec hbc ecanon_zero (nz_of_nonneg rfl) nz_zero, toInt_zero]
      simp [toInt]; omega
    have hlen : y.d.length ≤ x.d.length := by
      by_contra hc
      have := toNat_lt_of_length_lt hx.1 hx.2.1 hy.2 (by omega)
      omega
    have hshift : (findMsd { x with neg := false } - findMsd { y with neg := false }).toNat = x.d.length - y.d.length := by
      simp only [findMsd, heqa, heqb, Bool.false_eq_true, and_false, if_false]
      omega
    rw [hshift]
    -- the invariant holds initially
    have hinv : DivInv (toNat x.d) (toNat y.d) y.d (x.d.length - y.d.length)
        { acc := { x with neg := false }, sub := shl { y with neg := false } (x.d.length - y.d.length), quot := [0] } := by
      refine ⟨rfl, hac, rfl, ?_, ?_, ?_, ?_, by simp⟩
      · unfold shl
        have hzb : isZero { y with neg := false } = false := by
          cases hh : isZero { y with neg := false } with
          | false => rfl
          | true => exact absurd ((isZero_iff _).mp hh) hy0
        by_cases h0 : x.d.length - y.d.length = 0
        · simp [h0]
        · simp [h0, hzb]
      · -- A < 10^la ≤ Bv * 10^(la - lb + 1)
        have h1 := toNat_lt hx.1
        have h2 : 10 ^ (y.d.length - 1) ≤ toNat y.d := by
          by_cases hl2 : y.d.length ≥ 2
          · exact toNat_ge_of_canon hy.2 hl2
          · have : y.d.length = 1 := by omega
            rw [this]; simp; omega
        have h3 : 10 ^ x.d.length = 10 ^ (y.d.length - 1) * 10 ^ (x.d.length - y.d.length + 1) := by
          rw [← pow_add]; congr 1; omega
        calc toNat x.d < 10 ^ x.d.length := h1
          _ = 10 ^ (y.d.length - 1) * 10 ^ (x.d.length - y.d.length + 1) := h3
          _ ≤ toNat y.d * 10 ^ (x.d.length - y.d.length + 1) := Nat.mul_le_mul_right _ h2
      · simp [toNat]
      · intro d hd; simp at hd; omega
    obtain ⟨r1, r2, r3, r4, r5, r6⟩ := divLoop_spec (toNat x.d) (toNat y.d) y.d hy.1 hy.2 rfl hBpos _ _ hinv
    obtain ⟨c1, c2⟩ := divmod_cert' hBpos r4 r3
    have hA : 0 < toNat x.d := by omega
    have hz : isZero (divLoop (x.d.length - y.d.length + 1)
        { acc := { x with neg := false }, sub := shl { y with neg := false } (x.d.length - y.d.length), quot := [0] }).acc
        = decide (toNat x.d % toNat y.d = 0) := by
      by_cases h0 : toNat x.d % toNat y.d = 0
      · have h0' := h0
        rw [c2] at h0; simp [(isZero_iff _).mpr h0, h0']
      · have h0' := h0
        rw [c2] at h0
        have : isZero (divLoop (x.d.length - y.d.length + 1)
            { acc := { x with neg := false }, sub := shl { y with neg := false } (x.d.length - y.d.length), quot := [0] }).acc = false := by
          cases hh : isZero _ with
          | false => rfl
          | true => exact absurd ((isZero_iff _).mp hh) h0
        simp [this, h0']
    have hlt0 : lt x zero = decide (toInt x < 0) := by rw [lt_spec hx ecanon_zero hnx nz_zero, toInt_zero]
    have hne : (divLoop (x.d.length - y.d.length + 1)
        { acc := { x with neg := false }, sub := shl { y with neg := false } (x.d.length - y.d.length), quot := [0] }).acc.d ≠ [] := r1.2.1
    have hq1 : 1 ≤ toNat x.d / toNat y.d := Nat.div_pos hge hBpos
    rw [hlt0, hz]
    refine ⟨?_, ?_, ⟨dOk_unpad r5, unpadded_unpad r6⟩, ?_, Or.inl trivial, ?_, ?_, ?_⟩
    · simp only [sgn, toNat_unpad, c1]
    · cases hxn : x.neg with
      | true =>
        have hneg : toInt x < 0 := by simp [toInt, hxn]; omega
        by_cases h0 : toNat x.d % toNat y.d = 0
        · simp only [hneg, h0, decide_true, Bool.not_true, Bool.and_false, Bool.false_eq_true, if_false]
          simp only [toInt, r2, Bool.false_eq_true, if_false, toNat_unpad, sgn, if_true, ← c2, h0]; simp
        · simp only [hneg, h0, decide_true, decide_false, Bool.not_false, Bool.and_true, if_true]
          simp only [toInt, r2, Bool.not_false, if_true, toNat_unpad, sgn, ← c2]
      | false =>
        have hneg : ¬ toInt x < 0 := by simp [toInt, hxn]
        simp only [hneg, decide_false, Bool.false_and, Bool.false_eq_true, if_false]
        simp only [toInt, r2, Bool.false_eq_true, if_false, toNat_unpad, sgn, ← c2]
    · split
      · exact ⟨dOk_unpad r1.1, unpadded_unpad hne⟩
      · exact ⟨dOk_unpad r1.1, unpadded_unpad hne⟩
    · intro hxn
      have hneg : ¬ toInt x < 0 := by simp [toInt, hxn]
      simp only [hneg, decide_false, Bool.false_and, Bool.false_eq_true, if_false, r2]
    · intro ⟨_, h2⟩
      simp only [toNat_unpad, c1] at h2
      omega
    · intro ⟨h1, h2⟩
      by_cases h0 : toNat x.d % toNat y.d = 0
      · simp only [h0, decide_true, Bool.not_true, Bool.and_false, Bool.false_eq_true, if_false, r2] at h1
      · have hr : toNat (divLoop (x.d.length - y.d.length + 1)
            { acc := { x with neg := false }, sub := shl { y with neg := false } (x.d.length - y.d.length), quot := [0] }).acc.d ≠ 0 := by
          rw [← c2]; exact h0
        split at h2
        · simp only [toNat_unpad] at h2; exact hr h2
        · simp only [toNat_unpad] at h2; exact hr h2

theorem mul_neg_or_zero (x r : ED) : (mul x r).neg = (x.neg != r.neg) ∨ mul x r = zero := by
  unfold mul
  split
  · right; rfl
  · left; rfl

/-! ### operator-() -/

theorem neg_d (x : ED) : (neg x).d = x.d := by unfold neg; split <;> rfl

theorem neg_spec (x : ED) : toInt (neg x) = -toInt x := by
  unfold neg
  by_cases hz : isZero x = true
  · have h0 := (isZero_iff x).mp hz
    simp only [hz, if_true, toInt, h0]; split <;> simp
  · simp only [hz, Bool.false_eq_true, if_false, toInt]
    by_cases h : x.neg = true <;> simp [h]

theorem ecanon_neg {x : ED} (h : ECanon x) : ECanon (neg x) := by
  unfold ECanon; rw [neg_d]; exact h

/-- negation never produces a negative zero -/
theorem neg_nz {x : ED} (h : NZ x) : NZ (neg x) := by
  unfold neg
  by_cases hz : isZero x = true
  · simp only [hz, if_true]; exact h
  · simp only [hz, Bool.false_eq_true, if_false]
    intro ⟨_, h2⟩
    exact hz ((isZero_iff x).mpr h2)

theorem neg_flag {x : ED} (h : NZ x) (hn : x.neg = true) : (neg x).neg = false := by
  unfold neg
  have hz : isZero x = false := by
    cases hh : isZero x with
    | false => rfl
    | true => exact absurd ⟨hn, (isZero_iff x).mp hh⟩ h
  simp [hz, hn]

theorem mul_nz {a b : ED} (ha : ECanon a) (hb : ECanon b) : NZ (EDec.mul a b) := by
  intro ⟨h1, h2⟩
  have hs := mul_spec ha hb
  unfold EDec.mul at h1 h2 hs
  by_cases hz : (EDec.isZero a || EDec.isZero b) = true
  · simp [hz, EDec.zero] at h1
  · simp only [hz, Bool.false_eq_true, if_false] at h1 h2 hs
    have ha0 : EDec.toNat a.d ≠ 0 := by
      intro h0; apply hz; simp [(isZero_iff a).mpr h0]
    have hb0 : EDec.toNat b.d ≠ 0 := by
      intro h0; apply hz; simp [(isZero_iff b).mpr h0]
    have e := hs.1
    have hne : EDec.toInt a * EDec.toInt b ≠ 0 := by
      apply Int.mul_ne_zero
      · unfold EDec.toInt; split <;> simp <;> omega
      · unfold EDec.toInt; split <;> simp <;> omega
    apply hne
    rw [← e]
    simp [EDec.toInt, h2]

end UVerif.EDec
