/-
  edecimal: comparisons, digit shifts, negation.
-/
import UVerifProofs.Lemmas.ElasticDecDiv
import UVerif.Spec.Elastic

namespace UVerif.EDec

/-- all six comparison operators agree with the integer order (canonical operands, no negative zero). -/
theorem cmpMask_spec {a b : ED} (ha : ECanon a) (hb : ECanon b) (hna : NZ a) (hnb : NZ b) :
    cmpMask a b = ElasticSpec.cmpMask (toInt a) (toInt b) := by
  unfold cmpMask ElasticSpec.cmpMask
  rw [eq_spec ha hb hna hnb, lt_spec ha hb hna hnb, lt_spec hb ha hnb hna]
  rcases Int.lt_trichotomy (toInt a) (toInt b) with h | h | h
  · have h1 : ¬ toInt a = toInt b := by omega
    have h2 : ¬ toInt b < toInt a := by omega
    have h3 : toInt a ≤ toInt b := by omega
    have h4 : ¬ toInt a ≥ toInt b := by omega
    have h5 : ¬ toInt a > toInt b := by omega
    simp [h, h1, h2, h3, h4]
  · simp [h]
  · have h1 : ¬ toInt a = toInt b := by omega
    have h2 : ¬ toInt a < toInt b := by omega
    have h3 : ¬ toInt a ≤ toInt b := by omega
    have h4 : toInt a ≥ toInt b := by omega
    have h5 : toInt a > toInt b := by omega
    simp [h, h1, h2, h3, h4]

/-- `<<=` inserts `k` zero digits below a non-zero value (zero stays `0`): the magnitude is multiplied by 10^k, the flag is
    kept, a canonical object stays canonical (no padded zero). -/
theorem shl_spec (x : ED) (k : Nat) : toNat (shl x k).d = toNat x.d * 10 ^ k ∧ (shl x k).neg = x.neg ∧
    (ECanon x → ECanon (shl x k)) := by
  unfold shl
  by_cases h : k = 0
  · simp [h]
  · simp only [h, if_false]
    by_cases hz : isZero x = true
    · have h0 := (isZero_iff x).mp hz
      simp [hz, h0]
    · simp only [hz, Bool.false_eq_true, if_false]
      refine ⟨?_, trivial, ?_⟩
      · rw [toNat_append, toNat_replicate_zero]; simp; ring
      · intro hc
        have hpos : 0 < toNat x.d := by
          apply Nat.pos_of_ne_zero; intro h0; exact hz ((isZero_iff x).mpr h0)
        exact (ecanon_shifted hc.1 hc.2 hpos k).1

theorem toNat_drop (k : Nat) {l : List Nat} (hl : DOk l) (hk : k ≤ l.length) : toNat (l.drop k) = toNat l / 10 ^ k := by
  have h : toNat l = toNat (l.take k) + 10 ^ (l.take k).length * toNat (l.drop k) := by
    conv_lhs => rw [← List.take_append_drop k l]
    exact toNat_append _ _
  have hlen : (l.take k).length = k := by simp [hk]
  rw [hlen] at h
  have hlt : toNat (l.take k) < 10 ^ k := by
    have := toNat_lt (l := l.take k) (fun x hx => hl x (List.mem_of_mem_take hx))
    rwa [hlen] at this
  rw [h, Nat.add_mul_div_left _ _ (Nat.pow_pos (by decide)), Nat.div_eq_of_lt hlt, Nat.zero_add]

/-- `>>=` drops `k` digits: the magnitude is divided by 10^k (toward zero). -/
theorem shr_spec (x : ED) (k : Nat) (hx : DOk x.d) : toNat (shr x k).d = toNat x.d / 10 ^ k := by
  unfold shr
  by_cases h : k = 0
  · simp [h]
  · simp only [h, if_false]
    by_cases hl : x.d.length ≤ k
    · simp only [hl, if_true]
      have h1 := toNat_lt hx
      have h2 : 10 ^ x.d.length ≤ 10 ^ k := Nat.pow_le_pow_right (by decide) hl
      rw [Nat.div_eq_of_lt (by omega)]; rfl
    · simp only [hl, if_false]
      exact toNat_drop k hx (by omega)

end UVerif.EDec
