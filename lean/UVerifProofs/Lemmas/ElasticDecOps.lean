/-
  edecimal operators + - * on canonical objects.
-/
import UVerifProofs.Lemmas.ElasticDec

namespace UVerif.EDec

theorem toInt_flip (r : ED) : toInt { r with neg := !r.neg } = -toInt r := by
  unfold toInt; cases r.neg <;> simp

theorem ecanon_flip {r : ED} (h : ECanon r) : ECanon { r with neg := !r.neg } := h

/-- `operator+=`: the integer sum, for every sign combination and every size. -/
theorem add_spec {x r : ED} (hx : ECanon x) (hr : ECanon r) :
    toInt (add x r) = toInt x + toInt r ∧ ECanon (add x r) := by
  unfold add
  by_cases hs : x.neg = r.neg
  · have hne : (x.neg != r.neg) = false := by simp [hs]
    simp only [hne, Bool.false_eq_true, if_false]
    have h := addCore_spec hx.1 hr.1
    refine ⟨?_, addCore_canon hx hr⟩
    simp only [toInt, h.2.2, h.1, ← hs]
    cases x.neg <;> simp; omega
  · have hne : (x.neg != r.neg) = true := by simp [hs]
    simp only [hne, if_true]
    have h := subCore_spec hx (ecanon_flip hr) (by cases hx' : x.neg <;> cases hr' : r.neg <;> simp_all)
    refine ⟨?_, h.2⟩
    rw [h.1, toInt_flip]; omega

/-- `operator-=`: the integer difference, for every sign combination and every size. -/
theorem sub_spec {x r : ED} (hx : ECanon x) (hr : ECanon r) :
    toInt (sub x r) = toInt x - toInt r ∧ ECanon (sub x r) := by
  unfold sub
  by_cases hs : x.neg = r.neg
  · have hne : (x.neg != r.neg) = false := by simp [hs]
    simp only [hne, Bool.false_eq_true, if_false]
    exact subCore_spec hx hr hs
  · have hne : (x.neg != r.neg) = true := by simp [hs]
    simp only [hne, if_true]
    have hflip : x.neg = (!r.neg) := by cases hx' : x.neg <;> cases hr' : r.neg <;> simp_all
    have h := addCore_spec hx.1 (ecanon_flip hr).1
    refine ⟨?_, addCore_canon hx (ecanon_flip hr)⟩
    simp only [toInt, h.2.2, h.1]
    cases hx' : x.neg <;> cases hr' : r.neg <;> simp_all <;> omega

/-! ### operator*= -/

theorem mulDigitRow_spec (s : Nat) (hs : s < 10) : ∀ (bs : List Nat) (c : Nat), DOk bs → c ≤ 8 →
    toNat (mulDigitRow s bs c) = s * toNat bs + c ∧ DOk (mulDigitRow s bs c)
  | [], c, _, hc => by
    by_cases h0 : c = 0
    · simp [mulDigitRow, h0, toNat]; exact dOk_nil
    · simp [mulDigitRow, h0, toNat]; exact dOk_cons.mpr ⟨by omega, dOk_nil⟩
  | b :: bs, c, hb, hc => by
    have ⟨hb0, hbs⟩ := dOk_cons.mp hb
    have hsb : s * b ≤ 81 := by
      have : s * b ≤ 9 * 9 := Nat.mul_le_mul (by omega) (by omega)
      omega
    have hm : (s * b + c) % 256 = s * b + c := Nat.mod_eq_of_lt (by omega)
    have ih := mulDigitRow_spec s hs bs ((s * b + c) / 10) hbs (by omega)
    simp only [mulDigitRow, hm, toNat, ih.1]
    refine ⟨?_, dOk_cons.mpr ⟨Nat.mod_lt _ (by decide), ih.2⟩⟩
    have := Nat.div_add_mod (s * b + c) 10
    have e : s * (b + 10 * toNat bs) = s * b + 10 * (s * toNat bs) := by ring
    omega

theorem addCore_ne {x r : ED} (h : x.d ≠ []) : (addCore x r).d ≠ [] := by
  unfold addCore
  have hl : 0 < (padTo (max x.d.length r.d.length) x.d).length := by
    rw [length_padTo]; have := List.length_pos_iff.mpr h; omega
  cases hp : padTo (max x.d.length r.d.length) x.d with
  | nil => rw [hp] at hl; simp at hl
  | cons y ys =>
    show addLoop (padTo (max x.d.length r.d.length) x.d) (padTo (max x.d.length r.d.length) r.d) 0 ≠ []
    rw [hp]
    simp only [addLoop]
    split <;> simp

theorem mulRows_spec (big : List Nat) (hbig : DOk big) : ∀ (ss : List Nat) (pos : Nat) (prod : ED),
    DOk ss → DOk prod.d → prod.neg = false → prod.d ≠ [] →
    toNat (mulRows big ss pos prod).d = toNat prod.d + 10 ^ pos * (toNat ss * toNat big) ∧
      DOk (mulRows big ss pos prod).d ∧ (mulRows big ss pos prod).neg = false ∧ (mulRows big ss pos prod).d ≠ []
  | [], pos, prod, _, hp, hn, hne => by simp [mulRows, toNat]; exact ⟨hp, hn, hne⟩
  | s :: ss, pos, prod, hs, hp, hn, hne => by
    have ⟨hs0, hss⟩ := dOk_cons.mp hs
    have hrow := mulDigitRow_spec s hs0 big 0 hbig (by omega)
    have hpsOk : DOk (List.replicate pos 0 ++ mulDigitRow s big 0) := by
      intro d hd
      rcases List.mem_append.mp hd with hd | hd
      · rw [(List.mem_replicate.mp hd).2]; decide
      · exact hrow.2 d hd
    have hadd : add prod { neg := false, d := List.replicate pos 0 ++ mulDigitRow s big 0 }
        = addCore prod { neg := false, d := List.replicate pos 0 ++ mulDigitRow s big 0 } := by
      unfold add; simp [hn]
    have hc := addCore_spec (x := prod) (r := { neg := false, d := List.replicate pos 0 ++ mulDigitRow s big 0 }) hp hpsOk
    have ih := mulRows_spec big hbig ss (pos + 1) (addCore prod { neg := false, d := List.replicate pos 0 ++ mulDigitRow s big 0 })
      hss hc.2.1 (by rw [hc.2.2, hn]) (addCore_ne hne)
    simp only [mulRows, hadd]
    refine ⟨?_, ih.2⟩
    rw [ih.1, hc.1]
    simp only [toNat_append, toNat_replicate_zero, List.length_replicate, hrow.1, toNat, pow_succ]
    ring

theorem isZero_iff (x : ED) : isZero x = true ↔ toNat x.d = 0 := all_zero_iff x.d

theorem ecanon_zero : ECanon zero := by
  refine ⟨?_, by simp [zero], Or.inl rfl⟩
  intro d hd; simp [zero] at hd; omega

/-- `operator*=`: the integer product, canonical, for every sign combination and every size. -/
theorem mul_spec {x r : ED} (hx : ECanon x) (hr : ECanon r) :
    toInt (mul x r) = toInt x * toInt r ∧ ECanon (mul x r) := by
  unfold mul
  by_cases hz : (isZero x || isZero r) = true
  · simp only [hz, if_true]
    refine ⟨?_, ecanon_zero⟩
    rcases Bool.or_eq_true_iff.mp hz with h | h
    · have := (isZero_iff x).mp h
      simp [toInt, this, zero, toNat]
    · have := (isZero_iff r).mp h
      simp [toInt, this, zero, toNat]
  · simp only [hz, Bool.false_eq_true, if_false]
    have hz0 : DOk zero.d ∧ zero.neg = false ∧ zero.d ≠ [] := ⟨ecanon_zero.1, rfl, by simp [zero]⟩
    have hprod : ∃ p : ED, (if x.d.length < r.d.length then mulRows r.d x.d 0 zero else mulRows x.d r.d 0 zero) = p ∧
        toNat p.d = toNat x.d * toNat r.d ∧ DOk p.d ∧ p.d ≠ [] := by
      by_cases hl : x.d.length < r.d.length
      · have h := mulRows_spec r.d hr.1 x.d 0 zero hx.1 hz0.1 hz0.2.1 hz0.2.2
        exact ⟨_, by simp [hl], by rw [h.1]; simp [zero, toNat], h.2.1, h.2.2.2⟩
      · have h := mulRows_spec x.d hx.1 r.d 0 zero hr.1 hz0.1 hz0.2.1 hz0.2.2
        exact ⟨_, by simp [hl], by rw [h.1]; simp [zero, toNat, Nat.mul_comm], h.2.1, h.2.2.2⟩
    obtain ⟨p, hp, hv, hok, hne⟩ := hprod
    rw [hp]
    refine ⟨?_, dOk_unpad hok, unpadded_unpad hne⟩
    simp only [toInt, toNat_unpad, hv]
    cases x.neg <;> cases r.neg <;> simp

end UVerif.EDec
