/-
  einteger reduce(): the branches that are right on the pinned tree — native single-limb division and
  long division by a single-limb divisor (magnitudes).
-/
import UVerifProofs.Lemmas.ElasticCmp

namespace UVerif.EInt

theorem divmod_cert {a b q r : Nat} (hb : 0 < b) (h : q * b + r = a) (hr : r < b) : a / b = q ∧ a % b = r := by
  subst h
  constructor
  · rw [Nat.add_comm, Nat.add_mul_div_right _ _ hb, Nat.div_eq_of_lt hr, Nat.zero_add]
  · rw [Nat.add_comm, Nat.add_mul_mod_self_right, Nat.mod_eq_of_lt hr]

theorem stripTop_of_noLeadingZero : ∀ {l : List Nat}, NoLeadingZero l → stripTop l = l
  | [], _ => rfl
  | [x], h => by
    simp [NoLeadingZero] at h
    simp [stripTop, h]
  | x :: y :: ys, h => by
    have ih := @stripTop_of_noLeadingZero (y :: ys) (by simpa [NoLeadingZero, List.getLast?_cons_cons] using h)
    simp only [stripTop] at ih ⊢
    rw [ih]

/-- long division by one limb: `q·d + r = value`, `r < d`, quotient limbs fit the block type. -/
theorem divLimb_spec (w d : Nat) (hd0 : 0 < d) (hd : d ≤ 2 ^ w) : ∀ (xs : List Nat), LimbsOk w xs →
    toNat w (divLimb w d xs).1 * d + (divLimb w d xs).2 = toNat w xs ∧ (divLimb w d xs).2 < d ∧
      LimbsOk w (divLimb w d xs).1 ∧ (divLimb w d xs).1.length = xs.length
  | [], _ => by simp [divLimb, toNat, hd0]; exact limbsOk_nil w
  | x :: xs, hx => by
    have ⟨hx0, hxs⟩ := limbsOk_cons.mp hx
    obtain ⟨h1, h2, h3, h4⟩ := divLimb_spec w d hd0 hd xs hxs
    have B : 0 < 2 ^ w := Nat.two_pow_pos w
    simp only [divLimb, toNat, List.length_cons]
    generalize (divLimb w d xs).2 = r at *
    generalize (divLimb w d xs).1 = q at *
    have ht : r * 2 ^ w + x < d * 2 ^ w := by
      have : (r + 1) * 2 ^ w ≤ d * 2 ^ w := Nat.mul_le_mul_right _ h2
      rw [Nat.add_mul, Nat.one_mul] at this; omega
    have hq : (r * 2 ^ w + x) / d < 2 ^ w := Nat.div_lt_of_lt_mul ht
    rw [Nat.mod_eq_of_lt hq]
    refine ⟨?_, Nat.mod_lt _ hd0, limbsOk_cons.mpr ⟨hq, h3⟩, by omega⟩
    have hdm := Nat.div_add_mod (r * 2 ^ w + x) d
    have e1 : 2 ^ w * (toNat w q * d + r) = 2 ^ w * toNat w xs := by rw [h1]
    have e2 : ((r * 2 ^ w + x) / d + 2 ^ w * toNat w q) * d = d * ((r * 2 ^ w + x) / d) + 2 ^ w * (toNat w q * d) := by ring
    have e3 : 2 ^ w * (toNat w q * d + r) = 2 ^ w * (toNat w q * d) + r * 2 ^ w := by ring
    linarith [hdm, e1, e2, e3]

theorem isZero_decide {w : Nat} {l : List Nat} (h1 : LimbsOk w l) (h2 : NoLeadingZero l) :
    isZero { sign := false, limbs := l } = decide (toNat w l = 0) := by
  have hc : Canon w { sign := false, limbs := l } := ⟨h1, h2⟩
  by_cases h0 : toNat w l = 0
  · simp [h0, (isZero_iff_toNat hc).mpr h0]
  · simp [h0, (isZero_false_iff hc).mpr h0]

theorem canon_strip_single {w v : Nat} (hv : v < 2 ^ w) :
    LimbsOk w (stripTop [v]) ∧ NoLeadingZero (stripTop [v]) ∧ toNat w (stripTop [v]) = v ∧ block (stripTop [v]) 0 = v := by
  by_cases h0 : v = 0
  · simp [stripTop, h0, LimbsOk, NoLeadingZero, toNat, block]
  · simp [stripTop, h0, LimbsOk, NoLeadingZero, toNat, block, hv]

/-- reduce() by a single non-zero limb on a canonical dividend: quotient and remainder with their signs
    (quotient negative iff the signs differ, remainder follows the dividend, zero results carry no sign). -/
theorem reduce_single_limb (w : Nat) (a b : EI) (d : Nat) (ha : Canon w a) (hb : b.limbs = [d]) (hd0 : 0 < d)
    (hd : d < 2 ^ w) :
    toNat w (reduce w a b).q.limbs = toNat w a.limbs / d ∧
    block (reduce w a b).r.limbs 0 = toNat w a.limbs % d ∧
    toNat w (reduce w a b).r.limbs = toNat w a.limbs % d ∧
    Canon w (reduce w a b).q ∧ Canon w (reduce w a b).r ∧
    (reduce w a b).q.sign = ((a.sign != b.sign) && !decide (toNat w a.limbs / d = 0)) ∧
    (reduce w a b).r.sign = (a.sign && !decide (toNat w a.limbs % d = 0)) ∧
    ((reduce w a b).path = .zero ∨ (reduce w a b).path = .native ∨ (reduce w a b).path = .single) := by
  have hzb : isZero b = false := by simp [isZero, hb]; omega
  -- shape of the two results once their limb vectors are known
  have hshape : ∀ (lq lr : List Nat) (p : DivPath), LimbsOk w lq → NoLeadingZero lq → LimbsOk w lr → NoLeadingZero lr →
      toNat w lq = toNat w a.limbs / d → toNat w lr = toNat w a.limbs % d → block lr 0 = toNat w a.limbs % d →
      (p = .zero ∨ p = .native ∨ p = .single) →
      let res : DivResult := { q := signedQ a b lq, r := signedR a lr, path := p }
      toNat w res.q.limbs = toNat w a.limbs / d ∧ block res.r.limbs 0 = toNat w a.limbs % d ∧
      toNat w res.r.limbs = toNat w a.limbs % d ∧ Canon w res.q ∧ Canon w res.r ∧
      res.q.sign = ((a.sign != b.sign) && !decide (toNat w a.limbs / d = 0)) ∧
      res.r.sign = (a.sign && !decide (toNat w a.limbs % d = 0)) ∧
      (res.path = .zero ∨ res.path = .native ∨ res.path = .single) := by
    intro lq lr p h1 h2 h3 h4 h5 h6 h7 h8
    refine ⟨h5, h7, h6, ⟨h1, h2⟩, ⟨h3, h4⟩, ?_, ?_, h8⟩
    · simp only [signedQ]; rw [isZero_decide h1 h2, h5]
    · simp only [signedR]; rw [isZero_decide h3 h4, h6]
  unfold reduce
  simp only [hzb, Bool.false_eq_true, if_false]
  by_cases hza : isZero a = true
  · have : a.limbs = [] := (isZero_canon ha).mp hza
    simp [hza, this, toNat, block, Canon, LimbsOk, NoLeadingZero]
  · simp only [hza]
    have hane : a.limbs ≠ [] := fun h => hza ((isZero_canon ha).mpr h)
    by_cases h1 : a.limbs.length = 1 ∧ b.limbs.length = 1
    · simp only [h1, and_self, if_true]
      obtain ⟨a0, ha0⟩ : ∃ a0, a.limbs = [a0] := by
        rcases hl : a.limbs with _ | ⟨v, _ | _⟩
        · exact absurd hl hane
        · exact ⟨v, rfl⟩
        · rw [hl] at h1; simp at h1
      have ha0lt : a0 < 2 ^ w := ha.1 a0 (by simp [ha0])
      have hA : toNat w a.limbs = a0 := by simp [ha0, toNat]
      have hqlt : a0 / d < 2 ^ w := Nat.lt_of_le_of_lt (Nat.div_le_self _ _) ha0lt
      have hrlt : a0 % d < 2 ^ w := Nat.lt_trans (Nat.mod_lt _ hd0) hd
      have hblk : block a.limbs 0 = a0 := by simp [ha0, block]
      have hblkb : block b.limbs 0 = d := by simp [hb, block]
      simp only [hblk, hblkb]
      have eq1 : (if a0 / d = 0 then ([] : List Nat) else [a0 / d]) = stripTop [a0 / d] := by
        by_cases h0 : a0 / d = 0 <;> simp [stripTop, h0]
      have eq2 : (if a0 % d = 0 then ([] : List Nat) else [a0 % d]) = stripTop [a0 % d] := by
        by_cases h0 : a0 % d = 0 <;> simp [stripTop, h0]
      rw [eq1, eq2]
      obtain ⟨q1, q2, q3, _⟩ := canon_strip_single (w := w) hqlt
      obtain ⟨r1, r2, r3, r4⟩ := canon_strip_single (w := w) hrlt
      obtain ⟨g1, g2, g3, g4, g5, g6, g7, _⟩ :=
        hshape _ _ DivPath.native q1 q2 r1 r2 (by rw [q3, hA]) (by rw [r3, hA]) (by rw [r4, hA]) (Or.inr (Or.inl rfl))
      exact ⟨g1, g2, g3, g4, g5, g6, g7, by simp⟩
    · simp only [h1, if_false]
      have hlen : a.limbs.length ≥ 2 := by
        have : 0 < a.limbs.length := List.length_pos_iff.mpr hane
        have hb1 : b.limbs.length = 1 := by simp [hb]
        by_contra hc
        exact h1 ⟨by omega, hb1⟩
      have hlt : (cmpMag a.limbs b.limbs == .lt) = false := by
        unfold cmpMag
        have hb1 : b.limbs.length = 1 := by simp [hb]
        have h2 : a.limbs.length ≠ b.limbs.length := by omega
        have h3 : a.limbs.length > b.limbs.length := by omega
        simp [h2, h3]
      simp only [hlt, Bool.false_eq_true, if_false]
      have hsa : stripTop a.limbs = a.limbs := stripTop_of_noLeadingZero ha.2
      have hsb : stripTop b.limbs = b.limbs := by
        rw [hb]; simp [stripTop]; omega
      have hn : (stripTop b.limbs).length = 1 := by rw [hsb, hb]; rfl
      simp only [hn, if_true, hsa, List.take_length]
      have hblk : block b.limbs 0 = d := by simp [hb, block]
      rw [hblk]
      obtain ⟨s1, s2, s3, _⟩ := divLimb_spec w d hd0 (Nat.le_of_lt hd) a.limbs ha.1
      have hq : toNat w (divLimb w d a.limbs).1 = toNat w a.limbs / d := (divmod_cert hd0 s1 s2).1.symm
      have hr : (divLimb w d a.limbs).2 = toNat w a.limbs % d := (divmod_cert hd0 s1 s2).2.symm
      have hrlt : (divLimb w d a.limbs).2 < 2 ^ w := by omega
      rw [Nat.mod_eq_of_lt hrlt]
      obtain ⟨r1, r2, r3, r4⟩ := canon_strip_single (w := w) hrlt
      obtain ⟨g1, g2, g3, g4, g5, g6, g7, _⟩ :=
        hshape _ _ DivPath.single (limbsOk_stripTop s3) (noLeadingZero_stripTop _) r1 r2 (by rw [toNat_stripTop, hq])
          (by rw [r3, hr]) (by rw [r4, hr]) (Or.inr (Or.inr rfl))
      exact ⟨g1, g2, g3, g4, g5, g6, g7, by simp⟩

end UVerif.EInt
