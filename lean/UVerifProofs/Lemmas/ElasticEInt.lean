/-
  einteger objects: sign + limbs.  `Canon` is the class invariant the header promises (limbs fit the
  block type, no most-significant zero limb).
-/
import UVerifProofs.Lemmas.ElasticLimbs

namespace UVerif.EInt

/-- limbs fit the block type and there is no most-significant zero limb. -/
def Canon (w : Nat) (x : EI) : Prop := LimbsOk w x.limbs ∧ NoLeadingZero x.limbs

theorem canon_absE {w : Nat} {x : EI} (h : Canon w x) : Canon w (absE x) := h

theorem toInt_absE (w : Nat) (x : EI) : toInt w (absE x) = (toNat w x.limbs : Int) := by
  simp [toInt, absE]

/-- `operator-=` after the sign test computes |x| − |r| (with the sign of the difference). -/
theorem subCore_spec (w : Nat) {x r : EI} (hx : Canon w x) (hr : Canon w r) (hs : r.sign = false) :
    toInt w (subCore w x r) = (toNat w x.limbs : Int) - (toNat w r.limbs : Int) ∧ Canon w (subCore w x r) := by
  unfold subCore
  by_cases he : x.limbs.length = 0
  · have : x.limbs = [] := List.length_eq_zero_iff.mp he
    simp only [he, if_true]
    refine ⟨?_, hr⟩
    simp [toInt, hs, this, toNat]
  · simp only [he, if_false]
    have hc := cmpMag_spec w hx.1 hr.1 hx.2 hr.2
    rcases Nat.lt_trichotomy (toNat w x.limbs) (toNat w r.limbs) with hlt | heq | hgt
    · have hm : cmpMag x.limbs r.limbs = .lt := by rw [hc]; exact Nat.compare_eq_lt.mpr hlt
      have hlen : x.limbs.length ≤ r.limbs.length := by
        by_contra hcon
        have := toNat_lt_of_length_lt w hr.1 hx.2 (by omega)
        omega
      have hs := subLoop_spec w r.limbs x.limbs 0 hr.1 hx.1 hlen (by omega) (by omega)
      simp only [hm, reduceCtorEq, if_false]
      refine ⟨?_, limbsOk_stripTop hs.2, noLeadingZero_stripTop _⟩
      simp only [toInt, beq_self_eq_true, if_true, toNat_stripTop, hs.1]
      omega
    · have hm : cmpMag x.limbs r.limbs = .eq := by rw [hc]; exact Nat.compare_eq_eq.mpr heq
      have hlen : x.limbs.length ≤ r.limbs.length := by
        by_contra hcon
        have := toNat_lt_of_length_lt w hr.1 hx.2 (by omega)
        omega
      have hs := subLoop_spec w r.limbs x.limbs 0 hr.1 hx.1 hlen (by omega) (by omega)
      simp only [hm, reduceCtorEq, if_false]
      refine ⟨?_, limbsOk_stripTop hs.2, noLeadingZero_stripTop _⟩
      have : (Ordering.eq == Ordering.lt) = false := rfl
      simp only [toInt, this, toNat_stripTop, hs.1]
      simp; omega
    · have hm : cmpMag x.limbs r.limbs = .gt := by rw [hc]; exact Nat.compare_eq_gt.mpr hgt
      have hlen : r.limbs.length ≤ x.limbs.length := by
        by_contra hcon
        have := toNat_lt_of_length_lt w hx.1 hr.2 (by omega)
        omega
      have hs := subLoop_spec w x.limbs r.limbs 0 hx.1 hr.1 hlen (by omega) (by omega)
      simp only [hm, if_true]
      refine ⟨?_, limbsOk_stripTop hs.2, noLeadingZero_stripTop _⟩
      have : (Ordering.gt == Ordering.lt) = false := rfl
      simp only [toInt, this, toNat_stripTop, hs.1]
      simp; omega

/-- same-sign branch of `operator+=`. -/
theorem addCore_spec (w : Nat) (hw : 0 < w) {x r : EI} (hx : Canon w x) (hr : Canon w r) :
    toNat w (addCore w x r).limbs = toNat w x.limbs + toNat w r.limbs ∧ Canon w (addCore w x r) := by
  unfold addCore
  have hp : LimbsOk w (padTo r.limbs.length x.limbs) := limbsOk_padTo hx.1
  have hlen : r.limbs.length ≤ (padTo r.limbs.length x.limbs).length := by rw [length_padTo]; omega
  have h1 := addLoop_spec w hw _ _ 0 hp hr.1 hlen (by omega)
  have h2 := addLoop_length w hw _ _ 0 hp hr.1 hlen (by omega)
  rw [toNat_padTo] at h1 h2
  simp only [Nat.add_zero] at h1 h2
  refine ⟨h1.1, h1.2, ?_⟩
  apply noLeadingZero_of_ge w h1.2
  intro hne
  rw [h1.1, h2, length_padTo]
  split
  · -- no carry out: the longer canonical operand already reaches BASE^(len-1)
    by_cases hxl : r.limbs.length ≤ x.limbs.length
    · have hxne : x.limbs ≠ [] := by
        intro h0
        have : r.limbs = [] := by
          apply List.length_eq_zero_iff.mp; rw [h0] at hxl; simpa using hxl
        apply hne; simp [addLoop, padTo, h0, this]
      have := toNat_ge_of_noLeadingZero w x.limbs hxne hx.2
      rw [Nat.max_eq_right hxl]; omega
    · have hrne : r.limbs ≠ [] := by intro h0; rw [h0] at hxl; simp at hxl
      have := toNat_ge_of_noLeadingZero w r.limbs hrne hr.2
      rw [Nat.max_eq_left (by omega)]; omega
  · rename_i hge
    simp only [Nat.add_sub_cancel]
    omega

/-- `operator+=`: the integer sum, canonical result — all four sign combinations, any lengths. -/
theorem add_spec (w : Nat) (hw : 0 < w) (x r : EI) (hx : Canon w x) (hr : Canon w r) :
    toInt w (add w x r) = toInt w x + toInt w r ∧ Canon w (add w x r) := by
  unfold add
  by_cases hs : x.sign = r.sign
  · have hne : (x.sign != r.sign) = false := by simp [hs]
    simp only [hne, Bool.false_eq_true, if_false]
    have h := addCore_spec w hw hx hr
    refine ⟨?_, h.2⟩
    have hsgn : (addCore w x r).sign = x.sign := rfl
    simp only [toInt, hsgn, h.1, ← hs]
    split <;> simp; omega
  · have hne : (x.sign != r.sign) = true := by simp [hs]
    simp only [hne, if_true]
    cases hxs : x.sign with
    | true =>
      have hrs : r.sign = false := by cases h : r.sign <;> simp_all
      have h := subCore_spec w hr (canon_absE hx) (by rfl)
      simp only [if_true]
      refine ⟨?_, h.2⟩
      rw [h.1]; simp [toInt, hxs, hrs, absE]; omega
    | false =>
      have hrs : r.sign = true := by cases h : r.sign <;> simp_all
      have h := subCore_spec w hx (canon_absE hr) (by rfl)
      simp only [Bool.false_eq_true, if_false]
      refine ⟨?_, h.2⟩
      rw [h.1]; simp [toInt, hxs, hrs, absE]; omega


theorem toNat_of_isZero (w : Nat) {x : EI} (h : isZero x = true) : toNat w x.limbs = 0 := by
  unfold isZero at h
  rcases hl : x.limbs with _ | ⟨v, _ | ⟨v', t⟩⟩
  · rfl
  · rw [hl] at h; simp at h; simp [toNat, h]
  · rw [hl] at h; simp at h

/-- `operator-=`: the integer difference, canonical result — all four sign combinations, any lengths. -/
theorem sub_spec (w : Nat) (hw : 0 < w) (x r : EI) (hx : Canon w x) (hr : Canon w r) :
    toInt w (sub w x r) = toInt w x - toInt w r ∧ Canon w (sub w x r) := by
  unfold sub
  cases hrs : r.sign with
  | true =>
    simp only [if_true]
    have h := add_spec w hw x (absE r) hx (canon_absE hr)
    refine ⟨?_, h.2⟩
    rw [h.1, toInt_absE]; simp [toInt, hrs]
  | false =>
    simp only [Bool.false_eq_true, if_false]
    cases hxs : x.sign with
    | true =>
      simp only [if_true]
      have h := add_spec w hw (absE x) r (canon_absE hx) hr
      refine ⟨?_, h.2⟩
      have hv : toInt w (add w (absE x) r) = (toNat w x.limbs : Int) + toNat w r.limbs := by
        rw [h.1, toInt_absE]; simp [toInt, hrs]
      -- the magnitude of the sum
      have hmag : (toNat w (add w (absE x) r).limbs : Int) = (toNat w x.limbs : Int) + toNat w r.limbs := by
        have : toInt w (add w (absE x) r) = (toNat w (add w (absE x) r).limbs : Int) ∨
            toInt w (add w (absE x) r) = -(toNat w (add w (absE x) r).limbs : Int) := by
          unfold toInt; split <;> simp
        rcases this with e | e
        · rw [← e, hv]
        · rw [hv] at e; omega
      by_cases hz : isZero (add w (absE x) r) = true
      · have h0 := toNat_of_isZero w hz
        simp only [toInt, hz, Bool.not_true, Bool.false_eq_true, if_false, hxs, hrs, if_true]
        rw [h0] at hmag ⊢; omega
      · have hz' : isZero (add w (absE x) r) = false := by
          cases hh : isZero (add w (absE x) r) with
          | false => rfl
          | true => exact absurd hh hz
        simp only [toInt, hz', Bool.not_false, if_true, hxs, hrs, Bool.false_eq_true, if_false]
        rw [hmag]; omega
    | false =>
      simp only [Bool.false_eq_true, if_false]
      have h := subCore_spec w hx hr hrs
      refine ⟨?_, h.2⟩
      rw [h.1]; simp [toInt, hxs, hrs]

end UVerif.EInt
