/-
  Histories: arbitrary chains of operations applied to an einteger / edecimal object, growth and shrinkage of
  the limb / digit vector included. The step theorems are composed by induction on the list of operations.
-/
import UVerifProofs.Lemmas.ElasticPrint
import UVerifProofs.Lemmas.ElasticDecDiv

namespace UVerif.EInt

/-- one step of a history. `mulF` is the repaired `*=`. -/
inductive Op where
  | add (r : EI) | sub (r : EI) | mulF (r : EI) | neg | shl (k : Nat)

def Op.run (w : Nat) (x : EI) : Op → EI
  | .add r => EInt.add w x r
  | .sub r => EInt.sub w x r
  | .mulF r => mulFixed w x r
  | .neg => EInt.neg x
  | .shl k => EInt.shl w x k

def Op.exact (v : Int) (w : Nat) : Op → Int
  | .add r => v + toInt w r
  | .sub r => v - toInt w r
  | .mulF r => v * toInt w r
  | .neg => -v
  | .shl k => v * 2 ^ k

/-- the operand of the step is canonical (no other restriction). -/
def Op.Ok (w : Nat) (_x : EI) : Op → Prop
  | .add r => Canon w r
  | .sub r => Canon w r
  | .mulF r => Canon w r
  | .neg => True
  | .shl _ => True

def runAll (w : Nat) (x : EI) : List Op → EI
  | [] => x
  | o :: os => runAll w (o.run w x) os

def exactAll (w : Nat) (v : Int) : List Op → Int
  | [] => v
  | o :: os => exactAll w (o.exact v w) os

/-- every step is in the good region, judged on the state the model has reached. -/
def OkAll (w : Nat) (x : EI) : List Op → Prop
  | [] => True
  | o :: os => o.Ok w x ∧ OkAll w (o.run w x) os

theorem shl_canon (w : Nat) (hw : 0 < w) (x : EI) (k : Nat) (hx : Canon w x) : Canon w (shl w x k) := by
  refine ⟨(shl_spec w hw x k hx.1).2.2.1, ?_⟩
  by_cases h0 : k = 0
  · simp [shl, h0]; exact hx.2
  · exact (shl_spec w hw x k hx.1).2.2.2 h0

theorem step_spec (w : Nat) (hw : 0 < w) (x : EI) (o : Op) (hx : Canon w x) (ho : o.Ok w x) :
    toInt w (o.run w x) = o.exact (toInt w x) w ∧ Canon w (o.run w x) := by
  cases o with
  | add r =>
    have ⟨h1, h2⟩ := add_spec w hw x r hx ho
    exact ⟨h1, h2⟩
  | sub r =>
    have ⟨h1, h2⟩ := sub_spec w hw x r hx ho
    exact ⟨h1, h2⟩
  | mulF r => exact mulFixed_spec w x r hx ho
  | neg =>
    refine ⟨?_, hx⟩
    simp only [Op.run, Op.exact, EInt.neg, toInt]
    by_cases hsg : x.sign = true <;> simp [hsg]
  | shl k =>
    obtain ⟨h1, h2, _⟩ := shl_spec w hw x k hx.1
    refine ⟨?_, shl_canon w hw x k hx⟩
    simp only [Op.run, Op.exact, toInt, h1, h2]
    split <;> push_cast <;> ring

/-- HISTORY: along any chain of operations whose steps stay in the good region, the object denotes the exact
    integer result of the chain and stays canonical (whatever growth / shrinkage of the limb vector occurred). -/
theorem history_spec (w : Nat) (hw : 0 < w) : ∀ (ops : List Op) (x : EI), Canon w x → OkAll w x ops →
    toInt w (runAll w x ops) = exactAll w (toInt w x) ops ∧ Canon w (runAll w x ops)
  | [], x, hx, _ => ⟨rfl, hx⟩
  | o :: os, x, hx, hok => by
    obtain ⟨h1, h2⟩ := step_spec w hw x o hx hok.1
    have ih := history_spec w hw os (o.run w x) h2 hok.2
    simp only [runAll, exactAll]
    rw [← h1]; exact ih

end UVerif.EInt

namespace UVerif.EDec

inductive Op where
  | add (r : ED) | sub (r : ED) | mul (r : ED) | neg | div (r : ED) | rem (r : ED)

def Op.run (x : ED) : Op → ED
  | .add r => EDec.add x r
  | .sub r => EDec.sub x r
  | .mul r => EDec.mul x r
  | .neg => EDec.neg x
  | .div r => EDec.div x r
  | .rem r => EDec.rem x r

def Op.exact (v : Int) : Op → Int
  | .add r => v + toInt r
  | .sub r => v - toInt r
  | .mul r => v * toInt r
  | .neg => -v
  | .div r => Int.tdiv v (toInt r)
  | .rem r => Int.tmod v (toInt r)

/-- the operand is canonical (and a divisor is not zero) -/
def Op.Ok : Op → Prop
  | .add r => ECanon r
  | .sub r => ECanon r
  | .mul r => ECanon r
  | .neg => True
  | .div r => ECanon r ∧ toInt r ≠ 0
  | .rem r => ECanon r ∧ toInt r ≠ 0

def runAll (x : ED) : List Op → ED
  | [] => x
  | o :: os => runAll (o.run x) os

def exactAll (v : Int) : List Op → Int
  | [] => v
  | o :: os => exactAll (o.exact v) os

theorem toNat_ne_of_toInt_ne {r : ED} (h : toInt r ≠ 0) : toNat r.d ≠ 0 := by
  intro h0; apply h; simp [toInt, h0]

theorem step_spec (x : ED) (o : Op) (hx : ECanon x) (hn : NZ x) (ho : o.Ok) :
    toInt (o.run x) = o.exact (toInt x) ∧ ECanon (o.run x) ∧ NZ (o.run x) := by
  cases o with
  | add r => exact ⟨(add_spec hx ho).1, (add_spec hx ho).2, add_nz hx ho hn⟩
  | sub r => exact ⟨(sub_spec hx ho).1, (sub_spec hx ho).2, sub_nz hx ho hn⟩
  | mul r => exact ⟨(mul_spec hx ho).1, (mul_spec hx ho).2, mul_nz hx ho⟩
  | neg => exact ⟨neg_spec x, ecanon_neg hx, neg_nz hn⟩
  | div r =>
    obtain ⟨h1, _, h3, _, _, _, h7, _⟩ := divide_spec hx ho.1 hn (toNat_ne_of_toInt_ne ho.2)
    exact ⟨h1, h3, h7⟩
  | rem r =>
    obtain ⟨_, h2, _, h4, _, _, _, h8⟩ := divide_spec hx ho.1 hn (toNat_ne_of_toInt_ne ho.2)
    exact ⟨h2, h4, h8⟩

/-- HISTORY (edecimal): any chain of `+ - * / % negate` with canonical operands (non-zero divisors) denotes the exact
    integer, stays canonical, and never becomes a "negative zero" — no restriction on signs or sizes. -/
theorem history_spec : ∀ (ops : List Op) (x : ED), ECanon x → NZ x → (∀ o ∈ ops, o.Ok) →
    toInt (runAll x ops) = exactAll (toInt x) ops ∧ ECanon (runAll x ops) ∧ NZ (runAll x ops)
  | [], x, hx, hn, _ => ⟨rfl, hx, hn⟩
  | o :: os, x, hx, hn, hok => by
    obtain ⟨h1, h2, h3⟩ := step_spec x o hx hn (hok o (List.mem_cons_self ..))
    have ih := history_spec os (o.run x) h2 h3 (fun o' ho' => hok o' (List.mem_cons_of_mem _ ho'))
    simp only [runAll, exactAll]
    rw [← h1]; exact ih

end UVerif.EDec
