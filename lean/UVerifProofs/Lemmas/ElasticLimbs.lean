/-
  Lemmas about little-endian limb vectors (einteger), for an arbitrary limb width `w`.
-/
import Mathlib.Tactic.Ring
import Mathlib.Tactic.Linarith
import UVerif.Model.Elastic

namespace UVerif.EInt

theorem limbsOk_nil (w : Nat) : LimbsOk w [] := by intro x hx; cases hx

theorem limbsOk_cons {w x : Nat} {xs : List Nat} : LimbsOk w (x :: xs) ↔ x < 2 ^ w ∧ LimbsOk w xs := by
  constructor
  · intro h
    exact ⟨h x (List.mem_cons_self ..), fun y hy => h y (List.mem_cons_of_mem _ hy)⟩
  · rintro ⟨h1, h2⟩ y hy
    rcases List.mem_cons.mp hy with rfl | hy
    · exact h1
    · exact h2 y hy

theorem toNat_lt {w : Nat} : ∀ {l : List Nat}, LimbsOk w l → toNat w l < (2 ^ w) ^ l.length
  | [], _ => by simp [toNat]
  | x :: xs, h => by
    have ⟨hx, hxs⟩ := limbsOk_cons.mp h
    have ih := toNat_lt hxs
    simp only [toNat, List.length_cons, pow_succ]
    nlinarith [Nat.zero_le (toNat w xs)]

/-! ### stripTop -/

theorem stripTop_eq_nil_iff : ∀ {l : List Nat}, stripTop l = [] ↔ ∀ x ∈ l, x = 0
  | [] => by simp [stripTop]
  | x :: xs => by
    have ih := @stripTop_eq_nil_iff xs
    simp only [stripTop]
    cases h : stripTop xs with
    | nil =>
      have hz := ih.mp h
      by_cases hx : x = 0
      · simp [hx]; exact hz
      · simp [hx]
    | cons y ys =>
      simp only [List.mem_cons, forall_eq_or_imp]
      constructor
      · intro h'; cases h'
      · rintro ⟨_, hz⟩
        have := ih.mpr hz
        rw [h] at this; cases this

theorem toNat_zeros {w : Nat} : ∀ {l : List Nat}, (∀ x ∈ l, x = 0) → toNat w l = 0
  | [], _ => rfl
  | x :: xs, h => by
    have hx : x = 0 := h x (List.mem_cons_self ..)
    have := @toNat_zeros w xs (fun y hy => h y (List.mem_cons_of_mem _ hy))
    simp [toNat, hx, this]

theorem toNat_stripTop (w : Nat) : ∀ l : List Nat, toNat w (stripTop l) = toNat w l
  | [] => rfl
  | x :: xs => by
    have ih := toNat_stripTop w xs
    simp only [stripTop]
    cases h : stripTop xs with
    | nil =>
      rw [h] at ih
      by_cases hx : x = 0
      · simp [hx, toNat] at *; omega
      · simp [hx, toNat] at *; omega
    | cons y ys =>
      rw [h] at ih
      simp only [toNat] at *
      rw [ih]

theorem noLeadingZero_stripTop : ∀ l : List Nat, NoLeadingZero (stripTop l)
  | [] => by simp [stripTop, NoLeadingZero]
  | x :: xs => by
    have ih := noLeadingZero_stripTop xs
    simp only [stripTop]
    cases h : stripTop xs with
    | nil =>
      by_cases hx : x = 0
      · simp [hx, NoLeadingZero]
      · simp [hx, NoLeadingZero]
    | cons y ys =>
      rw [h] at ih
      simp only [NoLeadingZero] at *
      simpa [List.getLast?_cons_cons] using ih

theorem limbsOk_stripTop {w : Nat} : ∀ {l : List Nat}, LimbsOk w l → LimbsOk w (stripTop l)
  | [], _ => by simpa [stripTop] using limbsOk_nil w
  | x :: xs, h => by
    have ⟨hx, hxs⟩ := limbsOk_cons.mp h
    have ih := limbsOk_stripTop hxs
    simp only [stripTop]
    cases h' : stripTop xs with
    | nil =>
      by_cases hx0 : x = 0
      · simp [hx0]; exact limbsOk_nil w
      · simp [hx0]; exact limbsOk_cons.mpr ⟨hx, limbsOk_nil w⟩
    | cons y ys =>
      rw [h'] at ih
      exact limbsOk_cons.mpr ⟨hx, ih⟩

/-! ### padTo -/

theorem toNat_append_zeros (w : Nat) (n : Nat) : ∀ l : List Nat, toNat w (l ++ List.replicate n 0) = toNat w l
  | [] => by
    induction n with
    | zero => rfl
    | succ n ih => simp [List.replicate_succ, toNat] at *; exact ih
  | x :: xs => by
    simp only [List.cons_append, toNat]
    rw [toNat_append_zeros w n xs]

theorem toNat_padTo (w n : Nat) (l : List Nat) : toNat w (padTo n l) = toNat w l :=
  toNat_append_zeros w _ l

theorem length_padTo (n : Nat) (l : List Nat) : (padTo n l).length = max n l.length := by
  simp [padTo]; omega

theorem limbsOk_padTo {w n : Nat} {l : List Nat} (h : LimbsOk w l) : LimbsOk w (padTo n l) := by
  intro x hx
  simp only [padTo, List.mem_append, List.mem_replicate] at hx
  rcases hx with hx | ⟨_, rfl⟩
  · exact h x hx
  · exact Nat.two_pow_pos w

/-! ### the carry loop of operator+= -/

theorem addLoop_spec (w : Nat) (hw : 0 < w) : ∀ (xs ys : List Nat) (c : Nat), LimbsOk w xs → LimbsOk w ys →
    ys.length ≤ xs.length → c ≤ 1 →
    toNat w (addLoop w xs ys c) = toNat w xs + toNat w ys + c ∧ LimbsOk w (addLoop w xs ys c)
  | [], ys, c, _, _, hl, hc => by
    have : ys = [] := List.length_eq_zero_iff.mp (Nat.le_zero.mp hl)
    subst this
    simp only [addLoop]
    by_cases h1 : c = 1
    · simp [h1, toNat]
      exact limbsOk_cons.mpr ⟨Nat.one_lt_two_pow_iff.mpr (by omega), limbsOk_nil w⟩
    · have : c = 0 := by omega
      simp [this, toNat]; exact limbsOk_nil w
  | x :: xs, ys, c, hx, hy, hl, hc => by
    have ⟨hx0, hxs⟩ := limbsOk_cons.mp hx
    have B : 0 < 2 ^ w := Nat.two_pow_pos w
    cases ys with
    | nil =>
      have ih := addLoop_spec w hw xs [] ((x + 0 + c) / 2 ^ w) hxs (limbsOk_nil w) (by simp)
        (by
          have : x + 0 + c < 2 * 2 ^ w := by omega
          exact Nat.lt_succ_iff.mp (Nat.div_lt_of_lt_mul (by omega)))
      simp only [addLoop, List.headD_nil, List.tail_nil, toNat] at *
      refine ⟨?_, limbsOk_cons.mpr ⟨Nat.mod_lt _ B, ih.2⟩⟩
      rw [ih.1]
      have := Nat.div_add_mod (x + 0 + c) (2 ^ w)
      nlinarith
    | cons y ys =>
      have ⟨hy0, hys⟩ := limbsOk_cons.mp hy
      have ih := addLoop_spec w hw xs ys ((x + y + c) / 2 ^ w) hxs hys (by simpa using hl)
        (by
          have : x + y + c < 2 * 2 ^ w := by omega
          exact Nat.lt_succ_iff.mp (Nat.div_lt_of_lt_mul (by omega)))
      simp only [addLoop, List.headD_cons, List.tail_cons, toNat] at *
      refine ⟨?_, limbsOk_cons.mpr ⟨Nat.mod_lt _ B, ih.2⟩⟩
      rw [ih.1]
      have := Nat.div_add_mod (x + y + c) (2 ^ w)
      nlinarith

/-! ### compare_magnitude -/

theorem cmpLE_spec (w : Nat) : ∀ (a b : List Nat), a.length = b.length → LimbsOk w a → LimbsOk w b →
    cmpLE a b = compare (toNat w a) (toNat w b)
  | [], [], _, _, _ => by simp [cmpLE, toNat]
  | [], _ :: _, h, _, _ => by simp at h
  | _ :: _, [], h, _, _ => by simp at h
  | x :: xs, y :: ys, h, ha, hb => by
    have ⟨hx, hxs⟩ := limbsOk_cons.mp ha
    have ⟨hy, hys⟩ := limbsOk_cons.mp hb
    have ih := cmpLE_spec w xs ys (by simpa using h) hxs hys
    simp only [cmpLE, toNat]
    rw [ih]
    rcases Nat.lt_trichotomy (toNat w xs) (toNat w ys) with hlt | heq | hgt
    · have h1 : compare (toNat w xs) (toNat w ys) = .lt := Nat.compare_eq_lt.mpr hlt
      rw [h1]; symm
      apply Nat.compare_eq_lt.mpr
      have : 2 ^ w * (toNat w xs + 1) ≤ 2 ^ w * toNat w ys := Nat.mul_le_mul_left _ hlt
      rw [Nat.mul_add, Nat.mul_one] at this
      omega
    · rw [heq]; simp only [Nat.compare_eq_eq.mpr rfl]
      rcases Nat.lt_trichotomy x y with h1 | h1 | h1
      · rw [Nat.compare_eq_lt.mpr h1]; symm; apply Nat.compare_eq_lt.mpr; omega
      · subst h1; simp
      · rw [Nat.compare_eq_gt.mpr h1]; symm; apply Nat.compare_eq_gt.mpr; omega
    · have h1 : compare (toNat w xs) (toNat w ys) = .gt := Nat.compare_eq_gt.mpr hgt
      rw [h1]; symm
      apply Nat.compare_eq_gt.mpr
      have : 2 ^ w * (toNat w ys + 1) ≤ 2 ^ w * toNat w xs := Nat.mul_le_mul_left _ hgt
      rw [Nat.mul_add, Nat.mul_one] at this
      omega

/-- a canonical non-empty limb vector denotes at least `BASE^(len-1)`. -/
theorem toNat_ge_of_noLeadingZero (w : Nat) : ∀ (l : List Nat), l ≠ [] → NoLeadingZero l →
    (2 ^ w) ^ (l.length - 1) ≤ toNat w l
  | [], h, _ => absurd rfl h
  | [x], _, hz => by
    simp [NoLeadingZero] at hz
    simp [toNat]; omega
  | x :: y :: ys, _, hz => by
    have ih := toNat_ge_of_noLeadingZero w (y :: ys) (by simp) (by
      simpa [NoLeadingZero, List.getLast?_cons_cons] using hz)
    simp only [List.length_cons, Nat.add_sub_cancel] at *
    simp only [toNat] at *
    calc (2 ^ w) ^ (ys.length + 1) = 2 ^ w * (2 ^ w) ^ ys.length := by rw [pow_succ, Nat.mul_comm]
      _ ≤ 2 ^ w * (y + 2 ^ w * toNat w ys) := Nat.mul_le_mul_left _ ih
      _ ≤ x + 2 ^ w * (y + 2 ^ w * toNat w ys) := Nat.le_add_left _ _

theorem toNat_lt_of_length_lt (w : Nat) {a b : List Nat} (ha : LimbsOk w a) (hb : NoLeadingZero b)
    (hl : a.length < b.length) : toNat w a < toNat w b := by
  have h1 := toNat_lt ha
  have hne : b ≠ [] := by intro h; subst h; simp at hl
  have h2 := toNat_ge_of_noLeadingZero w b hne hb
  have : (2 ^ w) ^ a.length ≤ (2 ^ w) ^ (b.length - 1) :=
    Nat.pow_le_pow_right (Nat.two_pow_pos w) (by omega)
  omega

theorem cmpMag_spec (w : Nat) {a b : List Nat} (ha : LimbsOk w a) (hb : LimbsOk w b)
    (hza : NoLeadingZero a) (hzb : NoLeadingZero b) :
    cmpMag a b = compare (toNat w a) (toNat w b) := by
  unfold cmpMag
  by_cases hl : a.length = b.length
  · simp [hl]; exact cmpLE_spec w a b hl ha hb
  · simp only [ne_eq, hl, not_false_eq_true, if_true]
    by_cases hgt : a.length > b.length
    · simp only [hgt, if_true]; symm
      exact Nat.compare_eq_gt.mpr (toNat_lt_of_length_lt w hb hza hgt)
    · simp only [hgt, if_false]; symm
      exact Nat.compare_eq_lt.mpr (toNat_lt_of_length_lt w ha hzb (by omega))

/-! ### the borrow loop of operator-= -/

theorem subLoop_spec (w : Nat) : ∀ (xs ys : List Nat) (c : Nat), LimbsOk w xs → LimbsOk w ys →
    ys.length ≤ xs.length → c ≤ 1 → toNat w ys + c ≤ toNat w xs →
    toNat w (subLoop w xs ys c) = toNat w xs - toNat w ys - c ∧ LimbsOk w (subLoop w xs ys c)
  | [], ys, c, _, _, hl, _, hle => by
    have : ys = [] := List.length_eq_zero_iff.mp (Nat.le_zero.mp hl)
    subst this
    simp [subLoop, toNat] at *
    exact limbsOk_nil w
  | x :: xs, ys, c, hx, hy, hl, hc, hle => by
    have ⟨hx0, hxs⟩ := limbsOk_cons.mp hx
    have B : 0 < 2 ^ w := Nat.two_pow_pos w
    -- uniform treatment: y = head or 0, ys' = tail
    have key : ∀ (y : Nat) (ys' : List Nat), y < 2 ^ w → LimbsOk w ys' → ys'.length ≤ xs.length →
        y + 2 ^ w * toNat w ys' + c ≤ x + 2 ^ w * toNat w xs →
        toNat w (if y + c ≤ x then (x - y - c) :: subLoop w xs ys' 0 else (x + 2 ^ w - y - c) :: subLoop w xs ys' 1)
          = x + 2 ^ w * toNat w xs - (y + 2 ^ w * toNat w ys') - c ∧
        LimbsOk w (if y + c ≤ x then (x - y - c) :: subLoop w xs ys' 0 else (x + 2 ^ w - y - c) :: subLoop w xs ys' 1) := by
      intro y ys' hy0 hys' hl' hle'
      by_cases hb : y + c ≤ x
      · have hYX : toNat w ys' ≤ toNat w xs := by
          by_contra hcon
          have : 2 ^ w * (toNat w xs + 1) ≤ 2 ^ w * toNat w ys' := Nat.mul_le_mul_left _ (by omega)
          rw [Nat.mul_add, Nat.mul_one] at this
          omega
        have ih := subLoop_spec w xs ys' 0 hxs hys' hl' (by omega) (by omega)
        simp only [hb, if_true, toNat]
        refine ⟨?_, limbsOk_cons.mpr ⟨by omega, ih.2⟩⟩
        rw [ih.1]
        have : 2 ^ w * (toNat w xs - toNat w ys' - 0) = 2 ^ w * toNat w xs - 2 ^ w * toNat w ys' := by
          rw [Nat.sub_zero, Nat.mul_sub]
        have := Nat.mul_le_mul_left (2 ^ w) hYX
        omega
      · have hYX : toNat w ys' + 1 ≤ toNat w xs := by
          by_contra hcon
          have : 2 ^ w * toNat w xs ≤ 2 ^ w * toNat w ys' := Nat.mul_le_mul_left _ (by omega)
          omega
        have ih := subLoop_spec w xs ys' 1 hxs hys' hl' (by omega) (by omega)
        simp only [hb, if_false, toNat]
        refine ⟨?_, limbsOk_cons.mpr ⟨by omega, ih.2⟩⟩
        rw [ih.1]
        have h1 : 2 ^ w * (toNat w xs - toNat w ys' - 1) = 2 ^ w * toNat w xs - 2 ^ w * toNat w ys' - 2 ^ w := by
          rw [Nat.mul_sub, Nat.mul_sub, Nat.mul_one]
        have h2 := Nat.mul_le_mul_left (2 ^ w) hYX
        rw [Nat.mul_add, Nat.mul_one] at h2
        omega
    cases ys with
    | nil =>
      have := key 0 [] B (limbsOk_nil w) (by simp) (by simpa [toNat] using hle)
      simpa [subLoop, toNat] using this
    | cons y ys =>
      have ⟨hy0, hys⟩ := limbsOk_cons.mp hy
      have := key y ys hy0 hys (by simpa using hl) (by simpa [toNat] using hle)
      simpa [subLoop, toNat] using this

/-! ### value ↔ shape -/

theorem toNat_append (w : Nat) : ∀ (a b : List Nat), toNat w (a ++ b) = toNat w a + (2 ^ w) ^ a.length * toNat w b
  | [], b => by simp [toNat]
  | x :: xs, b => by
    simp only [List.cons_append, toNat, List.length_cons, toNat_append w xs b, pow_succ]
    ring

theorem noLeadingZero_of_ge (w : Nat) {l : List Nat} (hl : LimbsOk w l)
    (h : l ≠ [] → (2 ^ w) ^ (l.length - 1) ≤ toNat w l) : NoLeadingZero l := by
  unfold NoLeadingZero
  intro hlast
  obtain ⟨l', rfl⟩ : ∃ l', l = l' ++ [0] := by
    rcases List.eq_nil_or_concat l with rfl | ⟨l', a, rfl⟩
    · simp at hlast
    · simp at hlast; subst hlast; exact ⟨l', by simp⟩
  have hne : l' ++ [0] ≠ [] := by simp
  have h1 := h hne
  rw [toNat_append] at h1
  simp [toNat] at h1
  have hl' : LimbsOk w l' := fun x hx => hl x (List.mem_append_left _ hx)
  have := toNat_lt hl'
  omega

theorem addLoop_length (w : Nat) (hw : 0 < w) : ∀ (xs ys : List Nat) (c : Nat), LimbsOk w xs → LimbsOk w ys →
    ys.length ≤ xs.length → c ≤ 1 →
    (addLoop w xs ys c).length =
      if toNat w xs + toNat w ys + c < (2 ^ w) ^ xs.length then xs.length else xs.length + 1
  | [], ys, c, _, _, hl, hc => by
    have : ys = [] := List.length_eq_zero_iff.mp (Nat.le_zero.mp hl)
    subst this
    by_cases h1 : c = 1
    · simp [addLoop, h1, toNat]
    · have : c = 0 := by omega
      simp [addLoop, this, toNat]
  | x :: xs, ys, c, hx, hy, hl, hc => by
    have ⟨hx0, hxs⟩ := limbsOk_cons.mp hx
    have B : 0 < 2 ^ w := Nat.two_pow_pos w
    have key : ∀ (y : Nat) (ys' : List Nat), y < 2 ^ w → LimbsOk w ys' → ys'.length ≤ xs.length →
        (addLoop w xs ys' ((x + y + c) / 2 ^ w)).length + 1 =
          if x + 2 ^ w * toNat w xs + (y + 2 ^ w * toNat w ys') + c < (2 ^ w) ^ (xs.length + 1)
          then xs.length + 1 else xs.length + 1 + 1 := by
      intro y ys' hy0 hys' hl'
      have hc' : (x + y + c) / 2 ^ w ≤ 1 := by
        have : x + y + c < 2 * 2 ^ w := by omega
        exact Nat.lt_succ_iff.mp (Nat.div_lt_of_lt_mul (by omega))
      have ih := addLoop_length w hw xs ys' _ hxs hys' hl' hc'
      simp only [ih]
      have hdm := Nat.div_add_mod (x + y + c) (2 ^ w)
      have hmod := Nat.mod_lt (x + y + c) B
      -- T = r + B * Z with r < B:  T < B * K ↔ Z < K
      set Z := toNat w xs + toNat w ys' + (x + y + c) / 2 ^ w with hZ
      set K := (2 ^ w) ^ xs.length with hK
      have hT : x + 2 ^ w * toNat w xs + (y + 2 ^ w * toNat w ys') + c = (x + y + c) % 2 ^ w + 2 ^ w * Z := by
        rw [hZ]; nlinarith
      rw [hT, pow_succ, ← hK]
      by_cases hzk : Z < K
      · have : 2 ^ w * (Z + 1) ≤ 2 ^ w * K := Nat.mul_le_mul_left _ hzk
        rw [Nat.mul_add, Nat.mul_one] at this
        have h3 : (x + y + c) % 2 ^ w + 2 ^ w * Z < K * 2 ^ w := by rw [Nat.mul_comm K]; omega
        simp [hzk, h3]
      · have : 2 ^ w * K ≤ 2 ^ w * Z := Nat.mul_le_mul_left _ (by omega)
        have h3 : ¬ ((x + y + c) % 2 ^ w + 2 ^ w * Z < K * 2 ^ w) := by rw [Nat.mul_comm K]; omega
        simp [hzk, h3]
    cases ys with
    | nil =>
      have := key 0 [] B (limbsOk_nil w) (by simp)
      simp only [addLoop, List.headD_nil, List.tail_nil, toNat, List.length_cons, Nat.mul_zero, Nat.add_zero] at this ⊢
      exact this
    | cons y ys =>
      have ⟨hy0, hys⟩ := limbsOk_cons.mp hy
      have := key y ys hy0 hys (by simpa using hl)
      simp only [addLoop, List.headD_cons, List.tail_cons, toNat, List.length_cons]
      exact this

end UVerif.EInt
