/-
  einteger `operator*=`: the schoolbook loops on limb lists, any limb width.
  `mulRow` is the inner loop (shared by the pinned and the repaired variant); `mulRowsFixed` is the repaired
  outer loop (row carry stored in limb i+rl).
-/
import UVerifProofs.Lemmas.ElasticEInt

namespace UVerif.EInt

/-! ### block / setblock -/

theorem block_of_length_le {l : List Nat} {k : Nat} (h : l.length ≤ k) : block l k = 0 := by
  simp [block, List.getD, List.getElem?_eq_none h]

theorem block_lt {w : Nat} {l : List Nat} (hl : LimbsOk w l) (k : Nat) : block l k < 2 ^ w := by
  unfold block
  rw [List.getD_eq_getElem?_getD]
  cases h : l[k]? with
  | none => simp
  | some v => simp; exact hl v (List.mem_of_getElem? h)

theorem length_setblock (l : List Nat) (k v : Nat) : (setblock l k v).length = max l.length (k + 1) := by
  unfold setblock
  by_cases h : k < l.length
  · simp [h]; omega
  · simp [h]; omega

theorem toNat_set (w v : Nat) : ∀ (l : List Nat) (k : Nat), k < l.length →
    toNat w (l.set k v) + (2 ^ w) ^ k * l.getD k 0 = toNat w l + (2 ^ w) ^ k * v
  | [], k, h => by simp at h
  | x :: xs, 0, _ => by simp [toNat]; omega
  | x :: xs, k + 1, h => by
    have ih := toNat_set w v xs k (by simpa using h)
    simp only [List.set_cons_succ, toNat, List.getD_cons_succ, pow_succ]
    have h2 : 2 ^ w * (toNat w (xs.set k v) + (2 ^ w) ^ k * xs.getD k 0) = 2 ^ w * (toNat w xs + (2 ^ w) ^ k * v) := by
      rw [ih]
    linarith [h2]

theorem toNat_setblock (w : Nat) (l : List Nat) (k v : Nat) :
    toNat w (setblock l k v) + (2 ^ w) ^ k * block l k = toNat w l + (2 ^ w) ^ k * v := by
  unfold setblock
  by_cases h : k < l.length
  · simp only [h, if_true]; exact toNat_set w v l k h
  · simp only [h, if_false]
    rw [block_of_length_le (Nat.le_of_not_lt h), toNat_append, toNat_append_zeros]
    have e : l.length + (k - l.length) = k := by omega
    simp [toNat, e]

theorem limbsOk_setblock {w : Nat} {l : List Nat} (hl : LimbsOk w l) (k : Nat) {v : Nat} (hv : v < 2 ^ w) :
    LimbsOk w (setblock l k v) := by
  unfold setblock
  by_cases h : k < l.length
  · simp only [h, if_true]
    intro x hx
    rcases List.mem_or_eq_of_mem_set hx with hx | rfl
    · exact hl x hx
    · exact hv
  · simp only [h, if_false]
    intro x hx
    simp only [List.mem_append, List.mem_replicate, List.mem_singleton] at hx
    rcases hx with (hx | ⟨_, rfl⟩) | rfl
    · exact hl x hx
    · exact Nat.two_pow_pos w
    · exact hv

/-! ### the inner loop -/

theorem mulRow_spec (w bi i : Nat) : ∀ (rs : List Nat) (j : Nat) (acc : List Nat) (seg : Nat),
    toNat w (mulRow w bi i rs j acc seg).1 + (2 ^ w) ^ (i + j + rs.length) * (mulRow w bi i rs j acc seg).2
      = toNat w acc + (2 ^ w) ^ (i + j) * (seg + bi * toNat w rs)
  | [], j, acc, seg => by simp [mulRow, toNat]
  | rj :: rs, j, acc, seg => by
    have ih := mulRow_spec w bi i rs (j + 1) (setblock acc (i + j) ((seg + bi * rj + block acc (i + j)) % 2 ^ w))
      ((seg + bi * rj + block acc (i + j)) / 2 ^ w)
    have hs := toNat_setblock w acc (i + j) ((seg + bi * rj + block acc (i + j)) % 2 ^ w)
    have hdm := Nat.div_add_mod (seg + bi * rj + block acc (i + j)) (2 ^ w)
    simp only [mulRow, List.length_cons, toNat]
    have e1 : i + j + (rs.length + 1) = i + (j + 1) + rs.length := by omega
    rw [e1, ih]
    have e2 : (2 ^ w) ^ (i + (j + 1)) = (2 ^ w) ^ (i + j) * 2 ^ w := by
      rw [show i + (j + 1) = (i + j) + 1 by omega, pow_succ]
    rw [e2]
    generalize (2 ^ w) ^ (i + j) = P at *
    generalize hS : seg + bi * rj + block acc (i + j) = S at *
    have h3 : P * (2 ^ w * (S / 2 ^ w) + S % 2 ^ w) = P * S := by rw [hdm]
    have h4 : P * S = P * seg + P * (bi * rj) + P * block acc (i + j) := by rw [← hS]; ring
    linarith [hs, h3, h4]

theorem mulRow_length (w bi i : Nat) : ∀ (rs : List Nat) (j : Nat) (acc : List Nat) (seg : Nat),
    (mulRow w bi i rs j acc seg).1.length = if rs = [] then acc.length else max acc.length (i + j + rs.length)
  | [], j, acc, seg => by simp [mulRow]
  | rj :: rs, j, acc, seg => by
    have ih := mulRow_length w bi i rs (j + 1) (setblock acc (i + j) ((seg + bi * rj + block acc (i + j)) % 2 ^ w))
      ((seg + bi * rj + block acc (i + j)) / 2 ^ w)
    simp only [mulRow, ih, length_setblock]
    by_cases h : rs = []
    · subst h; simp
    · simp [h]; omega

theorem mulRow_ok (w bi i : Nat) (hbi : bi < 2 ^ w) : ∀ (rs : List Nat) (j : Nat) (acc : List Nat) (seg : Nat),
    LimbsOk w rs → LimbsOk w acc → seg < 2 ^ w →
    LimbsOk w (mulRow w bi i rs j acc seg).1 ∧ (mulRow w bi i rs j acc seg).2 < 2 ^ w
  | [], j, acc, seg, _, ha, hs => by simp [mulRow]; exact ⟨ha, hs⟩
  | rj :: rs, j, acc, seg, hr, ha, hs => by
    have ⟨hrj, hrs⟩ := limbsOk_cons.mp hr
    have B : 0 < 2 ^ w := Nat.two_pow_pos w
    have hb := block_lt ha (i + j)
    simp only [mulRow]
    apply mulRow_ok w bi i hbi rs (j + 1) _ _ hrs (limbsOk_setblock ha _ (Nat.mod_lt _ B))
    apply Nat.div_lt_of_lt_mul
    have : bi * rj ≤ (2 ^ w - 1) * (2 ^ w - 1) := Nat.mul_le_mul (by omega) (by omega)
    have e : (2 ^ w - 1) * (2 ^ w - 1) + 2 * (2 ^ w - 1) + 1 = 2 ^ w * 2 ^ w := by
      obtain ⟨t, ht⟩ : ∃ t, 2 ^ w = t + 1 := ⟨2 ^ w - 1, by omega⟩
      rw [ht]; simp; ring
    omega

/-! ### the repaired outer loop -/

theorem mulRowsFixed_spec (w : Nat) (r : List Nat) (hr : LimbsOk w r) : ∀ (bs : List Nat) (i : Nat) (acc : List Nat),
    LimbsOk w bs → LimbsOk w acc → acc.length ≤ i + r.length →
    toNat w (mulRowsFixed w r bs i acc) = toNat w acc + (2 ^ w) ^ i * (toNat w bs * toNat w r)
      ∧ LimbsOk w (mulRowsFixed w r bs i acc)
  | [], i, acc, _, ha, _ => by simp [mulRowsFixed, toNat]; exact ha
  | bi :: bs, i, acc, hb, ha, hlen => by
    have ⟨hbi, hbs⟩ := limbsOk_cons.mp hb
    have B : 0 < 2 ^ w := Nat.two_pow_pos w
    have hrow := mulRow_spec w bi i r 0 acc 0
    have hrl := mulRow_length w bi i r 0 acc 0
    have hok := mulRow_ok w bi i hbi r 0 acc 0 hr ha B
    simp only [Nat.add_zero, Nat.zero_add] at hrow hrl
    set p := mulRow w bi i r 0 acc 0 with hp
    have hplen : p.1.length ≤ i + r.length := by
      rw [hrl]; split <;> omega
    -- limb i+rl is fresh
    have hfresh : block p.1 (i + r.length) = 0 := block_of_length_le hplen
    let acc2 := if p.2 ≠ 0 then setblock p.1 (i + r.length) p.2 else p.1
    have hv : toNat w acc2 = toNat w acc + (2 ^ w) ^ i * (bi * toNat w r) := by
      by_cases h0 : p.2 = 0
      · simp only [acc2, h0, ne_eq, not_true_eq_false, if_false]
        rw [h0] at hrow; simpa using hrow
      · simp only [acc2, h0, ne_eq, not_false_eq_true, if_true]
        have := toNat_setblock w p.1 (i + r.length) p.2
        rw [hfresh] at this
        omega
    have hok2 : LimbsOk w acc2 := by
      by_cases h0 : p.2 = 0
      · simp only [acc2, h0, ne_eq, not_true_eq_false, if_false]; exact hok.1
      · simp only [acc2, h0, ne_eq, not_false_eq_true, if_true]; exact limbsOk_setblock hok.1 _ hok.2
    have hlen2 : acc2.length ≤ (i + 1) + r.length := by
      by_cases h0 : p.2 = 0
      · simp only [acc2, h0, ne_eq, not_true_eq_false, if_false]; omega
      · simp only [acc2, h0, ne_eq, not_false_eq_true, if_true]; rw [length_setblock]; omega
    have ih := mulRowsFixed_spec w r hr bs (i + 1) acc2 hbs hok2 hlen2
    simp only [mulRowsFixed]
    refine ⟨?_, ih.2⟩
    rw [ih.1, hv]
    simp only [toNat, pow_succ]
    ring

theorem setblock_at_length (l : List Nat) (v : Nat) : setblock l l.length v = l ++ [v] := by
  simp [setblock]

/-- shape of the repaired product: either `ll + rl - 1` limbs, or one more whose top limb is a non-zero carry. -/
theorem mulRowsFixed_shape (w : Nat) (r : List Nat) (hrne : r ≠ []) : ∀ (bs : List Nat) (i : Nat) (acc : List Nat),
    bs ≠ [] → acc.length ≤ i + r.length →
    (mulRowsFixed w r bs i acc).length = i + bs.length - 1 + r.length ∨
      ((mulRowsFixed w r bs i acc).length = i + bs.length + r.length ∧ (mulRowsFixed w r bs i acc).getLast? ≠ some 0)
  | [], _, _, h, _ => absurd rfl h
  | bi :: bs, i, acc, _, hlen => by
    have hrl := mulRow_length w bi i r 0 acc 0
    simp only [Nat.add_zero, hrne, if_false] at hrl
    have hpl : (mulRow w bi i r 0 acc 0).1.length = i + r.length := by rw [hrl]; omega
    simp only [mulRowsFixed]
    cases bs with
    | nil =>
      simp only [mulRowsFixed, List.length_cons, List.length_nil]
      by_cases h0 : (mulRow w bi i r 0 acc 0).2 = 0
      · left; simp [h0, hpl]
      · right
        simp only [h0, ne_eq, not_false_eq_true, if_true]
        rw [← hpl, setblock_at_length]
        simp [h0]
        omega
    | cons b' bs' =>
      have hlen2 : (if (mulRow w bi i r 0 acc 0).2 ≠ 0 then setblock (mulRow w bi i r 0 acc 0).1 (i + r.length) (mulRow w bi i r 0 acc 0).2
          else (mulRow w bi i r 0 acc 0).1).length ≤ (i + 1) + r.length := by
        split
        · rw [length_setblock]; omega
        · omega
      have ih := mulRowsFixed_shape w r hrne (b' :: bs') (i + 1) _ (by simp) hlen2
      simp only [List.length_cons] at ih ⊢
      rcases ih with h | h
      · left; omega
      · right; exact ⟨by omega, h.2⟩

/-- canonical zero test: `iszero()` of a canonical object means "no limbs". -/
theorem isZero_canon {w : Nat} {x : EI} (h : Canon w x) : isZero x = true ↔ x.limbs = [] := by
  unfold isZero
  rcases hx : x.limbs with _ | ⟨v, _ | ⟨v', t⟩⟩
  · simp
  · have := h.2; rw [hx] at this
    simp [NoLeadingZero] at this
    simp [this]
  · simp

/-- the repaired `operator*=`: exact product, canonical result — any limb width, any lengths, any signs. -/
theorem mulFixed_spec (w : Nat) (x r : EI) (hx : Canon w x) (hr : Canon w r) :
    toInt w (mulFixed w x r) = toInt w x * toInt w r ∧ Canon w (mulFixed w x r) := by
  unfold mulFixed
  by_cases hz : (isZero x || isZero r) = true
  · simp only [hz, if_true]
    have : x.limbs = [] ∨ r.limbs = [] := by
      rcases Bool.or_eq_true_iff.mp hz with h | h
      · exact Or.inl ((isZero_canon hx).mp h)
      · exact Or.inr ((isZero_canon hr).mp h)
    refine ⟨?_, limbsOk_nil w, by simp [NoLeadingZero]⟩
    rcases this with h | h <;> simp [toInt, h, toNat]
  · simp only [hz, Bool.false_eq_true, if_false]
    have hxne : x.limbs ≠ [] := by
      intro h; apply hz; simp [(isZero_canon hx).mpr h]
    have hrne : r.limbs ≠ [] := by
      intro h; apply hz; simp [(isZero_canon hr).mpr h]
    have hs := mulRowsFixed_spec w r.limbs hr.1 x.limbs 0 [] hx.1 (limbsOk_nil w) (by simp)
    have hsh := mulRowsFixed_shape w r.limbs hrne x.limbs 0 [] hxne (by simp)
    simp only [toNat, pow_zero, Nat.one_mul, Nat.zero_add] at hs hsh
    refine ⟨?_, hs.2, ?_⟩
    · simp only [toInt, hs.1]
      cases x.sign <;> cases r.sign <;> simp
    · rcases hsh with h | h
      · apply noLeadingZero_of_ge w hs.2
        intro _
        rw [hs.1, h]
        have h1 := toNat_ge_of_noLeadingZero w x.limbs hxne hx.2
        have h2 := toNat_ge_of_noLeadingZero w r.limbs hrne hr.2
        have hlx : 0 < x.limbs.length := List.length_pos_iff.mpr hxne
        have hlr : 0 < r.limbs.length := List.length_pos_iff.mpr hrne
        have e : x.limbs.length - 1 + r.limbs.length - 1 = (x.limbs.length - 1) + (r.limbs.length - 1) := by omega
        rw [e, pow_add]
        exact Nat.mul_le_mul h1 h2
      · exact h.2

end UVerif.EInt
