/-
  The PINNED `operator*=` (mulAsIs) is exact when the right operand has at most one limb — the only way `parse`
  uses it (`scale * digit`, `scale *= 10`) — and the decimal branch of `parse` yields the integer its digit
  string denotes.
-/
import UVerifProofs.Lemmas.ElasticPrint

namespace UVerif.EInt

/-- rows of the pinned loop against a ONE-limb right operand: the carry of row i enters row i+1 = limb i+rl. -/
theorem mulRowsAsIs_single (w r0 : Nat) : ∀ (bs : List Nat) (i : Nat) (acc : List Nat) (seg : Nat),
    toNat w (mulRowsAsIs w [r0] bs i acc seg).1 + (2 ^ w) ^ (i + bs.length) * (mulRowsAsIs w [r0] bs i acc seg).2
      = toNat w acc + (2 ^ w) ^ i * (seg + toNat w bs * r0)
  | [], i, acc, seg => by simp [mulRowsAsIs, toNat]
  | bi :: bs, i, acc, seg => by
    have hrow := mulRow_spec w bi i [r0] 0 acc seg
    have ih := mulRowsAsIs_single w r0 bs (i + 1) (mulRow w bi i [r0] 0 acc seg).1 (mulRow w bi i [r0] 0 acc seg).2
    simp only [mulRowsAsIs, List.length_cons, toNat]
    simp only [Nat.add_zero, List.length_singleton, toNat, Nat.mul_zero] at hrow
    have e1 : i + (bs.length + 1) = i + 1 + bs.length := by omega
    rw [e1, ih, pow_succ]
    rw [pow_succ] at hrow
    generalize (2 ^ w) ^ i = P at *
    generalize toNat w (mulRow w bi i [r0] 0 acc seg).1 = T at *
    generalize (mulRow w bi i [r0] 0 acc seg).2 = S at *
    have h2 : P * 2 ^ w * (S + toNat w bs * r0) = P * 2 ^ w * S + P * (2 ^ w * toNat w bs) * r0 := by ring
    have h3 : P * (seg + (bi + 2 ^ w * toNat w bs) * r0) = P * (seg + bi * r0) + P * (2 ^ w * toNat w bs) * r0 := by ring
    linarith [hrow, h2, h3]

theorem mulRowsAsIs_single_shape (w r0 : Nat) (hr0 : r0 < 2 ^ w) : ∀ (bs : List Nat) (i : Nat) (acc : List Nat) (seg : Nat),
    LimbsOk w bs → LimbsOk w acc → seg < 2 ^ w → acc.length ≤ i →
    (mulRowsAsIs w [r0] bs i acc seg).1.length = (if bs = [] then acc.length else i + bs.length) ∧
    LimbsOk w (mulRowsAsIs w [r0] bs i acc seg).1 ∧ (mulRowsAsIs w [r0] bs i acc seg).2 < 2 ^ w
  | [], i, acc, seg, _, ha, hs, _ => by simp [mulRowsAsIs]; exact ⟨ha, hs⟩
  | bi :: bs, i, acc, seg, hb, ha, hs, hl => by
    have ⟨hbi, hbs⟩ := limbsOk_cons.mp hb
    have hok := mulRow_ok w bi i hbi [r0] 0 acc seg (limbsOk_cons.mpr ⟨hr0, limbsOk_nil w⟩) ha hs
    have hlen := mulRow_length w bi i [r0] 0 acc seg
    simp only [List.cons_ne_nil, if_false, Nat.add_zero, List.length_singleton] at hlen
    have hlen' : (mulRow w bi i [r0] 0 acc seg).1.length = i + 1 := by rw [hlen]; omega
    have ih := mulRowsAsIs_single_shape w r0 hr0 bs (i + 1) _ _ hbs hok.1 hok.2 (by omega)
    simp only [mulRowsAsIs, List.cons_ne_nil, if_false, List.length_cons]
    refine ⟨?_, ih.2⟩
    rw [ih.1]
    split
    · rename_i h; subst h; simp [hlen']
    · omega

/-- the pinned `operator*=` with a right operand of at most one limb: exact and canonical. -/
theorem mulAsIs_single (w : Nat) (x r : EI) (hx : Canon w x) (hr : Canon w r) (h1 : r.limbs.length ≤ 1) :
    toInt w (mulAsIs w x r) = toInt w x * toInt w r ∧ Canon w (mulAsIs w x r) := by
  unfold mulAsIs
  by_cases hz : (isZero x || isZero r) = true
  · simp only [hz, if_true]
    have : x.limbs = [] ∨ r.limbs = [] := by
      rcases Bool.or_eq_true_iff.mp hz with h | h
      · exact Or.inl ((isZero_canon hx).mp h)
      · exact Or.inr ((isZero_canon hr).mp h)
    refine ⟨?_, limbsOk_nil w, by simp [NoLeadingZero]⟩
    rcases this with h | h <;> simp [toInt, h, toNat]
  · simp only [hz, Bool.false_eq_true, if_false]
    have hxne : x.limbs ≠ [] := by
      intro h; apply hz; simp [(isZero_canon hx).mpr h]
    have hrne : r.limbs ≠ [] := by
      intro h; apply hz; simp [(isZero_canon hr).mpr h]
    obtain ⟨r0, hr0⟩ : ∃ r0, r.limbs = [r0] := by
      rcases hl : r.limbs with _ | ⟨v, _ | _⟩
      · exact absurd hl hrne
      · exact ⟨v, rfl⟩
      · rw [hl] at h1; simp at h1
    have hr0lt : r0 < 2 ^ w := hr.1 r0 (by simp [hr0])
    have hr0ne : r0 ≠ 0 := by
      have := hr.2; rw [hr0] at this; simpa [NoLeadingZero] using this
    have hv := mulRowsAsIs_single w r0 x.limbs 0 [] 0
    obtain ⟨s1, s2, s3⟩ := mulRowsAsIs_single_shape w r0 hr0lt x.limbs 0 [] 0 hx.1 (limbsOk_nil w) (Nat.two_pow_pos w) (by simp)
    simp only [hxne, if_false, Nat.zero_add] at s1
    simp only [toNat, pow_zero, Nat.one_mul, Nat.zero_add] at hv
    rw [hr0]
    simp only [List.length_singleton, Nat.add_sub_cancel]
    set p := mulRowsAsIs w [r0] x.limbs 0 [] 0 with hp
    have hRv : toNat w r.limbs = r0 := by simp [hr0, toNat]
    by_cases hc : p.2 = 0
    · simp only [hc, ne_eq, not_true_eq_false, if_false]
      rw [hc] at hv
      have hval : toNat w p.1 = toNat w x.limbs * r0 := by simpa using hv
      refine ⟨?_, s2, ?_⟩
      · simp only [toInt, hval, hr0, toNat, Nat.mul_zero, Nat.add_zero]
        cases x.sign <;> cases r.sign <;> simp
      · apply noLeadingZero_of_ge w s2
        intro _
        rw [hval, s1]
        have h1 := toNat_ge_of_noLeadingZero w x.limbs hxne hx.2
        calc (2 ^ w) ^ (x.limbs.length - 1) ≤ toNat w x.limbs := h1
          _ = toNat w x.limbs * 1 := (Nat.mul_one _).symm
          _ ≤ toNat w x.limbs * r0 := Nat.mul_le_mul_left _ (by omega)
    · simp only [hc, ne_eq, not_false_eq_true, if_true]
      rw [Nat.mod_eq_of_lt s3, ← s1, setblock_at_length]
      refine ⟨?_, ?_, ?_⟩
      · simp only [toInt, toNat_append, toNat, Nat.mul_zero, Nat.add_zero, hr0]
        rw [s1] 
        have : toNat w p.1 + (2 ^ w) ^ x.limbs.length * p.2 = toNat w x.limbs * r0 := hv
        have hI : ((toNat w p.1 : Nat) : Int) + (((2 ^ w) ^ x.limbs.length * p.2 : Nat) : Int) = ((toNat w x.limbs * r0 : Nat) : Int) := by
          exact_mod_cast this
        push_cast at hI
        cases x.sign <;> cases r.sign <;> simp <;> linarith [hI]
      · intro y hy
        rcases List.mem_append.mp hy with hy | hy
        · exact s2 y hy
        · simp at hy; rw [hy]; exact s3
      · simp [NoLeadingZero, hc]

/-- whichever loop `EInt.mul` is switched to (pinned `mulAsIs` or repaired `mulFixed`), it is exact and canonical
    for a right operand of at most one limb. The proof tries both, so flipping the switch does not break it. -/
theorem mul_single (w : Nat) (x r : EI) (hx : Canon w x) (hr : Canon w r) (h1 : r.limbs.length ≤ 1) :
    toInt w (EInt.mul w x r) = toInt w x * toInt w r ∧ Canon w (EInt.mul w x r) := by
  unfold EInt.mul
  first
    | exact mulAsIs_single w x r hx hr h1
    | exact mulFixed_spec w x r hx hr

/-! ### parse (decimal branch) -/

theorem digitChar_facts (d : Nat) (hd : d < 10) :
    digitChar d ≠ '-' ∧ digitChar d ≠ '+' ∧ (digitChar d).toNat - '0'.toNat = d := by
  have : d = 0 ∨ d = 1 ∨ d = 2 ∨ d = 3 ∨ d = 4 ∨ d = 5 ∨ d = 6 ∨ d = 7 ∨ d = 8 ∨ d = 9 := by omega
  rcases this with rfl | rfl | rfl | rfl | rfl | rfl | rfl | rfl | rfl | rfl <;> decide

theorem canon_ofSmall (w v : Nat) (hv : v < 2 ^ w) : Canon w (ofSmall v) ∧ toInt w (ofSmall v) = v ∧ (ofSmall v).limbs.length ≤ 1 := by
  unfold ofSmall
  by_cases h0 : v = 0
  · simp [h0, Canon, LimbsOk, NoLeadingZero, toInt, toNat]
  · simp [h0, Canon, LimbsOk, NoLeadingZero, toInt, toNat, hv]

/-- one step of the parse loop on a digit character -/
def parseStep (w : Nat) (st : ParseSt) (c : Char) : ParseSt :=
  if st.stop then st
  else if c = '-' then { st with sign := true }
  else if c = '+' then { st with stop := true }
  else
    let digit := ofSmall (c.toNat - '0'.toNat)
    { st with value := add w st.value (mul w st.scale digit), scale := mul w st.scale (ofSmall 10) }

theorem parseChars_eq (w : Nat) (cs : List Char) :
    parseChars w cs = { (cs.reverse.foldl (parseStep w) {}).value with sign := (cs.reverse.foldl (parseStep w) {}).sign } := rfl

structure ParseInv (w : Nat) (st : ParseSt) (V S : Nat) : Prop where
  vC : Canon w st.value
  sC : Canon w st.scale
  vV : toInt w st.value = V
  sV : toInt w st.scale = S
  stop : st.stop = false

theorem parse_digits (w : Nat) (hw : 4 ≤ w) : ∀ (ls : List Nat) (st : ParseSt) (V S : Nat), DigitsOk ls → ParseInv w st V S →
    ParseInv w ((ls.map digitChar).foldl (parseStep w) st) (V + S * lsVal ls) (S * 10 ^ ls.length) ∧
    ((ls.map digitChar).foldl (parseStep w) st).sign = st.sign
  | [], st, V, S, _, inv => by
    simp only [List.map_nil, List.foldl_nil, lsVal, Nat.mul_zero, Nat.add_zero, List.length_nil, pow_zero, Nat.mul_one]
    exact ⟨inv, trivial⟩
  | d :: ls, st, V, S, hd, inv => by
    have hd0 : d < 10 := hd d (List.mem_cons_self ..)
    have hls : DigitsOk ls := fun x hx => hd x (List.mem_cons_of_mem _ hx)
    obtain ⟨c1, c2, c3⟩ := digitChar_facts d hd0
    have h16 : 16 ≤ 2 ^ w := by
      calc 16 = 2 ^ 4 := by norm_num
        _ ≤ 2 ^ w := Nat.pow_le_pow_right (by decide) hw
    obtain ⟨dC, dV, dL⟩ := canon_ofSmall w d (by omega)
    obtain ⟨tC, tV, tL⟩ := canon_ofSmall w 10 (by omega)
    have hw0 : 0 < w := by omega
    -- the step
    have hstep : parseStep w st (digitChar d) =
        { st with value := add w st.value (EInt.mul w st.scale (ofSmall d)), scale := EInt.mul w st.scale (ofSmall 10) } := by
      unfold parseStep
      simp only [inv.stop, Bool.false_eq_true, if_false, c1, c2, c3]
    have m1 := mul_single w st.scale (ofSmall d) inv.sC dC dL
    have m2 := mul_single w st.scale (ofSmall 10) inv.sC tC tL
    have a1 := add_spec w hw0 st.value (EInt.mul w st.scale (ofSmall d)) inv.vC m1.2
    have inv' : ParseInv w (parseStep w st (digitChar d)) (V + S * d) (S * 10) := by
      rw [hstep]
      refine ⟨a1.2, m2.2, ?_, ?_, inv.stop⟩
      · show toInt w (add w st.value (EInt.mul w st.scale (ofSmall d))) = _
        rw [a1.1, m1.1, inv.vV, inv.sV, dV]; push_cast; ring
      · show toInt w (EInt.mul w st.scale (ofSmall 10)) = _
        rw [m2.1, inv.sV, tV]; push_cast; ring
    have ih := parse_digits w hw ls (parseStep w st (digitChar d)) (V + S * d) (S * 10) hls inv'
    simp only [List.map_cons, List.foldl_cons]
    refine ⟨?_, ?_⟩
    · have e1 : V + S * lsVal (d :: ls) = V + S * d + S * 10 * lsVal ls := by simp only [lsVal]; ring
      have e2 : S * 10 ^ (d :: ls).length = S * 10 * 10 ^ ls.length := by simp only [List.length_cons, pow_succ]; ring
      rw [e1, e2]; exact ih.1
    · rw [ih.2, hstep]

theorem natAbs_toInt (w : Nat) (x : EI) : (toInt w x).natAbs = toNat w x.limbs := by
  unfold toInt; split <;> simp

/-- `parse` (decimal branch): an optional `-` followed by decimal digits yields exactly that integer, canonical. -/
theorem parse_spec (w : Nat) (hw : 4 ≤ w) (ds : List Nat) (hds : DigitsOk ds) (neg : Bool) :
    toNat w (parseChars w ((if neg then ['-'] else []) ++ ds.map digitChar)).limbs = msVal ds ∧
    (parseChars w ((if neg then ['-'] else []) ++ ds.map digitChar)).sign = neg ∧
    Canon w (parseChars w ((if neg then ['-'] else []) ++ ds.map digitChar)) := by
  rw [parseChars_eq]
  have hrev : ((if neg then ['-'] else []) ++ ds.map digitChar).reverse = (ds.reverse.map digitChar) ++ (if neg then ['-'] else []) := by
    cases neg <;> simp [List.map_reverse]
  rw [hrev, List.foldl_append]
  have inv0 : ParseInv w ({} : ParseSt) 0 1 := by
    refine ⟨⟨limbsOk_nil w, by simp [NoLeadingZero]⟩, ⟨?_, by simp [NoLeadingZero]⟩, by simp [toInt, toNat], by simp [toInt, toNat], rfl⟩
    intro x hx; simp at hx; rw [hx]; exact Nat.one_lt_two_pow_iff.mpr (by omega)
  have hrd : DigitsOk ds.reverse := fun x hx => hds x (List.mem_reverse.mp hx)
  obtain ⟨inv, hsign⟩ := parse_digits w hw ds.reverse {} 0 1 hrd inv0
  simp only [Nat.zero_add, Nat.one_mul] at inv
  have hval : toNat w ((ds.reverse.map digitChar).foldl (parseStep w) {}).value.limbs = msVal ds := by
    rw [← natAbs_toInt, inv.vV]
    have := msVal_reverse ds.reverse
    rw [List.reverse_reverse] at this
    simp [this]
  generalize (ds.reverse.map digitChar).foldl (parseStep w) {} = S at *
  cases neg with
  | false =>
    simp only [Bool.false_eq_true, if_false, List.foldl_nil]
    exact ⟨hval, hsign, inv.vC⟩
  | true =>
    simp only [if_true, List.foldl_cons, List.foldl_nil]
    have hs : parseStep w S '-' = { S with sign := true } := by
      unfold parseStep
      rw [if_neg (by rw [inv.stop]; simp), if_pos rfl]
    rw [hs]
    exact ⟨hval, rfl, inv.vC⟩

end UVerif.EInt
