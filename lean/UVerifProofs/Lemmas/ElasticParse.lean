/-
  The decimal branch of `parse` (`value += scale * digit; scale *= 10`) yields the integer its digit string denotes.
-/
import UVerifProofs.Lemmas.ElasticPrint

namespace UVerif.EInt

/-- `operator*=` is exact and canonical (here used for a right operand of at most one limb: `scale * digit`, `scale *= 10`). -/
theorem mul_single (w : Nat) (x r : EI) (hx : Canon w x) (hr : Canon w r) (_h1 : r.limbs.length ≤ 1) :
    toInt w (EInt.mul w x r) = toInt w x * toInt w r ∧ Canon w (EInt.mul w x r) := by
  unfold EInt.mul
  exact mulFixed_spec w x r hx hr

/-! ### parse (decimal branch) -/

theorem digitChar_facts (d : Nat) (hd : d < 10) :
    digitChar d ≠ '-' ∧ digitChar d ≠ '+' ∧ (digitChar d).toNat - '0'.toNat = d := by
  have : d = 0 ∨ d = 1 ∨ d = 2 ∨ d = 3 ∨ d = 4 ∨ d = 5 ∨ d = 6 ∨ d = 7 ∨ d = 8 ∨ d = 9 := by omega
  rcases this with rfl | rfl | rfl | rfl | rfl | rfl | rfl | rfl | rfl | rfl <;> decide

theorem canon_ofSmall (w v : Nat) (hv : v < 2 ^ w) : Canon w (ofSmall v) ∧ toInt w (ofSmall v) = v ∧ (ofSmall v).limbs.length ≤ 1 := by
  unfold ofSmall
  by_cases h0 : v = 0
  · simp [h0, Canon, LimbsOk, NoLeadingZero, toInt, toNat]
  · simp [h0, Canon, LimbsOk, NoLeadingZero, toInt, toNat, hv]

/-- one step of the parse loop on a digit character -/
def parseStep (w : Nat) (st : ParseSt) (c : Char) : ParseSt :=
  if st.stop then st
  else if c = '-' then { st with sign := true }
  else if c = '+' then { st with stop := true }
  else
    let digit := ofSmall (c.toNat - '0'.toNat)
    { st with value := add w st.value (mul w st.scale digit), scale := mul w st.scale (ofSmall 10) }

theorem parseChars_eq (w : Nat) (cs : List Char) :
    parseChars w cs = { (cs.reverse.foldl (parseStep w) {}).value with sign := (cs.reverse.foldl (parseStep w) {}).sign } := rfl

structure ParseInv (w : Nat) (st : ParseSt) (V S : Nat) : Prop where
  vC : Canon w st.value
  sC : Canon w st.scale
  vV : toInt w st.value = V
  sV : toInt w st.scale = S
  stop : st.stop = false

theorem parse_digits (w : Nat) (hw : 4 ≤ w) : ∀ (ls : List Nat) (st : ParseSt) (V S : Nat), DigitsOk ls → ParseInv w st V S →
    ParseInv w ((ls.map digitChar).foldl (parseStep w) st) (V + S * lsVal ls) (S * 10 ^ ls.length) ∧
    ((ls.map digitChar).foldl (parseStep w) st).sign = st.sign
  | [], st, V, S, _, inv => by
    simp only [List.map_nil, List.foldl_nil, lsVal, Nat.mul_zero, Nat.add_zero, List.length_nil, pow_zero, Nat.mul_one]
    exact ⟨inv, trivial⟩
  | d :: ls, st, V, S, hd, inv => by
    have hd0 : d < 10 := hd d (List.mem_cons_self ..)
    have hls : DigitsOk ls := fun x hx => hd x (List.mem_cons_of_mem _ hx)
    obtain ⟨c1, c2, c3⟩ := digitChar_facts d hd0
    have h16 : 16 ≤ 2 ^ w := by
      calc 16 = 2 ^ 4 := by norm_num
        _ ≤ 2 ^ w := Nat.pow_le_pow_right (by decide) hw
    obtain ⟨dC, dV, dL⟩ := canon_ofSmall w d (by omega)
    obtain ⟨tC, tV, tL⟩ := canon_ofSmall w 10 (by omega)
    have hw0 : 0 < w := by omega
    -- the step
    have hstep : parseStep w st (digitChar d) =
        { st with value := add w st.value (EInt.mul w st.scale (ofSmall d)), scale := EInt.mul w st.scale (ofSmall 10) } := by
      unfold parseStep
      simp only [inv.stop, Bool.false_eq_true, if_false, c1, c2, c3]
    have m1 := mul_single w st.scale (ofSmall d) inv.sC dC dL
    have m2 := mul_single w st.scale (ofSmall 10) inv.sC tC tL
    have a1 := add_spec w hw0 st.value (EInt.mul w st.scale (ofSmall d)) inv.vC m1.2
    have inv' : ParseInv w (parseStep w st (digitChar d)) (V + S * d) (S * 10) := by
      rw [hstep]
      refine ⟨a1.2, m2.2, ?_, ?_, inv.stop⟩
      · show toInt w (add w st.value (EInt.mul w st.scale (ofSmall d))) = _
        rw [a1.1, m1.1, inv.vV, inv.sV, dV]; push_cast; ring
      · show toInt w (EInt.mul w st.scale (ofSmall 10)) = _
        rw [m2.1, inv.sV, tV]; push_cast; ring
    have ih := parse_digits w hw ls (parseStep w st (digitChar d)) (V + S * d) (S * 10) hls inv'
    simp only [List.map_cons, List.foldl_cons]
    refine ⟨?_, ?_⟩
    · have e1 : V + S * lsVal (d :: ls) = V + S * d + S * 10 * lsVal ls := by simp only [lsVal]; ring
      have e2 : S * 10 ^ (d :: ls).length = S * 10 * 10 ^ ls.length := by simp only [List.length_cons, pow_succ]; ring
      rw [e1, e2]; exact ih.1
    · rw [ih.2, hstep]

theorem natAbs_toInt (w : Nat) (x : EI) : (toInt w x).natAbs = toNat w x.limbs := by
  unfold toInt; split <;> simp

/-- `parse` (decimal branch): an optional `-` followed by decimal digits yields exactly that integer, canonical. -/
theorem parse_spec (w : Nat) (hw : 4 ≤ w) (ds : List Nat) (hds : DigitsOk ds) (neg : Bool) :
    toNat w (parseChars w ((if neg then ['-'] else []) ++ ds.map digitChar)).limbs = msVal ds ∧
    (parseChars w ((if neg then ['-'] else []) ++ ds.map digitChar)).sign = neg ∧
    Canon w (parseChars w ((if neg then ['-'] else []) ++ ds.map digitChar)) := by
  rw [parseChars_eq]
  have hrev : ((if neg then ['-'] else []) ++ ds.map digitChar).reverse = (ds.reverse.map digitChar) ++ (if neg then ['-'] else []) := by
    cases neg <;> simp [List.map_reverse]
  rw [hrev, List.foldl_append]
  have inv0 : ParseInv w ({} : ParseSt) 0 1 := by
    refine ⟨⟨limbsOk_nil w, by simp [NoLeadingZero]⟩, ⟨?_, by simp [NoLeadingZero]⟩, by simp [toInt, toNat], by simp [toInt, toNat], rfl⟩
    intro x hx; simp at hx; rw [hx]; exact Nat.one_lt_two_pow_iff.mpr (by omega)
  have hrd : DigitsOk ds.reverse := fun x hx => hds x (List.mem_reverse.mp hx)
  obtain ⟨inv, hsign⟩ := parse_digits w hw ds.reverse {} 0 1 hrd inv0
  simp only [Nat.zero_add, Nat.one_mul] at inv
  have hval : toNat w ((ds.reverse.map digitChar).foldl (parseStep w) {}).value.limbs = msVal ds := by
    rw [← natAbs_toInt, inv.vV]
    have := msVal_reverse ds.reverse
    rw [List.reverse_reverse] at this
    simp [this]
  generalize (ds.reverse.map digitChar).foldl (parseStep w) {} = S at *
  cases neg with
  | false =>
    simp only [Bool.false_eq_true, if_false, List.foldl_nil]
    exact ⟨hval, hsign, inv.vC⟩
  | true =>
    simp only [if_true, List.foldl_cons, List.foldl_nil]
    have hs : parseStep w S '-' = { S with sign := true } := by
      unfold parseStep
      rw [if_neg (by rw [inv.stop]; simp), if_pos rfl]
    rw [hs]
    exact ⟨hval, rfl, inv.vC⟩

end UVerif.EInt
