/-
  einteger decimal output (`convert_to_string`, decimal branch): the digits written are the decimal expansion
  of the magnitude.
-/
import UVerifProofs.Lemmas.ElasticDiv

namespace UVerif.EInt

/-- value of a digit list, least significant digit first -/
def lsVal : List Nat → Nat
  | [] => 0
  | d :: ds => d + 10 * lsVal ds

/-- value of a digit list, most significant digit first (how a reader evaluates the printed text) -/
def msVal (ds : List Nat) : Nat := ds.foldl (fun acc d => acc * 10 + d) 0

theorem lsVal_append : ∀ (a b : List Nat), lsVal (a ++ b) = lsVal a + 10 ^ a.length * lsVal b
  | [], b => by simp [lsVal]
  | x :: xs, b => by
    simp only [List.cons_append, lsVal, List.length_cons, lsVal_append xs b, pow_succ]; ring

theorem foldl_dec (ds : List Nat) (a : Nat) :
    ds.foldl (fun acc d => acc * 10 + d) a = a * 10 ^ ds.length + ds.foldl (fun acc d => acc * 10 + d) 0 := by
  induction ds generalizing a with
  | nil => simp
  | cons d ds ih =>
    simp only [List.foldl_cons, List.length_cons, Nat.zero_mul, Nat.zero_add]
    rw [ih (a * 10 + d), ih d, pow_succ]; ring

theorem msVal_reverse (ds : List Nat) : msVal ds.reverse = lsVal ds := by
  induction ds with
  | nil => rfl
  | cons d ds ih =>
    unfold msVal at *
    simp only [List.reverse_cons, List.foldl_append, List.foldl_cons, List.foldl_nil, lsVal, ih]; ring

theorem msVal_dropZeros : ∀ (ds : List Nat), msVal (ds.dropWhile (· == 0)) = msVal ds
  | [] => rfl
  | d :: ds => by
    by_cases h : d = 0
    · subst h
      have ih := msVal_dropZeros ds
      simp only [List.dropWhile_cons, beq_self_eq_true, if_true, ih]
      simp [msVal]
    · simp [h]

theorem head_dropZeros (ds : List Nat) : (ds.dropWhile (· == 0)).head? ≠ some 0 := by
  induction ds with
  | nil => simp
  | cons d ds ih =>
    by_cases h : d = 0
    · subst h; simpa [List.dropWhile_cons] using ih
    · simp [h]

def DigitsOk (ds : List Nat) : Prop := ∀ d ∈ ds, d < 10

theorem blockDigits_spec : ∀ (c v : Nat), (blockDigits c v).length = c ∧ DigitsOk (blockDigits c v) ∧
    lsVal (blockDigits c v) = v % 10 ^ c
  | 0, v => by simp [blockDigits, DigitsOk, lsVal, Nat.mod_one]
  | c + 1, v => by
    obtain ⟨h1, h2, h3⟩ := blockDigits_spec c (v / 10)
    refine ⟨by simp [blockDigits, h1], ?_, ?_⟩
    · intro d hd
      simp only [blockDigits, List.mem_cons] at hd
      rcases hd with rfl | hd
      · exact Nat.mod_lt _ (by decide)
      · exact h2 d hd
    · simp only [blockDigits, lsVal, h3, pow_succ]
      rw [Nat.mul_comm (10 ^ c) 10, Nat.mod_mul]

theorem lsVal_lt : ∀ {ds : List Nat}, DigitsOk ds → lsVal ds < 10 ^ ds.length
  | [], _ => by simp [lsVal]
  | d :: ds, h => by
    have hd : d < 10 := h d (List.mem_cons_self ..)
    have ih := @lsVal_lt ds (fun x hx => h x (List.mem_cons_of_mem _ hx))
    simp only [lsVal, List.length_cons, pow_succ]; omega

theorem lsVal_take : ∀ (L : Nat) (ds : List Nat), DigitsOk ds → lsVal (ds.take L) = lsVal ds % 10 ^ L
  | 0, ds, _ => by simp [lsVal, Nat.mod_one]
  | L + 1, [], _ => by simp [lsVal]
  | L + 1, d :: ds, h => by
    have hd : d < 10 := h d (List.mem_cons_self ..)
    have ih := lsVal_take L ds (fun x hx => h x (List.mem_cons_of_mem _ hx))
    simp only [List.take_succ_cons, lsVal, ih, pow_succ]
    rw [Nat.mul_comm (10 ^ L) 10, Nat.mod_mul]
    have : (d + 10 * lsVal ds) % 10 = d := by omega
    have h2 : (d + 10 * lsVal ds) / 10 = lsVal ds := by omega
    rw [this, h2]

theorem pow2_le_pow10 (n : Nat) : 2 ^ n ≤ 10 ^ (n / 3 + 1) := by
  have h := Nat.div_add_mod n 3
  have hr : n % 3 < 3 := Nat.mod_lt _ (by decide)
  calc 2 ^ n = 2 ^ (3 * (n / 3) + n % 3) := by rw [h]
    _ = 8 ^ (n / 3) * 2 ^ (n % 3) := by rw [pow_add, pow_mul]; norm_num
    _ ≤ 10 ^ (n / 3) * 10 := by
        apply Nat.mul_le_mul (Nat.pow_le_pow_left (by decide) _)
        have h3 : n % 3 = 0 ∨ n % 3 = 1 ∨ n % 3 = 2 := by omega
        rcases h3 with h3 | h3 | h3 <;> rw [h3] <;> decide
    _ = 10 ^ (n / 3 + 1) := by rw [pow_succ]

/-- the three instantiations: block10 is a power of ten that fits one limb. -/
theorem block10_facts (w : Nat) (hw : w = 8 ∨ w = 16 ∨ w = 32) :
    (block10 w).1 = 10 ^ (block10 w).2 ∧ 2 ≤ (block10 w).1 ∧ (block10 w).1 < 2 ^ w := by
  rcases hw with rfl | rfl | rfl <;> decide

/-- the digit loop: with enough fuel it produces digits whose value is the magnitude. -/
theorem printLoop_spec (w : Nat) (hw : w = 8 ∨ w = 16 ∨ w = 32) : ∀ (fuel : Nat) (t : EI), Canon w t →
    toNat w t.limbs < 2 ^ fuel → lsVal (printLoop w fuel t) = toNat w t.limbs ∧ DigitsOk (printLoop w fuel t)
  | 0, t, _, h => by
    have : toNat w t.limbs = 0 := by simpa using h
    simp [printLoop, lsVal, this, DigitsOk]
  | fuel + 1, t, ht, h => by
    obtain ⟨hb1, hb2, hb3⟩ := block10_facts w hw
    simp only [printLoop]
    by_cases hz : isZero t = true
    · have : t.limbs = [] := (isZero_canon ht).mp hz
      simp [hz, lsVal, this, toNat, DigitsOk]
    · simp only [hz, Bool.false_eq_true, if_false]
      obtain ⟨hq, hr, _, hcq, _, _⟩ := reduce_single_limb w t { sign := false, limbs := [(block10 w).1] } (block10 w).1 ht rfl
        (by omega) hb3
      obtain ⟨c1, c2, c3⟩ := blockDigits_spec (block10 w).2 (block (reduce w t { sign := false, limbs := [(block10 w).1] }).r.limbs 0)
      have hqlt : toNat w (reduce w t { sign := false, limbs := [(block10 w).1] }).q.limbs < 2 ^ fuel := by
        rw [hq]
        have : toNat w t.limbs / (block10 w).1 ≤ toNat w t.limbs / 2 := Nat.div_le_div_left hb2 (by decide)
        rw [pow_succ] at h
        omega
      obtain ⟨i1, i2⟩ := printLoop_spec w hw fuel _ hcq hqlt
      refine ⟨?_, ?_⟩
      · rw [lsVal_append, c1, c3, i1, hr, hq, ← hb1, Nat.mod_mod]
        rw [Nat.add_comm]; exact Nat.div_add_mod _ _
      · intro d hd
        rcases List.mem_append.mp hd with hd | hd
        · exact c2 d hd
        · exact i2 d hd

/-- `convert_to_string`: the digits left after erasing the leading zeros are the decimal expansion of the magnitude. -/
theorem toDecimalDigits_spec (w : Nat) (hw : w = 8 ∨ w = 16 ∨ w = 32) (x : EI) (hx : Canon w x) :
    msVal (toDecimalDigits w x) = toNat w x.limbs ∧ DigitsOk (toDecimalDigits w x) ∧
      (toDecimalDigits w x).head? ≠ some 0 := by
  unfold toDecimalDigits
  have hlt : toNat w x.limbs < 2 ^ (x.limbs.length * w + 1) := by
    have := toNat_lt hx.1
    rw [← pow_mul, Nat.mul_comm] at this
    rw [pow_succ]; omega
  obtain ⟨p1, p2⟩ := printLoop_spec w hw (x.limbs.length * w + 1) x hx hlt
  have hlt10 : toNat w x.limbs < 10 ^ (x.limbs.length * w / 3 + 1) := by
    have := toNat_lt hx.1
    rw [← pow_mul, Nat.mul_comm] at this
    exact Nat.lt_of_lt_of_le this (pow2_le_pow10 _)
  refine ⟨?_, ?_, head_dropZeros _⟩
  · rw [msVal_dropZeros, msVal_reverse, lsVal_take _ _ p2, p1, Nat.mod_eq_of_lt hlt10]
  · intro d hd
    have := (List.dropWhile_suffix (· == 0)).subset hd
    rw [List.mem_reverse] at this
    exact p2 d (List.mem_of_mem_take this)

end UVerif.EInt
