/-
  erational: Euclid loop of normalize(), cross multiplication.
-/
import Mathlib.Tactic.FieldSimp
import UVerifProofs.Lemmas.ElasticDecDiv

namespace UVerif.ERat
open UVerif.EDec

/-- a non-negative canonical edecimal (numerators and denominators are "managed as positive numbers") -/
def PosCanon (x : ED) : Prop := ECanon x ∧ x.neg = false

/-- invariant of an erational object: both parts canonical non-negative, denominator non-zero -/
def ERCanon (x : ER) : Prop := PosCanon x.num ∧ PosCanon x.den ∧ 0 < EDec.toNat x.den.d

theorem rem_spec_nonneg {a b : ED} (ha : PosCanon a) (hb : PosCanon b) (hb0 : 0 < EDec.toNat b.d) :
    PosCanon (EDec.rem a b) ∧ EDec.toNat (EDec.rem a b).d = EDec.toNat a.d % EDec.toNat b.d := by
  obtain ⟨_, h2, _, h4, _, h6, _⟩ := divide_spec ha.1 hb.1 (nz_of_nonneg ha.2) (by omega)
  have hn := h6 ha.2
  refine ⟨⟨h4, hn⟩, ?_⟩
  have : (EDec.toNat (EDec.rem a b).d : Int) = ((EDec.toNat a.d % EDec.toNat b.d : Nat) : Int) := by
    have e := h2
    rw [toInt_nonneg_of ha.2, toInt_nonneg_of hb.2] at e
    unfold EDec.rem
    rw [← toInt_nonneg_of hn, e]; rfl
  exact_mod_cast this

theorem div_spec_nonneg {a b : ED} (ha : PosCanon a) (hb : PosCanon b) (hb0 : 0 < EDec.toNat b.d) :
    PosCanon (EDec.div a b) ∧ EDec.toNat (EDec.div a b).d = EDec.toNat a.d / EDec.toNat b.d := by
  obtain ⟨h1, _, h3, _, h5, _⟩ := divide_spec ha.1 hb.1 (nz_of_nonneg ha.2) (by omega)
  have hn : (EDec.div a b).neg = false := by
    unfold EDec.div
    rcases h5 with h | h
    · rw [h, ha.2, hb.2]; rfl
    · rw [h]; rfl
  refine ⟨⟨h3, hn⟩, ?_⟩
  have : (EDec.toNat (EDec.div a b).d : Int) = ((EDec.toNat a.d / EDec.toNat b.d : Nat) : Int) := by
    have e := h1
    rw [toInt_nonneg_of ha.2, toInt_nonneg_of hb.2] at e
    have hn' : (divide a b).1.neg = false := hn
    show (EDec.toNat (divide a b).1.d : Int) = _
    rw [← toInt_nonneg_of hn', e]; rfl
  exact_mod_cast this

theorem gcdLoop_succ (fuel : Nat) (a b : ED) :
    gcdLoop (fuel + 1) a b = if EDec.lt EDec.zero (EDec.rem a b) then gcdLoop fuel b (EDec.rem a b) else b := rfl

/-- Euclid on edecimals: with `A ≥ B > 0` and `A·B < 2^fuel` the loop returns gcd(A, B). -/
theorem gcdLoop_spec : ∀ (fuel : Nat) (a b : ED), PosCanon a → PosCanon b → 0 < EDec.toNat b.d →
    EDec.toNat b.d ≤ EDec.toNat a.d → EDec.toNat a.d * EDec.toNat b.d < 2 ^ fuel →
    PosCanon (gcdLoop fuel a b) ∧ EDec.toNat (gcdLoop fuel a b).d = Nat.gcd (EDec.toNat a.d) (EDec.toNat b.d)
  | 0, a, b, _, _, hb0, hle, hlt => by
    simp at hlt
    have : 0 < EDec.toNat a.d * EDec.toNat b.d := Nat.mul_pos (by omega) hb0
    omega
  | fuel + 1, a, b, ha, hb, hb0, hle, hlt => by
    obtain ⟨hr, hrv⟩ := rem_spec_nonneg ha hb hb0
    rw [gcdLoop_succ]
    rw [lt_spec ecanon_zero hr.1 nz_zero (nz_of_nonneg hr.2), toInt_zero, toInt_nonneg_of hr.2, hrv]
    by_cases hpos : (0 : Int) < ((EDec.toNat a.d % EDec.toNat b.d : Nat) : Int)
    · have hpos' : 0 < EDec.toNat a.d % EDec.toNat b.d := by exact_mod_cast hpos
      simp only [hpos, decide_true, if_true]
      have hmod := Nat.mod_lt (EDec.toNat a.d) hb0
      have hdm := Nat.div_add_mod (EDec.toNat a.d) (EDec.toNat b.d)
      have hq : 1 ≤ EDec.toNat a.d / EDec.toNat b.d := Nat.div_pos hle hb0
      have h2r : 2 * (EDec.toNat a.d % EDec.toNat b.d) ≤ EDec.toNat a.d := by
        have : EDec.toNat b.d * 1 ≤ EDec.toNat b.d * (EDec.toNat a.d / EDec.toNat b.d) := Nat.mul_le_mul_left _ hq
        omega
      have hprod : EDec.toNat b.d * (EDec.toNat a.d % EDec.toNat b.d) < 2 ^ fuel := by
        have : 2 * (EDec.toNat b.d * (EDec.toNat a.d % EDec.toNat b.d)) ≤ EDec.toNat a.d * EDec.toNat b.d := by
          calc 2 * (EDec.toNat b.d * (EDec.toNat a.d % EDec.toNat b.d))
              = EDec.toNat b.d * (2 * (EDec.toNat a.d % EDec.toNat b.d)) := by ring
            _ ≤ EDec.toNat b.d * EDec.toNat a.d := Nat.mul_le_mul_left _ h2r
            _ = EDec.toNat a.d * EDec.toNat b.d := Nat.mul_comm _ _
        rw [pow_succ] at hlt
        omega
      have ih := gcdLoop_spec fuel b (EDec.rem a b) hb hr (by rw [hrv]; exact hpos') (by rw [hrv]; omega)
        (by rw [hrv]; exact hprod)
      refine ⟨ih.1, ?_⟩
      rw [ih.2, hrv, Nat.gcd_comm (EDec.toNat a.d) (EDec.toNat b.d), Nat.gcd_rec (EDec.toNat b.d) (EDec.toNat a.d),
        Nat.gcd_comm]
    · have h0 : EDec.toNat a.d % EDec.toNat b.d = 0 := by
        by_contra hc
        exact hpos (by exact_mod_cast Nat.pos_of_ne_zero hc)
      simp only [hpos, decide_false, Bool.false_eq_true, if_false]
      exact ⟨hb, (Nat.gcd_eq_right (Nat.dvd_of_mod_eq_zero h0)).symm⟩

theorem pow10_le_pow2 (k : Nat) : 10 ^ k ≤ 2 ^ (4 * k) := by
  rw [pow_mul]; exact Nat.pow_le_pow_left (by decide) k

/-- entry of normalize(): any numerator (also smaller than the denominator, also zero). -/
theorem gcdLoop_entry {a b : ED} (ha : PosCanon a) (hb : PosCanon b) (hb0 : 0 < EDec.toNat b.d) :
    PosCanon (gcdLoop (5 * (b.d.length + a.d.length) + 5) a b) ∧
    EDec.toNat (gcdLoop (5 * (b.d.length + a.d.length) + 5) a b).d = Nat.gcd (EDec.toNat a.d) (EDec.toNat b.d) := by
  have hA := EDec.toNat_lt ha.1.1
  have hB := EDec.toNat_lt hb.1.1
  have hAB : EDec.toNat a.d * EDec.toNat b.d < 2 ^ (4 * (b.d.length + a.d.length)) := by
    have h1 : EDec.toNat a.d * EDec.toNat b.d < 10 ^ a.d.length * 10 ^ b.d.length :=
      Nat.mul_lt_mul'' hA hB
    have h2 : 10 ^ a.d.length * 10 ^ b.d.length = 10 ^ (b.d.length + a.d.length) := by
      rw [← pow_add, Nat.add_comm]
    have := pow10_le_pow2 (b.d.length + a.d.length)
    omega
  have hmono : ∀ k, 4 * (b.d.length + a.d.length) ≤ k → EDec.toNat a.d * EDec.toNat b.d < 2 ^ k := by
    intro k hk
    exact Nat.lt_of_lt_of_le hAB (Nat.pow_le_pow_right (by decide) hk)
  by_cases hle : EDec.toNat b.d ≤ EDec.toNat a.d
  · exact gcdLoop_spec _ a b ha hb hb0 hle (hmono _ (by omega))
  · -- one wasted step: a % b = a
    have hlt : EDec.toNat a.d < EDec.toNat b.d := by omega
    obtain ⟨hr, hrv⟩ := rem_spec_nonneg ha hb hb0
    rw [Nat.mod_eq_of_lt hlt] at hrv
    rw [show 5 * (b.d.length + a.d.length) + 5 = (5 * (b.d.length + a.d.length) + 4) + 1 from rfl]
    rw [gcdLoop_succ]
    rw [lt_spec ecanon_zero hr.1 nz_zero (nz_of_nonneg hr.2), toInt_zero, toInt_nonneg_of hr.2, hrv]
    by_cases hpos : (0 : Int) < (EDec.toNat a.d : Int)
    · have hpos' : 0 < EDec.toNat a.d := by exact_mod_cast hpos
      simp only [hpos, decide_true, if_true]
      have ih := gcdLoop_spec (5 * (b.d.length + a.d.length) + 4) b (EDec.rem a b) hb hr (by rw [hrv]; exact hpos')
        (by rw [hrv]; omega) (by rw [hrv, Nat.mul_comm]; exact hmono _ (by omega))
      refine ⟨ih.1, ?_⟩
      rw [ih.2, hrv, Nat.gcd_comm]
    · have h0 : EDec.toNat a.d = 0 := by
        by_contra hc
        exact hpos (by exact_mod_cast Nat.pos_of_ne_zero hc)
      simp only [hpos, decide_false, Bool.false_eq_true, if_false]
      exact ⟨hb, by rw [h0, Nat.gcd_zero_left]⟩

/-- value of an erational object whose parts are non-negative -/
theorem toRat_eq {x : ER} (hn : x.num.neg = false) (hd : x.den.neg = false) :
    toRat x = (if x.neg then -1 else 1) * ((EDec.toNat x.num.d : Rat) / (EDec.toNat x.den.d : Rat)) := by
  unfold toRat
  rw [toInt_nonneg_of hn, toInt_nonneg_of hd]
  split <;> simp

/-- normalize(): same value, lowest terms, positive denominator, and (commit 5d744db) no sign on a zero numerator. -/
theorem normalize_spec {x : ER} (hx : ERCanon x) :
    toRat (normalize x) = toRat x ∧ ERCanon (normalize x) ∧
    (normalize x).neg = (if EDec.toNat (normalize x).num.d = 0 then false else x.neg) ∧
    Nat.gcd (EDec.toNat (normalize x).num.d) (EDec.toNat (normalize x).den.d) = 1 ∧
    EDec.toNat (normalize x).num.d = EDec.toNat x.num.d / Nat.gcd (EDec.toNat x.num.d) (EDec.toNat x.den.d) ∧
    EDec.toNat (normalize x).den.d = EDec.toNat x.den.d / Nat.gcd (EDec.toNat x.num.d) (EDec.toNat x.den.d) := by
  obtain ⟨hn, hd, hd0⟩ := hx
  obtain ⟨hg, hgv⟩ := gcdLoop_entry hn hd hd0
  have hG : 0 < Nat.gcd (EDec.toNat x.num.d) (EDec.toNat x.den.d) := Nat.gcd_pos_of_pos_right _ hd0
  obtain ⟨hq1, hq1v⟩ := div_spec_nonneg hn hg (by rw [hgv]; exact hG)
  obtain ⟨hq2, hq2v⟩ := div_spec_nonneg hd hg (by rw [hgv]; exact hG)
  rw [hgv] at hq1v hq2v
  have hdiv2 : Nat.gcd (EDec.toNat x.num.d) (EDec.toNat x.den.d) ∣ EDec.toNat x.den.d := Nat.gcd_dvd_right _ _
  have hdiv1 : Nat.gcd (EDec.toNat x.num.d) (EDec.toNat x.den.d) ∣ EDec.toNat x.num.d := Nat.gcd_dvd_left _ _
  have hden_pos : 0 < EDec.toNat x.den.d / Nat.gcd (EDec.toNat x.num.d) (EDec.toNat x.den.d) :=
    Nat.div_pos (Nat.le_of_dvd hd0 hdiv2) hG
  have hN : (normalize x).num = EDec.div x.num (gcdLoop (5 * (x.den.d.length + x.num.d.length) + 5) x.num x.den) := rfl
  have hD : (normalize x).den = EDec.div x.den (gcdLoop (5 * (x.den.d.length + x.num.d.length) + 5) x.num x.den) := rfl
  have hS : (normalize x).neg = (if EDec.toNat (normalize x).num.d = 0 then false else x.neg) := by
    show (if EDec.isZero (EDec.div x.num (gcdLoop (5 * (x.den.d.length + x.num.d.length) + 5) x.num x.den)) then false else x.neg) = _
    rw [hN]
    by_cases hz : EDec.toNat (EDec.div x.num (gcdLoop (5 * (x.den.d.length + x.num.d.length) + 5) x.num x.den)).d = 0
    · simp [(isZero_iff _).mpr hz, hz]
    · have : EDec.isZero (EDec.div x.num (gcdLoop (5 * (x.den.d.length + x.num.d.length) + 5) x.num x.den)) = false := by
        cases h : EDec.isZero (EDec.div x.num (gcdLoop (5 * (x.den.d.length + x.num.d.length) + 5) x.num x.den)) with
        | false => rfl
        | true => exact absurd ((isZero_iff _).mp h) hz
      simp [this, hz]
  -- the reduced fraction has the same value
  have hfrac : ((EDec.toNat x.num.d / Nat.gcd (EDec.toNat x.num.d) (EDec.toNat x.den.d) : Nat) : Rat) /
      ((EDec.toNat x.den.d / Nat.gcd (EDec.toNat x.num.d) (EDec.toNat x.den.d) : Nat) : Rat)
      = (EDec.toNat x.num.d : Rat) / (EDec.toNat x.den.d : Rat) := by
    obtain ⟨n', hn'⟩ := hdiv1
    obtain ⟨d', hd'⟩ := hdiv2
    generalize Nat.gcd (EDec.toNat x.num.d) (EDec.toNat x.den.d) = G at *
    rw [hn', hd', Nat.mul_div_cancel_left _ hG, Nat.mul_div_cancel_left _ hG]
    have hg' : (G : Rat) ≠ 0 := by exact_mod_cast (Nat.pos_iff_ne_zero.mp hG)
    have hd'' : (d' : Rat) ≠ 0 := by
      have : d' ≠ 0 := by
        rintro rfl; rw [hd'] at hd0; simp at hd0
      exact_mod_cast this
    push_cast
    field_simp
  refine ⟨?_, ⟨by rw [hN]; exact hq1, by rw [hD]; exact hq2, by rw [hD, hq2v]; exact hden_pos⟩, hS, ?_, by rw [hN, hq1v], by rw [hD, hq2v]⟩
  · rw [toRat_eq (x := normalize x) (by rw [hN]; exact hq1.2) (by rw [hD]; exact hq2.2), toRat_eq hn.2 hd.2, hS]
    have hnv : EDec.toNat (normalize x).num.d = EDec.toNat x.num.d / Nat.gcd (EDec.toNat x.num.d) (EDec.toNat x.den.d) := by rw [hN, hq1v]
    have hdv : EDec.toNat (normalize x).den.d = EDec.toNat x.den.d / Nat.gcd (EDec.toNat x.num.d) (EDec.toNat x.den.d) := by rw [hD, hq2v]
    rw [hnv, hdv, hfrac]
    by_cases hz : EDec.toNat x.num.d / Nat.gcd (EDec.toNat x.num.d) (EDec.toNat x.den.d) = 0
    · have hN0 : EDec.toNat x.num.d = 0 := by
        have := Nat.mul_div_cancel' hdiv1
        rw [hz, Nat.mul_zero] at this
        exact this.symm
      simp [hN0]
    · simp [hz]
  · rw [hN, hD, hq1v, hq2v]
    exact Nat.coprime_div_gcd_div_gcd hG

end UVerif.ERat
