/-
  erational operators: cross multiplication followed by normalize().
-/
import UVerifProofs.Lemmas.ElasticRat

namespace UVerif.ERat
open UVerif.EDec

/-- signed numerator as an integer -/
def sN (x : ER) : Int := EDec.toInt (signedNum x)

theorem ecanon_signedNum {x : ER} (h : ECanon x.num) : ECanon (signedNum x) := by
  unfold signedNum; split <;> exact h

theorem sN_eq {x : ER} (hn : x.num.neg = false) : sN x = if x.neg then -(EDec.toNat x.num.d : Int) else EDec.toNat x.num.d := by
  unfold sN signedNum
  split
  · simp [EDec.toInt, EDec.neg, hn]
  · simp [EDec.toInt, hn]

theorem toRat_signed {x : ER} (hx : ERCanon x) : toRat x = (sN x : Rat) / (EDec.toNat x.den.d : Rat) := by
  rw [toRat_eq hx.1.2 hx.2.1.2, sN_eq hx.1.2]
  split <;> simp [neg_div]

theorem posCanon_mul {a b : ED} (ha : PosCanon a) (hb : PosCanon b) :
    PosCanon (EDec.mul a b) ∧ EDec.toNat (EDec.mul a b).d = EDec.toNat a.d * EDec.toNat b.d := by
  have h := mul_spec ha.1 hb.1
  have hn : (EDec.mul a b).neg = false := by
    rcases mul_neg_or_zero a b with h' | h'
    · rw [h', ha.2, hb.2]; rfl
    · rw [h']; rfl
  refine ⟨⟨h.2, hn⟩, ?_⟩
  have e := h.1
  rw [toInt_nonneg_of hn, toInt_nonneg_of ha.2, toInt_nonneg_of hb.2] at e
  exact_mod_cast e

/-- the object built from a signed numerator `e` and a positive denominator `f` -/
theorem pre_spec (e f : ED) (he : ECanon e) (hf : PosCanon f) (hf0 : 0 < EDec.toNat f.d) :
    ERCanon { neg := e.neg, num := if e.neg then EDec.neg e else e, den := f } ∧
    toRat { neg := e.neg, num := if e.neg then EDec.neg e else e, den := f } = (EDec.toInt e : Rat) / (EDec.toNat f.d : Rat) ∧
    EDec.toNat ({ neg := e.neg, num := if e.neg then EDec.neg e else e, den := f } : ER).num.d = EDec.toNat e.d := by
  cases hen : e.neg with
  | true =>
    have hnum : PosCanon (EDec.neg e) := ⟨he, by simp [EDec.neg, hen]⟩
    refine ⟨⟨by simpa using hnum, hf, hf0⟩, ?_, by simp [EDec.neg]⟩
    rw [toRat_eq (by simp [EDec.neg, hen]) hf.2]
    simp [EDec.toInt, hen, EDec.neg, neg_div]
  | false =>
    have hnum : PosCanon e := ⟨he, hen⟩
    refine ⟨⟨by simpa using hnum, hf, hf0⟩, ?_, by simp⟩
    rw [toRat_eq (by simpa using hen) hf.2]
    simp [EDec.toInt, hen]

/-- everything the property says about one result: its value, and the shape `normalize()` leaves -/
structure Good (res : ER) (v : Rat) : Prop where
  value : toRat res = v
  canon : ERCanon res
  lowest : Nat.gcd (EDec.toNat res.num.d) (EDec.toNat res.den.d) = 1

theorem good_of_pre {pre : ER} {v : Rat} (hc : ERCanon pre) (hv : toRat pre = v) : Good (normalize pre) v := by
  obtain ⟨h1, h2, _, h4, _, _⟩ := normalize_spec hc
  exact ⟨by rw [h1, hv], h2, h4⟩

/-- the object `normalize()` is applied to -/
def preOf (e f : ED) : ER := { neg := e.neg, num := if e.neg then EDec.neg e else e, den := f }

/-- no "negative zero" operand: the sign flag is clear when the numerator is zero -/
def NNZ (x : ER) : Prop := ¬ (x.neg = true ∧ EDec.toNat x.num.d = 0)

theorem nz_signedNum {x : ER} (h : NNZ x) (hn : x.num.neg = false) : NZ (signedNum x) := by
  unfold signedNum
  split
  · rename_i hx
    intro ⟨_, h2⟩
    exact h ⟨hx, by simpa [EDec.neg] using h2⟩
  · exact nz_of_nonneg hn

theorem mul_nz {a b : ED} (ha : ECanon a) (hb : ECanon b) : NZ (EDec.mul a b) := by
  intro ⟨h1, h2⟩
  have hs := mul_spec ha hb
  unfold EDec.mul at h1 h2 hs
  by_cases hz : (EDec.isZero a || EDec.isZero b) = true
  · simp [hz, EDec.zero] at h1
  · simp only [hz, Bool.false_eq_true, if_false] at h1 h2 hs
    have ha0 : EDec.toNat a.d ≠ 0 := by
      intro h0; apply hz; simp [(isZero_iff a).mpr h0]
    have hb0 : EDec.toNat b.d ≠ 0 := by
      intro h0; apply hz; simp [(isZero_iff b).mpr h0]
    have e := hs.1
    have hne : EDec.toInt a * EDec.toInt b ≠ 0 := by
      apply Int.mul_ne_zero
      · unfold EDec.toInt; split <;> simp <;> omega
      · unfold EDec.toInt; split <;> simp <;> omega
    apply hne
    rw [← e]
    simp [EDec.toInt, h2]

/-- structure of `+=` / `-=`: `normalize()` applied to the signed cross-multiplied numerator `e` over `f`. -/
theorem addsub_shape (isSub : Bool) {x r : ER} (hx : ERCanon x) (hr : ERCanon r) :
    ∃ e f : ED, addsub isSub x r = normalize (preOf e f) ∧ ECanon e ∧ PosCanon f ∧ 0 < EDec.toNat f.d ∧
      (EDec.toInt e : Rat) / (EDec.toNat f.d : Rat) = (if isSub then toRat x - toRat r else toRat x + toRat r) ∧
      (NNZ x → NNZ r → NZ e) := by
  have hDx : (EDec.toNat x.den.d : Rat) ≠ 0 := by exact_mod_cast (Nat.pos_iff_ne_zero.mp hx.2.2)
  have hDr : (EDec.toNat r.den.d : Rat) ≠ 0 := by exact_mod_cast (Nat.pos_iff_ne_zero.mp hr.2.2)
  have ha := ecanon_signedNum hx.1.1
  have hc := ecanon_signedNum hr.1.1
  unfold addsub
  simp only []
  by_cases heq : EDec.eq x.den r.den = true
  · simp only [heq, if_true]
    have hdd : EDec.toNat x.den.d = EDec.toNat r.den.d := by
      rw [eq_spec hx.2.1.1 hr.2.1.1 (nz_of_nonneg hx.2.1.2) (nz_of_nonneg hr.2.1.2)] at heq
      have := of_decide_eq_true heq
      rw [toInt_nonneg_of hx.2.1.2, toInt_nonneg_of hr.2.1.2] at this
      exact_mod_cast this
    cases isSub with
    | true =>
      have hn := sub_spec ha hc
      refine ⟨EDec.sub (signedNum x) (signedNum r), x.den, rfl, hn.2, hx.2.1, hx.2.2, ?_,
        fun h1 _ => sub_nz ha hc (nz_signedNum h1 hx.1.2)⟩
      rw [hn.1, toRat_signed hx, toRat_signed hr, ← hdd]
      simp only [sN, if_true]; push_cast; field_simp
    | false =>
      have hn := add_spec ha hc
      refine ⟨EDec.add (signedNum x) (signedNum r), x.den, rfl, hn.2, hx.2.1, hx.2.2, ?_,
        fun h1 _ => add_nz ha hc (nz_signedNum h1 hx.1.2)⟩
      rw [hn.1, toRat_signed hx, toRat_signed hr, ← hdd]
      simp only [sN, Bool.false_eq_true, if_false]; push_cast; field_simp
  · simp only [heq, Bool.false_eq_true, if_false]
    have hm1 := mul_spec ha hr.2.1.1
    have hm2 := mul_spec hx.2.1.1 hc
    obtain ⟨hf, hfv⟩ := posCanon_mul hx.2.1 hr.2.1
    have hf0 : 0 < EDec.toNat (EDec.mul x.den r.den).d := by rw [hfv]; exact Nat.mul_pos hx.2.2 hr.2.2
    cases isSub with
    | true =>
      have he := sub_spec hm1.2 hm2.2
      simp only [if_true]
      refine ⟨_, _, rfl, he.2, hf, hf0, ?_, fun _ _ => sub_nz hm1.2 hm2.2 (mul_nz ha hr.2.1.1)⟩
      rw [he.1, hm1.1, hm2.1, hfv, toRat_signed hx, toRat_signed hr,
        toInt_nonneg_of hx.2.1.2, toInt_nonneg_of hr.2.1.2]
      simp only [sN]; push_cast; field_simp
    | false =>
      have he := add_spec hm1.2 hm2.2
      simp only [Bool.false_eq_true, if_false]
      refine ⟨_, _, rfl, he.2, hf, hf0, ?_, fun _ _ => add_nz hm1.2 hm2.2 (mul_nz ha hr.2.1.1)⟩
      rw [he.1, hm1.1, hm2.1, hfv, toRat_signed hx, toRat_signed hr,
        toInt_nonneg_of hx.2.1.2, toInt_nonneg_of hr.2.1.2]
      simp only [sN]; push_cast; field_simp

theorem addsub_spec (isSub : Bool) {x r : ER} (hx : ERCanon x) (hr : ERCanon r) :
    Good (addsub isSub x r) (if isSub then toRat x - toRat r else toRat x + toRat r) := by
  obtain ⟨e, f, h1, h2, h3, h4, h5, _⟩ := addsub_shape isSub hx hr
  obtain ⟨p1, p2, _⟩ := pre_spec e f h2 h3 h4
  rw [h1]
  exact good_of_pre p1 (by rw [← h5]; exact p2)

theorem digits_of_value {y : ED} (hy : ECanon y) {v : Nat} (hv : v < 10) (h : EDec.toNat y.d = v) : y.d = [v] := by
  have hc : ECanon (EDec.ofDigit v) := ecanon_ofDigit hv
  exact toNat_inj_canon hy.1 hc.1 hy.2 hc.2 (by simp [h, EDec.toNat])

/-- a zero sum / difference is printed `0/1` (operands without a negative zero). -/
theorem addsub_zero_text (isSub : Bool) {x r : ER} (hx : ERCanon x) (hr : ERCanon r) (hnx : NNZ x) (hnr : NNZ r)
    (hz : (if isSub then toRat x - toRat r else toRat x + toRat r) = 0) : toText (addsub isSub x r) = "0/1" := by
  obtain ⟨e, f, h1, h2, h3, h4, h5, h6⟩ := addsub_shape isSub hx hr
  have hnz := h6 hnx hnr
  rw [hz] at h5
  have hf : (EDec.toNat f.d : Rat) ≠ 0 := by exact_mod_cast (Nat.pos_iff_ne_zero.mp h4)
  have he0 : EDec.toInt e = 0 := by
    have := (div_eq_zero_iff.mp h5).resolve_right hf
    exact_mod_cast this
  have hE : EDec.toNat e.d = 0 := by
    unfold EDec.toInt at he0; split at he0 <;> omega
  have hen : e.neg = false := by
    cases hh : e.neg with
    | false => rfl
    | true => exact absurd ⟨hh, hE⟩ hnz
  obtain ⟨p1, _, p3⟩ := pre_spec e f h2 h3 h4
  obtain ⟨_, n2, n3, _, n5, n6⟩ := normalize_spec p1
  rw [h1]
  have hnum0 : EDec.toNat (normalize (preOf e f)).num.d = 0 := by
    rw [show (normalize (preOf e f)) = normalize { neg := e.neg, num := if e.neg then EDec.neg e else e, den := f } from rfl, n5, p3, hE]
    simp
  have hden1 : EDec.toNat (normalize (preOf e f)).den.d = 1 := by
    rw [show (normalize (preOf e f)) = normalize { neg := e.neg, num := if e.neg then EDec.neg e else e, den := f } from rfl, n6, p3, hE]
    simp only [Nat.gcd_zero_left]
    exact Nat.div_self h4
  have hneg : (normalize (preOf e f)).neg = false := by
    rw [show (normalize (preOf e f)).neg = e.neg from n3, hen]
  have n2' : ERCanon (normalize (preOf e f)) := n2
  have hnd := digits_of_value n2'.1.1 (by decide) hnum0
  have hdd := digits_of_value n2'.2.1.1 (by decide) hden1
  unfold toText EDec.toDecimal
  rw [hneg, n2'.1.2, n2'.2.1.2, hnd, hdd]
  decide

theorem sign_mul (a b : Bool) : ((if (a != b) then -1 else 1 : Rat)) = (if a then -1 else 1) * (if b then -1 else 1) := by
  cases a <;> cases b <;> simp

theorem mul_spec' {x r : ER} (hx : ERCanon x) (hr : ERCanon r) : Good (ERat.mul x r) (toRat x * toRat r) := by
  obtain ⟨hn, hnv⟩ := posCanon_mul hx.1 hr.1
  obtain ⟨hd, hdv⟩ := posCanon_mul hx.2.1 hr.2.1
  have hDx : (EDec.toNat x.den.d : Rat) ≠ 0 := by exact_mod_cast (Nat.pos_iff_ne_zero.mp hx.2.2)
  have hDr : (EDec.toNat r.den.d : Rat) ≠ 0 := by exact_mod_cast (Nat.pos_iff_ne_zero.mp hr.2.2)
  unfold ERat.mul
  apply good_of_pre ⟨hn, hd, by rw [hdv]; exact Nat.mul_pos hx.2.2 hr.2.2⟩
  rw [toRat_eq hn.2 hd.2, toRat_eq hx.1.2 hx.2.1.2, toRat_eq hr.1.2 hr.2.1.2]
  simp only [hnv, hdv, sign_mul]
  push_cast; field_simp

theorem div_spec' {x r : ER} (hx : ERCanon x) (hr : ERCanon r) (hr0 : 0 < EDec.toNat r.num.d) :
    Good (ERat.div x r) (toRat x / toRat r) := by
  obtain ⟨hn, hnv⟩ := posCanon_mul hx.1 hr.2.1
  obtain ⟨hd, hdv⟩ := posCanon_mul hx.2.1 hr.1
  have hDx : (EDec.toNat x.den.d : Rat) ≠ 0 := by exact_mod_cast (Nat.pos_iff_ne_zero.mp hx.2.2)
  have hDr : (EDec.toNat r.den.d : Rat) ≠ 0 := by exact_mod_cast (Nat.pos_iff_ne_zero.mp hr.2.2)
  have hNr : (EDec.toNat r.num.d : Rat) ≠ 0 := by exact_mod_cast (Nat.pos_iff_ne_zero.mp hr0)
  unfold ERat.div
  apply good_of_pre ⟨hn, hd, by rw [hdv]; exact Nat.mul_pos hx.2.2 hr0⟩
  rw [toRat_eq hn.2 hd.2, toRat_eq hx.1.2 hx.2.1.2, toRat_eq hr.1.2 hr.2.1.2]
  simp only [hnv, hdv, sign_mul]
  push_cast
  cases x.neg <;> cases r.neg <;> simp <;> field_simp

/-! ### histories -/

inductive Op where
  | add (r : ER) | sub (r : ER) | mul (r : ER) | div (r : ER)

def Op.run (x : ER) : Op → ER
  | .add r => ERat.add x r
  | .sub r => ERat.sub x r
  | .mul r => ERat.mul x r
  | .div r => ERat.div x r

def Op.exact (v : Rat) : Op → Rat
  | .add r => v + toRat r
  | .sub r => v - toRat r
  | .mul r => v * toRat r
  | .div r => v / toRat r

def Op.Ok : Op → Prop
  | .add r => ERCanon r
  | .sub r => ERCanon r
  | .mul r => ERCanon r
  | .div r => ERCanon r ∧ 0 < EDec.toNat r.num.d

def runAll (x : ER) : List Op → ER
  | [] => x
  | o :: os => runAll (o.run x) os

def exactAll (v : Rat) : List Op → Rat
  | [] => v
  | o :: os => exactAll (o.exact v) os

theorem step_spec (x : ER) (o : Op) (hx : ERCanon x) (ho : o.Ok) : Good (o.run x) (o.exact (toRat x)) := by
  cases o with
  | add r => exact addsub_spec false hx ho
  | sub r => exact addsub_spec true hx ho
  | mul r => exact mul_spec' hx ho
  | div r => exact div_spec' hx ho.1 ho.2

/-- HISTORY (erational): any chain of `+ - * /` (non-zero divisors) yields the exact rational value, in lowest
    terms with a positive denominator after every step. -/
theorem history_spec : ∀ (ops : List Op) (x : ER), ERCanon x → (∀ o ∈ ops, o.Ok) →
    toRat (runAll x ops) = exactAll (toRat x) ops ∧ ERCanon (runAll x ops) ∧
      (ops ≠ [] → Nat.gcd (EDec.toNat (runAll x ops).num.d) (EDec.toNat (runAll x ops).den.d) = 1)
  | [], x, hx, _ => ⟨rfl, hx, fun h => absurd rfl h⟩
  | [o], x, hx, hok => by
    have g := step_spec x o hx (hok o (List.mem_cons_self ..))
    exact ⟨g.value, g.canon, fun _ => g.lowest⟩
  | o :: o' :: os, x, hx, hok => by
    have g := step_spec x o hx (hok o (List.mem_cons_self ..))
    have ih := history_spec (o' :: os) (o.run x) g.canon (fun p hp => hok p (List.mem_cons_of_mem _ hp))
    simp only [runAll, exactAll] at ih ⊢
    rw [← g.value]
    exact ⟨ih.1, ih.2.1, fun _ => ih.2.2 (by simp)⟩

end UVerif.ERat
