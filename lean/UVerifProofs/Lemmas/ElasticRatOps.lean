/-
  erational operators: cross multiplication followed by normalize().
-/
import UVerifProofs.Lemmas.ElasticRat

namespace UVerif.ERat
open UVerif.EDec

/-- signed numerator as an integer -/
def sN (x : ER) : Int := EDec.toInt (signedNum x)

theorem ecanon_signedNum {x : ER} (h : ECanon x.num) : ECanon (signedNum x) := by
  unfold signedNum; split
  · exact ecanon_neg h
  · exact h

/-- the signed numerator is never a negative zero (negating a zero edecimal leaves it unsigned) -/
theorem nz_signedNum {x : ER} (hn : x.num.neg = false) : NZ (signedNum x) := by
  unfold signedNum; split
  · exact neg_nz (nz_of_nonneg hn)
  · exact nz_of_nonneg hn

theorem sN_eq {x : ER} (hn : x.num.neg = false) : sN x = if x.neg then -(EDec.toNat x.num.d : Int) else EDec.toNat x.num.d := by
  unfold sN signedNum
  split
  · rw [neg_spec]; simp [EDec.toInt, hn]
  · simp [EDec.toInt, hn]

theorem toRat_signed {x : ER} (hx : ERCanon x) : toRat x = (sN x : Rat) / (EDec.toNat x.den.d : Rat) := by
  rw [toRat_eq hx.1.2 hx.2.1.2, sN_eq hx.1.2]
  split <;> simp [neg_div]

theorem posCanon_mul {a b : ED} (ha : PosCanon a) (hb : PosCanon b) :
    PosCanon (EDec.mul a b) ∧ EDec.toNat (EDec.mul a b).d = EDec.toNat a.d * EDec.toNat b.d := by
  have h := mul_spec ha.1 hb.1
  have hn : (EDec.mul a b).neg = false := by
    rcases mul_neg_or_zero a b with h' | h'
    · rw [h', ha.2, hb.2]; rfl
    · rw [h']; rfl
  refine ⟨⟨h.2, hn⟩, ?_⟩
  have e := h.1
  rw [toInt_nonneg_of hn, toInt_nonneg_of ha.2, toInt_nonneg_of hb.2] at e
  exact_mod_cast e

/-- the object built from a signed numerator `e` (not a negative zero) and a positive denominator `f` -/
theorem pre_spec (e f : ED) (he : ECanon e) (hnz : NZ e) (hf : PosCanon f) (hf0 : 0 < EDec.toNat f.d) :
    ERCanon { neg := e.neg, num := if e.neg then EDec.neg e else e, den := f } ∧
    toRat { neg := e.neg, num := if e.neg then EDec.neg e else e, den := f } = (EDec.toInt e : Rat) / (EDec.toNat f.d : Rat) ∧
    EDec.toNat ({ neg := e.neg, num := if e.neg then EDec.neg e else e, den := f } : ER).num.d = EDec.toNat e.d := by
  cases hen : e.neg with
  | true =>
    have hflag := neg_flag hnz hen
    have hnum : PosCanon (EDec.neg e) := ⟨ecanon_neg he, hflag⟩
    refine ⟨⟨by simpa using hnum, hf, hf0⟩, ?_, by simp [neg_d]⟩
    rw [toRat_eq (by simpa using hflag) hf.2]
    simp [EDec.toInt, hen, neg_d, neg_div]
  | false =>
    have hnum : PosCanon e := ⟨he, hen⟩
    refine ⟨⟨by simpa using hnum, hf, hf0⟩, ?_, by simp⟩
    rw [toRat_eq (by simpa using hen) hf.2]
    simp [EDec.toInt, hen]

/-- everything the property says about one result: its value, and the shape `normalize()` leaves -/
structure Good (res : ER) (v : Rat) : Prop where
  value : toRat res = v
  canon : ERCanon res
  lowest : Nat.gcd (EDec.toNat res.num.d) (EDec.toNat res.den.d) = 1
  zeroPos : EDec.toNat res.num.d = 0 → res.neg = false

theorem good_of_pre {pre : ER} {v : Rat} (hc : ERCanon pre) (hv : toRat pre = v) : Good (normalize pre) v := by
  obtain ⟨h1, h2, h3, h4, _, _⟩ := normalize_spec hc
  exact ⟨by rw [h1, hv], h2, h4, fun h0 => by rw [h3, if_pos h0]⟩

/-- the object `normalize()` is applied to -/
def preOf (e f : ED) : ER := { neg := e.neg, num := if e.neg then EDec.neg e else e, den := f }

/-- structure of `+=` / `-=`: `normalize()` applied to the signed cross-multiplied numerator `e` over `f`. -/
theorem addsub_shape (isSub : Bool) {x r : ER} (hx : ERCanon x) (hr : ERCanon r) :
    ∃ e f : ED, addsub isSub x r = normalize (preOf e f) ∧ ECanon e ∧ PosCanon f ∧ 0 < EDec.toNat f.d ∧
      (EDec.toInt e : Rat) / (EDec.toNat f.d : Rat) = (if isSub then toRat x - toRat r else toRat x + toRat r) ∧ NZ e := by
  have hDx : (EDec.toNat x.den.d : Rat) ≠ 0 := by exact_mod_cast (Nat.pos_iff_ne_zero.mp hx.2.2)
  have hDr : (EDec.toNat r.den.d : Rat) ≠ 0 := by exact_mod_cast (Nat.pos_iff_ne_zero.mp hr.2.2)
  have ha := ecanon_signedNum hx.1.1
  have hc := ecanon_signedNum hr.1.1
  unfold addsub
  simp only []
  by_cases heq : EDec.eq x.den r.den = true
  · simp only [heq, if_true]
    have hdd : EDec.toNat x.den.d = EDec.toNat r.den.d := by
      rw [eq_spec hx.2.1.1 hr.2.1.1 (nz_of_nonneg hx.2.1.2) (nz_of_nonneg hr.2.1.2)] at heq
      have := of_decide_eq_true heq
      rw [toInt_nonneg_of hx.2.1.2, toInt_nonneg_of hr.2.1.2] at this
      exact_mod_cast this
    cases isSub with
    | true =>
      have hn := sub_spec ha hc
      refine ⟨EDec.sub (signedNum x) (signedNum r), x.den, rfl, hn.2, hx.2.1, hx.2.2, ?_, sub_nz ha hc (nz_signedNum hx.1.2)⟩
      rw [hn.1, toRat_signed hx, toRat_signed hr, ← hdd]
      simp only [sN, if_true]; push_cast; field_simp
    | false =>
      have hn := add_spec ha hc
      refine ⟨EDec.add (signedNum x) (signedNum r), x.den, rfl, hn.2, hx.2.1, hx.2.2, ?_, add_nz ha hc (nz_signedNum hx.1.2)⟩
      rw [hn.1, toRat_signed hx, toRat_signed hr, ← hdd]
      simp only [sN, Bool.false_eq_true, if_false]; push_cast; field_simp
  · simp only [heq, Bool.false_eq_true, if_false]
    have hm1 := mul_spec ha hr.2.1.1
    have hm2 := mul_spec hx.2.1.1 hc
    obtain ⟨hf, hfv⟩ := posCanon_mul hx.2.1 hr.2.1
    have hf0 : 0 < EDec.toNat (EDec.mul x.den r.den).d := by rw [hfv]; exact Nat.mul_pos hx.2.2 hr.2.2
    cases isSub with
    | true =>
      have he := sub_spec hm1.2 hm2.2
      simp only [if_true]
      refine ⟨_, _, rfl, he.2, hf, hf0, ?_, sub_nz hm1.2 hm2.2 (mul_nz ha hr.2.1.1)⟩
      rw [he.1, hm1.1, hm2.1, hfv, toRat_signed hx, toRat_signed hr,
        toInt_nonneg_of hx.2.1.2, toInt_nonneg_of hr.2.1.2]
      simp only [sN]; push_cast; field_simp
    | false =>
      have he := add_spec hm1.2 hm2.2
      simp only [Bool.false_eq_true, if_false]
      refine ⟨_, _, rfl, he.2, hf, hf0, ?_, add_nz hm1.2 hm2.2 (mul_nz ha hr.2.1.1)⟩
      rw [he.1, hm1.1, hm2.1, hfv, toRat_signed hx, toRat_signed hr,
        toInt_nonneg_of hx.2.1.2, toInt_nonneg_of hr.2.1.2]
      simp only [sN]; push_cast; field_simp

theorem addsub_spec (isSub : Bool) {x r : ER} (hx : ERCanon x) (hr : ERCanon r) :
    Good (addsub isSub x r) (if isSub then toRat x - toRat r else toRat x + toRat r) := by
  obtain ⟨e, f, h1, h2, h3, h4, h5, h6⟩ := addsub_shape isSub hx hr
  obtain ⟨p1, p2, _⟩ := pre_spec e f h2 h6 h3 h4
  rw [h1]
  exact good_of_pre p1 (by rw [← h5]; exact p2)

theorem digits_of_value {y : ED} (hy : ECanon y) {v : Nat} (hv : v < 10) (h : EDec.toNat y.d = v) : y.d = [v] := by
  have hc : ECanon (EDec.ofDigit v) := ecanon_ofDigit hv
  exact toNat_inj_canon hy.1 hc.1 hy.2 hc.2 (by simp [h, EDec.toNat])

/-- a result that is zero is printed `0/1`: no sign (5d744db), numerator digit 0, denominator 1 (lowest terms). -/
theorem good_zero_text {res : ER} {v : Rat} (g : Good res v) (hv : v = 0) : toText res = "0/1" := by
  have hc := g.canon
  have hval := g.value
  rw [hv, toRat_eq hc.1.2 hc.2.1.2] at hval
  have hD : (EDec.toNat res.den.d : Rat) ≠ 0 := by exact_mod_cast (Nat.pos_iff_ne_zero.mp hc.2.2)
  have hN0 : EDec.toNat res.num.d = 0 := by
    rcases mul_eq_zero.mp hval with h | h
    · split at h <;> norm_num at h
    · have := (div_eq_zero_iff.mp h).resolve_right hD
      exact_mod_cast this
  have hneg := g.zeroPos hN0
  have hD1 : EDec.toNat res.den.d = 1 := by
    have := g.lowest
    rw [hN0, Nat.gcd_zero_left] at this
    exact this
  have hnd := digits_of_value hc.1.1 (by decide) hN0
  have hdd := digits_of_value hc.2.1.1 (by decide) hD1
  unfold toText EDec.toDecimal
  rw [hneg, hc.1.2, hc.2.1.2, hnd, hdd]
  decide

theorem sign_mul (a b : Bool) : ((if (a != b) then -1 else 1 : Rat)) = (if a then -1 else 1) * (if b then -1 else 1) := by
  cases a <;> cases b <;> simp

theorem mul_spec' {x r : ER} (hx : ERCanon x) (hr : ERCanon r) : Good (ERat.mul x r) (toRat x * toRat r) := by
  obtain ⟨hn, hnv⟩ := posCanon_mul hx.1 hr.1
  obtain ⟨hd, hdv⟩ := posCanon_mul hx.2.1 hr.2.1
  have hDx : (EDec.toNat x.den.d : Rat) ≠ 0 := by exact_mod_cast (Nat.pos_iff_ne_zero.mp hx.2.2)
  have hDr : (EDec.toNat r.den.d : Rat) ≠ 0 := by exact_mod_cast (Nat.pos_iff_ne_zero.mp hr.2.2)
  unfold ERat.mul
  apply good_of_pre ⟨hn, hd, by rw [hdv]; exact Nat.mul_pos hx.2.2 hr.2.2⟩
  rw [toRat_eq hn.2 hd.2, toRat_eq hx.1.2 hx.2.1.2, toRat_eq hr.1.2 hr.2.1.2]
  simp only [hnv, hdv, sign_mul]
  push_cast; field_simp

theorem div_spec' {x r : ER} (hx : ERCanon x) (hr : ERCanon r) (hr0 : 0 < EDec.toNat r.num.d) :
    Good (ERat.div x r) (toRat x / toRat r) := by
  obtain ⟨hn, hnv⟩ := posCanon_mul hx.1 hr.2.1
  obtain ⟨hd, hdv⟩ := posCanon_mul hx.2.1 hr.1
  have hDx : (EDec.toNat x.den.d : Rat) ≠ 0 := by exact_mod_cast (Nat.pos_iff_ne_zero.mp hx.2.2)
  have hDr : (EDec.toNat r.den.d : Rat) ≠ 0 := by exact_mod_cast (Nat.pos_iff_ne_zero.mp hr.2.2)
  have hNr : (EDec.toNat r.num.d : Rat) ≠ 0 := by exact_mod_cast (Nat.pos_iff_ne_zero.mp hr0)
  unfold ERat.div
  apply good_of_pre ⟨hn, hd, by rw [hdv]; exact Nat.mul_pos hx.2.2 hr0⟩
  rw [toRat_eq hn.2 hd.2, toRat_eq hx.1.2 hx.2.1.2, toRat_eq hr.1.2 hr.2.1.2]
  simp only [hnv, hdv, sign_mul]
  push_cast
  cases x.neg <;> cases r.neg <;> simp <;> field_simp

/-! ### histories -/

inductive Op where
  | add (r : ER) | sub (r : ER) | mul (r : ER) | div (r : ER)

def Op.run (x : ER) : Op → ER
  | .add r => ERat.add x r
  | .sub r => ERat.sub x r
  | .mul r => ERat.mul x r
  | .div r => ERat.div x r

def Op.exact (v : Rat) : Op → Rat
  | .add r => v + toRat r
  | .sub r => v - toRat r
  | .mul r => v * toRat r
  | .div r => v / toRat r

def Op.Ok : Op → Prop
  | .add r => ERCanon r
  | .sub r => ERCanon r
  | .mul r => ERCanon r
  | .div r => ERCanon r ∧ 0 < EDec.toNat r.num.d

def runAll (x : ER) : List Op → ER
  | [] => x
  | o :: os => runAll (o.run x) os

def exactAll (v : Rat) : List Op → Rat
  | [] => v
  | o :: os => exactAll (o.exact v) os

theorem step_spec (x : ER) (o : Op) (hx : ERCanon x) (ho : o.Ok) : Good (o.run x) (o.exact (toRat x)) := by
  cases o with
  | add r => exact addsub_spec false hx ho
  | sub r => exact addsub_spec true hx ho
  | mul r => exact mul_spec' hx ho
  | div r => exact div_spec' hx ho.1 ho.2

/-- HISTORY (erational): any chain of `+ - * /` (non-zero divisors) yields the exact rational value, in lowest
    terms with a positive denominator after every step. -/
theorem history_spec : ∀ (ops : List Op) (x : ER), ERCanon x → (∀ o ∈ ops, o.Ok) →
    toRat (runAll x ops) = exactAll (toRat x) ops ∧ ERCanon (runAll x ops) ∧
      (ops ≠ [] → Nat.gcd (EDec.toNat (runAll x ops).num.d) (EDec.toNat (runAll x ops).den.d) = 1)
  | [], x, hx, _ => ⟨rfl, hx, fun h => absurd rfl h⟩
  | [o], x, hx, hok => by
    have g := step_spec x o hx (hok o (List.mem_cons_self ..))
    exact ⟨g.value, g.canon, fun _ => g.lowest⟩
  | o :: o' :: os, x, hx, hok => by
    have g := step_spec x o hx (hok o (List.mem_cons_self ..))
    have ih := history_spec (o' :: os) (o.run x) g.canon (fun p hp => hok p (List.mem_cons_of_mem _ hp))
    simp only [runAll, exactAll] at ih ⊢
    rw [← g.value]
    exact ⟨ih.1, ih.2.1, fun _ => ih.2.2 (by simp)⟩

/-- after a non-empty history the object is `Good` for the exact value of the chain. -/
theorem history_good : ∀ (ops : List Op) (x : ER), ERCanon x → (∀ o ∈ ops, o.Ok) → ops ≠ [] →
    Good (runAll x ops) (exactAll (toRat x) ops)
  | [], _, _, _, h => absurd rfl h
  | [o], x, hx, hok, _ => step_spec x o hx (hok o (List.mem_cons_self ..))
  | o :: o' :: os, x, hx, hok, _ => by
    have g := step_spec x o hx (hok o (List.mem_cons_self ..))
    have ih := history_good (o' :: os) (o.run x) g.canon (fun p hp => hok p (List.mem_cons_of_mem _ hp)) (by simp)
    simp only [runAll, exactAll] at ih ⊢
    rw [← g.value]; exact ih

end UVerif.ERat
