/-
  einteger shifts: `<<=` (block move + bit loop) and the bit loop of `>>=`, any limb width.
-/
import UVerifProofs.Lemmas.ElasticMul

namespace UVerif.EInt

/-- last element of `prev :: xs` -/
def lastOf : Nat → List Nat → Nat
  | prev, [] => prev
  | _, x :: xs => lastOf x xs

theorem lastOf_append_zero (prev : Nat) : ∀ xs : List Nat, lastOf prev (xs ++ [0]) = 0
  | [] => rfl
  | x :: xs => by simp [lastOf, lastOf_append_zero x xs]

theorem shl_limb_split (w s x : Nat) (hs : s ≤ w) :
    (x * 2 ^ s) % 2 ^ w + 2 ^ w * (x / 2 ^ (w - s)) = x * 2 ^ s := by
  have e : 2 ^ w = 2 ^ (w - s) * 2 ^ s := by rw [← pow_add]; congr 1; omega
  have h1 : (x * 2 ^ s) / 2 ^ w = x / 2 ^ (w - s) := by
    rw [e]; exact Nat.mul_div_mul_right _ _ (Nat.two_pow_pos s)
  have := Nat.div_add_mod (x * 2 ^ s) (2 ^ w)
  rw [h1] at this
  omega

theorem shlBits_spec (w s : Nat) (hs : s ≤ w) : ∀ (xs : List Nat) (prev : Nat),
    toNat w (shlBits w s prev xs) + (2 ^ w) ^ xs.length * (lastOf prev xs / 2 ^ (w - s))
      = 2 ^ s * toNat w xs + prev / 2 ^ (w - s)
  | [], prev => by simp [shlBits, toNat, lastOf]
  | x :: xs, prev => by
    have ih := shlBits_spec w s hs xs x
    have hx := shl_limb_split w s x hs
    simp only [shlBits, toNat, List.length_cons, lastOf, pow_succ]
    have h2 : 2 ^ w * (toNat w (shlBits w s x xs) + (2 ^ w) ^ xs.length * (lastOf x xs / 2 ^ (w - s)))
        = 2 ^ w * (2 ^ s * toNat w xs + x / 2 ^ (w - s)) := by rw [ih]
    linarith [h2, hx]

theorem shlBits_ok (w s : Nat) (hs0 : 0 < s) (hs : s ≤ w) : ∀ (xs : List Nat) (prev : Nat), prev < 2 ^ w →
    LimbsOk w xs → LimbsOk w (shlBits w s prev xs)
  | [], _, _, _ => by simpa [shlBits] using limbsOk_nil w
  | x :: xs, prev, hp, hx => by
    have ⟨hx0, hxs⟩ := limbsOk_cons.mp hx
    simp only [shlBits]
    refine limbsOk_cons.mpr ⟨?_, shlBits_ok w s hs0 hs xs x hx0 hxs⟩
    -- low s bits of the first term are zero, the second term is below 2^s
    have e : 2 ^ w = 2 ^ (w - s) * 2 ^ s := by rw [← pow_add]; congr 1; omega
    have h1 : prev / 2 ^ (w - s) < 2 ^ s := by
      apply Nat.div_lt_of_lt_mul; rw [← e]; exact hp
    have h2 : (x * 2 ^ s) % 2 ^ w = (x % 2 ^ (w - s)) * 2 ^ s := by
      rw [e, Nat.mul_mod_mul_right]
    rw [h2]
    have h3 : x % 2 ^ (w - s) < 2 ^ (w - s) := Nat.mod_lt _ (Nat.two_pow_pos _)
    have h4 : (x % 2 ^ (w - s) + 1) * 2 ^ s ≤ 2 ^ (w - s) * 2 ^ s := Nat.mul_le_mul_right _ h3
    rw [← e] at h4
    rw [Nat.add_mul, Nat.one_mul] at h4
    omega

theorem toNat_replicate_zero (w n : Nat) : toNat w (List.replicate n 0) = 0 :=
  toNat_zeros (by intro x hx; exact (List.mem_replicate.mp hx).2)

/-- `operator<<=`: the magnitude is multiplied by 2^k — any state whose limbs fit the block type. -/
theorem shl_spec (w : Nat) (hw : 0 < w) (x : EI) (k : Nat) (hx : LimbsOk w x.limbs) :
    toNat w (shl w x k).limbs = toNat w x.limbs * 2 ^ k ∧ (shl w x k).sign = x.sign ∧ LimbsOk w (shl w x k).limbs ∧
      (k ≠ 0 → NoLeadingZero (shl w x k).limbs) := by
  unfold shl
  by_cases hk : k = 0
  · simp [hk, hx]
  · simp only [hk, if_false]
    have hbs : (if k ≥ w then k / w else 0) = k / w := by
      split
      · rfl
      · rw [Nat.div_eq_of_lt (by omega)]
    rw [hbs]
    have hsm : k - k / w * w = k % w := by
      have := Nat.div_add_mod k w; rw [Nat.mul_comm] at this; omega
    rw [hsm]
    have hl2 : toNat w (List.replicate (k / w) 0 ++ (x.limbs ++ [0])) = (2 ^ w) ^ (k / w) * toNat w x.limbs := by
      rw [toNat_append, toNat_replicate_zero, toNat_append]; simp [toNat]
    have hok2 : LimbsOk w (List.replicate (k / w) 0 ++ (x.limbs ++ [0])) := by
      intro y hy
      simp only [List.mem_append, List.mem_replicate, List.mem_singleton] at hy
      rcases hy with ⟨_, rfl⟩ | hy | rfl
      · exact Nat.two_pow_pos w
      · exact hx y hy
      · exact Nat.two_pow_pos w
    have hpow : (2 ^ w) ^ (k / w) * 2 ^ (k % w) = 2 ^ k := by
      rw [← pow_mul, ← pow_add]; congr 1; exact Nat.div_add_mod k w
    by_cases hearly : k ≥ w ∧ k % w = 0
    · simp only [hearly, and_self, if_true]
      refine ⟨?_, trivial, limbsOk_stripTop hok2, fun _ => noLeadingZero_stripTop _⟩
      rw [toNat_stripTop, hl2, ← hpow, hearly.2]; ring
    · simp only [hearly, if_false]
      have hs0 : 0 < k % w := by
        by_contra h0
        have h0' : k % w = 0 := by omega
        apply hearly
        refine ⟨?_, h0'⟩
        by_contra hlt
        rw [Nat.mod_eq_of_lt (by omega)] at h0'
        exact hk h0'
      have hsw : k % w ≤ w := Nat.le_of_lt (Nat.mod_lt _ hw)
      have hspec := shlBits_spec w (k % w) hsw (List.replicate (k / w) 0 ++ (x.limbs ++ [0])) 0
      rw [← List.append_assoc, lastOf_append_zero] at hspec
      simp only [Nat.zero_div, Nat.mul_zero, Nat.add_zero] at hspec
      rw [List.append_assoc] at hspec
      refine ⟨?_, trivial, limbsOk_stripTop (shlBits_ok w (k % w) hs0 hsw _ 0 (Nat.two_pow_pos w) hok2), fun _ => noLeadingZero_stripTop _⟩
      simp only [toNat_stripTop]
      rw [hspec, hl2, ← hpow]; ring

/-! ### operator>>= -/

theorem toNat_mod_low (w s : Nat) (hs : s ≤ w) (x : Nat) (xs : List Nat) :
    toNat w (x :: xs) % 2 ^ s = x % 2 ^ s := by
  have e : 2 ^ w = 2 ^ s * 2 ^ (w - s) := by rw [← pow_add]; congr 1; omega
  simp only [toNat]
  rw [e, Nat.mul_assoc, Nat.add_mul_mod_self_left]

theorem shrBits_spec (w s : Nat) (hs : s ≤ w) : ∀ (xs : List Nat),
    toNat w (shrBits w s xs) = toNat w xs / 2 ^ s
  | [] => by simp [shrBits, toNat]
  | x :: xs => by
    have ih := shrBits_spec w s hs xs
    have e : 2 ^ w = 2 ^ s * 2 ^ (w - s) := by rw [← pow_add]; congr 1; omega
    have P : 0 < 2 ^ s := Nat.two_pow_pos s
    simp only [shrBits, toNat]
    rw [ih]
    -- T = toNat xs ; (x + B*T) / 2^s = x / 2^s + 2^(w-s) * T
    have h1 : (x + 2 ^ w * toNat w xs) / 2 ^ s = x / 2 ^ s + 2 ^ (w - s) * toNat w xs := by
      rw [e, Nat.mul_assoc, Nat.add_mul_div_left _ _ P]
    rw [h1]
    have h2 : xs.headD 0 % 2 ^ s = toNat w xs % 2 ^ s := by
      cases xs with
      | nil => simp [toNat]
      | cons y ys => simp [toNat_mod_low w s hs]
    rw [h2]
    have h3 := Nat.div_add_mod (toNat w xs) (2 ^ s)
    have h4 : 2 ^ (w - s) * (2 ^ s * (toNat w xs / 2 ^ s) + toNat w xs % 2 ^ s) = 2 ^ (w - s) * toNat w xs := by rw [h3]
    have h5 : 2 ^ w * (toNat w xs / 2 ^ s) = 2 ^ (w - s) * (2 ^ s * (toNat w xs / 2 ^ s)) := by rw [e]; ring
    linarith [h4, h5]

theorem shrBits_ok (w s : Nat) (hs : s ≤ w) : ∀ (xs : List Nat), LimbsOk w xs → LimbsOk w (shrBits w s xs)
  | [], _ => by simpa [shrBits] using limbsOk_nil w
  | x :: xs, hx => by
    have ⟨hx0, hxs⟩ := limbsOk_cons.mp hx
    simp only [shrBits]
    refine limbsOk_cons.mpr ⟨?_, shrBits_ok w s hs xs hxs⟩
    have e : 2 ^ w = 2 ^ s * 2 ^ (w - s) := by rw [← pow_add]; congr 1; omega
    have h1 : x / 2 ^ s < 2 ^ (w - s) := by
      apply Nat.div_lt_of_lt_mul; rw [← e]; exact hx0
    have h2 : xs.headD 0 % 2 ^ s < 2 ^ s := Nat.mod_lt _ (Nat.two_pow_pos s)
    have h3 : (xs.headD 0 % 2 ^ s + 1) * 2 ^ (w - s) ≤ 2 ^ s * 2 ^ (w - s) := Nat.mul_le_mul_right _ h2
    rw [← e, Nat.add_mul, Nat.one_mul] at h3
    omega

theorem toNat_take_add_drop (w n : Nat) (l : List Nat) :
    toNat w l = toNat w (l.take n) + (2 ^ w) ^ (l.take n).length * toNat w (l.drop n) := by
  conv_lhs => rw [← List.take_append_drop n l]
  exact toNat_append w _ _

theorem toNat_drop (w n : Nat) {l : List Nat} (hl : LimbsOk w l) (hn : n ≤ l.length) :
    toNat w (l.drop n) = toNat w l / (2 ^ w) ^ n := by
  have h := toNat_take_add_drop w n l
  have hlen : (l.take n).length = n := by simp [hn]
  rw [hlen] at h
  have hlt : toNat w (l.take n) < (2 ^ w) ^ n := by
    have := toNat_lt (w := w) (l := l.take n) (fun x hx => hl x (List.mem_of_mem_take hx))
    rwa [hlen] at this
  rw [h, Nat.add_mul_div_left _ _ (Nat.pow_pos (Nat.two_pow_pos w)), Nat.div_eq_of_lt hlt, Nat.zero_add]

/-- the block move is "drop `bs` limbs, append `bs` zero limbs". -/
theorem shrBlocks_eq (l : List Nat) (bs : Nat) (h : bs ≤ l.length - 1) :
    shrBlocks l bs = l.drop bs ++ List.replicate bs 0 := by
  unfold shrBlocks
  simp [h]

/-- `operator>>=`: the magnitude is divided by 2^k (toward zero) for EVERY shift count; the limb vector is left
    without most-significant zero limbs. -/
theorem shr_spec (w : Nat) (hw : 0 < w) (x : EI) (k : Nat) (hx : LimbsOk w x.limbs) :
    toNat w (shr w x k).limbs = toNat w x.limbs / 2 ^ k ∧ LimbsOk w (shr w x k).limbs ∧
      (k ≠ 0 → NoLeadingZero (shr w x k).limbs) ∧ (shr w x k).sign = (if k ≠ 0 ∧ k ≥ x.limbs.length * w then false else x.sign) := by
  unfold shr
  by_cases hk : k = 0
  · simp [hk, hx]
  · simp only [hk, if_false]
    by_cases hbig : k ≥ x.limbs.length * w
    · simp only [hbig, if_true]
      refine ⟨?_, limbsOk_nil w, fun _ => by simp [NoLeadingZero], by simp [hk]⟩
      have h1 := toNat_lt hx
      have h2 : (2 ^ w) ^ x.limbs.length ≤ 2 ^ k := by
        rw [← pow_mul]; apply Nat.pow_le_pow_right (by decide); rw [Nat.mul_comm]; omega
      rw [Nat.div_eq_of_lt (by omega)]; rfl
    · simp only [hbig, if_false]
      have hne : x.limbs ≠ [] := by
        intro h0; rw [h0] at hbig; simp at hbig
      have hbs : (if k ≥ w then k / w else 0) = k / w := by
        split
        · rfl
        · rw [Nat.div_eq_of_lt (by omega)]
      rw [hbs]
      have hsm : k - k / w * w = k % w := by
        have := Nat.div_add_mod k w; rw [Nat.mul_comm] at this; omega
      rw [hsm]
      have hpow : (2 ^ w) ^ (k / w) * 2 ^ (k % w) = 2 ^ k := by
        rw [← pow_mul, ← pow_add]; congr 1; exact Nat.div_add_mod k w
      have hbl : k / w ≤ x.limbs.length - 1 := by
        have h1 : k < x.limbs.length * w := by omega
        have h2 : k / w < x.limbs.length := by
          apply Nat.div_lt_of_lt_mul; rw [Nat.mul_comm]; exact h1
        omega
      have hbl' : k / w ≤ x.limbs.length := by omega
      have hsign : (if k ≠ 0 ∧ k ≥ x.limbs.length * w then false else x.sign) = x.sign := by simp [hbig]
      -- the limbs after the block move
      have hl2 : toNat w (if k ≥ w then shrBlocks x.limbs (k / w) else x.limbs) = toNat w x.limbs / (2 ^ w) ^ (k / w)
          ∧ LimbsOk w (if k ≥ w then shrBlocks x.limbs (k / w) else x.limbs) := by
        by_cases hkw : k ≥ w
        · simp only [hkw, if_true]
          rw [shrBlocks_eq _ _ hbl, toNat_append_zeros, toNat_drop w _ hx hbl']
          refine ⟨rfl, ?_⟩
          intro y hy
          simp only [List.mem_append, List.mem_replicate] at hy
          rcases hy with hy | ⟨_, rfl⟩
          · exact hx y (List.mem_of_mem_drop hy)
          · exact Nat.two_pow_pos w
        · simp only [hkw, if_false]
          have : k / w = 0 := Nat.div_eq_of_lt (by omega)
          rw [this]; simp [hx]
      by_cases hearly : k ≥ w ∧ k % w = 0
      · have hkw := hearly.1
        simp only [hkw, if_true] at hl2
        simp only [hearly, and_self, if_true]
        refine ⟨?_, limbsOk_stripTop hl2.2, fun _ => noLeadingZero_stripTop _, by simp⟩
        rw [toNat_stripTop, hl2.1, ← hpow, hearly.2]; simp
      · simp only [hearly, if_false]
        have hsw : k % w ≤ w := Nat.le_of_lt (Nat.mod_lt _ hw)
        refine ⟨?_, limbsOk_stripTop (shrBits_ok w _ hsw _ hl2.2), fun _ => noLeadingZero_stripTop _, by simp⟩
        rw [toNat_stripTop, shrBits_spec w _ hsw, hl2.1, ← hpow, Nat.div_div_eq_div_mul]

end UVerif.EInt
