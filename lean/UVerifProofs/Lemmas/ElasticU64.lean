/-
  Bridging lemmas: the C++ computes the borrow / carry / segment steps of einteger += -= *= on `std::uint64_t`
  with wrap-around; the model writes them arithmetically. For limb widths up to 32 bits (the header's static_assert)
  the two coincide.
-/
import Mathlib.Tactic.Ring
import Mathlib.Tactic.Linarith
import UVerif.Model.Elastic

namespace UVerif.EInt

theorem pow_split (w : Nat) (hw : w ≤ 32) : 2 ^ 64 = 2 ^ w * (2 * 2 ^ (63 - w)) := by
  rw [← pow_succ', ← pow_add]; congr 1; omega

/-- `borrow = uint64(a) - uint64(b) - borrow; limb = BlockType(borrow); borrow = (borrow >> w) & 1` -/
theorem sub_step_u64 (w a b c : Nat) (hw : w ≤ 32) (ha : a < 2 ^ w) (hb : b < 2 ^ w) (hc : c ≤ 1) :
    ((a + 2 ^ 64 - b - c) % 2 ^ 64 % 2 ^ w, (a + 2 ^ 64 - b - c) % 2 ^ 64 / 2 ^ w % 2)
      = if b + c ≤ a then (a - b - c, 0) else (a + 2 ^ w - b - c, 1) := by
  have hB : 0 < 2 ^ w := Nat.two_pow_pos w
  have hsplit := pow_split w hw
  have hle : 2 ^ w ≤ 2 ^ 32 := Nat.pow_le_pow_right (by decide) hw
  set K := 2 ^ (63 - w) with hK
  have hKpos : 0 < K := Nat.two_pow_pos _
  by_cases h : b + c ≤ a
  · simp only [h, if_true]
    have e : a + 2 ^ 64 - b - c = (a - b - c) + 2 ^ 64 := by omega
    have hlt : a - b - c < 2 ^ 64 := by omega
    rw [e, Nat.add_mod_right, Nat.mod_eq_of_lt hlt, Nat.mod_eq_of_lt (by omega), Nat.div_eq_of_lt (by omega)]
  · simp only [h, if_false]
    have hk1 : 1 ≤ b + c - a := by omega
    have hk2 : b + c - a ≤ 2 ^ w := by omega
    have hlt : a + 2 ^ 64 - b - c < 2 ^ 64 := by omega
    rw [Nat.mod_eq_of_lt hlt]
    -- a + 2^64 - b - c = 2^w * (2K - 1) + (a + 2^w - b - c)
    have e : a + 2 ^ 64 - b - c = (a + 2 ^ w - b - c) + 2 ^ w * (2 * K - 1) := by
      have : 2 ^ w * (2 * K - 1) = 2 ^ w * (2 * K) - 2 ^ w := by
        rw [Nat.mul_sub, Nat.mul_one]
      rw [this, ← hsplit]
      have : 2 ^ w ≤ 2 ^ 64 := by rw [hsplit]; exact Nat.le_mul_of_pos_right _ (by omega)
      omega
    by_cases hfull : b + c - a = 2 ^ w
    · have e0 : a + 2 ^ w - b - c = 0 := by omega
      rw [e, e0, Nat.zero_add, Nat.mul_mod_right, Nat.mul_div_cancel_left _ hB]
      have : (2 * K - 1) % 2 = 1 := by omega
      rw [this]
    · have hr : a + 2 ^ w - b - c < 2 ^ w := by omega
      rw [e, Nat.add_mul_mod_self_left, Nat.mod_eq_of_lt hr, Nat.add_mul_div_left _ _ hB, Nat.div_eq_of_lt hr, Nat.zero_add]
      have : (2 * K - 1) % 2 = 1 := by omega
      rw [this]

/-- the running segment of `operator*=` never exceeds 64 bits (so `segment +=` does not wrap) and stays a limb. -/
theorem mul_step_u64 (w seg bi rj blk : Nat) (hw : w ≤ 32) (h1 : seg < 2 ^ w) (h2 : bi < 2 ^ w) (h3 : rj < 2 ^ w)
    (h4 : blk < 2 ^ w) : seg + bi * rj + blk < 2 ^ 64 ∧ (seg + bi * rj + blk) / 2 ^ w < 2 ^ w := by
  have hle : 2 ^ w ≤ 2 ^ 32 := Nat.pow_le_pow_right (by decide) hw
  have hm : bi * rj ≤ (2 ^ w - 1) * (2 ^ w - 1) := Nat.mul_le_mul (by omega) (by omega)
  have e : (2 ^ w - 1) * (2 ^ w - 1) + 2 * (2 ^ w - 1) + 1 = 2 ^ w * 2 ^ w := by
    obtain ⟨t, ht⟩ : ∃ t, 2 ^ w = t + 1 := ⟨2 ^ w - 1, by have := Nat.two_pow_pos w; omega⟩
    rw [ht]; simp; ring
  have hsq : 2 ^ w * 2 ^ w ≤ 2 ^ 32 * 2 ^ 32 := Nat.mul_le_mul hle hle
  refine ⟨by norm_num at hsq ⊢; omega, ?_⟩
  apply Nat.div_lt_of_lt_mul; omega

/-- the carry loop of `operator+=`: `carry += a + b` stays far below 2^64. -/
theorem add_step_u64 (w a b c : Nat) (hw : w ≤ 32) (ha : a < 2 ^ w) (hb : b < 2 ^ w) (hc : c ≤ 1) :
    a + b + c < 2 ^ 64 ∧ (a + b + c) / 2 ^ w ≤ 1 := by
  have hle : 2 ^ w ≤ 2 ^ 32 := Nat.pow_le_pow_right (by decide) hw
  refine ⟨by norm_num at hle ⊢; omega, ?_⟩
  have : a + b + c < 2 * 2 ^ w := by omega
  exact Nat.lt_succ_iff.mp (Nat.div_lt_of_lt_mul (by omega))

end UVerif.EInt
