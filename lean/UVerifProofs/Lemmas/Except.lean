/-
  Helper lemmas for property C19: the literal classification tests of the C++ (`testBit`, shifts, masks) coincide
  with the value-level classification of the spec on canonical encodings (`a < 2^n`).
-/
import UVerif.Model.Except

namespace UVerif.Exc
open CFloatSpec (Cfg)

/-! ### bit-level facts -/

theorem testBit_top (m a : Nat) (ha : a < 2 ^ (m + 1)) : a.testBit m = decide (2 ^ m ≤ a) := by
  rw [Nat.testBit_eq_decide_div_mod_eq]
  have hp : 0 < 2 ^ m := Nat.two_pow_pos m
  have h2 : 2 ^ (m + 1) = 2 * 2 ^ m := by rw [Nat.pow_succ, Nat.mul_comm]
  by_cases h : 2 ^ m ≤ a
  · have hq : a / 2 ^ m = 1 := by
      apply Nat.div_eq_of_lt_le
      · simpa using h
      · omega
    simp [hq, h]
  · have hq : a / 2 ^ m = 0 := Nat.div_eq_of_lt (by omega)
    simp [hq, h]


/-! ### cfloat: sign / exponent / fraction decomposition of a canonical encoding -/

theorem cf_decomp (E P a : Nat) (hE : 0 < E) (hP : 0 < P) (ha : a < 2 * (E * P)) :
    ∃ s e r, s < 2 ∧ e < E ∧ r < P ∧ a = s * (E * P) + (e * P + r) ∧
      a / (E * P) = s ∧ a / P % E = e ∧ a % P = r ∧ a % (E * P) = e * P + r := by
  have hEP : 0 < E * P := Nat.mul_pos hE hP
  refine ⟨a / (E * P), a % (E * P) / P, a % (E * P) % P, ?_, ?_, ?_, ?_, rfl, ?_, ?_, ?_⟩
  · exact (Nat.div_lt_iff_lt_mul hEP).2 ha
  · exact (Nat.div_lt_iff_lt_mul hP).2 (Nat.mod_lt _ hEP)
  · exact Nat.mod_lt _ hP
  · have h1 := Nat.div_add_mod a (E * P)
    have h2 := Nat.div_add_mod (a % (E * P)) P
    rw [Nat.mul_comm (a / (E * P))]
    rw [Nat.mul_comm (a % (E * P) / P)]
    omega
  · rw [Nat.mul_comm E P, Nat.mod_mul_right_div_self]
  · rw [Nat.mod_mul_left_mod]
  · have h2 := Nat.div_add_mod (a % (E * P)) P
    rw [Nat.mul_comm (a % (E * P) / P)]
    omega


theorem cf_allones (E P s e r c d : Nat) (hs : s < 2) (hc : c < 2) (he : e < E) (hr : r < P) (hd1 : 1 ≤ d) (hd : d ≤ P) :
    s * (E * P) + (e * P + r) = (c + 1) * (E * P) - d ↔ (s = c ∧ e + 1 = E ∧ r + d = P) := by
  have hs' : s = 0 ∨ s = 1 := by omega
  have hc' : c = 0 ∨ c = 1 := by omega
  have hle : e * P + P ≤ E * P := by
    have : (e + 1) * P ≤ E * P := Nat.mul_le_mul_right P he
    rwa [Nat.succ_mul] at this
  by_cases h1 : e + 1 = E
  · have hep : e * P + P = E * P := by rw [← h1, Nat.succ_mul]
    generalize E * P = X at *
    generalize e * P = Y at *
    have e2 : (1 + 1) * X = X + X := by omega
    rcases hs' with rfl | rfl <;> rcases hc' with rfl | rfl <;> simp only [Nat.zero_mul, Nat.one_mul, Nat.zero_add, e2, true_and] <;> clear e2 <;> omega
  · have h2 : e * P + 2 * P ≤ E * P := by
      have : (e + 2) * P ≤ E * P := Nat.mul_le_mul_right P (by omega)
      have e2 : (e + 2) * P = e * P + 2 * P := by rw [Nat.add_mul]
      omega
    generalize E * P = X at *
    generalize e * P = Y at *
    have e2 : (1 + 1) * X = X + X := by omega
    rcases hs' with rfl | rfl <;> rcases hc' with rfl | rfl <;> simp only [Nat.zero_mul, Nat.one_mul, Nat.zero_add, e2, true_and] <;> clear e2 <;> omega

theorem cf_zero (P e r : Nat) (hP : 0 < P) : e * P + r = 0 ↔ (e = 0 ∧ r = 0) := by
  constructor
  · intro h
    have h1 : e * P = 0 := by omega
    have h2 : r = 0 := by omega
    rcases Nat.mul_eq_zero.1 h1 with h | h
    · exact ⟨h, h2⟩
    · omega
  · rintro ⟨rfl, rfl⟩; simp

theorem cf_allones0 (E P s e r d : Nat) (hs : s < 2) (he : e < E) (hr : r < P) (hd1 : 1 ≤ d) (hd : d ≤ P) :
    s * (E * P) + (e * P + r) = E * P - d ↔ (s = 0 ∧ e + 1 = E ∧ r + d = P) := by
  have := cf_allones E P s e r 0 d hs (by decide) he hr hd1 hd
  simpa using this

theorem cf_allones1 (E P s e r d : Nat) (hs : s < 2) (he : e < E) (hr : r < P) (hd1 : 1 ≤ d) (hd : d ≤ P) :
    s * (E * P) + (e * P + r) = 2 * (E * P) - d ↔ (s = 1 ∧ e + 1 = E ∧ r + d = P) := by
  have := cf_allones E P s e r 1 d hs (by decide) he hr hd1 hd
  simpa using this

theorem cfloat_fields (c : Cfg) (a : Nat) (hf : c.es + 2 ≤ c.n) (ha : a < 2 ^ c.n) :
    ∃ s e r, s < 2 ∧ e < 2 ^ c.es ∧ r < 2 ^ c.fbits ∧ 2 ≤ 2 ^ c.fbits ∧
      a = s * (2 ^ c.es * 2 ^ c.fbits) + (e * 2 ^ c.fbits + r) ∧
      2 ^ (c.n - 1) = 2 ^ c.es * 2 ^ c.fbits ∧ 2 ^ c.n = 2 * (2 ^ c.es * 2 ^ c.fbits) ∧
      CFloatSpec.sign c a = (s == 1) ∧ CFloatSpec.expo c a = e ∧ CFloatSpec.frac c a = r ∧
      CFloat.sign c a = (s == 1) ∧ CFloat.expField c a = e ∧ a % 2 ^ (c.n - 1) = e * 2 ^ c.fbits + r := by
  have hfb : c.fbits = c.n - 1 - c.es := rfl
  have hn1 : c.n - 1 = c.es + c.fbits := by omega
  have hpow1 : 2 ^ (c.n - 1) = 2 ^ c.es * 2 ^ c.fbits := by rw [hn1, Nat.pow_add]
  have hpow : 2 ^ c.n = 2 * (2 ^ c.es * 2 ^ c.fbits) := by
    rw [← hpow1]
    have : c.n = (c.n - 1) + 1 := by omega
    rw [this, Nat.pow_succ, Nat.mul_comm]; simp
  have hP2 : 2 ≤ 2 ^ c.fbits := by
    have h1 : 1 ≤ c.fbits := by omega
    calc 2 = 2 ^ 1 := rfl
      _ ≤ 2 ^ c.fbits := Nat.pow_le_pow_right (by decide) h1
  obtain ⟨s, e, r, hs, he, hr, hdec, hq, hexp, hfr, hmod⟩ :=
    cf_decomp (2 ^ c.es) (2 ^ c.fbits) a (Nat.two_pow_pos _) (Nat.two_pow_pos _) (by rw [← hpow]; exact ha)
  refine ⟨s, e, r, hs, he, hr, hP2, hdec, hpow1, hpow, ?_, hexp, hfr, ?_, ?_, ?_⟩
  · unfold CFloatSpec.sign
    rw [hpow1, hq]
    have : s = 0 ∨ s = 1 := by omega
    rcases this with rfl | rfl <;> decide
  · unfold CFloat.sign
    rw [Nat.testBit_eq_decide_div_mod_eq, hpow1, hq]
    have : s = 0 ∨ s = 1 := by omega
    rcases this with rfl | rfl <;> decide
  · unfold CFloat.expField
    rw [Nat.shiftRight_eq_div_pow, ← hfb]
    exact hexp
  · rw [hpow1]; exact hmod

theorem cfloat_isZero_iff (c : Cfg) (a : Nat) (hf : c.es + 2 ≤ c.n) (ha : a < 2 ^ c.n) :
    CFloat.isZero c a = CFloatSpec.isZero c a := by
  obtain ⟨s, e, r, hs, he, hr, hP2, hdec, hpow1, hpow, hsS, heS, hrS, hsM, heM, hmod⟩ := cfloat_fields c a hf ha
  unfold CFloat.isZero CFloatSpec.isZero CFloat.isZeroEnc
  rw [heS, hrS, heM, hmod]
  cases c.sub
  · simp
  · rw [Bool.eq_iff_iff]
    simp only [if_true, Bool.and_eq_true, beq_iff_eq]
    exact cf_zero _ e r (by omega)

theorem cfloat_isInf_iff (c : Cfg) (a : Nat) (hf : c.es + 2 ≤ c.n) (ha : a < 2 ^ c.n) :
    CFloat.isInf c a = CFloatSpec.isInf c a := by
  obtain ⟨s, e, r, hs, he, hr, hP2, hdec, hpow1, hpow, hsS, heS, hrS, hsM, heM, hmod⟩ := cfloat_fields c a hf ha
  unfold CFloat.isInf CFloatSpec.isInf
  rw [heS, hrS, hpow, hpow1]
  have h1 := cf_allones1 (2 ^ c.es) (2 ^ c.fbits) s e r 2 hs he hr (by decide) hP2
  have h0 := cf_allones0 (2 ^ c.es) (2 ^ c.fbits) s e r 2 hs he hr (by decide) hP2
  rw [← hdec] at h0 h1
  have hE : 0 < 2 ^ c.es := Nat.two_pow_pos _
  rw [Bool.eq_iff_iff]
  simp only [Bool.or_eq_true, Bool.and_eq_true, beq_iff_eq, h0, h1]
  omega

/-- all three NaN tests at once: (either, signalling, quiet). -/
theorem cfloat_isNaN_iff (c : Cfg) (a : Nat) (hf : c.es + 2 ≤ c.n) (ha : a < 2 ^ c.n) :
    CFloat.isNaN c .either a = CFloatSpec.isNaN c a ∧
    CFloat.isNaN c .signalling a = CFloatSpec.isSNaN c a ∧
    CFloat.isNaN c .quiet a = CFloatSpec.isQNaN c a := by
  have hinf := cfloat_isInf_iff c a hf ha
  obtain ⟨s, e, r, hs, he, hr, hP2, hdec, hpow1, hpow, hsS, heS, hrS, hsM, heM, hmod⟩ := cfloat_fields c a hf ha
  have h1 := cf_allones1 (2 ^ c.es) (2 ^ c.fbits) s e r 1 hs he hr (by decide) (by omega)
  have h0 := cf_allones0 (2 ^ c.es) (2 ^ c.fbits) s e r 1 hs he hr (by decide) (by omega)
  rw [← hdec] at h0 h1
  have hE : 0 < 2 ^ c.es := Nat.two_pow_pos _
  have hs' : s = 0 ∨ s = 1 := by omega
  unfold CFloatSpec.isSNaN CFloatSpec.isQNaN CFloatSpec.isNaN CFloat.isNaN CFloat.isNaNEnc CFloat.isSuper
  rw [hinf, hsS, hsM, heM, heS, hrS, hpow, hpow1]
  cases c.sup
  · -- without supernormals
    simp only [Bool.false_eq_true, if_false]
    by_cases hsup : e = 2 ^ c.es - 1
    · simp [hsup]
    · simp [hsup]
  · -- with supernormals: the all-ones patterns
    simp only [if_true]
    refine ⟨?_, ?_, ?_⟩ <;> rw [Bool.eq_iff_iff] <;>
      simp only [Bool.or_eq_true, Bool.and_eq_true, beq_iff_eq, Bool.not_eq_true', beq_eq_false_iff_ne, h0, h1] <;> omega

/-- the prologue model rewritten over the spec-level classification (canonical encodings, fbits ≥ 1). -/
theorem cfloat_prologue_spec (c : Cfg) (op : Op) (a b : Nat) (hf : c.es + 2 ≤ c.n) (ha : a < 2 ^ c.n) (hb : b < 2 ^ c.n) :
    CFloat.prologue c op a b =
      (let anyS := CFloatSpec.isSNaN c a || CFloatSpec.isSNaN c b
       let anyQ := CFloatSpec.isQNaN c a || CFloatSpec.isQNaN c b
       match op with
       | .add | .sub | .mul =>
         if anyS then { throws := some .cfloat_operand_is_nan, qEarly := some (CFloat.nanEnc c .signalling) }
         else if anyQ then { tEarly := some (CFloat.nanEnc c .quiet), qEarly := some (CFloat.nanEnc c .quiet) }
         else {}
       | .div =>
         { throws :=
             if CFloatSpec.isZero c b then some .cfloat_divide_by_zero
             else if CFloatSpec.isNaN c b then some .cfloat_divide_by_nan
             else if CFloatSpec.isSNaN c a then some .cfloat_operand_is_nan
             else none,
           tEarly :=
             if CFloatSpec.isZero c b then none
             else if CFloatSpec.isNaN c b then none
             else if CFloatSpec.isSNaN c a then none
             else if CFloatSpec.isQNaN c a then some (CFloat.nanEnc c .quiet)
             else none,
           qEarly :=
             if anyS then some (CFloat.nanEnc c .signalling)
             else if anyQ then some (CFloat.nanEnc c .quiet)
             else if CFloatSpec.isZero c b then
               (if CFloatSpec.isZero c a then some (CFloat.nanEnc c .quiet)
                else some (CFloat.infEnc c (CFloatSpec.sign c a != CFloatSpec.sign c b)))
             else none }
       | _ => {}) := by
  obtain ⟨ea, sa, qa⟩ := cfloat_isNaN_iff c a hf ha
  obtain ⟨eb, sb, qb⟩ := cfloat_isNaN_iff c b hf hb
  have za := cfloat_isZero_iff c a hf ha
  have zb := cfloat_isZero_iff c b hf hb
  obtain ⟨_, _, _, _, _, _, _, _, _, _, hsSa, _, _, hsMa, _, _⟩ := cfloat_fields c a hf ha
  obtain ⟨_, _, _, _, _, _, _, _, _, _, hsSb, _, _, hsMb, _, _⟩ := cfloat_fields c b hf hb
  have siga : CFloat.sign c a = CFloatSpec.sign c a := by rw [hsSa, hsMa]
  have sigb : CFloat.sign c b = CFloatSpec.sign c b := by rw [hsSb, hsMb]
  unfold CFloat.prologue
  rw [sa, qa, eb, sb, qb, za, zb, siga, sigb]
  cases op <;> rfl

theorem cfloatSpec_nan_split (c : Cfg) (a : Nat) :
    CFloatSpec.isNaN c a = (CFloatSpec.isSNaN c a || CFloatSpec.isQNaN c a) := by
  unfold CFloatSpec.isSNaN CFloatSpec.isQNaN
  cases CFloatSpec.isNaN c a <;> cases CFloatSpec.sign c a <;> rfl


/-! ### posit -/

theorem posit_isNaR_iff (n a : Nat) (hn : 1 ≤ n) (ha : a < 2 ^ n) :
    Posit.isNaR n a = PositSpec.isNaR n a := by
  obtain ⟨m, rfl⟩ : ∃ m, n = m + 1 := ⟨n - 1, by omega⟩
  unfold Posit.isNaR PositSpec.isNaR
  simp only [Nat.add_sub_cancel]
  rw [testBit_top m a ha]
  have hp : 0 < 2 ^ m := Nat.two_pow_pos m
  have h2 : 2 ^ (m + 1) = 2 * 2 ^ m := by rw [Nat.pow_succ, Nat.mul_comm]
  by_cases h : 2 ^ m ≤ a
  · have hm : a % 2 ^ m = a - 2 ^ m := by
      rw [Nat.mod_eq_sub_mod h, Nat.mod_eq_of_lt (by omega)]
    rw [hm, Bool.eq_iff_iff]
    simp only [Bool.and_eq_true, decide_eq_true_eq, beq_iff_eq]
    omega
  · rw [Bool.eq_iff_iff]
    simp only [Bool.and_eq_true, decide_eq_true_eq, beq_iff_eq]
    omega

theorem positSpec_nar_not_zero (n a : Nat) : PositSpec.isNaR n a = true → PositSpec.isZero n a = false := by
  unfold PositSpec.isNaR PositSpec.isZero
  have hp : 0 < 2 ^ (n - 1) := Nat.two_pow_pos _
  intro h
  have h1 : a = 2 ^ (n - 1) := by simpa using h
  simp only [beq_eq_false_iff_ne]
  omega

theorem posit_isZero_iff (n a : Nat) : Posit.isZero n a = PositSpec.isZero n a := rfl

/-! ### generic facts about `runT` / `runQ` -/

/-- if, whenever the throwing prologue does not throw, both prologues return early with the same value or both fall through
    (and the quiet build does not trap), then a value returned by the throwing build is the quiet build's value. -/
theorem run_value_agree {α : Type} (p : Prologue α)
    (h : p.throws = none → p.qEarly = p.tEarly ∧ p.qTrap = false) (core r : α) :
    runT p core = .val r → runQ p core = .val r := by
  unfold runT runQ
  cases ht : p.throws with
  | some k => simp
  | none =>
    obtain ⟨h1, h2⟩ := h ht
    rw [h1, h2]
    cases p.tEarly <;> simp

theorem runT_thrown_iff {α : Type} (p : Prologue α) (core : α) (k : ExcKind) :
    runT p core = .thrown k ↔ p.throws = some k := by
  unfold runT
  cases p.throws with
  | some k' => simp
  | none => cases p.tEarly <;> simp

/-! ### the documented exception type describes the operands it is thrown for -/

theorem positSpec_kind_applies (n : Nat) (op : Op) (a b : Nat) :
    PositSpec.err n op a b = true → PositSpec.kindApplies n op a b (PositSpec.kind n op a b) = true := by
  unfold PositSpec.err PositSpec.kind PositSpec.kindApplies
  generalize PositSpec.isNaR n a = na
  generalize PositSpec.isNaR n b = nb
  generalize PositSpec.isZero n a = za
  generalize PositSpec.isZero n b = zb
  cases op <;> cases na <;> cases nb <;> cases za <;> cases zb <;> simp

theorem cfloatSpec_kind_applies (c : Cfg) (op : Op) (a b : Nat) :
    CFloatSpec.err c op a b = true → CFloatSpec.kindApplies c op a b (CFloatSpec.kind c op a b) = true := by
  unfold CFloatSpec.err CFloatSpec.kind CFloatSpec.kindApplies
  rw [cfloatSpec_nan_split c a, cfloatSpec_nan_split c b]
  generalize CFloatSpec.isSNaN c a = sa
  generalize CFloatSpec.isSNaN c b = sb
  generalize CFloatSpec.isQNaN c a = qa
  generalize CFloatSpec.isQNaN c b = qb
  generalize CFloatSpec.isZero c b = zb
  cases op <;> cases sa <;> cases sb <;> cases qa <;> cases qb <;> cases zb <;> simp


/-! ### the executable spec predicate -/

set_option linter.unusedSimpArgs false in
/-- `specCheck` (the driver's judgement with a reason text) accepts exactly when the four clauses `specHolds` hold. -/
theorem specCheck_ok_iff (errCond : Bool) (applies : ExcKind → Bool) (stderrSignal : Bool) (q t : Obs) (qe : Bool) :
    specCheck errCond applies stderrSignal q t qe = .ok () ↔ specHolds errCond applies stderrSignal q t qe = true := by
  unfold specCheck specHolds
  cases t with
  | val v =>
    by_cases hq : q = .val v
    · cases errCond <;> cases stderrSignal <;> cases qe <;>
        simp [hq, Obs.isThrown, bind, Except.bind, pure, Except.pure, throw, throwThe, MonadExceptOf.throw]
    · cases errCond <;> cases stderrSignal <;> cases qe <;>
        simp [hq, Obs.isThrown, bind, Except.bind, pure, Except.pure, throw, throwThe, MonadExceptOf.throw]
  | trap =>
    simp [Obs.isThrown, bind, Except.bind, pure, Except.pure, throw, throwThe, MonadExceptOf.throw]
  | thrown nm =>
    cases hk : ExcKind.ofName? nm with
    | none =>
      cases errCond <;> cases stderrSignal <;> cases qe <;>
        simp [hk, Obs.isThrown, bind, Except.bind, pure, Except.pure, throw, throwThe, MonadExceptOf.throw]
    | some k =>
      cases ha : applies k <;> cases errCond <;> cases stderrSignal <;> cases qe <;>
        simp [hk, ha, Obs.isThrown, bind, Except.bind, pure, Except.pure, throw, throwThe, MonadExceptOf.throw]

theorem excKind_ofName_name (k : ExcKind) : ExcKind.ofName? k.name = some k := by
  cases k <;> decide

/-- whatever satisfies the two clauses proved about a prologue model (value agreement, throw ⇔ listed operands with the
    documented type) is accepted by the spec predicate, for every value of the shared arithmetic. -/
theorem specHolds_of_model {α : Type} (sh : α → String) (p : Prologue α) (core : α)
    (errCond : Bool) (applies : ExcKind → Bool) (stderrSignal : Bool) (kd : ExcKind)
    (hval : p.throws = none → p.qEarly = p.tEarly ∧ p.qTrap = false)
    (hthr : ∀ k, p.throws = some k ↔ (errCond = true ∧ k = kd))
    (happ : errCond = true → applies kd = true)
    (hsig : stderrSignal = true → p.qStderr = errCond) :
    specHolds errCond applies stderrSignal ((runQ p core).obs sh) ((runT p core).obs sh) p.qStderr = true := by
  unfold specHolds runT runQ
  cases ht : p.throws with
  | none =>
    obtain ⟨h1, h2⟩ := hval ht
    have he : errCond = false := by
      cases hE : errCond with
      | false => rfl
      | true => have := (hthr kd).2 ⟨hE, rfl⟩; rw [ht] at this; exact absurd this (by simp)
    subst he
    rw [h1, h2]
    cases hs : stderrSignal with
    | false => cases p.tEarly <;> simp [Outcome.obs, Obs.isThrown]
    | true =>
      have := hsig hs
      cases p.tEarly <;> simp [Outcome.obs, Obs.isThrown, this]
  | some k =>
    obtain ⟨hE, hk⟩ := (hthr k).1 ht
    subst hk
    have ha := happ hE
    cases hs : stderrSignal with
    | false => simp [Outcome.obs, Obs.isThrown, excKind_ofName_name, ha, hE]
    | true =>
      have := hsig hs
      simp [Outcome.obs, Obs.isThrown, excKind_ofName_name, ha, hE, this]

end UVerif.Exc
