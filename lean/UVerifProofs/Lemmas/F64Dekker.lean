/-
  UVerifProofs.Lemmas.F64Dekker — Dekker's exact product on the integer model, GIVEN the bit-width
  contract of the splitting (hi a multiple of 2^(e+s) of magnitude ≤ 2^(p+e); lo a multiple of 2^e of magnitude
  ≤ 2^(s−1+e)) for NORMAL operands (2^(p−1+e) ≤ |a| ≤ 2^(p+e)).  Products here are integer products ("units²"):
  the statement is scale free; the no-underflow guard only enters when the model's `mul` (which divides by 2^q)
  is related to it.

  `dekker_product`:  the four partial products are floats, the three partial sums
  `ah·bh − P`, `… + ah·bl`, `… + al·bh` are floats and the last sum is `a·b − P`, a float:
  so `r = ((ah·bh − P) + ah·bl + al·bh) + al·bl` is computed without any rounding error and `P + r = a·b`.
-/
import UVerifProofs.Lemmas.F64Split

namespace UVerif.F64

theorem pow_dvd_mul_int {m n : Nat} {x y : Int} (hx : ((2 ^ m : Nat) : Int) ∣ x) (hy : ((2 ^ n : Nat) : Int) ∣ y) :
    ((2 ^ (m + n) : Nat) : Int) ∣ x * y := by
  have : ((2 ^ (m + n) : Nat) : Int) = ((2 ^ m : Nat) : Int) * ((2 ^ n : Nat) : Int) := by
    rw [Nat.pow_add]; push_cast; ring
  rw [this]; exact Int.mul_dvd_mul hx hy

theorem pow_dvd_of_le_int {m n : Nat} {x : Int} (h : m ≤ n) (hx : ((2 ^ n : Nat) : Int) ∣ x) : ((2 ^ m : Nat) : Int) ∣ x :=
  Int.dvd_trans (Int.natCast_dvd_natCast.2 (Nat.pow_dvd_pow 2 h)) hx

theorem natAbs_mul_le {x y : Int} {A B : Nat} (hx : x.natAbs ≤ A) (hy : y.natAbs ≤ B) : (x * y).natAbs ≤ A * B := by
  rw [Int.natAbs_mul]; exact Nat.mul_le_mul hx hy

/-- the rounding error of an integer of magnitude at most `2^(p+k)` is at most `2^(k-1)` (twice it ≤ `2^k`). -/
theorem rn_err_le_of_le {p k : Nat} (hp : 1 ≤ p) {z : Int} (h : z.natAbs ≤ 2 ^ (p + k)) :
    2 * (z - rnInt p z).natAbs ≤ 2 ^ k := by
  rcases Nat.lt_or_ge z.natAbs (2 ^ (p + k)) with hlt | hge
  · have hs : size z.natAbs ≤ p + k := size_le.2 hlt
    have hc := rnInt_close p z
    have : 2 ^ (size z.natAbs - p) ≤ 2 ^ k := Nat.pow_le_pow_right (by decide) (by omega)
    omega
  · have heq : z.natAbs = 2 ^ (p + k) := Nat.le_antisymm h hge
    have hf : IsFloat p z := by
      unfold IsFloat; rw [heq]; exact isFloatN_two_pow p _ hp
    rw [rnInt_exact hp hf]
    simp

/-- Dekker's product, exactness of every step after the splittings (normal operands). -/
theorem dekker_product {p s ea eb : Nat} (hps1 : p ≤ 2 * s) (hps2 : 2 * s ≤ p + 1) (hs2 : s + 2 ≤ p)
    {a b ah al bh bl : Int} (ha : a = ah + al) (hb : b = bh + bl)
    (ha1 : ((2 ^ (ea + s) : Nat) : Int) ∣ ah) (ha2 : ((2 ^ ea : Nat) : Int) ∣ al)
    (ha3 : al.natAbs ≤ 2 ^ (s - 1 + ea)) (ha4 : ah.natAbs ≤ 2 ^ (p + ea))
    (ha5 : 2 ^ (p - 1 + ea) ≤ a.natAbs) (ha6 : a.natAbs ≤ 2 ^ (p + ea))
    (hb1 : ((2 ^ (eb + s) : Nat) : Int) ∣ bh) (hb2 : ((2 ^ eb : Nat) : Int) ∣ bl)
    (hb3 : bl.natAbs ≤ 2 ^ (s - 1 + eb)) (hb4 : bh.natAbs ≤ 2 ^ (p + eb))
    (hb5 : 2 ^ (p - 1 + eb) ≤ b.natAbs) (hb6 : b.natAbs ≤ 2 ^ (p + eb)) :
    IsFloat p (ah * bh) ∧ IsFloat p (ah * bl) ∧ IsFloat p (al * bh) ∧ IsFloat p (al * bl) ∧
    IsFloat p (ah * bh - rnInt p (a * b)) ∧
    IsFloat p (ah * bh - rnInt p (a * b) + ah * bl) ∧
    IsFloat p (ah * bh - rnInt p (a * b) + ah * bl + al * bh) ∧
    IsFloat p (a * b - rnInt p (a * b)) := by
  have hp : 1 ≤ p := by omega
  -- divisibility of the partial products
  have dhh : ((2 ^ (ea + s + (eb + s)) : Nat) : Int) ∣ ah * bh := pow_dvd_mul_int ha1 hb1
  have dhl : ((2 ^ (ea + s + eb) : Nat) : Int) ∣ ah * bl := pow_dvd_mul_int ha1 hb2
  have dlh : ((2 ^ (ea + (eb + s)) : Nat) : Int) ∣ al * bh := pow_dvd_mul_int ha2 hb1
  have dll : ((2 ^ (ea + eb) : Nat) : Int) ∣ al * bl := pow_dvd_mul_int ha2 hb2
  -- magnitudes of the partial products
  have mhh := natAbs_mul_le ha4 hb4
  have mhl := natAbs_mul_le ha4 hb3
  have mlh := natAbs_mul_le ha3 hb4
  have mll := natAbs_mul_le ha3 hb3
  rw [← Nat.pow_add] at mhh mhl mlh mll
  -- the product itself
  have mab := natAbs_mul_le ha6 hb6
  rw [← Nat.pow_add] at mab
  have lab : 2 ^ (p - 1 + ea + (p - 1 + eb)) ≤ (a * b).natAbs := by
    rw [Int.natAbs_mul, Nat.pow_add]; exact Nat.mul_le_mul ha5 hb5
  have e2p : p + ea + (p + eb) = p + (p + (ea + eb)) := by omega
  rw [e2p] at mab
  have herr := rn_err_le_of_le hp mab
  -- quantum of P
  have hsz : p - 1 + ea + (p - 1 + eb) < size (a * b).natAbs := lt_size.2 lab
  have dP : ((2 ^ (p - 1 + (ea + eb)) : Nat) : Int) ∣ rnInt p (a * b) :=
    pow_dvd_of_le_int (by omega) (rnInt_quantum_dvd p (a * b))
  have dab : ((2 ^ (ea + eb) : Nat) : Int) ∣ a * b := by
    have h1 : ((2 ^ ea : Nat) : Int) ∣ a := by
      rw [ha]; exact Int.dvd_add (pow_dvd_of_le_int (by omega) ha1) ha2
    have h2 : ((2 ^ eb : Nat) : Int) ∣ b := by
      rw [hb]; exact Int.dvd_add (pow_dvd_of_le_int (by omega) hb1) hb2
    exact pow_dvd_mul_int h1 h2
  -- identities
  have id1 : ah * bh - rnInt p (a * b) = (a * b - rnInt p (a * b)) - ah * bl - al * bh - al * bl := by
    rw [ha, hb]; ring
  have id2 : ah * bh - rnInt p (a * b) + ah * bl = (a * b - rnInt p (a * b)) - al * bh - al * bl := by
    rw [ha, hb]; ring
  have id3 : ah * bh - rnInt p (a * b) + ah * bl + al * bh = (a * b - rnInt p (a * b)) - al * bl := by
    rw [ha, hb]; ring
  -- power bookkeeping: everything relative to E = ea + eb
  have q1 : 2 ^ (p + ea + (s - 1 + eb)) = 2 ^ (p + s - 1 + (ea + eb)) := by congr 1; omega
  have q2 : 2 ^ (s - 1 + ea + (p + eb)) = 2 ^ (p + s - 1 + (ea + eb)) := by congr 1; omega
  have q3 : 2 ^ (s - 1 + ea + (s - 1 + eb)) = 2 ^ (2 * s - 2 + (ea + eb)) := by congr 1; omega
  rw [q1] at mhl; rw [q2] at mlh; rw [q3] at mll
  have r1 : 2 ^ (2 * s - 2 + (ea + eb)) ≤ 2 ^ (p - 1 + (ea + eb)) := Nat.pow_le_pow_right (by decide) (by omega)
  have r2 : 2 ^ (p + (ea + eb)) = 2 * 2 ^ (p - 1 + (ea + eb)) := by
    have : p + (ea + eb) = (p - 1 + (ea + eb)) + 1 := by omega
    rw [this, Nat.pow_succ]; ring
  have r3 : 2 ^ (p + s + (ea + eb)) = 2 * 2 ^ (p + s - 1 + (ea + eb)) := by
    have : p + s + (ea + eb) = (p + s - 1 + (ea + eb)) + 1 := by omega
    rw [this, Nat.pow_succ]; ring
  have r4 : 2 ^ (p + (ea + eb)) ≤ 2 ^ (p + s - 1 + (ea + eb)) := Nat.pow_le_pow_right (by decide) (by omega)
  have r5 : 2 ^ (p + s + 1 + (ea + eb)) = 2 * 2 ^ (p + s + (ea + eb)) := by
    have : p + s + 1 + (ea + eb) = (p + s + (ea + eb)) + 1 := by omega
    rw [this, Nat.pow_succ]; ring
  have r6 : 2 ^ (p + s + 1 + (ea + eb)) ≤ 2 ^ (p + (p - 1 + (ea + eb))) := Nat.pow_le_pow_right (by decide) (by omega)
  refine ⟨?_, ?_, ?_, ?_, ?_, ?_, ?_, ?_⟩
  · -- ah·bh
    apply isFloat_of_dvd_of_le dhh
    have : 2 ^ (p + ea + (p + eb)) ≤ 2 ^ (p + (ea + s + (eb + s))) := Nat.pow_le_pow_right (by decide) (by omega)
    omega
  · apply isFloat_of_dvd_of_le dhl
    have : 2 ^ (p + s - 1 + (ea + eb)) ≤ 2 ^ (p + (ea + s + eb)) := Nat.pow_le_pow_right (by decide) (by omega)
    omega
  · apply isFloat_of_dvd_of_le dlh
    have : 2 ^ (p + s - 1 + (ea + eb)) ≤ 2 ^ (p + (ea + (eb + s))) := Nat.pow_le_pow_right (by decide) (by omega)
    omega
  · apply isFloat_of_dvd_of_le dll
    have : 2 ^ (2 * s - 2 + (ea + eb)) ≤ 2 ^ (p + (ea + eb)) := Nat.pow_le_pow_right (by decide) (by omega)
    omega
  · -- t1 = ah·bh − P : multiple of 2^(p−1+E), magnitude ≤ 2^(p+s+1+E)
    have d1 : ((2 ^ (p - 1 + (ea + eb)) : Nat) : Int) ∣ ah * bh := pow_dvd_of_le_int (by omega) dhh
    apply isFloat_of_dvd_of_le (Int.dvd_sub d1 dP)
    rw [id1]
    omega
  · -- t2 : multiple of 2^(s+E), magnitude ≤ 2^(p+s+E)
    have d1 : ((2 ^ (s + (ea + eb)) : Nat) : Int) ∣ ah * bh := pow_dvd_of_le_int (by omega) dhh
    have d2 : ((2 ^ (s + (ea + eb)) : Nat) : Int) ∣ rnInt p (a * b) := pow_dvd_of_le_int (by omega) dP
    have d3 : ((2 ^ (s + (ea + eb)) : Nat) : Int) ∣ ah * bl := pow_dvd_of_le_int (by omega) dhl
    apply isFloat_of_dvd_of_le (Int.dvd_add (Int.dvd_sub d1 d2) d3)
    rw [id2]
    have : 2 ^ (p + s + (ea + eb)) = 2 ^ (p + (s + (ea + eb))) := by congr 1; omega
    omega
  · -- t3
    have d1 : ((2 ^ (s + (ea + eb)) : Nat) : Int) ∣ ah * bh := pow_dvd_of_le_int (by omega) dhh
    have d2 : ((2 ^ (s + (ea + eb)) : Nat) : Int) ∣ rnInt p (a * b) := pow_dvd_of_le_int (by omega) dP
    have d3 : ((2 ^ (s + (ea + eb)) : Nat) : Int) ∣ ah * bl := pow_dvd_of_le_int (by omega) dhl
    have d4 : ((2 ^ (s + (ea + eb)) : Nat) : Int) ∣ al * bh := pow_dvd_of_le_int (by omega) dlh
    apply isFloat_of_dvd_of_le (Int.dvd_add (Int.dvd_add (Int.dvd_sub d1 d2) d3) d4)
    rw [id3]
    have : 2 ^ (p + s + (ea + eb)) = 2 ^ (p + (s + (ea + eb))) := by congr 1; omega
    omega
  · -- the error of the product
    have d2 : ((2 ^ (ea + eb) : Nat) : Int) ∣ rnInt p (a * b) := pow_dvd_of_le_int (by omega) dP
    apply isFloat_of_dvd_of_le (Int.dvd_sub dab d2)
    omega

end UVerif.F64

namespace UVerif.F64

/-- two multiples of `g`, the larger strictly above the smaller, are at least `g` apart. -/
theorem int_mult_gap {g x L : Int} (hg : 0 < g) (hx : g ∣ x) (hL : g ∣ L) (h : L < x) : L + g ≤ x := by
  obtain ⟨j, hj⟩ := Int.dvd_sub hx hL
  have hj1 : 1 ≤ j := by
    by_contra hc
    have hj0 : j ≤ 0 := by omega
    have : g * j ≤ 0 := Int.mul_nonpos_of_nonneg_of_nonpos (Int.le_of_lt hg) hj0
    omega
  have : g * 1 ≤ g * j := Int.mul_le_mul_of_nonneg_left hj1 (Int.le_of_lt hg)
  omega

/-- Veltkamp, bit-width half, for a NORMAL non-negative float `x` with quantum `2^e`
    (`2^(p−1+e) ≤ x < 2^(p+e)`, `2 ≤ s`, `s + 1 ≤ p`):  `hi = γ − d` is a multiple of `2^(e+s)` of magnitude at most
    `2^(p+e)` (so it fits `p − s` bits) and `lo = x − hi` is a multiple of `2^e` of magnitude at most `2^(s−1+e)`. -/
theorem veltkamp_widths_aux {p s e : Nat} (hs : 1 ≤ s) (hsp : s + 1 ≤ p) {x : Int} (hx : IsFloat p x) (hx0 : 0 ≤ x)
    (hlo : 2 ^ (p - 1 + e) ≤ x.natAbs) (hhi : x.natAbs < 2 ^ (p + e)) :
    ((2 ^ (e + s) : Nat) : Int) ∣ (rnInt p ((((2 ^ s : Nat) : Int) + 1) * x) - rnInt p (rnInt p ((((2 ^ s : Nat) : Int) + 1) * x) - x)) ∧
    (rnInt p ((((2 ^ s : Nat) : Int) + 1) * x) - rnInt p (rnInt p ((((2 ^ s : Nat) : Int) + 1) * x) - x)).natAbs ≤ 2 ^ (p + e) ∧
    ((2 ^ e : Nat) : Int) ∣ (x - (rnInt p ((((2 ^ s : Nat) : Int) + 1) * x) - rnInt p (rnInt p ((((2 ^ s : Nat) : Int) + 1) * x) - x))) ∧
    (x - (rnInt p ((((2 ^ s : Nat) : Int) + 1) * x) - rnInt p (rnInt p ((((2 ^ s : Nat) : Int) + 1) * x) - x))).natAbs ≤ 2 ^ (s - 1 + e) := by
  have hp : 1 ≤ p := by omega
  -- quantum of x is 2^e
  have hszx : size x.natAbs = p + e := by
    apply size_eq_of_bounds _ hhi (by omega)
    have : p + e - 1 = p - 1 + e := by omega
    rw [this]; exact hlo
  have hdx : ((2 ^ e : Nat) : Int) ∣ x := by
    have := isFloat_quantum_dvd hp hx
    rw [hszx] at this
    have e1 : p + e - p = e := by omega
    rwa [e1] at this
  -- powers of two as integers
  have hge : (0 : Int) < ((2 ^ e : Nat) : Int) := by have := Nat.two_pow_pos e; omega
  have hpe : ((2 ^ (p + e) : Nat) : Int) = ((2 ^ p : Nat) : Int) * ((2 ^ e : Nat) : Int) := by rw [Nat.pow_add]; push_cast; ring
  have hpe1 : ((2 ^ (p - 1 + e) : Nat) : Int) = ((2 ^ (p - 1) : Nat) : Int) * ((2 ^ e : Nat) : Int) := by rw [Nat.pow_add]; push_cast; ring
  have hdtop : ((2 ^ e : Nat) : Int) ∣ ((2 ^ (p + e) : Nat) : Int) := by rw [hpe]; exact Int.dvd_mul_left _ _
  have hdlow : ((2 ^ e : Nat) : Int) ∣ ((2 ^ (p - 1 + e) : Nat) : Int) := by rw [hpe1]; exact Int.dvd_mul_left _ _
  have hxtop : x + ((2 ^ e : Nat) : Int) ≤ ((2 ^ (p + e) : Nat) : Int) := int_mult_gap hge hdtop hdx (by omega)
  -- 2^s · x and the constant
  have h2s2 : (2 : Int) ≤ ((2 ^ s : Nat) : Int) := by
    have := two_pow_pred hs
    have := Nat.two_pow_pos (s - 1); omega
  have hfx : IsFloat p (x * ((2 ^ s : Nat) : Int)) := isFloat_mul_two_pow hx s
  have hce : (((2 ^ s : Nat) : Int) + 1) * x = x * ((2 ^ s : Nat) : Int) + x := by ring
  obtain ⟨g, hg⟩ : ∃ g, g = rnInt p ((((2 ^ s : Nat) : Int) + 1) * x) := ⟨_, rfl⟩
  rw [← hg]
  have hgf : IsFloat p g := by rw [hg]; exact rnInt_isFloat _ _
  have hg1 : x * ((2 ^ s : Nat) : Int) ≤ g := by rw [hg]; exact rnInt_ge_of_ge hp hfx (by rw [hce]; omega)
  -- name 2^s·x and its bounds
  obtain ⟨X, hX⟩ : ∃ X, X = x * ((2 ^ s : Nat) : Int) := ⟨_, rfl⟩
  rw [← hX] at hg1 hfx
  have hXlow : ((2 ^ (p - 1 + e + s) : Nat) : Int) ≤ X := by
    have h := Int.mul_le_mul_of_nonneg_right (show ((2 ^ (p - 1 + e) : Nat) : Int) ≤ x by omega) (show (0 : Int) ≤ ((2 ^ s : Nat) : Int) by omega)
    have : ((2 ^ (p - 1 + e + s) : Nat) : Int) = ((2 ^ (p - 1 + e) : Nat) : Int) * ((2 ^ s : Nat) : Int) := by rw [Nat.pow_add]; push_cast; ring
    rw [this, hX]; exact h
  have hXtop : X + ((2 ^ (e + s) : Nat) : Int) ≤ ((2 ^ (p + e + s) : Nat) : Int) := by
    have h := Int.mul_le_mul_of_nonneg_right hxtop (show (0 : Int) ≤ ((2 ^ s : Nat) : Int) by omega)
    have e1 : ((2 ^ (p + e + s) : Nat) : Int) = ((2 ^ (p + e) : Nat) : Int) * ((2 ^ s : Nat) : Int) := by rw [Nat.pow_add]; push_cast; ring
    have e2 : ((2 ^ (e + s) : Nat) : Int) = ((2 ^ e : Nat) : Int) * ((2 ^ s : Nat) : Int) := by rw [Nat.pow_add]; push_cast; ring
    have e3 : (x + ((2 ^ e : Nat) : Int)) * ((2 ^ s : Nat) : Int) = X + ((2 ^ (e + s) : Nat) : Int) := by rw [e2, hX]; ring
    rw [e1, ← e3]; exact h
  have hx2 : 2 * x ≤ X := by
    have h := Int.mul_le_mul_of_nonneg_left h2s2 hx0
    rw [hX]; omega
  -- rounding error of c = X + x : |ε1| ≤ 2^(e+s)
  have hes0 : (0 : Int) < ((2 ^ (e + s) : Nat) : Int) := by have := Nat.two_pow_pos (e + s); omega
  have hcabs : (X + x).natAbs ≤ 2 ^ (p + (e + s + 1)) := by
    have : 2 ^ (p + (e + s + 1)) = 2 * 2 ^ (p + e + s) := by
      have : p + (e + s + 1) = (p + e + s) + 1 := by omega
      rw [this, Nat.pow_succ]; ring
    omega
  have herr1 := rn_err_le_of_le hp hcabs
  have hcg : rnInt p (X + x) = g := by rw [hg, hce, hX]
  rw [hcg] at herr1
  have hpw1 : 2 ^ (e + s + 1) = 2 * 2 ^ (e + s) := by rw [Nat.pow_succ]; ring
  -- y = g − x ≥ 2^(p−1+e+s)
  have hylow : ((2 ^ (p - 1 + e + s) : Nat) : Int) ≤ g - x := by
    rcases Int.lt_or_le ((2 ^ (p - 1 + e) : Nat) : Int) x with hgt | hle
    · -- x ≥ 2^(p−1+e) + 2^e
      have hstep : ((2 ^ (p - 1 + e) : Nat) : Int) + ((2 ^ e : Nat) : Int) ≤ x := int_mult_gap hge hdx hdlow hgt
      have h := Int.mul_le_mul_of_nonneg_right hstep (show (0 : Int) ≤ ((2 ^ s : Nat) : Int) by omega)
      have e1 : (((2 ^ (p - 1 + e) : Nat) : Int) + ((2 ^ e : Nat) : Int)) * ((2 ^ s : Nat) : Int)
          = ((2 ^ (p - 1 + e + s) : Nat) : Int) + ((2 ^ (e + s) : Nat) : Int) := by
        rw [Nat.pow_add (2) (p - 1 + e) s, Nat.pow_add 2 e s]; push_cast; ring
      rw [e1, ← hX] at h
      omega
    · -- x = 2^(p−1+e): c = X + x is a float
      have hxe : x = ((2 ^ (p - 1 + e) : Nat) : Int) := by omega
      have hcf : IsFloat p (X + x) := by
        have d1 : ((2 ^ (p - 1 + e) : Nat) : Int) ∣ X := by rw [hX, hxe]; exact Int.dvd_mul_right _ _
        have d2 : ((2 ^ (p - 1 + e) : Nat) : Int) ∣ x := by rw [hxe]
        apply isFloat_of_dvd_of_le (Int.dvd_add d1 d2)
        have : 2 ^ (p + e + s) ≤ 2 ^ (p + (p - 1 + e)) := Nat.pow_le_pow_right (by decide) (by omega)
        have hpes : 2 ^ (e + s) ≤ 2 ^ (p + e + s) := Nat.pow_le_pow_right (by decide) (by omega)
        have hxs : 2 ^ (p - 1 + e) ≤ 2 ^ (e + s) ∨ 2 ^ (e + s) ≤ 2 ^ (p - 1 + e) := by omega
        have hxx : 2 ^ (p - 1 + e) ≤ 2 ^ (p + (p - 1 + e)) := Nat.pow_le_pow_right (by decide) (by omega)
        have hXle : X + ((2 ^ (p - 1 + e) : Nat) : Int) ≤ ((2 ^ (p + (p - 1 + e)) : Nat) : Int) := by
          -- X = 2^(p−1+e+s) and p−1+e+s+1 ≤ p+(p−1+e)
          have hXe : X = ((2 ^ (p - 1 + e + s) : Nat) : Int) := by
            rw [hX, hxe, Nat.pow_add 2 (p - 1 + e) s]; push_cast; ring
          have h1 : 2 ^ (p - 1 + e) ≤ 2 ^ (p - 1 + e + s) := Nat.pow_le_pow_right (by decide) (by omega)
          have h2 : 2 ^ (p - 1 + e + s + 1) = 2 * 2 ^ (p - 1 + e + s) := by rw [Nat.pow_succ]; ring
          have h3 : 2 ^ (p - 1 + e + s + 1) ≤ 2 ^ (p + (p - 1 + e)) := Nat.pow_le_pow_right (by decide) (by omega)
          omega
        omega
      have : g = X + x := by rw [← hcg]; exact rnInt_exact hp hcf
      omega
  -- sizes
  have hy0 : 0 ≤ g - x := by omega
  have hszy : p + e + s ≤ size (g - x).natAbs := by
    have : p - 1 + e + s < size (g - x).natAbs := lt_size.2 (by omega)
    omega
  have hszg : p + e + s ≤ size g.natAbs := by
    have := size_mono (show (g - x).natAbs ≤ g.natAbs by omega)
    omega
  have hdd : ((2 ^ (e + s) : Nat) : Int) ∣ rnInt p (g - x) :=
    pow_dvd_of_le_int (by omega) (rnInt_quantum_dvd p (g - x))
  have hdg : ((2 ^ (e + s) : Nat) : Int) ∣ g :=
    pow_dvd_of_le_int (by omega) (isFloat_quantum_dvd hp hgf)
  -- |y| ≤ 2^(p+e+s), so |ε2| ≤ 2^(e+s−1)
  have hyabs : (g - x).natAbs ≤ 2 ^ (p + (e + s)) := by
    have : 2 ^ (p + (e + s)) = 2 ^ (p + e + s) := by congr 1; omega
    omega
  have herr2 := rn_err_le_of_le hp hyabs
  have hpw2 : 2 ^ (e + s) = 2 * 2 ^ (s - 1 + e) := by
    have : e + s = (s - 1 + e) + 1 := by omega
    rw [this, Nat.pow_succ]; ring
  have hdhi := Int.dvd_sub hdg hdd
  refine ⟨hdhi, ?_, ?_, ?_⟩
  · -- |hi| ≤ 2^(p+e): hi = x + ε2 is a multiple of 2^(e+s) below 2^(p+e) + 2^(e+s)
    have hdtop2 : ((2 ^ (e + s) : Nat) : Int) ∣ ((2 ^ (p + e) : Nat) : Int) :=
      Int.natCast_dvd_natCast.2 (Nat.pow_dvd_pow 2 (by omega))
    have hgs : (0 : Int) < ((2 ^ (e + s) : Nat) : Int) := by have := Nat.two_pow_pos (e + s); omega
    by_contra hc
    have hlt : ((2 ^ (p + e) : Nat) : Int) < g - rnInt p (g - x) ∨ g - rnInt p (g - x) < -((2 ^ (p + e) : Nat) : Int) := by omega
    rcases hlt with h | h
    · have := int_mult_gap hgs hdhi hdtop2 h
      omega
    · have hneg : ((2 ^ (e + s) : Nat) : Int) ∣ -((2 ^ (p + e) : Nat) : Int) := (Int.dvd_neg).2 hdtop2
      have := int_mult_gap hgs hneg hdhi h
      omega
  · exact Int.dvd_sub hdx (pow_dvd_of_le_int (by omega) hdhi)
  · omega

end UVerif.F64

namespace UVerif.F64

/-- Veltkamp's `hi` and `lo` as computed (four roundings). -/
def vHi (p s : Nat) (x : Int) : Int :=
  rnInt p (rnInt p ((((2 ^ s : Nat) : Int) + 1) * x) - rnInt p (rnInt p ((((2 ^ s : Nat) : Int) + 1) * x) - x))
def vLo (p s : Nat) (x : Int) : Int := rnInt p (x - vHi p s x)

theorem vHi_eq {p s : Nat} (hp : 1 ≤ p) (hs : 1 ≤ s) {x : Int} (hx : IsFloat p x) :
    vHi p s x = rnInt p ((((2 ^ s : Nat) : Int) + 1) * x) - rnInt p (rnInt p ((((2 ^ s : Nat) : Int) + 1) * x) - x) := by
  unfold vHi; exact rnInt_exact hp (veltkamp_sum hp hs hx).1

theorem vLo_eq {p s : Nat} (hp : 1 ≤ p) (hs : 1 ≤ s) {x : Int} (hx : IsFloat p x) :
    vLo p s x = x - vHi p s x := by
  unfold vLo
  rw [vHi_eq hp hs hx]
  exact rnInt_exact hp (veltkamp_sum hp hs hx).2

theorem vHi_neg (p s : Nat) (x : Int) : vHi p s (-x) = -vHi p s x := by
  unfold vHi
  have e1 : (((2 ^ s : Nat) : Int) + 1) * -x = -((((2 ^ s : Nat) : Int) + 1) * x) := by ring
  rw [e1, rnInt_neg]
  have e2 : -rnInt p ((((2 ^ s : Nat) : Int) + 1) * x) - -x = -(rnInt p ((((2 ^ s : Nat) : Int) + 1) * x) - x) := by ring
  rw [e2, rnInt_neg]
  have e3 : -rnInt p ((((2 ^ s : Nat) : Int) + 1) * x) - -rnInt p (rnInt p ((((2 ^ s : Nat) : Int) + 1) * x) - x)
      = -(rnInt p ((((2 ^ s : Nat) : Int) + 1) * x) - rnInt p (rnInt p ((((2 ^ s : Nat) : Int) + 1) * x) - x)) := by ring
  rw [e3, rnInt_neg]

/-- bit-width contract of the splitting of a NORMAL float of either sign. -/
theorem veltkamp_widths {p s e : Nat} (hs : 1 ≤ s) (hsp : s + 1 ≤ p) {x : Int} (hx : IsFloat p x)
    (hlo : 2 ^ (p - 1 + e) ≤ x.natAbs) (hhi : x.natAbs < 2 ^ (p + e)) :
    x = vHi p s x + vLo p s x ∧
    ((2 ^ (e + s) : Nat) : Int) ∣ vHi p s x ∧ (vHi p s x).natAbs ≤ 2 ^ (p + e) ∧
    ((2 ^ e : Nat) : Int) ∣ vLo p s x ∧ (vLo p s x).natAbs ≤ 2 ^ (s - 1 + e) := by
  have hp : 1 ≤ p := by omega
  have hsum : x = vHi p s x + vLo p s x := by rw [vLo_eq hp hs hx]; ring
  refine ⟨hsum, ?_⟩
  rw [vLo_eq hp hs hx]
  rcases Int.lt_or_le x 0 with hn | hn
  · have h := veltkamp_widths_aux (e := e) hs hsp (isFloat_neg hx) (by omega : 0 ≤ -x) (by simpa using hlo) (by simpa using hhi)
    rw [← vHi_eq hp hs (isFloat_neg hx), vHi_neg] at h
    obtain ⟨h1, h2, h3, h4⟩ := h
    refine ⟨(Int.dvd_neg).1 h1, by simpa using h2, ?_, ?_⟩
    · have e : -x - -vHi p s x = -(x - vHi p s x) := by ring
      rw [e] at h3; exact (Int.dvd_neg).1 h3
    · have e : -x - -vHi p s x = -(x - vHi p s x) := by ring
      rw [e, Int.natAbs_neg] at h4; exact h4
  · have h := veltkamp_widths_aux (e := e) hs hsp hx hn hlo hhi
    rw [← vHi_eq hp hs hx] at h
    exact h

/-- the residual of `two_prod` as computed (Dekker, no FMA): nine roundings after the splittings. -/
def dekkerR (p s : Nat) (a b : Int) : Int :=
  let P := rnInt p (a * b)
  let t1 := rnInt p (rnInt p (vHi p s a * vHi p s b) - P)
  let t2 := rnInt p (t1 + rnInt p (vHi p s a * vLo p s b))
  let t3 := rnInt p (t2 + rnInt p (vLo p s a * vHi p s b))
  rnInt p (t3 + rnInt p (vLo p s a * vLo p s b))

/-- **Dekker's product with the Veltkamp split** on the integer model (scale free, NORMAL operands):
    `P = RN(a·b)` and the residual computed as in `two_prod` satisfy `P + r = a·b` exactly;
    `s = ⌈p/2⌉` (`p ≤ 2s ≤ p+1`), `p ≥ s + 2`. -/
theorem dekker_two_prod_int {p s ea eb : Nat} (hps1 : p ≤ 2 * s) (hps2 : 2 * s ≤ p + 1) (hs2 : s + 2 ≤ p) (hs : 1 ≤ s)
    {a b : Int} (ha : IsFloat p a) (hb : IsFloat p b)
    (ha5 : 2 ^ (p - 1 + ea) ≤ a.natAbs) (ha6 : a.natAbs < 2 ^ (p + ea))
    (hb5 : 2 ^ (p - 1 + eb) ≤ b.natAbs) (hb6 : b.natAbs < 2 ^ (p + eb)) :
    rnInt p (a * b) + dekkerR p s a b = a * b := by
  unfold dekkerR
  simp only
  have hp : 1 ≤ p := by omega
  obtain ⟨sa, a1, a4, a2, a3⟩ := veltkamp_widths (e := ea) hs (by omega) ha ha5 ha6
  obtain ⟨sb, b1, b4, b2, b3⟩ := veltkamp_widths (e := eb) hs (by omega) hb hb5 hb6
  obtain ⟨f1, f2, f3, f4, f5, f6, f7, f8⟩ :=
    dekker_product hps1 hps2 hs2 sa sb a1 a2 a3 a4 ha5 (Nat.le_of_lt ha6) b1 b2 b3 b4 hb5 (Nat.le_of_lt hb6)
  rw [rnInt_exact hp f1, rnInt_exact hp f2, rnInt_exact hp f3, rnInt_exact hp f4, rnInt_exact hp f5,
      rnInt_exact hp f6, rnInt_exact hp f7]
  have e : vHi p s a * vHi p s b - rnInt p (a * b) + vHi p s a * vLo p s b + vLo p s a * vHi p s b + vLo p s a * vLo p s b
      = a * b - rnInt p (a * b) := by
    have : a * b = (vHi p s a + vLo p s a) * (vHi p s b + vLo p s b) := by rw [← sa, ← sb]
    rw [this]; ring
  rw [e, rnInt_exact hp f8]
  ring

end UVerif.F64

namespace UVerif.F64

/-- the residual of `two_sqr` as computed: `((hi·hi − p) + (2·hi)·lo) + lo·lo`. -/
def dekkerSqrR (p s : Nat) (a : Int) : Int :=
  let P := rnInt p (a * a)
  let t1 := rnInt p (rnInt p (vHi p s a * vHi p s a) - P)
  let t2 := rnInt p (t1 + rnInt p (rnInt p (2 * vHi p s a) * vLo p s a))
  rnInt p (t2 + rnInt p (vLo p s a * vLo p s a))

/-- `two_sqr` on the integer model (normal operand): `RN(a²) + r = a²`. -/
theorem dekker_two_sqr_int {p s ea : Nat} (hps1 : p ≤ 2 * s) (hps2 : 2 * s ≤ p + 1) (hs2 : s + 2 ≤ p) (hs : 1 ≤ s)
    {a : Int} (ha : IsFloat p a)
    (ha5 : 2 ^ (p - 1 + ea) ≤ a.natAbs) (ha6 : a.natAbs < 2 ^ (p + ea)) :
    rnInt p (a * a) + dekkerSqrR p s a = a * a := by
  have hp : 1 ≤ p := by omega
  obtain ⟨sa, a1, a4, a2, a3⟩ := veltkamp_widths (e := ea) hs (by omega) ha ha5 ha6
  obtain ⟨f1, f2, _, f4, f5, _, f7, f8⟩ :=
    dekker_product hps1 hps2 hs2 sa sa a1 a2 a3 a4 ha5 (Nat.le_of_lt ha6) a1 a2 a3 a4 ha5 (Nat.le_of_lt ha6)
  have hhif : IsFloat p (vHi p s a) := by unfold vHi; exact rnInt_isFloat _ _
  have h2hi : IsFloat p (2 * vHi p s a) := isFloat_two_mul hhif
  have h2hl : IsFloat p (2 * vHi p s a * vLo p s a) := by
    have := isFloat_two_mul f2
    have e : 2 * (vHi p s a * vLo p s a) = 2 * vHi p s a * vLo p s a := by ring
    rwa [e] at this
  have f7' : IsFloat p (vHi p s a * vHi p s a - rnInt p (a * a) + 2 * vHi p s a * vLo p s a) := by
    have e : vHi p s a * vHi p s a - rnInt p (a * a) + vHi p s a * vLo p s a + vLo p s a * vHi p s a
        = vHi p s a * vHi p s a - rnInt p (a * a) + 2 * vHi p s a * vLo p s a := by ring
    rwa [e] at f7
  unfold dekkerSqrR
  simp only
  rw [rnInt_exact hp f1, rnInt_exact hp f5, rnInt_exact hp h2hi, rnInt_exact hp h2hl, rnInt_exact hp f7', rnInt_exact hp f4]
  have e : vHi p s a * vHi p s a - rnInt p (a * a) + 2 * vHi p s a * vLo p s a + vLo p s a * vLo p s a
      = a * a - rnInt p (a * a) := by
    have : a * a = (vHi p s a + vLo p s a) * (vHi p s a + vLo p s a) := by rw [← sa]
    rw [this]; ring
  rw [e, rnInt_exact hp f8]
  ring

end UVerif.F64
