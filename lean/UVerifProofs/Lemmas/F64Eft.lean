/-
  UVerifProofs.Lemmas.F64Eft — error-free transformations on the integer-unit float model
  (generic precision p, round-to-nearest-even, gradual underflow, no upper exponent bound).

  * `sterbenz`          y ≤ x ≤ 2y  ⇒  x − y is a float
  * `sum_error_isFloat` the rounding error of a float sum is a float
  * `fast_two_sum`      Dekker (|b| ≤ |a|)
  * `two_sum`           Knuth (no magnitude hypothesis, p ≥ 2)
-/
import UVerifProofs.Lemmas.F64Round

namespace UVerif.F64

theorem isFloat_two_mul {p : Nat} {z : Int} (h : IsFloat p z) : IsFloat p (2 * z) := by
  unfold IsFloat at *
  have : (2 * z).natAbs = z.natAbs * 2 ^ 1 := by omega
  rw [this]; exact isFloatN_mul_two_pow h 1

theorem isFloatN_half {p m : Nat} (hp : 1 ≤ p) (h : IsFloatN p (2 * m)) : IsFloatN p m := by
  obtain ⟨e, hd, hb⟩ := h
  rcases Nat.eq_zero_or_pos e with he | he
  · subst he
    refine ⟨0, by simp, ?_⟩
    have h2 : 2 ^ (p + 0) = 2 * 2 ^ (p - 1) := by
      have : p + 0 = (p - 1) + 1 := by omega
      rw [this, Nat.pow_succ]; ring
    have : m ≤ 2 ^ (p - 1) := by omega
    exact Nat.le_trans this (Nat.pow_le_pow_right (by decide) (by omega))
  · refine ⟨e - 1, ?_, ?_⟩
    · have h2 : 2 ^ e = 2 * 2 ^ (e - 1) := by
        have : e = (e - 1) + 1 := by omega
        rw [this, Nat.pow_succ]; simp; ring
      rw [h2] at hd
      exact (Nat.mul_dvd_mul_iff_left (by decide)).1 hd
    · have h2 : 2 ^ (p + e) = 2 * 2 ^ (p + (e - 1)) := by
        have : p + e = (p + (e - 1)) + 1 := by omega
        rw [this, Nat.pow_succ]; ring
      omega

/-- an odd float is below `2^p`. -/
theorem isFloatN_odd_lt {p n : Nat} (hp : 1 ≤ p) (h : IsFloatN p n) (hodd : n % 2 = 1) : n < 2 ^ p := by
  have hd := isFloatN_canon hp h
  rcases Nat.eq_zero_or_pos (size n - p) with he | he
  · exact size_le.1 (by omega)
  · exfalso
    have : 2 ∣ n := Nat.dvd_trans (by
      have : 2 ^ 1 ∣ 2 ^ (size n - p) := Nat.pow_dvd_pow 2 he
      simpa using this) hd
    omega

/-- `y ≤ 2x ⇒ y ≤ 2·RN(x)` for a float `y ≥ 0` (RN never drops below half a float). -/
theorem half_le_rnInt {p : Nat} {x y : Int} (hp : 1 ≤ p) (hy : IsFloat p y) (hy0 : 0 ≤ y) (h : y ≤ 2 * x) :
    y ≤ 2 * rnInt p x := by
  have hx0 : 0 ≤ x := by omega
  rcases Nat.mod_two_eq_zero_or_one y.natAbs with hev | hodd
  · -- y even: y/2 is a float
    obtain ⟨m, hm⟩ : ∃ m : Nat, y.natAbs = 2 * m := ⟨y.natAbs / 2, by omega⟩
    have hmf : IsFloat p (m : Int) := by
      rw [isFloat_natCast]
      unfold IsFloat at hy
      rw [hm] at hy
      exact isFloatN_half hp hy
    have : (m : Int) ≤ x := by omega
    have := rnInt_ge_of_ge hp hmf this
    omega
  · -- y odd: y < 2^p
    have hlt : y.natAbs < 2 ^ p := isFloatN_odd_lt hp hy hodd
    rcases Nat.lt_or_ge x.natAbs (2 ^ p) with hxs | hxl
    · rw [rnInt_exact hp (isFloat_of_natAbs_lt hxs)]; exact h
    · have h2p : IsFloat p ((2 ^ p : Nat) : Int) := by
        rw [isFloat_natCast]; exact isFloatN_two_pow p p hp
      have : ((2 ^ p : Nat) : Int) ≤ x := by omega
      have := rnInt_ge_of_ge hp h2p this
      omega

/-- quantum exponent of a float is monotone in the magnitude: the quantum of the smaller divides the larger. -/
theorem quantum_dvd_of_le {p : Nat} {x y : Int} (hp : 1 ≤ p) (hx : IsFloat p x) (h : y.natAbs ≤ x.natAbs) :
    ((2 ^ (size y.natAbs - p) : Nat) : Int) ∣ x := by
  have h1 := isFloat_quantum_dvd hp hx
  have hs : size y.natAbs - p ≤ size x.natAbs - p := by
    have := size_mono h; omega
  exact Int.dvd_trans (Int.natCast_dvd_natCast.2 (Nat.pow_dvd_pow 2 hs)) h1

/-- Sterbenz: for floats with `0 ≤ y ≤ x ≤ 2y`, `x − y` is a float. -/
theorem sterbenz {p : Nat} {x y : Int} (hp : 1 ≤ p) (hx : IsFloat p x) (hy : IsFloat p y)
    (h0 : 0 ≤ y) (h1 : y ≤ x) (h2 : x ≤ 2 * y) : IsFloat p (x - y) := by
  have hdy := isFloat_quantum_dvd hp hy
  have hdx := quantum_dvd_of_le (y := y) hp hx (by omega)
  have hd := Int.dvd_sub hdx hdy
  apply isFloat_of_dvd_of_le hd
  have := le_two_pow_quantum p y.natAbs
  omega

/-- the rounding error of the sum of two floats is a float (the smaller operand's quantum divides it,
    and it is no larger than the smaller operand). -/
theorem sum_error_isFloat {p : Nat} {a b : Int} (hp : 1 ≤ p) (ha : IsFloat p a) (hb : IsFloat p b) :
    IsFloat p (a + b - rnInt p (a + b)) := by
  -- with |b| ≤ |a|
  have key : ∀ a b : Int, IsFloat p a → IsFloat p b → b.natAbs ≤ a.natAbs → IsFloat p (a + b - rnInt p (a + b)) := by
    intro a b ha hb hab
    have hdb := isFloat_quantum_dvd hp hb
    have hda := quantum_dvd_of_le (y := b) hp ha hab
    have hds := rnInt_dvd (p := p) (Int.dvd_add hda hdb)
    have hd := Int.dvd_sub (Int.dvd_add hda hdb) hds
    apply isFloat_of_dvd_of_le hd
    have hn := rnInt_nearest (z := a + b) hp ha
    have := le_two_pow_quantum p b.natAbs
    omega
  rcases Nat.le_total b.natAbs a.natAbs with h | h
  · exact key a b ha hb h
  · have := key b a hb ha h
    rwa [Int.add_comm b a] at this

/-- the rounding error of a float sum is no larger than either operand. -/
theorem sum_error_le {p : Nat} {a b : Int} (hp : 1 ≤ p) (ha : IsFloat p a) (hb : IsFloat p b) :
    (a + b - rnInt p (a + b)).natAbs ≤ a.natAbs ∧ (a + b - rnInt p (a + b)).natAbs ≤ b.natAbs := by
  have h1 := rnInt_nearest (z := a + b) hp ha
  have h2 := rnInt_nearest (z := a + b) hp hb
  omega

/-- core of Dekker's FastTwoSum: with `|b| ≤ |a|`, `RN(a+b) − a` is a float. -/
theorem fast_two_sum_aux {p : Nat} {a b : Int} (hp : 1 ≤ p) (ha : IsFloat p a) (hb : IsFloat p b)
    (hab : b.natAbs ≤ a.natAbs) : IsFloat p (rnInt p (a + b) - a) := by
  -- a ≥ 0 first
  have key : ∀ a b : Int, IsFloat p a → IsFloat p b → b.natAbs ≤ a.natAbs → 0 ≤ a → IsFloat p (rnInt p (a + b) - a) := by
    intro a b ha hb hab ha0
    have h2a : IsFloat p (2 * a) := isFloat_two_mul ha
    rcases Int.lt_or_le b 0 with hbn | hbp
    · -- b < 0
      rcases Int.lt_or_le (2 * b.natAbs) a with hsmall | hbig
      · -- |b| < a/2: a/2 < a+b ≤ a, so a/2 ≤ s ≤ a
        have hs1 : rnInt p (a + b) ≤ a := rnInt_le_of_le hp ha (by omega)
        have hs2 : a ≤ 2 * rnInt p (a + b) := half_le_rnInt hp ha ha0 (by omega)
        have hs0 : 0 ≤ rnInt p (a + b) := rnInt_nonneg (by omega)
        have := sterbenz hp ha (rnInt_isFloat p (a + b)) hs0 hs1 hs2
        have := isFloat_neg this
        have e : -(a - rnInt p (a + b)) = rnInt p (a + b) - a := by ring
        rwa [e] at this
      · -- a/2 ≤ |b| ≤ a: a + b is a float (Sterbenz), the sum is exact
        have hnb : IsFloat p (-b) := isFloat_neg hb
        have hst := sterbenz hp ha hnb (by omega) (by omega) (by omega)
        have e : a - -b = a + b := by ring
        rw [e] at hst
        rw [rnInt_exact hp hst]
        have e2 : a + b - a = b := by ring
        rw [e2]; exact hb
    · -- b ≥ 0: a ≤ a+b ≤ 2a, so a ≤ s ≤ 2a
      have hs1 : a ≤ rnInt p (a + b) := rnInt_ge_of_ge hp ha (by omega)
      have hs2 : rnInt p (a + b) ≤ 2 * a := rnInt_le_of_le hp h2a (by omega)
      exact sterbenz hp (rnInt_isFloat p (a + b)) ha ha0 hs1 hs2
  rcases Int.lt_or_le a 0 with han | hap
  · have := key (-a) (-b) (isFloat_neg ha) (isFloat_neg hb) (by omega) (by omega)
    have e : -a + -b = -(a + b) := by ring
    rw [e, rnInt_neg] at this
    have := isFloat_neg this
    have e2 : -(-rnInt p (a + b) - -a) = rnInt p (a + b) - a := by ring
    rwa [e2] at this
  · exact key a b ha hb hab hap

/-- **Dekker's FastTwoSum** on the integer-unit model: for floats with `|b| ≤ |a|`,
    `s = RN(a+b)`, `z = RN(s−a)`, `t = RN(b−z)` satisfy `z = s − a` and `s + t = a + b`. -/
theorem fast_two_sum {p : Nat} {a b : Int} (hp : 1 ≤ p) (ha : IsFloat p a) (hb : IsFloat p b)
    (hab : b.natAbs ≤ a.natAbs) :
    rnInt p (rnInt p (a + b) - a) = rnInt p (a + b) - a ∧
    rnInt p (a + b) + rnInt p (b - rnInt p (rnInt p (a + b) - a)) = a + b := by
  have hz := rnInt_exact hp (fast_two_sum_aux hp ha hb hab)
  refine ⟨hz, ?_⟩
  rw [hz]
  have e : b - (rnInt p (a + b) - a) = a + b - rnInt p (a + b) := by ring
  rw [e, rnInt_exact hp (sum_error_isFloat hp ha hb)]
  ring

/-- rounding error of `a + b` when `|a| < b`: at most half of `b` (needs `p ≥ 2`). -/
theorem two_err_le_of_lt {p : Nat} {a b : Int} (hp2 : 2 ≤ p) (hb0 : 0 < b) (hab : a.natAbs < b.natAbs) :
    2 * (a + b - rnInt p (a + b)).natAbs ≤ b.natAbs := by
  have hc := rnInt_close p (a + b)
  have hbn : b.natAbs ≠ 0 := by omega
  have hlow : 2 ^ (size b.natAbs - 1) ≤ b.natAbs := two_pow_size_le hbn
  have hsz : size (a + b).natAbs ≤ size b.natAbs + 1 := by
    apply size_le.2
    have := lt_two_pow_size b.natAbs
    rw [Nat.pow_succ]
    omega
  rcases Nat.lt_or_ge p (size (a + b).natAbs) with h | h
  · have hle : 2 ^ (size (a + b).natAbs - p) ≤ 2 ^ (size b.natAbs - 1) :=
      Nat.pow_le_pow_right (by decide) (by omega)
    omega
  · have e : size (a + b).natAbs - p = 0 := by omega
    rw [e] at hc
    omega

/-- the two non-trivial exactness facts of Knuth's TwoSum when `|a| < |b|`:
    with `s = RN(a+b)` and `bb = RN(s−a)`, both `s − bb` and `b − bb` are floats. -/
theorem two_sum_AB {p : Nat} {a b : Int} (hp2 : 2 ≤ p) (ha : IsFloat p a) (hb : IsFloat p b)
    (hlt : a.natAbs < b.natAbs) :
    IsFloat p (rnInt p (a + b) - rnInt p (rnInt p (a + b) - a)) ∧
    IsFloat p (b - rnInt p (rnInt p (a + b) - a)) := by
  have hp : 1 ≤ p := by omega
  have key : ∀ a b : Int, IsFloat p a → IsFloat p b → a.natAbs < b.natAbs → 0 < b →
      IsFloat p (rnInt p (a + b) - rnInt p (rnInt p (a + b) - a)) ∧
      IsFloat p (b - rnInt p (rnInt p (a + b) - a)) := by
    intro a b ha hb hlt hb0
    have hsf := rnInt_isFloat p (a + b)
    have hbbf := rnInt_isFloat p (rnInt p (a + b) - a)
    have herr := two_err_le_of_lt (a := a) hp2 hb0 hlt
    have hel := sum_error_le hp ha hb
    have h2b : IsFloat p (2 * b) := isFloat_two_mul hb
    have h2s : IsFloat p (2 * rnInt p (a + b)) := isFloat_two_mul hsf
    have hs0 : 0 ≤ rnInt p (a + b) := rnInt_nonneg (by omega)
    -- (B)  b − bb is a float
    have hB : IsFloat p (b - rnInt p (rnInt p (a + b) - a)) := by
      rcases Int.lt_or_le 0 (a + b - rnInt p (a + b)) with hpos | hneg
      · -- δ > 0 : x = b − δ ≤ b, b ≤ 2x
        have h1 : rnInt p (rnInt p (a + b) - a) ≤ b := rnInt_le_of_le hp hb (by omega)
        have h2 : b ≤ 2 * rnInt p (rnInt p (a + b) - a) := half_le_rnInt hp hb (by omega) (by omega)
        have h0 : 0 ≤ rnInt p (rnInt p (a + b) - a) := rnInt_nonneg (by omega)
        exact sterbenz hp hb hbbf h0 h1 h2
      · -- δ ≤ 0 : b ≤ x ≤ 2b
        have h1 : b ≤ rnInt p (rnInt p (a + b) - a) := rnInt_ge_of_ge hp hb (by omega)
        have h2 : rnInt p (rnInt p (a + b) - a) ≤ 2 * b := rnInt_le_of_le hp h2b (by omega)
        have := isFloat_neg (sterbenz hp hbbf hb (by omega) h1 h2)
        have e : -(rnInt p (rnInt p (a + b) - a) - b) = b - rnInt p (rnInt p (a + b) - a) := by ring
        rwa [e] at this
    refine ⟨?_, hB⟩
    -- (A)  s − bb is a float
    rcases Int.lt_or_le a 0 with han | hap
    · rcases Int.lt_or_le b (2 * a.natAbs) with hclose | hfar
      · -- |a| < b < 2|a| : a + b is exact
        have hst := sterbenz hp hb (isFloat_neg ha) (by omega) (by omega) (by omega)
        have e : b - -a = a + b := by ring
        rw [e] at hst
        rw [rnInt_exact hp hst]
        have e2 : a + b - a = b := by ring
        rw [e2, rnInt_exact hp hb]
        have e3 : a + b - b = a := by ring
        rw [e3]; exact ha
      · -- 2|a| ≤ b : |a| ≤ s, so s ≤ x = s + |a| ≤ 2s
        have hs1 : -a ≤ rnInt p (a + b) := rnInt_ge_of_ge hp (isFloat_neg ha) (by omega)
        have h1 : rnInt p (a + b) ≤ rnInt p (rnInt p (a + b) - a) := rnInt_ge_of_ge hp hsf (by omega)
        have h2 : rnInt p (rnInt p (a + b) - a) ≤ 2 * rnInt p (a + b) := rnInt_le_of_le hp h2s (by omega)
        have := isFloat_neg (sterbenz hp hbbf hsf hs0 h1 h2)
        have e : -(rnInt p (rnInt p (a + b) - a) - rnInt p (a + b)) = rnInt p (a + b) - rnInt p (rnInt p (a + b) - a) := by ring
        rwa [e] at this
    · -- a ≥ 0 : 2a ≤ s, so x = s − a ≤ s ≤ 2x
      have hs1 : 2 * a ≤ rnInt p (a + b) := rnInt_ge_of_ge hp (isFloat_two_mul ha) (by omega)
      have h1 : rnInt p (rnInt p (a + b) - a) ≤ rnInt p (a + b) := rnInt_le_of_le hp hsf (by omega)
      have h2 : rnInt p (a + b) ≤ 2 * rnInt p (rnInt p (a + b) - a) := half_le_rnInt hp hsf hs0 (by omega)
      have h0 : 0 ≤ rnInt p (rnInt p (a + b) - a) := rnInt_nonneg (by omega)
      exact sterbenz hp hsf hbbf h0 h1 h2
  -- both signs of b
  have both : IsFloat p (rnInt p (a + b) - rnInt p (rnInt p (a + b) - a)) ∧
      IsFloat p (b - rnInt p (rnInt p (a + b) - a)) := by
    rcases Int.lt_or_le 0 b with hb0 | hb0
    · exact key a b ha hb hlt hb0
    · have := key (-a) (-b) (isFloat_neg ha) (isFloat_neg hb) (by omega) (by omega)
      have e : -a + -b = -(a + b) := by ring
      rw [e, rnInt_neg] at this
      have e2 : -rnInt p (a + b) - -a = -(rnInt p (a + b) - a) := by ring
      rw [e2, rnInt_neg] at this
      obtain ⟨h1, h2⟩ := this
      have h1' := isFloat_neg h1
      have h2' := isFloat_neg h2
      have e3 : -(-rnInt p (a + b) - -rnInt p (rnInt p (a + b) - a)) = rnInt p (a + b) - rnInt p (rnInt p (a + b) - a) := by ring
      have e4 : -(-b - -rnInt p (rnInt p (a + b) - a)) = b - rnInt p (rnInt p (a + b) - a) := by ring
      rw [e3] at h1'; rw [e4] at h2'
      exact ⟨h1', h2'⟩
  exact both

/-- every subtraction of Knuth's TwoSum after the first two operations is exact (`p ≥ 2`):
    with `s = RN(a+b)`, `bb = RN(s−a)`:  `s − bb`, `a − (s − bb)`, `b − bb` and `a + b − s` are floats. -/
theorem two_sum_steps {p : Nat} {a b : Int} (hp2 : 2 ≤ p) (ha : IsFloat p a) (hb : IsFloat p b) :
    IsFloat p (rnInt p (a + b) - rnInt p (rnInt p (a + b) - a)) ∧
    IsFloat p (a - (rnInt p (a + b) - rnInt p (rnInt p (a + b) - a))) ∧
    IsFloat p (b - rnInt p (rnInt p (a + b) - a)) ∧
    IsFloat p (a + b - rnInt p (a + b)) := by
  have hp : 1 ≤ p := by omega
  have hδ := sum_error_isFloat hp ha hb
  -- error of the second addition s + (−a)
  have hη : IsFloat p (rnInt p (a + b) + -a - rnInt p (rnInt p (a + b) + -a)) :=
    sum_error_isFloat hp (rnInt_isFloat p (a + b)) (isFloat_neg ha)
  have hsub : rnInt p (a + b) + -a = rnInt p (a + b) - a := by ring
  rw [hsub] at hη
  have hη' : IsFloat p (a - (rnInt p (a + b) - rnInt p (rnInt p (a + b) - a))) := by
    have := isFloat_neg hη
    have e : -(rnInt p (a + b) - a - rnInt p (rnInt p (a + b) - a)) = a - (rnInt p (a + b) - rnInt p (rnInt p (a + b) - a)) := by ring
    rwa [e] at this
  rcases Nat.lt_or_ge a.natAbs b.natAbs with hlt | hge
  · obtain ⟨hA, hB⟩ := two_sum_AB hp2 ha hb hlt
    exact ⟨hA, hη', hB, hδ⟩
  · have hz := rnInt_exact hp (fast_two_sum_aux hp ha hb hge)
    refine ⟨?_, hη', ?_, hδ⟩
    · rw [hz]
      have e1 : rnInt p (a + b) - (rnInt p (a + b) - a) = a := by ring
      rw [e1]; exact ha
    · rw [hz]
      have e3 : b - (rnInt p (a + b) - a) = a + b - rnInt p (a + b) := by ring
      rw [e3]; exact hδ

/-- **Knuth's TwoSum** on the integer-unit model, no magnitude hypothesis (`p ≥ 2`):
    with `s = RN(a+b)`, `bb = RN(s−a)`, `r = RN(RN(a − RN(s−bb)) + RN(b−bb))`:  `s + r = a + b`. -/
theorem two_sum {p : Nat} {a b : Int} (hp2 : 2 ≤ p) (ha : IsFloat p a) (hb : IsFloat p b) :
    rnInt p (a + b) +
      rnInt p (rnInt p (a - rnInt p (rnInt p (a + b) - rnInt p (rnInt p (a + b) - a))) +
               rnInt p (b - rnInt p (rnInt p (a + b) - a))) = a + b := by
  have hp : 1 ≤ p := by omega
  obtain ⟨hA, hη, hB, hδ⟩ := two_sum_steps hp2 ha hb
  rw [rnInt_exact hp hA, rnInt_exact hp hη, rnInt_exact hp hB]
  have e2 : a - (rnInt p (a + b) - rnInt p (rnInt p (a + b) - a)) + (b - rnInt p (rnInt p (a + b) - a)) = a + b - rnInt p (a + b) := by ring
  rw [e2, rnInt_exact hp hδ]
  ring

/-- size bounds for the intermediates of TwoSum (all within `|a| + |b|`), used for the overflow analysis. -/
theorem two_sum_bounds {p : Nat} {a b : Int} (hp : 1 ≤ p) (ha : IsFloat p a) (hb : IsFloat p b) :
    (rnInt p (a + b) - a).natAbs ≤ a.natAbs + b.natAbs ∧
    (rnInt p (a + b) - rnInt p (rnInt p (a + b) - a)).natAbs ≤ a.natAbs + b.natAbs ∧
    (a - (rnInt p (a + b) - rnInt p (rnInt p (a + b) - a))).natAbs ≤ a.natAbs + b.natAbs ∧
    (b - rnInt p (rnInt p (a + b) - a)).natAbs ≤ a.natAbs + b.natAbs ∧
    (a + b - rnInt p (a + b)).natAbs ≤ a.natAbs + b.natAbs := by
  have hd := sum_error_le hp ha hb
  -- |x − RN x| ≤ |x − b| = |δ| for x = s − a
  have hx := rnInt_nearest (z := rnInt p (a + b) - a) hp hb
  omega

end UVerif.F64
