/-
  UVerifProofs.Lemmas.F64Lift — from the integer-unit rounding `rnInt` to the operations of Model.F64
  (`add`, `sub`, `neg` on `F` with signed zeros, infinities and the overflow decision of `pack`).

  A format is usable when `1 ≤ p ≤ top`.  A finite result is obtained whenever the exact value is at most
  `maxMag f` in magnitude, and then `toInt (add f a b) = rnInt p (toInt a + toInt b)`.
-/
import UVerifProofs.Lemmas.F64Eft

namespace UVerif.F64

/-- finite and representable at the format's precision (what `ofBits` produces for a finite pattern). -/
def F.Rep (f : Fmt) (x : F) : Prop := x.isFinite = true ∧ IsFloat f.p x.toInt

theorem F.toInt_fin_natAbs (s : Bool) (n : Nat) : (F.fin s n).toInt.natAbs = n := by
  cases s <;> simp [F.toInt]

theorem F.mag_eq_natAbs (x : F) : x.mag = x.toInt.natAbs := by
  cases x with
  | fin s n => simp [F.mag, F.toInt_fin_natAbs]
  | inf s => simp [F.mag, F.toInt]
  | nan => simp [F.mag, F.toInt]

theorem F.neg_toInt (x : F) : x.neg.toInt = -x.toInt := by
  cases x with
  | fin s n => cases s <;> simp [F.neg, F.toInt]
  | inf s => simp [F.neg, F.toInt]
  | nan => simp [F.neg, F.toInt]

theorem F.neg_isFinite (x : F) : x.neg.isFinite = x.isFinite := by
  cases x <;> simp [F.neg, F.isFinite]

theorem F.neg_rep {f : Fmt} {x : F} (h : x.Rep f) : x.neg.Rep f := by
  refine ⟨by rw [F.neg_isFinite]; exact h.1, ?_⟩
  rw [F.neg_toInt]; exact isFloat_neg h.2

theorem pzero_rep (f : Fmt) : pzero.Rep f := ⟨rfl, by simpa [pzero, F.toInt] using isFloat_zero f.p⟩

theorem pzero_toInt : pzero.toInt = 0 := by simp [pzero, F.toInt]

/-- `maxMag` is a float below `2^top`. -/
theorem maxMag_isFloatN (f : Fmt) : IsFloatN f.p (maxMag f) := by
  unfold maxMag
  apply isFloatN_mul_two_pow
  apply isFloatN_of_lt
  have := Nat.two_pow_pos f.p
  omega

theorem maxMag_lt (f : Fmt) (hpt : f.p ≤ f.top) : maxMag f < 2 ^ f.top := by
  unfold maxMag
  have h : 2 ^ f.top = 2 ^ f.p * 2 ^ (f.top - f.p) := by
    rw [← Nat.pow_add]; congr 1; omega
  rw [h]
  have := Nat.two_pow_pos f.p
  have hg := Nat.two_pow_pos (f.top - f.p)
  exact Nat.mul_lt_mul_of_pos_right (by omega) hg

/-- `pack` on a magnitude that does not exceed `maxMag`. -/
theorem pack_of_le (f : Fmt) (hpt : f.p ≤ f.top) (s : Bool) {n : Nat} (h : n ≤ maxMag f) : pack f s n = .fin s n := by
  unfold pack
  have : size n ≤ f.top := size_le.2 (Nat.lt_of_le_of_lt h (maxMag_lt f hpt))
  simp [this]

/-- rounding an exact integer value whose magnitude is within range: finite, with the RN value. -/
theorem roundInt_spec (f : Fmt) (hp : 1 ≤ f.p) (hpt : f.p ≤ f.top) (z : Int) (zs : Bool)
    (h : z.natAbs ≤ maxMag f) :
    (roundInt f z zs).isFinite = true ∧ (roundInt f z zs).toInt = rnInt f.p z := by
  unfold roundInt
  by_cases hz : z = 0
  · subst hz; simp [F.isFinite, F.toInt, rnInt_zero]
  · simp only [hz, if_false]
    have hr : rnNat f.p z.natAbs ≤ maxMag f := rnNat_le_of_le hp (maxMag_isFloatN f) h
    rw [pack_of_le f hpt _ hr]
    refine ⟨rfl, ?_⟩
    rcases Int.lt_or_le z 0 with hn | hn
    · rw [rnInt_of_neg hn]; simp [F.toInt, hn]
    · rw [rnInt_of_nonneg hn]
      have : ¬ z < 0 := by omega
      simp [F.toInt, this]

theorem add_spec (f : Fmt) (hp : 1 ≤ f.p) (hpt : f.p ≤ f.top) {a b : F} (ha : a.isFinite = true) (hb : b.isFinite = true)
    (h : (a.toInt + b.toInt).natAbs ≤ maxMag f) :
    (add f a b).Rep f ∧ (add f a b).toInt = rnInt f.p (a.toInt + b.toInt) := by
  cases a with
  | fin s n =>
    cases b with
    | fin t m =>
      have := roundInt_spec f hp hpt ((F.fin s n).toInt + (F.fin t m).toInt) (s && t) h
      simp only [add]
      refine ⟨⟨this.1, ?_⟩, this.2⟩
      rw [this.2]; exact rnInt_isFloat _ _
    | inf t => simp [F.isFinite] at hb
    | nan => simp [F.isFinite] at hb
  | inf s => simp [F.isFinite] at ha
  | nan => simp [F.isFinite] at ha

theorem sub_spec (f : Fmt) (hp : 1 ≤ f.p) (hpt : f.p ≤ f.top) {a b : F} (ha : a.isFinite = true) (hb : b.isFinite = true)
    (h : (a.toInt - b.toInt).natAbs ≤ maxMag f) :
    (sub f a b).Rep f ∧ (sub f a b).toInt = rnInt f.p (a.toInt - b.toInt) := by
  unfold sub
  have hb' : b.neg.isFinite = true := by rw [F.neg_isFinite]; exact hb
  have e : a.toInt + b.neg.toInt = a.toInt - b.toInt := by rw [F.neg_toInt]; ring
  have := add_spec f hp hpt ha hb' (by rw [e]; exact h)
  rw [e] at this
  exact this

/-- an exact operation: the exact value is a float in range. -/
theorem add_exact (f : Fmt) (hp : 1 ≤ f.p) (hpt : f.p ≤ f.top) {a b : F} (ha : a.isFinite = true) (hb : b.isFinite = true)
    (h : (a.toInt + b.toInt).natAbs ≤ maxMag f) (hf : IsFloat f.p (a.toInt + b.toInt)) :
    (add f a b).Rep f ∧ (add f a b).toInt = a.toInt + b.toInt := by
  have := add_spec f hp hpt ha hb h
  rw [rnInt_exact hp hf] at this
  exact this

theorem sub_exact (f : Fmt) (hp : 1 ≤ f.p) (hpt : f.p ≤ f.top) {a b : F} (ha : a.isFinite = true) (hb : b.isFinite = true)
    (h : (a.toInt - b.toInt).natAbs ≤ maxMag f) (hf : IsFloat f.p (a.toInt - b.toInt)) :
    (sub f a b).Rep f ∧ (sub f a b).toInt = a.toInt - b.toInt := by
  have := sub_spec f hp hpt ha hb h
  rw [rnInt_exact hp hf] at this
  exact this

end UVerif.F64

namespace UVerif.F64

/-- side conditions on a format: precision at least 2, and at least one binade (`p ≤ top`). -/
structure Fmt.Ok (f : Fmt) : Prop where
  hp2 : 2 ≤ f.p
  hpt : f.p ≤ f.top

theorem binary64_ok : binary64.Ok := ⟨by decide, by decide⟩
theorem binary32_ok : binary32.Ok := ⟨by decide, by decide⟩
theorem binary16_ok : binary16.Ok := ⟨by decide, by decide⟩

/-- model-level FastTwoSum (`quick_two_sum`): for representable `a`, `b` with `|b| ≤ |a|` and `|a| + |b|` in range. -/
theorem quickTwoSum_spec (f : Fmt) (ok : f.Ok) {a b : F} (ha : a.Rep f) (hb : b.Rep f)
    (hab : b.mag ≤ a.mag) (hg : a.mag + b.mag ≤ maxMag f) :
    (quickTwoSum f a b).1.Rep f ∧ (quickTwoSum f a b).2.Rep f ∧
    (quickTwoSum f a b).1.toInt + (quickTwoSum f a b).2.toInt = a.toInt + b.toInt ∧
    (quickTwoSum f a b).1.toInt = rnInt f.p (a.toInt + b.toInt) := by
  have hp : 1 ≤ f.p := by have := ok.hp2; omega
  have hpt := ok.hpt
  rw [F.mag_eq_natAbs a, F.mag_eq_natAbs b] at hab hg
  have hbd := two_sum_bounds hp ha.2 hb.2
  obtain ⟨hs, hsv⟩ := add_spec f hp hpt ha.1 hb.1 (by omega)
  -- z = s − a is exact
  have hzf := fast_two_sum_aux hp ha.2 hb.2 hab
  obtain ⟨hz, hzv⟩ := sub_exact f hp hpt hs.1 ha.1 (by rw [hsv]; omega) (by rw [hsv]; exact hzf)
  -- t = b − z = a + b − s is exact
  have hδ := sum_error_isFloat hp ha.2 hb.2
  have e : b.toInt - (sub f (add f a b) a).toInt = a.toInt + b.toInt - rnInt f.p (a.toInt + b.toInt) := by
    rw [hzv, hsv]; ring
  obtain ⟨ht, htv⟩ := sub_exact f hp hpt hb.1 hz.1 (by rw [e]; omega) (by rw [e]; exact hδ)
  unfold quickTwoSum
  simp only [hs.1, if_true]
  refine ⟨hs, ht, ?_, hsv⟩
  rw [htv, e, hsv]; ring

/-- model-level Knuth TwoSum (`two_sum`): no ordering hypothesis; `|a| + |b|` in range. -/
theorem twoSum_spec (f : Fmt) (ok : f.Ok) {a b : F} (ha : a.Rep f) (hb : b.Rep f)
    (hg : a.mag + b.mag ≤ maxMag f) :
    (twoSum f a b).1.Rep f ∧ (twoSum f a b).2.Rep f ∧
    (twoSum f a b).1.toInt + (twoSum f a b).2.toInt = a.toInt + b.toInt ∧
    (twoSum f a b).1.toInt = rnInt f.p (a.toInt + b.toInt) := by
  have hp : 1 ≤ f.p := by have := ok.hp2; omega
  have hpt := ok.hpt
  rw [F.mag_eq_natAbs a, F.mag_eq_natAbs b] at hg
  have hbd := two_sum_bounds hp ha.2 hb.2
  obtain ⟨hA, hη, hB, hδ⟩ := two_sum_steps ok.hp2 ha.2 hb.2
  obtain ⟨hs, hsv⟩ := add_spec f hp hpt ha.1 hb.1 (by omega)
  -- bb = RN(s − a)
  obtain ⟨hbb, hbbv⟩ := sub_spec f hp hpt hs.1 ha.1 (by rw [hsv]; omega)
  rw [hsv] at hbbv
  -- a' = s − bb exact
  obtain ⟨ha', ha'v⟩ := sub_exact f hp hpt hs.1 hbb.1 (by rw [hsv, hbbv]; omega) (by rw [hsv, hbbv]; exact hA)
  rw [hsv, hbbv] at ha'v
  -- da = a − a' exact
  obtain ⟨hda, hdav⟩ := sub_exact f hp hpt ha.1 ha'.1 (by rw [ha'v]; omega) (by rw [ha'v]; exact hη)
  rw [ha'v] at hdav
  -- db = b − bb exact
  obtain ⟨hdb, hdbv⟩ := sub_exact f hp hpt hb.1 hbb.1 (by rw [hbbv]; omega) (by rw [hbbv]; exact hB)
  rw [hbbv] at hdbv
  -- r = da + db = a + b − s exact
  have e : (sub f a (sub f (add f a b) (sub f (add f a b) a))).toInt + (sub f b (sub f (add f a b) a)).toInt
      = a.toInt + b.toInt - rnInt f.p (a.toInt + b.toInt) := by
    rw [hdav, hdbv]; ring
  obtain ⟨hr, hrv⟩ := add_exact f hp hpt hda.1 hdb.1 (by rw [e]; omega) (by rw [e]; exact hδ)
  unfold twoSum
  simp only [hs.1, if_true]
  refine ⟨hs, hr, ?_, hsv⟩
  rw [hrv, e, hsv]; ring

/-- the generic `twoSum<Scalar>` (numerics/twosum.hpp, no finiteness test) satisfies the same contract. -/
theorem twoSumGeneric_eq_twoSum (f : Fmt) {a b : F} (h : (add f a b).isFinite = true) :
    twoSumGeneric f a b = twoSum f a b := by
  unfold twoSumGeneric twoSum
  simp [h]

/-- model-level `two_diff`: `s + r = a − b`, `s = RN(a − b)`. -/
theorem twoDiff_spec (f : Fmt) (ok : f.Ok) {a b : F} (ha : a.Rep f) (hb : b.Rep f)
    (hg : a.mag + b.mag ≤ maxMag f) :
    (twoDiff f a b).1.Rep f ∧ (twoDiff f a b).2.Rep f ∧
    (twoDiff f a b).1.toInt + (twoDiff f a b).2.toInt = a.toInt - b.toInt ∧
    (twoDiff f a b).1.toInt = rnInt f.p (a.toInt - b.toInt) := by
  have hp : 1 ≤ f.p := by have := ok.hp2; omega
  have hpt := ok.hpt
  rw [F.mag_eq_natAbs a, F.mag_eq_natAbs b] at hg
  have hnb : IsFloat f.p (-b.toInt) := isFloat_neg hb.2
  have hbd := two_sum_bounds hp ha.2 hnb
  obtain ⟨hA, hη, hB, hδ⟩ := two_sum_steps ok.hp2 ha.2 hnb
  have e0 : a.toInt + -b.toInt = a.toInt - b.toInt := by ring
  rw [e0] at hA hη hB hδ hbd
  obtain ⟨hs, hsv⟩ := sub_spec f hp hpt ha.1 hb.1 (by omega)
  obtain ⟨hbb, hbbv⟩ := sub_spec f hp hpt hs.1 ha.1 (by rw [hsv]; omega)
  rw [hsv] at hbbv
  obtain ⟨ha', ha'v⟩ := sub_exact f hp hpt hs.1 hbb.1 (by rw [hsv, hbbv]; omega) (by rw [hsv, hbbv]; exact hA)
  rw [hsv, hbbv] at ha'v
  obtain ⟨hda, hdav⟩ := sub_exact f hp hpt ha.1 ha'.1 (by rw [ha'v]; omega) (by rw [ha'v]; exact hη)
  rw [ha'v] at hdav
  -- b + bb = −(−b − bb) exact
  have hB' : IsFloat f.p (b.toInt + rnInt f.p (rnInt f.p (a.toInt - b.toInt) - a.toInt)) := by
    have := isFloat_neg hB
    have e : -(-b.toInt - rnInt f.p (rnInt f.p (a.toInt - b.toInt) - a.toInt)) = b.toInt + rnInt f.p (rnInt f.p (a.toInt - b.toInt) - a.toInt) := by ring
    rwa [e] at this
  obtain ⟨hdb, hdbv⟩ := add_exact f hp hpt hb.1 hbb.1 (by rw [hbbv]; omega) (by rw [hbbv]; exact hB')
  rw [hbbv] at hdbv
  have e : (sub f a (sub f (sub f a b) (sub f (sub f a b) a))).toInt - (add f b (sub f (sub f a b) a)).toInt
      = a.toInt - b.toInt - rnInt f.p (a.toInt - b.toInt) := by
    rw [hdav, hdbv]; ring
  obtain ⟨hr, hrv⟩ := sub_exact f hp hpt hda.1 hdb.1 (by rw [e]; omega) (by rw [e]; exact hδ)
  unfold twoDiff
  simp only [hs.1, if_true]
  refine ⟨hs, hr, ?_, hsv⟩
  rw [hrv, e, hsv]; ring

/-- the residual of a TwoSum is bounded by either operand. -/
theorem twoSum_residual_le (f : Fmt) (ok : f.Ok) {a b : F} (ha : a.Rep f) (hb : b.Rep f)
    (hg : a.mag + b.mag ≤ maxMag f) :
    (twoSum f a b).2.mag ≤ a.mag ∧ (twoSum f a b).2.mag ≤ b.mag ∧
    (twoSum f a b).1.mag ≤ a.mag + b.mag + (twoSum f a b).2.mag := by
  have hp : 1 ≤ f.p := by have := ok.hp2; omega
  obtain ⟨_, _, hsum, hsv⟩ := twoSum_spec f ok ha hb hg
  have hd := sum_error_le hp ha.2 hb.2
  rw [F.mag_eq_natAbs, F.mag_eq_natAbs a, F.mag_eq_natAbs b, F.mag_eq_natAbs]
  rw [← hsv] at hd
  omega

/-- model-level `three_sum`: the three outputs sum exactly to the three inputs
    (guard: `2·(|x| + |y| + |z|)` in range, which excludes overflow of every intermediate sum). -/
theorem threeSum_spec (f : Fmt) (ok : f.Ok) {x y z : F} (hx : x.Rep f) (hy : y.Rep f) (hz : z.Rep f)
    (hg : 2 * (x.mag + y.mag + z.mag) ≤ maxMag f) :
    (threeSum f x y z).1.Rep f ∧ (threeSum f x y z).2.1.Rep f ∧ (threeSum f x y z).2.2.Rep f ∧
    (threeSum f x y z).1.toInt + (threeSum f x y z).2.1.toInt + (threeSum f x y z).2.2.toInt
      = x.toInt + y.toInt + z.toInt := by
  have g1 : x.mag + y.mag ≤ maxMag f := by omega
  obtain ⟨hu, hv, huv, _⟩ := twoSum_spec f ok hx hy g1
  obtain ⟨hv1, hv2, hu1⟩ := twoSum_residual_le f ok hx hy g1
  have g2 : z.mag + (twoSum f x y).1.mag ≤ maxMag f := by omega
  obtain ⟨hx', hw, hxw, _⟩ := twoSum_spec f ok hz hu g2
  obtain ⟨hw1, hw2, _⟩ := twoSum_residual_le f ok hz hu g2
  have g3 : (twoSum f x y).2.mag + (twoSum f z (twoSum f x y).1).2.mag ≤ maxMag f := by omega
  obtain ⟨hy', hz', hyz, _⟩ := twoSum_spec f ok hv hw g3
  unfold threeSum
  simp only
  refine ⟨hx', hy', hz', ?_⟩
  omega

/-- model-level `three_sum2`: `r0` is the correctly rounded `z + RN(x + y)`, and `r1` is ONE rounding of the exact
    residual `x + y + z − r0` (the two `two_sum` residuals `v`, `w` are exact, their sum `v + w` is rounded once). -/
theorem threeSum2_spec (f : Fmt) (ok : f.Ok) {x y z : F} (hx : x.Rep f) (hy : y.Rep f) (hz : z.Rep f)
    (hg : 2 * (x.mag + y.mag + z.mag) ≤ maxMag f) :
    (threeSum2 f x y z).1.Rep f ∧ (threeSum2 f x y z).2.Rep f ∧
    (threeSum2 f x y z).1.toInt = rnInt f.p (z.toInt + rnInt f.p (x.toInt + y.toInt)) ∧
    (threeSum2 f x y z).2.toInt
      = rnInt f.p (x.toInt + y.toInt + z.toInt - (threeSum2 f x y z).1.toInt) := by
  have hp : 1 ≤ f.p := by have := ok.hp2; omega
  have g1 : x.mag + y.mag ≤ maxMag f := by omega
  obtain ⟨hu, hv, huv, hur⟩ := twoSum_spec f ok hx hy g1
  obtain ⟨hv1, hv2, hu1⟩ := twoSum_residual_le f ok hx hy g1
  have g2 : z.mag + (twoSum f x y).1.mag ≤ maxMag f := by omega
  obtain ⟨hx', hw, hxw, hxr⟩ := twoSum_spec f ok hz hu g2
  obtain ⟨hw1, hw2, _⟩ := twoSum_residual_le f ok hz hu g2
  have g3 : ((twoSum f x y).2.toInt + (twoSum f z (twoSum f x y).1).2.toInt).natAbs ≤ maxMag f := by
    rw [F.mag_eq_natAbs, F.mag_eq_natAbs x] at hv1
    rw [F.mag_eq_natAbs, F.mag_eq_natAbs z] at hw1
    rw [F.mag_eq_natAbs x, F.mag_eq_natAbs y, F.mag_eq_natAbs z] at hg
    omega
  obtain ⟨hr1, hr1v⟩ := add_spec f hp ok.hpt hv.1 hw.1 g3
  unfold threeSum2
  simp only
  refine ⟨hx', hr1, ?_, ?_⟩
  · rw [hxr, hur]
  · rw [hr1v]; congr 1; omega

/-- every finite pattern of an IEEE-style encoding decodes to a representable value of the model:
    the hypotheses `a.Rep f` of the theorems hold for every operand that can occur in a transcript. -/
theorem ofBits_rep (p ew b : Nat) (hp : 1 ≤ p) (h : (ofBits p ew b).isFinite = true) :
    IsFloat p (ofBits p ew b).toInt := by
  unfold IsFloat
  rw [← F.mag_eq_natAbs]
  have hfr : b % 2 ^ (p - 1) < 2 ^ (p - 1) := Nat.mod_lt _ (Nat.two_pow_pos _)
  have h2 : 2 ^ p = 2 * 2 ^ (p - 1) := by
    have : p = (p - 1) + 1 := by omega
    rw [this, Nat.pow_succ]; simp; ring
  unfold ofBits at h ⊢
  simp only at h ⊢
  split at h
  · split at h <;> simp [F.isFinite] at h
  · split
    · rename_i h1; exact absurd h1 (by assumption)
    · split
      · simp only [F.mag]
        exact isFloatN_of_lt (by omega)
      · simp only [F.mag, Nat.shiftLeft_eq]
        exact isFloatN_mul_two_pow (isFloatN_of_lt (by omega)) _

theorem ofBits64_rep (b : Nat) (h : (ofBits64 b).isFinite = true) : (ofBits64 b).Rep binary64 :=
  ⟨h, ofBits_rep 53 11 b (by decide) h⟩

end UVerif.F64
