/-
  UVerifProofs.Lemmas.F64ProdAll — Veltkamp / Dekker for ALL floats (subnormal operands, operands above
  SPLIT_THRESHOLD) by scale invariance: on integer units RN commutes with multiplication by powers of two, so the
  whole splitting and the whole product residual scale, and every non-zero float is a power of two times a normal one.
-/
import UVerifProofs.Lemmas.F64ProdLift

namespace UVerif.F64

/-! ### scaling -/

theorem vHi_scale (p s : Nat) (hp : 1 ≤ p) (x : Int) (j : Nat) :
    vHi p s (x * ((2 ^ j : Nat) : Int)) = vHi p s x * ((2 ^ j : Nat) : Int) := by
  unfold vHi
  have e1 : (((2 ^ s : Nat) : Int) + 1) * (x * ((2 ^ j : Nat) : Int)) = ((((2 ^ s : Nat) : Int) + 1) * x) * ((2 ^ j : Nat) : Int) := by ring
  rw [e1, rnInt_mul_two_pow _ _ _ hp]
  have e2 : rnInt p ((((2 ^ s : Nat) : Int) + 1) * x) * ((2 ^ j : Nat) : Int) - x * ((2 ^ j : Nat) : Int)
      = (rnInt p ((((2 ^ s : Nat) : Int) + 1) * x) - x) * ((2 ^ j : Nat) : Int) := by ring
  rw [e2, rnInt_mul_two_pow _ _ _ hp]
  have e3 : rnInt p ((((2 ^ s : Nat) : Int) + 1) * x) * ((2 ^ j : Nat) : Int) - rnInt p (rnInt p ((((2 ^ s : Nat) : Int) + 1) * x) - x) * ((2 ^ j : Nat) : Int)
      = (rnInt p ((((2 ^ s : Nat) : Int) + 1) * x) - rnInt p (rnInt p ((((2 ^ s : Nat) : Int) + 1) * x) - x)) * ((2 ^ j : Nat) : Int) := by ring
  rw [e3, rnInt_mul_two_pow _ _ _ hp]

theorem vLo_scale (p s : Nat) (hp : 1 ≤ p) (x : Int) (j : Nat) :
    vLo p s (x * ((2 ^ j : Nat) : Int)) = vLo p s x * ((2 ^ j : Nat) : Int) := by
  unfold vLo
  rw [vHi_scale p s hp]
  have e : x * ((2 ^ j : Nat) : Int) - vHi p s x * ((2 ^ j : Nat) : Int) = (x - vHi p s x) * ((2 ^ j : Nat) : Int) := by ring
  rw [e, rnInt_mul_two_pow _ _ _ hp]

theorem vHi_zero (p s : Nat) : vHi p s 0 = 0 := by
  unfold vHi; simp [rnInt_zero]

theorem vLo_zero (p s : Nat) : vLo p s 0 = 0 := by
  unfold vLo; simp [vHi_zero, rnInt_zero]

/-- every quantum of `x` divides both parts of its splitting. -/
theorem vHi_dvd {p s e : Nat} {x : Int} (h : ((2 ^ e : Nat) : Int) ∣ x) : ((2 ^ e : Nat) : Int) ∣ vHi p s x := by
  unfold vHi
  have h1 : ((2 ^ e : Nat) : Int) ∣ rnInt p ((((2 ^ s : Nat) : Int) + 1) * x) := rnInt_dvd (Dvd.dvd.mul_left h _)
  have h2 : ((2 ^ e : Nat) : Int) ∣ rnInt p (rnInt p ((((2 ^ s : Nat) : Int) + 1) * x) - x) := rnInt_dvd (Int.dvd_sub h1 h)
  exact rnInt_dvd (Int.dvd_sub h1 h2)

theorem vLo_dvd {p s e : Nat} {x : Int} (h : ((2 ^ e : Nat) : Int) ∣ x) : ((2 ^ e : Nat) : Int) ∣ vLo p s x := by
  unfold vLo
  exact rnInt_dvd (Int.dvd_sub h (vHi_dvd h))

/-- normalisation shift: a non-zero float times `2^(p − size)` is normal with quantum 1 … or it already is. -/
theorem exists_normal_scale {p : Nat} (hp : 1 ≤ p) (x : Int) (hx0 : x ≠ 0) :
    ∃ j e : Nat, 2 ^ (p - 1 + e) ≤ (x * ((2 ^ j : Nat) : Int)).natAbs ∧ (x * ((2 ^ j : Nat) : Int)).natAbs < 2 ^ (p + e) ∧
      size x.natAbs + j = p + e := by
  have hn0 : x.natAbs ≠ 0 := by omega
  have hlow := two_pow_size_le hn0
  have hhi := lt_two_pow_size x.natAbs
  have hs1 : 1 ≤ size x.natAbs := by
    rcases Nat.eq_zero_or_pos (size x.natAbs) with h | h
    · rw [h] at hhi; simp at hhi; omega
    · exact h
  refine ⟨p - size x.natAbs, size x.natAbs - p, ?_, ?_, by omega⟩
  · rw [Int.natAbs_mul]; simp only [Int.natAbs_natCast]
    have e : p - 1 + (size x.natAbs - p) = (size x.natAbs - 1) + (p - size x.natAbs) := by omega
    rw [e, Nat.pow_add]
    exact Nat.mul_le_mul_right _ hlow
  · rw [Int.natAbs_mul]; simp only [Int.natAbs_natCast]
    have e : p + (size x.natAbs - p) = size x.natAbs + (p - size x.natAbs) := by omega
    rw [e, Nat.pow_add]
    exact Nat.mul_lt_mul_of_pos_right hhi (Nat.two_pow_pos _)

/-- magnitude of the parts of the splitting of ANY float: at most `2^(size x)`. -/
theorem vHi_vLo_bound {p s : Nat} (hs : 1 ≤ s) (hsp : s + 1 ≤ p) {x : Int} (hx : IsFloat p x) :
    (vHi p s x).natAbs ≤ 2 ^ size x.natAbs ∧ (vLo p s x).natAbs ≤ 2 ^ size x.natAbs ∧ x = vHi p s x + vLo p s x := by
  have hp : 1 ≤ p := by omega
  have hsum : x = vHi p s x + vLo p s x := by rw [vLo_eq hp hs hx]; ring
  by_cases hx0 : x = 0
  · subst hx0; simp [vHi_zero, vLo_zero]
  · obtain ⟨j, e, h1, h2, h3⟩ := exists_normal_scale hp x hx0
    have hxs : IsFloat p (x * ((2 ^ j : Nat) : Int)) := isFloat_mul_two_pow hx j
    obtain ⟨_, _, w1, _, w2⟩ := veltkamp_widths (e := e) hs hsp hxs h1 h2
    rw [vHi_scale p s hp] at w1
    rw [vLo_scale p s hp] at w2
    rw [Int.natAbs_mul] at w1 w2
    simp only [Int.natAbs_natCast] at w1 w2
    have e1 : 2 ^ (p + e) = 2 ^ size x.natAbs * 2 ^ j := by rw [← Nat.pow_add, h3]
    have e2 : 2 ^ (s - 1 + e) ≤ 2 ^ (p + e) := Nat.pow_le_pow_right (by decide) (by omega)
    rw [e1] at w1 e2
    refine ⟨Nat.le_of_mul_le_mul_right w1 (Nat.two_pow_pos j), Nat.le_of_mul_le_mul_right (Nat.le_trans w2 e2) (Nat.two_pow_pos j), hsum⟩

/-- **exactness of every step of Dekker's product for ALL floats** (scale-free; zero, subnormal or normal operands). -/
theorem dekker_steps_all {p s : Nat} (hps1 : p ≤ 2 * s) (hps2 : 2 * s ≤ p + 1) (hs2 : s + 2 ≤ p) (hs : 1 ≤ s)
    {a b : Int} (ha : IsFloat p a) (hb : IsFloat p b) :
    IsFloat p (vHi p s a * vHi p s b) ∧ IsFloat p (vHi p s a * vLo p s b) ∧ IsFloat p (vLo p s a * vHi p s b) ∧
    IsFloat p (vLo p s a * vLo p s b) ∧
    IsFloat p (vHi p s a * vHi p s b - rnInt p (a * b)) ∧
    IsFloat p (vHi p s a * vHi p s b - rnInt p (a * b) + vHi p s a * vLo p s b) ∧
    IsFloat p (vHi p s a * vHi p s b - rnInt p (a * b) + vHi p s a * vLo p s b + vLo p s a * vHi p s b) ∧
    IsFloat p (a * b - rnInt p (a * b)) := by
  have hp : 1 ≤ p := by omega
  by_cases ha0 : a = 0
  · subst ha0
    simp [vHi_zero, vLo_zero, rnInt_zero, isFloat_zero]
  by_cases hb0 : b = 0
  · subst hb0
    simp [vHi_zero, vLo_zero, rnInt_zero, isFloat_zero]
  obtain ⟨ja, ea, a5, a6, _⟩ := exists_normal_scale hp a ha0
  obtain ⟨jb, eb, b5, b6, _⟩ := exists_normal_scale hp b hb0
  have has : IsFloat p (a * ((2 ^ ja : Nat) : Int)) := isFloat_mul_two_pow ha ja
  have hbs : IsFloat p (b * ((2 ^ jb : Nat) : Int)) := isFloat_mul_two_pow hb jb
  obtain ⟨sa, a1, a4, a2, a3⟩ := veltkamp_widths (e := ea) hs (by omega) has a5 a6
  obtain ⟨sb, b1, b4, b2, b3⟩ := veltkamp_widths (e := eb) hs (by omega) hbs b5 b6
  obtain ⟨f1, f2, f3, f4, f5, f6, f7, f8⟩ :=
    dekker_product hps1 hps2 hs2 sa sb a1 a2 a3 a4 a5 (Nat.le_of_lt a6) b1 b2 b3 b4 b5 (Nat.le_of_lt b6)
  -- unscale
  simp only [vHi_scale p s hp, vLo_scale p s hp] at f1 f2 f3 f4 f5 f6 f7
  have eab : a * ((2 ^ ja : Nat) : Int) * (b * ((2 ^ jb : Nat) : Int)) = (a * b) * ((2 ^ (ja + jb) : Nat) : Int) := by
    rw [Nat.pow_add]; push_cast; ring
  rw [eab, rnInt_mul_two_pow _ _ _ hp] at f5 f6 f7 f8
  have k : ∀ X Y : Int, X * ((2 ^ ja : Nat) : Int) * (Y * ((2 ^ jb : Nat) : Int)) = (X * Y) * ((2 ^ (ja + jb) : Nat) : Int) := by
    intro X Y; rw [Nat.pow_add]; push_cast; ring
  simp only [k] at f1 f2 f3 f4 f5 f6 f7
  refine ⟨isFloat_of_mul_two_pow f1, isFloat_of_mul_two_pow f2, isFloat_of_mul_two_pow f3, isFloat_of_mul_two_pow f4, ?_, ?_, ?_, ?_⟩
  · apply isFloat_of_mul_two_pow (t := ja + jb)
    have e : (vHi p s a * vHi p s b - rnInt p (a * b)) * ((2 ^ (ja + jb) : Nat) : Int)
        = vHi p s a * vHi p s b * ((2 ^ (ja + jb) : Nat) : Int) - rnInt p (a * b) * ((2 ^ (ja + jb) : Nat) : Int) := by ring
    rw [e]; exact f5
  · apply isFloat_of_mul_two_pow (t := ja + jb)
    have e : (vHi p s a * vHi p s b - rnInt p (a * b) + vHi p s a * vLo p s b) * ((2 ^ (ja + jb) : Nat) : Int)
        = vHi p s a * vHi p s b * ((2 ^ (ja + jb) : Nat) : Int) - rnInt p (a * b) * ((2 ^ (ja + jb) : Nat) : Int)
          + vHi p s a * vLo p s b * ((2 ^ (ja + jb) : Nat) : Int) := by ring
    rw [e]; exact f6
  · apply isFloat_of_mul_two_pow (t := ja + jb)
    have e : (vHi p s a * vHi p s b - rnInt p (a * b) + vHi p s a * vLo p s b + vLo p s a * vHi p s b) * ((2 ^ (ja + jb) : Nat) : Int)
        = vHi p s a * vHi p s b * ((2 ^ (ja + jb) : Nat) : Int) - rnInt p (a * b) * ((2 ^ (ja + jb) : Nat) : Int)
          + vHi p s a * vLo p s b * ((2 ^ (ja + jb) : Nat) : Int) + vLo p s a * vHi p s b * ((2 ^ (ja + jb) : Nat) : Int) := by ring
    rw [e]; exact f7
  · apply isFloat_of_mul_two_pow (t := ja + jb)
    have e : (a * b - rnInt p (a * b)) * ((2 ^ (ja + jb) : Nat) : Int)
        = a * b * ((2 ^ (ja + jb) : Nat) : Int) - rnInt p (a * b) * ((2 ^ (ja + jb) : Nat) : Int) := by ring
    rw [e]; exact f8

/-- **Dekker's product with the Veltkamp split for ALL floats** (integer units, scale free):
    `RN(a·b) + dekkerR p s a b = a·b`. -/
theorem dekker_two_prod_all {p s : Nat} (hps1 : p ≤ 2 * s) (hps2 : 2 * s ≤ p + 1) (hs2 : s + 2 ≤ p) (hs : 1 ≤ s)
    {a b : Int} (ha : IsFloat p a) (hb : IsFloat p b) :
    rnInt p (a * b) + dekkerR p s a b = a * b := by
  have hp : 1 ≤ p := by omega
  obtain ⟨f1, f2, f3, f4, f5, f6, f7, f8⟩ := dekker_steps_all hps1 hps2 hs2 hs ha hb
  obtain ⟨_, _, sa⟩ := vHi_vLo_bound hs (by omega) ha
  obtain ⟨_, _, sb⟩ := vHi_vLo_bound hs (by omega) hb
  unfold dekkerR
  simp only
  rw [rnInt_exact hp f1, rnInt_exact hp f2, rnInt_exact hp f3, rnInt_exact hp f4, rnInt_exact hp f5,
      rnInt_exact hp f6, rnInt_exact hp f7]
  have e : vHi p s a * vHi p s b - rnInt p (a * b) + vHi p s a * vLo p s b + vLo p s a * vHi p s b + vLo p s a * vLo p s b
      = a * b - rnInt p (a * b) := by
    have : a * b = (vHi p s a + vLo p s a) * (vHi p s b + vLo p s b) := by rw [← sa, ← sb]
    rw [this]; ring
  rw [e, rnInt_exact hp f8]
  ring

end UVerif.F64

namespace UVerif.F64

/-! ### the model's `split`, both branches -/

theorem two_pow_top_le_maxMag (f : Fmt) (hp : 1 ≤ f.p) (hpt : f.p ≤ f.top) : 2 ^ (f.top - 1) ≤ maxMag f := by
  unfold maxMag
  have e : 2 ^ (f.top - 1) = 2 ^ (f.p - 1) * 2 ^ (f.top - f.p) := by rw [← Nat.pow_add]; congr 1; omega
  rw [e]
  apply Nat.mul_le_mul_right
  have := two_pow_pred hp
  have := Nat.two_pow_pos (f.p - 1)
  omega

theorem isFloatN_of_mul_two_pow {p t n : Nat} (h : IsFloatN p (n * 2 ^ t)) : IsFloatN p n := by
  have : IsFloat p ((n : Int) * ((2 ^ t : Nat) : Int)) := by
    unfold IsFloat
    have : ((n : Int) * ((2 ^ t : Nat) : Int)).natAbs = n * 2 ^ t := by rw [Int.natAbs_mul]; simp
    rw [this]; exact h
  have := isFloat_of_mul_two_pow this
  simpa [IsFloat] using this

/-- `ldexp(x, +j)` when the scaled magnitude stays in range: exact. -/
theorem ldexp_up_spec (f : Fmt) (hpt : f.p ≤ f.top) {x : F} (hx : x.Rep f) (j : Nat) (hb : x.mag * 2 ^ j ≤ maxMag f) :
    (ldexp f x (j : Int)).Rep f ∧ (ldexp f x (j : Int)).toInt = x.toInt * ((2 ^ j : Nat) : Int) ∧
    (ldexp f x (j : Int)).mag = x.mag * 2 ^ j := by
  obtain ⟨hfin, hfl⟩ := hx
  cases x with
  | fin s m =>
    simp only [F.mag] at hb
    unfold ldexp
    by_cases hm : m = 0
    · subst hm
      simp only [if_true]
      refine ⟨⟨rfl, hfl⟩, ?_, by simp [F.mag]⟩
      cases s <;> simp [F.toInt]
    · have hk : (j : Int) ≥ 0 := Int.natCast_nonneg j
      simp only [hm, if_false, hk, if_true, Int.toNat_natCast, Nat.shiftLeft_eq]
      rw [pack_of_le f hpt _ hb]
      refine ⟨⟨rfl, ?_⟩, ?_, by simp [F.mag]⟩
      · have := isFloat_mul_two_pow hfl j
        have e : (F.fin s (m * 2 ^ j)).toInt = (F.fin s m).toInt * ((2 ^ j : Nat) : Int) := by
          cases s <;> simp [F.toInt]
        rw [e]; exact this
      · cases s <;> simp [F.toInt]
  | inf s => simp [F.isFinite] at hfin
  | nan => simp [F.isFinite] at hfin

/-- `ldexp(x, −j)` when `2^j` divides the magnitude: exact. -/
theorem ldexp_down_spec (f : Fmt) (hp : 1 ≤ f.p) (hpt : f.p ≤ f.top) {x : F} (hx : x.Rep f) (hm : x.mag ≤ maxMag f)
    (j : Nat) (hj : 1 ≤ j) (hd : 2 ^ j ∣ x.mag) (h0 : x.mag ≠ 0) :
    (ldexp f x (-(j : Int))).Rep f ∧ (ldexp f x (-(j : Int))).toInt * ((2 ^ j : Nat) : Int) = x.toInt ∧
    (ldexp f x (-(j : Int))).mag * 2 ^ j = x.mag := by
  obtain ⟨hfin, hfl⟩ := hx
  cases x with
  | fin s m =>
    simp only [F.mag] at hd h0 hm
    obtain ⟨n', hn'⟩ := hd
    have hn : m = n' * 2 ^ j := by rw [hn', Nat.mul_comm]
    have hfl' : IsFloatN f.p m := by simpa [IsFloat, F.toInt_fin_natAbs] using hfl
    have hfn : IsFloatN f.p n' := isFloatN_of_mul_two_pow (t := j) (by rw [← hn]; exact hfl')
    have hle : n' ≤ maxMag f := by
      have : n' ≤ n' * 2 ^ j := Nat.le_mul_of_pos_right _ (Nat.two_pow_pos j)
      omega
    unfold ldexp
    have hk : ¬ (-(j : Int)) ≥ 0 := by omega
    simp only [h0, if_false, hk, roundShr]
    have e : (-(-(j : Int))).toNat = j := by simp
    rw [e, hn, rnShr_mul_two_pow, rnNat_exact hp hfn, pack_of_le f hpt _ hle]
    refine ⟨⟨rfl, ?_⟩, ?_, by simp [F.mag]⟩
    · simpa [IsFloat, F.toInt_fin_natAbs] using hfn
    · cases s <;> simp [F.toInt]
  | inf s => simp [F.isFinite] at hfin
  | nan => simp [F.isFinite] at hfin

end UVerif.F64

namespace UVerif.F64

/-- the three statements of the body of `split`. -/
def splitBody (f : Fmt) (x : F) : F × F :=
  (sub f (mul f (splitter f) x) (sub f (mul f (splitter f) x) x),
   sub f x (sub f (mul f (splitter f) x) (sub f (mul f (splitter f) x) x)))

theorem split_eq (f : Fmt) (a : F) :
    split f a =
      if fgt a.abs (splitThreshold f) then
        (ldexp f (splitBody f (ldexp f a (-((splitBits f : Int) + 1)))).1 ((splitBits f : Int) + 1),
         ldexp f (splitBody f (ldexp f a (-((splitBits f : Int) + 1)))).2 ((splitBits f : Int) + 1))
      else splitBody f a := by
  unfold split splitBody
  rfl

theorem fgt_threshold_false (f : Fmt) {a : F} (ha : a.isFinite = true) (h : a.mag ≤ maxMag f >>> (splitBits f + 1)) :
    fgt a.abs (splitThreshold f) = false := by
  cases a with
  | fin t m =>
    simp only [F.mag] at h
    obtain ⟨T, hT⟩ : ∃ T, T = maxMag f >>> (splitBits f + 1) := ⟨_, rfl⟩
    rw [← hT] at h
    unfold splitThreshold
    rw [← hT]
    have : ¬ ((T : Int) < (m : Int)) := by omega
    simp [fgt, flt, F.abs, F.toInt, this]
  | inf s => simp [F.isFinite] at ha
  | nan => simp [F.isFinite] at ha

theorem fgt_threshold_true (f : Fmt) {a : F} (ha : a.isFinite = true) (h : maxMag f >>> (splitBits f + 1) < a.mag) :
    fgt a.abs (splitThreshold f) = true := by
  cases a with
  | fin t m =>
    simp only [F.mag] at h
    obtain ⟨T, hT⟩ : ∃ T, T = maxMag f >>> (splitBits f + 1) := ⟨_, rfl⟩
    rw [← hT] at h
    unfold splitThreshold
    rw [← hT]
    have : ((T : Int) < (m : Int)) := by omega
    simp [fgt, flt, F.abs, F.toInt, this]
  | inf s => simp [F.isFinite] at ha
  | nan => simp [F.isFinite] at ha

/-- **the model's `split`, both branches**: for every representable `a` with `|a| < 2^(top−1)` (in particular
    `|a| ≤ max/2`) in a format with room for the rescaling (`p + 2(BITS+1) ≤ top`): the outputs are the Veltkamp parts
    `vHi`, `vLo` of `a` (so `hi + lo = a`), finite. -/
theorem split_val_all (f : Fmt) (ok : f.Ok) (hfmt : f.p + 2 * (splitBits f + 1) ≤ f.top) {a : F} (ha : a.Rep f)
    (hlt : a.mag < 2 ^ (f.top - 1)) :
    (split f a).1.Rep f ∧ (split f a).2.Rep f ∧
    (split f a).1.toInt = vHi f.p (splitBits f) a.toInt ∧ (split f a).2.toInt = vLo f.p (splitBits f) a.toInt ∧
    (split f a).1.mag ≤ maxMag f ∧ (split f a).2.mag ≤ maxMag f := by
  have hp : 1 ≤ f.p := by have := ok.hp2; omega
  have hpt := ok.hpt
  have hsb : 1 ≤ splitBits f := by unfold splitBits; have := ok.hp2; omega
  have hsp : splitBits f + 1 ≤ f.p := by unfold splitBits; have := ok.hp2; omega
  have hmaxlow := two_pow_top_le_maxMag f hp hpt
  by_cases hth : a.mag ≤ maxMag f >>> (splitBits f + 1)
  · obtain ⟨h1, h2, h3, h4, h5, h6⟩ := split_spec_val f ok ha hth
    rw [← vHi_eq hp hsb ha.2] at h3 h4
    rw [← vLo_eq hp hsb ha.2] at h4
    exact ⟨h1, h2, h3, h4, h5, h6⟩
  · -- rescaled branch
    have hgt : maxMag f >>> (splitBits f + 1) < a.mag := Nat.lt_of_not_le hth
    obtain ⟨j, hj⟩ : ∃ j, j = splitBits f + 1 := ⟨_, rfl⟩
    rw [← hj] at hgt hfmt
    have hjc : ((splitBits f : Int) + 1) = ((j : Nat) : Int) := by rw [hj]; push_cast; rfl
    -- 2^j divides a.mag
    have ha0 : a.mag ≠ 0 := by
      intro h; rw [h] at hgt; exact Nat.not_lt_zero _ hgt
    have hsz : f.top - j ≤ size a.mag := by
      rw [Nat.shiftRight_eq_div_pow] at hgt
      have h1 : 2 ^ (f.top - 1 - j) ≤ maxMag f / 2 ^ j := by
        rw [Nat.le_div_iff_mul_le (Nat.two_pow_pos j), ← Nat.pow_add]
        have : f.top - 1 - j + j = f.top - 1 := by omega
        rw [this]; exact hmaxlow
      have : f.top - 1 - j < size a.mag := lt_size.2 (by omega)
      omega
    have hfl : IsFloatN f.p a.mag := by
      have := ha.2; unfold IsFloat at this; rwa [← F.mag_eq_natAbs] at this
    have hdvd : 2 ^ j ∣ a.mag := Nat.dvd_trans (Nat.pow_dvd_pow 2 (by omega)) (isFloatN_canon hp hfl)
    have hamax : a.mag ≤ maxMag f := by omega
    obtain ⟨a'r, a'v, a'm⟩ := ldexp_down_spec f hp hpt ha hamax j (by omega) hdvd ha0
    -- a' is at most the threshold
    have ha'th : (ldexp f a (-(j : Int))).mag ≤ maxMag f >>> (splitBits f + 1) := by
      rw [← hj, Nat.shiftRight_eq_div_pow, Nat.le_div_iff_mul_le (Nat.two_pow_pos j), a'm]; exact hamax
    obtain ⟨h1, h2, h3, h4, _, _⟩ := split_spec_val f ok a'r ha'th
    rw [← vHi_eq hp hsb a'r.2] at h3 h4
    rw [← vLo_eq hp hsb a'r.2] at h4
    -- split f a' is the body (main branch)
    have hb' : fgt (ldexp f a (-(j : Int))).abs (splitThreshold f) = false := fgt_threshold_false f a'r.1 ha'th
    have hsplit' : split f (ldexp f a (-(j : Int))) = splitBody f (ldexp f a (-(j : Int))) := by
      rw [split_eq]; simp [hb']
    rw [hsplit'] at h1 h2 h3 h4
    -- magnitudes of the parts of a' and of their rescaled versions
    obtain ⟨bh, bl, _⟩ := vHi_vLo_bound hsb hsp a'r.2 (p := f.p) (s := splitBits f)
    have hsize : size a.mag = size (ldexp f a (-(j : Int))).mag + j := by
      rw [← a'm]
      have h0' : (ldexp f a (-(j : Int))).mag ≠ 0 := by
        intro h0; rw [h0] at a'm; simp at a'm; omega
      exact size_mul_two_pow h0' j
    have hsa : size a.mag ≤ f.top - 1 := size_le.2 hlt
    have hup : ∀ y : F, y.toInt.natAbs ≤ 2 ^ size (ldexp f a (-(j : Int))).toInt.natAbs → y.mag * 2 ^ j ≤ maxMag f := by
      intro y hy
      rw [F.mag_eq_natAbs]
      rw [← F.mag_eq_natAbs (ldexp f a (-(j : Int)))] at hy
      have h1 : y.toInt.natAbs * 2 ^ j ≤ 2 ^ size (ldexp f a (-(j : Int))).mag * 2 ^ j := Nat.mul_le_mul_right _ hy
      rw [← Nat.pow_add, ← hsize] at h1
      have h2 : 2 ^ size a.mag ≤ 2 ^ (f.top - 1) := Nat.pow_le_pow_right (by decide) hsa
      omega
    obtain ⟨u1, u1v, u1m⟩ := ldexp_up_spec f hpt h1 j (hup _ (by rw [h3]; exact bh))
    obtain ⟨u2, u2v, u2m⟩ := ldexp_up_spec f hpt h2 j (hup _ (by rw [h4]; exact bl))
    have hbr : fgt a.abs (splitThreshold f) = true := fgt_threshold_true f ha.1 (by rw [← hj]; exact hgt)
    rw [split_eq]
    simp only [hbr, if_true, hjc]
    refine ⟨u1, u2, ?_, ?_, ?_, ?_⟩
    · rw [u1v, h3, ← vHi_scale f.p (splitBits f) hp, a'v]
    · rw [u2v, h4, ← vLo_scale f.p (splitBits f) hp, a'v]
    · rw [u1m]; exact hup _ (by rw [h3]; exact bh)
    · rw [u2m]; exact hup _ (by rw [h4]; exact bl)

end UVerif.F64

namespace UVerif.F64

/-- **model-level `two_prod` for ALL representable operands** (zero, subnormal, normal; below or above
    SPLIT_THRESHOLD) — guards: `|a|, |b| < 2^(top−1)`; no underflow: the quanta of the operands multiply to at least
    one unit (`q ≤ (size a − p) + (size b − p)`, implied for binary64 by `|a·b| ≥ 2^-968`); three binades of headroom
    below overflow (`8·2^(size a + size b) ≤ maxMag·2^q`, implied by `|a·b| ≤ 2^1019`); format: `p ≥ 4`,
    `p + 2(BITS+1) ≤ top`.   `p·2^q = RN(a·b)`  and  `(p + r)·2^q = a·b`. -/
theorem twoProd_spec_gen (f : Fmt) (ok : f.Ok) (h4 : 4 ≤ f.p) (hfmt : f.p + 2 * (splitBits f + 1) ≤ f.top)
    {a b : F} (ha : a.Rep f) (hb : b.Rep f)
    (hla : a.mag < 2 ^ (f.top - 1)) (hlb : b.mag < 2 ^ (f.top - 1))
    {ea eb : Nat} (da : ((2 ^ ea : Nat) : Int) ∣ a.toInt) (db : ((2 ^ eb : Nat) : Int) ∣ b.toInt)
    (hq : f.q ≤ ea + eb)
    (hrange : 8 * 2 ^ (size a.mag + size b.mag) ≤ maxMag f * 2 ^ f.q) :
    (twoProd f a b).1.Rep f ∧ (twoProd f a b).2.Rep f ∧
    ((twoProd f a b).1.toInt + (twoProd f a b).2.toInt) * ((2 ^ f.q : Nat) : Int) = a.toInt * b.toInt ∧
    (twoProd f a b).1.toInt * ((2 ^ f.q : Nat) : Int) = rnInt f.p (a.toInt * b.toInt) := by
  have hp : 1 ≤ f.p := by omega
  have hpt := ok.hpt
  have hsb : splitBits f = (f.p + 1) / 2 := rfl
  have hs : 1 ≤ splitBits f := by omega
  have hps1 : f.p ≤ 2 * splitBits f := by omega
  have hps2 : 2 * splitBits f ≤ f.p + 1 := by omega
  have hs2 : splitBits f + 2 ≤ f.p := by omega
  rw [F.mag_eq_natAbs a, F.mag_eq_natAbs b] at hrange
  obtain ⟨a4, a3, sa⟩ := vHi_vLo_bound hs (by omega) ha.2 (p := f.p) (s := splitBits f)
  obtain ⟨b4, b3, sb⟩ := vHi_vLo_bound hs (by omega) hb.2 (p := f.p) (s := splitBits f)
  obtain ⟨f1, f2, f3, f4, f5, f6, f7, f8⟩ := dekker_steps_all hps1 hps2 hs2 hs ha.2 hb.2
  obtain ⟨W, hW⟩ : ∃ W, W = 2 ^ (size a.toInt.natAbs + size b.toInt.natAbs) := ⟨_, rfl⟩
  rw [← hW] at hrange
  have hale := Nat.le_of_lt (lt_two_pow_size a.toInt.natAbs)
  have hble := Nat.le_of_lt (lt_two_pow_size b.toInt.natAbs)
  have wab : (a.toInt * b.toInt).natAbs ≤ W := by rw [hW, Nat.pow_add]; exact natAbs_mul_le hale hble
  have whh : (vHi f.p (splitBits f) a.toInt * vHi f.p (splitBits f) b.toInt).natAbs ≤ W := by
    rw [hW, Nat.pow_add]; exact natAbs_mul_le a4 b4
  have whl : (vHi f.p (splitBits f) a.toInt * vLo f.p (splitBits f) b.toInt).natAbs ≤ W := by
    rw [hW, Nat.pow_add]; exact natAbs_mul_le a4 b3
  have wlh : (vLo f.p (splitBits f) a.toInt * vHi f.p (splitBits f) b.toInt).natAbs ≤ W := by
    rw [hW, Nat.pow_add]; exact natAbs_mul_le a3 b4
  have wll : (vLo f.p (splitBits f) a.toInt * vLo f.p (splitBits f) b.toInt).natAbs ≤ W := by
    rw [hW, Nat.pow_add]; exact natAbs_mul_le a3 b3
  have wP : (rnInt f.p (a.toInt * b.toInt)).natAbs ≤ W :=
    rnInt_natAbs_le hp (by rw [hW]; exact isFloatN_two_pow _ _ hp) wab
  -- quanta
  have dah := vHi_dvd (p := f.p) (s := splitBits f) da
  have dal := vLo_dvd (p := f.p) (s := splitBits f) da
  have dbh := vHi_dvd (p := f.p) (s := splitBits f) db
  have dbl := vLo_dvd (p := f.p) (s := splitBits f) db
  -- 1. p = a * b (rounded)
  have hdab : 2 ^ f.q ∣ a.mag * b.mag := by
    have h := Int.natAbs_dvd_natAbs.2 (pow_dvd_of_le_int hq (pow_dvd_mul_int da db))
    rw [Int.natAbs_mul] at h
    simpa [F.mag_eq_natAbs] using h
  have hbab : a.mag * b.mag ≤ maxMag f * 2 ^ f.q := by
    rw [F.mag_eq_natAbs, F.mag_eq_natAbs, ← Int.natAbs_mul]; omega
  obtain ⟨hpf, hpv, _⟩ := mul_spec_scaled f hp hpt ha.1 hb.1 hdab hbab
  have hpRep : (mul f a b).Rep f := by
    refine ⟨hpf, isFloat_of_mul_two_pow (t := f.q) ?_⟩
    rw [hpv]; exact rnInt_isFloat _ _
  -- 2. the splittings (either branch)
  obtain ⟨hah, hal, hahv, halv, _, _⟩ := split_val_all f ok hfmt ha hla
  obtain ⟨hbh, hbl, hbhv, hblv, _, _⟩ := split_val_all f ok hfmt hb hlb
  -- 3. the four exact partial products
  obtain ⟨m1f, m1v⟩ := mul_exact_scaled f hp hpt hah.1 hbh.1 (k := ea + eb)
    (by rw [hahv, hbhv]; exact pow_dvd_mul_int dah dbh) hq (by rw [hahv, hbhv]; exact f1) (by rw [hahv, hbhv]; omega)
  obtain ⟨m2f, m2v⟩ := mul_exact_scaled f hp hpt hah.1 hbl.1 (k := ea + eb)
    (by rw [hahv, hblv]; exact pow_dvd_mul_int dah dbl) hq (by rw [hahv, hblv]; exact f2) (by rw [hahv, hblv]; omega)
  obtain ⟨m3f, m3v⟩ := mul_exact_scaled f hp hpt hal.1 hbh.1 (k := ea + eb)
    (by rw [halv, hbhv]; exact pow_dvd_mul_int dal dbh) hq (by rw [halv, hbhv]; exact f3) (by rw [halv, hbhv]; omega)
  obtain ⟨m4f, m4v⟩ := mul_exact_scaled f hp hpt hal.1 hbl.1 (k := ea + eb)
    (by rw [halv, hblv]; exact pow_dvd_mul_int dal dbl) hq (by rw [halv, hblv]; exact f4) (by rw [halv, hblv]; omega)
  rw [hahv, hbhv] at m1v
  rw [hahv, hblv] at m2v
  rw [halv, hbhv] at m3v
  rw [halv, hblv] at m4v
  -- 4. the four exact additions
  obtain ⟨t1r, t1v⟩ := sub_exact_scaled f hp hpt m1f hpf m1v hpv f5 (by have := natAbs_sub_le3 whh wP; omega)
  obtain ⟨t2r, t2v⟩ := add_exact_scaled f hp hpt t1r.1 m2f t1v m2v f6
    (by have := natAbs_add_le3 (natAbs_sub_le3 whh wP) whl; omega)
  obtain ⟨t3r, t3v⟩ := add_exact_scaled f hp hpt t2r.1 m3f t2v m3v f7
    (by have := natAbs_add_le3 (natAbs_add_le3 (natAbs_sub_le3 whh wP) whl) wlh; omega)
  have efin : vHi f.p (splitBits f) a.toInt * vHi f.p (splitBits f) b.toInt - rnInt f.p (a.toInt * b.toInt)
      + vHi f.p (splitBits f) a.toInt * vLo f.p (splitBits f) b.toInt + vLo f.p (splitBits f) a.toInt * vHi f.p (splitBits f) b.toInt
      + vLo f.p (splitBits f) a.toInt * vLo f.p (splitBits f) b.toInt = a.toInt * b.toInt - rnInt f.p (a.toInt * b.toInt) := by
    have : a.toInt * b.toInt = (vHi f.p (splitBits f) a.toInt + vLo f.p (splitBits f) a.toInt) * (vHi f.p (splitBits f) b.toInt + vLo f.p (splitBits f) b.toInt) := by
      rw [← sa, ← sb]
    rw [this]; ring
  obtain ⟨rr, rv⟩ := add_exact_scaled f hp hpt t3r.1 m4f t3v m4v (by rw [efin]; exact f8)
    (by have := natAbs_add_le3 (natAbs_add_le3 (natAbs_add_le3 (natAbs_sub_le3 whh wP) whl) wlh) wll; omega)
  rw [efin] at rv
  rw [twoProd_eq]
  simp only [hpf, if_true]
  refine ⟨hpRep, rr, ?_, hpv⟩
  rw [Int.add_mul, hpv, rv]; ring

/-- `twoProd_spec_gen` with the canonical quanta `2^(size − p)` of the operands. -/
theorem twoProd_spec_all (f : Fmt) (ok : f.Ok) (h4 : 4 ≤ f.p) (hfmt : f.p + 2 * (splitBits f + 1) ≤ f.top)
    {a b : F} (ha : a.Rep f) (hb : b.Rep f)
    (hla : a.mag < 2 ^ (f.top - 1)) (hlb : b.mag < 2 ^ (f.top - 1))
    (hq : f.q ≤ (size a.mag - f.p) + (size b.mag - f.p))
    (hrange : 8 * 2 ^ (size a.mag + size b.mag) ≤ maxMag f * 2 ^ f.q) :
    (twoProd f a b).1.Rep f ∧ (twoProd f a b).2.Rep f ∧
    ((twoProd f a b).1.toInt + (twoProd f a b).2.toInt) * ((2 ^ f.q : Nat) : Int) = a.toInt * b.toInt ∧
    (twoProd f a b).1.toInt * ((2 ^ f.q : Nat) : Int) = rnInt f.p (a.toInt * b.toInt) := by
  have hp : 1 ≤ f.p := by omega
  have da : ((2 ^ (size a.mag - f.p) : Nat) : Int) ∣ a.toInt := by
    rw [F.mag_eq_natAbs]; exact isFloat_quantum_dvd hp ha.2
  have db : ((2 ^ (size b.mag - f.p) : Nat) : Int) ∣ b.toInt := by
    rw [F.mag_eq_natAbs]; exact isFloat_quantum_dvd hp hb.2
  exact twoProd_spec_gen f ok h4 hfmt ha hb hla hlb da db hq hrange

end UVerif.F64

namespace UVerif.F64

theorem two_mul_le_maxMag (f : Fmt) (hp : 1 ≤ f.p) (hpt : f.p ≤ f.top) (htop : 2 ≤ f.top) {n s : Nat}
    (h : n ≤ 2 ^ s) (hs : s ≤ f.top - 2) : 2 * n ≤ maxMag f := by
  have h1 : 2 ^ s ≤ 2 ^ (f.top - 2) := Nat.pow_le_pow_right (by decide) hs
  have h2 : 2 ^ (f.top - 1) = 2 * 2 ^ (f.top - 2) := by
    have h := two_pow_pred (k := f.top - 1) (by omega)
    have e : f.top - 1 - 1 = f.top - 2 := by omega
    rw [e] at h; exact h
  have := two_pow_top_le_maxMag f hp hpt
  omega

/-- **model-level `two_sqr` for ALL representable operands** (same guards as `twoProd_spec_all` with `b = a`,
    one more binade of headroom for `2·hi`). -/
theorem twoSqr_spec_all (f : Fmt) (ok : f.Ok) (h4 : 4 ≤ f.p) (hfmt : f.p + 2 * (splitBits f + 1) ≤ f.top)
    {a : F} (ha : a.Rep f) (hla : a.mag < 2 ^ (f.top - 2))
    (hq : f.q ≤ (size a.mag - f.p) + (size a.mag - f.p))
    (hrange : 8 * 2 ^ (size a.mag + size a.mag) ≤ maxMag f * 2 ^ f.q) :
    (twoSqr f a).1.Rep f ∧ (twoSqr f a).2.Rep f ∧
    ((twoSqr f a).1.toInt + (twoSqr f a).2.toInt) * ((2 ^ f.q : Nat) : Int) = a.toInt * a.toInt ∧
    (twoSqr f a).1.toInt * ((2 ^ f.q : Nat) : Int) = rnInt f.p (a.toInt * a.toInt) := by
  have hp : 1 ≤ f.p := by omega
  have hpt := ok.hpt
  have hsb : splitBits f = (f.p + 1) / 2 := rfl
  have hs : 1 ≤ splitBits f := by omega
  have hps1 : f.p ≤ 2 * splitBits f := by omega
  have hps2 : 2 * splitBits f ≤ f.p + 1 := by omega
  have hs2 : splitBits f + 2 ≤ f.p := by omega
  have hla1 : a.mag < 2 ^ (f.top - 1) :=
    Nat.lt_of_lt_of_le hla (Nat.pow_le_pow_right (by decide) (by omega))
  have hszm : size a.mag ≤ f.top - 2 := size_le.2 hla
  rw [F.mag_eq_natAbs a] at hq hrange hszm
  obtain ⟨a4, a3, sa⟩ := vHi_vLo_bound hs (by omega) ha.2 (p := f.p) (s := splitBits f)
  obtain ⟨f1, f2, _, f4, f5, _, f7, f8⟩ := dekker_steps_all hps1 hps2 hs2 hs ha.2 ha.2
  have hhif : IsFloat f.p (vHi f.p (splitBits f) a.toInt) := by unfold vHi; exact rnInt_isFloat _ _
  have h2hi : IsFloat f.p (2 * vHi f.p (splitBits f) a.toInt) := isFloat_two_mul hhif
  have h2hl : IsFloat f.p (2 * vHi f.p (splitBits f) a.toInt * vLo f.p (splitBits f) a.toInt) := by
    have := isFloat_two_mul f2
    have e : 2 * (vHi f.p (splitBits f) a.toInt * vLo f.p (splitBits f) a.toInt) = 2 * vHi f.p (splitBits f) a.toInt * vLo f.p (splitBits f) a.toInt := by ring
    rwa [e] at this
  have f7' : IsFloat f.p (vHi f.p (splitBits f) a.toInt * vHi f.p (splitBits f) a.toInt - rnInt f.p (a.toInt * a.toInt)
      + 2 * vHi f.p (splitBits f) a.toInt * vLo f.p (splitBits f) a.toInt) := by
    have e : vHi f.p (splitBits f) a.toInt * vHi f.p (splitBits f) a.toInt - rnInt f.p (a.toInt * a.toInt)
        + vHi f.p (splitBits f) a.toInt * vLo f.p (splitBits f) a.toInt + vLo f.p (splitBits f) a.toInt * vHi f.p (splitBits f) a.toInt
        = vHi f.p (splitBits f) a.toInt * vHi f.p (splitBits f) a.toInt - rnInt f.p (a.toInt * a.toInt)
          + 2 * vHi f.p (splitBits f) a.toInt * vLo f.p (splitBits f) a.toInt := by ring
    rwa [e] at f7
  obtain ⟨W, hW⟩ : ∃ W, W = 2 ^ (size a.toInt.natAbs + size a.toInt.natAbs) := ⟨_, rfl⟩
  rw [← hW] at hrange
  have hale := Nat.le_of_lt (lt_two_pow_size a.toInt.natAbs)
  have wab : (a.toInt * a.toInt).natAbs ≤ W := by rw [hW, Nat.pow_add]; exact natAbs_mul_le hale hale
  have whh : (vHi f.p (splitBits f) a.toInt * vHi f.p (splitBits f) a.toInt).natAbs ≤ W := by
    rw [hW, Nat.pow_add]; exact natAbs_mul_le a4 a4
  have whl : (vHi f.p (splitBits f) a.toInt * vLo f.p (splitBits f) a.toInt).natAbs ≤ W := by
    rw [hW, Nat.pow_add]; exact natAbs_mul_le a4 a3
  have w2hl : (2 * vHi f.p (splitBits f) a.toInt * vLo f.p (splitBits f) a.toInt).natAbs ≤ 2 * W := by
    have e : 2 * vHi f.p (splitBits f) a.toInt * vLo f.p (splitBits f) a.toInt = 2 * (vHi f.p (splitBits f) a.toInt * vLo f.p (splitBits f) a.toInt) := by ring
    rw [e]; omega
  have wll : (vLo f.p (splitBits f) a.toInt * vLo f.p (splitBits f) a.toInt).natAbs ≤ W := by
    rw [hW, Nat.pow_add]; exact natAbs_mul_le a3 a3
  have wP : (rnInt f.p (a.toInt * a.toInt)).natAbs ≤ W :=
    rnInt_natAbs_le hp (by rw [hW]; exact isFloatN_two_pow _ _ hp) wab
  have da : ((2 ^ (size a.toInt.natAbs - f.p) : Nat) : Int) ∣ a.toInt := isFloat_quantum_dvd hp ha.2
  have dah := vHi_dvd (p := f.p) (s := splitBits f) da
  have dal := vLo_dvd (p := f.p) (s := splitBits f) da
  have hdab : 2 ^ f.q ∣ a.mag * a.mag := by
    have h := Int.natAbs_dvd_natAbs.2 (pow_dvd_of_le_int hq (pow_dvd_mul_int da da))
    rw [Int.natAbs_mul] at h
    simpa [F.mag_eq_natAbs] using h
  have hbab : a.mag * a.mag ≤ maxMag f * 2 ^ f.q := by
    rw [F.mag_eq_natAbs, ← Int.natAbs_mul]; omega
  obtain ⟨hpf, hpv, _⟩ := mul_spec_scaled f hp hpt ha.1 ha.1 hdab hbab
  have hpRep : (mul f a a).Rep f := by
    refine ⟨hpf, isFloat_of_mul_two_pow (t := f.q) ?_⟩
    rw [hpv]; exact rnInt_isFloat _ _
  obtain ⟨hah, hal, hahv, halv, _, _⟩ := split_val_all f ok hfmt ha hla1
  -- 2·hi
  have h2range : 2 * (split f a).1.mag ≤ maxMag f :=
    two_mul_le_maxMag f hp hpt (by omega) (by rw [F.mag_eq_natAbs, hahv]; exact a4) hszm
  obtain ⟨h2f, h2v⟩ := mul_const_spec f hp hpt 2 hah.1 h2range
  have h2v' : (mul f (ofNatExact f 2) (split f a).1).toInt = 2 * vHi f.p (splitBits f) a.toInt := by
    rw [h2v, hahv]
    have : ((2 : Nat) : Int) * vHi f.p (splitBits f) a.toInt = 2 * vHi f.p (splitBits f) a.toInt := by norm_num
    rw [this, rnInt_exact hp h2hi]
  obtain ⟨m1f, m1v⟩ := mul_exact_scaled f hp hpt hah.1 hah.1 (k := (size a.toInt.natAbs - f.p) + (size a.toInt.natAbs - f.p))
    (by rw [hahv]; exact pow_dvd_mul_int dah dah) hq (by rw [hahv]; exact f1) (by rw [hahv]; omega)
  have d2 : ((2 ^ ((size a.toInt.natAbs - f.p) + (size a.toInt.natAbs - f.p)) : Nat) : Int)
      ∣ 2 * vHi f.p (splitBits f) a.toInt * vLo f.p (splitBits f) a.toInt := by
    have e : 2 * vHi f.p (splitBits f) a.toInt * vLo f.p (splitBits f) a.toInt = 2 * (vHi f.p (splitBits f) a.toInt * vLo f.p (splitBits f) a.toInt) := by ring
    rw [e]; exact Dvd.dvd.mul_left (pow_dvd_mul_int dah dal) 2
  obtain ⟨m2f, m2v⟩ := mul_exact_scaled f hp hpt h2f hal.1 (k := (size a.toInt.natAbs - f.p) + (size a.toInt.natAbs - f.p))
    (by rw [h2v', halv]; exact d2) hq (by rw [h2v', halv]; exact h2hl) (by rw [h2v', halv]; omega)
  obtain ⟨m3f, m3v⟩ := mul_exact_scaled f hp hpt hal.1 hal.1 (k := (size a.toInt.natAbs - f.p) + (size a.toInt.natAbs - f.p))
    (by rw [halv]; exact pow_dvd_mul_int dal dal) hq (by rw [halv]; exact f4) (by rw [halv]; omega)
  rw [hahv] at m1v
  rw [h2v', halv] at m2v
  rw [halv] at m3v
  obtain ⟨t1r, t1v⟩ := sub_exact_scaled f hp hpt m1f hpf m1v hpv f5 (by have := natAbs_sub_le3 whh wP; omega)
  obtain ⟨t2r, t2v⟩ := add_exact_scaled f hp hpt t1r.1 m2f t1v m2v f7'
    (by have := natAbs_add_le3 (natAbs_sub_le3 whh wP) w2hl; omega)
  have efin : vHi f.p (splitBits f) a.toInt * vHi f.p (splitBits f) a.toInt - rnInt f.p (a.toInt * a.toInt)
      + 2 * vHi f.p (splitBits f) a.toInt * vLo f.p (splitBits f) a.toInt
      + vLo f.p (splitBits f) a.toInt * vLo f.p (splitBits f) a.toInt = a.toInt * a.toInt - rnInt f.p (a.toInt * a.toInt) := by
    have : a.toInt * a.toInt = (vHi f.p (splitBits f) a.toInt + vLo f.p (splitBits f) a.toInt) * (vHi f.p (splitBits f) a.toInt + vLo f.p (splitBits f) a.toInt) := by
      rw [← sa]
    rw [this]; ring
  obtain ⟨rr, rv⟩ := add_exact_scaled f hp hpt t2r.1 m3f t2v m3v (by rw [efin]; exact f8)
    (by have := natAbs_add_le3 (natAbs_add_le3 (natAbs_sub_le3 whh wP) w2hl) wll; omega)
  rw [efin] at rv
  rw [twoSqr_eq]
  simp only [hpf, if_true]
  refine ⟨hpRep, rr, ?_, hpv⟩
  rw [Int.add_mul, hpv, rv]; ring

/-- `two_sqr` on the integer model for ALL floats. -/
theorem dekker_two_sqr_all {p s : Nat} (hps1 : p ≤ 2 * s) (hps2 : 2 * s ≤ p + 1) (hs2 : s + 2 ≤ p) (hs : 1 ≤ s)
    {a : Int} (ha : IsFloat p a) : rnInt p (a * a) + dekkerSqrR p s a = a * a := by
  have hp : 1 ≤ p := by omega
  obtain ⟨f1, f2, _, f4, f5, _, f7, f8⟩ := dekker_steps_all hps1 hps2 hs2 hs ha ha
  obtain ⟨_, _, sa⟩ := vHi_vLo_bound hs (by omega) ha
  have hhif : IsFloat p (vHi p s a) := by unfold vHi; exact rnInt_isFloat _ _
  have h2hi : IsFloat p (2 * vHi p s a) := isFloat_two_mul hhif
  have h2hl : IsFloat p (2 * vHi p s a * vLo p s a) := by
    have := isFloat_two_mul f2
    have e : 2 * (vHi p s a * vLo p s a) = 2 * vHi p s a * vLo p s a := by ring
    rwa [e] at this
  have f7' : IsFloat p (vHi p s a * vHi p s a - rnInt p (a * a) + 2 * vHi p s a * vLo p s a) := by
    have e : vHi p s a * vHi p s a - rnInt p (a * a) + vHi p s a * vLo p s a + vLo p s a * vHi p s a
        = vHi p s a * vHi p s a - rnInt p (a * a) + 2 * vHi p s a * vLo p s a := by ring
    rwa [e] at f7
  unfold dekkerSqrR
  simp only
  rw [rnInt_exact hp f1, rnInt_exact hp f5, rnInt_exact hp h2hi, rnInt_exact hp h2hl, rnInt_exact hp f7', rnInt_exact hp f4]
  have e : vHi p s a * vHi p s a - rnInt p (a * a) + 2 * vHi p s a * vLo p s a + vLo p s a * vLo p s a
      = a * a - rnInt p (a * a) := by
    have : a * a = (vHi p s a + vLo p s a) * (vHi p s a + vLo p s a) := by rw [← sa]
    rw [this]; ring
  rw [e, rnInt_exact hp f8]
  ring

end UVerif.F64
