/-
  UVerifProofs.Lemmas.F64ProdLift — from the scale-free Dekker product to the model's `mul`, `split`,
  `twoProd`: the model multiplies integer numbers of units and divides by `2^q`; when `2^q` divides the exact
  product ("no underflow") the result times `2^q` is the integer-level rounding.
-/
import UVerifProofs.Lemmas.F64Dekker

namespace UVerif.F64

/-- RN commutes with scaling by a power of two (there is no lower exponent bound in integer units). -/
theorem rnNat_mul_two_pow (p n t : Nat) (hp : 1 ≤ p) : rnNat p (n * 2 ^ t) = rnNat p n * 2 ^ t := by
  by_cases hn : n = 0
  · subst hn; simp [rnNat_zero]
  · rcases Nat.lt_or_ge (size n) p with hlt | hge
    · have h1 : IsFloatN p n := isFloatN_of_lt (size_le.1 (by omega))
      rw [rnNat_exact hp h1, rnNat_exact hp (isFloatN_mul_two_pow h1 t)]
    · rw [rnNat_eq, rnNat_eq, size_mul_two_pow hn t]
      have e : size n + t - p = (size n - p) + t := by omega
      rw [e, Nat.pow_add, rneDiv_scale _ _ _ (Nat.two_pow_pos t)]
      ring

theorem rnInt_mul_two_pow (p : Nat) (z : Int) (t : Nat) (hp : 1 ≤ p) :
    rnInt p (z * ((2 ^ t : Nat) : Int)) = rnInt p z * ((2 ^ t : Nat) : Int) := by
  have hpos : (0 : Int) < ((2 ^ t : Nat) : Int) := by have := Nat.two_pow_pos t; omega
  rcases Int.lt_or_le z 0 with hz | hz
  · have hneg : z * ((2 ^ t : Nat) : Int) < 0 := Int.mul_neg_of_neg_of_pos hz hpos
    rw [rnInt_of_neg hneg, rnInt_of_neg hz, Int.natAbs_mul]
    simp only [Int.natAbs_natCast]
    rw [rnNat_mul_two_pow p _ t hp]
    push_cast; ring
  · have hnn : 0 ≤ z * ((2 ^ t : Nat) : Int) := Int.mul_nonneg hz (Int.le_of_lt hpos)
    rw [rnInt_of_nonneg hnn, rnInt_of_nonneg hz, Int.natAbs_mul]
    simp only [Int.natAbs_natCast]
    rw [rnNat_mul_two_pow p _ t hp]
    push_cast; ring

/-- floats are scale invariant (downwards). -/
theorem isFloat_of_mul_two_pow {p t : Nat} {z : Int} (h : IsFloat p (z * ((2 ^ t : Nat) : Int))) : IsFloat p z := by
  unfold IsFloat at *
  have hn : (z * ((2 ^ t : Nat) : Int)).natAbs = z.natAbs * 2 ^ t := by rw [Int.natAbs_mul]; simp
  rw [hn] at h
  obtain ⟨e, hd, hb⟩ := h
  rcases Nat.lt_or_ge e t with hlt | hge
  · -- the bound alone suffices
    apply isFloatN_of_lt
    have h1 : z.natAbs * 2 ^ t ≤ 2 ^ p * 2 ^ e := by rw [← Nat.pow_add]; exact hb
    have h2 : 2 ^ e < 2 ^ t := Nat.pow_lt_pow_right (by decide) hlt
    by_contra hc
    have h3 : 2 ^ p ≤ z.natAbs := by omega
    have h4 : 2 ^ p * 2 ^ t ≤ z.natAbs * 2 ^ t := Nat.mul_le_mul_right _ h3
    have h5 : 2 ^ p * 2 ^ e < 2 ^ p * 2 ^ t := Nat.mul_lt_mul_of_pos_left h2 (Nat.two_pow_pos p)
    omega
  · refine ⟨e - t, ?_, ?_⟩
    · have e1 : 2 ^ e = 2 ^ (e - t) * 2 ^ t := by rw [← Nat.pow_add]; congr 1; omega
      rw [e1] at hd
      exact (Nat.mul_dvd_mul_iff_right (Nat.two_pow_pos t)).1 hd
    · have e1 : 2 ^ (p + e) = 2 ^ (p + (e - t)) * 2 ^ t := by rw [← Nat.pow_add]; congr 1; omega
      rw [e1] at hb
      exact Nat.le_of_mul_le_mul_right hb (Nat.two_pow_pos t)

/-- the model's `mul` when `2^q` divides the exact product of the unit counts and the quotient is in range:
    finite, and `toInt · 2^q = RN(A·B)` (the scale-free rounding). -/
theorem mul_spec_scaled (f : Fmt) (hp : 1 ≤ f.p) (hpt : f.p ≤ f.top) {a b : F}
    (ha : a.isFinite = true) (hb : b.isFinite = true)
    (hdiv : 2 ^ f.q ∣ a.mag * b.mag) (hbound : a.mag * b.mag ≤ maxMag f * 2 ^ f.q) :
    (mul f a b).isFinite = true ∧
    (mul f a b).toInt * ((2 ^ f.q : Nat) : Int) = rnInt f.p (a.toInt * b.toInt) ∧
    (mul f a b).mag ≤ maxMag f := by
  cases a with
  | fin s n =>
    cases b with
    | fin t m =>
      simp only [F.mag] at hdiv hbound
      obtain ⟨K, hK⟩ := hdiv
      have hK' : n * m = K * 2 ^ f.q := by rw [hK, Nat.mul_comm]
      have hKb : K ≤ maxMag f := by
        rw [hK'] at hbound
        exact Nat.le_of_mul_le_mul_right hbound (Nat.two_pow_pos _)
      have hr : rnNat f.p K ≤ maxMag f := rnNat_le_of_le hp (maxMag_isFloatN f) hKb
      unfold mul
      simp only [roundShr]
      rw [hK', rnShr_mul_two_pow, pack_of_le f hpt _ hr]
      refine ⟨rfl, ?_, by simpa [F.mag] using hr⟩
      -- the exact product as ± K · 2^q
      have hprod : (F.fin s n).toInt * (F.fin t m).toInt = (if (s != t) then -((K : Int)) else (K : Int)) * ((2 ^ f.q : Nat) : Int) := by
        have hnm : ((n : Int) * (m : Int)) = (K : Int) * ((2 ^ f.q : Nat) : Int) := by exact_mod_cast hK'
        cases s <;> cases t <;> simp [F.toInt] <;> exact hnm
      rw [hprod, rnInt_mul_two_pow _ _ _ hp]
      cases hst : (s != t)
      · simp only [Bool.false_eq_true, if_false]
        rw [rnInt_of_nonneg (Int.natCast_nonneg K)]
        simp [F.toInt]
      · simp only [if_true]
        rw [rnInt_neg, rnInt_of_nonneg (Int.natCast_nonneg K)]
        simp [F.toInt]
    | inf t => simp [F.isFinite] at hb
    | nan => simp [F.isFinite] at hb
  | inf s => simp [F.isFinite] at ha
  | nan => simp [F.isFinite] at ha

/-- exact addition in the scaled view: if `x·2^q = X`, `y·2^q = Y`, `X + Y` is a float in range, then
    `add f x y` is exact and `(x + y)·2^q = X + Y`. -/
theorem add_exact_scaled (f : Fmt) (hp : 1 ≤ f.p) (hpt : f.p ≤ f.top) {x y : F} {X Y : Int}
    (hx : x.isFinite = true) (hy : y.isFinite = true)
    (hX : x.toInt * ((2 ^ f.q : Nat) : Int) = X) (hY : y.toInt * ((2 ^ f.q : Nat) : Int) = Y)
    (hf : IsFloat f.p (X + Y)) (hb : (X + Y).natAbs ≤ maxMag f * 2 ^ f.q) :
    (add f x y).Rep f ∧ (add f x y).toInt * ((2 ^ f.q : Nat) : Int) = X + Y := by
  have e : (x.toInt + y.toInt) * ((2 ^ f.q : Nat) : Int) = X + Y := by rw [← hX, ← hY]; ring
  have hfl : IsFloat f.p (x.toInt + y.toInt) := isFloat_of_mul_two_pow (t := f.q) (by rw [e]; exact hf)
  have hbd : (x.toInt + y.toInt).natAbs ≤ maxMag f := by
    rw [← e, Int.natAbs_mul] at hb
    simp only [Int.natAbs_natCast] at hb
    exact Nat.le_of_mul_le_mul_right hb (Nat.two_pow_pos _)
  obtain ⟨h1, h2⟩ := add_exact f hp hpt hx hy hbd hfl
  exact ⟨h1, by rw [h2, e]⟩

theorem sub_exact_scaled (f : Fmt) (hp : 1 ≤ f.p) (hpt : f.p ≤ f.top) {x y : F} {X Y : Int}
    (hx : x.isFinite = true) (hy : y.isFinite = true)
    (hX : x.toInt * ((2 ^ f.q : Nat) : Int) = X) (hY : y.toInt * ((2 ^ f.q : Nat) : Int) = Y)
    (hf : IsFloat f.p (X - Y)) (hb : (X - Y).natAbs ≤ maxMag f * 2 ^ f.q) :
    (sub f x y).Rep f ∧ (sub f x y).toInt * ((2 ^ f.q : Nat) : Int) = X - Y := by
  have e : (x.toInt - y.toInt) * ((2 ^ f.q : Nat) : Int) = X - Y := by rw [← hX, ← hY]; ring
  have hfl : IsFloat f.p (x.toInt - y.toInt) := isFloat_of_mul_two_pow (t := f.q) (by rw [e]; exact hf)
  have hbd : (x.toInt - y.toInt).natAbs ≤ maxMag f := by
    rw [← e, Int.natAbs_mul] at hb
    simp only [Int.natAbs_natCast] at hb
    exact Nat.le_of_mul_le_mul_right hb (Nat.two_pow_pos _)
  obtain ⟨h1, h2⟩ := sub_exact f hp hpt hx hy hbd hfl
  exact ⟨h1, by rw [h2, e]⟩

/-- an exact product in the scaled view. -/
theorem mul_exact_scaled (f : Fmt) (hp : 1 ≤ f.p) (hpt : f.p ≤ f.top) {x y : F} {k : Nat}
    (hx : x.isFinite = true) (hy : y.isFinite = true)
    (hd : ((2 ^ k : Nat) : Int) ∣ x.toInt * y.toInt) (hk : f.q ≤ k)
    (hf : IsFloat f.p (x.toInt * y.toInt)) (hb : (x.toInt * y.toInt).natAbs ≤ maxMag f * 2 ^ f.q) :
    (mul f x y).isFinite = true ∧ (mul f x y).toInt * ((2 ^ f.q : Nat) : Int) = x.toInt * y.toInt := by
  have hmag : x.mag * y.mag = (x.toInt * y.toInt).natAbs := by
    rw [Int.natAbs_mul, F.mag_eq_natAbs, F.mag_eq_natAbs]
  have hdn : 2 ^ f.q ∣ x.mag * y.mag := by
    rw [hmag]
    have := Int.natAbs_dvd_natAbs.2 (pow_dvd_of_le_int hk hd)
    simpa using this
  obtain ⟨h1, h2, _⟩ := mul_spec_scaled f hp hpt hx hy hdn (by rw [hmag]; exact hb)
  exact ⟨h1, by rw [h2, rnInt_exact hp hf]⟩

theorem twoProd_eq (f : Fmt) (a b : F) :
    twoProd f a b =
      (if (mul f a b).isFinite then
        (mul f a b,
          add f (add f (add f (sub f (mul f (split f a).1 (split f b).1) (mul f a b)) (mul f (split f a).1 (split f b).2))
            (mul f (split f a).2 (split f b).1)) (mul f (split f a).2 (split f b).2))
      else (mul f a b, pzero)) := by
  unfold twoProd
  rfl

theorem natAbs_sub_le3 {x y : Int} {A B : Nat} (hx : x.natAbs ≤ A) (hy : y.natAbs ≤ B) : (x - y).natAbs ≤ A + B := by omega
theorem natAbs_add_le3 {x y : Int} {A B : Nat} (hx : x.natAbs ≤ A) (hy : y.natAbs ≤ B) : (x + y).natAbs ≤ A + B := by omega

/-- **model-level `two_prod`** (Dekker with the Veltkamp split, as compiled: no FMA macro) for NORMAL operands,
    without underflow (`q ≤ ea + eb`: the quanta of the operands multiply to at least one unit), both operands on the
    main branch of `split`, and three binades of headroom below overflow:
    `p·2^q = RN(a·b)` and `(p + r)·2^q = a·b` in integer units, i.e. `p = RN(ab)` and `p + r = ab` as real numbers. -/
theorem twoProd_spec (f : Fmt) (ok : f.Ok) (h4 : 4 ≤ f.p) {a b : F} (ha : a.Rep f) (hb : b.Rep f) {ea eb : Nat}
    (ha5 : 2 ^ (f.p - 1 + ea) ≤ a.mag) (ha6 : a.mag < 2 ^ (f.p + ea))
    (hb5 : 2 ^ (f.p - 1 + eb) ≤ b.mag) (hb6 : b.mag < 2 ^ (f.p + eb))
    (hq : f.q ≤ ea + eb)
    (htha : a.mag ≤ maxMag f >>> (splitBits f + 1)) (hthb : b.mag ≤ maxMag f >>> (splitBits f + 1))
    (hrange : 8 * 2 ^ (f.p + ea + (f.p + eb)) ≤ maxMag f * 2 ^ f.q) :
    (twoProd f a b).1.Rep f ∧ (twoProd f a b).2.Rep f ∧
    ((twoProd f a b).1.toInt + (twoProd f a b).2.toInt) * ((2 ^ f.q : Nat) : Int) = a.toInt * b.toInt ∧
    (twoProd f a b).1.toInt * ((2 ^ f.q : Nat) : Int) = rnInt f.p (a.toInt * b.toInt) := by
  have hp : 1 ≤ f.p := by omega
  have hpt := ok.hpt
  have hsb : splitBits f = (f.p + 1) / 2 := rfl
  have hs : 1 ≤ splitBits f := by omega
  have hps1 : f.p ≤ 2 * splitBits f := by omega
  have hps2 : 2 * splitBits f ≤ f.p + 1 := by omega
  have hs2 : splitBits f + 2 ≤ f.p := by omega
  rw [F.mag_eq_natAbs] at ha5 ha6 hb5 hb6
  -- integer-level facts
  obtain ⟨sa, a1, a4, a2, a3⟩ := veltkamp_widths (e := ea) hs (by omega) ha.2 ha5 ha6
  obtain ⟨sb, b1, b4, b2, b3⟩ := veltkamp_widths (e := eb) hs (by omega) hb.2 hb5 hb6
  obtain ⟨f1, f2, f3, f4, f5, f6, f7, f8⟩ :=
    dekker_product hps1 hps2 hs2 sa sb a1 a2 a3 a4 ha5 (Nat.le_of_lt ha6) b1 b2 b3 b4 hb5 (Nat.le_of_lt hb6)
  -- the common magnitude bound W = 2^(2p+E)
  obtain ⟨W, hW⟩ : ∃ W, W = 2 ^ (f.p + ea + (f.p + eb)) := ⟨_, rfl⟩
  rw [← hW] at hrange
  have wab : (a.toInt * b.toInt).natAbs ≤ W := by
    rw [hW, Nat.pow_add]; exact natAbs_mul_le (Nat.le_of_lt ha6) (Nat.le_of_lt hb6)
  have whh : (vHi f.p (splitBits f) a.toInt * vHi f.p (splitBits f) b.toInt).natAbs ≤ W := by
    rw [hW, Nat.pow_add]; exact natAbs_mul_le a4 b4
  have hlo1 : 2 ^ (splitBits f - 1 + ea) ≤ 2 ^ (f.p + ea) := Nat.pow_le_pow_right (by decide) (by omega)
  have hlo2 : 2 ^ (splitBits f - 1 + eb) ≤ 2 ^ (f.p + eb) := Nat.pow_le_pow_right (by decide) (by omega)
  have whl : (vHi f.p (splitBits f) a.toInt * vLo f.p (splitBits f) b.toInt).natAbs ≤ W := by
    rw [hW, Nat.pow_add]; exact natAbs_mul_le a4 (Nat.le_trans b3 hlo2)
  have wlh : (vLo f.p (splitBits f) a.toInt * vHi f.p (splitBits f) b.toInt).natAbs ≤ W := by
    rw [hW, Nat.pow_add]; exact natAbs_mul_le (Nat.le_trans a3 hlo1) b4
  have wll : (vLo f.p (splitBits f) a.toInt * vLo f.p (splitBits f) b.toInt).natAbs ≤ W := by
    rw [hW, Nat.pow_add]; exact natAbs_mul_le (Nat.le_trans a3 hlo1) (Nat.le_trans b3 hlo2)
  have wP : (rnInt f.p (a.toInt * b.toInt)).natAbs ≤ W :=
    rnInt_natAbs_le hp (by rw [hW]; exact isFloatN_two_pow _ _ hp) wab
  -- quanta of the operands
  have da : ((2 ^ ea : Nat) : Int) ∣ a.toInt := by
    rw [sa]; exact Int.dvd_add (pow_dvd_of_le_int (by omega) a1) a2
  have db : ((2 ^ eb : Nat) : Int) ∣ b.toInt := by
    rw [sb]; exact Int.dvd_add (pow_dvd_of_le_int (by omega) b1) b2
  -- 1. p = a * b (rounded)
  have hdab : 2 ^ f.q ∣ a.mag * b.mag := by
    have h := Int.natAbs_dvd_natAbs.2 (pow_dvd_of_le_int hq (pow_dvd_mul_int da db))
    rw [Int.natAbs_mul] at h
    simpa [F.mag_eq_natAbs] using h
  have hbab : a.mag * b.mag ≤ maxMag f * 2 ^ f.q := by
    rw [F.mag_eq_natAbs, F.mag_eq_natAbs, ← Int.natAbs_mul]; omega
  obtain ⟨hpf, hpv, _⟩ := mul_spec_scaled f hp hpt ha.1 hb.1 hdab hbab
  have hpRep : (mul f a b).Rep f := by
    refine ⟨hpf, isFloat_of_mul_two_pow (t := f.q) ?_⟩
    rw [hpv]; exact rnInt_isFloat _ _
  -- 2. the splittings
  obtain ⟨hah, hal, hahv, halv, _, _⟩ := split_spec_val f ok ha htha
  obtain ⟨hbh, hbl, hbhv, hblv, _, _⟩ := split_spec_val f ok hb hthb
  rw [← vHi_eq hp hs ha.2] at hahv halv
  rw [← vLo_eq hp hs ha.2] at halv
  rw [← vHi_eq hp hs hb.2] at hbhv hblv
  rw [← vLo_eq hp hs hb.2] at hblv
  -- 3. the four exact partial products
  obtain ⟨m1f, m1v⟩ := mul_exact_scaled f hp hpt hah.1 hbh.1 (k := ea + splitBits f + (eb + splitBits f))
    (by rw [hahv, hbhv]; exact pow_dvd_mul_int a1 b1) (by omega) (by rw [hahv, hbhv]; exact f1) (by rw [hahv, hbhv]; omega)
  obtain ⟨m2f, m2v⟩ := mul_exact_scaled f hp hpt hah.1 hbl.1 (k := ea + splitBits f + eb)
    (by rw [hahv, hblv]; exact pow_dvd_mul_int a1 b2) (by omega) (by rw [hahv, hblv]; exact f2) (by rw [hahv, hblv]; omega)
  obtain ⟨m3f, m3v⟩ := mul_exact_scaled f hp hpt hal.1 hbh.1 (k := ea + (eb + splitBits f))
    (by rw [halv, hbhv]; exact pow_dvd_mul_int a2 b1) (by omega) (by rw [halv, hbhv]; exact f3) (by rw [halv, hbhv]; omega)
  obtain ⟨m4f, m4v⟩ := mul_exact_scaled f hp hpt hal.1 hbl.1 (k := ea + eb)
    (by rw [halv, hblv]; exact pow_dvd_mul_int a2 b2) (by omega) (by rw [halv, hblv]; exact f4) (by rw [halv, hblv]; omega)
  rw [hahv, hbhv] at m1v
  rw [hahv, hblv] at m2v
  rw [halv, hbhv] at m3v
  rw [halv, hblv] at m4v
  -- 4. the four exact additions
  obtain ⟨t1r, t1v⟩ := sub_exact_scaled f hp hpt m1f hpf m1v hpv f5 (by have := natAbs_sub_le3 whh wP; omega)
  obtain ⟨t2r, t2v⟩ := add_exact_scaled f hp hpt t1r.1 m2f t1v m2v f6
    (by have := natAbs_add_le3 (natAbs_sub_le3 whh wP) whl; omega)
  obtain ⟨t3r, t3v⟩ := add_exact_scaled f hp hpt t2r.1 m3f t2v m3v f7
    (by have := natAbs_add_le3 (natAbs_add_le3 (natAbs_sub_le3 whh wP) whl) wlh; omega)
  have efin : vHi f.p (splitBits f) a.toInt * vHi f.p (splitBits f) b.toInt - rnInt f.p (a.toInt * b.toInt)
      + vHi f.p (splitBits f) a.toInt * vLo f.p (splitBits f) b.toInt + vLo f.p (splitBits f) a.toInt * vHi f.p (splitBits f) b.toInt
      + vLo f.p (splitBits f) a.toInt * vLo f.p (splitBits f) b.toInt = a.toInt * b.toInt - rnInt f.p (a.toInt * b.toInt) := by
    have : a.toInt * b.toInt = (vHi f.p (splitBits f) a.toInt + vLo f.p (splitBits f) a.toInt) * (vHi f.p (splitBits f) b.toInt + vLo f.p (splitBits f) b.toInt) := by
      rw [← sa, ← sb]
    rw [this]; ring
  obtain ⟨rr, rv⟩ := add_exact_scaled f hp hpt t3r.1 m4f t3v m4v (by rw [efin]; exact f8)
    (by have := natAbs_add_le3 (natAbs_add_le3 (natAbs_add_le3 (natAbs_sub_le3 whh wP) whl) wlh) wll; omega)
  rw [efin] at rv
  rw [twoProd_eq]
  simp only [hpf, if_true]
  refine ⟨hpRep, rr, ?_, hpv⟩
  rw [Int.add_mul, hpv, rv]; ring

theorem twoSqr_eq (f : Fmt) (a : F) :
    twoSqr f a =
      (if (mul f a a).isFinite then
        (mul f a a,
          add f (add f (sub f (mul f (split f a).1 (split f a).1) (mul f a a))
            (mul f (mul f (ofNatExact f 2) (split f a).1) (split f a).2)) (mul f (split f a).2 (split f a).2))
      else (mul f a a, pzero)) := by
  unfold twoSqr
  rfl

/-- **model-level `two_sqr`** for a NORMAL operand, without underflow, main branch of `split`. -/
theorem twoSqr_spec (f : Fmt) (ok : f.Ok) (h4 : 4 ≤ f.p) {a : F} (ha : a.Rep f) {ea : Nat}
    (ha5 : 2 ^ (f.p - 1 + ea) ≤ a.mag) (ha6 : a.mag < 2 ^ (f.p + ea))
    (hq : f.q ≤ ea + ea)
    (htha : a.mag ≤ maxMag f >>> (splitBits f + 1))
    (hrange : 8 * 2 ^ (f.p + ea + (f.p + ea)) ≤ maxMag f * 2 ^ f.q) :
    (twoSqr f a).1.Rep f ∧ (twoSqr f a).2.Rep f ∧
    ((twoSqr f a).1.toInt + (twoSqr f a).2.toInt) * ((2 ^ f.q : Nat) : Int) = a.toInt * a.toInt ∧
    (twoSqr f a).1.toInt * ((2 ^ f.q : Nat) : Int) = rnInt f.p (a.toInt * a.toInt) := by
  have hp : 1 ≤ f.p := by omega
  have hpt := ok.hpt
  have hsb : splitBits f = (f.p + 1) / 2 := rfl
  have hs : 1 ≤ splitBits f := by omega
  have hs2' : 2 ≤ splitBits f := by omega
  have hps1 : f.p ≤ 2 * splitBits f := by omega
  have hps2 : 2 * splitBits f ≤ f.p + 1 := by omega
  have hs2 : splitBits f + 2 ≤ f.p := by omega
  have ha5m := ha5
  rw [F.mag_eq_natAbs] at ha5 ha6
  obtain ⟨sa, a1, a4, a2, a3⟩ := veltkamp_widths (e := ea) hs (by omega) ha.2 ha5 ha6
  obtain ⟨f1, f2, _, f4, f5, _, f7, f8⟩ :=
    dekker_product hps1 hps2 hs2 sa sa a1 a2 a3 a4 ha5 (Nat.le_of_lt ha6) a1 a2 a3 a4 ha5 (Nat.le_of_lt ha6)
  have hhif : IsFloat f.p (vHi f.p (splitBits f) a.toInt) := by unfold vHi; exact rnInt_isFloat _ _
  have h2hi : IsFloat f.p (2 * vHi f.p (splitBits f) a.toInt) := isFloat_two_mul hhif
  have h2hl : IsFloat f.p (2 * vHi f.p (splitBits f) a.toInt * vLo f.p (splitBits f) a.toInt) := by
    have := isFloat_two_mul f2
    have e : 2 * (vHi f.p (splitBits f) a.toInt * vLo f.p (splitBits f) a.toInt) = 2 * vHi f.p (splitBits f) a.toInt * vLo f.p (splitBits f) a.toInt := by ring
    rwa [e] at this
  have f7' : IsFloat f.p (vHi f.p (splitBits f) a.toInt * vHi f.p (splitBits f) a.toInt - rnInt f.p (a.toInt * a.toInt)
      + 2 * vHi f.p (splitBits f) a.toInt * vLo f.p (splitBits f) a.toInt) := by
    have e : vHi f.p (splitBits f) a.toInt * vHi f.p (splitBits f) a.toInt - rnInt f.p (a.toInt * a.toInt)
        + vHi f.p (splitBits f) a.toInt * vLo f.p (splitBits f) a.toInt + vLo f.p (splitBits f) a.toInt * vHi f.p (splitBits f) a.toInt
        = vHi f.p (splitBits f) a.toInt * vHi f.p (splitBits f) a.toInt - rnInt f.p (a.toInt * a.toInt)
          + 2 * vHi f.p (splitBits f) a.toInt * vLo f.p (splitBits f) a.toInt := by ring
    rwa [e] at f7
  obtain ⟨W, hW⟩ : ∃ W, W = 2 ^ (f.p + ea + (f.p + ea)) := ⟨_, rfl⟩
  rw [← hW] at hrange
  have wab : (a.toInt * a.toInt).natAbs ≤ W := by
    rw [hW, Nat.pow_add]; exact natAbs_mul_le (Nat.le_of_lt ha6) (Nat.le_of_lt ha6)
  have whh : (vHi f.p (splitBits f) a.toInt * vHi f.p (splitBits f) a.toInt).natAbs ≤ W := by
    rw [hW, Nat.pow_add]; exact natAbs_mul_le a4 a4
  have hlo1 : 2 ^ (splitBits f - 1 + ea) ≤ 2 ^ (f.p + ea) := Nat.pow_le_pow_right (by decide) (by omega)
  have whl : (vHi f.p (splitBits f) a.toInt * vLo f.p (splitBits f) a.toInt).natAbs ≤ W := by
    rw [hW, Nat.pow_add]; exact natAbs_mul_le a4 (Nat.le_trans a3 hlo1)
  have w2hl : (2 * vHi f.p (splitBits f) a.toInt * vLo f.p (splitBits f) a.toInt).natAbs ≤ 2 * W := by
    have e : 2 * vHi f.p (splitBits f) a.toInt * vLo f.p (splitBits f) a.toInt = 2 * (vHi f.p (splitBits f) a.toInt * vLo f.p (splitBits f) a.toInt) := by ring
    rw [e]; omega
  have wll : (vLo f.p (splitBits f) a.toInt * vLo f.p (splitBits f) a.toInt).natAbs ≤ W := by
    rw [hW, Nat.pow_add]; exact natAbs_mul_le (Nat.le_trans a3 hlo1) (Nat.le_trans a3 hlo1)
  have wP : (rnInt f.p (a.toInt * a.toInt)).natAbs ≤ W :=
    rnInt_natAbs_le hp (by rw [hW]; exact isFloatN_two_pow _ _ hp) wab
  have da : ((2 ^ ea : Nat) : Int) ∣ a.toInt := by
    rw [sa]; exact Int.dvd_add (pow_dvd_of_le_int (by omega) a1) a2
  have hdab : 2 ^ f.q ∣ a.mag * a.mag := by
    have h := Int.natAbs_dvd_natAbs.2 (pow_dvd_of_le_int hq (pow_dvd_mul_int da da))
    rw [Int.natAbs_mul] at h
    simpa [F.mag_eq_natAbs] using h
  have hbab : a.mag * a.mag ≤ maxMag f * 2 ^ f.q := by
    rw [F.mag_eq_natAbs, ← Int.natAbs_mul]; omega
  obtain ⟨hpf, hpv, _⟩ := mul_spec_scaled f hp hpt ha.1 ha.1 hdab hbab
  have hpRep : (mul f a a).Rep f := by
    refine ⟨hpf, isFloat_of_mul_two_pow (t := f.q) ?_⟩
    rw [hpv]; exact rnInt_isFloat _ _
  obtain ⟨hah, hal, hahv, halv, hahm, _⟩ := split_spec_val f ok ha htha
  rw [← vHi_eq hp hs ha.2] at hahv halv
  rw [← vLo_eq hp hs ha.2] at halv
  -- 2·hi is exact and in range: 2|hi| ≤ 2^(p+ea+1) ≤ 4|a| ≤ (2^s + 1)|a| ≤ maxMag
  have h2range : 2 * (split f a).1.mag ≤ maxMag f := by
    rw [F.mag_eq_natAbs, hahv]
    have hC : (2 ^ splitBits f + 1) * a.mag ≤ maxMag f := by
      rw [Nat.shiftRight_eq_div_pow] at htha
      have h1 : (2 ^ splitBits f + 1) ≤ 2 ^ (splitBits f + 1) := by
        rw [Nat.pow_succ]; have := Nat.two_pow_pos (splitBits f); omega
      calc (2 ^ splitBits f + 1) * a.mag ≤ 2 ^ (splitBits f + 1) * (maxMag f / 2 ^ (splitBits f + 1)) :=
            Nat.mul_le_mul h1 htha
        _ ≤ maxMag f := by rw [Nat.mul_comm]; exact Nat.div_mul_le_self _ _
    have h4le : 4 ≤ 2 ^ splitBits f := by
      have : 2 ^ 2 ≤ 2 ^ splitBits f := Nat.pow_le_pow_right (by decide) hs2'
      simpa using this
    have h4a : 4 * a.mag ≤ (2 ^ splitBits f + 1) * a.mag := Nat.mul_le_mul_right _ (by omega)
    have hpw : 2 ^ (f.p + ea) = 2 * 2 ^ (f.p - 1 + ea) := by
      have : f.p + ea = (f.p - 1 + ea) + 1 := by omega
      rw [this, Nat.pow_succ]; ring
    omega
  obtain ⟨h2f, h2v⟩ := mul_const_spec f hp hpt 2 hah.1 h2range
  have h2v' : (mul f (ofNatExact f 2) (split f a).1).toInt = 2 * vHi f.p (splitBits f) a.toInt := by
    rw [h2v, hahv]
    have : ((2 : Nat) : Int) * vHi f.p (splitBits f) a.toInt = 2 * vHi f.p (splitBits f) a.toInt := by norm_num
    rw [this, rnInt_exact hp h2hi]
  -- the exact products
  obtain ⟨m1f, m1v⟩ := mul_exact_scaled f hp hpt hah.1 hah.1 (k := ea + splitBits f + (ea + splitBits f))
    (by rw [hahv]; exact pow_dvd_mul_int a1 a1) (by omega) (by rw [hahv]; exact f1) (by rw [hahv]; omega)
  have d2 : ((2 ^ (ea + splitBits f + ea) : Nat) : Int) ∣ 2 * vHi f.p (splitBits f) a.toInt * vLo f.p (splitBits f) a.toInt := by
    have e : 2 * vHi f.p (splitBits f) a.toInt * vLo f.p (splitBits f) a.toInt = 2 * (vHi f.p (splitBits f) a.toInt * vLo f.p (splitBits f) a.toInt) := by ring
    rw [e]; exact Dvd.dvd.mul_left (pow_dvd_mul_int a1 a2) 2
  obtain ⟨m2f, m2v⟩ := mul_exact_scaled f hp hpt h2f hal.1 (k := ea + splitBits f + ea)
    (by rw [h2v', halv]; exact d2) (by omega) (by rw [h2v', halv]; exact h2hl) (by rw [h2v', halv]; omega)
  obtain ⟨m3f, m3v⟩ := mul_exact_scaled f hp hpt hal.1 hal.1 (k := ea + ea)
    (by rw [halv]; exact pow_dvd_mul_int a2 a2) (by omega) (by rw [halv]; exact f4) (by rw [halv]; omega)
  rw [hahv] at m1v
  rw [h2v', halv] at m2v
  rw [halv] at m3v
  obtain ⟨t1r, t1v⟩ := sub_exact_scaled f hp hpt m1f hpf m1v hpv f5 (by have := natAbs_sub_le3 whh wP; omega)
  obtain ⟨t2r, t2v⟩ := add_exact_scaled f hp hpt t1r.1 m2f t1v m2v f7'
    (by have := natAbs_add_le3 (natAbs_sub_le3 whh wP) w2hl; omega)
  have efin : vHi f.p (splitBits f) a.toInt * vHi f.p (splitBits f) a.toInt - rnInt f.p (a.toInt * a.toInt)
      + 2 * vHi f.p (splitBits f) a.toInt * vLo f.p (splitBits f) a.toInt
      + vLo f.p (splitBits f) a.toInt * vLo f.p (splitBits f) a.toInt = a.toInt * a.toInt - rnInt f.p (a.toInt * a.toInt) := by
    have : a.toInt * a.toInt = (vHi f.p (splitBits f) a.toInt + vLo f.p (splitBits f) a.toInt) * (vHi f.p (splitBits f) a.toInt + vLo f.p (splitBits f) a.toInt) := by
      rw [← sa]
    rw [this]; ring
  obtain ⟨rr, rv⟩ := add_exact_scaled f hp hpt t2r.1 m3f t2v m3v (by rw [efin]; exact f8)
    (by have := natAbs_add_le3 (natAbs_add_le3 (natAbs_sub_le3 whh wP) w2hl) wll; omega)
  rw [efin] at rv
  rw [twoSqr_eq]
  simp only [hpf, if_true]
  refine ⟨hpRep, rr, ?_, hpv⟩
  rw [Int.add_mul, hpv, rv]; ring

end UVerif.F64
