/-
  UVerifProofs.Lemmas.F64Round — rounding lemmas for the generic-precision model of UVerif.Model.F64.

  Floats are integers (multiples of the smallest subnormal); precision `p` is arbitrary.
  * `size`      bit length
  * `rneShr`    round-half-even of `x / 2^k`: within half a unit, nearest among multiples, monotone, exact
  * `rnNat`     RN to `p` significant bits: image is a float, nearest among floats, monotone, exact on floats
  * `rnInt`     signed version, same lemmas; `IsFloat p z`
-/
import UVerif.Model.F64
import Mathlib.Tactic.Linarith
import Mathlib.Tactic.Ring

namespace UVerif.F64

/-! ### size -/

theorem size_zero : size 0 = 0 := by simp [size]

theorem size_of_ne_zero {n : Nat} (h : n ≠ 0) : size n = n.log2 + 1 := by simp [size, h]

theorem lt_two_pow_size (n : Nat) : n < 2 ^ size n := by
  by_cases h : n = 0
  · subst h; simp [size]
  · rw [size_of_ne_zero h]; exact Nat.lt_log2_self

theorem two_pow_size_le {n : Nat} (h : n ≠ 0) : 2 ^ (size n - 1) ≤ n := by
  rw [size_of_ne_zero h]; simpa using Nat.log2_self_le h

theorem size_le {n k : Nat} : size n ≤ k ↔ n < 2 ^ k := by
  constructor
  · intro h
    exact Nat.lt_of_lt_of_le (lt_two_pow_size n) (Nat.pow_le_pow_right (by decide) h)
  · intro h
    by_cases h0 : n = 0
    · subst h0; simp [size]
    · rw [size_of_ne_zero h0]
      exact (Nat.log2_lt h0).2 h

theorem lt_size {n k : Nat} : k < size n ↔ 2 ^ k ≤ n := by
  rw [← Nat.not_le, size_le, Nat.not_lt]

theorem size_mono {a b : Nat} (h : a ≤ b) : size a ≤ size b :=
  size_le.2 (Nat.lt_of_le_of_lt h (lt_two_pow_size b))

theorem size_two_pow (k : Nat) : size (2 ^ k) = k + 1 := by
  apply Nat.le_antisymm
  · exact size_le.2 (Nat.pow_lt_pow_right (by decide) (Nat.lt_succ_self k))
  · exact lt_size.2 (Nat.le_refl _)

/-! ### round-half-even division by a positive `g` -/

/-- `rneShr` with the power of two abstracted. -/
def rneDiv (x g : Nat) : Nat :=
  let q := x / g
  let r := x % g
  if 2 * r < g then q else if 2 * r > g then q + 1 else if q % 2 = 0 then q else q + 1

theorem rneShr_eq_rneDiv (x k : Nat) : rneShr x k = rneDiv x (2 ^ k) := by
  simp [rneShr, rneDiv, Nat.shiftRight_eq_div_pow]

/-- the rounded quotient is `q` or `q + 1`, with the half-unit conditions. -/
theorem rneDiv_cases (x g : Nat) :
    (rneDiv x g = x / g ∧ 2 * (x % g) ≤ g) ∨ (rneDiv x g = x / g + 1 ∧ g ≤ 2 * (x % g)) := by
  unfold rneDiv
  simp only
  split
  · left; exact ⟨rfl, by omega⟩
  · split
    · right; exact ⟨rfl, by omega⟩
    · split
      · left; exact ⟨rfl, by omega⟩
      · right; exact ⟨rfl, by omega⟩

/-- within half a unit: `|rneDiv x g · g − x| ≤ g/2`. -/
theorem rneDiv_close (x g : Nat) (hg : 0 < g) :
    2 * (rneDiv x g * g) ≤ 2 * x + g ∧ 2 * x ≤ 2 * (rneDiv x g * g) + g := by
  have hx := Nat.div_add_mod x g
  have hr := Nat.mod_lt x hg
  rcases rneDiv_cases x g with ⟨h, h2⟩ | ⟨h, h2⟩
  · rw [h]
    have : x / g * g = g * (x / g) := Nat.mul_comm _ _
    omega
  · rw [h]
    have : (x / g + 1) * g = g * (x / g) + g := by ring
    omega

/-- nearest among the multiples of `g` (stated without subtraction):
    for every `j`, the distance from `x` to `rneDiv x g · g` is at most the distance to `j · g`. -/
theorem rneDiv_nearest (x g j : Nat) (hg : 0 < g) :
    (rneDiv x g * g ≤ x → (j * g ≤ x → j * g ≤ rneDiv x g * g) ∧ (x ≤ j * g → 2 * x ≤ rneDiv x g * g + j * g)) ∧
    (x ≤ rneDiv x g * g → (x ≤ j * g → rneDiv x g * g ≤ j * g) ∧ (j * g ≤ x → rneDiv x g * g + j * g ≤ 2 * x)) := by
  have hx := Nat.div_add_mod x g
  have hr := Nat.mod_lt x hg
  have hqg : x / g * g = g * (x / g) := Nat.mul_comm _ _
  have hq1g : (x / g + 1) * g = g * (x / g) + g := by ring
  -- position of j relative to q
  have hj : j ≤ x / g ∨ x / g + 1 ≤ j := by omega
  have hjle : j ≤ x / g → j * g ≤ x / g * g := fun h => Nat.mul_le_mul_right g h
  have hjge : x / g + 1 ≤ j → (x / g + 1) * g ≤ j * g := fun h => Nat.mul_le_mul_right g h
  rcases rneDiv_cases x g with ⟨h, h2⟩ | ⟨h, h2⟩
  · rw [h]
    rcases hj with hj | hj
    · have := hjle hj
      refine ⟨fun _ => ⟨fun _ => by omega, fun _ => by omega⟩, fun _ => ⟨fun _ => by omega, fun _ => by omega⟩⟩
    · have := hjge hj
      refine ⟨fun _ => ⟨fun _ => by omega, fun _ => by omega⟩, fun _ => ⟨fun _ => by omega, fun _ => by omega⟩⟩
  · rw [h]
    rcases hj with hj | hj
    · have := hjle hj
      refine ⟨fun _ => ⟨fun _ => by omega, fun _ => by omega⟩, fun _ => ⟨fun _ => by omega, fun _ => by omega⟩⟩
    · have := hjge hj
      refine ⟨fun _ => ⟨fun _ => by omega, fun _ => by omega⟩, fun _ => ⟨fun _ => by omega, fun _ => by omega⟩⟩

/-- exact on multiples. -/
theorem rneDiv_mul (j g : Nat) (hg : 0 < g) : rneDiv (j * g) g = j := by
  unfold rneDiv
  simp [Nat.mul_mod_left, Nat.mul_div_cancel _ hg, hg]

theorem rneDiv_of_dvd {x g : Nat} (hg : 0 < g) (h : g ∣ x) : rneDiv x g * g = x := by
  obtain ⟨j, rfl⟩ := h
  rw [Nat.mul_comm g j, rneDiv_mul j g hg]

/-- monotone. -/
theorem rneDiv_mono {x y g : Nat} (hg : 0 < g) (h : x ≤ y) : rneDiv x g ≤ rneDiv y g := by
  have hx := Nat.div_add_mod x g
  have hy := Nat.div_add_mod y g
  have hrx := Nat.mod_lt x hg
  have hry := Nat.mod_lt y hg
  have hq : x / g ≤ y / g := Nat.div_le_div_right h
  rcases Nat.lt_or_ge (x / g) (y / g) with hlt | hge
  · -- different quotients: rne x ≤ q_x + 1 ≤ q_y ≤ rne y
    rcases rneDiv_cases x g with ⟨h1, _⟩ | ⟨h1, _⟩ <;> rcases rneDiv_cases y g with ⟨h2, _⟩ | ⟨h2, _⟩ <;> omega
  · -- same quotient: compare remainders
    have heq : x / g = y / g := Nat.le_antisymm hq hge
    have hrle : x % g ≤ y % g := by
      have : g * (x / g) = g * (y / g) := by rw [heq]
      omega
    have hlow : x / g ≤ rneDiv y g := by
      rcases rneDiv_cases y g with ⟨h2, _⟩ | ⟨h2, _⟩ <;> omega
    by_cases c1 : 2 * (x % g) < g
    · have : rneDiv x g = x / g := by unfold rneDiv; simp [c1]
      omega
    · by_cases c2 : 2 * (x % g) > g
      · have hx' : rneDiv x g = x / g + 1 := by unfold rneDiv; simp [c1, c2]
        have c1y : ¬ 2 * (y % g) < g := by omega
        have c2y : 2 * (y % g) > g := by omega
        have hy' : rneDiv y g = y / g + 1 := by unfold rneDiv; simp [c1y, c2y]
        omega
      · -- tie at x
        by_cases c3 : 2 * (y % g) > g
        · have c1y : ¬ 2 * (y % g) < g := by omega
          have hy' : rneDiv y g = y / g + 1 := by unfold rneDiv; simp [c1y, c3]
          rcases rneDiv_cases x g with ⟨h1, _⟩ | ⟨h1, _⟩ <;> omega
        · have hrr : x % g = y % g := by omega
          have : rneDiv x g = rneDiv y g := by unfold rneDiv; simp only; rw [heq, hrr]
          omega

/-! ### RN on natural numbers -/

/-- `n` has at most `p` significant bits: `n = m · 2^e` with `m ≤ 2^p`. -/
def IsFloatN (p n : Nat) : Prop := ∃ e, 2 ^ e ∣ n ∧ n ≤ 2 ^ (p + e)

theorem rnNat_eq (p n : Nat) : rnNat p n = rneDiv n (2 ^ (size n - p)) * 2 ^ (size n - p) := by
  simp [rnNat, rnShr, rneShr_eq_rneDiv]

theorem isFloatN_zero (p : Nat) : IsFloatN p 0 := ⟨0, Nat.dvd_zero _, Nat.zero_le _⟩

theorem isFloatN_of_lt {p n : Nat} (h : n < 2 ^ p) : IsFloatN p n :=
  ⟨0, by simp, by simpa using Nat.le_of_lt h⟩

theorem isFloatN_two_pow (p k : Nat) (hp : 1 ≤ p) : IsFloatN p (2 ^ k) := by
  refine ⟨k, Nat.dvd_refl _, Nat.pow_le_pow_right (by decide) (by omega)⟩

theorem isFloatN_mul_two_pow {p n : Nat} (h : IsFloatN p n) (k : Nat) : IsFloatN p (n * 2 ^ k) := by
  obtain ⟨e, hd, hb⟩ := h
  refine ⟨e + k, ?_, ?_⟩
  · rw [Nat.pow_add]; exact Nat.mul_dvd_mul hd (Nat.dvd_refl _)
  · rw [← Nat.add_assoc, Nat.pow_add]; exact Nat.mul_le_mul_right _ hb

/-- canonical exponent: a float is a multiple of the quantum of its own binade. -/
theorem isFloatN_canon {p n : Nat} (hp : 1 ≤ p) (h : IsFloatN p n) : 2 ^ (size n - p) ∣ n := by
  obtain ⟨e, hd, hb⟩ := h
  rcases Nat.lt_or_ge n (2 ^ (p + e)) with hlt | hge
  · have : size n ≤ p + e := size_le.2 hlt
    exact Nat.dvd_trans (Nat.pow_dvd_pow 2 (by omega)) hd
  · have hn : n = 2 ^ (p + e) := Nat.le_antisymm hb hge
    rw [hn, size_two_pow]
    exact Nat.pow_dvd_pow 2 (by omega)

theorem isFloatN_of_canon {p n : Nat} (h : 2 ^ (size n - p) ∣ n) : IsFloatN p n := by
  refine ⟨size n - p, h, ?_⟩
  exact Nat.le_of_lt (Nat.lt_of_lt_of_le (lt_two_pow_size n) (Nat.pow_le_pow_right (by decide) (by omega)))

theorem isFloatN_iff {p n : Nat} (hp : 1 ≤ p) : IsFloatN p n ↔ 2 ^ (size n - p) ∣ n :=
  ⟨isFloatN_canon hp, isFloatN_of_canon⟩

/-- RN is exact on floats. -/
theorem rnNat_exact {p n : Nat} (hp : 1 ≤ p) (h : IsFloatN p n) : rnNat p n = n := by
  rw [rnNat_eq]
  exact rneDiv_of_dvd (Nat.two_pow_pos _) (isFloatN_canon hp h)

/-- `n ≤ 2^(p + (size n − p))`. -/
theorem le_two_pow_quantum (p n : Nat) : n ≤ 2 ^ (p + (size n - p)) :=
  Nat.le_of_lt (Nat.lt_of_lt_of_le (lt_two_pow_size n) (Nat.pow_le_pow_right (by decide) (by omega)))

/-- the rounded significand is at most `2^p`. -/
theorem rneDiv_le_two_pow (p n : Nat) : rneDiv n (2 ^ (size n - p)) ≤ 2 ^ p := by
  have h := le_two_pow_quantum p n
  have hm := rneDiv_mono (Nat.two_pow_pos (size n - p)) h
  rw [Nat.pow_add, rneDiv_mul _ _ (Nat.two_pow_pos _)] at hm
  exact hm

/-- the image of RN is a float. -/
theorem rnNat_isFloat (p n : Nat) : IsFloatN p (rnNat p n) := by
  rw [rnNat_eq]
  refine ⟨size n - p, Nat.dvd_mul_left _ _, ?_⟩
  rw [Nat.pow_add]
  exact Nat.mul_le_mul_right _ (rneDiv_le_two_pow p n)

/-- within half an ulp. -/
theorem rnNat_close (p n : Nat) :
    2 * rnNat p n ≤ 2 * n + 2 ^ (size n - p) ∧ 2 * n ≤ 2 * rnNat p n + 2 ^ (size n - p) := by
  rw [rnNat_eq]
  exact rneDiv_close n _ (Nat.two_pow_pos _)

/-- multiples of a power of two stay multiples. -/
theorem rnNat_dvd {p n e : Nat} (h : 2 ^ e ∣ n) : 2 ^ e ∣ rnNat p n := by
  rw [rnNat_eq]
  rcases Nat.le_total e (size n - p) with hle | hge
  · exact Nat.dvd_trans (Nat.pow_dvd_pow 2 hle) (Nat.dvd_mul_left _ _)
  · rw [rneDiv_of_dvd (Nat.two_pow_pos _) (Nat.dvd_trans (Nat.pow_dvd_pow 2 hge) h)]
    exact h

/-- monotone. -/
theorem rnNat_mono {p a b : Nat} (hp : 1 ≤ p) (h : a ≤ b) : rnNat p a ≤ rnNat p b := by
  have hs : size a ≤ size b := size_mono h
  rcases Nat.lt_or_ge (size a - p) (size b - p) with hlt | hge
  · -- different quanta: rn a ≤ 2^(size a) ≤ 2^(size b - 1) ≤ rn b
    have hsab : size a < size b := by omega
    have h1 : rnNat p a ≤ 2 ^ (size a) := by
      rcases Nat.lt_or_ge p (size a) with hpa | hpa
      · rw [rnNat_eq]
        have := Nat.mul_le_mul_right (2 ^ (size a - p)) (rneDiv_le_two_pow p a)
        rw [← Nat.pow_add] at this
        have e : p + (size a - p) = size a := by omega
        rw [e] at this; exact this
      · have : a < 2 ^ p := size_le.1 hpa
        rw [rnNat_exact hp (isFloatN_of_lt this)]
        exact Nat.le_of_lt (lt_two_pow_size a)
    have hb0 : b ≠ 0 := by
      intro hb; subst hb; simp [size_zero] at hsab
    have h2 : 2 ^ (size b - 1) ≤ rnNat p b := by
      have hb1 : 2 ^ (size b - 1) ≤ b := two_pow_size_le hb0
      have := rnNat_mono_aux hp hb1
      exact this
    calc rnNat p a ≤ 2 ^ size a := h1
      _ ≤ 2 ^ (size b - 1) := Nat.pow_le_pow_right (by decide) (by omega)
      _ ≤ rnNat p b := h2
  · have heq : size a - p = size b - p := by omega
    rw [rnNat_eq, rnNat_eq, heq]
    exact Nat.mul_le_mul_right _ (rneDiv_mono (Nat.two_pow_pos _) h)
where
  /-- a power of two below `b` stays below `RN b`. -/
  rnNat_mono_aux {p b : Nat} (hp : 1 ≤ p) (h : 2 ^ (size b - 1) ≤ b) : 2 ^ (size b - 1) ≤ rnNat p b := by
    rw [rnNat_eq]
    rcases Nat.lt_or_ge p (size b) with hpb | hpb
    · -- 2^(size b - 1) = 2^(p-1) * g
      have e : size b - 1 = (p - 1) + (size b - p) := by omega
      have hm := rneDiv_mono (Nat.two_pow_pos (size b - p)) h
      rw [e, Nat.pow_add, rneDiv_mul _ _ (Nat.two_pow_pos _)] at hm
      rw [e, Nat.pow_add]
      exact Nat.mul_le_mul_right _ hm
    · have e : size b - p = 0 := by omega
      rw [e]
      simp only [Nat.pow_zero, Nat.mul_one]
      have : rneDiv b 1 = b := by
        have := rneDiv_mul b 1 (by decide); simpa using this
      rw [this]; exact h

theorem rnNat_le_of_le {p n f : Nat} (hp : 1 ≤ p) (hf : IsFloatN p f) (h : n ≤ f) : rnNat p n ≤ f := by
  have := rnNat_mono hp h
  rwa [rnNat_exact hp hf] at this

theorem rnNat_ge_of_ge {p n f : Nat} (hp : 1 ≤ p) (hf : IsFloatN p f) (h : f ≤ n) : f ≤ rnNat p n := by
  have := rnNat_mono hp h
  rwa [rnNat_exact hp hf] at this

/-- RN is a nearest float: no float is closer to `n` than `rnNat p n`. -/
theorem rnNat_nearest {p n f : Nat} (hp : 1 ≤ p) (hf : IsFloatN p f) :
    ((n : Int) - (rnNat p n : Nat)).natAbs ≤ ((n : Int) - (f : Nat)).natAbs := by
  rcases Nat.lt_or_ge p (size n) with hk | hk
  · -- a genuine rounding: size n = p + k, k > 0
    have hn0 : n ≠ 0 := by intro h; subst h; simp [size_zero] at hk
    have hlow : 2 ^ (size n - 1) ≤ n := two_pow_size_le hn0
    have hg : 0 < 2 ^ (size n - p) := Nat.two_pow_pos _
    rw [rnNat_eq]
    rcases Nat.lt_or_ge (size f) (size n) with hsf | hsf
    · -- f lies below the binade of n: compare with the lower end 2^(size n - 1) = 2^(p-1) * g
      have hf1 : f < 2 ^ (size n - 1) := size_le.1 (by omega)
      have e : size n - 1 = (p - 1) + (size n - p) := by omega
      have hj := rneDiv_nearest n (2 ^ (size n - p)) (2 ^ (p - 1)) hg
      rw [← Nat.pow_add, ← e] at hj
      omega
    · -- f is a multiple of the quantum of n
      have hd : 2 ^ (size n - p) ∣ f :=
        Nat.dvd_trans (Nat.pow_dvd_pow 2 (by omega)) (isFloatN_canon hp hf)
      obtain ⟨j, hj⟩ := hd
      have hj' : f = j * 2 ^ (size n - p) := by rw [hj, Nat.mul_comm]
      have hnr := rneDiv_nearest n (2 ^ (size n - p)) j hg
      rw [← hj'] at hnr
      omega
  · have : n < 2 ^ p := size_le.1 hk
    rw [rnNat_exact hp (isFloatN_of_lt this)]
    simp

/-! ### signed RN -/

/-- the integer `z` (in units of the smallest subnormal) is a float of precision `p`. -/
def IsFloat (p : Nat) (z : Int) : Prop := IsFloatN p z.natAbs

theorem isFloat_zero (p : Nat) : IsFloat p 0 := isFloatN_zero p

theorem isFloat_neg {p : Nat} {z : Int} (h : IsFloat p z) : IsFloat p (-z) := by
  unfold IsFloat at *; rwa [Int.natAbs_neg]

theorem isFloat_neg_iff {p : Nat} {z : Int} : IsFloat p (-z) ↔ IsFloat p z := by
  unfold IsFloat; rw [Int.natAbs_neg]

theorem isFloat_natCast {p n : Nat} : IsFloat p (n : Int) ↔ IsFloatN p n := by
  unfold IsFloat; simp

/-- characterisation used everywhere: a multiple of `2^e` of magnitude at most `2^(p+e)`. -/
theorem isFloat_of_dvd_of_le {p e : Nat} {z : Int} (hd : ((2 ^ e : Nat) : Int) ∣ z) (hb : z.natAbs ≤ 2 ^ (p + e)) :
    IsFloat p z :=
  ⟨e, by simpa using Int.natAbs_dvd_natAbs.2 hd, hb⟩

theorem isFloat_of_natAbs_lt {p : Nat} {z : Int} (h : z.natAbs < 2 ^ p) : IsFloat p z :=
  isFloatN_of_lt h

/-- a float is a multiple of the quantum of its binade. -/
theorem isFloat_quantum_dvd {p : Nat} {z : Int} (hp : 1 ≤ p) (h : IsFloat p z) :
    ((2 ^ (size z.natAbs - p) : Nat) : Int) ∣ z := by
  have := isFloatN_canon hp h
  exact Int.natAbs_dvd_natAbs.1 (by simpa using this)

theorem rnInt_of_nonneg {p : Nat} {z : Int} (h : 0 ≤ z) : rnInt p z = (rnNat p z.natAbs : Nat) := by
  unfold rnInt; simp [Int.not_lt.2 h]

theorem rnInt_of_neg {p : Nat} {z : Int} (h : z < 0) : rnInt p z = -((rnNat p z.natAbs : Nat) : Int) := by
  unfold rnInt; simp [h]

theorem rnNat_zero (p : Nat) : rnNat p 0 = 0 := by
  rw [rnNat_eq]; simp [rneDiv]

theorem rnInt_zero (p : Nat) : rnInt p 0 = 0 := by
  rw [rnInt_of_nonneg (Int.le_refl 0)]; simp [rnNat_zero]

theorem rnInt_neg (p : Nat) (z : Int) : rnInt p (-z) = -rnInt p z := by
  rcases Int.lt_trichotomy z 0 with h | h | h
  · rw [rnInt_of_neg h, rnInt_of_nonneg (by omega), Int.natAbs_neg]; simp
  · subst h; simp [rnInt_zero]
  · rw [rnInt_of_nonneg (Int.le_of_lt h), rnInt_of_neg (by omega), Int.natAbs_neg]

theorem rnInt_natAbs (p : Nat) (z : Int) : (rnInt p z).natAbs = rnNat p z.natAbs := by
  rcases Int.lt_or_le z 0 with h | h
  · rw [rnInt_of_neg h]; simp
  · rw [rnInt_of_nonneg h]; simp

theorem rnInt_isFloat (p : Nat) (z : Int) : IsFloat p (rnInt p z) := by
  unfold IsFloat; rw [rnInt_natAbs]; exact rnNat_isFloat p _

theorem rnInt_exact {p : Nat} {z : Int} (hp : 1 ≤ p) (h : IsFloat p z) : rnInt p z = z := by
  rcases Int.lt_or_le z 0 with hz | hz
  · rw [rnInt_of_neg hz, rnNat_exact hp h]; omega
  · rw [rnInt_of_nonneg hz, rnNat_exact hp h]; omega

theorem rnInt_nonneg {p : Nat} {z : Int} (h : 0 ≤ z) : 0 ≤ rnInt p z := by
  rw [rnInt_of_nonneg h]; exact Int.natCast_nonneg _

theorem rnInt_nonpos {p : Nat} {z : Int} (h : z ≤ 0) : rnInt p z ≤ 0 := by
  rcases Int.lt_or_le z 0 with hz | hz
  · rw [rnInt_of_neg hz]; omega
  · have : z = 0 := by omega
    subst this; simp [rnInt_zero]

theorem rnInt_mono {p : Nat} {a b : Int} (hp : 1 ≤ p) (h : a ≤ b) : rnInt p a ≤ rnInt p b := by
  rcases Int.lt_or_le a 0 with ha | ha <;> rcases Int.lt_or_le b 0 with hb | hb
  · rw [rnInt_of_neg ha, rnInt_of_neg hb]
    have : b.natAbs ≤ a.natAbs := by omega
    have := rnNat_mono hp this
    omega
  · have h1 := rnInt_nonpos (p := p) (Int.le_of_lt ha)
    have h2 := rnInt_nonneg (p := p) hb
    omega
  · omega
  · rw [rnInt_of_nonneg ha, rnInt_of_nonneg hb]
    have : a.natAbs ≤ b.natAbs := by omega
    have := rnNat_mono hp this
    omega

theorem rnInt_le_of_le {p : Nat} {z f : Int} (hp : 1 ≤ p) (hf : IsFloat p f) (h : z ≤ f) : rnInt p z ≤ f := by
  have := rnInt_mono hp h
  rwa [rnInt_exact hp hf] at this

theorem rnInt_ge_of_ge {p : Nat} {z f : Int} (hp : 1 ≤ p) (hf : IsFloat p f) (h : f ≤ z) : f ≤ rnInt p z := by
  have := rnInt_mono hp h
  rwa [rnInt_exact hp hf] at this

/-- RN is a nearest float. -/
theorem rnInt_nearest {p : Nat} {z f : Int} (hp : 1 ≤ p) (hf : IsFloat p f) :
    (z - rnInt p z).natAbs ≤ (z - f).natAbs := by
  -- the non-negative case; the negative one by symmetry
  have key : ∀ (z f : Int), 0 ≤ z → IsFloat p f → (z - rnInt p z).natAbs ≤ (z - f).natAbs := by
    intro z f hz hf
    rw [rnInt_of_nonneg hz]
    have h0 := rnNat_nearest (n := z.natAbs) hp (isFloatN_zero p)
    have h1 := rnNat_nearest (n := z.natAbs) hp hf
    unfold IsFloat at hf
    rcases Int.lt_or_le f 0 with hfn | hfn <;> omega
  rcases Int.lt_or_le z 0 with hz | hz
  · have := key (-z) (-f) (by omega) (isFloat_neg hf)
    rw [rnInt_neg] at this
    omega
  · exact key z f hz hf

theorem rnInt_dvd {p e : Nat} {z : Int} (h : ((2 ^ e : Nat) : Int) ∣ z) : ((2 ^ e : Nat) : Int) ∣ rnInt p z := by
  have h1 : 2 ^ e ∣ z.natAbs := by simpa using Int.natAbs_dvd_natAbs.2 h
  have h2 := rnNat_dvd (p := p) h1
  have h3 : ((2 ^ e : Nat) : Int) ∣ ((rnNat p z.natAbs : Nat) : Int) := Int.natCast_dvd_natCast.2 h2
  rcases Int.lt_or_le z 0 with hz | hz
  · rw [rnInt_of_neg hz]; exact (Int.dvd_neg).2 h3
  · rw [rnInt_of_nonneg hz]; exact h3

/-- half-ulp bound in signed form. -/
theorem rnInt_close (p : Nat) (z : Int) :
    2 * (z - rnInt p z).natAbs ≤ 2 ^ (size z.natAbs - p) := by
  have h := rnNat_close p z.natAbs
  rcases Int.lt_or_le z 0 with hz | hz
  · rw [rnInt_of_neg hz]; omega
  · rw [rnInt_of_nonneg hz]; omega

end UVerif.F64
