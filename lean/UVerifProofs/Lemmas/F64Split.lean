/-
  UVerifProofs.Lemmas.F64Split — Veltkamp's splitting on the integer-unit model.

  `C = 2^s + 1`, `γ = RN(C·x)`, `d = RN(γ − x)`, `hi = RN(γ − d)`, `lo = RN(x − hi)`.
  * `veltkamp_sum`   for every float `x`, every precision `p ≥ 1` and every `s ≥ 1`: `γ − d` and `x − (γ − d)` are
                     floats, hence `hi = γ − d`, `lo = x − hi` and `hi + lo = x` exactly (subnormal `x` included).
-/
import UVerifProofs.Lemmas.F64Lift

namespace UVerif.F64

theorem two_pow_pred {k : Nat} (h : 1 ≤ k) : 2 ^ k = 2 * 2 ^ (k - 1) := by
  have : k = (k - 1) + 1 := by omega
  rw [this, Nat.pow_succ]; simp; ring

/-- the result of RN is a multiple of the quantum of the binade of its argument. -/
theorem rnInt_quantum_dvd (p : Nat) (z : Int) : ((2 ^ (size z.natAbs - p) : Nat) : Int) ∣ rnInt p z := by
  have h : 2 ^ (size z.natAbs - p) ∣ rnNat p z.natAbs := by
    rw [rnNat_eq]; exact Nat.dvd_mul_left _ _
  have h3 : ((2 ^ (size z.natAbs - p) : Nat) : Int) ∣ ((rnNat p z.natAbs : Nat) : Int) := Int.natCast_dvd_natCast.2 h
  rcases Int.lt_or_le z 0 with hz | hz
  · rw [rnInt_of_neg hz]; exact (Int.dvd_neg).2 h3
  · rw [rnInt_of_nonneg hz]; exact h3

theorem isFloat_mul_two_pow {p : Nat} {z : Int} (h : IsFloat p z) (k : Nat) : IsFloat p (z * ((2 ^ k : Nat) : Int)) := by
  unfold IsFloat at *
  have : (z * ((2 ^ k : Nat) : Int)).natAbs = z.natAbs * 2 ^ k := by
    rw [Int.natAbs_mul]; simp
  rw [this]; exact isFloatN_mul_two_pow h k

/-- Veltkamp, first half, non-negative argument. -/
theorem veltkamp_aux {p s : Nat} (hp : 1 ≤ p) (hs : 1 ≤ s) {x : Int} (hx : IsFloat p x) (hx0 : 0 ≤ x) :
    IsFloat p (rnInt p ((((2 ^ s : Nat) : Int) + 1) * x) - rnInt p (rnInt p ((((2 ^ s : Nat) : Int) + 1) * x) - x)) := by
  have h2s : (1 : Int) ≤ ((2 ^ s : Nat) : Int) := by
    have := Nat.two_pow_pos s; omega
  have h2s2 : (2 : Int) ≤ ((2 ^ s : Nat) : Int) := by
    have := two_pow_pred hs
    have := Nat.two_pow_pos (s - 1); omega
  -- γ ≥ 2^s · x
  have hfx : IsFloat p (x * ((2 ^ s : Nat) : Int)) := isFloat_mul_two_pow hx s
  have hprod : 0 ≤ ((2 ^ s : Nat) : Int) * x := Int.mul_nonneg (by omega) hx0
  have hc : x * ((2 ^ s : Nat) : Int) ≤ (((2 ^ s : Nat) : Int) + 1) * x := by
    have : (((2 ^ s : Nat) : Int) + 1) * x = x * ((2 ^ s : Nat) : Int) + x := by ring
    omega
  have hγ1 : x * ((2 ^ s : Nat) : Int) ≤ rnInt p ((((2 ^ s : Nat) : Int) + 1) * x) := rnInt_ge_of_ge hp hfx hc
  have hx2 : 2 * x ≤ x * ((2 ^ s : Nat) : Int) := by
    have : x * ((2 ^ s : Nat) : Int) = ((2 ^ s : Nat) : Int) * x := by ring
    have h := Int.mul_le_mul_of_nonneg_right h2s2 hx0
    omega
  -- abbreviations are kept syntactic; name the two roundings
  obtain ⟨g, hg⟩ : ∃ g, g = rnInt p ((((2 ^ s : Nat) : Int) + 1) * x) := ⟨_, rfl⟩
  rw [← hg] at hγ1 ⊢
  have hgf : IsFloat p g := by rw [hg]; exact rnInt_isFloat _ _
  -- y = g − x with x ≤ y ≤ g
  have hy1 : x ≤ g - x := by omega
  have hy2 : g - x ≤ g := by omega
  have hyabs : x.natAbs ≤ (g - x).natAbs := by omega
  have hygabs : (g - x).natAbs ≤ g.natAbs := by omega
  -- quanta
  have hdd : ((2 ^ (size (g - x).natAbs - p) : Nat) : Int) ∣ rnInt p (g - x) := rnInt_quantum_dvd p (g - x)
  have hdg : ((2 ^ (size (g - x).natAbs - p) : Nat) : Int) ∣ g := quantum_dvd_of_le (y := g - x) hp hgf hygabs
  have hdw := Int.dvd_sub hdg hdd
  apply isFloat_of_dvd_of_le hdw
  -- magnitude
  have hsz : size x.natAbs - p ≤ size (g - x).natAbs - p := by
    have := size_mono hyabs; omega
  rcases Nat.lt_or_ge (size x.natAbs - p) (size (g - x).natAbs - p) with hlt | hge
  · -- a genuine rounding of y: |y − d| ≤ 2^(k2 − 1), |x| ≤ 2^(p + k2 − 1)
    have hcl := rnInt_close p (g - x)
    have hxb := le_two_pow_quantum p x.natAbs
    have hk : 1 ≤ size (g - x).natAbs - p := by omega
    have hpow1 := two_pow_pred hk
    have hpk : 1 ≤ p + (size (g - x).natAbs - p) := by omega
    have hpow2 := two_pow_pred hpk
    have hmono : 2 ^ (p + (size x.natAbs - p)) ≤ 2 ^ (p + (size (g - x).natAbs - p) - 1) :=
      Nat.pow_le_pow_right (by decide) (by omega)
    have hmono2 : 2 ^ (size (g - x).natAbs - p - 1) ≤ 2 ^ (p + (size (g - x).natAbs - p) - 1) :=
      Nat.pow_le_pow_right (by decide) (by omega)
    omega
  · -- same quantum: y is itself a float, d = y, γ − d = x
    have hkeq : size x.natAbs - p = size (g - x).natAbs - p := by omega
    have hdx : ((2 ^ (size (g - x).natAbs - p) : Nat) : Int) ∣ x := by
      rw [← hkeq]; exact isFloat_quantum_dvd hp hx
    have hdy := Int.dvd_sub hdg hdx
    have hyf : IsFloat p (g - x) := isFloat_of_dvd_of_le hdy (le_two_pow_quantum p _)
    rw [rnInt_exact hp hyf]
    have e : g - (g - x) = x := by ring
    rw [e, ← hkeq]
    exact le_two_pow_quantum p x.natAbs

/-- **Veltkamp's splitting**, exactness part, for every float `x` (any sign, subnormal or not), every
    precision `p ≥ 1`, every `s ≥ 1`: with `γ = RN((2^s+1)·x)` and `d = RN(γ − x)`,
    `hi := γ − d` and `lo := x − hi` are both floats (so the two further roundings of the algorithm are exact and
    `hi + lo = x`). -/
theorem veltkamp_sum {p s : Nat} (hp : 1 ≤ p) (hs : 1 ≤ s) {x : Int} (hx : IsFloat p x) :
    IsFloat p (rnInt p ((((2 ^ s : Nat) : Int) + 1) * x) - rnInt p (rnInt p ((((2 ^ s : Nat) : Int) + 1) * x) - x)) ∧
    IsFloat p (x - (rnInt p ((((2 ^ s : Nat) : Int) + 1) * x) - rnInt p (rnInt p ((((2 ^ s : Nat) : Int) + 1) * x) - x))) := by
  have h1 : IsFloat p (rnInt p ((((2 ^ s : Nat) : Int) + 1) * x) - rnInt p (rnInt p ((((2 ^ s : Nat) : Int) + 1) * x) - x)) := by
    rcases Int.lt_or_le x 0 with hn | hn
    · have := veltkamp_aux hp hs (isFloat_neg hx) (by omega : 0 ≤ -x)
      have e1 : (((2 ^ s : Nat) : Int) + 1) * -x = -((((2 ^ s : Nat) : Int) + 1) * x) := by ring
      rw [e1, rnInt_neg] at this
      have e2 : -rnInt p ((((2 ^ s : Nat) : Int) + 1) * x) - -x = -(rnInt p ((((2 ^ s : Nat) : Int) + 1) * x) - x) := by ring
      rw [e2, rnInt_neg] at this
      have := isFloat_neg this
      have e3 : -(-rnInt p ((((2 ^ s : Nat) : Int) + 1) * x) - -rnInt p (rnInt p ((((2 ^ s : Nat) : Int) + 1) * x) - x))
          = rnInt p ((((2 ^ s : Nat) : Int) + 1) * x) - rnInt p (rnInt p ((((2 ^ s : Nat) : Int) + 1) * x) - x) := by ring
      rwa [e3] at this
    · exact veltkamp_aux hp hs hx hn
  refine ⟨h1, ?_⟩
  -- x − (γ − d) = −((γ − x) − RN(γ − x)) : the error of a float addition
  have hη := sum_error_isFloat hp (rnInt_isFloat p ((((2 ^ s : Nat) : Int) + 1) * x)) (isFloat_neg hx)
  have := isFloat_neg hη
  have e : -(rnInt p ((((2 ^ s : Nat) : Int) + 1) * x) + -x - rnInt p (rnInt p ((((2 ^ s : Nat) : Int) + 1) * x) + -x))
      = x - (rnInt p ((((2 ^ s : Nat) : Int) + 1) * x) - rnInt p (rnInt p ((((2 ^ s : Nat) : Int) + 1) * x) - x)) := by
    have e0 : rnInt p ((((2 ^ s : Nat) : Int) + 1) * x) + -x = rnInt p ((((2 ^ s : Nat) : Int) + 1) * x) - x := by ring
    rw [e0]; ring
  rwa [e] at this

/-- sign/magnitude relations between `x`, `γ = RN(C·x)`, `d = RN(γ − x)` used for the overflow analysis:
    every intermediate of the split is bounded by `|γ|`. -/
theorem veltkamp_bounds {p s : Nat} (hp : 1 ≤ p) (hs : 1 ≤ s) {x : Int} (hx : IsFloat p x) :
    (rnInt p ((((2 ^ s : Nat) : Int) + 1) * x) - x).natAbs ≤ (rnInt p ((((2 ^ s : Nat) : Int) + 1) * x)).natAbs ∧
    (rnInt p ((((2 ^ s : Nat) : Int) + 1) * x) - rnInt p (rnInt p ((((2 ^ s : Nat) : Int) + 1) * x) - x)).natAbs
      ≤ (rnInt p ((((2 ^ s : Nat) : Int) + 1) * x)).natAbs ∧
    (x - (rnInt p ((((2 ^ s : Nat) : Int) + 1) * x) - rnInt p (rnInt p ((((2 ^ s : Nat) : Int) + 1) * x) - x))).natAbs
      ≤ (rnInt p ((((2 ^ s : Nat) : Int) + 1) * x)).natAbs := by
  have h2s2 : (2 : Int) ≤ ((2 ^ s : Nat) : Int) := by
    have := two_pow_pred hs
    have := Nat.two_pow_pos (s - 1); omega
  have hfx : IsFloat p (x * ((2 ^ s : Nat) : Int)) := isFloat_mul_two_pow hx s
  have hce : (((2 ^ s : Nat) : Int) + 1) * x = x * ((2 ^ s : Nat) : Int) + x := by ring
  obtain ⟨g, hg⟩ : ∃ g, g = rnInt p ((((2 ^ s : Nat) : Int) + 1) * x) := ⟨_, rfl⟩
  rw [← hg]
  have hgf : IsFloat p g := by rw [hg]; exact rnInt_isFloat _ _
  rcases Int.lt_or_le x 0 with hn | hn
  · -- x < 0 : g ≤ x·2^s ≤ 2x ≤ x
    have hx2 : x * ((2 ^ s : Nat) : Int) ≤ 2 * x := by
      have h := Int.mul_le_mul_of_nonpos_left (Int.le_of_lt hn) h2s2
      have : x * 2 = 2 * x := by ring
      omega
    have hg1 : g ≤ x * ((2 ^ s : Nat) : Int) := by
      rw [hg]; exact rnInt_le_of_le hp hfx (by rw [hce]; omega)
    have hd1 : g ≤ rnInt p (g - x) := rnInt_ge_of_ge hp hgf (by omega)
    have hd2 : rnInt p (g - x) ≤ 0 := rnInt_nonpos (by omega)
    omega
  · have hx2 : 2 * x ≤ x * ((2 ^ s : Nat) : Int) := by
      have h := Int.mul_le_mul_of_nonneg_left h2s2 hn
      have : x * 2 = 2 * x := by ring
      omega
    have hg1 : x * ((2 ^ s : Nat) : Int) ≤ g := by
      rw [hg]; exact rnInt_ge_of_ge hp hfx (by rw [hce]; omega)
    have hd1 : rnInt p (g - x) ≤ g := rnInt_le_of_le hp hgf (by omega)
    have hd2 : 0 ≤ rnInt p (g - x) := rnInt_nonneg (by omega)
    omega

/-! ### the model's `mul` by an exact integer constant, and `split` (main branch) -/

theorem size_eq_of_bounds {n L : Nat} (h1 : 2 ^ (L - 1) ≤ n) (h2 : n < 2 ^ L) (hL : 1 ≤ L) : size n = L := by
  apply Nat.le_antisymm
  · exact size_le.2 h2
  · have : L - 1 < size n := lt_size.2 h1
    omega

theorem size_mul_two_pow {n : Nat} (hn : n ≠ 0) (t : Nat) : size (n * 2 ^ t) = size n + t := by
  have h1 := two_pow_size_le hn
  have h2 := lt_two_pow_size n
  have hs : 1 ≤ size n := by
    rcases Nat.eq_zero_or_pos (size n) with h | h
    · rw [h] at h2; simp at h2; omega
    · exact h
  apply size_eq_of_bounds
  · have e : size n + t - 1 = (size n - 1) + t := by omega
    rw [e, Nat.pow_add]
    exact Nat.mul_le_mul_right _ h1
  · rw [Nat.pow_add]
    exact Nat.mul_lt_mul_of_pos_right h2 (Nat.two_pow_pos t)
  · omega

theorem rneDiv_scale (x g c : Nat) (hc : 0 < c) : rneDiv (x * c) (g * c) = rneDiv x g := by
  unfold rneDiv
  simp only
  rw [Nat.mul_div_mul_right _ _ hc, Nat.mul_mod_mul_right]
  have e1 : (2 * (x % g * c) < g * c) ↔ (2 * (x % g) < g) := by
    constructor
    · intro h
      have : (2 * (x % g)) * c < g * c := by rw [Nat.mul_assoc]; exact h
      exact Nat.lt_of_mul_lt_mul_right this
    · intro h
      have := Nat.mul_lt_mul_of_pos_right h hc
      rw [Nat.mul_assoc] at this; exact this
  have e2 : (2 * (x % g * c) > g * c) ↔ (2 * (x % g) > g) := by
    constructor
    · intro h
      have : g * c < (2 * (x % g)) * c := by rw [Nat.mul_assoc]; exact h
      exact Nat.lt_of_mul_lt_mul_right this
    · intro h
      have := Nat.mul_lt_mul_of_pos_right h hc
      rw [Nat.mul_assoc] at this; exact this
  simp only [e1, e2]

/-- rounding `M·2^t` with `t` fraction bits is rounding the integer `M`. -/
theorem rnShr_mul_two_pow (p M t : Nat) : rnShr p (M * 2 ^ t) t = rnNat p M := by
  by_cases hM : M = 0
  · subst hM; simp [rnShr, rnNat, rneShr_eq_rneDiv, rneDiv]
  · unfold rnNat rnShr
    simp only
    rw [size_mul_two_pow hM t]
    have hk : max (size M + t - p) t = (size M - p) + t := by omega
    rw [hk]
    have hk0 : max (size M - p) 0 = size M - p := by omega
    rw [hk0]
    rw [rneShr_eq_rneDiv, rneShr_eq_rneDiv, Nat.pow_add, rneDiv_scale _ _ _ (Nat.two_pow_pos t)]
    have e1 : size M - p + t - t = size M - p := by omega
    have e2 : size M - p - 0 = size M - p := by omega
    rw [e1, e2]

/-- `mul` by an exactly represented integer constant `c`: the model computes `RN(c · a)`. -/
theorem mul_const_spec (f : Fmt) (hp : 1 ≤ f.p) (hpt : f.p ≤ f.top) (c : Nat) {a : F} (ha : a.isFinite = true)
    (h : c * a.mag ≤ maxMag f) :
    (mul f (ofNatExact f c) a).isFinite = true ∧
    (mul f (ofNatExact f c) a).toInt = rnInt f.p ((c : Int) * a.toInt) := by
  cases a with
  | fin t m =>
    simp only [F.mag] at h
    unfold ofNatExact mul
    simp only [roundShr, Nat.shiftLeft_eq]
    have e : c * 2 ^ f.q * m = (c * m) * 2 ^ f.q := by ring
    rw [e, rnShr_mul_two_pow]
    have hr : rnNat f.p (c * m) ≤ maxMag f := rnNat_le_of_le hp (maxMag_isFloatN f) h
    rw [pack_of_le f hpt _ hr]
    refine ⟨rfl, ?_⟩
    cases t
    · have hnn : (0 : Int) ≤ (c : Int) * (F.fin false m).toInt := by simp [F.toInt]; positivity
      rw [rnInt_of_nonneg hnn]
      simp [F.toInt, Int.natAbs_mul]
    · rcases Nat.eq_zero_or_pos (c * m) with h0 | h0
      · have : (c : Int) * (F.fin true m).toInt = 0 := by
          simp [F.toInt]
          rcases Nat.mul_eq_zero.1 h0 with h1 | h1
          · left; exact_mod_cast h1
          · right; exact_mod_cast h1
        rw [this, rnInt_zero, h0, rnNat_zero]; simp [F.toInt]
      · have hneg : (c : Int) * (F.fin true m).toInt < 0 := by
          simp only [F.toInt, if_true]
          have : ((c * m : Nat) : Int) > 0 := by exact_mod_cast h0
          have e : (c : Int) * -(m : Int) = -((c * m : Nat) : Int) := by push_cast; ring
          omega
        rw [rnInt_of_neg hneg]
        simp [F.toInt, Int.natAbs_mul]
  | inf s => simp [F.isFinite] at ha
  | nan => simp [F.isFinite] at ha

theorem rnInt_natAbs_le {p : Nat} {z : Int} {B : Nat} (hp : 1 ≤ p) (hB : IsFloatN p B) (h : z.natAbs ≤ B) :
    (rnInt p z).natAbs ≤ B := by
  rw [rnInt_natAbs]; exact rnNat_le_of_le hp hB h

/-- model-level `split`, main branch: the outputs with their values as computed. -/
theorem split_spec_val (f : Fmt) (ok : f.Ok) {a : F} (ha : a.Rep f)
    (hth : a.mag ≤ maxMag f >>> (splitBits f + 1)) :
    (split f a).1.Rep f ∧ (split f a).2.Rep f ∧
    (split f a).1.toInt = rnInt f.p ((((2 ^ splitBits f : Nat) : Int) + 1) * a.toInt)
        - rnInt f.p (rnInt f.p ((((2 ^ splitBits f : Nat) : Int) + 1) * a.toInt) - a.toInt) ∧
    (split f a).2.toInt = a.toInt - (rnInt f.p ((((2 ^ splitBits f : Nat) : Int) + 1) * a.toInt)
        - rnInt f.p (rnInt f.p ((((2 ^ splitBits f : Nat) : Int) + 1) * a.toInt) - a.toInt)) ∧
    (split f a).1.mag ≤ maxMag f ∧ (split f a).2.mag ≤ maxMag f := by
  have hp : 1 ≤ f.p := by have := ok.hp2; omega
  have hpt := ok.hpt
  have hsb : 1 ≤ splitBits f := by unfold splitBits; have := ok.hp2; omega
  -- the threshold test selects the main branch
  have hbranch : fgt a.abs (splitThreshold f) = false := by
    obtain ⟨hfin, _⟩ := ha
    cases a with
    | fin t m =>
      simp only [F.mag] at hth
      obtain ⟨T, hT⟩ : ∃ T, T = maxMag f >>> (splitBits f + 1) := ⟨_, rfl⟩
      rw [← hT] at hth
      unfold splitThreshold
      rw [← hT]
      have : ¬ ((T : Int) < (m : Int)) := by omega
      simp [fgt, flt, F.abs, F.toInt, this]
    | inf s => simp [F.isFinite] at hfin
    | nan => simp [F.isFinite] at hfin
  -- C · |a| is in range
  have hC : (2 ^ splitBits f + 1) * a.mag ≤ maxMag f := by
    rw [Nat.shiftRight_eq_div_pow] at hth
    have h1 : (2 ^ splitBits f + 1) ≤ 2 ^ (splitBits f + 1) := by
      rw [Nat.pow_succ]; have := Nat.two_pow_pos (splitBits f); omega
    calc (2 ^ splitBits f + 1) * a.mag ≤ 2 ^ (splitBits f + 1) * (maxMag f / 2 ^ (splitBits f + 1)) :=
          Nat.mul_le_mul h1 hth
      _ ≤ maxMag f := by rw [Nat.mul_comm]; exact Nat.div_mul_le_self _ _
  obtain ⟨htf, htv⟩ := mul_const_spec f hp hpt (2 ^ splitBits f + 1) ha.1 hC
  have hcast : ((2 ^ splitBits f + 1 : Nat) : Int) = ((2 ^ splitBits f : Nat) : Int) + 1 := by push_cast; rfl
  rw [hcast] at htv
  -- |γ| ≤ maxMag
  have hγm : (rnInt f.p ((((2 ^ splitBits f : Nat) : Int) + 1) * a.toInt)).natAbs ≤ maxMag f := by
    apply rnInt_natAbs_le hp (maxMag_isFloatN f)
    rw [Int.natAbs_mul, ← F.mag_eq_natAbs]
    have : ∀ K : Nat, ((K : Int) + 1).natAbs = K + 1 := by intro K; omega
    rw [this]; exact hC
  obtain ⟨hV1, hV2⟩ := veltkamp_sum hp hsb ha.2 (s := splitBits f)
  obtain ⟨hB1, hB2, hB3⟩ := veltkamp_bounds hp hsb ha.2 (s := splitBits f)
  -- d = RN(γ − a)
  obtain ⟨hd, hdv⟩ := sub_spec f hp hpt htf ha.1 (by rw [htv]; omega)
  rw [htv] at hdv
  -- hi = γ − d exact
  obtain ⟨hhi, hhiv⟩ := sub_exact f hp hpt htf hd.1 (by rw [htv, hdv]; omega) (by rw [htv, hdv]; exact hV1)
  rw [htv, hdv] at hhiv
  -- lo = a − hi exact
  obtain ⟨hlo, hlov⟩ := sub_exact f hp hpt ha.1 hhi.1 (by rw [hhiv]; omega) (by rw [hhiv]; exact hV2)
  rw [hhiv] at hlov
  have hm1 : (sub f (mul f (ofNatExact f (2 ^ splitBits f + 1)) a) (sub f (mul f (ofNatExact f (2 ^ splitBits f + 1)) a) a)).mag ≤ maxMag f := by
    rw [F.mag_eq_natAbs, hhiv]; omega
  have hm2 : (sub f a (sub f (mul f (ofNatExact f (2 ^ splitBits f + 1)) a) (sub f (mul f (ofNatExact f (2 ^ splitBits f + 1)) a) a))).mag ≤ maxMag f := by
    rw [F.mag_eq_natAbs, hlov]; omega
  unfold split
  simp only [hbranch, Bool.false_eq_true, if_false]
  unfold splitter
  exact ⟨hhi, hlo, hhiv, hlov, hm1, hm2⟩

/-- model-level `split`, main branch: the outputs with their values as computed. -/
theorem split_spec (f : Fmt) (ok : f.Ok) {a : F} (ha : a.Rep f)
    (hth : a.mag ≤ maxMag f >>> (splitBits f + 1)) :
    (split f a).1.Rep f ∧ (split f a).2.Rep f ∧ (split f a).1.toInt + (split f a).2.toInt = a.toInt := by
  obtain ⟨h1, h2, h3, h4, _, _⟩ := split_spec_val f ok ha hth
  refine ⟨h1, h2, ?_⟩
  rw [h3, h4]; ring

end UVerif.F64
