/-
  Lemmas for C11: two's complement helpers at 64 bits, trichotomy of the signed reading, byte marshalling.
-/
import UVerif.Basic
import UVerif.Model.Posit
import UVerif.Model.PositC

namespace UVerif

theorem toSigned_ofSigned_64 (x : Int) (h1 : -(2:Int)^63 ≤ x) (h2 : x < (2:Int)^63) : toSigned 64 (ofSigned 64 x) = x := by
  unfold toSigned ofSigned
  simp only [Nat.reducePow]
  simp
  omega

theorem two_pow_pred (n : Nat) (hn : 0 < n) : 2 ^ n = 2 * 2 ^ (n - 1) := by
  have : n = (n - 1) + 1 := by omega
  conv => lhs; rw [this, Nat.pow_succ]
  omega

/-- the signed readings of two n-bit patterns are equal iff the patterns are equal modulo 2^n -/
theorem toSigned_eq_iff (n a b : Nat) : toSigned n a = toSigned n b ↔ a % 2 ^ n = b % 2 ^ n := by
  unfold toSigned
  by_cases hn : n = 0
  · subst hn; simp [Nat.mod_one]
  · simp only [hn, if_false]
    have hp := two_pow_pred n (by omega)
    have ha : a % 2 ^ n < 2 ^ n := Nat.mod_lt _ (Nat.two_pow_pos n)
    have hb : b % 2 ^ n < 2 ^ n := Nat.mod_lt _ (Nat.two_pow_pos n)
    generalize a % 2 ^ n = x at *
    generalize b % 2 ^ n = y at *
    generalize 2 ^ (n - 1) = h at *
    generalize hN : 2 ^ n = N at *
    split <;> split <;> constructor <;> intro hh <;> omega

namespace PositC

theorem marshal_unmarshal (w : Nat) : ∀ (k v : Nat), marshal w (unmarshal w k v) = v % 2 ^ (w * k) := by
  intro k
  induction k with
  | zero => intro v; simp [unmarshal, marshal, Nat.mod_one]
  | succ k ih =>
    intro v
    simp only [unmarshal, marshal]
    rw [ih, Nat.mod_mod, Nat.mul_succ, Nat.pow_add, Nat.mul_comm (2 ^ (w * k)) (2 ^ w), Nat.mod_mul]

theorem unmarshal_marshal (w : Nat) : ∀ (l : List Nat), (∀ b ∈ l, b < 2 ^ w) → unmarshal w l.length (marshal w l) = l := by
  intro l
  induction l with
  | nil => intro _; simp [unmarshal]
  | cons b bs ih =>
    intro h
    have hb : b < 2 ^ w := h b (by simp)
    have hbs : ∀ c ∈ bs, c < 2 ^ w := fun c hc => h c (by simp [hc])
    simp only [List.length_cons, unmarshal, marshal]
    have hpos : 0 < 2 ^ w := Nat.two_pow_pos w
    have h1 : (b % 2 ^ w + 2 ^ w * marshal w bs) % 2 ^ w = b := by
      rw [Nat.add_mul_mod_self_left, Nat.mod_mod, Nat.mod_eq_of_lt hb]
    have h2 : (b % 2 ^ w + 2 ^ w * marshal w bs) / 2 ^ w = marshal w bs := by
      rw [Nat.add_mul_div_left _ _ hpos, Nat.mod_eq_of_lt hb, Nat.div_eq_of_lt hb, Nat.zero_add]
    rw [h1, h2, ih hbs]

end PositC
end UVerif
