/-
  Lemmas for C11: integers far outside the dynamic range convert to ±maxpos in the generic model (any nbits, es);
  two's complement round trips at 32/64 bits; the hand-written integer assignments of the tiny posits.
-/
import Mathlib.Tactic.Linarith
import Mathlib.Tactic.Positivity
import UVerif.Model.Posit
import UVerif.Model.PositConvFP
import UVerif.Model.FastPosit
import UVerif.Model.PositC

namespace UVerif.Fast
open UVerif UVerif.Posit

theorem lim_cast (n es : Nat) : (((n : Int) - 2) * ((2 ^ es : Nat) : Int)) ≤ (((n - 2) * 2 ^ es : Nat) : Int) := by
  by_cases hn : 2 ≤ n
  · have : ((n - 2 : Nat) : Int) = (n : Int) - 2 := by omega
    push_cast
    rw [this]
  · have hn0 : n - 2 = 0 := by omega
    have hneg : (n : Int) - 2 ≤ 0 := by omega
    rw [hn0]
    simp only [Nat.zero_mul, Nat.cast_zero]
    exact Int.mul_nonpos_of_nonpos_of_nonneg hneg (by positivity)

/-- any integer whose magnitude has more than (n-2)·2^es binary digits after the leading one converts to ±maxpos -/
theorem fromInt_large (n es : Nat) (x : Int) (hx : x ≠ 0) (h : (n - 2) * 2 ^ es < x.natAbs.log2) :
    fromInt n es x = if x < 0 then twosComp n (maxposEnc n) else maxposEnc n := by
  unfold fromInt convertDyadic
  have hm : x.natAbs ≠ 0 := by omega
  simp only [hx, if_false, hm]
  unfold convert_
  have hcast := lim_cast n es
  have hproj : inwardProjection n es ((x.natAbs.log2 : Int) + 0) = true := by
    unfold inwardProjection
    have hnn : ¬ ((x.natAbs.log2 : Int) + 0 < 0) := by omega
    simp only [hnn, if_false, decide_eq_true_eq]
    have : (((n - 2) * 2 ^ es : Nat) : Int) < (x.natAbs.log2 : Int) := by exact_mod_cast h
    omega
  have hk : ¬ (unconstrainedK es ((x.natAbs.log2 : Int) + 0) < 0) := by
    unfold unconstrainedK
    have hnn : ¬ ((x.natAbs.log2 : Int) + 0 < 0) := by omega
    simp only [hnn, if_false, and_false]
    generalize (((x.natAbs.log2 : Int) + 0).toNat >>> es) = q
    omega
  simp only [hproj, if_true, hk, if_false]
  by_cases hneg : x < 0 <;> simp [hneg]

theorem log2_ge (m k : Nat) (h : 2 ^ k ≤ m) : k ≤ m.log2 := by
  have hm : m ≠ 0 := by
    have := Nat.two_pow_pos k
    omega
  exact (Nat.le_log2 hm).mpr h

theorem assignInt_2_0_eq_generic (x : Int) : assignInt_2_0 x = fromInt 2 0 x := by
  by_cases hsmall : -1 ≤ x ∧ x ≤ 1
  · have : x = -1 ∨ x = 0 ∨ x = 1 := by omega
    rcases this with rfl | rfl | rfl <;> decide +kernel
  · have hx : x ≠ 0 := by omega
    have hl : 1 ≤ x.natAbs.log2 := log2_ge _ 1 (by omega)
    rw [fromInt_large 2 0 x hx (by simp; omega)]
    unfold assignInt_2_0
    by_cases hneg : x < 0
    · have h1 : x ≤ -1 := by omega
      simp only [hneg, h1, if_true]; decide
    · have h1 : ¬ x ≤ -1 := by omega
      simp only [hneg, h1, hx, if_false]; decide

theorem assignInt_3_0_eq_generic (x : Int) : assignInt_3_0 x = fromInt 3 0 x := by
  by_cases hsmall : -3 ≤ x ∧ x ≤ 3
  · have : x = -3 ∨ x = -2 ∨ x = -1 ∨ x = 0 ∨ x = 1 ∨ x = 2 ∨ x = 3 := by omega
    rcases this with rfl | rfl | rfl | rfl | rfl | rfl | rfl <;> decide +kernel
  · have hx : x ≠ 0 := by omega
    have hl : 2 ≤ x.natAbs.log2 := log2_ge _ 2 (by omega)
    rw [fromInt_large 3 0 x hx (by simp; omega)]
    unfold assignInt_3_0
    by_cases hneg : x < 0
    · have h1 : x ≤ -2 := by omega
      simp only [hneg, h1, if_true]; decide
    · have h1 : ¬ x ≤ -2 := by omega
      have h2 : ¬ x = -1 := by omega
      have h3 : ¬ x = 1 := by omega
      simp only [hneg, h1, h2, h3, hx, if_false]; decide

theorem assignInt_4_0_eq_generic (x : Int) : assignInt_4_0 x = fromInt 4 0 x := by
  by_cases hsmall : -7 ≤ x ∧ x ≤ 7
  · have : x = -7 ∨ x = -6 ∨ x = -5 ∨ x = -4 ∨ x = -3 ∨ x = -2 ∨ x = -1 ∨ x = 0 ∨ x = 1 ∨ x = 2 ∨ x = 3 ∨ x = 4 ∨ x = 5 ∨ x = 6 ∨ x = 7 := by omega
    rcases this with rfl | rfl | rfl | rfl | rfl | rfl | rfl | rfl | rfl | rfl | rfl | rfl | rfl | rfl | rfl <;> decide +kernel
  · have hx : x ≠ 0 := by omega
    have hl : 3 ≤ x.natAbs.log2 := log2_ge _ 3 (by omega)
    rw [fromInt_large 4 0 x hx (by simp; omega)]
    unfold assignInt_4_0
    by_cases hneg : x < 0
    · have h1 : x ≤ -4 := by omega
      simp only [hneg, h1, if_true]; decide
    · have h1 : ¬ x ≤ -4 := by omega
      have h2 : ¬ x ≤ -2 := by omega
      have h3 : ¬ x ≤ -1 := by omega
      have h4 : ¬ x < 1 := by omega
      have h5 : ¬ x < 2 := by omega
      have h6 : ¬ x < 4 := by omega
      simp only [hneg, h1, h2, h3, h4, h5, h6, if_false]; decide

theorem toSigned_ofSigned_64' (x : Int) (h1 : -(2:Int)^63 ≤ x) (h2 : x < (2:Int)^63) : toSigned 64 (ofSigned 64 x) = x := by
  unfold toSigned ofSigned
  simp only [Nat.reducePow]
  simp
  omega
theorem toSigned_ofSigned_32' (x : Int) (h1 : -(2:Int)^31 ≤ x) (h2 : x < (2:Int)^31) : toSigned 32 (ofSigned 32 x) = x := by
  unfold toSigned ofSigned
  simp only [Nat.reducePow]
  simp
  omega

/-- small negative arguments: the 127 cases by kernel evaluation -/
theorem integerAssign8_small_neg : ∀ k : Nat, k < 127 → integerAssign8 (-(Int.ofNat k) - 1) = fromInt 8 0 (-(Int.ofNat k) - 1) := by decide +kernel

theorem integerAssign8_neg_eq_generic (x : Int) (hneg : x < 0) (hlo : -(2:Int)^63 < x) :
    integerAssign8 x = fromInt 8 0 x := by
  by_cases hsmall : -127 ≤ x
  · have := integerAssign8_small_neg (-x - 1).toNat (by omega)
    have hk : -(Int.ofNat (-x - 1).toNat) - 1 = x := by
      have : Int.ofNat (-x - 1).toNat = -x - 1 := by simp; omega
      omega
    rwa [hk] at this
  · have hx : x ≠ 0 := by omega
    have hl : 7 ≤ x.natAbs.log2 := log2_ge _ 7 (by omega)
    rw [fromInt_large 8 0 x hx (by simp; omega)]
    unfold integerAssign8 integerAssign8With
    simp only [hx, if_false, hneg, decide_true, if_true]
    rw [toSigned_ofSigned_64' (-x) (by omega) (by omega)]
    have h48 : -x > 48 := by omega
    simp only [h48, true_or, if_true]
    decide

theorem fromsi_small : ∀ k : Nat, k < 255 → PositC.fromsi (Int.ofNat k - 127) = fromInt 8 0 (Int.ofNat k - 127) := by decide +kernel

/-- posit8_fromsi = generic conversion for every int whose negation does not overflow -/
theorem fromsi_eq_generic (x : Int) (h1 : -(2:Int)^31 < x) (h2 : x < (2:Int)^31) : PositC.fromsi x = fromInt 8 0 x := by
  by_cases hsmall : -127 ≤ x ∧ x ≤ 127
  · have := fromsi_small (x + 127).toNat (by omega)
    have hk : Int.ofNat (x + 127).toNat - 127 = x := by
      have : Int.ofNat (x + 127).toNat = x + 127 := by simp; omega
      omega
    rwa [hk] at this
  · have hx : x ≠ 0 := by omega
    have hl : 7 ≤ x.natAbs.log2 := log2_ge _ 7 (by omega)
    rw [fromInt_large 8 0 x hx (by simp; omega)]
    unfold PositC.fromsi
    by_cases hneg : x < 0
    · simp only [hx, if_false, hneg, decide_true, if_true]
      rw [toSigned_ofSigned_32' (-x) (by omega) (by omega)]
      have h48 : -x > 48 := by omega
      simp only [h48, if_true]
      decide
    · simp only [hx, if_false, hneg, decide_false, Bool.false_eq_true]
      rw [toSigned_ofSigned_32' x (by omega) (by omega)]
      have h48 : x > 48 := by omega
      simp only [h48, if_true]
      decide

theorem unsigned_4_0_ge_2p63 (x : Nat) (h1 : 2 ^ 63 ≤ x) (h2 : x < 2 ^ 64) :
    fromUInt 4 0 x = 7 ∧ assignInt_4_0 (toSigned 64 x) ≠ 7 := by
  constructor
  · unfold fromUInt
    have hx : (x : Int) ≠ 0 := by omega
    have hl : 63 ≤ x.log2 := log2_ge _ 63 h1
    rw [fromInt_large 4 0 x hx (by simp; omega)]
    have : ¬ ((x : Int) < 0) := by omega
    simp only [this, if_false]; decide
  · have hneg : toSigned 64 x < 0 := by
      unfold toSigned
      simp only [Nat.reducePow]
      simp
      omega
    unfold assignInt_4_0
    split
    · decide
    · split
      · decide
      · split
        · decide
        · omega

theorem fromInt_3_1_small : ∀ k : Nat, k < 7 → fromInt 3 1 (Int.ofNat k + 1) ≠ 1 := by decide +kernel

theorem assignInt_3_1_pos (x : Int) (h : 1 ≤ x) : assignInt_3_1 x = 1 ∧ fromInt 3 1 x ≠ 1 := by
  constructor
  · unfold assignInt_3_1
    have h1 : ¬ x ≤ -1 := by omega
    have h2 : ¬ x = 0 := by omega
    simp [h1, h2]
  · by_cases hs : x ≤ 7
    · have := fromInt_3_1_small (x - 1).toNat (by omega)
      have hk : Int.ofNat (x - 1).toNat + 1 = x := by
        have : Int.ofNat (x - 1).toNat = x - 1 := by simp; omega
        omega
      rwa [hk] at this
    · have hx : x ≠ 0 := by omega
      have hl : 3 ≤ x.natAbs.log2 := log2_ge _ 3 (by omega)
      rw [fromInt_large 3 1 x hx (by simp; omega)]
      have : ¬ x < 0 := by omega
      simp only [this, if_false]
      decide

end UVerif.Fast
