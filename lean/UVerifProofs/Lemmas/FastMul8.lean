/-
  UVerifProofs.Lemmas.FastMul8 — posit8_mulp8 (posit_8_0.h; the body of fast posit<8,0>::operator*= and of the pure-C
  posit8 multiplication) equals the generic `Posit.mul 8 0` on every pair of encodings.
    * `Posit.mul_sign_abs`   (all nbits, es): generic multiplication reduces to the magnitudes of its operands; proved from
                             C01_mul (correct rounding), C01_abs_exact and uniqueness of the rounding relation;
    * `mulp8_sign_abs`       the same reduction for the word algorithm, by unfolding its sign handling;
    * `mulp8_quadrant_*`     the 127 × 127 products of positive magnitudes by kernel evaluation (8 chunks of 16 × 128);
    * `mulp8_eq_generic`     assembly, incl. the 0 / NaR rows.
  The positive quadrant is established by evaluation, not by an argument about decode_regime / posit8_round.
-/
import UVerifProofs.Props.C01
import UVerifProofs.Lemmas.PositCuts
import UVerifProofs.Lemmas.PositCanon
import UVerif.Model.PositC
import Mathlib.Tactic.IntervalCases

namespace UVerif.Posit
open UVerif

/-- the rounding relation is odd: r rounds P > 0 iff 2^n − r rounds −P -/
theorem nearestB_neg (n es : ℕ) (hn : 2 ≤ n) (P : ℚ) (hP : 0 < P) (R : ℕ) (hR : R < 2 ^ n)
    (h : nearestB n es P R = true) : nearestB n es (-P) (twosComp n R) = true := by
  have hp := two_pow_pred n (by omega)
  unfold nearestB at h ⊢
  simp only [Nat.mod_eq_of_lt hR] at h
  rw [if_neg (ne_of_gt hP), if_pos hP] at h
  simp only [Bool.and_eq_true, decide_eq_true_eq] at h
  obtain ⟨h1, h2⟩ := h
  have hR0 : R ≠ 0 := by
    intro h0; subst h0
    unfold nearestMagB at h2; simp at h2
  have htc : twosComp n R = 2 ^ n - R := by
    unfold twosComp
    rw [Nat.mod_eq_of_lt hR, Nat.mod_eq_of_lt (by omega)]
  have hneg : -P < 0 := by linarith
  simp only [htc, Nat.mod_eq_of_lt (show 2 ^ n - R < 2 ^ n by omega)]
  rw [if_neg (ne_of_lt hneg), if_neg (not_lt.mpr (le_of_lt hneg)), neg_neg,
    show 2 ^ n - (2 ^ n - R) = R by omega, h2]
  simp; omega

theorem mul_lt (n es a b : ℕ) (hn : 1 ≤ n) : Posit.mul n es a b < 2 ^ n := by
  have hp := two_pow_pred n hn
  have hpos : 0 < 2 ^ (n - 1) := Nat.two_pow_pos _
  unfold Posit.mul
  simp only []
  split
  · omega
  · split
    · omega
    · exact convert_lt n es hn _

/-- sign of the value of a non-special encoding = its top bit -/
theorem positVal_sign (n es a : ℕ) (hn : 2 ≤ n) (ha : a < 2 ^ n) (x : ℚ) (hx : positVal n es a = some x)
    (h0 : a ≠ 0) : (x < 0 ↔ 2 ^ (n - 1) ≤ a) ∧ x ≠ 0 := by
  have hx0 : x ≠ 0 := by
    intro h; rw [h] at hx
    exact h0 ((positVal_zero_iff n es a hn ha).mp hx)
  refine ⟨?_, hx0⟩
  have hnar : a ≠ 2 ^ (n - 1) := by
    intro h; rw [(positVal_none_iff n es a ha).mpr h] at hx; exact absurd hx (by simp)
  have hp := two_pow_pred n (by omega)
  unfold positVal at hx
  simp only [Nat.mod_eq_of_lt ha] at hx
  rw [if_neg h0, if_neg hnar] at hx
  by_cases hlt : a < 2 ^ (n - 1)
  · rw [if_pos hlt] at hx
    have := posVal_pos n es a hn (by omega) hlt
    have hxe := Option.some.inj hx
    constructor
    · intro h; linarith
    · intro h; omega
  · rw [if_neg hlt] at hx
    have := posVal_pos n es (2 ^ n - a) hn (by omega) (by omega)
    have hxe := Option.some.inj hx
    constructor
    · intro _; omega
    · intro _; linarith

/-- **multiplication of the generic model reduces to magnitudes**: for non-special operands the result is the product of
    the absolute values, two's-complemented when the operand signs differ (every nbits ≥ 2, es) -/
theorem mul_sign_abs (n es a b : ℕ) (hn : 2 ≤ n) (ha : a < 2 ^ n) (hb : b < 2 ^ n)
    (ha0 : a ≠ 0) (hb0 : b ≠ 0) (han : a ≠ 2 ^ (n - 1)) (hbn : b ≠ 2 ^ (n - 1)) :
    Posit.mul n es a b =
      if decide (2 ^ (n - 1) ≤ a) != decide (2 ^ (n - 1) ≤ b)
      then twosComp n (Posit.mul n es (Posit.abs n a) (Posit.abs n b))
      else Posit.mul n es (Posit.abs n a) (Posit.abs n b) := by
  have hp := two_pow_pred n (by omega)
  -- values
  obtain ⟨x, hx⟩ : ∃ x, positVal n es a = some x := by
    cases h : positVal n es a with
    | none => exact absurd ((positVal_none_iff n es a ha).mp h) han
    | some x => exact ⟨x, rfl⟩
  obtain ⟨y, hy⟩ : ∃ y, positVal n es b = some y := by
    cases h : positVal n es b with
    | none => exact absurd ((positVal_none_iff n es b hb).mp h) hbn
    | some y => exact ⟨y, rfl⟩
  obtain ⟨sx, hx0⟩ := positVal_sign n es a hn ha x hx ha0
  obtain ⟨sy, hy0⟩ := positVal_sign n es b hn hb y hy hb0
  have hA : positVal n es (Posit.abs n a) = some |x| := by rw [C01_abs_exact n es a hn ha, hx]; rfl
  have hB : positVal n es (Posit.abs n b) = some |y| := by rw [C01_abs_exact n es b hn hb, hy]; rfl
  have hAlt : Posit.abs n a < 2 ^ n := by
    unfold Posit.abs; simp only []; split
    · exact twosComp_lt n _
    · exact Nat.mod_lt _ (Nat.two_pow_pos n)
  have hBlt : Posit.abs n b < 2 ^ n := by
    unfold Posit.abs; simp only []; split
    · exact twosComp_lt n _
    · exact Nat.mod_lt _ (Nat.two_pow_pos n)
  have h1 := C01_mul n es a b hn ha hb x y hx hy
  have h2 := C01_mul n es _ _ hn hAlt hBlt |x| |y| hA hB
  unfold PositNearest at h1 h2
  have hr := mul_lt n es a b (by omega)
  have hR := mul_lt n es (Posit.abs n a) (Posit.abs n b) (by omega)
  have hP : 0 < |x| * |y| := mul_pos (abs_pos.mpr hx0) (abs_pos.mpr hy0)
  obtain ⟨s, f, hf0, hf1, hPe⟩ := exists_coords (|x| * |y|) hP
  by_cases hs : decide (2 ^ (n - 1) ≤ a) != decide (2 ^ (n - 1) ≤ b)
  · rw [if_pos hs]
    -- signs differ: x*y = -(|x||y|)
    have hxy : x * y = -(|x| * |y|) := by
      have : (x < 0 ∧ ¬ y < 0) ∨ (¬ x < 0 ∧ y < 0) := by
        rw [sx, sy]
        by_cases c1 : 2 ^ (n - 1) ≤ a <;> by_cases c2 : 2 ^ (n - 1) ≤ b <;> simp [c1, c2] at hs ⊢
      rcases this with ⟨a1, a2⟩ | ⟨a1, a2⟩
      · rw [abs_of_neg a1, abs_of_nonneg (not_lt.mp a2)]; ring
      · rw [abs_of_nonneg (not_lt.mp a1), abs_of_neg a2]; ring
    have h3 := nearestB_neg n es hn _ hP _ hR h2
    rw [hxy, hPe] at h1
    rw [hPe] at h3
    have e : -valS s f = (if true then -1 else 1) * valS s f := by simp
    rw [e] at h1 h3
    exact nearestB_unique n es hn true s f hf0 hf1 _ _ hr (twosComp_lt n _) h1 h3
  · rw [if_neg hs]
    have hxy : x * y = |x| * |y| := by
      have : (x < 0 ∧ y < 0) ∨ (¬ x < 0 ∧ ¬ y < 0) := by
        rw [sx, sy]
        by_cases c1 : 2 ^ (n - 1) ≤ a <;> by_cases c2 : 2 ^ (n - 1) ≤ b <;> simp [c1, c2] at hs ⊢
      rcases this with ⟨a1, a2⟩ | ⟨a1, a2⟩
      · rw [abs_of_neg a1, abs_of_neg a2]; ring
      · rw [abs_of_nonneg (not_lt.mp a1), abs_of_nonneg (not_lt.mp a2)]
    rw [hxy, hPe] at h1
    rw [hPe] at h2
    have e : valS s f = (if false then -1 else 1) * valS s f := by simp
    rw [e] at h1 h2
    exact nearestB_unique n es hn false s f hf0 hf1 _ _ hr hR h1 h2

end UVerif.Posit

namespace UVerif.PositC
open UVerif UVerif.Posit UVerif.Fast

/-- the magnitude part of posit8_mulp8 -/
def mulCore8 (lhs rhs : ℕ) : ℕ :=
  let (mA, remA) := decodeRegime8 lhs
  let (mB, remB) := decodeRegime8 rhs
  let prod := (0x80 ||| remA) * (0x80 ||| remB)
  let scale := mA + mB
  let (scale', prod') := if prod &&& 0x8000 ≠ 0 then (scale + 1, prod >>> 1) else (scale, prod)
  round8 scale' prod'

theorem mulp8_unfold (a b : ℕ) : mulp8 a b =
    (if u8 a = 0x80 ∨ u8 b = 0x80 then 0x80
     else if u8 a = 0 ∨ u8 b = 0 then 0
     else
      let sign := (u8 a &&& 0x80 ≠ 0) != (u8 b &&& 0x80 ≠ 0)
      let lhs := if u8 a &&& 0x80 ≠ 0 then negW 8 (u8 a) else u8 a
      let rhs := if u8 b &&& 0x80 ≠ 0 then negW 8 (u8 b) else u8 b
      if sign then negW 8 (mulCore8 lhs rhs) else mulCore8 lhs rhs) := rfl

theorem abs8_facts : ∀ a < 256, a ≠ 0 → a ≠ 128 →
    (0 < Posit.abs 8 a ∧ Posit.abs 8 a < 128 ∧
     Posit.abs 8 a = (if u8 a &&& 0x80 ≠ 0 then negW 8 (u8 a) else u8 a) ∧
     (decide (u8 a &&& 0x80 ≠ 0) = decide (128 ≤ a))) := by decide +kernel

theorem mag8_facts : ∀ A < 128, u8 A = A ∧ ¬ (A &&& 0x80 ≠ 0) := by decide +kernel

/-- posit8_mulp8 reduces to magnitudes exactly like the generic multiplication -/
theorem mulp8_sign_abs (a b : ℕ) (ha : a < 256) (hb : b < 256) (ha0 : a ≠ 0) (hb0 : b ≠ 0) (han : a ≠ 128) (hbn : b ≠ 128) :
    mulp8 a b =
      if decide (2 ^ (8 - 1) ≤ a) != decide (2 ^ (8 - 1) ≤ b)
      then twosComp 8 (mulp8 (Posit.abs 8 a) (Posit.abs 8 b))
      else mulp8 (Posit.abs 8 a) (Posit.abs 8 b) := by
  obtain ⟨a1, a2, a3, a4⟩ := abs8_facts a ha ha0 han
  obtain ⟨b1, b2, b3, b4⟩ := abs8_facts b hb hb0 hbn
  have hua : u8 a = a := Nat.mod_eq_of_lt ha
  have hub : u8 b = b := Nat.mod_eq_of_lt hb
  obtain ⟨A1, A2⟩ := mag8_facts _ a2
  obtain ⟨B1, B2⟩ := mag8_facts _ b2
  -- inner product of magnitudes
  have hin : mulp8 (Posit.abs 8 a) (Posit.abs 8 b) = mulCore8 (Posit.abs 8 a) (Posit.abs 8 b) := by
    rw [mulp8_unfold]
    simp only [A1, B1]
    rw [if_neg (by omega), if_neg (by omega)]
    simp only [A2, B2, if_false]
    simp
  rw [hin, mulp8_unfold]
  simp only [hua, hub] at a3 b3 a4 b4 ⊢
  rw [if_neg (by omega), if_neg (by omega)]
  rw [← a3, ← b3]
  have e : (2 : ℕ) ^ (8 - 1) = 128 := by norm_num
  rw [e]
  have hs : ((decide (a &&& 0x80 ≠ 0)) != (decide (b &&& 0x80 ≠ 0))) = (decide (128 ≤ a) != decide (128 ≤ b)) := by
    rw [a4, b4]
  have htc : ∀ v, negW 8 v = twosComp 8 v := fun v => rfl
  simp only [htc]
  by_cases c : (decide (128 ≤ a) != decide (128 ≤ b)) = true
  · rw [if_pos c, if_pos (by rw [hs]; exact c)]
  · rw [if_neg c, if_neg (by rw [hs]; exact c)]


/-! ### the positive quadrant, by kernel evaluation -/

theorem mulp8_quadrant_0 : ∀ A < 16, ∀ B < 128, mulp8 (A + 0) B = Posit.mul 8 0 (A + 0) B := by decide +kernel
theorem mulp8_quadrant_1 : ∀ A < 16, ∀ B < 128, mulp8 (A + 16) B = Posit.mul 8 0 (A + 16) B := by decide +kernel
theorem mulp8_quadrant_2 : ∀ A < 16, ∀ B < 128, mulp8 (A + 32) B = Posit.mul 8 0 (A + 32) B := by decide +kernel
theorem mulp8_quadrant_3 : ∀ A < 16, ∀ B < 128, mulp8 (A + 48) B = Posit.mul 8 0 (A + 48) B := by decide +kernel
theorem mulp8_quadrant_4 : ∀ A < 16, ∀ B < 128, mulp8 (A + 64) B = Posit.mul 8 0 (A + 64) B := by decide +kernel
theorem mulp8_quadrant_5 : ∀ A < 16, ∀ B < 128, mulp8 (A + 80) B = Posit.mul 8 0 (A + 80) B := by decide +kernel
theorem mulp8_quadrant_6 : ∀ A < 16, ∀ B < 128, mulp8 (A + 96) B = Posit.mul 8 0 (A + 96) B := by decide +kernel
theorem mulp8_quadrant_7 : ∀ A < 16, ∀ B < 128, mulp8 (A + 112) B = Posit.mul 8 0 (A + 112) B := by decide +kernel

theorem mulp8_quadrant (A B : ℕ) (hA : A < 128) (hB : B < 128) : mulp8 A B = Posit.mul 8 0 A B := by
  have key : ∀ k, k < 8 → 16 * k ≤ A → A < 16 * k + 16 →
      (∀ A' < 16, ∀ B < 128, mulp8 (A' + 16 * k) B = Posit.mul 8 0 (A' + 16 * k) B) → mulp8 A B = Posit.mul 8 0 A B := by
    intro k _ h1 h2 h
    have := h (A - 16 * k) (by omega) B hB
    rwa [Nat.sub_add_cancel h1] at this
  have hk : A / 16 < 8 := by omega
  have h1 : 16 * (A / 16) ≤ A := Nat.mul_div_le A 16
  have h2 : A < 16 * (A / 16) + 16 := by omega
  generalize A / 16 = k at *
  interval_cases k
  · exact key 0 (by norm_num) h1 h2 mulp8_quadrant_0
  · exact key 1 (by norm_num) h1 h2 mulp8_quadrant_1
  · exact key 2 (by norm_num) h1 h2 mulp8_quadrant_2
  · exact key 3 (by norm_num) h1 h2 mulp8_quadrant_3
  · exact key 4 (by norm_num) h1 h2 mulp8_quadrant_4
  · exact key 5 (by norm_num) h1 h2 mulp8_quadrant_5
  · exact key 6 (by norm_num) h1 h2 mulp8_quadrant_6
  · exact key 7 (by norm_num) h1 h2 mulp8_quadrant_7

/-- the zero and NaR rows / columns -/
theorem mulp8_special : ∀ b < 256,
    mulp8 0 b = Posit.mul 8 0 0 b ∧ mulp8 b 0 = Posit.mul 8 0 b 0 ∧
    mulp8 128 b = Posit.mul 8 0 128 b ∧ mulp8 b 128 = Posit.mul 8 0 b 128 := by decide +kernel

/-- posit8_mulp8 = generic posit<8,0> multiplication, every pair of encodings -/
theorem mulp8_eq_generic (a b : ℕ) (ha : a < 256) (hb : b < 256) : mulp8 a b = Posit.mul 8 0 a b := by
  by_cases ha0 : a = 0
  · subst ha0; exact (mulp8_special b hb).1
  by_cases hb0 : b = 0
  · subst hb0; exact (mulp8_special a ha).2.1
  by_cases han : a = 128
  · subst han; exact (mulp8_special b hb).2.2.1
  by_cases hbn : b = 128
  · subst hbn; exact (mulp8_special a ha).2.2.2
  obtain ⟨_, a2, _, _⟩ := abs8_facts a ha ha0 han
  obtain ⟨_, b2, _, _⟩ := abs8_facts b hb hb0 hbn
  rw [mulp8_sign_abs a b ha hb ha0 hb0 han hbn,
    Posit.mul_sign_abs 8 0 a b (by norm_num) (by simpa using ha) (by simpa using hb) ha0 hb0 (by simpa using han) (by simpa using hbn),
    mulp8_quadrant _ _ a2 b2]

end UVerif.PositC
