/-
  Lemmas for C11 after the repair wave: the repaired hand-written routines of the fast posit classes and of the pure-C
  posit8 library equal the generic model — posit<2,0>::float_assign (every source of every binary format),
  posit<8,0>::integer_assign (every long long), the clamped unsigned assignments, the signed comparisons of posit8.
-/
import Mathlib.Tactic.Linarith
import Mathlib.Tactic.Positivity
import UVerif.Model.Posit
import UVerif.Model.PositConvFP
import UVerif.Model.FastPosit
import UVerif.Model.PositC
import UVerif.Driver.Posit
import UVerifProofs.Lemmas.Fast
import UVerifProofs.Lemmas.FastConv
import UVerifProofs.Lemmas.PositConvert

namespace UVerif.Fast
open UVerif UVerif.Posit UVerif.FP UVerif.Driver

/-! ### posit<2,0>: the only positive encoding is 1 -/

/-- the generic `convert_` of posit<2,0> returns the encoding 1 for every positive real -/
theorem convert_2_0_pos (scale : Int) (fb frac : Nat) (hfrac : frac < 2 ^ fb) : convert_ 2 0 false scale fb frac = 1 := by
  have h := convert_mag 0 0 scale fb frac hfrac
  obtain ⟨h1, h2, _⟩ := h
  have hm : maxposEnc (0 + 2) = 1 := by decide
  rw [hm] at h2
  have : convert_ (0 + 2) 0 false scale fb frac = 1 := by omega
  simpa using this

theorem convertDyadic_2_0 (neg : Bool) (m : Nat) (e : Int) (hm : m ≠ 0) :
    convertDyadic 2 0 neg m e = if neg then 3 else 1 := by
  unfold convertDyadic
  simp only [hm, if_false]
  have hlo : 2 ^ m.log2 ≤ m := Nat.log2_self_le hm
  have hhi : m < 2 ^ (m.log2 + 1) := Nat.lt_log2_self
  have hfrac : m - 2 ^ m.log2 < 2 ^ m.log2 := by
    rw [Nat.pow_succ] at hhi; omega
  cases neg
  · simp only [Bool.false_eq_true, if_false]
    exact convert_2_0_pos _ _ _ hfrac
  · rw [convert_sign, convert_2_0_pos _ _ _ hfrac]
    decide

theorem dyadic_pos (m : Nat) (e : Int) (hm : m ≠ 0) : 0 < dyadic (m : Int) e := by
  unfold dyadic
  have h1 : (0 : Rat) < ((m : Int) : Rat) := by
    have : 0 < m := Nat.pos_of_ne_zero hm
    exact_mod_cast this
  have h2 : (0 : Rat) < pow2 e := by
    unfold pow2
    split
    · positivity
    · positivity
  exact mul_pos h1 h2

/-- posit<2,0>::float_assign = generic conversion, for every bit pattern of every binary format -/
theorem assignFP_2_0_eq_generic (eb fb bits : Nat) : assignFP_2_0 eb fb bits = fromFP 2 0 eb fb bits := by
  unfold assignFP_2_0 fromFP
  cases hd : FP.decode eb fb bits with
  | nan => rfl
  | inf s => rfl
  | fin neg m e =>
    simp only
    by_cases hm : m = 0
    · subst hm
      have : convertDyadic 2 0 neg 0 e = 0 := by unfold convertDyadic; simp
      rw [this]
      simp [dyadic]
    · rw [convertDyadic_2_0 neg m e hm]
      have hp := dyadic_pos m e hm
      cases neg
      · have h1 : ¬ ((1 : Rat) * dyadic (m : Int) e < 0) := by linarith
        have h2 : ¬ ((1 : Rat) * dyadic (m : Int) e = 0) := by linarith
        simp only [Bool.false_eq_true, if_false, h1, h2]
      · have h1 : ((-1 : Rat) * dyadic (m : Int) e < 0) := by linarith
        simp only [if_true, h1]

/-! ### posit<8,0>::integer_assign with the guard `v > 48 || (sign && v == rhs)` -/

theorem integerAssign8_small_pos : ∀ k : Nat, k < 127 → integerAssign8 (Int.ofNat k + 1) = fromInt 8 0 (Int.ofNat k + 1) := by
  decide +kernel

theorem integerAssign8_eq_generic (x : Int) (hlo : -(2:Int)^63 < x) (hhi : x < (2:Int)^63) : integerAssign8 x = fromInt 8 0 x := by
  by_cases h0 : x = 0
  · subst h0; decide
  by_cases hneg : x < 0
  · exact integerAssign8_neg_eq_generic x hneg hlo
  · by_cases hsmall : x ≤ 127
    · have := integerAssign8_small_pos (x - 1).toNat (by omega)
      have hk : Int.ofNat (x - 1).toNat + 1 = x := by
        have : Int.ofNat (x - 1).toNat = x - 1 := by simp; omega
        omega
      rwa [hk] at this
    · have hl : 7 ≤ x.natAbs.log2 := log2_ge _ 7 (by omega)
      rw [fromInt_large 8 0 x h0 (by simp; omega)]
      unfold integerAssign8 integerAssign8With
      simp only [h0, if_false, hneg, decide_false, Bool.false_eq_true]
      rw [toSigned_ofSigned_64' x (by omega) (by omega)]
      have h48 : x > 48 := by omega
      simp only [h48, true_or, if_true]
      decide

/-- posit<8,2>::integer_assign still has the guard `v > 48 || v == rhs`: every positive argument ↦ maxpos -/
theorem integerAssign8_2_pos (x : Int) (h0 : 0 < x) (h1 : x < (2:Int)^63) : integerAssign8_2 x = 0x7F := by
  unfold integerAssign8_2 integerAssign8With
  have hne : x ≠ 0 := by omega
  have hs : ¬ (x < 0) := by omega
  simp only [hne, if_false, hs, decide_false, Bool.false_eq_true]
  rw [toSigned_ofSigned_64 x (by omega) h1]
  simp

/-! ### unsigned sources: `rhs > LLONG_MAX ? LLONG_MAX : (long long)rhs` followed by the signed routine -/

/-- the clamp of the repaired `operator=(unsigned long long)` -/
def clampU (x : Nat) : Int := if x > 0x7FFFFFFFFFFFFFFF then 0x7FFFFFFFFFFFFFFF else (x : Int)

theorem fromUInt_ge_2p63 (n es : Nat) (x : Nat) (h1 : 2 ^ 63 ≤ x) (hr : (n - 2) * 2 ^ es < 62) :
    fromUInt n es x = maxposEnc n ∧ fromInt n es 0x7FFFFFFFFFFFFFFF = maxposEnc n := by
  constructor
  · unfold fromUInt
    have hx : (x : Int) ≠ 0 := by omega
    have hl : 63 ≤ x.log2 := log2_ge _ 63 h1
    rw [fromInt_large n es x hx (by simp; omega)]
    have : ¬ ((x : Int) < 0) := by omega
    simp only [this, if_false]
  · have hl : 62 ≤ (0x7FFFFFFFFFFFFFFF : Int).natAbs.log2 := log2_ge _ 62 (by decide)
    rw [fromInt_large n es 0x7FFFFFFFFFFFFFFF (by decide) (by omega)]
    simp

/-- a signed routine that equals the generic conversion on [0, 2^63) equals the generic UNSIGNED conversion after the clamp -/
theorem clamp_agree (n es : Nat) (f : Int → Nat) (hr : (n - 2) * 2 ^ es < 62)
    (hf : ∀ y : Int, 0 ≤ y → y < (2:Int)^63 → f y = fromInt n es y) (x : Nat) :
    f (clampU x) = fromUInt n es x := by
  unfold clampU
  by_cases hx : x > 0x7FFFFFFFFFFFFFFF
  · simp only [hx, if_true]
    obtain ⟨h1, h2⟩ := fromUInt_ge_2p63 n es x (by omega) hr
    rw [hf _ (by decide) (by decide), h1, h2]
  · simp only [hx, if_false]
    rw [hf _ (by omega) (by omega)]
    rfl

/-! ### pure C posit8: signed comparisons -/

theorem relMask8_eq_generic (a b : Nat) : PositC.relMask8 a b = cmpMaskModel 8 a b := by
  unfold PositC.relMask8 cmpMaskModel Posit.eq Posit.lt
  have hiff := toSigned_eq_iff 8 a b
  have ha : toSigned 8 (a % 256) = toSigned 8 a := by unfold toSigned; simp
  have hb : toSigned 8 (b % 256) = toSigned 8 b := by unfold toSigned; simp
  simp only [ha, hb]
  have h256 : (2:Nat) ^ 8 = 256 := by decide
  rw [h256] at hiff ⊢
  by_cases h1 : toSigned 8 a < toSigned 8 b
  · have hne : ¬ (a % 256 = b % 256) := fun h => by have := hiff.mpr h; omega
    have h2 : ¬ (toSigned 8 b < toSigned 8 a) := by omega
    have h3 : toSigned 8 a ≤ toSigned 8 b := by omega
    have h4 : ¬ (toSigned 8 a ≥ toSigned 8 b) := by omega
    have h5 : ¬ (toSigned 8 a > toSigned 8 b) := by omega
    simp [h1, h2, h3, h4, hne]
  · by_cases h2 : toSigned 8 b < toSigned 8 a
    · have hne : ¬ (a % 256 = b % 256) := fun h => by have := hiff.mpr h; omega
      have h3 : ¬ (toSigned 8 a ≤ toSigned 8 b) := by omega
      have h4 : toSigned 8 a ≥ toSigned 8 b := by omega
      have h5 : toSigned 8 a > toSigned 8 b := by omega
      simp [h1, h2, h3, h4, hne]
    · have heq : a % 256 = b % 256 := hiff.mp (by omega)
      have h3 : toSigned 8 a ≤ toSigned 8 b := by omega
      have h4 : toSigned 8 a ≥ toSigned 8 b := by omega
      have h5 : ¬ (toSigned 8 a > toSigned 8 b) := by omega
      simp [h1, h2, h3, h4, heq]

theorem cmpp8_eq_generic (a b : Nat) :
    PositC.cmpp8 a b = (if Posit.lt 8 b a then 1 else if Posit.lt 8 a b then -1 else 0) := by
  unfold PositC.cmpp8 Posit.lt
  have ha : toSigned 8 (a % 256) = toSigned 8 a := by unfold toSigned; simp
  have hb : toSigned 8 (b % 256) = toSigned 8 b := by unfold toSigned; simp
  simp only [ha, hb, decide_eq_true_eq]
  by_cases h1 : toSigned 8 b < toSigned 8 a
  · have h2 : ¬ (toSigned 8 a < toSigned 8 b) := by omega
    have h3 : toSigned 8 a > toSigned 8 b := by omega
    simp [h1, h2]
  · by_cases h2 : toSigned 8 a < toSigned 8 b
    · have h3 : ¬ (toSigned 8 a > toSigned 8 b) := by omega
      simp [h1, h2]
    · have h3 : ¬ (toSigned 8 a > toSigned 8 b) := by omega
      simp [h1, h2]

end UVerif.Fast
