/-
  Lemmas about the fixpnt<nbits,rbits,Modulo|Saturate,bt> limb model (UVerif.Model.Fixpnt).
-/
import UVerifProofs.Lemmas.BB

namespace UVerif.Fixpnt
open UVerif UVerif.Limbs

variable {w n : Nat}

/-- limb widths covered for a fixpnt of n bits whose widest intermediate has `m` bits:
    the blockbinary static_assert (`uint64_t` only as a single block) -/
def Ok (w m : Nat) : Prop := w ≠ 64 ∨ nrBlocks w m = 1

theorem Ok.mono {w m m' : Nat} (h : Ok w m) (hle : m' ≤ m) : Ok w m' := by
  rcases h with h | h
  · exact Or.inl h
  · right
    have h1 := nrBlocks_mono (w := w) hle
    have h2 := nrBlocks_pos w m'
    omega

theorem clamp_le_maxpos {z : Int} (h : FixpntSpec.maxposZ n ≤ z) : FixpntSpec.clamp n z = FixpntSpec.maxposZ n := by
  unfold FixpntSpec.clamp
  by_cases h1 : z > FixpntSpec.maxposZ n
  · rw [if_pos h1]
  · rw [if_neg h1]
    have : z = FixpntSpec.maxposZ n := by omega
    have hlt : FixpntSpec.maxnegZ n ≤ FixpntSpec.maxposZ n := by
      unfold FixpntSpec.maxnegZ FixpntSpec.maxposZ
      have : (0 : Int) < ((2 ^ (n - 1) : Nat) : Int) := by exact_mod_cast Nat.two_pow_pos (n - 1)
      omega
    rw [if_neg (by omega), this]

theorem clamp_le_maxneg {z : Int} (h1 : ¬ FixpntSpec.maxposZ n ≤ z) (h : z ≤ FixpntSpec.maxnegZ n) :
    FixpntSpec.clamp n z = FixpntSpec.maxnegZ n := by
  unfold FixpntSpec.clamp
  rw [if_neg (by omega)]
  by_cases h2 : z < FixpntSpec.maxnegZ n
  · rw [if_pos h2]
  · rw [if_neg h2]; omega

theorem clamp_inside {z : Int} (h1 : ¬ FixpntSpec.maxposZ n ≤ z) (h2 : ¬ z ≤ FixpntSpec.maxnegZ n) : FixpntSpec.clamp n z = z := by
  unfold FixpntSpec.clamp
  rw [if_neg (by omega), if_neg (by omega)]

/-- shared tail of the Saturate branches of `+=` and `-=`: compare the exact (n+1)-bit result with maxpos / maxneg -/
def satTail (w n : Nat) (c : List Nat) : List Nat :=
  if BB.ge w (n + 1) c (BB.assign w (n + 1) n (BB.maxpos w n)) then BB.assign w n (n + 1) (BB.assign w (n + 1) n (BB.maxpos w n))
  else if BB.le w (n + 1) c (BB.assign w (n + 1) n (BB.maxneg w n)) then BB.assign w n (n + 1) (BB.assign w (n + 1) n (BB.maxneg w n))
  else BB.assign w n (n + 1) c

theorem saturate_tail (hw : 0 < w) (hn : 0 < n) (h64 : Ok w (n + 1)) {c : List Nat} {z : Int}
    (hc : Canon w (n + 1) c) (hz : toInt w (n + 1) c = z) :
    Canon w n (satTail w n c) ∧ toNat w (satTail w n c) = FixpntSpec.finish n true z := by
  unfold satTail
  generalize hN : n + 1 = N at *
  generalize hsatP : BB.assign w N n (BB.maxpos w n) = satP
  generalize hsatN : BB.assign w N n (BB.maxneg w n) = satN
  obtain ⟨mp, mpv⟩ := BB.maxpos_toInt (w := w) hw hn
  obtain ⟨mn, mnv⟩ := BB.maxneg_toInt (w := w) hw hn
  obtain ⟨sp, spv⟩ := BB.assign_widen (n := N) hw hn (by omega) mp
  obtain ⟨sn, snv⟩ := BB.assign_widen (n := N) hw hn (by omega) mn
  rw [mpv, hsatP] at spv
  rw [mnv, hsatN] at snv
  rw [hsatP] at sp
  rw [hsatN] at sn
  have hN : 0 < N := by omega
  have hge : BB.ge w N c satP = decide (FixpntSpec.maxposZ n ≤ z) := by
    rw [BB.ge_spec hw hN h64 hc sp, spv, hz]
  have hle : BB.le w N c satN = decide (z ≤ FixpntSpec.maxnegZ n) := by
    rw [BB.le_spec hw hN h64 hc sn, snv, hz]
  have hpos : (0 : Int) < M2 (n - 1) := M2_pos _
  have fin : ∀ (d : List Nat) (v : Int), Canon w N d → toInt w N d = v → FixpntSpec.maxnegZ n ≤ v → v ≤ FixpntSpec.maxposZ n →
      Canon w n (BB.assign w n N d) ∧ toNat w (BB.assign w n N d) = ofSigned n v := by
    intro d v hd hdv h1 h2
    obtain ⟨hc', hv'⟩ := BB.assign_spec (n := n) hw hn hN hd
    refine ⟨hc', ?_⟩
    rw [hv']; unfold toInt at hdv; rw [hdv]
  unfold FixpntSpec.finish
  simp only [if_true]
  have hmm : FixpntSpec.maxnegZ n ≤ FixpntSpec.maxposZ n := by
    unfold FixpntSpec.maxnegZ FixpntSpec.maxposZ
    have : (0 : Int) < ((2 ^ (n - 1) : Nat) : Int) := by exact_mod_cast Nat.two_pow_pos (n - 1)
    omega
  by_cases h1 : FixpntSpec.maxposZ n ≤ z
  · rw [hge, decide_eq_true h1, if_pos rfl, clamp_le_maxpos h1]
    exact fin _ _ sp spv hmm (le_refl _)
  · rw [hge, decide_eq_false h1, if_neg (by simp)]
    by_cases h2 : z ≤ FixpntSpec.maxnegZ n
    · rw [hle, decide_eq_true h2, if_pos rfl, clamp_le_maxneg h1 h2]
      exact fin _ _ sn snv (le_refl _) hmm
    · rw [hle, decide_eq_false h2, if_neg (by simp), clamp_inside h1 h2]
      exact fin _ _ hc hz (by omega) (by omega)

/-- `operator+=`: exact sum, wrapped (Modulo) or clamped (Saturate) -/
theorem add_spec (hw : 0 < w) (hn : 0 < n) (h64 : Ok w (n + 1)) (sat : Bool) {a b : List Nat}
    (ha : Canon w n a) (hb : Canon w n b) :
    Canon w n (add w n sat a b) ∧ toNat w (add w n sat a b) = FixpntSpec.add n sat (toNat w a) (toNat w b) := by
  unfold add FixpntSpec.add FixpntSpec.val
  cases sat
  · simp only [Bool.not_false, if_true]
    obtain ⟨hc, hv⟩ := BB.add_spec hw hn (h64.mono (by omega)) ha.shape hb.shape
    refine ⟨hc, ?_⟩
    unfold FixpntSpec.finish
    rw [hv, ofSigned_add]; simp
  · simp only [Bool.not_true, Bool.false_eq_true, if_false]
    obtain ⟨hc, hv⟩ := BB.uradd_spec hw hn h64 ha hb
    exact saturate_tail hw hn h64 hc hv

/-- `operator-=` -/
theorem sub_spec (hw : 0 < w) (hn : 0 < n) (h64 : Ok w (n + 1)) (sat : Bool) {a b : List Nat}
    (ha : Canon w n a) (hb : Canon w n b) :
    Canon w n (sub w n sat a b) ∧ toNat w (sub w n sat a b) = FixpntSpec.sub n sat (toNat w a) (toNat w b) := by
  unfold sub FixpntSpec.sub FixpntSpec.val
  cases sat
  · simp only [Bool.not_false, if_true]
    obtain ⟨hc, hv⟩ := BB.sub_spec hw hn (h64.mono (by omega)) ha.shape hb.shape
    refine ⟨hc, ?_⟩
    unfold FixpntSpec.finish
    change toNat w (BB.sub w n a b) = _
    rw [hv, ofSigned_sub]; simp
  · simp only [Bool.not_true, Bool.false_eq_true, if_false]
    obtain ⟨hc, hv⟩ := BB.ursub_spec hw hn h64 ha hb
    exact saturate_tail hw hn h64 hc hv

theorem setbits_one_toNat (hw : 0 < w) (hn : 0 < n) : Canon w n (BB.setbits w n 1) ∧ toNat w (BB.setbits w n 1) = 1 :=
  BB.setbits_one_spec hw hn

theorem val_one (hn : 1 < n) : FixpntSpec.val n 1 = 1 := by
  unfold FixpntSpec.val
  rw [toSigned_of_lt (by omega) (Nat.one_lt_two_pow (by omega)), if_pos (Nat.one_lt_two_pow (by omega))]
  rfl

/-- `operator++` / `operator--`: one ulp up / down in the configuration's arithmetic (n ≥ 2) -/
theorem inc_spec (hw : 0 < w) (hn : 1 < n) (h64 : Ok w (n + 1)) (sat : Bool) {a : List Nat} (ha : Canon w n a) :
    Canon w n (inc w n sat a) ∧ toNat w (inc w n sat a) = FixpntSpec.inc n sat (toNat w a) := by
  obtain ⟨h1, h1v⟩ := setbits_one_toNat (w := w) hw (by omega : 0 < n)
  obtain ⟨hc, hv⟩ := add_spec hw (by omega) h64 sat ha h1
  refine ⟨hc, ?_⟩
  unfold inc FixpntSpec.inc
  rw [hv, h1v]
  unfold FixpntSpec.add
  rw [val_one hn]

theorem dec_spec (hw : 0 < w) (hn : 1 < n) (h64 : Ok w (n + 1)) (sat : Bool) {a : List Nat} (ha : Canon w n a) :
    Canon w n (dec w n sat a) ∧ toNat w (dec w n sat a) = FixpntSpec.dec n sat (toNat w a) := by
  obtain ⟨h1, h1v⟩ := setbits_one_toNat (w := w) hw (by omega : 0 < n)
  obtain ⟨hc, hv⟩ := sub_spec hw (by omega) h64 sat ha h1
  refine ⟨hc, ?_⟩
  unfold dec FixpntSpec.dec
  rw [hv, h1v]
  unfold FixpntSpec.sub
  rw [val_one hn]

/-- the six comparison operators of fixpnt agree with the order of the values -/
theorem cmpMask_spec (hw : 0 < w) (hn : 0 < n) (h64 : Ok w n) {a b : List Nat} (ha : Canon w n a) (hb : Canon w n b) :
    cmpMask w n a b = FixpntSpec.cmpMask n (toNat w a) (toNat w b) := by
  unfold cmpMask FixpntSpec.cmpMask FixpntSpec.val
  simp only
  have heq : (a == b) = decide (toSigned n (toNat w a) = toSigned n (toNat w b)) := Integer.eq_spec ha hb
  rw [heq, BB.lt_spec hw hn h64 ha hb, BB.lt_spec hw hn h64 hb ha]
  generalize toSigned n (toNat w a) = x
  generalize toSigned n (toNat w b) = y
  rcases lt_trichotomy x y with h | h | h
  · have h1 : ¬ x = y := by omega
    have h2 : ¬ y < x := by omega
    have h3 : x ≤ y := by omega
    have h4 : ¬ x ≥ y := by omega
    have h5 : ¬ x > y := by omega
    simp [h, h1, h2, h3, h4, h5]
  · subst h
    simp
  · have h1 : ¬ x = y := by omega
    have h2 : ¬ x < y := by omega
    have h3 : ¬ x ≤ y := by omega
    have h4 : x ≥ y := by omega
    have h5 : x > y := by omega
    simp [h, h1, h2, h3, h4, h5]

theorem clamp_inside' {z : Int} (h1 : FixpntSpec.maxnegZ n ≤ z) (h2 : z ≤ FixpntSpec.maxposZ n) : FixpntSpec.clamp n z = z := by
  unfold FixpntSpec.clamp
  rw [if_neg (by omega), if_neg (by omega)]

/-- unary minus in Saturate arithmetic: two's complement, except that maxneg is replaced by maxpos — the exact negation clamped -/
theorem neg_spec_sat (hw : 0 < w) (hn : 0 < n) (h64 : Ok w n) {a : List Nat} (ha : Canon w n a) :
    Canon w n (neg w n true a) ∧ toNat w (neg w n true a) = FixpntSpec.neg n true (toNat w a) := by
  obtain ⟨ht, htv⟩ := BB.twosC_spec hw hn h64 ha.shape
  obtain ⟨hmn, hmnv⟩ := BB.maxneg_spec (w := w) hw hn
  obtain ⟨hf, hfv⟩ := BB.flip_spec hw hn ht.shape
  have hA := ha.2.2
  have hp : 2 ^ n = 2 ^ (n - 1) * 2 := by rw [← Nat.pow_succ]; congr 1; omega
  have hpos := Nat.two_pow_pos (n - 1)
  have hmx : (BB.twosC w n a == BB.maxneg w n) = decide (toNat w (BB.twosC w n a) = 2 ^ (n - 1)) := by
    by_cases h : BB.twosC w n a = BB.maxneg w n
    · simp [h, hmnv]
    · have : toNat w (BB.twosC w n a) ≠ 2 ^ (n - 1) := fun e => h (toNat_inj ht.2.1 hmn.2.1 (by rw [ht.1, hmn.1]) (by rw [e, hmnv]))
      simp [h, this]
  unfold neg FixpntSpec.neg FixpntSpec.finish FixpntSpec.val
  simp only [if_true, Bool.true_and]
  rw [hmx]
  rw [Nat.mod_eq_of_lt hA] at htv
  have hx := toSigned_of_lt hn hA
  have c1 : ((2 ^ n : Nat) : Int) = 2 * ((2 ^ (n - 1) : Nat) : Int) := by rw [hp]; push_cast; ring
  have c2 : ((toNat w a : Nat) : Int) < ((2 ^ n : Nat) : Int) := by exact_mod_cast hA
  have c3 : (0 : Int) < ((2 ^ (n - 1) : Nat) : Int) := by exact_mod_cast hpos
  by_cases hmax : toNat w a = 2 ^ (n - 1)
  · -- maxneg: two's complement is maxneg again, flipped to maxpos; the clamp of +2^(n-1) is maxpos too
    have htv' : toNat w (BB.twosC w n a) = 2 ^ (n - 1) := by
      rw [htv, hmax, hp]
      rw [show 2 ^ (n - 1) * 2 - 2 ^ (n - 1) = 2 ^ (n - 1) by omega, Nat.mod_eq_of_lt (by omega)]
    rw [htv', decide_eq_true rfl, if_pos rfl]
    refine ⟨hf, ?_⟩
    rw [hfv, htv', Nat.mod_eq_of_lt (by omega)]
    have hxv : toSigned n (toNat w a) = -((2 ^ (n - 1) : Nat) : Int) := by
      rw [hx, if_neg (by omega), hmax, c1]; ring
    have hcl : FixpntSpec.clamp n (-(toSigned n (toNat w a))) = FixpntSpec.maxposZ n := by
      apply clamp_le_maxpos
      unfold FixpntSpec.maxposZ
      rw [hxv]; omega
    rw [hcl]
    unfold FixpntSpec.maxposZ
    have : (((2 ^ (n - 1) : Nat) : Int) - 1) = ((2 ^ (n - 1) - 1 : Nat) : Int) := by rw [Nat.cast_sub hpos]; simp
    rw [this, ofSigned_natCast, Nat.mod_eq_of_lt (by omega), hp]
    omega
  · have hne : toNat w (BB.twosC w n a) ≠ 2 ^ (n - 1) := by
      rw [htv]
      by_cases h0 : toNat w a = 0
      · rw [h0, Nat.sub_zero, Nat.mod_self]; omega
      · rw [Nat.mod_eq_of_lt (by omega)]; omega
    rw [decide_eq_false hne, if_neg (by simp)]
    refine ⟨ht, ?_⟩
    -- −x is inside the range, so the clamp is the identity and the wrap is the two's complement
    have hmax' : ((toNat w a : Nat) : Int) ≠ ((2 ^ (n - 1) : Nat) : Int) := by exact_mod_cast hmax
    have hcl : FixpntSpec.clamp n (-(toSigned n (toNat w a))) = -(toSigned n (toNat w a)) := by
      apply clamp_inside'
      · unfold FixpntSpec.maxnegZ
        rw [hx]
        by_cases h : toNat w a < 2 ^ (n - 1)
        · have : ((toNat w a : Nat) : Int) < ((2 ^ (n - 1) : Nat) : Int) := by exact_mod_cast h
          rw [if_pos h]; omega
        · have : ((2 ^ (n - 1) : Nat) : Int) ≤ ((toNat w a : Nat) : Int) := by exact_mod_cast (Nat.le_of_not_lt h)
          rw [if_neg h]; omega
      · unfold FixpntSpec.maxposZ
        rw [hx]
        by_cases h : toNat w a < 2 ^ (n - 1)
        · have : ((toNat w a : Nat) : Int) < ((2 ^ (n - 1) : Nat) : Int) := by exact_mod_cast h
          rw [if_pos h]; omega
        · have : ((2 ^ (n - 1) : Nat) : Int) ≤ ((toNat w a : Nat) : Int) := by exact_mod_cast (Nat.le_of_not_lt h)
          rw [if_neg h]; omega
    rw [hcl, ofSigned_neg, Nat.mod_eq_of_lt hA, htv]

/-- unary minus in Modulo arithmetic: the two's complement, i.e. the exact negation wrapped (−maxneg = maxneg) -/
theorem neg_spec_mod (hw : 0 < w) (hn : 0 < n) (h64 : Ok w n) {a : List Nat} (ha : Canon w n a) :
    Canon w n (neg w n false a) ∧ toNat w (neg w n false a) = FixpntSpec.neg n false (toNat w a) := by
  obtain ⟨ht, htv⟩ := BB.twosC_spec hw hn h64 ha.shape
  unfold neg FixpntSpec.neg FixpntSpec.finish FixpntSpec.val
  simp only [Bool.false_and, Bool.false_eq_true, if_false]
  exact ⟨ht, by rw [htv, ofSigned_neg]⟩

/-- unary minus: the exact negation, wrapped in Modulo and clamped in Saturate arithmetic -/
theorem neg_spec (hw : 0 < w) (hn : 0 < n) (h64 : Ok w n) (sat : Bool) {a : List Nat} (ha : Canon w n a) :
    Canon w n (neg w n sat a) ∧ toNat w (neg w n sat a) = FixpntSpec.neg n sat (toNat w a) := by
  cases sat
  · exact neg_spec_mod hw hn h64 ha
  · exact neg_spec_sat hw hn h64 ha

/-- the rounding decision of the code, read on the pattern, is the round-half-even increment of the exact value -/
theorem roundUp_rne (hw : 0 < w) {M r : Nat} {c : List Nat} (hc : Canon w M c) (hM : 0 < M) (hr : r < M) {p : Int}
    (hp : toInt w M c = p) :
    rne ((p : Rat) / ((2 ^ r : Nat) : Rat)) = p / ((2 ^ r : Nat) : Int) + (if BB.roundingMode w M c r then 1 else 0) := by
  rw [rne_int_div p (2 ^ r) (Nat.two_pow_pos r), BB.roundingMode_spec hw hc.2.1 hr]
  have hC : ((toNat w c : Nat) : Int) ≡ p [ZMOD M2 M] := by
    rw [← hp]; unfold toInt; exact (modEq_toSigned M (toNat w c)).symm
  obtain ⟨b1, b2⟩ := BB.round_bridge hC hr
  congr 1
  generalize toNat w c = C at *
  have hcast : ((2 ^ r : Nat) : Int) = (((2 ^ r : Nat)) : Int) := rfl
  rw [← b1]
  have e1 : (2 * ((C % 2 ^ r : Nat) : Int) > ((2 ^ r : Nat) : Int)) ↔ 2 * (C % 2 ^ r) > 2 ^ r := by
    constructor
    · intro h; exact_mod_cast h
    · intro h; exact_mod_cast h
  have e2 : (2 * ((C % 2 ^ r : Nat) : Int) = ((2 ^ r : Nat) : Int)) ↔ 2 * (C % 2 ^ r) = 2 ^ r := by
    constructor
    · intro h; exact_mod_cast h
    · intro h; exact_mod_cast h
  by_cases h1 : 2 * (C % 2 ^ r) > 2 ^ r
  · rw [if_pos (Or.inl (e1.mpr h1))]
    simp [h1]
  · by_cases h2 : 2 * (C % 2 ^ r) = 2 ^ r
    · by_cases h3 : C.testBit r = true
      · rw [if_pos (Or.inr ⟨e2.mpr h2, b2.mp h3⟩)]
        simp [h1, h2, h3]
      · have h3' : C.testBit r = false := by simpa using h3
        rw [if_neg]
        · simp [h1, h3']
        · rintro (h | ⟨_, h⟩)
          · exact h1 (e1.mp h)
          · exact h3 (b2.mpr h)
    · rw [if_neg]
      · simp [h1, h2]
      · rintro (h | ⟨h, _⟩)
        · exact h1 (e1.mp h)
        · exact h2 (e2.mp h)

/-- narrowing `assign` of a pattern congruent to `z`: the n-bit wrap of `z` -/
theorem assign_wrap {M : Nat} (hw : 0 < w) (hn : 0 < n) (hM : 0 < M) (hle : n ≤ M) {c : List Nat} (hc : Canon w M c) {z : Int}
    (hz : ((toNat w c : Nat) : Int) ≡ z [ZMOD M2 M]) :
    Canon w n (BB.assign w n M c) ∧ toNat w (BB.assign w n M c) = ofSigned n z := by
  obtain ⟨ha, hv⟩ := BB.assign_spec (n := n) hw hn hM hc
  refine ⟨ha, ?_⟩
  rw [hv]
  apply ofSigned_congr
  rw [← Int.modEq_iff_dvd]
  exact (modEq_of_le hle ((modEq_toSigned M _).trans hz)).symm

/-- `++c` on a 2n-bit product: congruent to the value plus one -/
theorem inc_modEq {M : Nat} (hw : 0 < w) (hM : 0 < M) (h64 : Ok w M) {c : List Nat} (hc : Canon w M c) {z : Int}
    (hz : toInt w M c = z) (ru : Bool) :
    Canon w M (if ru then BB.inc w M c else c) ∧
    ((toNat w (if ru then BB.inc w M c else c) : Nat) : Int) ≡ z + (if ru then 1 else 0) [ZMOD M2 M] := by
  have hcz : ((toNat w c : Nat) : Int) ≡ z [ZMOD M2 M] := by
    rw [← hz]; unfold toInt; exact (modEq_toSigned M _).symm
  cases ru
  · simp only [Bool.false_eq_true, if_false, add_zero]
    exact ⟨hc, hcz⟩
  · simp only [if_true]
    obtain ⟨hi, hiv⟩ := BB.inc_spec hw hM h64 hc.shape
    refine ⟨hi, ?_⟩
    rw [hiv]
    refine (modEq_natMod _ _).trans ?_
    push_cast
    exact hcz.add (Int.ModEq.refl 1)

/-- `operator*=`: the exact product of the raw integers divided by 2^rbits, rounded to nearest even,
    then wrapped (Modulo) or clamped (Saturate); the saturation test before the rounding increment is harmless -/
theorem mul_spec (hw : 0 < w) (hn : 0 < n) {r : Nat} (hr : r ≤ n) (h64 : Ok w (2 * n)) (sat : Bool) {a b : List Nat}
    (ha : Canon w n a) (hb : Canon w n b) :
    Canon w n (mul w n r sat a b) ∧ toNat w (mul w n r sat a b) = FixpntSpec.mul n r sat (toNat w a) (toNat w b) := by
  have hM : 0 < 2 * n := by omega
  have hrM : r < 2 * n := by omega
  obtain ⟨cc, vc⟩ := BB.urmul2_spec hw hn h64 ha hb
  have hrne := roundUp_rne hw cc hM hrM vc
  obtain ⟨cs, vs⟩ := BB.shr_spec hw hM cc hrM
  rw [vc] at vs
  unfold mul FixpntSpec.mul FixpntSpec.mulExact FixpntSpec.val
  simp only
  have e1 : toSigned n (toNat w a) = toInt w n a := rfl
  have e2 : toSigned n (toNat w b) = toInt w n b := rfl
  rw [e1, e2]
  generalize hp : toInt w n a * toInt w n b = p at *
  rw [hrne]
  generalize hru : BB.roundingMode w (2 * n) (BB.urmul2 w n a b) r = ru at *
  generalize hc' : BB.shr w (2 * n) (BB.urmul2 w n a b) (r : Int) = c' at *
  generalize hF : p / ((2 ^ r : Nat) : Int) = F at *
  obtain ⟨ci, vi⟩ := inc_modEq hw hM h64 cs vs ru
  cases sat
  · -- Modulo
    simp only [Bool.not_false, if_true]
    unfold FixpntSpec.finish
    simp only [Bool.false_eq_true, if_false]
    exact assign_wrap hw hn hM (by omega) ci vi
  · -- Saturate
    simp only [Bool.not_true, Bool.false_eq_true, if_false]
    unfold FixpntSpec.finish
    simp only [if_true]
    obtain ⟨mp, mpv⟩ := BB.maxpos_toInt (w := w) hw hn
    obtain ⟨mn, mnv⟩ := BB.maxneg_toInt (w := w) hw hn
    obtain ⟨sp, spv⟩ := BB.assign_widen (n := 2 * n) hw hn (by omega) mp
    obtain ⟨sn, snv⟩ := BB.assign_widen (n := 2 * n) hw hn (by omega) mn
    rw [mpv] at spv
    rw [mnv] at snv
    have hge : BB.ge w (2 * n) c' (BB.assign w (2 * n) n (BB.maxpos w n)) = decide (FixpntSpec.maxposZ n ≤ F) := by
      rw [BB.ge_spec hw hM h64 cs sp, spv, vs]
    have hlt : BB.lt w (2 * n) c' (BB.assign w (2 * n) n (BB.maxneg w n)) = decide (F < FixpntSpec.maxnegZ n) := by
      rw [BB.lt_spec' hw hM h64 cs sn, snv, vs]
    have hmm : FixpntSpec.maxnegZ n ≤ FixpntSpec.maxposZ n := by
      unfold FixpntSpec.maxnegZ FixpntSpec.maxposZ
      have : (0 : Int) < ((2 ^ (n - 1) : Nat) : Int) := by exact_mod_cast Nat.two_pow_pos (n - 1)
      omega
    have hmm' : FixpntSpec.maxnegZ n < FixpntSpec.maxposZ n := by
      unfold FixpntSpec.maxnegZ FixpntSpec.maxposZ
      have : (0 : Int) < ((2 ^ (n - 1) : Nat) : Int) := by exact_mod_cast Nat.two_pow_pos (n - 1)
      omega
    have hru01 : (0 : Int) ≤ (if ru then 1 else 0) ∧ (if ru then (1 : Int) else 0) ≤ 1 := by cases ru <;> simp
    have satfin : ∀ (d : List Nat) (v : Int), Canon w (2 * n) d → toInt w (2 * n) d = v →
        Canon w n (BB.assign w n (2 * n) d) ∧ toNat w (BB.assign w n (2 * n) d) = ofSigned n v := by
      intro d v hd hdv
      apply assign_wrap hw hn hM (by omega) hd
      rw [← hdv]; unfold toInt; exact (modEq_toSigned _ _).symm
    by_cases h1 : FixpntSpec.maxposZ n ≤ F
    · rw [hge, decide_eq_true h1, if_pos rfl, clamp_le_maxpos (by omega : FixpntSpec.maxposZ n ≤ F + (if ru then 1 else 0))]
      exact satfin _ _ sp spv
    · rw [hge, decide_eq_false h1, if_neg (by simp)]
      by_cases h2 : F < FixpntSpec.maxnegZ n
      · rw [hlt, decide_eq_true h2, if_pos rfl,
          clamp_le_maxneg (by omega : ¬ FixpntSpec.maxposZ n ≤ F + (if ru then 1 else 0)) (by omega : F + (if ru then 1 else 0) ≤ FixpntSpec.maxnegZ n)]
        exact satfin _ _ sn snv
      · rw [hlt, decide_eq_false h2, if_neg (by simp), clamp_inside' (by omega) (by omega)]
        exact assign_wrap hw hn hM (by omega) ci vi

/-- rounding the truncated (n extra bits) quotient of the magnitudes is rounding the exact quotient -/
theorem rne_quotient (X Y r : Nat) (hY : 0 < Y) (hn : 0 < n) (hYn : Y ≤ 2 ^ (n - 1)) :
    rne ((((X * 2 ^ r : Nat) : Int) : Rat) / (Y : Rat))
      = rne ((((X * 2 ^ r * 2 ^ n / Y : Nat) : Int) : Rat) / ((2 ^ n : Nat) : Rat)) := by
  rw [rne_int_div' _ Y hY, rne_int_div' _ (2 ^ n) (Nat.two_pow_pos n)]
  obtain ⟨h1, h2⟩ := div_no_tie (X * 2 ^ r) Y n hY hn hYn
  rw [h1] at h2
  rw [← Int.natCast_ediv, ← Int.natCast_ediv, ← Int.natCast_mod, ← Int.natCast_mod, h1, h2]

/-- a non-negative canonical value that stays below the sign bit: signed and unsigned readings coincide -/
theorem toInt_of_small {M : Nat} (hM : 0 < M) {c : List Nat} (h : toNat w c < 2 ^ (M - 1)) : toInt w M c = ((toNat w c : Nat) : Int) := by
  unfold toInt; exact Integer.toSigned_small hM h

/-- the scaled magnitude operand of `operator/=`: widen to `M` bits, take the magnitude, shift left by `s` -/
theorem operand_spec {M s : Nat} (hw : 0 < w) (hn : 0 < n) (h64 : Ok w M) (hle : n + s < M) {a : List Nat} (ha : Canon w n a) :
    let d0 := BB.assign w M n a
    let d1 := if BB.sign w M d0 then BB.twosC w M d0 else d0
    let d2 := BB.shl w M d1 (s : Int)
    ∃ X : Nat, (X : Int) = |toInt w n a| ∧ X ≤ 2 ^ (n - 1) ∧ Canon w M d2 ∧ toNat w d2 = X * 2 ^ s ∧ toInt w M d2 = ((X * 2 ^ s : Nat) : Int) := by
  intro d0 d1 d2
  have hM : 0 < M := by omega
  obtain ⟨c0, v0⟩ := BB.assign_widen (n := M) hw hn (by omega) ha
  obtain ⟨r1, r2⟩ := BB.toInt_range (w := w) hn a
  have hmono : M2 (n - 1) < M2 (M - 1) := by
    unfold M2; exact_mod_cast Nat.pow_lt_pow_right (by omega) (by omega)
  obtain ⟨c1, v1n, v1i⟩ := BB.abs_in_place hw hM h64 c0 (by rw [v0]; omega)
  rw [v0] at v1n v1i
  have hXle : toNat w d1 ≤ 2 ^ (n - 1) := by
    have := BB.abs_le_half (w := w) hn a
    rw [← v1n] at this
    unfold M2 at this; exact_mod_cast this
  have hfit : toNat w d1 * 2 ^ s < 2 ^ (M - 1) := by
    have h1 : toNat w d1 * 2 ^ s ≤ 2 ^ (n - 1) * 2 ^ s := Nat.mul_le_mul_right _ hXle
    rw [← Nat.pow_add] at h1
    exact Nat.lt_of_le_of_lt h1 (Nat.pow_lt_pow_right (by omega) (by omega))
  have hfit' : toNat w d1 * 2 ^ s < 2 ^ M := Nat.lt_of_lt_of_le hfit (Nat.pow_le_pow_right (by omega) (by omega))
  obtain ⟨c2, v2⟩ := BB.shl_nonneg_spec hw hM c1 (d := s) (by omega) hfit'
  refine ⟨toNat w d1, v1n, hXle, c2, v2, ?_⟩
  rw [toInt_of_small hM (by rw [v2]; exact hfit), v2]

/-- sign handling on the specification side: the exact quotient is ± the quotient of the magnitudes -/
theorem rne_divExact {r : Nat} {x y : Int} {X Y : Nat} (hX : (X : Int) = |x|) (hY : (Y : Int) = |y|) (hy : y ≠ 0) :
    rne (((x * ((2 ^ r : Nat) : Int) : Int) : Rat) / ((y : Int) : Rat))
      = (if decide (x < 0) == decide (y < 0) then 1 else -1) * rne ((((X * 2 ^ r : Nat) : Int) : Rat) / (Y : Rat)) := by
  have hYpos : 0 < Y := by
    have : (0 : Int) < (Y : Int) := by rw [hY]; exact abs_pos.mpr hy
    exact_mod_cast this
  have hYq : ((Y : Nat) : Rat) ≠ 0 := by exact_mod_cast (ne_of_gt hYpos)
  have hxs := Integer.signed_of_abs hX
  have hys := Integer.signed_of_abs hY
  by_cases hx : x < 0 <;> by_cases hyn : y < 0
  · -- both negative
    rw [decide_eq_true hx] at hxs
    rw [decide_eq_true hyn] at hys
    simp only [if_true] at hxs hys
    have : ((x * ((2 ^ r : Nat) : Int) : Int) : Rat) / ((y : Int) : Rat) = (((X * 2 ^ r : Nat) : Int) : Rat) / (Y : Rat) := by
      rw [hxs, hys]; push_cast; rw [neg_mul, neg_div_neg_eq]
    rw [this, decide_eq_true hx, decide_eq_true hyn]; simp
  · rw [decide_eq_true hx] at hxs
    rw [decide_eq_false hyn] at hys
    simp only [if_true, Bool.false_eq_true, if_false] at hxs hys
    have : ((x * ((2 ^ r : Nat) : Int) : Int) : Rat) / ((y : Int) : Rat) = ((-((X * 2 ^ r : Nat) : Int) : Int) : Rat) / (Y : Rat) := by
      rw [hxs, hys]; push_cast; ring
    rw [this, rne_neg_div _ _ hYpos, decide_eq_true hx, decide_eq_false hyn]; simp
  · rw [decide_eq_false hx] at hxs
    rw [decide_eq_true hyn] at hys
    simp only [if_true, Bool.false_eq_true, if_false] at hxs hys
    have : ((x * ((2 ^ r : Nat) : Int) : Int) : Rat) / ((y : Int) : Rat) = ((-((X * 2 ^ r : Nat) : Int) : Int) : Rat) / (Y : Rat) := by
      rw [hxs, hys]; push_cast; rw [div_neg, neg_div]
    rw [this, rne_neg_div _ _ hYpos, decide_eq_false hx, decide_eq_true hyn]; simp
  · rw [decide_eq_false hx] at hxs
    rw [decide_eq_false hyn] at hys
    simp only [Bool.false_eq_true, if_false] at hxs hys
    have : ((x * ((2 ^ r : Nat) : Int) : Int) : Rat) / ((y : Int) : Rat) = (((X * 2 ^ r : Nat) : Int) : Rat) / (Y : Rat) := by
      rw [hxs, hys]; push_cast; ring
    rw [this, decide_eq_false hx, decide_eq_false hyn]; simp

/-- `operator/=` in Modulo mode: the exact quotient a·2^rbits / b rounded to nearest even, wrapped into n bits -/
theorem div_spec (hw : 0 < w) (hn : 0 < n) {r : Nat} (hr : r ≤ n) (h64 : Ok w (2 * n + 2 * r + 2 * n + 1)) {a b : List Nat}
    (ha : Canon w n a) (hb : Canon w n b) (hb0 : toNat w b ≠ 0) :
    Canon w n (div w n r false a b) ∧
      toNat w (div w n r false a b) = FixpntSpec.div n r false (toNat w a) (toNat w b) := by
  generalize hAb : 2 * n + 2 * r + 2 * n = Ab at *
  have hAbpos : 0 < Ab := by omega
  have h64A : Ok w Ab := h64.mono (by omega)
  obtain ⟨X, hX, hXle, cD, vD, iD⟩ := operand_spec (M := Ab) (s := 2 * (r + n)) hw hn h64A (by omega) ha
  obtain ⟨Y, hY, hYle, cE, vE, iE⟩ := operand_spec (M := Ab) (s := r + n) hw hn h64A (by omega) hb
  have hy0 : toInt w n b ≠ 0 := by
    intro e
    have := ofSigned_toSigned_of_lt hb.2.2
    unfold toInt at e
    rw [e] at this
    exact hb0 (by rw [← this]; simp [ofSigned])
  have hYpos : 0 < Y := by
    have : (0 : Int) < (Y : Int) := by rw [hY]; exact abs_pos.mpr hy0
    exact_mod_cast this
  -- the quotient of the scaled magnitudes
  have hE0 : toNat w (BB.shl w Ab (if BB.sign w Ab (BB.assign w Ab n b) then BB.twosC w Ab (BB.assign w Ab n b) else BB.assign w Ab n b) ((r + n : Nat) : Int)) ≠ 0 := by
    rw [vE]; exact Nat.mul_ne_zero (by omega) (by have := Nat.two_pow_pos (r + n); omega)
  obtain ⟨cq, _, vq, _⟩ := BB.divrem_spec hw hAbpos h64A (fun _ => h64) cD cE hE0
  generalize hq : BB.divrem w Ab _ _ false = q at cq vq
  rw [iD, iE, ← Int.ofNat_tdiv] at vq
  have hQeq : X * 2 ^ (2 * (r + n)) / (Y * 2 ^ (r + n)) = X * 2 ^ r * 2 ^ n / Y := by
    have : X * 2 ^ (2 * (r + n)) = X * 2 ^ r * 2 ^ n * 2 ^ (r + n) := by
      rw [show 2 * (r + n) = r + n + (r + n) by omega, Nat.pow_add, Nat.pow_add]; ring
    rw [this, Nat.mul_div_mul_right _ _ (Nat.two_pow_pos (r + n))]
  rw [hQeq] at vq
  generalize hQ : X * 2 ^ r * 2 ^ n / Y = Q at *
  have hQlt : Q < 2 ^ (Ab - 1) := by
    have h1 : Q ≤ X * 2 ^ r * 2 ^ n := by rw [← hQ]; exact Nat.div_le_self _ _
    have h2 : X * 2 ^ r * 2 ^ n ≤ 2 ^ (n - 1) * 2 ^ r * 2 ^ n := Nat.mul_le_mul_right _ (Nat.mul_le_mul_right _ hXle)
    rw [← Nat.pow_add, ← Nat.pow_add] at h2
    exact Nat.lt_of_le_of_lt (Nat.le_trans h1 h2) (Nat.pow_lt_pow_right (by omega) (by omega))
  have hQlt' : Q < 2 ^ Ab := Nat.lt_of_lt_of_le hQlt (Nat.pow_le_pow_right (by omega) (by omega))
  rw [ofSigned_natCast, Nat.mod_eq_of_lt hQlt'] at vq
  have iq : toInt w Ab q = ((Q : Nat) : Int) := by rw [toInt_of_small hAbpos (by rw [vq]; exact hQlt), vq]
  -- rounding
  have hnA : n < Ab := by omega
  have hrne := roundUp_rne hw cq hAbpos hnA iq
  obtain ⟨cs, vs⟩ := BB.shr_spec hw hAbpos cq hnA
  rw [iq] at vs
  obtain ⟨ci, vi⟩ := inc_modEq hw hAbpos h64A cs vs (BB.roundingMode w Ab q n)
  -- the specification side
  have hspec := rne_divExact (r := r) hX hY hy0
  rw [rne_quotient X Y r hYpos hn hYle, hQ, hrne] at hspec
  -- assemble
  unfold div FixpntSpec.div FixpntSpec.finish FixpntSpec.divExact FixpntSpec.val
  simp only [Bool.false_eq_true, if_false]
  rw [hAb, hq]
  have ex : toSigned n (toNat w a) = toInt w n a := rfl
  have ey : toSigned n (toNat w b) = toInt w n b := rfl
  rw [ex, ey, hspec, BB.sign_neg hw hn ha, BB.sign_neg hw hn hb, ex, ey]
  generalize hz : ((Q : Int) / ((2 ^ n : Nat) : Int) + if BB.roundingMode w Ab q n = true then 1 else 0) = z at *
  generalize hq'' : (if BB.roundingMode w Ab q n = true then BB.inc w Ab (BB.shr w Ab q (n : Int)) else BB.shr w Ab q (n : Int)) = q'' at *
  by_cases hx : toInt w n a < 0 <;> by_cases hyn : toInt w n b < 0 <;>
    simp only [hx, hyn, decide_true, decide_false, Bool.not_true, Bool.not_false, Bool.and_true, Bool.and_false, Bool.true_and,
      Bool.false_and, Bool.or_false, Bool.false_or, Bool.or_true, if_true, if_false, Bool.false_eq_true, beq_self_eq_true,
      Bool.true_eq_false, one_mul, neg_mul, BEq.rfl, beq_iff_eq, reduceCtorEq]
  · exact assign_wrap hw hn hAbpos (by omega) ci vi
  · obtain ⟨ht, htv⟩ := BB.twosC_spec hw hAbpos h64A ci.shape
    refine assign_wrap hw hn hAbpos (by omega) ht ?_
    rw [htv]
    refine (modEq_neg_nat _ _).trans ?_
    exact vi.neg
  · obtain ⟨ht, htv⟩ := BB.twosC_spec hw hAbpos h64A ci.shape
    refine assign_wrap hw hn hAbpos (by omega) ht ?_
    rw [htv]
    refine (modEq_neg_nat _ _).trans ?_
    exact vi.neg
  · exact assign_wrap hw hn hAbpos (by omega) ci vi

end UVerif.Fixpnt
