import UVerif.Model.PositConv
import UVerif.Spec.Ieee
import UVerifProofs.Lemmas.Pow2

open UVerif UVerif.Posit

/-- value denoted by an extracted (sign, scale, fraction) triple with `mb` fraction bits -/
def srcVal' (mb : Nat) (s : Bool) (sc : Int) (fr : Nat) : ℚ :=
  let m : ℚ := (1 + (fr : ℚ) / ((2 ^ mb : Nat) : ℚ)) * pow2 sc
  if s then -m else m

/-- The frexp-style field extraction of a finite non-zero IEEE source (normal OR subnormal, any exponent and
    mantissa width) denotes the source value exactly. -/
theorem C03_classifyIeee_exact' (eb mb bits : Nat) (s : Bool) (sc : Int) (fr : Nat)
    (h : classifyIeee eb mb bits = .fin s sc fr) :
    ieeeVal eb mb bits = some (srcVal' mb s sc fr) := by
  unfold classifyIeee at h
  unfold ieeeVal
  simp only at h ⊢
  generalize (2 : Int) ^ (eb - 1) - 1 = B at *
  set E := (bits >>> mb) % 2 ^ eb with hE
  set M := bits % 2 ^ mb with hM
  have hMlt : M < 2 ^ mb := Nat.mod_lt _ (Nat.two_pow_pos _)
  by_cases hEmax : E = 2 ^ eb - 1
  · simp only [hEmax, if_true] at h; split at h <;> cases h
  · simp only [hEmax, if_false] at h ⊢
    by_cases hE0 : E = 0
    · simp only [hE0, if_true] at h ⊢
      by_cases hM0 : M = 0
      · simp [hM0] at h
      · simp only [hM0, if_false] at h
        injection h with hs hsc hfr
        subst hs; subst hsc; subst hfr
        have hlo : 2 ^ M.log2 ≤ M := Nat.log2_self_le hM0
        have hhi : M < 2 ^ (M.log2 + 1) := Nat.lt_log2_self
        have hmsb : M.log2 < mb := by
          by_contra hc
          have := Nat.pow_le_pow_right (show 0 < 2 by decide) (show mb ≤ M.log2 by omega)
          omega
        congr 1
        unfold srcVal' dyadic
        simp only [Nat.shiftLeft_eq]
        have hval : (1 + (((M - 2 ^ M.log2) * 2 ^ (mb - M.log2) : Nat) : ℚ) / ((2 ^ mb : Nat) : ℚ))
            * pow2 ((M.log2 : Int) - B + 1 - (mb : Int))
            = ((M : Int) : ℚ) * pow2 (1 - B - (mb : Int)) := by
          have e1 : ((M.log2 : Int) - B + 1 - (mb : Int)) = (1 - B - (mb : Int)) + ((M.log2 : Nat) : Int) := by ring
          rw [e1, pow2_add, pow2_natCast]
          have hmbs : (2 ^ mb : Nat) = 2 ^ (mb - M.log2) * 2 ^ M.log2 := by rw [← Nat.pow_add]; congr 1; omega
          rw [hmbs]
          push_cast [Nat.cast_sub hlo]
          have p1 : (0 : ℚ) < 2 ^ (mb - M.log2) := by positivity
          have p2 : (0 : ℚ) < 2 ^ M.log2 := by positivity
          field_simp
          ring
        simp only [hval]
    · simp only [hE0, if_false] at h ⊢
      injection h with hs hsc hfr
      subst hs; subst hsc; subst hfr
      congr 1
      unfold srcVal' dyadic
      have hval : (1 + (M : ℚ) / ((2 ^ mb : Nat) : ℚ)) * pow2 ((E : Int) - B)
          = (((2 ^ mb + M : Nat) : Int) : ℚ) * pow2 ((E : Int) - B - (mb : Int)) := by
        have e1 : ((E : Int) - B) = ((E : Int) - B - (mb : Int)) + ((mb : Nat) : Int) := by ring
        conv_lhs => rw [e1, pow2_add, pow2_natCast]
        push_cast
        have p1 : (0 : ℚ) < 2 ^ mb := by positivity
        field_simp
      simp only [hval]

