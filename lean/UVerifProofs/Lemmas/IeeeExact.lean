/-
  UVerifProofs.Lemmas.IeeeExact — exactness layer for `UVerif.IeeeBits` (round-to-nearest-even on bit patterns):
  `encodeRound` returns exactly M·2^e whenever that value is representable (`encodeRound_exact_of_repr`); hence `add`, `fmul`,
  `pow2Bits` are exact on representable results, `negate` only flips the sign, and the fraction loop of areal::to_native
  accumulates the fraction bits exactly (`fracLoop_val`).
-/
import UVerif.Model.IeeeBits
import UVerifProofs.Lemmas.ArealVal
import Mathlib.Tactic.Linarith
import Mathlib.Tactic.Ring
import Mathlib.Tactic.Positivity
import Mathlib.Tactic.SplitIfs
import Mathlib.Tactic.NormNum

set_option linter.unusedSimpArgs false
set_option linter.unusedVariables false

namespace UVerif.IeeeLemmas
open UVerif UVerif.IeeeBits UVerif.ArealLemmas

/-- fields of an assembled pattern `sign | E | fr` -/
theorem pattern_fields (f : Fmt) (s : Bool) {E fr : Nat} (hE : E < 2 ^ f.ebits) (hfr : fr < 2 ^ f.fbits) :
    let p := (if s then 2 ^ (f.ebits + f.fbits) else 0) + E * 2 ^ f.fbits + fr
    expOf f p = E ∧ fracOf f p = fr ∧ signOf f p = s := by
  intro p
  have hFp : 0 < 2 ^ f.fbits := Nat.two_pow_pos _
  have hsplit : 2 ^ (f.ebits + f.fbits) = 2 ^ f.ebits * 2 ^ f.fbits := Nat.pow_add _ _ _
  have hp : p = ((if s then 2 ^ f.ebits else 0) + E) * 2 ^ f.fbits + fr := by
    show (if s then 2 ^ (f.ebits + f.fbits) else 0) + E * 2 ^ f.fbits + fr = _
    cases s <;> simp [hsplit] <;> ring
  refine ⟨?_, ?_, ?_⟩
  · unfold expOf
    rw [Nat.shiftRight_eq_div_pow, hp, Nat.add_comm, Nat.add_mul_div_right _ _ hFp, Nat.div_eq_of_lt hfr, Nat.zero_add]
    cases s
    · simpa using Nat.mod_eq_of_lt hE
    · simp only [if_true]; rw [Nat.add_mod_left]; exact Nat.mod_eq_of_lt hE
  · unfold fracOf
    rw [hp, Nat.add_comm, Nat.add_mul_mod_self_right]; exact Nat.mod_eq_of_lt hfr
  · unfold signOf
    have hrest : E * 2 ^ f.fbits + fr < 2 ^ (f.ebits + f.fbits) := by
      rw [hsplit]
      have : (E + 1) * 2 ^ f.fbits ≤ 2 ^ f.ebits * 2 ^ f.fbits := Nat.mul_le_mul_right _ (by omega)
      rw [Nat.add_mul] at this; omega
    show ((if s then 2 ^ (f.ebits + f.fbits) else 0) + E * 2 ^ f.fbits + fr).testBit (f.ebits + f.fbits) = s
    cases s
    · simp only [Bool.false_eq_true, if_false, Nat.zero_add]; exact Nat.testBit_lt_two_pow hrest
    · simp only [if_true]
      rw [Nat.add_assoc, Nat.testBit_two_pow_add_eq, Nat.testBit_lt_two_pow hrest]; rfl

def eMin (f : Fmt) : Int := 1 - (f.bias : Int) - (f.fbits : Int)

/-- the pattern of a normalised significand/exponent pair -/
def pack (f : Fmt) (neg : Bool) (Mr : Nat) (er : Int) : Nat :=
  let sgn := if neg then 2 ^ (f.ebits + f.fbits) else 0
  if Mr < 2 ^ f.fbits then sgn + Mr
  else sgn + (er - eMin f + 1).toNat * 2 ^ f.fbits + (Mr - 2 ^ f.fbits)

theorem eAll_pos (f : Fmt) (hf : 1 ≤ f.ebits) : 1 ≤ f.eAll ∧ f.eAll < 2 ^ f.ebits := by
  unfold Fmt.eAll
  have : 2 ^ 1 ≤ 2 ^ f.ebits := Nat.pow_le_pow_right (by omega) hf
  omega

/-- value, sign and finiteness of a packed pair -/
theorem pack_val (f : Fmt) (hf : 1 ≤ f.ebits) (neg : Bool) (Mr : Nat) (er : Int)
    (hMr : Mr < 2 ^ (f.fbits + 1))
    (hsub : Mr < 2 ^ f.fbits → er = eMin f)
    (hnorm : 2 ^ f.fbits ≤ Mr → eMin f ≤ er ∧ er - eMin f + 1 < (f.eAll : Int)) :
    isFinite f (pack f neg Mr er) = true ∧ signOf f (pack f neg Mr er) = neg ∧
    mant f (pack f neg Mr er) = Mr ∧ ulpExp f (pack f neg Mr er) = er := by
  obtain ⟨ha1, ha2⟩ := eAll_pos f hf
  unfold pack
  by_cases h : Mr < 2 ^ f.fbits
  · have her := hsub h
    simp only [h, if_true]
    have hp := pattern_fields f neg (E := 0) (fr := Mr) (Nat.two_pow_pos _) h
    simp only [Nat.zero_mul, Nat.add_zero] at hp
    obtain ⟨p1, p2, p3⟩ := hp
    refine ⟨?_, p3, ?_, ?_⟩
    · unfold isFinite; rw [p1]; simp; omega
    · unfold mant; rw [p1, p2]; simp
    · unfold ulpExp; rw [p1, her]; unfold eMin; simp
  · have hge : 2 ^ f.fbits ≤ Mr := by omega
    obtain ⟨h1, h2⟩ := hnorm hge
    simp only [h, if_false]
    obtain ⟨E, hE⟩ : ∃ E : Nat, er - eMin f + 1 = (E : Int) := ⟨(er - eMin f + 1).toNat, by omega⟩
    rw [hE, Int.toNat_natCast]
    have hE1 : 1 ≤ E := by omega
    have hE2 : E < f.eAll := by omega
    have hfr : Mr - 2 ^ f.fbits < 2 ^ f.fbits := by rw [Nat.pow_succ] at hMr; omega
    obtain ⟨p1, p2, p3⟩ := pattern_fields f neg (E := E) (fr := Mr - 2 ^ f.fbits) (by omega) hfr
    refine ⟨?_, p3, ?_, ?_⟩
    · unfold isFinite; rw [p1]; simp; omega
    · unfold mant; rw [p1, p2, if_neg (by omega)]; omega
    · unfold ulpExp; rw [p1, show Nat.max E 1 = E from Nat.max_eq_left hE1]; unfold eMin at hE; omega

theorem rneShr_of_dvd {M d : Nat} (h : 2 ^ d ∣ M) : rneShr M d = M / 2 ^ d := by
  unfold rneShr
  have hr : M % 2 ^ d = 0 := Nat.mod_eq_zero_of_dvd h
  have hp : 0 < 2 ^ d := Nat.two_pow_pos _
  simp only [hr, Nat.shiftRight_eq_div_pow]
  simp [hp]

/-- `encodeRound` reduces to `pack` of an equal-valued normalised pair when nothing has to be rounded away -/
theorem encodeRound_eq_pack (f : Fmt) (hf : 1 ≤ f.ebits) (neg : Bool) (M : Nat) (e : Int) (hM : 0 < M)
    (hdiv : 0 < max (((Nat.log2 M + 1 : Nat) : Int) - ((f.fbits : Int) + 1)) (eMin f - e) →
      2 ^ (max (((Nat.log2 M + 1 : Nat) : Int) - ((f.fbits : Int) + 1)) (eMin f - e)).toNat ∣ M)
    (hrange : e + (Nat.log2 M : Int) ≤ (f.bias : Int)) :
    ∃ Mr er, encodeRound f neg M e = pack f neg Mr er ∧ (Mr : Rat) * pow2 er = (M : Rat) * pow2 e ∧
      Mr < 2 ^ (f.fbits + 1) ∧ (Mr < 2 ^ f.fbits → er = eMin f) ∧
      (2 ^ f.fbits ≤ Mr → eMin f ≤ er ∧ er - eMin f + 1 < (f.eAll : Int)) := by
  have hlog1 : 2 ^ Nat.log2 M ≤ M := Nat.log2_self_le (by omega)
  have hlog2 : M < 2 ^ (Nat.log2 M + 1) := Nat.lt_log2_self
  have hall : (f.eAll : Int) = 2 * (f.bias : Int) + 1 := by
    unfold Fmt.eAll Fmt.bias
    have h1 : 2 ^ f.ebits = 2 * 2 ^ (f.ebits - 1) := by
      rw [show f.ebits = (f.ebits - 1) + 1 by omega, Nat.pow_succ]; simp; ring
    have h2 : 0 < 2 ^ (f.ebits - 1) := Nat.two_pow_pos _
    omega
  generalize hL : Nat.log2 M = l at *
  generalize hdrop : max (((l + 1 : Nat) : Int) - ((f.fbits : Int) + 1)) (eMin f - e) = drop at *
  have hd1 : ((l + 1 : Nat) : Int) - ((f.fbits : Int) + 1) ≤ drop := by omega
  have hd2 : eMin f - e ≤ drop := by omega
  have hd3 : drop = ((l + 1 : Nat) : Int) - ((f.fbits : Int) + 1) ∨ drop = eMin f - e := by omega
  have hF1 : 2 ^ (f.fbits + 1) = 2 * 2 ^ f.fbits := by rw [Nat.pow_succ]; ring
  unfold encodeRound
  simp only [show M ≠ 0 by omega, if_false, hL]
  have heMin : (1 : Int) - (f.bias : Int) - (f.fbits : Int) = eMin f := rfl
  simp only [heMin, hdrop]
  by_cases hpos : 0 < drop
  · -- low bits are dropped, and they are zero
    obtain ⟨d, hd⟩ : ∃ d : Nat, drop = (d : Int) := ⟨drop.toNat, by omega⟩
    have hdv := hdiv hpos
    rw [hd, Int.toNat_natCast] at hdv
    obtain ⟨Mq, hMq⟩ := hdv
    have hp2 : 0 < 2 ^ d := Nat.two_pow_pos _
    have hq : M / 2 ^ d = Mq := by rw [hMq]; exact Nat.mul_div_cancel_left _ hp2
    have hdl : d ≤ l := by
      have h1 : 2 ^ d ≤ M := Nat.le_of_dvd hM ⟨Mq, hMq⟩
      have h2 : 2 ^ d < 2 ^ (l + 1) := Nat.lt_of_le_of_lt h1 hlog2
      have := (Nat.pow_lt_pow_iff_right (show 1 < 2 by omega)).mp h2
      omega
    have hMq_lt : Mq < 2 ^ (l + 1 - d) := by
      have : 2 ^ d * Mq < 2 ^ d * 2 ^ (l + 1 - d) := by
        rw [← hMq, ← Nat.pow_add, show d + (l + 1 - d) = l + 1 by omega]; exact hlog2
      exact Nat.lt_of_mul_lt_mul_left this
    have hMq_ge : 2 ^ (l - d) ≤ Mq := by
      have : 2 ^ d * 2 ^ (l - d) ≤ 2 ^ d * Mq := by
        rw [← hMq, ← Nat.pow_add, show d + (l - d) = l by omega]; exact hlog1
      exact Nat.le_of_mul_le_mul_left this hp2
    have hle : 2 ^ (l + 1 - d) ≤ 2 ^ (f.fbits + 1) := Nat.pow_le_pow_right (by omega) (by omega)
    have fsub : Mq < 2 ^ f.fbits → e + drop = eMin f := by
      intro hsub
      rcases hd3 with h | h
      · exfalso
        have : l - d = f.fbits := by omega
        rw [this] at hMq_ge; omega
      · omega
    have fnorm : 2 ^ f.fbits ≤ Mq → eMin f ≤ e + drop ∧ e + drop - eMin f + 1 < (f.eAll : Int) := by
      intro hge
      refine ⟨by omega, ?_⟩
      have : l + 1 - d = f.fbits + 1 := by
        by_contra hne
        have hlt : l + 1 - d ≤ f.fbits := by omega
        have : 2 ^ (l + 1 - d) ≤ 2 ^ f.fbits := Nat.pow_le_pow_right (by omega) hlt
        omega
      omega
    refine ⟨Mq, e + drop, ?_, ?_, by omega, fsub, fnorm⟩
    · simp only [hd, show ((d : Int) > 0) by omega, if_true, Int.toNat_natCast, rneShr_of_dvd ⟨Mq, hMq⟩, hq,
        if_neg (show ¬ Mq = 2 ^ (f.fbits + 1) by omega)]
      unfold pack
      by_cases hs : Mq < 2 ^ f.fbits
      · simp only [hs, if_true]
      · simp only [hs, if_false]
        have := (fnorm (by omega)).2
        rw [hd] at this
        rw [if_neg (by omega)]
    · rw [hMq, hd, pow2_add_nat]; push_cast; ring
  · -- nothing is dropped: shift left by t = -drop
    obtain ⟨t, ht⟩ : ∃ t : Nat, drop = -(t : Int) := ⟨(-drop).toNat, by omega⟩
    have hMr_lt : M * 2 ^ t < 2 ^ (l + 1 + t) := by
      rw [Nat.pow_add]; exact Nat.mul_lt_mul_of_pos_right hlog2 (Nat.two_pow_pos _)
    have hMr_ge : 2 ^ (l + t) ≤ M * 2 ^ t := by
      rw [Nat.pow_add]; exact Nat.mul_le_mul_right _ hlog1
    have hle : 2 ^ (l + 1 + t) ≤ 2 ^ (f.fbits + 1) := Nat.pow_le_pow_right (by omega) (by omega)
    have fsub : M * 2 ^ t < 2 ^ f.fbits → e + drop = eMin f := by
      intro hsub
      rcases hd3 with h | h
      · exfalso
        have : l + t = f.fbits := by omega
        rw [this] at hMr_ge; omega
      · omega
    have fnorm : 2 ^ f.fbits ≤ M * 2 ^ t → eMin f ≤ e + drop ∧ e + drop - eMin f + 1 < (f.eAll : Int) := by
      intro hge
      refine ⟨by omega, ?_⟩
      have : l + 1 + t = f.fbits + 1 := by
        by_contra hne
        have hlt : l + 1 + t ≤ f.fbits := by omega
        have : 2 ^ (l + 1 + t) ≤ 2 ^ f.fbits := Nat.pow_le_pow_right (by omega) hlt
        omega
      omega
    refine ⟨M * 2 ^ t, e + drop, ?_, ?_, by omega, fsub, fnorm⟩
    · simp only [ht, show ¬ (-(t : Int) > 0) by omega, if_false, neg_neg, Int.toNat_natCast, Nat.shiftLeft_eq,
        if_neg (show ¬ M * 2 ^ t = 2 ^ (f.fbits + 1) by omega)]
      unfold pack
      by_cases hs : M * 2 ^ t < 2 ^ f.fbits
      · simp only [hs, if_true]
      · simp only [hs, if_false]
        have := (fnorm (by omega)).2
        rw [ht] at this
        rw [if_neg (by omega)]
    · have : e = (e + drop) + (t : Int) := by omega
      rw [this, pow2_add_nat]
      have : e + drop + ↑t + drop = e + drop := by omega
      push_cast; ring_nf
      rw [show e + drop * 2 + (t : Int) = e + drop by omega]

theorem log2_mul_two_pow {M : Nat} (hM : 0 < M) (k : Nat) : Nat.log2 (M * 2 ^ k) = Nat.log2 M + k := by
  have h1 : 2 ^ Nat.log2 M ≤ M := Nat.log2_self_le (by omega)
  have h2 : M < 2 ^ (Nat.log2 M + 1) := Nat.lt_log2_self
  have hpos : 0 < M * 2 ^ k := Nat.mul_pos hM (Nat.two_pow_pos _)
  rw [Nat.log2_eq_iff (by omega)]
  constructor
  · rw [Nat.pow_add]; exact Nat.mul_le_mul_right _ h1
  · rw [show Nat.log2 M + k + 1 = (Nat.log2 M + 1) + k by omega, Nat.pow_add]
    exact Nat.mul_lt_mul_of_pos_right h2 (Nat.two_pow_pos _)

/-- two dyadics with the same value: the one with the smaller exponent has the larger significand -/
theorem dyadic_eq_nat {M M0 : Nat} {e e0 : Int} (h : (M : Rat) * pow2 e = (M0 : Rat) * pow2 e0) (hle : e ≤ e0) :
    M = M0 * 2 ^ (e0 - e).toNat := by
  obtain ⟨k, hk⟩ : ∃ k : Nat, e0 = e + k := ⟨(e0 - e).toNat, by omega⟩
  have : (e0 - e).toNat = k := by omega
  rw [this]
  rw [hk, pow2_add_nat] at h
  have hp := pow2_pos e
  have h' : (M : Rat) = (M0 : Rat) * ((2 ^ k : Nat) : Rat) := by
    have : (M : Rat) * pow2 e = ((M0 : Rat) * ((2 ^ k : Nat) : Rat)) * pow2 e := by rw [h]; ring
    exact mul_right_cancel₀ (ne_of_gt hp) this
  exact_mod_cast h'

/-- exactness of `encodeRound` stated on values: if M·2^e equals a dyadic M0·2^e0 that fits the format, the result has
    exactly that value -/
theorem encodeRound_exact_of_repr (f : Fmt) (hf : 1 ≤ f.ebits) (neg : Bool) (M : Nat) (e : Int) (hM : 0 < M)
    (M0 : Nat) (e0 : Int) (hval : (M : Rat) * pow2 e = (M0 : Rat) * pow2 e0)
    (hM0 : M0 < 2 ^ (f.fbits + 1)) (he0 : eMin f ≤ e0) (hr0 : e0 + (Nat.log2 M0 : Int) ≤ (f.bias : Int)) :
    isFinite f (encodeRound f neg M e) = true ∧ signOf f (encodeRound f neg M e) = neg ∧
    (mant f (encodeRound f neg M e) : Rat) * pow2 (ulpExp f (encodeRound f neg M e)) = (M : Rat) * pow2 e := by
  have hM0pos : 0 < M0 := by
    rcases Nat.eq_zero_or_pos M0 with h | h
    · exfalso
      rw [h] at hval
      have hp := pow2_pos e
      have : (0 : Rat) < (M : Rat) := by exact_mod_cast hM
      simp at hval
      rcases hval with h1 | h1
      · omega
      · linarith
    · exact h
  have hl0 : Nat.log2 M0 < f.fbits + 1 := (Nat.log2_lt (by omega)).mpr hM0
  have key : ∃ Mr er, encodeRound f neg M e = pack f neg Mr er ∧ (Mr : Rat) * pow2 er = (M : Rat) * pow2 e ∧
      Mr < 2 ^ (f.fbits + 1) ∧ (Mr < 2 ^ f.fbits → er = eMin f) ∧
      (2 ^ f.fbits ≤ Mr → eMin f ≤ er ∧ er - eMin f + 1 < (f.eAll : Int)) := by
    apply encodeRound_eq_pack f hf neg M e hM
    · intro hdrop
      by_cases hle : e ≤ e0
      · -- M = M0 · 2^(e0 - e)
        have hMeq := dyadic_eq_nat hval hle
        have hlog : Nat.log2 M = Nat.log2 M0 + (e0 - e).toNat := by rw [hMeq]; exact log2_mul_two_pow hM0pos _
        have hdv : 2 ^ (max (((Nat.log2 M + 1 : Nat) : Int) - ((f.fbits : Int) + 1)) (eMin f - e)).toNat ∣
            2 ^ (e0 - e).toNat := Nat.pow_dvd_pow 2 (by omega)
        exact Dvd.dvd.trans hdv ⟨M0, by rw [hMeq]; ring⟩
      · -- M0 = M · 2^(e - e0): M is even smaller, nothing is dropped
        exfalso
        have hMeq := dyadic_eq_nat hval.symm (show e0 ≤ e by omega)
        have hlog : Nat.log2 M0 = Nat.log2 M + (e - e0).toNat := by rw [hMeq]; exact log2_mul_two_pow hM _
        omega
    · by_cases hle : e ≤ e0
      · have hMeq := dyadic_eq_nat hval hle
        have hlog : Nat.log2 M = Nat.log2 M0 + (e0 - e).toNat := by rw [hMeq]; exact log2_mul_two_pow hM0pos _
        omega
      · have hMeq := dyadic_eq_nat hval.symm (show e0 ≤ e by omega)
        have hlog : Nat.log2 M0 = Nat.log2 M + (e - e0).toNat := by rw [hMeq]; exact log2_mul_two_pow hM _
        omega
  obtain ⟨Mr, er, h1, h2, h3, h4, h5⟩ := key
  obtain ⟨p1, p2, p3, p4⟩ := pack_val f hf neg Mr er h3 h4 h5
  rw [h1]
  exact ⟨p1, p2, by rw [p3, p4, h2]⟩

/-- a non-negative rational that is exactly representable in the format -/
def Repr (f : Fmt) (x : Rat) : Prop :=
  ∃ (M0 : Nat) (e0 : Int), x = (M0 : Rat) * pow2 e0 ∧ M0 < 2 ^ (f.fbits + 1) ∧ eMin f ≤ e0 ∧
    e0 + (Nat.log2 M0 : Int) ≤ (f.bias : Int)

theorem toRat_def (f : Fmt) (b : Nat) :
    toRat f b = (if signOf f b then -1 else 1) * ((mant f b : Rat) * pow2 (ulpExp f b)) := by
  unfold toRat
  simp only [dyadic_def]
  split <;> simp

theorem isFinite_not_special (f : Fmt) (b : Nat) (h : isFinite f b = true) : isNaN f b = false ∧ isInf f b = false := by
  unfold isFinite at h
  unfold isNaN isInf
  have : (expOf f b == f.eAll) = false := by simpa using h
  simp [this]

theorem scaled_val (f : Fmt) (b : Nat) (e : Int) (he : e ≤ ulpExp f b) :
    ((scaled f b e : Int) : Rat) * pow2 e = toRat f b := by
  unfold scaled
  rw [toRat_def]
  obtain ⟨k, hk⟩ : ∃ k : Nat, ulpExp f b = e + k := ⟨(ulpExp f b - e).toNat, by omega⟩
  have hk' : (ulpExp f b - e).toNat = k := by omega
  rw [hk', hk, pow2_add_nat]
  split <;> push_cast <;> ring

/-- addition of two finite patterns is exact whenever the exact sum is representable -/
theorem add_exact (f : Fmt) (hf : 1 ≤ f.ebits) (a b : Nat) (ha : isFinite f a = true) (hb : isFinite f b = true)
    (hrep : toRat f a + toRat f b ≠ 0 → Repr f |toRat f a + toRat f b|) :
    isFinite f (add f a b) = true ∧ toRat f (add f a b) = toRat f a + toRat f b := by
  obtain ⟨na, ia⟩ := isFinite_not_special f a ha
  obtain ⟨nb, ib⟩ := isFinite_not_special f b hb
  unfold add
  simp only [na, nb, ia, ib, Bool.false_eq_true, if_false]
  have hsa := scaled_val f a (min (ulpExp f a) (ulpExp f b)) (min_le_left _ _)
  have hsb := scaled_val f b (min (ulpExp f a) (ulpExp f b)) (min_le_right _ _)
  generalize hE : min (ulpExp f a) (ulpExp f b) = e at *
  generalize hS : scaled f a e + scaled f b e = s at *
  have hsum : ((s : Int) : Rat) * pow2 e = toRat f a + toRat f b := by
    rw [← hS, ← hsa, ← hsb]; push_cast; ring
  have hp := pow2_pos e
  by_cases hs0 : s = 0
  · simp only [hs0, if_true]
    have hx0 : toRat f a + toRat f b = 0 := by rw [← hsum, hs0]; simp
    obtain ⟨a1, a2⟩ := eAll_pos f hf
    have hz : ∀ sgn : Bool, isFinite f (if sgn then 2 ^ (f.ebits + f.fbits) else 0) = true ∧
        toRat f (if sgn then 2 ^ (f.ebits + f.fbits) else 0) = 0 := by
      intro sgn
      have hp := pattern_fields f sgn (E := 0) (fr := 0) (Nat.two_pow_pos _) (Nat.two_pow_pos _)
      simp only [Nat.zero_mul, Nat.add_zero] at hp
      obtain ⟨p1, p2, p3⟩ := hp
      constructor
      · unfold isFinite; rw [p1]; simp; omega
      · rw [toRat_def]; unfold mant; rw [p1, p2]; simp
    rw [hx0]
    split
    · have := hz true; simpa using this
    · have := hz false; simpa using this
  · simp only [hs0, if_false]
    have hx : toRat f a + toRat f b ≠ 0 := by
      rw [← hsum]; intro h
      have : ((s : Int) : Rat) = 0 := by
        rcases mul_eq_zero.mp h with h1 | h1
        · exact h1
        · linarith
      exact hs0 (by exact_mod_cast this)
    obtain ⟨M0, e0, r1, r2, r3, r4⟩ := hrep hx
    have habs : ((s.natAbs : Nat) : Rat) * pow2 e = |toRat f a + toRat f b| := by
      rw [← hsum, abs_mul, abs_of_pos hp]
      congr 1
      rw [← Int.cast_abs, Int.abs_eq_natAbs]; simp
    have hnat : 0 < s.natAbs := Int.natAbs_pos.mpr hs0
    obtain ⟨q1, q2, q3⟩ := encodeRound_exact_of_repr f hf (decide (s < 0)) s.natAbs e hnat M0 e0
      (by rw [habs, r1]) r2 r3 r4
    refine ⟨q1, ?_⟩
    rw [toRat_def, q2, q3, habs, ← hsum]
    by_cases hneg : s < 0
    · simp only [hneg, decide_true, if_true]
      have : ((s : Int) : Rat) * pow2 e < 0 := by
        have : ((s : Int) : Rat) < 0 := by exact_mod_cast hneg
        nlinarith
      rw [abs_of_neg this]; ring
    · simp only [hneg, decide_false, Bool.false_eq_true, if_false]
      have : 0 ≤ ((s : Int) : Rat) * pow2 e := by
        have : (0 : Rat) ≤ ((s : Int) : Rat) := by exact_mod_cast (show 0 ≤ s by omega)
        positivity
      rw [abs_of_nonneg this]; ring

/-- the pattern of an integer power of two inside the normal/subnormal range -/
theorem pow2Bits_val (f : Fmt) (hf : 1 ≤ f.ebits) (k : Int) (hk1 : eMin f ≤ k) (hk2 : k ≤ (f.bias : Int)) :
    isFinite f (Areal.Model.pow2Bits f k) = true ∧ signOf f (Areal.Model.pow2Bits f k) = false ∧
    toRat f (Areal.Model.pow2Bits f k) = pow2 k := by
  unfold Areal.Model.pow2Bits
  obtain ⟨q1, q2, q3⟩ := encodeRound_exact_of_repr f hf false 1 k (by omega) 1 k rfl
    (Nat.one_lt_two_pow (by omega)) hk1 (by have : Nat.log2 1 = 0 := by decide
                                            rw [this]; simpa using hk2)
  refine ⟨q1, q2, ?_⟩
  rw [toRat_def, q2, q3]; simp

/-- multiplication of two finite patterns is exact whenever the exact product is representable -/
theorem fmul_exact (f : Fmt) (hf : 1 ≤ f.ebits) (a b : Nat)
    (hrep : toRat f a * toRat f b ≠ 0 → Repr f |toRat f a * toRat f b|) :
    isFinite f (Areal.Model.fmul f a b) = true ∧ toRat f (Areal.Model.fmul f a b) = toRat f a * toRat f b ∧
    signOf f (Areal.Model.fmul f a b) = (signOf f a != signOf f b) := by
  unfold Areal.Model.fmul
  have hprod : toRat f a * toRat f b =
      (if (signOf f a != signOf f b) then -1 else 1) *
        (((mant f a * mant f b : Nat) : Rat) * pow2 (ulpExp f a + ulpExp f b)) := by
    rw [toRat_def, toRat_def, pow2_add]
    cases signOf f a <;> cases signOf f b <;> simp <;> ring
  by_cases hz : mant f a * mant f b = 0
  · -- zero product
    have hx0 : toRat f a * toRat f b = 0 := by rw [hprod, hz]; simp
    unfold encodeRound
    simp only [hz, if_true]
    obtain ⟨a1, a2⟩ := eAll_pos f hf
    have hp := pattern_fields f (signOf f a != signOf f b) (E := 0) (fr := 0) (Nat.two_pow_pos _) (Nat.two_pow_pos _)
    simp only [Nat.zero_mul, Nat.add_zero] at hp
    obtain ⟨p1, p2, p3⟩ := hp
    refine ⟨?_, ?_, p3⟩
    · unfold isFinite; rw [p1]; simp; omega
    · rw [hx0, toRat_def]; unfold mant; rw [p1, p2]; simp
  · have hpos : 0 < mant f a * mant f b := Nat.pos_of_ne_zero hz
    have hpp := pow2_pos (ulpExp f a + ulpExp f b)
    have hx : toRat f a * toRat f b ≠ 0 := by
      rw [hprod]
      have h1 : (0 : Rat) < ((mant f a * mant f b : Nat) : Rat) := by exact_mod_cast hpos
      have : (0 : Rat) < ((mant f a * mant f b : Nat) : Rat) * pow2 (ulpExp f a + ulpExp f b) := by positivity
      split <;> intro h <;> nlinarith
    obtain ⟨M0, e0, r1, r2, r3, r4⟩ := hrep hx
    have habs : ((mant f a * mant f b : Nat) : Rat) * pow2 (ulpExp f a + ulpExp f b) = |toRat f a * toRat f b| := by
      rw [hprod, abs_mul]
      have h1 : (0 : Rat) ≤ ((mant f a * mant f b : Nat) : Rat) * pow2 (ulpExp f a + ulpExp f b) := by positivity
      rw [abs_of_nonneg h1]
      split <;> simp
    obtain ⟨q1, q2, q3⟩ := encodeRound_exact_of_repr f hf (signOf f a != signOf f b) (mant f a * mant f b)
      (ulpExp f a + ulpExp f b) hpos M0 e0 (by rw [habs, r1]) r2 r3 r4
    refine ⟨q1, ?_, q2⟩
    rw [toRat_def, q2, q3, hprod]

theorem scaled_nonneg (f : Fmt) (b : Nat) (e : Int) (h : signOf f b = false) : 0 ≤ scaled f b e := by
  unfold scaled; rw [h]; simp

/-- the sum of two non-negative finite patterns is non-negative (sign bit clear), exact or not -/
theorem add_sign_nonneg (f : Fmt) (hf : 1 ≤ f.ebits) (a b : Nat) (ha : isFinite f a = true) (hb : isFinite f b = true)
    (sa : signOf f a = false) (sb : signOf f b = false)
    (hrep : toRat f a + toRat f b ≠ 0 → Repr f |toRat f a + toRat f b|) :
    signOf f (add f a b) = false := by
  obtain ⟨na, ia⟩ := isFinite_not_special f a ha
  obtain ⟨nb, ib⟩ := isFinite_not_special f b hb
  unfold add
  simp only [na, nb, ia, ib, Bool.false_eq_true, if_false]
  have h1 := scaled_nonneg f a (min (ulpExp f a) (ulpExp f b)) sa
  have h2 := scaled_nonneg f b (min (ulpExp f a) (ulpExp f b)) sb
  have hsa := scaled_val f a (min (ulpExp f a) (ulpExp f b)) (min_le_left _ _)
  have hsb := scaled_val f b (min (ulpExp f a) (ulpExp f b)) (min_le_right _ _)
  generalize hE : min (ulpExp f a) (ulpExp f b) = e at *
  generalize hS : scaled f a e + scaled f b e = s at *
  have hs : 0 ≤ s := by omega
  by_cases hs0 : s = 0
  · simp only [hs0, if_true, sa, sb, Bool.and_false, Bool.false_eq_true, if_false]
    unfold signOf; simp
  · simp only [hs0, if_false]
    have hsum : ((s : Int) : Rat) * pow2 e = toRat f a + toRat f b := by
      rw [← hS, ← hsa, ← hsb]; push_cast; ring
    have hp := pow2_pos e
    have hx : toRat f a + toRat f b ≠ 0 := by
      rw [← hsum]; intro h
      have : ((s : Int) : Rat) = 0 := by
        rcases mul_eq_zero.mp h with h1 | h1
        · exact h1
        · linarith
      exact hs0 (by exact_mod_cast this)
    obtain ⟨M0, e0, r1, r2, r3, r4⟩ := hrep hx
    have habs : ((s.natAbs : Nat) : Rat) * pow2 e = |toRat f a + toRat f b| := by
      rw [← hsum, abs_mul, abs_of_pos hp]
      congr 1
      rw [← Int.cast_abs, Int.abs_eq_natAbs]; simp
    have hnat : 0 < s.natAbs := Int.natAbs_pos.mpr hs0
    obtain ⟨q1, q2, q3⟩ := encodeRound_exact_of_repr f hf (decide (s < 0)) s.natAbs e hnat M0 e0
      (by rw [habs, r1]) r2 r3 r4
    rw [q2]; simp; omega

theorem zero_pattern (f : Fmt) (hf : 1 ≤ f.ebits) :
    isFinite f 0 = true ∧ signOf f 0 = false ∧ toRat f 0 = 0 := by
  obtain ⟨a1, a2⟩ := eAll_pos f hf
  have hp := pattern_fields f false (E := 0) (fr := 0) (Nat.two_pow_pos _) (Nat.two_pow_pos _)
  simp only [Nat.zero_mul, Nat.add_zero, Bool.false_eq_true, if_false] at hp
  obtain ⟨p1, p2, p3⟩ := hp
  refine ⟨?_, p3, ?_⟩
  · unfold isFinite; rw [p1]; simp; omega
  · rw [toRat_def]; unfold mant; rw [p1, p2]; simp

/-- a natural number below 2^(fbits+1) times a power of two in range is representable -/
theorem repr_of_small (f : Fmt) (M0 : Nat) (e0 : Int) (hM0 : M0 < 2 ^ (f.fbits + 1)) (he0 : eMin f ≤ e0)
    (hr : e0 + (f.fbits : Int) ≤ (f.bias : Int)) : Repr f ((M0 : Rat) * pow2 e0) := by
  refine ⟨M0, e0, rfl, hM0, he0, ?_⟩
  rcases Nat.eq_zero_or_pos M0 with h | h
  · subst h
    have : Nat.log2 0 = 0 := by decide
    rw [this]; omega
  · have : Nat.log2 M0 < f.fbits + 1 := (Nat.log2_lt (by omega)).mpr hM0
    omega

/-- the fraction loop of `to_native` accumulates the fraction bits exactly -/
theorem fracLoop_val (f : Fmt) (hf : 1 ≤ f.ebits) (b F : Nat) (hFf : F ≤ f.fbits)
    (hmin : eMin f ≤ -(F : Int) - 1) (hbias : (f.fbits : Int) ≤ (f.bias : Int)) :
    ∀ (i j : Nat) (acc fbit A : Nat), i + j = F →
      isFinite f acc = true → signOf f acc = false → isFinite f fbit = true → signOf f fbit = false → A < 2 ^ j →
      toRat f acc = (A : Rat) * pow2 (-(j : Int)) → toRat f fbit = pow2 (-(j : Int) - 1) →
      isFinite f (Areal.Model.fracLoop f b i acc fbit) = true ∧
      signOf f (Areal.Model.fracLoop f b i acc fbit) = false ∧
      toRat f (Areal.Model.fracLoop f b i acc fbit) = ((A * 2 ^ i + (b >>> 1) % 2 ^ i : Nat) : Rat) * pow2 (-(F : Int)) := by
  intro i
  induction i with
  | zero =>
    intro j acc fbit A hij h1 h2 h3 h4 hA h5 h6
    have : j = F := by omega
    subst this
    unfold Areal.Model.fracLoop
    refine ⟨h1, h2, ?_⟩
    rw [h5]; simp [Nat.mod_one]
  | succ i ih =>
    intro j acc fbit A hij h1 h2 h3 h4 hA h5 h6
    obtain ⟨z1, z2, z3⟩ := zero_pattern f hf
    unfold Areal.Model.fracLoop
    -- the addend
    set bit := b.testBit (i + 1) with hbit
    set addend := if bit then fbit else 0 with hadd
    have ha1 : isFinite f addend = true := by rw [hadd]; split <;> assumption
    have ha2 : signOf f addend = false := by rw [hadd]; split <;> assumption
    have ha3 : toRat f addend = (if bit then 1 else 0 : Nat) * pow2 (-(j : Int) - 1) := by
      rw [hadd]; split <;> simp [h6, z3]
    have hsumval : toRat f acc + toRat f addend =
        ((2 * A + (if bit then 1 else 0) : Nat) : Rat) * pow2 (-((j + 1 : Nat) : Int)) := by
      rw [h5, ha3]
      have : pow2 (-(j : Int)) = 2 * pow2 (-((j + 1 : Nat) : Int)) := by
        rw [← pow2_succ]; congr 1; push_cast; ring
      rw [this, show (-(j : Int) - 1) = -((j + 1 : Nat) : Int) by push_cast; ring]
      push_cast; ring
    have hA' : 2 * A + (if bit then 1 else 0) < 2 ^ (j + 1) := by
      rw [Nat.pow_succ]; split <;> omega
    have hrep : toRat f acc + toRat f addend ≠ 0 → Repr f |toRat f acc + toRat f addend| := by
      intro _
      rw [hsumval, abs_of_nonneg (mul_nonneg (Nat.cast_nonneg _) (le_of_lt (pow2_pos _)))]
      apply repr_of_small
      · exact Nat.lt_of_lt_of_le hA' (Nat.pow_le_pow_right (by omega) (by omega))
      · push_cast; omega
      · push_cast; omega
    obtain ⟨s1, s2⟩ := add_exact f hf acc addend h1 ha1 hrep
    have s3 := add_sign_nonneg f hf acc addend h1 ha1 h2 ha2 hrep
    -- the next fbit
    obtain ⟨q1, q2, q3⟩ := pow2Bits_val f hf (-1) (by omega) (by omega)
    have hmulrep : toRat f fbit * toRat f (Areal.Model.pow2Bits f (-1)) ≠ 0 →
        Repr f |toRat f fbit * toRat f (Areal.Model.pow2Bits f (-1))| := by
      intro _
      rw [h6, q3, ← pow2_add, abs_of_pos (pow2_pos _)]
      have := repr_of_small f 1 (-(j : Int) - 1 + -1) (Nat.one_lt_two_pow (by omega)) (by omega) (by omega)
      simpa using this
    obtain ⟨m1, m2, m3'⟩ := fmul_exact f hf fbit (Areal.Model.pow2Bits f (-1)) hmulrep
    have m3 : signOf f (Areal.Model.fmul f fbit (Areal.Model.pow2Bits f (-1))) = false := by
      rw [m3', h4, q2]; rfl
    have hacc : (if bit then add f acc fbit else add f acc 0) = add f acc addend := by
      rw [hadd]; split <;> rfl
    rw [hacc]
    have := ih (j + 1) (add f acc addend) (Areal.Model.fmul f fbit (Areal.Model.pow2Bits f (-1)))
      (2 * A + (if bit then 1 else 0)) (by omega) s1 s3 m1 m3 hA'
      (by rw [s2, hsumval])
      (by rw [m2, h6, q3, ← pow2_add]; congr 1; push_cast; ring)
    obtain ⟨r1, r2, r3⟩ := this
    refine ⟨r1, r2, ?_⟩
    rw [r3]
    congr 2
    -- (2A + bit)·2^i + (b>>>1) % 2^i = A·2^(i+1) + (b>>>1) % 2^(i+1)
    have hb : (b >>> 1) % 2 ^ (i + 1) = (b >>> 1) % 2 ^ i + 2 ^ i * ((b >>> 1) / 2 ^ i % 2) := Nat.mod_pow_succ
    have hbb : (b >>> 1) / 2 ^ i % 2 = (if bit then 1 else 0) := by
      have : (b >>> 1).testBit i = b.testBit (1 + i) := Nat.testBit_shiftRight b
      rw [Nat.testBit_eq_decide_div_mod_eq] at this
      rw [hbit, Nat.add_comm i 1, ← this]
      rcases Nat.mod_two_eq_zero_or_one ((b >>> 1) / 2 ^ i) with h | h <;> simp [h]
    rw [hb, hbb, Nat.pow_succ]; ring

/-- `negate` flips the sign bit and nothing else -/
theorem negate_props (f : Fmt) (v : Nat) :
    signOf f (negate f v) = !signOf f v ∧ expOf f (negate f v) = expOf f v ∧ fracOf f (negate f v) = fracOf f v := by
  unfold negate signOf expOf fracOf
  refine ⟨?_, ?_, ?_⟩
  · rw [Nat.testBit_xor, Nat.testBit_two_pow]; simp
  · rw [Nat.shiftRight_xor_distrib, Nat.xor_mod_two_pow, Nat.shiftRight_eq_div_pow (2 ^ (f.ebits + f.fbits)),
      Nat.add_comm f.ebits f.fbits, Nat.pow_add, Nat.mul_div_cancel_left _ (Nat.two_pow_pos _), Nat.mod_self,
      Nat.xor_zero]
  · rw [Nat.xor_mod_two_pow, Nat.add_comm f.ebits f.fbits, Nat.pow_add, Nat.mul_mod_right, Nat.xor_zero]

theorem negate_val (f : Fmt) (v : Nat) (hv : isFinite f v = true) :
    isFinite f (negate f v) = true ∧ signOf f (negate f v) = !signOf f v ∧
    mant f (negate f v) = mant f v ∧ ulpExp f (negate f v) = ulpExp f v := by
  obtain ⟨h1, h2, h3⟩ := negate_props f v
  refine ⟨?_, h1, ?_, ?_⟩
  · unfold isFinite at *; rw [h2]; exact hv
  · unfold mant; rw [h2, h3]
  · unfold ulpExp; rw [h2]

end UVerif.IeeeLemmas
