/-
  Lemmas about the integer<nbits,bt> limb model (UVerif.Model.Integer): value and canonical form of
  += / flip / unary minus / ++ / -- / -= for every limb width `w` and size `n`.
-/
import UVerifProofs.Lemmas.Limbs
import UVerifProofs.Lemmas.Signed
import UVerifProofs.Lemmas.Bits
import UVerif.Model.Integer
import UVerif.Spec.Integer

namespace UVerif.Integer
open UVerif UVerif.Limbs

variable {w n : Nat}

theorem single_eq {w n : Nat} {a : List Nat} (ha : a.length = nrBlocks w n) (hk : nrBlocks w n = 1) : a = [blk a 0] := by
  rw [hk] at ha
  match a, ha with
  | [x], _ => simp [blk]

/-- `operator+=`: value and canonical form, every limb width (the `uint64_t` branch recovers the carry from the wrap-around) -/
theorem add_spec {w n : Nat} (hw : 0 < w) (hn : 0 < n) {a b : List Nat}
    (ha : Shape w n a) (hb : Shape w n b) :
    Canon w n (add w n a b) ∧ toNat w (add w n a b) = (toNat w a + toNat w b) % 2 ^ n := by
  unfold add
  by_cases hk : nrBlocks w n = 1
  · rw [if_pos hk]
    have hsh : Shape w n [(blk a 0 + blk b 0) % 2 ^ w] := ⟨by simp [hk], Wf.cons (Nat.mod_lt _ (Nat.two_pow_pos w)) (Wf.nil w)⟩
    refine ⟨canon_of_mask hw hn hsh, ?_⟩
    rw [toNat_maskMSU hw hn hsh.2 hsh.1]
    conv_rhs => rw [single_eq ha.1 hk, single_eq hb.1 hk]
    simp only [toNat, Nat.mul_zero, Nat.add_zero]
    have hd : 2 ^ n ∣ 2 ^ w := by have := pow_dvd_storage hw hn; rwa [hk, Nat.mul_one] at this
    exact Nat.mod_mod_of_dvd _ hd
  · rw [if_neg hk]
    have hlen : a.length = b.length := by rw [ha.1, hb.1]
    have hd : addLoop w (w == 64) 0 a b = addLoop w false 0 a b := by
      cases (w == 64)
      · rfl
      · exact addLoop_u64_eq w 0 a b (by omega) ha.2 hb.2
    rw [hd]
    have hsh : Shape w n (addLoop w false 0 a b) := ⟨by rw [addLoop_length _ _ _ _ _ hlen]; exact ha.1, addLoop_wf _ _ _ _ _⟩
    refine ⟨canon_of_mask hw hn hsh, ?_⟩
    rw [toNat_maskMSU hw hn hsh.2 hsh.1, toNat_addLoop w 0 a b hlen, ha.1, Nat.zero_add]
    exact Nat.mod_mod_of_dvd _ (pow_dvd_storage hw hn)


theorem flip_spec (hw : 0 < w) (hn : 0 < n) {a : List Nat} (ha : Shape w n a) :
    Canon w n (flip w n a) ∧ toNat w (flip w n a) = 2 ^ n - 1 - toNat w a % 2 ^ n := by
  have hsh : Shape w n (flipLimbs w a) := ⟨by rw [flipLimbs_length]; exact ha.1, flipLimbs_wf w a⟩
  refine ⟨canon_of_mask hw hn hsh, ?_⟩
  unfold flip
  rw [toNat_maskMSU hw hn hsh.2 hsh.1]
  obtain ⟨M, hM⟩ := pow_dvd_storage hw hn
  have := toNat_flipLimbs ha.2
  rw [ha.1, hM] at this
  exact compl_mod this (Nat.two_pow_pos n)

theorem convertSigned_spec (hw : 0 < w) (hn : 0 < n) (v : Int) :
    Canon w n (convertSigned w n v) ∧ toNat w (convertSigned w n v) = ofSigned n v :=
  canon_ofNat hw hn (ofSigned_lt n v)

theorem ofSigned_one (hn : 0 < n) : ofSigned n 1 = 1 := by
  have : ofSigned n ((1 : Nat) : Int) = 1 % 2 ^ n := ofSigned_natCast n 1
  rw [Nat.mod_eq_of_lt (Nat.one_lt_two_pow (by omega))] at this
  simpa using this

theorem neg_spec (hw : 0 < w) (hn : 0 < n) {a : List Nat} (ha : Shape w n a) :
    Canon w n (neg w n a) ∧ toNat w (neg w n a) = (2 ^ n - toNat w a % 2 ^ n) % 2 ^ n := by
  obtain ⟨hf, hfv⟩ := flip_spec hw hn ha
  obtain ⟨h1, h1v⟩ := convertSigned_spec (w := w) hw hn 1
  obtain ⟨hc, hv⟩ := add_spec hw hn hf.shape h1.shape
  refine ⟨hc, ?_⟩
  unfold neg
  rw [hv, hfv, h1v, ofSigned_one hn]
  have := Nat.mod_lt (toNat w a) (Nat.two_pow_pos n)
  congr 1; omega

theorem inc_spec (hw : 0 < w) (hn : 0 < n) {a : List Nat} (ha : Shape w n a) :
    Canon w n (inc w n a) ∧ toNat w (inc w n a) = (toNat w a + 1) % 2 ^ n := by
  obtain ⟨h1, h1v⟩ := convertSigned_spec (w := w) hw hn 1
  obtain ⟨hc, hv⟩ := add_spec hw hn ha h1.shape
  obtain ⟨hm, hmv⟩ := mask_canon hw hn hc
  refine ⟨hm, ?_⟩
  unfold inc
  rw [hmv, hv, h1v, ofSigned_one hn]

theorem twosC_spec (hw : 0 < w) (hn : 0 < n) {a : List Nat} (ha : Shape w n a) :
    Canon w n (twosC w n a) ∧ toNat w (twosC w n a) = (2 ^ n - toNat w a % 2 ^ n) % 2 ^ n := by
  obtain ⟨hf, hfv⟩ := flip_spec hw hn ha
  obtain ⟨hc, hv⟩ := inc_spec hw hn hf.shape
  refine ⟨hc, ?_⟩
  unfold twosC
  rw [hv, hfv]
  have := Nat.mod_lt (toNat w a) (Nat.two_pow_pos n)
  congr 1; omega

theorem sub_spec (hw : 0 < w) (hn : 0 < n) {a b : List Nat}
    (ha : Shape w n a) (hb : Shape w n b) :
    Canon w n (sub w n a b) ∧ toNat w (sub w n a b) = (toNat w a + (2 ^ n - toNat w b % 2 ^ n)) % 2 ^ n := by
  obtain ⟨ht, htv⟩ := twosC_spec hw hn hb
  obtain ⟨hc, hv⟩ := add_spec hw hn ha ht.shape
  refine ⟨hc, ?_⟩
  unfold sub
  rw [hv, htv, Nat.add_mod_mod]

theorem dec_spec (hw : 0 < w) (hn : 0 < n) {a : List Nat} (ha : Shape w n a) :
    Canon w n (dec w n a) ∧ toNat w (dec w n a) = (toNat w a + (2 ^ n - 1)) % 2 ^ n := by
  obtain ⟨h1, h1v⟩ := convertSigned_spec (w := w) hw hn 1
  obtain ⟨hc, hv⟩ := sub_spec hw hn ha h1.shape
  obtain ⟨hm, hmv⟩ := mask_canon hw hn hc
  refine ⟨hm, ?_⟩
  unfold dec
  rw [hmv, hv, h1v, ofSigned_one hn, Nat.mod_eq_of_lt (Nat.one_lt_two_pow (by omega))]

theorem sign_eq (hw : 0 < w) (hn : 0 < n) {a : List Nat} (ha : Wf w a) : sign w n a = (toNat w a).testBit (n - 1) := by
  unfold sign bitAt
  rw [testBit_toNat hw ha]
  simp; omega

theorem sign_canon (hw : 0 < w) (hn : 0 < n) {a : List Nat} (ha : Canon w n a) : sign w n a = decide (2 ^ (n - 1) ≤ toNat w a) := by
  rw [sign_eq hw hn ha.2.1, testBit_top hn ha.2.2]

variable {w : Nat}

/-- converting constructor: the value is preserved (sign extension when widening, truncation when narrowing) -/
theorem resize_spec {n src : Nat} (hw : 0 < w) (hn : 0 < n) (hs : 0 < src) {a : List Nat} (ha : Canon w src a) :
    Canon w n (resize w n src a) ∧ toNat w (resize w n src a) = ofSigned n (toSigned src (toNat w a)) := by
  have hsh0 : Shape w n ((List.range (nrBlocks w n)).map (fun i => blk a i)) := ⟨by simp, mapRange_wf ha.2.1 _⟩
  have hc0 := canon_of_mask hw hn hsh0
  have hv0 : toNat w (maskMSU w n ((List.range (nrBlocks w n)).map (fun i => blk a i))) = toNat w a % 2 ^ n := by
    rw [toNat_maskMSU hw hn hsh0.2 hsh0.1, toNat_mapRange hw ha.2.1, Nat.mod_mod_of_dvd _ (pow_dvd_storage hw hn)]
  unfold resize
  simp only
  by_cases hlt : src < n
  · have hA : toNat w a < 2 ^ n := Nat.lt_of_lt_of_le ha.2.2 (Nat.pow_le_pow_right (by omega) (le_of_lt hlt))
    rw [Nat.mod_eq_of_lt hA] at hv0
    have key : ∀ (l : List Nat), l.length = nrBlocks w n → Wf w l →
        (∀ j, (toNat w l).testBit j = if j < src then (toNat w a).testBit j else (decide (j < n) && (toNat w a).testBit (src - 1))) →
        Canon w n l ∧ toNat w l = ofSigned n (toSigned src (toNat w a)) := by
      intro l hl hwf hb
      have : toNat w l = ofSigned n (toSigned src (toNat w a)) := by
        apply Nat.eq_of_testBit_eq
        intro j
        rw [hb j, testBit_signext hs (le_of_lt hlt) ha.2.2]
      exact ⟨canon_of_eq_ofSigned hl hwf this, this⟩
    by_cases hsg : sign w src a = true
    · have hcond : (decide (src < n) && sign w src a) = true := by simp [hlt, hsg]
      rw [if_pos hcond]
      obtain ⟨p1, p2, p3⟩ := setRange_props hw hc0.2.1 src n true (le_of_lt hlt) (by rw [hc0.1]; exact nrBlocks_hi hw hn)
      apply key _ (by rw [p1]; exact hc0.1) p2
      intro j
      rw [p3 j, hv0]
      rw [sign_eq hw hs ha.2.1] at hsg
      by_cases hj : j < src
      · rw [if_neg (by omega), if_pos hj]
      · by_cases hj2 : j < n
        · rw [if_pos (by omega), if_neg hj, hsg]; simp [hj2]
        · rw [if_neg (by omega), if_neg hj]
          simp [hj2]
          exact Nat.testBit_lt_two_pow (Nat.lt_of_lt_of_le hA (Nat.pow_le_pow_right (by omega) (by omega)))
    · have hcond : ¬ ((decide (src < n) && sign w src a) = true) := by simp [hsg]
      rw [if_neg hcond]
      apply key _ hc0.1 hc0.2.1
      intro j
      rw [hv0]
      rw [sign_eq hw hs ha.2.1] at hsg
      by_cases hj : j < src
      · rw [if_pos hj]
      · rw [if_neg hj]
        have : (toNat w a).testBit (src - 1) = false := by simpa using hsg
        rw [this, Bool.and_false]
        exact Nat.testBit_lt_two_pow (Nat.lt_of_lt_of_le ha.2.2 (Nat.pow_le_pow_right (by omega) (by omega)))
  · have hcond : ¬ ((decide (src < n) && sign w src a) = true) := by simp [hlt]
    rw [if_neg hcond]
    refine ⟨hc0, ?_⟩
    rw [hv0, ofSigned_toSigned_narrow (by omega)]

/-- `bitcopy`: no sign extension — the value is reduced modulo 2^n -/
theorem bitcopy_spec {n : Nat} (hw : 0 < w) (hn : 0 < n) {a : List Nat} (ha : Wf w a) :
    Canon w n (bitcopy w n a) ∧ toNat w (bitcopy w n a) = toNat w a % 2 ^ n := by
  have hsh0 : Shape w n ((List.range (nrBlocks w n)).map (fun i => blk a i)) := ⟨by simp, mapRange_wf ha _⟩
  refine ⟨canon_of_mask hw hn hsh0, ?_⟩
  unfold bitcopy
  rw [toNat_maskMSU hw hn hsh0.2 hsh0.1, toNat_mapRange hw ha, Nat.mod_mod_of_dvd _ (pow_dvd_storage hw hn)]

/-- `operator<` is the order of the signed values -/
theorem lt_spec (hw : 0 < w) (hn : 0 < n) {a b : List Nat}
    (ha : Canon w n a) (hb : Canon w n b) :
    lt w n a b = decide (toSigned n (toNat w a) < toSigned n (toNat w b)) := by
  obtain ⟨hd, hdv⟩ := sub_spec hw hn ha.shape hb.shape
  have hsa := sign_canon hw hn ha
  have hsb := sign_canon hw hn hb
  have hsd := sign_canon hw hn hd
  rw [hdv, Nat.mod_eq_of_lt hb.2.2] at hsd
  unfold lt
  simp only
  rw [hsa, hsb, hsd, toSigned_of_lt hn ha.2.2, toSigned_of_lt hn hb.2.2]
  have hA := ha.2.2
  have hB := hb.2.2
  have hp : 2 ^ n = 2 ^ (n - 1) * 2 := by rw [← Nat.pow_succ]; congr 1; omega
  have hpos := Nat.two_pow_pos (n - 1)
  generalize toNat w a = A at *
  generalize toNat w b = B at *
  have hcast : ((2 ^ n : Nat) : Int) = 2 * ((2 ^ (n - 1) : Nat) : Int) := by rw [hp]; push_cast; ring
  rw [hcast]
  rw [hp] at hA hB ⊢
  generalize 2 ^ (n - 1) = P at *
  have hmod : (A + (P * 2 - B)) % (P * 2) = if B ≤ A then A - B else A + (P * 2 - B) := by
    split
    · rename_i h
      rw [show A + (P * 2 - B) = (A - B) + P * 2 by omega, Nat.add_mod_right, Nat.mod_eq_of_lt (by omega)]
    · rw [Nat.mod_eq_of_lt (by omega)]
  rw [hmod]
  by_cases h1 : P ≤ A <;> by_cases h2 : P ≤ B <;> by_cases h3 : B ≤ A <;>
    simp only [h1, h2, h3, decide_true, decide_false, Bool.not_true, Bool.not_false, Bool.and_true, Bool.and_false,
      Bool.true_and, Bool.false_and, if_true, if_false, Bool.false_eq_true] <;>
    (first | (split <;> (simp only [decide_eq_true_eq, decide_eq_decide] <;> omega)) | (simp only [decide_eq_true_eq, decide_eq_decide] <;> omega) | (simp <;> omega))

theorem convertSigned_zero (hw : 0 < w) (hn : 0 < n) : Canon w n (convertSigned w n 0) ∧ toNat w (convertSigned w n 0) = 0 := by
  obtain ⟨h, hv⟩ := convertSigned_spec (w := w) hw hn 0
  refine ⟨h, ?_⟩
  rw [hv]; simp [ofSigned]

theorem isneg_spec (hw : 0 < w) (hn : 0 < n) {a : List Nat} (ha : Canon w n a) :
    isneg w n a = decide (toSigned n (toNat w a) < 0) := by
  obtain ⟨hz, hzv⟩ := convertSigned_zero (w := w) hw hn
  unfold isneg
  rw [lt_spec hw hn ha hz, hzv]
  have : toSigned n 0 = 0 := by unfold toSigned; simp
  rw [this]

/-- sign-magnitude split used by `operator*=` and `idiv`: widen by one bit, negate when negative -/
theorem absval_spec (hw : 0 < w) (hn : 0 < n) {a : List Nat} (ha : Canon w n a) :
    let base := resize w (n + 1) n a
    let base' := if isneg w (n + 1) base then twosC w (n + 1) base else base
    isneg w (n + 1) base = decide (toSigned n (toNat w a) < 0) ∧
    Canon w (n + 1) base' ∧ ((toNat w base' : Nat) : Int) = |toSigned n (toNat w a)| := by
  intro base base'
  obtain ⟨hb, hbv⟩ := resize_spec (w := w) (n := n + 1) hw (by omega) hn ha
  obtain ⟨r1, r2⟩ := toSigned_range hn (toNat w a)
  have hM : M2 n = 2 * M2 (n - 1) := by
    have := M2_succ (n - 1); rwa [Nat.sub_add_cancel hn] at this
  have hp := M2_pos (n - 1)
  have hfit : toSigned (n + 1) (toNat w base) = toSigned n (toNat w a) := by
    show toSigned (n + 1) (toNat w (resize w (n + 1) n a)) = _
    rw [hbv]
    apply toSigned_ofSigned_fits (by omega)
    · rw [Nat.add_sub_cancel]; omega
    · rw [Nat.add_sub_cancel]; omega
  have hneg : isneg w (n + 1) base = decide (toSigned n (toNat w a) < 0) := by
    rw [isneg_spec hw (by omega) hb, hfit]
  refine ⟨hneg, ?_⟩
  show Canon w (n + 1) (if isneg w (n + 1) base then twosC w (n + 1) base else base) ∧
    ((toNat w (if isneg w (n + 1) base then twosC w (n + 1) base else base) : Nat) : Int) = |toSigned n (toNat w a)|
  rw [hneg]
  generalize hx : toSigned n (toNat w a) = x at *
  have hP : ((toNat w base : Nat) : Int) ≡ x [ZMOD M2 (n + 1)] := by
    show ((toNat w (resize w (n + 1) n a) : Nat) : Int) ≡ x [ZMOD M2 (n + 1)]
    rw [hbv]; exact modEq_ofSigned _ _
  by_cases hxn : x < 0
  · rw [decide_eq_true hxn, if_pos rfl]
    obtain ⟨ht, htv⟩ := twosC_spec hw (by omega : 0 < n + 1) hb.shape
    refine ⟨ht, ?_⟩
    rw [abs_of_neg hxn]
    -- the stored pattern of base is x + 2^(n+1)
    have hPv : ((toNat w base : Nat) : Int) = x + M2 (n + 1) := by
      have h1 : (0 : Int) ≤ (toNat w base : Nat) := by omega
      have h2 : ((toNat w base : Nat) : Int) < M2 (n + 1) := by unfold M2; exact_mod_cast hb.2.2
      rw [Int.modEq_iff_dvd] at hP
      obtain ⟨c, hc⟩ := hP
      have hM1 := M2_succ n
      have : c = -1 := by
        by_contra hne
        rcases lt_or_gt_of_ne hne with hlt | hgt
        · have : c ≤ -2 := by omega
          nlinarith [M2_pos (n + 1)]
        · have : c ≥ 0 := by omega
          nlinarith [M2_pos (n + 1)]
      rw [this] at hc; linarith
    rw [htv, Nat.mod_eq_of_lt hb.2.2]
    have hle : toNat w base ≤ 2 ^ (n + 1) := le_of_lt hb.2.2
    have hval : 2 ^ (n + 1) - toNat w base < 2 ^ (n + 1) := by
      have : 0 < toNat w base := by
        have : (0 : Int) < (toNat w base : Nat) := by rw [hPv, M2_succ]; omega
        exact_mod_cast this
      omega
    rw [Nat.mod_eq_of_lt hval, Nat.cast_sub hle, hPv]
    show M2 (n + 1) - (x + M2 (n + 1)) = -x
    ring
  · rw [decide_eq_false hxn, if_neg (by simp)]
    refine ⟨hb, ?_⟩
    have hx0 : 0 ≤ x := by omega
    rw [abs_of_nonneg hx0]
    have h1 : (0 : Int) ≤ (toNat w base : Nat) := by omega
    have h2 : ((toNat w base : Nat) : Int) < M2 (n + 1) := by unfold M2; exact_mod_cast hb.2.2
    have hxl : x < M2 (n + 1) := by rw [M2_succ]; omega
    have := Int.ModEq.eq hP
    rwa [Int.emod_eq_of_lt h1 h2, Int.emod_eq_of_lt hx0 hxl] at this

theorem abs_mul_sign (x y : Int) : |x| * |y| = if decide (x < 0) != decide (y < 0) then -(x * y) else x * y := by
  by_cases hx : x < 0 <;> by_cases hy : y < 0
  · simp [hx, hy, abs_of_neg]
  · have hy' : 0 ≤ y := by omega
    simp [hx, hy, abs_of_neg hx, abs_of_nonneg hy']
  · have hx' : 0 ≤ x := by omega
    simp [hx, hy, abs_of_neg hy, abs_of_nonneg hx']
  · have hx' : 0 ≤ x := by omega
    have hy' : 0 ≤ y := by omega
    simp [hx, hy, abs_of_nonneg hx', abs_of_nonneg hy']

/-- `operator*=`: sign-magnitude schoolbook product = product modulo 2^n.  About the MODEL for every `w`; the model's `mulLoop`
    keeps `segment` in ℕ, which is what the C++ 64-bit accumulator does only when `a_i·b_j + r + carry` fits 64 bits, i.e. for
    limbs of at most 32 bits or a single block — `C08_mul` states that restriction (`C08_MulSupported`). -/
theorem mul_spec (hw : 0 < w) (hn : 0 < n) {a b : List Nat}
    (ha : Canon w n a) (hb : Canon w n b) :
    Canon w n (mul w n a b) ∧ toNat w (mul w n a b) = (toNat w a * toNat w b) % 2 ^ n := by
  unfold mul
  simp only
  by_cases hk : nrBlocks w n = 1
  · rw [if_pos hk]
    have hsh : Shape w n [(blk a 0 * blk b 0) % 2 ^ w] := ⟨by simp [hk], Wf.cons (Nat.mod_lt _ (Nat.two_pow_pos w)) (Wf.nil w)⟩
    refine ⟨canon_of_mask hw hn hsh, ?_⟩
    rw [toNat_maskMSU hw hn hsh.2 hsh.1]
    conv_rhs => rw [single_eq ha.1 hk, single_eq hb.1 hk]
    simp only [toNat, Nat.mul_zero, Nat.add_zero]
    have hd : 2 ^ n ∣ 2 ^ w := by have := pow_dvd_storage hw hn; rwa [hk, Nat.mul_one] at this
    exact Nat.mod_mod_of_dvd _ hd
  · rw [if_neg hk]
    obtain ⟨na, ca, va⟩ := absval_spec hw hn ha
    obtain ⟨nb, cb, vb⟩ := absval_spec hw hn hb
    generalize hx : toSigned n (toNat w a) = x at *
    generalize hy : toSigned n (toNat w b) = y at *
    generalize hA' : (if isneg w (n + 1) (resize w (n + 1) n a) = true then twosC w (n + 1) (resize w (n + 1) n a) else resize w (n + 1) n a) = A' at *
    generalize hB' : (if isneg w (n + 1) (resize w (n + 1) n b) = true then twosC w (n + 1) (resize w (n + 1) n b) else resize w (n + 1) n b) = B' at *
    rw [na, nb]
    -- the first k blocks of |a|
    set as := (List.range (nrBlocks w n)).map (fun i => blk A' i) with has
    have hasl : as.length = nrBlocks w n := by simp [has]
    have hasw : Wf w as := mapRange_wf ca.2.1 _
    have hasv : toNat w as = toNat w A' % 2 ^ (w * nrBlocks w n) := toNat_mapRange hw ca.2.1 _
    set r := mulLoop w as B' (zeros (nrBlocks w n)) with hr
    have hzl := zeros_length (nrBlocks w n)
    have hrl : r.length = nrBlocks w n := by rw [hr, mulLoop_length _ _ _ _ (by rw [hasl, hzl]), hzl]
    have hrw : Wf w r := mulLoop_wf _ _ (zeros_wf w _)
    have hrv : toNat w r = (toNat w as * toNat w B' + 0) % 2 ^ (w * nrBlocks w n) := by
      rw [hr, toNat_mulLoop w as B' _ (by rw [hasl, hzl]) (by rw [hzl, cb.1]; exact nrBlocks_mono (by omega)) (zeros_wf w _),
        toNat_zeros, hzl]
    have hshr : Shape w n r := ⟨hrl, hrw⟩
    -- congruence of r with |x|·|y|
    have hle := nrBlocks_hi hw hn
    have hRmod : ((toNat w r : Nat) : Int) ≡ |x| * |y| [ZMOD M2 n] := by
      rw [hrv, Nat.add_zero]
      refine (modEq_of_le hle (modEq_natMod _ _)).trans ?_
      push_cast
      rw [hasv]
      refine Int.ModEq.mul ?_ (by rw [vb])
      rw [← va]
      exact modEq_of_le hle (modEq_natMod _ _)
    have hfinal : ∀ (r' : List Nat), Shape w n r' → ((toNat w r' : Nat) : Int) ≡ x * y [ZMOD M2 n] →
        Canon w n (maskMSU w n r') ∧ toNat w (maskMSU w n r') = (toNat w a * toNat w b) % 2 ^ n := by
      intro r' hs hm
      have hc := canon_of_mask hw hn hs
      refine ⟨hc, ?_⟩
      have h1 : ((toNat w (maskMSU w n r') : Nat) : Int) ≡ x * y [ZMOD M2 n] := by
        rw [toNat_maskMSU hw hn hs.2 hs.1]
        exact (modEq_natMod _ _).trans hm
      rw [eq_ofSigned_of_modEq hc.2.2 h1, ← hx, ← hy, ofSigned_mul]
    rw [abs_mul_sign] at hRmod
    by_cases hsg : (decide (x < 0) != decide (y < 0)) = true
    · rw [if_pos hsg] at hRmod ⊢
      obtain ⟨ht, htv⟩ := twosC_spec hw hn hshr
      apply hfinal _ ht.shape
      rw [htv]
      refine (modEq_neg_nat _ _).trans ?_
      have := hRmod.neg
      simpa using this
    · rw [if_neg hsg] at hRmod ⊢
      exact hfinal _ hshr hRmod

theorem toSigned_inj {A B : Nat} (hA : A < 2 ^ n) (hB : B < 2 ^ n) : toSigned n A = toSigned n B ↔ A = B := by
  constructor
  · intro h
    have := congrArg (ofSigned n) h
    rwa [ofSigned_toSigned_of_lt hA, ofSigned_toSigned_of_lt hB] at this
  · intro h; rw [h]

theorem eq_spec {a b : List Nat} (ha : Canon w n a) (hb : Canon w n b) :
    eq a b = decide (toSigned n (toNat w a) = toSigned n (toNat w b)) := by
  unfold eq
  have : (a == b) = decide (a = b) := by
    by_cases h : a = b
    · simp [h]
    · simp [h]
  rw [this]
  congr 1
  rw [toSigned_inj ha.2.2 hb.2.2]
  apply propext
  constructor
  · intro h; rw [h]
  · intro h; exact toNat_inj ha.2.1 hb.2.1 (by rw [ha.1, hb.1]) h

/-- the six comparison operators agree with the order of the signed values -/
theorem cmpMask_spec (hw : 0 < w) (hn : 0 < n) {a b : List Nat}
    (ha : Canon w n a) (hb : Canon w n b) :
    cmpMask w n a b = IntegerSpec.cmpMask n (toNat w a) (toNat w b) := by
  unfold cmpMask IntegerSpec.cmpMask IntegerSpec.val
  simp only
  rw [eq_spec ha hb, lt_spec hw hn ha hb, lt_spec hw hn hb ha]
  generalize toSigned n (toNat w a) = x
  generalize toSigned n (toNat w b) = y
  rcases lt_trichotomy x y with h | h | h
  · have h1 : ¬ x = y := by omega
    have h2 : ¬ y < x := by omega
    have h3 : x ≤ y := by omega
    have h4 : ¬ x ≥ y := by omega
    have h5 : ¬ x > y := by omega
    simp [h, h1, h2, h3, h4, h5]
  · subst h
    simp
  · have h1 : ¬ x = y := by omega
    have h2 : ¬ x < y := by omega
    have h3 : ¬ x ≤ y := by omega
    have h4 : x ≥ y := by omega
    have h5 : x > y := by omega
    simp [h, h1, h2, h3, h4, h5]

theorem bitop_spec (hw : 0 < w) (hn : 0 < n) {f : Nat → Nat → Nat} {g : Bool → Bool → Bool}
    (hf : ∀ x y i, (f x y).testBit i = g (x.testBit i) (y.testBit i)) (hg : g false false = false)
    {a b : List Nat} (ha : Shape w n a) (hb : Shape w n b) :
    Canon w n (maskMSU w n (List.zipWith f a b)) ∧
    toNat w (maskMSU w n (List.zipWith f a b)) = f (toNat w a) (toNat w b) % 2 ^ n := by
  have hsh : Shape w n (List.zipWith f a b) := ⟨by simp [ha.1, hb.1], zipWith_wf hf hg ha.2 hb.2⟩
  refine ⟨canon_of_mask hw hn hsh, ?_⟩
  rw [toNat_maskMSU hw hn hsh.2 hsh.1, toNat_zipWith hw hf hg ha.2 hb.2 (by rw [ha.1, hb.1])]

theorem band_spec (hw : 0 < w) (hn : 0 < n) {a b : List Nat} (ha : Shape w n a) (hb : Shape w n b) :
    Canon w n (band w n a b) ∧ toNat w (band w n a b) = IntegerSpec.band n (toNat w a) (toNat w b) :=
  bitop_spec hw hn (g := (· && ·)) Nat.testBit_and rfl ha hb

theorem bor_spec (hw : 0 < w) (hn : 0 < n) {a b : List Nat} (ha : Shape w n a) (hb : Shape w n b) :
    Canon w n (bor w n a b) ∧ toNat w (bor w n a b) = IntegerSpec.bor n (toNat w a) (toNat w b) :=
  bitop_spec hw hn (g := (· || ·)) Nat.testBit_or rfl ha hb

theorem bxor_spec (hw : 0 < w) (hn : 0 < n) {a b : List Nat} (ha : Shape w n a) (hb : Shape w n b) :
    Canon w n (bxor w n a b) ∧ toNat w (bxor w n a b) = IntegerSpec.bxor n (toNat w a) (toNat w b) :=
  bitop_spec hw hn (g := (· ^^ ·)) Nat.testBit_xor rfl ha hb

/-- `operator~`: one's complement = −a − 1 wrapped -/
theorem bnot_spec (hw : 0 < w) (hn : 0 < n) {a : List Nat} (ha : Canon w n a) :
    Canon w n (flip w n a) ∧ toNat w (flip w n a) = IntegerSpec.bnot n (toNat w a) := by
  obtain ⟨hc, hv⟩ := flip_spec hw hn ha.shape
  refine ⟨hc, ?_⟩
  unfold IntegerSpec.bnot IntegerSpec.wrap IntegerSpec.val
  apply eq_ofSigned_of_modEq hc.2.2
  rw [hv, Nat.mod_eq_of_lt ha.2.2]
  have h1 : 1 ≤ 2 ^ n := Nat.one_le_two_pow
  have h2 : toNat w a ≤ 2 ^ n - 1 := by have := ha.2.2; omega
  rw [Nat.cast_sub h2, Nat.cast_sub h1]
  have h0 : (((2 ^ n : Nat) : Int)) ≡ 0 [ZMOD M2 n] := by
    rw [Int.modEq_iff_dvd]; exact ⟨-1, by unfold M2; ring⟩
  have := ((h0.sub (Int.ModEq.refl 1)).sub (modEq_toSigned n (toNat w a)).symm)
  have e : (0 : Int) - 1 - toSigned n (toNat w a) = -toSigned n (toNat w a) - 1 := by ring
  rw [e] at this
  simpa using this

theorem mod_mul_mod_dvd {X M c N : Nat} (h : N ∣ M) : (X % M * c) % N = (X * c) % N := by
  rw [← Nat.mod_mod_of_dvd (X % M * c) h, Nat.mod_mul_mod, Nat.mod_mod_of_dvd _ h]

theorem zeros_canon (hn : 0 < n) : Canon w n (zeros (nrBlocks w n)) ∧ toNat w (zeros (nrBlocks w n)) = 0 :=
  ⟨⟨zeros_length _, zeros_wf w _, by rw [toNat_zeros]; exact Nat.two_pow_pos n⟩, toNat_zeros w _⟩

/-- `operator<<=` with a positive count: the value times 2^s modulo 2^n -/
theorem shlPos_spec (hw : 0 < w) (hn : 0 < n) {a : List Nat} (ha : Canon w n a) {s : Nat} (hs : 0 < s) :
    Canon w n (shlPos w n a s) ∧ toNat w (shlPos w n a s) = (toNat w a * 2 ^ s) % 2 ^ n := by
  unfold shlPos
  by_cases hgt : s > n
  · rw [if_pos hgt, ha.1]
    obtain ⟨hz, hzv⟩ := zeros_canon (w := w) hn
    refine ⟨hz, ?_⟩
    rw [hzv]
    have : 2 ^ s = 2 ^ n * 2 ^ (s - n) := by rw [← Nat.pow_add]; congr 1; omega
    rw [this, ← Nat.mul_assoc, Nat.mul_comm (toNat w a), Nat.mul_assoc, Nat.mul_mod_right]
  · rw [if_neg hgt]
    simp only
    have hk := ha.1
    have hd := pow_dvd_storage hw hn
    by_cases hsw : s ≥ w
    · simp only [hsw, if_true, decide_true, Bool.true_and]
      have hs1 : s - s / w * w = s % w := by
        have := Nat.div_add_mod s w; rw [Nat.mul_comm] at this; omega
      rw [hs1]
      have hsh1 : Shape w n (shlBlocks a (s / w)) := ⟨by rw [shlBlocks_length]; exact hk, shlBlocks_wf ha.2.1 _⟩
      have hv1 := toNat_shlBlocks ha.2.1 (s / w)
      rw [hk] at hv1
      by_cases h0 : s % w = 0
      · have hb : (s % w == 0) = true := by simp [h0]
        rw [hb, if_pos rfl]
        refine ⟨canon_of_mask hw hn hsh1, ?_⟩
        rw [toNat_maskMSU hw hn hsh1.2 hsh1.1, hv1, Nat.mod_mod_of_dvd _ hd]
        have : s = w * (s / w) := by have := Nat.div_add_mod s w; omega
        rw [← this]
      · have hb : (s % w == 0) = false := by simp [h0]
        rw [hb, if_neg (by simp)]
        have hlt : s % w < w := Nat.mod_lt _ hw
        have hsh2 : Shape w n (shlBits w (s % w) 0 (shlBlocks a (s / w))) :=
          ⟨by rw [shlBits_length]; exact hsh1.1, shlBits_wf (by omega) hlt 0 _ (Nat.two_pow_pos w) hsh1.2⟩
        refine ⟨canon_of_mask hw hn hsh2, ?_⟩
        rw [toNat_maskMSU hw hn hsh2.2 hsh2.1, toNat_shlBits (by omega) hlt 0 _ (Nat.two_pow_pos w) hsh1.2, hsh1.1,
          Nat.zero_div, Nat.add_zero, Nat.mod_mod_of_dvd _ hd, hv1, mod_mul_mod_dvd hd, Nat.mul_assoc, ← Nat.pow_add,
          Nat.div_add_mod]
    · have hsw' : ¬ s ≥ w := hsw
      simp only [hsw', if_false, decide_false, Bool.false_and, Nat.zero_mul, Nat.sub_zero]
      rw [if_neg (by simp)]
      have hlt : s < w := by omega
      have hsh2 : Shape w n (shlBits w s 0 a) := ⟨by rw [shlBits_length]; exact hk, shlBits_wf hs hlt 0 _ (Nat.two_pow_pos w) ha.2.1⟩
      refine ⟨canon_of_mask hw hn hsh2, ?_⟩
      rw [toNat_maskMSU hw hn hsh2.2 hsh2.1, toNat_shlBits hs hlt 0 _ (Nat.two_pow_pos w) ha.2.1, hk,
        Nat.zero_div, Nat.add_zero, Nat.mod_mod_of_dvd _ hd]

/-- `operator>>=` with a count `0 < s < n`: arithmetic shift = floor division of the signed value by 2^s -/
theorem shrPos_spec (hw : 0 < w) (hn : 0 < n) {a : List Nat} (ha : Canon w n a) {s : Nat} (hs : 0 < s) (hsn : s < n) :
    Canon w n (shrPos w n a s) ∧
    toNat w (shrPos w n a s) = ofSigned n (toSigned n (toNat w a) / ((2 ^ s : Nat) : Int)) := by
  have hk := ha.1
  have hA := ha.2.2
  have hwk := nrBlocks_hi hw hn
  have hsg := sign_eq hw hn ha.2.1
  have hAhi : ∀ j, n ≤ j → (toNat w a).testBit j = false := fun j hj =>
    Nat.testBit_lt_two_pow (Nat.lt_of_lt_of_le hA (Nat.pow_le_pow_right (by omega) hj))
  have key : ∀ r : List Nat, r.length = nrBlocks w n → Wf w r →
      (∀ j, (toNat w r).testBit j = if j + s < n then (toNat w a).testBit (j + s) else (decide (j < n) && (toNat w a).testBit (n - 1))) →
      Canon w n r ∧ toNat w r = ofSigned n (toSigned n (toNat w a) / ((2 ^ s : Nat) : Int)) := by
    intro r hl hwf hb
    have : toNat w r = ofSigned n (toSigned n (toNat w a) / ((2 ^ s : Nat) : Int)) := by
      apply Nat.eq_of_testBit_eq
      intro j
      rw [hb j, testBit_asr hn hA hsn]
    exact ⟨canon_of_eq_ofSigned hl hwf this, this⟩
  unfold shrPos
  rw [if_neg (by omega)]
  simp only
  by_cases hsw : s ≥ w
  · simp only [hsw, if_true, decide_true, Bool.true_and]
    have hs1 : s - s / w * w = s % w := by
      have := Nat.div_add_mod s w; rw [Nat.mul_comm] at this; omega
    have hdm := Nat.div_add_mod s w
    rw [hs1]
    have hbs : s / w ≤ a.length := by
      rw [hk]; exact le_of_lt (Nat.div_lt_of_lt_mul (by omega))
    have hl1 : (shrBlocks a (s / w)).length = nrBlocks w n := by rw [shrBlocks_length hbs, hk]
    have hw1 : Wf w (shrBlocks a (s / w)) := shrBlocks_wf ha.2.1 _
    have hb1 := testBit_shrBlocks hw ha.2.1 hbs
    rw [hk] at hb1
    by_cases h0 : s % w = 0
    · have hb : (s % w == 0) = true := by simp [h0]
      rw [hb, if_pos rfl]
      have hsw' : s / w * w = s := by rw [Nat.mul_comm]; omega
      rw [hsw']
      obtain ⟨p1, p2, p3⟩ := setRange_props hw hw1 (n - s) n (sign w n a) (by omega) (by rw [hl1]; exact hwk)
      apply key _ (by rw [p1, hl1]) p2
      intro j
      rw [p3 j, hb1 j, hsg]
      have hws : w * (s / w) = s := by omega
      rw [hws]
      by_cases hj : j + s < n
      · have hq : j / w < nrBlocks w n - s / w := by
          apply Nat.div_lt_of_lt_mul
          rw [Nat.mul_sub, hws]; omega
        rw [if_neg (by omega), if_pos hq, if_pos hj]
      · rw [if_neg hj]
        by_cases hjn : j < n
        · rw [if_pos (by omega)]; simp [hjn]
        · rw [if_neg (by omega)]
          simp only [hjn, decide_false, Bool.false_and]
          split
          · exact hAhi _ (by omega)
          · exact hAhi _ (by omega)
    · have hb : (s % w == 0) = false := by simp [h0]
      rw [hb, if_neg (by simp)]
      have hlt : s % w < w := Nat.mod_lt _ hw
      have hsum : s % w + s / w * w = s := by rw [Nat.mul_comm]; omega
      rw [hsum]
      have hl2 : (shrBits w (s % w) (shrBlocks a (s / w))).length = nrBlocks w n := by rw [shrBits_length, hl1]
      have hw2 : Wf w (shrBits w (s % w) (shrBlocks a (s / w))) := shrBits_wf (le_of_lt hlt) hw1
      have hv2 := toNat_shrBits (le_of_lt hlt) hw1
      obtain ⟨p1, p2, p3⟩ := setRange_props hw hw2 (n - s) n (sign w n a) (by omega) (by rw [hl2]; exact hwk)
      have hsh3 : Shape w n (setRange w (shrBits w (s % w) (shrBlocks a (s / w))) (n - s) n (sign w n a)) := ⟨by rw [p1, hl2], p2⟩
      apply key _ (by rw [maskMSU_length, hsh3.1]) (maskMSU_wf p2)
      intro j
      rw [testBit_maskMSU hw hn hsh3, p3 j, hv2, Nat.testBit_div_two_pow, hb1, hsg]
      by_cases hj : j + s < n
      · have hq : (j + s % w) / w < nrBlocks w n - s / w := by
          apply Nat.div_lt_of_lt_mul
          rw [Nat.mul_sub]; omega
        have e : j + s % w + w * (s / w) = j + s := by omega
        rw [if_neg (by omega), if_pos hq, if_pos hj, e]
        simp; omega
      · rw [if_neg hj]
        by_cases hjn : j < n
        · rw [if_pos (by omega)]
        · simp [hjn]
  · have hsw' : ¬ s ≥ w := hsw
    simp only [hsw', if_false, decide_false, Bool.false_and, Nat.zero_mul, Nat.sub_zero, Nat.add_zero]
    rw [if_neg (by simp)]
    have hlt : s < w := by omega
    have hl2 : (shrBits w s a).length = nrBlocks w n := by rw [shrBits_length, hk]
    have hw2 : Wf w (shrBits w s a) := shrBits_wf (le_of_lt hlt) ha.2.1
    have hv2 := toNat_shrBits (le_of_lt hlt) ha.2.1
    obtain ⟨p1, p2, p3⟩ := setRange_props hw hw2 (n - s) n (sign w n a) (by omega) (by rw [hl2]; exact hwk)
    have hsh3 : Shape w n (setRange w (shrBits w s a) (n - s) n (sign w n a)) := ⟨by rw [p1, hl2], p2⟩
    apply key _ (by rw [maskMSU_length, hsh3.1]) (maskMSU_wf p2)
    intro j
    rw [testBit_maskMSU hw hn hsh3, p3 j, hv2, Nat.testBit_div_two_pow, hsg]
    by_cases hj : j + s < n
    · rw [if_neg (by omega), if_pos hj]
      simp; omega
    · rw [if_neg hj]
      by_cases hjn : j < n
      · rw [if_pos (by omega)]
      · simp [hjn]

theorem shr_eq_shl_neg (a : List Nat) (k : Int) : shr w n a k = shl w n a (-k) := by
  unfold shr shl
  by_cases h0 : k = 0
  · subst h0; simp
  · have h0' : ¬ (-k = 0) := by omega
    rw [if_neg h0, if_neg h0']
    by_cases hneg : k < 0
    · have : ¬ (-k < 0) := by omega
      rw [if_pos hneg, if_neg this]
    · have : -k < 0 := by omega
      rw [if_neg hneg, if_pos this, neg_neg]

theorem sign_neg (hw : 0 < w) (hn : 0 < n) {a : List Nat} (ha : Canon w n a) : sign w n a = decide (toSigned n (toNat w a) < 0) := by
  rw [sign_canon hw hn ha, toSigned_of_lt hn ha.2.2]
  have hA := ha.2.2
  have hp : 2 ^ n = 2 ^ (n - 1) * 2 := by rw [← Nat.pow_succ]; congr 1; omega
  by_cases h : toNat w a < 2 ^ (n - 1)
  · rw [if_pos h]
    have h2 : ¬ 2 ^ (n - 1) ≤ toNat w a := by omega
    have h3 : ¬ ((toNat w a : Nat) : Int) < 0 := by omega
    rw [decide_eq_false h2, decide_eq_false h3]
  · rw [if_neg h]
    have h1 : ((toNat w a : Nat) : Int) < ((2 ^ n : Nat) : Int) := by exact_mod_cast hA
    have h2 : 2 ^ (n - 1) ≤ toNat w a := by omega
    have h3 : ((toNat w a : Nat) : Int) - ((2 ^ n : Nat) : Int) < 0 := by omega
    rw [decide_eq_true h2, decide_eq_true h3]

/-- all ones: `for (i < nbits) setbit(i)` on a cleared value -/
theorem allones_spec (hw : 0 < w) (hn : 0 < n) :
    Canon w n (setRange w (zeros (nrBlocks w n)) 0 n true) ∧ toNat w (setRange w (zeros (nrBlocks w n)) 0 n true) = 2 ^ n - 1 := by
  obtain ⟨p1, p2, p3⟩ := setRange_props hw (zeros_wf w (nrBlocks w n)) 0 n true (by omega)
    (by rw [zeros_length]; exact nrBlocks_hi hw hn)
  have hv : toNat w (setRange w (zeros (nrBlocks w n)) 0 n true) = 2 ^ n - 1 := by
    apply Nat.eq_of_testBit_eq
    intro j
    rw [p3 j, toNat_zeros, Nat.testBit_two_pow_sub_one]
    by_cases hj : j < n
    · rw [if_pos ⟨by omega, hj⟩]; simp [hj]
    · rw [if_neg (by omega)]; simp [hj]
  have := Nat.two_pow_pos n
  exact ⟨⟨by rw [p1, zeros_length], p2, by rw [hv]; omega⟩, hv⟩

/-- `operator>>=` with a count ≥ nbits: `setzero()` — canonical zero whatever the sign (defect D8 for negative values) -/
theorem shrPos_ge_spec (hn : 0 < n) {a : List Nat} (ha : Canon w n a) {s : Nat} (hsn : n ≤ s) :
    Canon w n (shrPos w n a s) ∧ toNat w (shrPos w n a s) = 0 := by
  unfold shrPos
  rw [if_pos (by omega), ha.1]
  exact zeros_canon hn

/-- the value of a shift with a signed count, for EVERY count, as the code computes it: `a·2^k` wrapped for k > 0; for a right
    shift by `s = −k` the floor division by 2^s while `s < nbits`, and 0 from nbits on (for negative values the arithmetic
    shift would be −1 there: defect D8).  The right-hand side does not mention the limb width. -/
theorem shl_int_spec (hw : 0 < w) (hn : 0 < n) {a : List Nat} (ha : Canon w n a) (k : Int) :
    Canon w n (shl w n a k) ∧
    toNat w (shl w n a k) =
      (if k = 0 then toNat w a
       else if k < 0 then
         (if (-k).toNat < n then ofSigned n (toSigned n (toNat w a) / ((2 ^ (-k).toNat : Nat) : Int)) else 0)
       else (toNat w a * 2 ^ k.toNat) % 2 ^ n) := by
  unfold shl
  by_cases h0 : k = 0
  · rw [if_pos h0, if_pos h0]; exact ⟨ha, rfl⟩
  · rw [if_neg h0, if_neg h0]
    by_cases hneg : k < 0
    · rw [if_pos hneg, if_pos hneg]
      by_cases hlt : (-k).toNat < n
      · rw [if_pos hlt]
        exact shrPos_spec hw hn ha (by omega) hlt
      · rw [if_neg hlt]
        exact shrPos_ge_spec hn ha (by omega)
    · rw [if_neg hneg, if_neg hneg]
      exact shlPos_spec hw hn ha (by omega)

/-- shifts with a signed count. Left shifts are the ring operation `a·2^k`; right shifts (negative `k`) are the
    floor division, provided the count stays below nbits or the value is non-negative (defect D8 otherwise). -/
theorem shl_spec (hw : 0 < w) (hn : 0 < n) {a : List Nat} (ha : Canon w n a) (k : Int)
    (hg : 0 ≤ k ∨ -k < n ∨ 0 ≤ toSigned n (toNat w a)) :
    Canon w n (shl w n a k) ∧ toNat w (shl w n a k) = IntegerSpec.shl n (toNat w a) k := by
  unfold IntegerSpec.shl IntegerSpec.wrap IntegerSpec.val IntegerSpec.shlZ shl
  by_cases h0 : k = 0
  · subst h0
    simp only [if_true, ge_iff_le, le_refl, Int.toNat_zero, Nat.pow_zero, Nat.cast_one, mul_one]
    exact ⟨ha, (ofSigned_toSigned_of_lt ha.2.2).symm⟩
  · rw [if_neg h0]
    by_cases hneg : k < 0
    · rw [if_pos hneg, if_neg (by omega)]
      have hs : 0 < (-k).toNat := by omega
      by_cases hlt : (-k).toNat < n
      · exact shrPos_spec hw hn ha hs hlt
      · -- count ≥ nbits: the code zeroes the value; correct for non-negative values only
        have hx : 0 ≤ toSigned n (toNat w a) := by
          rcases hg with h | h | h
          · omega
          · omega
          · exact h
        obtain ⟨hz, hzv⟩ := shrPos_ge_spec (w := w) hn ha (s := (-k).toNat) (by omega)
        refine ⟨hz, ?_⟩
        rw [hzv]
        obtain ⟨_, r2⟩ := toSigned_range hn (toNat w a)
        have hle : M2 (n - 1) ≤ ((2 ^ (-k).toNat : Nat) : Int) := by
          unfold M2; exact_mod_cast Nat.pow_le_pow_right (by omega) (by omega)
        rw [Int.ediv_eq_zero_of_lt hx (by omega)]
        simp [ofSigned]
    · rw [if_neg hneg, if_pos (by omega)]
      have hs : 0 < k.toNat := by omega
      obtain ⟨hc, hv⟩ := shlPos_spec hw hn ha hs
      refine ⟨hc, ?_⟩
      apply eq_ofSigned_of_modEq hc.2.2
      rw [hv]
      refine (modEq_natMod _ _).trans ?_
      push_cast
      exact (modEq_toSigned n (toNat w a)).symm.mul (Int.ModEq.refl _)

theorem shr_spec (hw : 0 < w) (hn : 0 < n) {a : List Nat} (ha : Canon w n a) (k : Int)
    (hg : k ≤ 0 ∨ k < n ∨ 0 ≤ toSigned n (toNat w a)) :
    Canon w n (shr w n a k) ∧ toNat w (shr w n a k) = IntegerSpec.shr n (toNat w a) k := by
  rw [shr_eq_shl_neg]
  unfold IntegerSpec.shr
  have := shl_spec hw hn ha (-k) (by rcases hg with h | h | h; exact Or.inl (by omega); exact Or.inr (Or.inl (by omega)); exact Or.inr (Or.inr h))
  unfold IntegerSpec.shl at this
  exact this

theorem toSigned_small {N v : Nat} (hN : 0 < N) (h : v < 2 ^ (N - 1)) : toSigned N v = (v : Int) := by
  have hlt : v < 2 ^ N := Nat.lt_of_lt_of_le h (Nat.pow_le_pow_right (by omega) (by omega))
  rw [toSigned_of_lt hN hlt, if_pos h]

theorem shr_one_small (hw : 0 < w) (hn : 0 < n) {s : List Nat} (hs : Canon w (n + 1) s) (hlt : toNat w s < 2 ^ n) :
    Canon w (n + 1) (shr w (n + 1) s 1) ∧ toNat w (shr w (n + 1) s 1) = toNat w s / 2 := by
  obtain ⟨hc, hv⟩ := shr_spec hw (by omega : 0 < n + 1) hs 1 (Or.inr (Or.inl (by omega)))
  refine ⟨hc, ?_⟩
  rw [hv]
  unfold IntegerSpec.shr IntegerSpec.wrap IntegerSpec.val IntegerSpec.shlZ
  rw [if_neg (by omega)]
  have h1 : (-(-(1 : Int))).toNat = 1 := by simp
  rw [h1, toSigned_small (by omega) (by rw [Nat.add_sub_cancel]; exact hlt)]
  have : ((toNat w s : Nat) : Int) / ((2 ^ 1 : Nat) : Int) = ((toNat w s / 2 : Nat) : Int) := by
    rw [Int.natCast_ediv]; rfl
  rw [this, ofSigned_natCast, Nat.mod_eq_of_lt]
  exact Nat.lt_of_le_of_lt (Nat.div_le_self _ _) hs.2.2

theorem idivStep_spec (hw : 0 < w) (hn : 0 < n) {A B : Nat} (hB : 0 < B) (hA : A < 2 ^ n)
    (i : Nat) (acc sb q : List Nat) (hacc : Canon w (n + 1) acc) (hsb : Canon w (n + 1) sb) (hq : Canon w n q) (hi : i < n)
    (hsbv : toNat w sb = B * 2 ^ i) (haccv : toNat w acc < B * 2 ^ (i + 1)) (hsbl : B * 2 ^ i < 2 ^ n)
    (hdec : A = toNat w q * B + toNat w acc) (hqz : toNat w q % 2 ^ (i + 1) = 0) :
    ∃ acc' sb' q', idivStep w n (acc, sb, q) i = (acc', sb', q') ∧
      Canon w (n + 1) acc' ∧ Canon w (n + 1) sb' ∧ Canon w n q' ∧
      toNat w sb' = B * 2 ^ i / 2 ∧ toNat w acc' < B * 2 ^ i ∧ A = toNat w q' * B + toNat w acc' ∧ toNat w q' % 2 ^ i = 0 := by
  have hN : 0 < n + 1 := by omega
  have haccn : toNat w acc < 2 ^ n := by omega
  have hsbn : toNat w sb < 2 ^ n := by omega
  obtain ⟨hs', hs'v⟩ := shr_one_small hw hn hsb hsbn
  rw [hsbv] at hs'v
  have hlt : lt w (n + 1) acc sb = decide (toNat w acc < toNat w sb) := by
    rw [lt_spec hw hN hacc hsb, toSigned_small hN (by rw [Nat.add_sub_cancel]; exact haccn),
      toSigned_small hN (by rw [Nat.add_sub_cancel]; exact hsbn)]
    simp
  have hqi : i / w < q.length := by
    rw [hq.1]; unfold nrBlocks
    have : i / w ≤ (n - 1) / w := Nat.div_le_div_right (by omega)
    omega
  have hpow : 2 ^ (i + 1) = 2 ^ i * 2 := by rw [Nat.pow_succ]
  unfold idivStep
  simp only
  by_cases hge : toNat w acc < toNat w sb
  · -- quotient bit 0
    rw [hlt, decide_eq_true hge]
    simp only [Bool.not_true, Bool.false_eq_true, if_false]
    have hbit : (toNat w q).testBit i = false := testBit_of_mod_zero hqz
    have hqv := toNat_setbit_false hw hq.2.1 hbit
    refine ⟨_, _, _, rfl, hacc, hs', ⟨by rw [setbit_length]; exact hq.1, setbit_wf hw hq.2.1 _ _, by rw [hqv]; exact hq.2.2⟩,
      hs'v, by rw [← hsbv]; exact hge, by rw [hqv]; exact hdec, ?_⟩
    rw [hqv]
    have : 2 ^ i ∣ 2 ^ (i + 1) := Nat.pow_dvd_pow 2 (by omega)
    rw [← Nat.mod_mod_of_dvd _ this, hqz]; simp
  · -- quotient bit 1
    rw [hlt, decide_eq_false hge]
    simp only [Bool.not_false, if_true]
    obtain ⟨hd, hdv⟩ := sub_spec hw hN hacc.shape hsb.shape
    have hqv := toNat_setbit_true hw hq.2.1 hqi hqz
    have hsub : toNat w (sub w (n + 1) acc sb) = toNat w acc - toNat w sb := by
      rw [hdv, Nat.mod_eq_of_lt hsb.2.2]
      have h1 := hsb.2.2
      have h2 := hacc.2.2
      rw [show toNat w acc + (2 ^ (n + 1) - toNat w sb) = (toNat w acc - toNat w sb) + 2 ^ (n + 1) by omega,
        Nat.add_mod_right, Nat.mod_eq_of_lt (by omega)]
    have hle : B * 2 ^ i ≤ toNat w acc := by rw [← hsbv]; omega
    have hdec' : A = (toNat w q + 2 ^ i) * B + (toNat w acc - toNat w sb) := by
      have e1 : (toNat w q + 2 ^ i) * B = toNat w q * B + B * 2 ^ i := by ring
      rw [e1, hdec, hsbv]
      generalize toNat w q * B = X at *
      generalize B * 2 ^ i = Y at *
      omega
    have hqlt : toNat w q + 2 ^ i < 2 ^ n := by
      have h1 : toNat w q + 2 ^ i ≤ (toNat w q + 2 ^ i) * B := Nat.le_mul_of_pos_right _ hB
      have h2 : (toNat w q + 2 ^ i) * B ≤ A := by rw [hdec']; exact Nat.le_add_right _ _
      omega
    have hacc' : toNat w (sub w (n + 1) acc sb) < B * 2 ^ i := by
      rw [hsub, hsbv]
      have e2 : B * 2 ^ (i + 1) = B * 2 ^ i * 2 := by rw [hpow]; ring
      rw [e2] at haccv
      generalize B * 2 ^ i = Y at *
      omega
    refine ⟨_, _, _, rfl, hd, hs', ⟨by rw [setbit_length]; exact hq.1, setbit_wf hw hq.2.1 _ _, by rw [hqv]; exact hqlt⟩,
      hs'v, hacc', by rw [hqv, hsub]; exact hdec', ?_⟩
    rw [hqv]
    have : 2 ^ i ∣ 2 ^ (i + 1) := Nat.pow_dvd_pow 2 (by omega)
    have hz : toNat w q % 2 ^ i = 0 := by rw [← Nat.mod_mod_of_dvd _ this, hqz]; simp
    rw [Nat.add_mod, hz, Nat.mod_self]; simp

theorem idiv_loop (hw : 0 < w) (hn : 0 < n) {A B : Nat} (hB : 0 < B) (hA : A < 2 ^ n) :
    ∀ (i : Nat) (acc sb q : List Nat), Canon w (n + 1) acc → Canon w (n + 1) sb → Canon w n q → i < n →
      toNat w sb = B * 2 ^ i → toNat w acc < B * 2 ^ (i + 1) → B * 2 ^ i < 2 ^ n →
      A = toNat w q * B + toNat w acc → toNat w q % 2 ^ (i + 1) = 0 →
      ∃ acc' sb' q', ((List.range (i + 1)).reverse).foldl (idivStep w n) (acc, sb, q) = (acc', sb', q') ∧
        Canon w (n + 1) acc' ∧ Canon w n q' ∧ toNat w acc' < B ∧ A = toNat w q' * B + toNat w acc' := by
  intro i
  induction i with
  | zero =>
    intro acc sb q hacc hsb hq hi hsbv haccv hsbl hdec hqz
    obtain ⟨acc', sb', q', e, c1, _, c3, _, c5, c6, _⟩ := idivStep_spec hw hn hB hA 0 acc sb q hacc hsb hq hi hsbv haccv hsbl hdec hqz
    refine ⟨acc', sb', q', ?_, c1, c3, by simpa using c5, c6⟩
    simp only [List.range_succ, List.range_zero, List.nil_append, List.reverse_cons, List.reverse_nil, List.foldl_cons, List.foldl_nil]
    exact e
  | succ i ih =>
    intro acc sb q hacc hsb hq hi hsbv haccv hsbl hdec hqz
    obtain ⟨acc', sb', q', e, c1, c2, c3, c4, c5, c6, c7⟩ := idivStep_spec hw hn hB hA (i + 1) acc sb q hacc hsb hq hi hsbv haccv hsbl hdec hqz
    have hhalf : B * 2 ^ (i + 1) / 2 = B * 2 ^ i := by
      rw [Nat.pow_succ, ← Nat.mul_assoc, Nat.mul_div_cancel _ (by omega : 0 < 2)]
    rw [hhalf] at c4
    have hsbl' : B * 2 ^ i < 2 ^ n := by
      have : B * 2 ^ i ≤ B * 2 ^ (i + 1) := Nat.mul_le_mul_left _ (Nat.pow_le_pow_right (by omega) (by omega))
      omega
    obtain ⟨a2, s2, q2, e2, r⟩ := ih acc' sb' q' c1 c2 c3 (by omega) c4 c5 hsbl' c6 c7
    refine ⟨a2, s2, q2, ?_, r⟩
    rw [List.range_succ, List.reverse_append]
    simp only [List.reverse_cons, List.reverse_nil, List.nil_append, List.cons_append, List.foldl_cons]
    rw [e]
    exact e2

theorem toNat_eq_zero_of_iszero : ∀ {l : List Nat}, iszero l = true → toNat w l = 0
  | [], _ => rfl
  | x :: xs, h => by
    simp only [iszero, List.all_cons, Bool.and_eq_true, beq_iff_eq] at h
    have := toNat_eq_zero_of_iszero (l := xs) (by simpa [iszero] using h.2)
    rw [toNat, h.1, this]; simp

/-- the magnitude operand of `idiv`: `bitcopy` into nbits+1 of `a` or `−a` -/
theorem absOperand_spec (hw : 0 < w) (hn : 0 < n) {a : List Nat} (ha : Canon w n a) :
    Canon w (n + 1) (bitcopy w (n + 1) (if sign w n a then neg w n a else a)) ∧
    ((toNat w (bitcopy w (n + 1) (if sign w n a then neg w n a else a)) : Nat) : Int) = |toSigned n (toNat w a)| ∧
    toNat w (bitcopy w (n + 1) (if sign w n a then neg w n a else a)) < 2 ^ n := by
  have hA := ha.2.2
  have hp : 2 ^ n = 2 ^ (n - 1) * 2 := by rw [← Nat.pow_succ]; congr 1; omega
  have hpN : 2 ^ (n + 1) = 2 ^ n * 2 := by rw [Nat.pow_succ]
  have hx := toSigned_of_lt hn hA
  rw [sign_canon hw hn ha]
  by_cases hs : 2 ^ (n - 1) ≤ toNat w a
  · rw [decide_eq_true hs, if_pos rfl]
    obtain ⟨hc, hv⟩ := neg_spec hw hn ha.shape
    obtain ⟨bc, bv⟩ := bitcopy_spec (n := n + 1) hw (by omega) hc.2.1
    rw [Nat.mod_eq_of_lt hA, Nat.mod_eq_of_lt (by omega)] at hv
    rw [hv, Nat.mod_eq_of_lt (by omega)] at bv
    refine ⟨bc, ?_, by rw [bv]; omega⟩
    rw [bv, hx, if_neg (by omega), Nat.cast_sub (le_of_lt hA)]
    have : ((toNat w a : Nat) : Int) < ((2 ^ n : Nat) : Int) := by exact_mod_cast hA
    rw [abs_of_neg (by omega)]; ring
  · rw [decide_eq_false hs, if_neg (by simp)]
    obtain ⟨bc, bv⟩ := bitcopy_spec (n := n + 1) hw (by omega) ha.2.1
    rw [Nat.mod_eq_of_lt (by omega)] at bv
    refine ⟨bc, ?_, by rw [bv]; exact hA⟩
    rw [bv, hx, if_pos (by omega), abs_of_nonneg (by omega)]

theorem tdiv_signs (X Y : Nat) (sx sy : Bool) :
    Int.tdiv (if sx then -(X : Int) else X) (if sy then -(Y : Int) else Y)
      = if sx != sy then -((X / Y : Nat) : Int) else ((X / Y : Nat) : Int) := by
  cases sx <;> cases sy <;>
    simp only [if_true, if_false, Bool.false_eq_true, bne_self_eq_false, Bool.true_bne, Bool.false_bne, Bool.not_true, Bool.not_false,
      Int.neg_tdiv, Int.tdiv_neg, Int.ofNat_tdiv, neg_neg]

theorem tmod_signs (X Y : Nat) (sx sy : Bool) :
    Int.tmod (if sx then -(X : Int) else X) (if sy then -(Y : Int) else Y)
      = if sx then -((X % Y : Nat) : Int) else ((X % Y : Nat) : Int) := by
  cases sx <;> cases sy <;>
    simp only [if_true, if_false, Bool.false_eq_true, Int.neg_tmod, Int.tmod_neg, Int.ofNat_tmod]

theorem signed_of_abs {x : Int} {X : Nat} (h : (X : Int) = |x|) : x = if decide (x < 0) then -(X : Int) else X := by
  by_cases hx : x < 0
  · rw [decide_eq_true hx, if_pos rfl, h, abs_of_neg hx]; ring
  · rw [decide_eq_false hx, if_neg (by simp), h, abs_of_nonneg (by omega)]

theorem msbPos_eq {l : List Nat} (h : toNat w l ≠ 0) : msbPos w l = ((Nat.log2 (toNat w l) : Nat) : Int) := by
  unfold msbPos; simp only; rw [if_neg h]

/-- `idiv`: quotient and remainder of the truncating division of the signed values, wrapped into n bits -/
theorem idiv_spec (hw : 0 < w) (hn : 0 < n)
    {a b : List Nat} (ha : Canon w n a) (hb : Canon w n b) (hb0 : toNat w b ≠ 0) :
    Canon w n (idiv w n a b).1 ∧ Canon w n (idiv w n a b).2 ∧
    toNat w (idiv w n a b).1 = IntegerSpec.div n (toNat w a) (toNat w b) ∧
    toNat w (idiv w n a b).2 = IntegerSpec.rem n (toNat w a) (toNat w b) := by
  have hN : 0 < n + 1 := by omega
  have hz : iszero b = false := by
    by_contra h
    exact hb0 (toNat_eq_zero_of_iszero (by simpa using h))
  obtain ⟨cA, vA, lA⟩ := absOperand_spec hw hn ha
  obtain ⟨cB, vB, lB⟩ := absOperand_spec hw hn hb
  have hsa := sign_neg hw hn ha
  have hsb := sign_neg hw hn hb
  unfold IntegerSpec.div IntegerSpec.rem IntegerSpec.wrap IntegerSpec.val
  unfold idiv
  simp only
  rw [hz, if_neg (by simp)]
  generalize hx : toSigned n (toNat w a) = x at *
  generalize hy : toSigned n (toNat w b) = y at *
  generalize hA' : bitcopy w (n + 1) (if sign w n a then neg w n a else a) = A' at *
  generalize hB' : bitcopy w (n + 1) (if sign w n b then neg w n b else b) = B' at *
  generalize hX : toNat w A' = X at *
  generalize hY : toNat w B' = Y at *
  have hy0 : y ≠ 0 := by
    intro e
    have := ofSigned_toSigned_of_lt hb.2.2
    rw [hy, e] at this
    exact hb0 (by rw [← this]; simp [ofSigned])
  have hYpos : 0 < Y := by
    have : (0 : Int) < (Y : Int) := by rw [vB]; exact abs_pos.mpr hy0
    exact_mod_cast this
  have hxs := signed_of_abs vA
  have hys := signed_of_abs vB
  rw [← hsa] at hxs
  rw [← hsb] at hys
  have hlt : lt w (n + 1) A' B' = decide (X < Y) := by
    rw [lt_spec hw hN cA cB, hX, hY, toSigned_small hN (by rw [Nat.add_sub_cancel]; exact lA),
      toSigned_small hN (by rw [Nat.add_sub_cancel]; exact lB)]
    simp
  have hdivv : Int.tdiv x y = if sign w n a != sign w n b then -((X / Y : Nat) : Int) else ((X / Y : Nat) : Int) := by
    conv_lhs => rw [hxs, hys]
    exact tdiv_signs X Y _ _
  have hmodv : Int.tmod x y = if sign w n a then -((X % Y : Nat) : Int) else ((X % Y : Nat) : Int) := by
    conv_lhs => rw [hxs, hys]
    exact tmod_signs X Y _ _
  by_cases hXY : X < Y
  · -- |a| < |b|: quotient 0, remainder a
    rw [hlt, decide_eq_true hXY, if_pos rfl]
    obtain ⟨hz0, hz0v⟩ := convertSigned_zero (w := w) hw hn
    refine ⟨hz0, ha, ?_, ?_⟩
    · show toNat w (convertSigned w n 0) = _
      rw [hz0v, hdivv, Nat.div_eq_of_lt hXY]; simp [ofSigned]
    · show toNat w a = _
      rw [hmodv, Nat.mod_eq_of_lt hXY, ← hxs, ← hx, ofSigned_toSigned_of_lt ha.2.2]
  · rw [hlt, decide_eq_false hXY, if_neg (by simp)]
    have hXge : Y ≤ X := Nat.le_of_not_lt hXY
    have hX0 : X ≠ 0 := by omega
    have hY0 : Y ≠ 0 := by omega
    -- the alignment shift
    have hmA : msbPos w A' = ((Nat.log2 X : Nat) : Int) := by rw [← hX]; exact msbPos_eq (by rw [hX]; exact hX0)
    have hmB : msbPos w B' = ((Nat.log2 Y : Nat) : Int) := by rw [← hY]; exact msbPos_eq (by rw [hY]; exact hY0)
    have hlog : Nat.log2 Y ≤ Nat.log2 X := (Nat.le_log2 hX0).mpr (Nat.le_trans (Nat.log2_self_le hY0) hXge)
    set dn := Nat.log2 X - Nat.log2 Y with hdn
    have hd : msbPos w A' - msbPos w B' = ((dn : Nat) : Int) := by rw [hmA, hmB, hdn]; omega
    have hlogX : Nat.log2 X < n := (Nat.log2_lt hX0).mpr lA
    have hX1 : X < 2 ^ (Nat.log2 X + 1) := Nat.lt_log2_self
    have hY1 : 2 ^ Nat.log2 Y ≤ Y := Nat.log2_self_le hY0
    have hY2 : Y < 2 ^ (Nat.log2 Y + 1) := Nat.lt_log2_self
    have hsum : Nat.log2 Y + dn = Nat.log2 X := by omega
    have hsbl : Y * 2 ^ dn < 2 ^ n := by
      have : Y * 2 ^ dn < 2 ^ (Nat.log2 Y + 1) * 2 ^ dn := Nat.mul_lt_mul_of_pos_right hY2 (Nat.two_pow_pos dn)
      rw [← Nat.pow_add, show Nat.log2 Y + 1 + dn = Nat.log2 X + 1 by omega] at this
      exact Nat.lt_of_lt_of_le this (Nat.pow_le_pow_right (by omega) (by omega))
    have hXlt : X < Y * 2 ^ (dn + 1) := by
      have : 2 ^ Nat.log2 Y * 2 ^ (dn + 1) ≤ Y * 2 ^ (dn + 1) := Nat.mul_le_mul_right _ hY1
      rw [← Nat.pow_add, show Nat.log2 Y + (dn + 1) = Nat.log2 X + 1 by omega] at this
      omega
    -- the shifted divisor
    rw [hd]
    obtain ⟨cS, vS⟩ := shl_spec hw hN cB ((dn : Nat) : Int) (Or.inl (by omega))
    have vS' : toNat w (shl w (n + 1) B' ((dn : Nat) : Int)) = Y * 2 ^ dn := by
      rw [vS, hY]
      unfold IntegerSpec.shl IntegerSpec.wrap IntegerSpec.val IntegerSpec.shlZ
      rw [if_pos (by omega), Int.toNat_natCast, toSigned_small hN (by rw [Nat.add_sub_cancel]; exact lB)]
      rw [← Nat.cast_mul, ofSigned_natCast, Nat.mod_eq_of_lt]
      exact Nat.lt_of_lt_of_le hsbl (Nat.pow_le_pow_right (by omega) (by omega))
    obtain ⟨hz0, hz0v⟩ := convertSigned_zero (w := w) hw hn
    rw [Int.toNat_natCast]
    obtain ⟨acc', sb', q', efold, c1, c3, c4, c5⟩ := idiv_loop hw hn hYpos lA dn A' (shl w (n + 1) B' ((dn : Nat) : Int))
      (convertSigned w n 0) cA cS hz0 (by omega) vS' (by rw [hX]; exact hXlt) hsbl (by rw [hz0v, hX]; simp) (by rw [hz0v]; simp)
    rw [efold]
    simp only
    -- quotient and remainder of the magnitudes
    have hQ : toNat w q' = X / Y ∧ toNat w acc' = X % Y := by
      have hdm := Nat.div_add_mod X Y
      have h1 : toNat w q' * Y + toNat w acc' = X := c5.symm
      have hqeq : toNat w q' = X / Y := by
        have : X / Y = toNat w q' := by
          rw [← h1, Nat.mul_comm, Nat.mul_add_div hYpos, Nat.div_eq_of_lt c4, Nat.add_zero]
        exact this.symm
      refine ⟨hqeq, ?_⟩
      rw [hqeq] at h1
      have : Y * (X / Y) = X / Y * Y := Nat.mul_comm _ _
      omega
    obtain ⟨hQv, hRv⟩ := hQ
    have hRlt : toNat w acc' < 2 ^ n := by omega
    -- the sign fix-ups
    have hqfin : Canon w n (if sign w n a != sign w n b then add w n (flip w n q') (convertSigned w n 1) else q') ∧
        toNat w (if sign w n a != sign w n b then add w n (flip w n q') (convertSigned w n 1) else q') = ofSigned n (Int.tdiv x y) := by
      rw [hdivv]
      by_cases hs : (sign w n a != sign w n b) = true
      · rw [if_pos hs, if_pos hs]
        obtain ⟨hc, hv⟩ := neg_spec hw hn c3.shape
        refine ⟨hc, ?_⟩
        show toNat w (neg w n q') = _
        apply eq_ofSigned_of_modEq hc.2.2
        rw [hv, hQv]
        exact modEq_neg_nat _ _
      · rw [if_neg hs, if_neg hs]
        refine ⟨c3, ?_⟩
        rw [ofSigned_natCast, ← hQv, Nat.mod_eq_of_lt c3.2.2]
    have hrfin : Canon w n (if isneg w n a then resize w n (n + 1) (neg w (n + 1) acc') else resize w n (n + 1) acc') ∧
        toNat w (if isneg w n a then resize w n (n + 1) (neg w (n + 1) acc') else resize w n (n + 1) acc') = ofSigned n (Int.tmod x y) := by
      rw [hmodv, isneg_spec hw hn ha, hx, ← hsa]
      by_cases hs : sign w n a = true
      · rw [if_pos hs, if_pos hs]
        obtain ⟨hc, hv⟩ := neg_spec hw hN c1.shape
        obtain ⟨hr, hrv⟩ := resize_spec (n := n) hw hn hN hc
        refine ⟨hr, ?_⟩
        rw [hrv]
        apply ofSigned_congr
        rw [← Int.modEq_iff_dvd]
        have h1 : toSigned (n + 1) (toNat w (neg w (n + 1) acc')) ≡ -((X % Y : Nat) : Int) [ZMOD M2 (n + 1)] := by
          refine (modEq_toSigned _ _).trans ?_
          rw [hv, hRv]
          exact modEq_neg_nat _ _
        exact (modEq_of_le (by omega) h1).symm
      · rw [if_neg hs, if_neg hs]
        obtain ⟨hr, hrv⟩ := resize_spec (n := n) hw hn hN c1
        refine ⟨hr, ?_⟩
        rw [hrv, toSigned_small hN (by rw [Nat.add_sub_cancel]; exact hRlt), hRv]
    exact ⟨hqfin.1, hrfin.1, hqfin.2, hrfin.2⟩

theorem abs_tmod_lt (x y : Int) (hy : y ≠ 0) : |Int.tmod x y| < |y| := by
  have key : ∀ (u v : Int), 0 ≤ u → 0 < v → 0 ≤ Int.tmod u v ∧ Int.tmod u v < v :=
    fun u v hu hv => ⟨Int.tmod_nonneg v hu, Int.tmod_lt_of_pos u hv⟩
  rcases lt_or_gt_of_ne hy with hyn | hyp
  · rw [abs_of_neg hyn, ← Int.tmod_neg]
    by_cases hx : 0 ≤ x
    · obtain ⟨h1, h2⟩ := key x (-y) hx (by omega)
      rw [abs_of_nonneg h1]; exact h2
    · obtain ⟨h1, h2⟩ := key (-x) (-y) (by omega) (by omega)
      rw [Int.neg_tmod] at h1 h2
      rw [abs_of_nonpos (by omega)]; omega
  · rw [abs_of_pos hyp]
    by_cases hx : 0 ≤ x
    · obtain ⟨h1, h2⟩ := key x y hx hyp
      rw [abs_of_nonneg h1]; exact h2
    · obtain ⟨h1, h2⟩ := key (-x) y (by omega) hyp
      rw [Int.neg_tmod] at h1 h2
      rw [abs_of_nonpos (by omega)]; omega

theorem single_of_eq {a : List Nat} (ha : Canon w w a) (hw : 0 < w) : a = [blk a 0] ∧ toNat w a = blk a 0 := by
  have hk : nrBlocks w w = 1 := by
    unfold nrBlocks
    rw [Nat.div_eq_of_lt (by omega)]
  have e := single_eq ha.1 hk
  refine ⟨e, ?_⟩
  conv_lhs => rw [e]
  simp [toNat]

/-- the native fast path of the exact-fit single block: truncating division of the signed readings, wrapped into the block —
    for EVERY operand pair: the divisor −1 is negated in the block type (`0 - x`, remainder 0), which is `x tdiv (−1)` wrapped,
    so the most negative value / −1 wraps to itself instead of reaching the hardware division -/
theorem nativeDiv_spec {w x y : Nat} (hw : 0 < w) (hx : x < 2 ^ w) (hy : y < 2 ^ w) (rem : Bool) :
    BB.nativeDiv w x y rem
      = ofSigned w (if rem then Int.tmod (toSigned w x) (toSigned w y) else Int.tdiv (toSigned w x) (toSigned w y)) := by
  unfold BB.nativeDiv
  by_cases h : y = 2 ^ w - 1
  · have hm1 : toSigned w y = -1 := by
      rw [toSigned_of_lt hw hy, h]
      have h1 := Nat.two_pow_pos w
      have hp : 2 ^ w = 2 ^ (w - 1) * 2 := by rw [← Nat.pow_succ]; congr 1; omega
      rw [if_neg (by omega), Nat.cast_sub h1]
      push_cast; ring
    rw [if_pos (show (y == 2 ^ w - 1) = true by simp [h]), hm1]
    cases rem
    · simp only [Bool.false_eq_true, if_false]
      rw [show (-1 : Int) = -(1 : Int) from rfl, Int.tdiv_neg, Int.tdiv_one, ofSigned_neg, Nat.mod_eq_of_lt hx]
    · simp only [if_true]
      rw [show (-1 : Int) = -(1 : Int) from rfl, Int.tmod_neg, Int.tmod_one]
      have := ofSigned_natCast w 0
      simpa using this.symm
  · rw [if_neg (show ¬ ((y == 2 ^ w - 1) = true) by simpa using h)]

/-- `operator/=` and `operator%=`: truncating division of the signed values, wrapped into n bits, for every b ≠ 0 — the native
    fast path included (`nativeDiv_spec`: most negative / −1 wraps) -/
theorem divrem_spec (hw : 0 < w) (hn : 0 < n) {a b : List Nat}
    (ha : Canon w n a) (hb : Canon w n b) (hb0 : toNat w b ≠ 0) :
    Canon w n (divrem w n a b false) ∧ Canon w n (divrem w n a b true) ∧
      toNat w (divrem w n a b false) = IntegerSpec.div n (toNat w a) (toNat w b) ∧
      toNat w (divrem w n a b true) = IntegerSpec.rem n (toNat w a) (toNat w b) := by
  unfold divrem
  by_cases hnw : n = w
  · subst hnw
    rw [if_pos rfl, if_pos rfl]
    obtain ⟨ea, va⟩ := single_of_eq ha hw
    obtain ⟨eb, vb⟩ := single_of_eq hb hw
    have hmask : msuMask n n = 2 ^ n - 1 := by
      have hk : nrBlocks n n = 1 := by unfold nrBlocks; rw [Nat.div_eq_of_lt (by omega)]
      unfold msuMask surplus; rw [hk]; simp
    have hxlt : blk a 0 < 2 ^ n := by rw [← va]; exact ha.2.2
    have hylt : blk b 0 < 2 ^ n := by rw [← vb]; exact hb.2.2
    have hnone : ∀ rem, BB.nativeDiv n (blk a 0) (blk b 0) rem
        = ofSigned n (if rem then Int.tmod (toSigned n (toNat n a)) (toSigned n (toNat n b)) else Int.tdiv (toSigned n (toNat n a)) (toSigned n (toNat n b))) := by
      intro rem
      rw [nativeDiv_spec hw hxlt hylt rem, va, vb]
    have hfin : ∀ z : Int, Canon n n [ofSigned n z &&& msuMask n n] ∧ toNat n [ofSigned n z &&& msuMask n n] = ofSigned n z := by
      intro z
      have hlt := ofSigned_lt n z
      have e : ofSigned n z &&& msuMask n n = ofSigned n z := by
        rw [hmask, Nat.and_two_pow_sub_one_eq_mod, Nat.mod_eq_of_lt hlt]
      rw [e]
      have hk : nrBlocks n n = 1 := by unfold nrBlocks; rw [Nat.div_eq_of_lt (by omega)]
      refine ⟨⟨by simp [hk], Wf.cons hlt (Wf.nil n), by simp [toNat]; exact hlt⟩, by simp [toNat]⟩
    rw [hnone false, hnone true]
    refine ⟨(hfin _).1, (hfin _).1, ?_, ?_⟩
    · rw [(hfin _).2]; rfl
    · rw [(hfin _).2]; rfl
  · rw [if_neg hnw, if_neg hnw]
    obtain ⟨c1, c2, v1, v2⟩ := idiv_spec hw hn ha hb hb0
    exact ⟨c1, c2, v1, v2⟩

theorem low64 (hw : 0 < w) (hn : 0 < n) {a : List Nat} (ha : Canon w n a) :
    toNat w (a.take (min (nrBlocks w n - 1) (63 / w) + 1)) % 2 ^ 64 = toNat w a % 2 ^ 64 := by
  rw [toNat_take ha.2.1]
  by_cases h : nrBlocks w n - 1 ≤ 63 / w
  · rw [Nat.min_eq_left h]
    have hk := nrBlocks_pos w n
    rw [show nrBlocks w n - 1 + 1 = nrBlocks w n by omega]
    have := toNat_lt ha.2.1
    rw [ha.1] at this
    rw [Nat.mod_eq_of_lt this]
  · rw [Nat.min_eq_right (by omega)]
    apply Nat.mod_mod_of_dvd
    apply Nat.pow_dvd_pow
    have := Nat.lt_mul_div_succ 63 hw
    omega

/-- `to_integer<long long>()`: the signed value modulo 2^64 (hence the value itself whenever it fits) -/
theorem toI64_spec (hw : 0 < w) (hn : 0 < n) {a : List Nat} (ha : Canon w n a) :
    toI64 w n a = ofSigned 64 (toSigned n (toNat w a)) := by
  unfold toI64
  by_cases hz : iszero a = true
  · rw [if_pos hz, toNat_eq_zero_of_iszero hz]
    have : toSigned n 0 = 0 := by unfold toSigned; simp
    rw [this]; simp [ofSigned]
  · rw [if_neg hz]
    simp only
    rw [low64 hw hn ha, sign_canon hw hn ha]
    have hA := ha.2.2
    by_cases hn64 : n < 64
    · have hA64 : toNat w a < 2 ^ 64 := Nat.lt_of_lt_of_le hA (Nat.pow_le_pow_right (by omega) (by omega))
      rw [Nat.mod_eq_of_lt hA64, toSigned_of_lt hn hA]
      by_cases hs : 2 ^ (n - 1) ≤ toNat w a
      · have hc : (decide (2 ^ (n - 1) ≤ toNat w a) && decide (n < 64)) = true := by simp [hs, hn64]
        rw [if_pos hc, if_neg (by omega)]
        have hp : 2 ^ 64 = 2 ^ n * 2 ^ (64 - n) := by rw [← Nat.pow_add]; congr 1; omega
        have h1 := Nat.two_pow_pos (64 - n)
        have e : 2 ^ 64 - 2 ^ n = 2 ^ n * (2 ^ (64 - n) - 1) := by rw [Nat.mul_sub, Nat.mul_one, ← hp]
        rw [e, Nat.or_comm, ← Nat.two_pow_add_eq_or_of_lt hA]
        have hval : 2 ^ n * (2 ^ (64 - n) - 1) + toNat w a < 2 ^ 64 := by rw [← e]; omega
        rw [← Nat.mod_eq_of_lt hval, ← ofSigned_natCast]
        apply ofSigned_congr
        rw [← e]
        have hle : 2 ^ n ≤ 2 ^ 64 := Nat.pow_le_pow_right (by omega) (by omega)
        have hnat : 2 ^ 64 - 2 ^ n + toNat w a + 2 ^ n = toNat w a + 2 ^ 64 := by omega
        have hint : ((2 ^ 64 - 2 ^ n + toNat w a : Nat) : Int) + ((2 ^ n : Nat) : Int) = ((toNat w a : Nat) : Int) + ((2 ^ 64 : Nat) : Int) := by
          exact_mod_cast hnat
        exact ⟨1, by linarith⟩
      · have hc : ¬ ((decide (2 ^ (n - 1) ≤ toNat w a) && decide (n < 64)) = true) := by simp [hs]
        rw [if_neg hc, if_pos (by omega), ofSigned_natCast, Nat.mod_eq_of_lt hA64]
    · have hc : ¬ ((decide (2 ^ (n - 1) ≤ toNat w a) && decide (n < 64)) = true) := by simp [hn64]
      rw [if_neg hc, ofSigned_toSigned_narrow (by omega)]

theorem toU64_spec (hw : 0 < w) (hn : 0 < n) {a : List Nat} (ha : Canon w n a) :
    toU64 w n a = toNat w a % 2 ^ 64 := by
  unfold toU64
  by_cases hz : iszero a = true
  · rw [if_pos hz, toNat_eq_zero_of_iszero hz]; simp
  · rw [if_neg hz]
    simp only
    exact low64 hw hn ha

end UVerif.Integer
