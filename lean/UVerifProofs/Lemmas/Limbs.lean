/-
  Lemmas about the limb-list layer (UVerif.Model.Limbs): value of a limb list, carry chains, MSU mask.
  Every statement is for an arbitrary limb width `w` and size `n`.
-/
import UVerif.Model.Limbs
import Mathlib.Tactic.Ring
import Mathlib.Tactic.Linarith

namespace UVerif.Limbs

instance (w n : Nat) (l : List Nat) : Decidable (Canon w n l) := by unfold Canon; infer_instance

/-- every limb is a `w`-bit value -/
def Wf (w : Nat) (l : List Nat) : Prop := ∀ x ∈ l, x < 2 ^ w

theorem Wf.nil (w : Nat) : Wf w [] := by intro x h; cases h
theorem Wf.cons {w x : Nat} {xs : List Nat} (hx : x < 2 ^ w) (h : Wf w xs) : Wf w (x :: xs) := by
  intro y hy
  rcases List.mem_cons.mp hy with rfl | hy
  · exact hx
  · exact h y hy
theorem Wf.head {w x : Nat} {xs : List Nat} (h : Wf w (x :: xs)) : x < 2 ^ w := h x (List.mem_cons_self ..)
theorem Wf.tail {w x : Nat} {xs : List Nat} (h : Wf w (x :: xs)) : Wf w xs := fun y hy => h y (List.mem_cons_of_mem _ hy)

theorem toNat_nil (w : Nat) : toNat w [] = 0 := rfl
theorem toNat_cons (w x : Nat) (xs : List Nat) : toNat w (x :: xs) = x + 2 ^ w * toNat w xs := rfl

theorem toNat_lt {w : Nat} : ∀ {l : List Nat}, Wf w l → toNat w l < 2 ^ (w * l.length)
  | [], _ => by simp [toNat]
  | x :: xs, h => by
    have hx := h.head
    have ih := toNat_lt h.tail
    simp only [toNat, List.length_cons, Nat.mul_add, Nat.mul_one, Nat.pow_add]
    have : 2 ^ w * (toNat w xs + 1) ≤ 2 ^ w * 2 ^ (w * xs.length) := Nat.mul_le_mul_left _ ih
    rw [Nat.mul_comm (2 ^ (w * xs.length))]
    nlinarith

theorem toNat_append (w : Nat) : ∀ (a b : List Nat), toNat w (a ++ b) = toNat w a + 2 ^ (w * a.length) * toNat w b
  | [], b => by simp [toNat]
  | x :: xs, b => by
    simp only [List.cons_append, toNat, toNat_append w xs b, List.length_cons, Nat.mul_add, Nat.mul_one, Nat.pow_add]
    ring

theorem ofNat_length (w : Nat) : ∀ (k v : Nat), (ofNat w k v).length = k
  | 0, _ => rfl
  | k + 1, v => by simp [ofNat, ofNat_length w k]

theorem ofNat_wf (w : Nat) : ∀ (k v : Nat), Wf w (ofNat w k v)
  | 0, _ => Wf.nil w
  | k + 1, v => Wf.cons (Nat.mod_lt _ (Nat.two_pow_pos w)) (ofNat_wf w k _)

theorem toNat_ofNat (w : Nat) : ∀ (k v : Nat), toNat w (ofNat w k v) = v % 2 ^ (w * k)
  | 0, v => by simp [ofNat, toNat, Nat.mod_one]
  | k + 1, v => by
    simp only [ofNat, toNat, toNat_ofNat w k, Nat.mul_add, Nat.mul_one]
    rw [Nat.add_comm (w * k) w, Nat.pow_add, Nat.mod_mul]


theorem mod_split (x y W M : Nat) (hW : 0 < W) : (x + W * y) % (W * M) = x % W + W * ((x / W + y) % M) := by
  rw [Nat.mod_mul, Nat.add_mul_mod_self_left, Nat.add_mul_div_left _ _ hW]

/-- the carry chain computes the sum modulo 2^(w·len) -/
theorem toNat_addLoop (w : Nat) : ∀ (c : Nat) (a b : List Nat), a.length = b.length →
    toNat w (addLoop w false c a b) = (c + toNat w a + toNat w b) % 2 ^ (w * a.length)
  | c, [], [], _ => by simp [addLoop, toNat, Nat.mod_one]
  | c, x :: xs, y :: ys, h => by
    have hl : xs.length = ys.length := by simpa using h
    simp only [addLoop, toNat, Bool.false_eq_true, if_false, toNat_addLoop w _ xs ys hl, List.length_cons,
      Nat.mul_add, Nat.mul_one]
    rw [Nat.add_comm (w * xs.length) w, Nat.pow_add]
    have : c + (x + 2 ^ w * toNat w xs) + (y + 2 ^ w * toNat w ys) = (c + x + y) + 2 ^ w * (toNat w xs + toNat w ys) := by ring
    rw [this, mod_split _ _ _ _ (Nat.two_pow_pos w)]
    congr 2
    ring_nf
  | c, [], _ :: _, h => by simp at h
  | c, _ :: _, [], h => by simp at h

/-- one step of the `uint64_t` branch of integer's carry chain: with a carry-in of at most one and two limbs below `W = 2^w`,
    the limb stored is the sum modulo `W` and the carry recovered from the two wrap-around tests is the true carry -/
theorem wrap_carry {W c x y : Nat} (hW : 0 < W) (hc : c ≤ 1) (hx : x < W) (hy : y < W) :
    ((c + x) % W + y) % W = (c + x + y) % W ∧
    (if (c + x) % W < c then 1 else 0) + (if ((c + x) % W + y) % W < (c + x) % W then 1 else 0) = (c + x + y) / W ∧
    (c + x + y) / W ≤ 1 := by
  have hs : c + x + y < 2 * W := by omega
  have hq : (c + x + y) / W ≤ 1 := by
    have := (Nat.div_lt_iff_lt_mul hW).mpr hs
    omega
  refine ⟨by rw [Nat.mod_add_mod], ?_, hq⟩
  by_cases h1 : c + x < W
  · rw [Nat.mod_eq_of_lt h1]
    have n1 : ¬ (c + x < c) := by omega
    rw [if_neg n1]
    by_cases h2 : c + x + y < W
    · rw [Nat.mod_eq_of_lt h2, Nat.div_eq_of_lt h2]
      have n2 : ¬ (c + x + y < c + x) := by omega
      rw [if_neg n2]
    · have e : (c + x + y) % W = c + x + y - W := by
        rw [Nat.mod_eq_sub_mod (by omega), Nat.mod_eq_of_lt (by omega)]
      have d : (c + x + y) / W = 1 := by
        have : 1 ≤ (c + x + y) / W := (Nat.le_div_iff_mul_le hW).mpr (by omega)
        omega
      rw [e, d, if_pos (by omega)]
  · -- c + x ≥ W forces c = 1, x = W − 1: the first addition wraps to 0
    have e1 : (c + x) % W = 0 := by
      have : c + x = W := by omega
      rw [this, Nat.mod_self]
    rw [e1, Nat.zero_add, Nat.mod_eq_of_lt hy, if_pos (by omega), if_neg (by omega)]
    have : 1 ≤ (c + x + y) / W := (Nat.le_div_iff_mul_le hW).mpr (by omega)
    omega

/-- the `uint64_t` branch of the carry chain (wrap-around tests) computes the same limbs as the wide-accumulator branch -/
theorem addLoop_u64_eq (w : Nat) : ∀ (c : Nat) (a b : List Nat), c ≤ 1 → Wf w a → Wf w b →
    addLoop w true c a b = addLoop w false c a b
  | c, [], _, _, _, _ => by simp [addLoop]
  | c, _ :: _, [], _, _, _ => by simp [addLoop]
  | c, x :: xs, y :: ys, hc, ha, hb => by
    obtain ⟨e1, e2, e3⟩ := wrap_carry (Nat.two_pow_pos w) hc ha.head hb.head
    simp only [addLoop, if_true, Bool.false_eq_true, if_false]
    rw [e1] at e2 ⊢
    rw [e2, addLoop_u64_eq w _ xs ys e3 ha.tail hb.tail]

theorem addLoop_length (w : Nat) (d : Bool) : ∀ (c : Nat) (a b : List Nat), a.length = b.length →
    (addLoop w d c a b).length = a.length
  | c, [], [], _ => by simp [addLoop]
  | c, x :: xs, y :: ys, h => by
    have hl : xs.length = ys.length := by simpa using h
    cases d <;> simp [addLoop, addLoop_length w _ _ xs ys hl]
  | c, [], _ :: _, h => by simp at h
  | c, _ :: _, [], h => by simp at h

theorem addLoop_wf (w : Nat) (d : Bool) : ∀ (c : Nat) (a b : List Nat), Wf w (addLoop w d c a b)
  | c, [], _ => by simp [addLoop]; exact Wf.nil w
  | c, _ :: _, [] => by simp [addLoop]; exact Wf.nil w
  | c, x :: xs, y :: ys => by
    cases d
    · simp only [addLoop, Bool.false_eq_true, if_false]
      exact Wf.cons (Nat.mod_lt _ (Nat.two_pow_pos w)) (addLoop_wf w false _ xs ys)
    · simp only [addLoop, if_true]
      exact Wf.cons (Nat.mod_lt _ (Nat.two_pow_pos w)) (addLoop_wf w true _ xs ys)


/-! ### layout -/

theorem nrBlocks_pos (w n : Nat) : 0 < nrBlocks w n := by
  unfold nrBlocks; exact Nat.lt_of_lt_of_le Nat.one_pos (Nat.le_add_right _ _)

theorem nrBlocks_lo {w n : Nat} (hw : 0 < w) (hn : 0 < n) : w * (nrBlocks w n - 1) < n := by
  unfold nrBlocks
  have h : w * ((n - 1) / w) ≤ n - 1 := Nat.mul_div_le _ _
  rw [Nat.add_sub_cancel_left]
  generalize (n - 1) / w = q at h ⊢
  omega

theorem nrBlocks_hi {w n : Nat} (hw : 0 < w) (hn : 0 < n) : n ≤ w * nrBlocks w n := by
  unfold nrBlocks
  have h := Nat.lt_mul_div_succ (n - 1) hw
  rw [Nat.add_comm 1]
  generalize (n - 1) / w = q at h ⊢
  rw [Nat.mul_succ] at h ⊢
  omega

/-- bits in the most significant block -/
def topBits (w n : Nat) : Nat := n - w * (nrBlocks w n - 1)

theorem topBits_pos {w n : Nat} (hw : 0 < w) (hn : 0 < n) : 0 < topBits w n := by
  have := nrBlocks_lo hw hn; unfold topBits; omega
theorem topBits_le {w n : Nat} (hw : 0 < w) (hn : 0 < n) : topBits w n ≤ w := by
  have h1 := nrBlocks_hi hw hn
  have h2 := nrBlocks_pos w n
  unfold topBits
  have : w * nrBlocks w n = w * (nrBlocks w n - 1) + w := by
    conv_lhs => rw [show nrBlocks w n = (nrBlocks w n - 1) + 1 by omega]
    rw [Nat.mul_add, Nat.mul_one]
  omega
theorem topBits_add {w n : Nat} (hw : 0 < w) (hn : 0 < n) : w * (nrBlocks w n - 1) + topBits w n = n := by
  have := nrBlocks_lo hw hn; unfold topBits; omega

theorem surplus_eq {w n : Nat} (hw : 0 < w) (hn : 0 < n) : surplus w n = w - topBits w n := by
  have h1 := nrBlocks_hi hw hn
  have h2 := nrBlocks_pos w n
  have h3 := nrBlocks_lo hw hn
  unfold surplus topBits
  have : nrBlocks w n * w = w * (nrBlocks w n - 1) + w := by
    conv_lhs => rw [show nrBlocks w n = (nrBlocks w n - 1) + 1 by omega]
    rw [Nat.add_mul, Nat.one_mul, Nat.mul_comm]
  omega

theorem allones_shr (w s : Nat) (h : s ≤ w) : (2 ^ w - 1) / 2 ^ s = 2 ^ (w - s) - 1 := by
  have hp : 2 ^ w = 2 ^ s * 2 ^ (w - s) := by rw [← Nat.pow_add]; congr 1; omega
  have h1 := Nat.two_pow_pos s
  have h2 := Nat.two_pow_pos (w - s)
  rw [hp]
  generalize 2 ^ s = S at *
  generalize 2 ^ (w - s) = T at *
  obtain ⟨t, rfl⟩ : ∃ t, T = t + 1 := ⟨T - 1, by omega⟩
  rw [Nat.add_sub_cancel]
  apply Nat.div_eq_of_lt_le
  · rw [Nat.mul_succ, Nat.mul_comm t S]
    omega
  · rw [Nat.mul_comm (t + 1) S, Nat.mul_succ]
    omega

theorem msuMask_eq {w n : Nat} (hw : 0 < w) (hn : 0 < n) : msuMask w n = 2 ^ topBits w n - 1 := by
  unfold msuMask
  rw [surplus_eq hw hn, allones_shr _ _ (Nat.sub_le _ _)]
  have := topBits_le hw hn
  congr 2; omega

/-! ### mapLast / MSU mask -/

theorem mapLast_length (f : Nat → Nat) : ∀ l : List Nat, (mapLast f l).length = l.length
  | [] => rfl
  | [_] => rfl
  | x :: y :: ys => by simp [mapLast, mapLast_length f (y :: ys)]

theorem mapLast_wf {w : Nat} (f : Nat → Nat) (hf : ∀ x, f x ≤ x) : ∀ {l : List Nat}, Wf w l → Wf w (mapLast f l)
  | [], h => h
  | [x], h => Wf.cons (Nat.lt_of_le_of_lt (hf x) h.head) (Wf.nil w)
  | x :: y :: ys, h => Wf.cons h.head (mapLast_wf f hf h.tail)

theorem toNat_mapLast_mask {w t : Nat} (ht : t ≤ w) : ∀ {l : List Nat}, Wf w l → l ≠ [] →
    toNat w (mapLast (fun x => x &&& (2 ^ t - 1)) l) = toNat w l % 2 ^ (w * (l.length - 1) + t)
  | [], _, h => absurd rfl h
  | [x], _, _ => by simp [mapLast, toNat, Nat.and_two_pow_sub_one_eq_mod]
  | x :: y :: ys, h, _ => by
    have ih := toNat_mapLast_mask ht h.tail (by simp)
    have hx := h.head
    show x + 2 ^ w * toNat w (mapLast _ (y :: ys)) = (x + 2 ^ w * toNat w (y :: ys)) % 2 ^ (w * ((x :: y :: ys).length - 1) + t)
    rw [ih]
    have e : w * ((x :: y :: ys).length - 1) + t = w + (w * ((y :: ys).length - 1) + t) := by
      simp only [List.length_cons, Nat.add_sub_cancel]; ring
    rw [e, Nat.pow_add 2 w _, mod_split _ _ _ _ (Nat.two_pow_pos w), Nat.mod_eq_of_lt hx, Nat.div_eq_of_lt hx, Nat.zero_add]

theorem maskMSU_length (w n : Nat) (l : List Nat) : (maskMSU w n l).length = l.length := mapLast_length _ l

theorem maskMSU_wf {w n : Nat} {l : List Nat} (h : Wf w l) : Wf w (maskMSU w n l) :=
  mapLast_wf _ (fun _ => Nat.and_le_left) h

/-- `_block[MSU] &= MSU_MASK` reduces the stored value modulo 2^n -/
theorem toNat_maskMSU {w n : Nat} (hw : 0 < w) (hn : 0 < n) {l : List Nat} (h : Wf w l) (hl : l.length = nrBlocks w n) :
    toNat w (maskMSU w n l) = toNat w l % 2 ^ n := by
  have hne : l ≠ [] := by intro e; rw [e] at hl; have := nrBlocks_pos w n; simp at hl; omega
  unfold maskMSU
  rw [msuMask_eq hw hn, toNat_mapLast_mask (topBits_le hw hn) h hne, hl, topBits_add hw hn]

theorem toNat_maskMSU_lt {w n : Nat} (hw : 0 < w) (hn : 0 < n) {l : List Nat} (h : Wf w l) (hl : l.length = nrBlocks w n) :
    toNat w (maskMSU w n l) < 2 ^ n := by
  rw [toNat_maskMSU hw hn h hl]; exact Nat.mod_lt _ (Nat.two_pow_pos n)

/-! ### flip -/

theorem flipLimbs_length (w : Nat) (l : List Nat) : (flipLimbs w l).length = l.length := by simp [flipLimbs]

theorem flipLimbs_wf (w : Nat) (l : List Nat) : Wf w (flipLimbs w l) := by
  intro x hx
  simp only [flipLimbs, List.mem_map] at hx
  obtain ⟨y, _, rfl⟩ := hx
  have := Nat.two_pow_pos w
  omega

theorem toNat_flipLimbs {w : Nat} : ∀ {l : List Nat}, Wf w l →
    toNat w (flipLimbs w l) + toNat w l + 1 = 2 ^ (w * l.length)
  | [], _ => by simp [flipLimbs, toNat]
  | x :: xs, h => by
    have ih := toNat_flipLimbs h.tail
    have hx := h.head
    simp only [flipLimbs, List.map_cons, toNat, List.length_cons, Nat.mul_add, Nat.mul_one] at ih ⊢
    rw [Nat.add_comm (w * xs.length) w, Nat.pow_add, ← ih]
    have : 2 ^ w - 1 - x + 2 ^ w * toNat w (List.map (fun x => 2 ^ w - 1 - x) xs) + (x + 2 ^ w * toNat w xs) + 1
        = (2 ^ w - 1 - x + x + 1) + 2 ^ w * (toNat w (List.map (fun x => 2 ^ w - 1 - x) xs) + toNat w xs) := by ring
    rw [this, show 2 ^ w - 1 - x + x + 1 = 2 ^ w by omega]
    ring

/-- a list of the right length with `w`-bit limbs (the value may have bits above `n`) -/
def Shape (w n : Nat) (l : List Nat) : Prop := l.length = nrBlocks w n ∧ Wf w l

theorem Canon.shape {w n : Nat} {l : List Nat} (h : Canon w n l) : Shape w n l := ⟨h.1, h.2.1⟩

theorem canon_of_mask {w n : Nat} (hw : 0 < w) (hn : 0 < n) {l : List Nat} (h : Shape w n l) : Canon w n (maskMSU w n l) :=
  ⟨by rw [maskMSU_length]; exact h.1, maskMSU_wf h.2, toNat_maskMSU_lt hw hn h.2 h.1⟩

theorem pow_dvd_storage {w n : Nat} (hw : 0 < w) (hn : 0 < n) : 2 ^ n ∣ 2 ^ (w * nrBlocks w n) :=
  Nat.pow_dvd_pow 2 (nrBlocks_hi hw hn)

theorem compl_mod {A F N M : Nat} (h : F + A + 1 = N * M) (hN : 0 < N) : F % N = N - 1 - A % N := by
  have hA := Nat.div_add_mod A N
  have hr := Nat.mod_lt A hN
  generalize A / N = q at hA
  generalize A % N = r at hA hr ⊢
  have hq : q + 1 ≤ M := by
    by_contra hc
    have : M ≤ q := by omega
    have : N * M ≤ N * q := Nat.mul_le_mul_left _ this
    omega
  obtain ⟨d, rfl⟩ : ∃ d, M = q + 1 + d := ⟨M - (q + 1), by omega⟩
  have e : N * (q + 1 + d) = N * q + N + N * d := by ring
  have hF : F = N * d + (N - 1 - r) := by omega
  rw [hF, Nat.mul_add_mod, Nat.mod_eq_of_lt (by omega)]

theorem shape_mask {w n : Nat} {l : List Nat} (h : Shape w n l) : Shape w n (maskMSU w n l) :=
  ⟨by rw [maskMSU_length]; exact h.1, maskMSU_wf h.2⟩

theorem mask_canon {w n : Nat} (hw : 0 < w) (hn : 0 < n) {l : List Nat} (h : Canon w n l) :
    Canon w n (maskMSU w n l) ∧ toNat w (maskMSU w n l) = toNat w l :=
  ⟨canon_of_mask hw hn h.shape, by rw [toNat_maskMSU hw hn h.2.1 h.1, Nat.mod_eq_of_lt h.2.2]⟩

theorem shape_ofNat (w n v : Nat) : Shape w n (ofNat w (nrBlocks w n) v) := ⟨ofNat_length _ _ _, ofNat_wf _ _ _⟩

theorem canon_ofNat {w n v : Nat} (hw : 0 < w) (hn : 0 < n) (hv : v < 2 ^ n) :
    Canon w n (ofNat w (nrBlocks w n) v) ∧ toNat w (ofNat w (nrBlocks w n) v) = v := by
  have hlt : v < 2 ^ (w * nrBlocks w n) := Nat.lt_of_lt_of_le hv (Nat.pow_le_pow_right (by omega) (nrBlocks_hi hw hn))
  have hv' : toNat w (ofNat w (nrBlocks w n) v) = v := by rw [toNat_ofNat, Nat.mod_eq_of_lt hlt]
  exact ⟨⟨ofNat_length _ _ _, ofNat_wf _ _ _, by rw [hv']; exact hv⟩, hv'⟩

end UVerif.Limbs
