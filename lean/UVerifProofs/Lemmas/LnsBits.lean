/-
  UVerifProofs.Lemmas.LnsBits — arithmetic content of the blockbinary primitives used by lns operator*= / operator/=:
  sign extension, two's complement, uradd/ursub, the signed comparison, setsign, and the Saturating tail.
  Everything is stated on `toSigned` (the two's-complement reading) so that the property theorems are pure `Int` facts.
  Discipline for `omega`: powers of two are abstracted to one variable p = 2^(nbits-2) before it is called.
-/
import UVerif.Spec.Lns
import UVerif.Model.Lns
import Mathlib.Tactic.Ring
import Mathlib.Tactic.SplitIfs

set_option linter.unusedSimpArgs false
set_option linter.unusedVariables false

namespace UVerif.LnsLemmas
open UVerif UVerif.Lns UVerif.Lns.Model

/-- the top bit of a (k+1)-bit number -/
theorem testBit_top {x k : Nat} (h : x < 2 ^ (k + 1)) : x.testBit k = decide (2 ^ k ≤ x) := by
  by_cases hx : 2 ^ k ≤ x
  · obtain ⟨y, rfl⟩ : ∃ y, x = 2 ^ k + y := ⟨x - 2 ^ k, by omega⟩
    have hy : y < 2 ^ k := by rw [Nat.pow_succ] at h; omega
    rw [Nat.testBit_two_pow_add_eq, Nat.testBit_lt_two_pow hy]; simp [hx]
  · have : x < 2 ^ k := by omega
    rw [Nat.testBit_lt_two_pow this]; simp [hx]

theorem two_pow_pred {n : Nat} (h : 1 ≤ n) : 2 ^ n = 2 * 2 ^ (n - 1) := by
  obtain ⟨k, rfl⟩ : ∃ k, n = k + 1 := ⟨n - 1, by omega⟩
  simp [Nat.pow_succ]; ring

/-- toSigned on an N-bit pattern, arithmetic form -/
theorem toSigned_eq {N x : Nat} (hN : 1 ≤ N) (hx : x < 2 ^ N) :
    toSigned N x = if x < 2 ^ (N - 1) then (x : Int) else (x : Int) - (2 ^ N : Nat) := by
  unfold toSigned
  have : N ≠ 0 := by omega
  simp [this, Nat.mod_eq_of_lt hx]

end UVerif.LnsLemmas

namespace UVerif.LnsLemmas
open UVerif UVerif.Lns UVerif.Lns.Model

theorem mod_lt2 {a m : Nat} (h : a < 2 * m) : a % m = if a < m then a else a - m := by
  split
  · exact Nat.mod_eq_of_lt ‹_›
  · rw [Nat.mod_eq_sub_mod (by omega)]; exact Nat.mod_eq_of_lt (by omega)

theorem sext_eq {frm t v : Nat} (hf : 1 ≤ frm) (hv : v < 2 ^ frm) :
    sext frm t v = if 2 ^ (frm - 1) ≤ v then v + (2 ^ t - 2 ^ frm) else v := by
  unfold sext
  obtain ⟨k, rfl⟩ : ∃ k, frm = k + 1 := ⟨frm - 1, by omega⟩
  simp only [Nat.add_sub_cancel]
  rw [testBit_top hv]; simp

theorem twosComp_eq {N v : Nat} (hv : v < 2 ^ N) :
    twosComp N v = if v = 0 then 0 else 2 ^ N - v := by
  unfold twosComp
  rw [Nat.mod_eq_of_lt hv]
  split
  · subst_vars; simp
  · exact Nat.mod_eq_of_lt (by omega)

/-- blockbinary `operator<` is the signed comparison -/
theorem bbLt_eq {N x y : Nat} (hN : 1 ≤ N) (hx : x < 2 ^ N) (hy : y < 2 ^ N) :
    bbLt N x y = decide (toSigned N x < toSigned N y) := by
  obtain ⟨k, rfl⟩ : ∃ k, N = k + 1 := ⟨N - 1, by omega⟩
  unfold bbLt
  simp only [Nat.add_sub_cancel]
  have hs_lt : (x + twosComp (k + 1) y) % 2 ^ (k + 1) < 2 ^ (k + 1) := Nat.mod_lt _ (Nat.two_pow_pos _)
  have htc := twosComp_eq hy
  have hs : (x + twosComp (k + 1) y) % 2 ^ (k + 1) =
      if x + twosComp (k + 1) y < 2 ^ (k + 1) then x + twosComp (k + 1) y
      else x + twosComp (k + 1) y - 2 ^ (k + 1) := by
    apply mod_lt2; rw [htc]; split <;> omega
  rw [testBit_top hx, testBit_top hy, testBit_top hs_lt, hs, htc, toSigned_eq hN hx, toSigned_eq hN hy]
  simp only [Nat.add_sub_cancel]
  have h2 : 2 ^ (k + 1) = 2 * 2 ^ k := by rw [Nat.pow_succ]; ring
  clear hs htc hs_lt
  rw [h2] at hx hy ⊢
  clear h2
  generalize 2 ^ k = p at *
  have hp : 0 < p := by omega
  rw [Bool.eq_iff_iff]
  simp only [Bool.and_eq_true, Bool.or_eq_true, Bool.not_eq_true', decide_eq_true_eq, decide_eq_false_iff_not,
    beq_iff_eq, Bool.if_true_left, Bool.if_false_left, Bool.if_true_right, Bool.if_false_right, Bool.ite_eq_true_distrib,
    if_false_left, if_true_left, if_false_right, if_true_right]
  split_ifs <;> omega

end UVerif.LnsLemmas

namespace UVerif.LnsLemmas
open UVerif UVerif.Lns UVerif.Lns.Model

/-- Bool goal → Prop, split the ifs, linear arithmetic -/
macro "bool_omega" : tactic => `(tactic| (
  simp only [Bool.eq_iff_iff, Bool.and_eq_true, Bool.or_eq_true, Bool.not_eq_true', decide_eq_true_eq,
    decide_eq_false_iff_not, beq_iff_eq, bne_iff_ne, ne_eq, Bool.if_true_left, Bool.if_false_left,
    Bool.if_true_right, Bool.if_false_right, Bool.not_eq_eq_eq_not, Bool.not_true, Bool.not_false] <;>
  split_ifs <;> omega))

theorem pow_n_eq {n : Nat} (hn : 2 ≤ n) :
    2 ^ (n - 1) = 2 * 2 ^ (n - 2) ∧ 2 ^ n = 4 * 2 ^ (n - 2) ∧ 2 ^ (n + 1) = 8 * 2 ^ (n - 2) := by
  obtain ⟨k, rfl⟩ : ∃ k, n = k + 2 := ⟨n - 2, by omega⟩
  simp only [Nat.add_sub_cancel, show k + 2 - 1 = k + 1 by omega, Nat.pow_succ]
  omega

theorem toSigned_range {N x : Nat} (hN : 1 ≤ N) (hx : x < 2 ^ N) :
    -((2 ^ (N - 1) : Nat) : Int) ≤ toSigned N x ∧ toSigned N x < ((2 ^ (N - 1) : Nat) : Int) := by
  rw [toSigned_eq hN hx]
  rw [two_pow_pred hN] at hx ⊢
  generalize 2 ^ (N - 1) = p at *
  push_cast
  split_ifs <;> omega

/-- F1: sign extension keeps the signed value -/
theorem sext_toSigned {f t v : Nat} (hf : 1 ≤ f) (hft : f ≤ t) (hv : v < 2 ^ f) :
    sext f t v < 2 ^ t ∧ toSigned t (sext f t v) = toSigned f v := by
  have hle : 2 ^ f ≤ 2 ^ t := Nat.pow_le_pow_right (by omega) hft
  have hs := sext_eq (t := t) hf hv
  have hlt : sext f t v < 2 ^ t := by rw [hs]; split_ifs <;> omega
  refine ⟨hlt, ?_⟩
  rw [toSigned_eq (by omega) hlt, toSigned_eq hf hv, hs]
  have hle' : 2 ^ (f - 1) ≤ 2 ^ (t - 1) := Nat.pow_le_pow_right (by omega) (by omega)
  rw [two_pow_pred hf, two_pow_pred (show 1 ≤ t by omega)] at *
  generalize 2 ^ (f - 1) = A at *
  generalize 2 ^ (t - 1) = T at *
  push_cast
  split_ifs <;> omega

/-- F2: modular addition is exact on signed values when the exact sum fits -/
theorem add_mod_toSigned {N X Y : Nat} (hN : 1 ≤ N) (hX : X < 2 ^ N) (hY : Y < 2 ^ N)
    (hlo : -((2 ^ (N - 1) : Nat) : Int) ≤ toSigned N X + toSigned N Y)
    (hhi : toSigned N X + toSigned N Y < ((2 ^ (N - 1) : Nat) : Int)) :
    toSigned N ((X + Y) % 2 ^ N) = toSigned N X + toSigned N Y := by
  have hlt : (X + Y) % 2 ^ N < 2 ^ N := Nat.mod_lt _ (Nat.two_pow_pos _)
  have e1 : (X + Y) % 2 ^ N = if X + Y < 2 ^ N then X + Y else X + Y - 2 ^ N := mod_lt2 (by omega)
  rw [toSigned_eq hN hlt, toSigned_eq hN hX, toSigned_eq hN hY] at *
  rw [e1]
  rw [two_pow_pred hN] at *
  generalize 2 ^ (N - 1) = p at *
  push_cast at *
  split_ifs at * <;> omega

/-- F3: dropping the top bit keeps the signed value when it fits in one bit less -/
theorem narrow_toSigned {N U : Nat} (hN : 1 ≤ N) (hU : U < 2 ^ (N + 1))
    (hlo : -((2 ^ (N - 1) : Nat) : Int) ≤ toSigned (N + 1) U)
    (hhi : toSigned (N + 1) U < ((2 ^ (N - 1) : Nat) : Int)) :
    toSigned N (U % 2 ^ N) = toSigned (N + 1) U := by
  have hlt : U % 2 ^ N < 2 ^ N := Nat.mod_lt _ (Nat.two_pow_pos _)
  have h2 : 2 ^ (N + 1) = 2 * 2 ^ N := by rw [Nat.pow_succ]; ring
  have e1 : U % 2 ^ N = if U < 2 ^ N then U else U - 2 ^ N := mod_lt2 (by omega)
  rw [toSigned_eq (by omega) hU] at *
  rw [toSigned_eq hN hlt, e1]
  simp only [Nat.add_sub_cancel] at *
  rw [h2, two_pow_pred hN] at *
  generalize 2 ^ (N - 1) = p at *
  push_cast at *
  split_ifs at * <;> omega

/-- F4: two's complement negates the signed value (except for the most negative pattern) -/
theorem twosComp_toSigned {N Y : Nat} (hN : 1 ≤ N) (hY : Y < 2 ^ N) (hne : Y ≠ 2 ^ (N - 1)) :
    twosComp N Y < 2 ^ N ∧ toSigned N (twosComp N Y) = -toSigned N Y := by
  have ht := twosComp_eq hY
  have hlt : twosComp N Y < 2 ^ N := by rw [ht]; split_ifs <;> omega
  refine ⟨hlt, ?_⟩
  rw [toSigned_eq hN hlt, toSigned_eq hN hY, ht]
  rw [two_pow_pred hN] at *
  generalize 2 ^ (N - 1) = p at *
  push_cast
  split_ifs <;> omega

theorem assign_widen {f t v : Nat} (hft : f < t) (hv : v < 2 ^ f) : assign f t v = sext f t v := by
  unfold assign; rw [if_pos hft, Nat.mod_eq_of_lt hv]

theorem assign_narrow {f t v : Nat} (hft : ¬ t > f) : assign f t v = v % 2 ^ t := by
  unfold assign; rw [if_neg hft]

/-- range of an exponent field's signed value, in units of p = 2^(nbits-2) -/
theorem exp_range {n x : Nat} (hn : 2 ≤ n) (hx : x < 2 ^ (n - 1)) :
    -((2 ^ (n - 2) : Nat) : Int) ≤ toSigned (n - 1) x ∧ toSigned (n - 1) x < ((2 ^ (n - 2) : Nat) : Int) := by
  have := toSigned_range (show 1 ≤ n - 1 by omega) hx
  rwa [show n - 1 - 1 = n - 2 by omega] at this

/-- exponent sum through `uradd` and the narrowing assignment: exact, no overflow. -/
theorem uradd_sum {n x y : Nat} (hn : 2 ≤ n) (hx : x < 2 ^ (n - 1)) (hy : y < 2 ^ (n - 1)) :
    assign (n + 1) n (uradd n (assign (n - 1) n x) (assign (n - 1) n y)) < 2 ^ n ∧
    toSigned n (assign (n + 1) n (uradd n (assign (n - 1) n x) (assign (n - 1) n y)))
      = toSigned (n - 1) x + toSigned (n - 1) y := by
  rw [assign_widen (by omega) hx, assign_widen (by omega) hy, assign_narrow (by omega)]
  obtain ⟨hX, hXs⟩ := sext_toSigned (t := n) (show 1 ≤ n - 1 by omega) (by omega) hx
  obtain ⟨hY, hYs⟩ := sext_toSigned (t := n) (show 1 ≤ n - 1 by omega) (by omega) hy
  obtain ⟨hX', hXs'⟩ := sext_toSigned (t := n + 1) (show 1 ≤ n by omega) (by omega) hX
  obtain ⟨hY', hYs'⟩ := sext_toSigned (t := n + 1) (show 1 ≤ n by omega) (by omega) hY
  obtain ⟨rx1, rx2⟩ := exp_range hn hx
  obtain ⟨ry1, ry2⟩ := exp_range hn hy
  obtain ⟨h1, h2, h3⟩ := pow_n_eq hn
  have hU : uradd n (sext (n - 1) n x) (sext (n - 1) n y) =
      (sext n (n + 1) (sext (n - 1) n x) + sext n (n + 1) (sext (n - 1) n y)) % 2 ^ (n + 1) := rfl
  have s1 : -((2 ^ (n + 1 - 1) : Nat) : Int) ≤
      toSigned (n + 1) (sext n (n + 1) (sext (n - 1) n x)) + toSigned (n + 1) (sext n (n + 1) (sext (n - 1) n y)) := by
    rw [hXs', hYs', hXs, hYs, Nat.add_sub_cancel, h2]; push_cast at *; omega
  have s2 : toSigned (n + 1) (sext n (n + 1) (sext (n - 1) n x)) + toSigned (n + 1) (sext n (n + 1) (sext (n - 1) n y))
      < ((2 ^ (n + 1 - 1) : Nat) : Int) := by
    rw [hXs', hYs', hXs, hYs, Nat.add_sub_cancel, h2]; push_cast at *; omega
  have hUs : toSigned (n + 1) (uradd n (sext (n - 1) n x) (sext (n - 1) n y)) =
      toSigned (n - 1) x + toSigned (n - 1) y := by
    rw [hU, add_mod_toSigned (by omega) hX' hY' s1 s2, hXs', hYs', hXs, hYs]
  have hUlt : uradd n (sext (n - 1) n x) (sext (n - 1) n y) < 2 ^ (n + 1) := by
    rw [hU]; exact Nat.mod_lt _ (Nat.two_pow_pos _)
  have s3 : -((2 ^ (n - 1) : Nat) : Int) ≤ toSigned (n + 1) (uradd n (sext (n - 1) n x) (sext (n - 1) n y)) := by
    rw [hUs, h1]; push_cast at *; omega
  have s4 : toSigned (n + 1) (uradd n (sext (n - 1) n x) (sext (n - 1) n y)) < ((2 ^ (n - 1) : Nat) : Int) := by
    rw [hUs, h1]; push_cast at *; omega
  refine ⟨Nat.mod_lt _ (Nat.two_pow_pos _), ?_⟩
  rw [narrow_toSigned (by omega) hUlt s3 s4, hUs]

theorem twosComp_toSigned' {N Y : Nat} (hN : 1 ≤ N) (hY : Y < 2 ^ N)
    (hne : toSigned N Y ≠ -((2 ^ (N - 1) : Nat) : Int)) :
    twosComp N Y < 2 ^ N ∧ toSigned N (twosComp N Y) = -toSigned N Y := by
  apply twosComp_toSigned hN hY
  intro h
  apply hne
  rw [toSigned_eq hN hY, h]
  rw [two_pow_pred hN]
  generalize 2 ^ (N - 1) = p
  push_cast
  split_ifs <;> omega

/-- exponent difference through `ursub` and the narrowing assignment: exact, no overflow. -/
theorem ursub_diff {n x y : Nat} (hn : 2 ≤ n) (hx : x < 2 ^ (n - 1)) (hy : y < 2 ^ (n - 1)) :
    assign (n + 1) n (ursub n (assign (n - 1) n x) (assign (n - 1) n y)) < 2 ^ n ∧
    toSigned n (assign (n + 1) n (ursub n (assign (n - 1) n x) (assign (n - 1) n y)))
      = toSigned (n - 1) x - toSigned (n - 1) y := by
  rw [assign_widen (by omega) hx, assign_widen (by omega) hy, assign_narrow (by omega)]
  obtain ⟨hX, hXs⟩ := sext_toSigned (t := n) (show 1 ≤ n - 1 by omega) (by omega) hx
  obtain ⟨hY, hYs⟩ := sext_toSigned (t := n) (show 1 ≤ n - 1 by omega) (by omega) hy
  obtain ⟨hX', hXs'⟩ := sext_toSigned (t := n + 1) (show 1 ≤ n by omega) (by omega) hX
  obtain ⟨hY', hYs'⟩ := sext_toSigned (t := n + 1) (show 1 ≤ n by omega) (by omega) hY
  obtain ⟨rx1, rx2⟩ := exp_range hn hx
  obtain ⟨ry1, ry2⟩ := exp_range hn hy
  obtain ⟨h1, h2, h3⟩ := pow_n_eq hn
  have hne : toSigned (n + 1) (sext n (n + 1) (sext (n - 1) n y)) ≠ -((2 ^ (n + 1 - 1) : Nat) : Int) := by
    rw [hYs', hYs, Nat.add_sub_cancel, h2]; push_cast at *; omega
  obtain ⟨hT, hTs⟩ := twosComp_toSigned' (by omega) hY' hne
  have hU : ursub n (sext (n - 1) n x) (sext (n - 1) n y) =
      (sext n (n + 1) (sext (n - 1) n x) + twosComp (n + 1) (sext n (n + 1) (sext (n - 1) n y))) % 2 ^ (n + 1) := rfl
  have s1 : -((2 ^ (n + 1 - 1) : Nat) : Int) ≤
      toSigned (n + 1) (sext n (n + 1) (sext (n - 1) n x)) +
        toSigned (n + 1) (twosComp (n + 1) (sext n (n + 1) (sext (n - 1) n y))) := by
    rw [hTs, hXs', hYs', hXs, hYs, Nat.add_sub_cancel, h2]; push_cast at *; omega
  have s2 : toSigned (n + 1) (sext n (n + 1) (sext (n - 1) n x)) +
        toSigned (n + 1) (twosComp (n + 1) (sext n (n + 1) (sext (n - 1) n y)))
      < ((2 ^ (n + 1 - 1) : Nat) : Int) := by
    rw [hTs, hXs', hYs', hXs, hYs, Nat.add_sub_cancel, h2]; push_cast at *; omega
  have hUs : toSigned (n + 1) (ursub n (sext (n - 1) n x) (sext (n - 1) n y)) =
      toSigned (n - 1) x - toSigned (n - 1) y := by
    rw [hU, add_mod_toSigned (by omega) hX' hT s1 s2, hTs, hXs', hYs', hXs, hYs]; ring
  have hUlt : ursub n (sext (n - 1) n x) (sext (n - 1) n y) < 2 ^ (n + 1) := by
    rw [hU]; exact Nat.mod_lt _ (Nat.two_pow_pos _)
  have s3 : -((2 ^ (n - 1) : Nat) : Int) ≤ toSigned (n + 1) (ursub n (sext (n - 1) n x) (sext (n - 1) n y)) := by
    rw [hUs, h1]; push_cast at *; omega
  have s4 : toSigned (n + 1) (ursub n (sext (n - 1) n x) (sext (n - 1) n y)) < ((2 ^ (n - 1) : Nat) : Int) := by
    rw [hUs, h1]; push_cast at *; omega
  refine ⟨Nat.mod_lt _ (Nat.two_pow_pos _), ?_⟩
  rw [narrow_toSigned (by omega) hUlt s3 s4, hUs]

/-- `decode` on a canonical pattern, arithmetic form -/
theorem decode_eq {n b : Nat} (hn : 2 ≤ n) (hb : b < 2 ^ n) :
    decode n b = if b % 2 ^ (n - 1) = 2 ^ (n - 2) then (if 2 ^ (n - 1) ≤ b then Val.nan else Val.zero)
      else Val.num (decide (2 ^ (n - 1) ≤ b)) (toSigned (n - 1) (b % 2 ^ (n - 1))) := by
  unfold decode specialPat
  simp only [Nat.mod_eq_of_lt hb]
  have : b.testBit (n - 1) = decide (2 ^ (n - 1) ≤ b) := by
    have hb' : b < 2 ^ (n - 1 + 1) := by rwa [show n - 1 + 1 = n by omega]
    exact testBit_top hb'
  rw [this]
  by_cases h : 2 ^ (n - 1) ≤ b <;> simp [h]

/-- `setsign(s)` on a canonical pattern -/
theorem setSign_eq {n X : Nat} (hn : 2 ≤ n) (hX : X < 2 ^ n) (s : Bool) :
    setSign n X s = X % 2 ^ (n - 1) + (if s then 2 ^ (n - 1) else 0) := by
  unfold setSign setBit
  have hX' : X < 2 ^ (n - 1 + 1) := by rwa [show n - 1 + 1 = n by omega]
  rw [testBit_top hX']
  have e1 : X % 2 ^ (n - 1) = if X < 2 ^ (n - 1) then X else X - 2 ^ (n - 1) := by
    apply mod_lt2; rw [two_pow_pred (show 1 ≤ n by omega)] at hX; omega
  rw [e1]
  cases s <;> simp <;> split_ifs <;> omega

theorem maxE_eq (n : Nat) : maxE n = ((2 ^ (n - 2) : Nat) : Int) - 1 := rfl
theorem minE_eq (n : Nat) : minE n = -((2 ^ (n - 2) : Nat) : Int) + 1 := rfl

/-- decoding `sign | exponent field` -/
theorem decode_num {n e : Nat} (hn : 2 ≤ n) (neg : Bool) (he : e < 2 ^ (n - 1)) (hne : e ≠ 2 ^ (n - 2)) :
    e + (if neg then 2 ^ (n - 1) else 0) < 2 ^ n ∧
    decode n (e + (if neg then 2 ^ (n - 1) else 0)) = Val.num neg (toSigned (n - 1) e) := by
  obtain ⟨h1, h2, h3⟩ := pow_n_eq hn
  have hlt : e + (if neg then 2 ^ (n - 1) else 0) < 2 ^ n := by cases neg <;> simp <;> omega
  refine ⟨hlt, ?_⟩
  rw [decode_eq hn hlt]
  have hm : (e + (if neg then 2 ^ (n - 1) else 0)) % 2 ^ (n - 1) = e := by
    cases neg
    · simpa using Nat.mod_eq_of_lt he
    · simp [Nat.mod_eq_of_lt he]
  rw [hm, if_neg hne]
  cases neg
  · simp; omega
  · simp

theorem decode_special {n : Nat} (hn : 2 ≤ n) (neg : Bool) :
    2 ^ (n - 2) + (if neg then 2 ^ (n - 1) else 0) < 2 ^ n ∧
    decode n (2 ^ (n - 2) + (if neg then 2 ^ (n - 1) else 0)) = if neg then Val.nan else Val.zero := by
  obtain ⟨h1, h2, h3⟩ := pow_n_eq hn
  have hpp : 0 < 2 ^ (n - 2) := Nat.two_pow_pos _
  have hlt : 2 ^ (n - 2) + (if neg then 2 ^ (n - 1) else 0) < 2 ^ n := by cases neg <;> simp <;> omega
  refine ⟨hlt, ?_⟩
  rw [decode_eq hn hlt]
  have hm : (2 ^ (n - 2) + (if neg then 2 ^ (n - 1) else 0)) % 2 ^ (n - 1) = 2 ^ (n - 2) := by
    cases neg
    · simpa using Nat.mod_eq_of_lt (show 2 ^ (n - 2) < 2 ^ (n - 1) by omega)
    · simp [Nat.mod_eq_of_lt (show 2 ^ (n - 2) < 2 ^ (n - 1) by omega)]
  rw [hm, if_pos rfl]
  cases neg
  · simp; omega
  · simp

/-- the three powers of two around nbits in terms of p = 2^(nbits-2), p a variable (for `omega`) -/
theorem pow_n_var {n : Nat} (hn : 2 ≤ n) :
    ∃ p : Nat, 0 < p ∧ 2 ^ (n - 2) = p ∧ 2 ^ (n - 1) = 2 * p ∧ 2 ^ n = 4 * p ∧ 2 ^ (n + 1) = 8 * p := by
  obtain ⟨h1, h2, h3⟩ := pow_n_eq hn
  exact ⟨2 ^ (n - 2), Nat.two_pow_pos _, rfl, h1, h2, h3⟩

/-- low field of an nbits signed pattern whose value fits the exponent range -/
theorem low_field {n sum : Nat} (hn : 2 ≤ n) (hsum : sum < 2 ^ n)
    (hlo : -((2 ^ (n - 2) : Nat) : Int) < toSigned n sum) (hhi : toSigned n sum < ((2 ^ (n - 2) : Nat) : Int)) :
    sum % 2 ^ (n - 1) < 2 ^ (n - 1) ∧ sum % 2 ^ (n - 1) ≠ 2 ^ (n - 2) ∧
    toSigned (n - 1) (sum % 2 ^ (n - 1)) = toSigned n sum := by
  have hm : sum % 2 ^ (n - 1) < 2 ^ (n - 1) := Nat.mod_lt _ (Nat.two_pow_pos _)
  have m3 : sum % 2 ^ (n - 1) = if sum < 2 ^ (n - 1) then sum else sum - 2 ^ (n - 1) := by
    apply mod_lt2; rw [← two_pow_pred (by omega)]; exact hsum
  rw [toSigned_eq (by omega) hm, show n - 1 - 1 = n - 2 by omega]
  rw [toSigned_eq (by omega) hsum] at hlo hhi ⊢
  rw [m3]
  obtain ⟨p, hp, e2, e1, e0, _⟩ := pow_n_var hn
  rw [e2] at hlo hhi ⊢
  rw [e1] at hlo hhi ⊢
  rw [e0] at hlo hhi hsum ⊢
  push_cast at hlo hhi ⊢
  refine ⟨?_, ?_, ?_⟩ <;> split_ifs at hlo hhi ⊢ <;> omega

/-- the Saturating tail of `*=` / `/=` implements `satResult` -/
theorem satTail_decode {n sum : Nat} (hn : 2 ≤ n) (hsum : sum < 2 ^ n) (negative : Bool)
    (hlo : -(2 * ((2 ^ (n - 2) : Nat) : Int)) < toSigned n sum)
    (hhi : toSigned n sum < 2 * ((2 ^ (n - 2) : Nat) : Int) - 1) :
    satTail n sum negative < 2 ^ n ∧
    decode n (satTail n sum negative) = satResult n negative (toSigned n sum) := by
  obtain ⟨p, hp, e2, e1, e0, e3⟩ := pow_n_var hn
  rw [e2] at hlo hhi
  have hmaxexp : maxexp n = p - 1 := by unfold maxexp; rw [e1, e2]; omega
  have hminexp : minexp n = p := by unfold minexp; exact e2
  have hmaxpos : assign (n - 1) n (maxexp n) = p - 1 := by
    have hlt : maxexp n < 2 ^ (n - 1) := by rw [hmaxexp, e1]; omega
    rw [assign_widen (by omega) hlt, sext_eq (by omega) hlt, show n - 1 - 1 = n - 2 by omega, e2, hmaxexp,
      if_neg (by omega)]
  have hmaxneg : assign (n - 1) n (minexp n) = 3 * p := by
    have hlt : minexp n < 2 ^ (n - 1) := by rw [hminexp, e1]; omega
    rw [assign_widen (by omega) hlt, sext_eq (by omega) hlt, show n - 1 - 1 = n - 2 by omega, e2, hminexp,
      if_pos (le_refl _), e0, e1]; omega
  have hsum' : sum < 4 * p := by rwa [e0] at hsum
  have hmaxpos_lt : p - 1 < 2 ^ n := by rw [e0]; omega
  have hmaxneg_lt : 3 * p < 2 ^ n := by rw [e0]; omega
  have hS : toSigned n sum = if sum < 2 * p then (sum : Int) else (sum : Int) - ((4 * p : Nat) : Int) := by
    rw [toSigned_eq (by omega) hsum, e1, e0]
  have tmaxpos : toSigned n (p - 1) = (p : Int) - 1 := by
    rw [toSigned_eq (by omega) hmaxpos_lt, e1, if_pos (by omega)]; omega
  have tmaxneg : toSigned n (3 * p) = -(p : Int) := by
    rw [toSigned_eq (by omega) hmaxneg_lt, e1, if_neg (by omega), e0]; push_cast; omega
  have hsumS : sum = 3 * p ↔ toSigned n sum = -(p : Int) := by
    rw [hS]; push_cast; split_ifs <;> omega
  unfold satTail
  rw [hmaxpos, hmaxneg]
  unfold bbGe bbLe
  dsimp only
  rw [bbLt_eq (by omega) hsum hmaxpos_lt, bbLt_eq (by omega) hsum hmaxneg_lt, tmaxpos, tmaxneg]
  unfold satResult
  rw [maxE_eq, minE_eq, e2]
  generalize hSd : toSigned n sum = S at *
  by_cases hA : S < (p : Int) - 1
  · by_cases hB : S < -(p : Int) ∨ sum = 3 * p
    · -- flush to zero
      have c1 : (decide (S < -(p : Int)) || sum == 3 * p) = true := by simpa using hB
      simp only [hA, decide_true, Bool.not_true, Bool.false_eq_true, if_false, c1, if_true]
      obtain ⟨d1, d2⟩ := decode_special hn false
      have hS' : S ≤ -(p : Int) := by
        rcases hB with h | h
        · omega
        · rw [hsumS] at h; omega
      have ss2 : setSign n (3 * p) false = 2 ^ (n - 2) + (if false then 2 ^ (n - 1) else 0) := by
        rw [setSign_eq hn hmaxneg_lt, e1, e2]
        have : 3 * p % (2 * p) = p := by
          rw [show 3 * p = p + 2 * p by omega, Nat.add_mod_right]; exact Nat.mod_eq_of_lt (by omega)
        rw [this]
      rw [ss2]
      refine ⟨d1, ?_⟩
      rw [d2]
      simp only [Bool.false_eq_true, if_false]
      rw [if_neg (by omega), if_pos (by omega)]
    · -- in range
      have c1 : (decide (S < -(p : Int)) || sum == 3 * p) = false := by simpa using hB
      simp only [hA, decide_true, Bool.not_true, Bool.false_eq_true, if_false, c1]
      have hB1 : ¬ S < -(p : Int) := fun h => hB (Or.inl h)
      have hB2 : S ≠ -(p : Int) := fun h => hB (Or.inr (hsumS.mpr h))
      obtain ⟨l1, l2, l3⟩ := low_field hn hsum (by rw [hSd, e2]; omega) (by rw [hSd, e2]; omega)
      obtain ⟨d1, d2⟩ := decode_num hn negative l1 l2
      rw [setSign_eq hn hsum negative]
      refine ⟨d1, ?_⟩
      rw [d2, l3, hSd, if_neg (by omega), if_neg (by omega)]
  · -- clamp to maxpos
    have c0 : (!decide (S < (p : Int) - 1)) = true := by simpa using hA
    simp only [c0, if_true]
    have q1 : p - 1 < 2 ^ (n - 1) := by rw [e1]; omega
    have q2 : p - 1 ≠ 2 ^ (n - 2) := by rw [e2]; omega
    obtain ⟨d1, d2⟩ := decode_num hn negative q1 q2
    have tm1 : toSigned (n - 1) (p - 1) = (p : Int) - 1 := by
      rw [toSigned_eq (by omega) q1, show n - 1 - 1 = n - 2 by omega, e2, if_pos (by omega)]; omega
    rw [setSign_eq hn hmaxpos_lt negative, Nat.mod_eq_of_lt q1]
    refine ⟨d1, ?_⟩
    rw [d2, tm1, if_pos (by omega)]

end UVerif.LnsLemmas
