/-
  UVerifProofs.Lemmas.LnsBlocks — the hand-unrolled `iszero()` / `isnan()` / `sign()` of lns (case split on nrBlocks and
  SPECIAL_BITS_TOGETHER) recognise exactly the patterns 0.10…0 / 1.10…0 / bit nbits-1, for EVERY block width w ≥ 1
  and every nbits ≥ 2.  (This is the BlockType-independence of the special encodings.)
-/
import UVerif.Spec.Lns
import UVerif.Model.Lns
import UVerifProofs.Lemmas.LnsBits
import Mathlib.Tactic.Ring
import Mathlib.Tactic.SplitIfs

set_option linter.unusedSimpArgs false
set_option linter.unusedVariables false

namespace UVerif.LnsLemmas
open UVerif UVerif.Lns UVerif.Lns.Model

theorem MSU_eq (n w : Nat) : MSU n w = (n - 1) / w := by unfold MSU nrBlocks; exact Nat.add_sub_cancel_left _ _

/-- `sign()` reads bit nbits-1 whatever the block width -/
theorem sign_eq {n w b : Nat} (hw : 1 ≤ w) : sign n w b = b.testBit (n - 1) := by
  unfold sign blk
  rw [MSU_eq, Nat.testBit_mod_two_pow, Nat.testBit_shiftRight]
  have h1 : (n - 1) % w < w := Nat.mod_lt _ (by omega)
  have h2 : (n - 1) / w * w + (n - 1) % w = n - 1 := Nat.div_add_mod' _ _
  simp [h1, h2]

theorem blk_eq (w b k : Nat) : blk w b k = b / (2 ^ w) ^ k % 2 ^ w := by
  unfold blk; rw [Nat.shiftRight_eq_div_pow, Nat.mul_comm, Nat.pow_mul]

theorem lowZero_iff (w b k : Nat) : lowBlocksZero w b k = true ↔ b % (2 ^ w) ^ k = 0 := by
  induction k with
  | zero => simp [lowBlocksZero, Nat.mod_one]
  | succ k ih =>
    unfold lowBlocksZero
    rw [Bool.and_eq_true, ih, beq_iff_eq, blk_eq, Nat.mod_pow_succ]
    have hpos : 0 < (2 ^ w) ^ k := Nat.pow_pos (Nat.two_pow_pos w)
    constructor
    · rintro ⟨h1, h2⟩; rw [h1, h2]; simp
    · intro h
      have h1 : b % (2 ^ w) ^ k = 0 := (Nat.add_eq_zero_iff.mp h).1
      have h2 : (2 ^ w) ^ k * (b / (2 ^ w) ^ k % 2 ^ w) = 0 := (Nat.add_eq_zero_iff.mp h).2
      refine ⟨h1, ?_⟩
      rcases Nat.mul_eq_zero.mp h2 with h | h
      · omega
      · exact h

/-- a number below B^q · T whose low q blocks vanish is B^q times its top part -/
theorem top_part {B q b c : Nat} (hB : 0 < B) :
    (b % B ^ q = 0 ∧ b / B ^ q = c) ↔ b = B ^ q * c := by
  have hpos : 0 < B ^ q := Nat.pow_pos hB
  constructor
  · rintro ⟨h1, h2⟩
    have := Nat.mod_add_div b (B ^ q)
    rw [h1, h2] at this; omega
  · intro h
    subst h
    exact ⟨Nat.mul_mod_right _ _, Nat.mul_div_cancel_left _ hpos⟩

/-- division data of nbits-1 by the block width -/
theorem qr_facts {n w : Nat} (hn : 2 ≤ n) (hw : 1 ≤ w) :
    ∃ q r, q * w + r = n - 1 ∧ r < w ∧ (n - 1) / w = q ∧ (n - 1) % w = r ∧
      nrBlocks n w = 1 + q ∧ MSU n w = q ∧ SPECIAL_BITS_TOGETHER n w = decide (1 ≤ r) := by
  refine ⟨(n - 1) / w, (n - 1) % w, Nat.div_add_mod' _ _, Nat.mod_lt _ (by omega), rfl, rfl, rfl, MSU_eq n w, ?_⟩
  unfold SPECIAL_BITS_TOGETHER nrBlocks
  rw [Nat.add_sub_cancel_left]
  have h := Nat.div_add_mod' (n - 1) w
  generalize (n - 1) / w * w = m at *
  generalize (n - 1) % w = r at *
  rw [decide_eq_decide]; omega

/-- when the two special bits share the top block (r ≥ 1): position of bit nbits-2 -/
theorem msb_together {n w q r : Nat} (hn : 2 ≤ n) (hw : 1 ≤ w) (hq : q * w + r = n - 1) (hrw : r < w) (hr1 : 1 ≤ r) :
    MSB_UNIT n w = q ∧ (n - 2) % w = r - 1 := by
  unfold MSB_UNIT
  rw [Nat.add_sub_cancel_left]
  have e : n - 2 = w * q + (r - 1) := by rw [Nat.mul_comm]; omega
  rw [e, Nat.mul_add_div (by omega), Nat.mul_add_mod, Nat.div_eq_of_lt (by omega), Nat.mod_eq_of_lt (by omega)]
  simp

/-- when bit nbits-1 sits alone in the top block (r = 0): position of bit nbits-2 -/
theorem msb_apart {n w q : Nat} (hn : 2 ≤ n) (hw : 1 ≤ w) (hq : q * w + 0 = n - 1) :
    1 ≤ q ∧ MSB_UNIT n w = q - 1 ∧ (n - 2) % w = w - 1 := by
  have hq1 : 1 ≤ q := by
    rcases Nat.eq_zero_or_pos q with h | h
    · subst h; simp at hq; omega
    · exact h
  refine ⟨hq1, ?_⟩
  unfold MSB_UNIT
  rw [Nat.add_sub_cancel_left]
  obtain ⟨k, rfl⟩ : ∃ k, q = k + 1 := ⟨q - 1, by omega⟩
  have e : n - 2 = w * k + (w - 1) := by
    have : (k + 1) * w = w * k + w := by ring
    omega
  rw [e, Nat.mul_add_div (by omega), Nat.mul_add_mod, Nat.div_eq_of_lt (by omega), Nat.mod_eq_of_lt (by omega)]
  simp

theorem pow_qw (w q : Nat) : (2 ^ w) ^ q = 2 ^ (q * w) := by rw [Nat.mul_comm, Nat.pow_mul]

/-- together case: "low q blocks are zero and block q equals c"  ⇔  b = 2^(q·w) · c -/
theorem together_core {n w q r b c : Nat} (hn : 2 ≤ n) (hw : 1 ≤ w) (hq : q * w + r = n - 1) (hrw : r < w)
    (hb : b < 2 ^ n) (hc : c < 2 ^ (r + 1)) :
    (lowBlocksZero w b q && blk w b q == c) = decide (b = 2 ^ (q * w) * c) := by
  have hB : 0 < 2 ^ w := Nat.two_pow_pos w
  have hBq : 0 < (2 ^ w) ^ q := Nat.pow_pos hB
  have hn' : n = q * w + (r + 1) := by omega
  have hH : b / (2 ^ w) ^ q < 2 ^ (r + 1) := by
    rw [Nat.div_lt_iff_lt_mul hBq, pow_qw, ← Nat.pow_add, Nat.add_comm, ← hn']; exact hb
  have hle : 2 ^ (r + 1) ≤ 2 ^ w := Nat.pow_le_pow_right (by omega) (by omega)
  have hblk : blk w b q = b / (2 ^ w) ^ q := by rw [blk_eq]; exact Nat.mod_eq_of_lt (by omega)
  rw [Bool.eq_iff_iff, Bool.and_eq_true, lowZero_iff, beq_iff_eq, hblk, decide_eq_true_eq, ← pow_qw]
  exact top_part hB

/-- the zero encoding is recognised by every block layout in which the special bits share the top block -/
theorem isZero_together {n w q r b : Nat} (hn : 2 ≤ n) (hw : 1 ≤ w) (hq : q * w + r = n - 1) (hrw : r < w)
    (hr1 : 1 ≤ r) (hb : b < 2 ^ n) :
    (lowBlocksZero w b q && blk w b q == 2 ^ (r - 1)) = decide (b = 2 ^ (n - 2)) := by
  have hc : 2 ^ (r - 1) < 2 ^ (r + 1) := Nat.pow_lt_pow_right (by omega) (by omega)
  rw [together_core hn hw hq hrw hb hc, ← Nat.pow_add, show q * w + (r - 1) = n - 2 by omega]


/-- apart case (nbits-1 = (k+1)·w): "low k blocks zero and block k = 2^(w-1)" ⇔ exponent field = 10…0 -/
theorem apart_core {n w k b : Nat} (hn : 2 ≤ n) (hw : 1 ≤ w) (hq : (k + 1) * w = n - 1) :
    (lowBlocksZero w b k && blk w b k == 2 ^ (w - 1)) = decide (b % 2 ^ (n - 1) = 2 ^ (n - 2)) := by
  have hB : 0 < 2 ^ w := Nat.two_pow_pos w
  have hT : 2 ^ (n - 1) = (2 ^ w) ^ k * 2 ^ w := by
    rw [← hq, pow_qw, ← Nat.pow_add]; congr 1; ring
  have h2 : 2 ^ (n - 2) = (2 ^ w) ^ k * 2 ^ (w - 1) := by
    rw [pow_qw, ← Nat.pow_add]; congr 1
    have : (k + 1) * w = k * w + w := by ring
    omega
  have hblk : blk w b k = b % 2 ^ (n - 1) / (2 ^ w) ^ k := by
    rw [blk_eq, hT, Nat.mod_mul_right_div_self]
  have hlow : b % (2 ^ w) ^ k = b % 2 ^ (n - 1) % (2 ^ w) ^ k := by
    rw [hT, Nat.mod_mod_of_dvd _ (Dvd.intro _ rfl)]
  rw [Bool.eq_iff_iff, Bool.and_eq_true, lowZero_iff, beq_iff_eq, hblk, hlow, decide_eq_true_eq, h2]
  exact top_part hB

theorem or_pow_pred {r : Nat} (hr : 1 ≤ r) : 2 ^ r ||| 2 ^ (r - 1) = 2 ^ r + 2 ^ (r - 1) := by
  have h := Nat.two_pow_add_eq_or_of_lt (i := r) (b := 2 ^ (r - 1)) (Nat.pow_lt_pow_right (by omega) (by omega)) 1
  simpa using h.symm

/-- `iszero()` recognises exactly the pattern 0.10…0, for every block width -/
theorem isZero_eq {n w b : Nat} (hn : 2 ≤ n) (hw : 1 ≤ w) (hb : b < 2 ^ n) :
    isZero n w b = decide (b = 2 ^ (n - 2)) := by
  obtain ⟨q, r, hq, hrw, _, hr, hnb, hmsu, htog⟩ := qr_facts hn hw
  unfold isZero
  rw [hnb, htog]
  by_cases hr1 : 1 ≤ r
  · -- special bits together
    obtain ⟨hmu, hmm⟩ := msb_together hn hw hq hrw hr1
    have hZ : MSU_ZERO n w = 2 ^ (r - 1) := by unfold MSU_ZERO MSB_BIT_MASK; rw [hmm]
    simp only [hr1, decide_true, if_true, hmu, hZ]
    rw [← isZero_together hn hw hq hrw hr1 hb]
    rcases q with _ | _ | q
    · simp [lowBlocksZero]
    · simp [lowBlocksZero]
    · have : ¬ (1 + (q + 1 + 1) = 1) := by omega
      have : ¬ (1 + (q + 1 + 1) = 2) := by omega
      simp [*]
  · -- bit nbits-1 alone in the top block
    have hr0 : r = 0 := by omega
    subst hr0
    obtain ⟨hq1, hmu, hmm⟩ := msb_apart hn hw hq
    obtain ⟨k, rfl⟩ : ∃ k, q = k + 1 := ⟨q - 1, by omega⟩
    have hM : MSB_BIT_MASK n w = 2 ^ (w - 1) := by unfold MSB_BIT_MASK; rw [hmm]
    have hs : sign n w b = decide (2 ^ (n - 1) ≤ b) := by
      rw [sign_eq hw]; exact testBit_top (by rwa [show n - 1 + 1 = n by omega])
    have hcore := apart_core (b := b) hn hw (show (k + 1) * w = n - 1 by omega)
    have h1 : 2 ^ n = 2 * 2 ^ (n - 1) := by
      rw [show n = (n - 1) + 1 by omega, Nat.pow_succ]; simp; ring
    have h2 : 2 ^ (n - 2) < 2 ^ (n - 1) := Nat.pow_lt_pow_right (by omega) (by omega)
    have hmod : b % 2 ^ (n - 1) = if b < 2 ^ (n - 1) then b else b - 2 ^ (n - 1) := by
      split
      · exact Nat.mod_eq_of_lt ‹_›
      · rw [Nat.mod_eq_sub_mod (by omega)]; exact Nat.mod_eq_of_lt (by omega)
    have key : (!sign n w b && (lowBlocksZero w b k && blk w b k == 2 ^ (w - 1))) = decide (b = 2 ^ (n - 2)) := by
      rw [hcore, hs, hmod, Bool.eq_iff_iff]
      simp only [Bool.and_eq_true, Bool.not_eq_true', decide_eq_true_eq, decide_eq_false_iff_not]
      split_ifs <;> omega
    rw [← key]
    simp only [show ¬ (1 ≤ 0) by omega, decide_false, Bool.false_eq_true, if_false, hmu, hM, BLOCK_MSB_MASK]
    rcases k with _ | k
    · simp [lowBlocksZero]
    · have : ¬ (1 + (k + 1 + 1) = 1) := by omega
      have : ¬ (1 + (k + 1 + 1) = 2) := by omega
      have e : 1 + (k + 1 + 1) - 2 = k + 1 := by omega
      simp [*, Bool.and_comm, Bool.and_assoc, Bool.and_left_comm]

/-- `isnan()` recognises exactly the pattern 1.10…0, for every block width -/
theorem isNaN_eq {n w b : Nat} (hn : 2 ≤ n) (hw : 1 ≤ w) (hb : b < 2 ^ n) :
    isNaN n w b = decide (b = 2 ^ (n - 1) + 2 ^ (n - 2)) := by
  obtain ⟨q, r, hq, hrw, _, hr, hnb, hmsu, htog⟩ := qr_facts hn hw
  unfold isNaN
  rw [hnb, htog]
  by_cases hr1 : 1 ≤ r
  · obtain ⟨hmu, hmm⟩ := msb_together hn hw hq hrw hr1
    have hS : SIGN_BIT_MASK n w = 2 ^ r := by unfold SIGN_BIT_MASK; rw [hr]
    have hZ : MSU_ZERO n w = 2 ^ (r - 1) := by unfold MSU_ZERO MSB_BIT_MASK; rw [hmm]
    have hN : MSU_NAN n w = 2 ^ r + 2 ^ (r - 1) := by unfold MSU_NAN; rw [hS, hZ, or_pow_pred hr1]
    have hc : 2 ^ r + 2 ^ (r - 1) < 2 ^ (r + 1) := by
      have : 2 ^ (r - 1) < 2 ^ r := Nat.pow_lt_pow_right (by omega) (by omega)
      rw [Nat.pow_succ]; omega
    have hval : 2 ^ (q * w) * (2 ^ r + 2 ^ (r - 1)) = 2 ^ (n - 1) + 2 ^ (n - 2) := by
      rw [Nat.mul_add, ← Nat.pow_add, ← Nat.pow_add, hq, show q * w + (r - 1) = n - 2 by omega]
    simp only [hr1, decide_true, if_true, hmu, hN]
    rw [← hval, ← together_core hn hw hq hrw hb hc]
    rcases q with _ | _ | q
    · simp [lowBlocksZero]
    · simp [lowBlocksZero]
    · have : ¬ (1 + (q + 1 + 1) = 1) := by omega
      have : ¬ (1 + (q + 1 + 1) = 2) := by omega
      simp [*]
  · have hr0 : r = 0 := by omega
    subst hr0
    obtain ⟨hq1, hmu, hmm⟩ := msb_apart hn hw hq
    obtain ⟨k, rfl⟩ : ∃ k, q = k + 1 := ⟨q - 1, by omega⟩
    have hs : sign n w b = decide (2 ^ (n - 1) ≤ b) := by
      rw [sign_eq hw]; exact testBit_top (by rwa [show n - 1 + 1 = n by omega])
    have hcore := apart_core (b := b) hn hw (show (k + 1) * w = n - 1 by omega)
    have h1 : 2 ^ n = 2 * 2 ^ (n - 1) := by
      rw [show n = (n - 1) + 1 by omega, Nat.pow_succ]; simp; ring
    have h2 : 2 ^ (n - 2) < 2 ^ (n - 1) := Nat.pow_lt_pow_right (by omega) (by omega)
    have hmod : b % 2 ^ (n - 1) = if b < 2 ^ (n - 1) then b else b - 2 ^ (n - 1) := by
      split
      · exact Nat.mod_eq_of_lt ‹_›
      · rw [Nat.mod_eq_sub_mod (by omega)]; exact Nat.mod_eq_of_lt (by omega)
    have hp2 : 0 < 2 ^ (n - 2) := Nat.two_pow_pos _
    have key : (sign n w b && (lowBlocksZero w b k && blk w b k == 2 ^ (w - 1))) =
        decide (b = 2 ^ (n - 1) + 2 ^ (n - 2)) := by
      rw [hcore, hs, hmod, Bool.eq_iff_iff]
      simp only [Bool.and_eq_true, Bool.not_eq_true', decide_eq_true_eq, decide_eq_false_iff_not]
      split_ifs <;> omega
    rw [← key]
    simp only [show ¬ (1 ≤ 0) by omega, decide_false, Bool.false_eq_true, if_false, hmsu, BLOCK_MSB_MASK]
    rcases k with _ | k
    · simp [lowBlocksZero]
    · have : ¬ (1 + (k + 1 + 1) = 1) := by omega
      have : ¬ (1 + (k + 1 + 1) = 2) := by omega
      have e : 1 + (k + 1 + 1) - 2 = k + 1 := by omega
      simp [*, Bool.and_comm, Bool.and_assoc, Bool.and_left_comm]

end UVerif.LnsLemmas
