/-
  UVerifProofs.Lemmas.LnsExpSound — SOUNDNESS of the interval exponential of `UVerif.Spec.Lns`: for u > 0 with u^(2^r) = 2
  (u = 2^(1/2^r)) in any linearly ordered field, the checked square roots enclose the roots of two (`rootsOfTwo_ok`),
  `pow2Frac r k` encloses u^k and `pow2Neg r d` encloses u^(-d) = 2^(-d/2^r).
-/
import UVerif.Spec.Lns
import UVerifProofs.Lemmas.LnsLogSound

set_option linter.unusedSimpArgs false
set_option linter.unusedVariables false
set_option linter.unnecessarySeqFocus false
set_option linter.unusedSectionVars false

namespace UVerif.LnsSound
open UVerif UVerif.Lns

variable {α : Type*} [Field α] [LinearOrder α] [IsStrictOrderedRing α]

/-- x lies in the interval (fixed point with P fraction bits) -/
def contains (iv : Ival) (x : α) : Prop :=
  (iv.lo : α) / (2 : α) ^ P ≤ x ∧ x ≤ (iv.hi : α) / (2 : α) ^ P

/-- interval product is sound on non-negative factors -/
theorem mul_contains (X Y : Ival) (x y : α) (hx : contains X x) (hy : contains Y y) (hx0 : 0 ≤ x) (hy0 : 0 ≤ y) :
    contains (X.mul Y) (x * y) := by
  obtain ⟨x1, x2⟩ := hx
  obtain ⟨y1, y2⟩ := hy
  have hPp : (0 : α) < (2 : α) ^ P := two_pow_pos' P
  unfold Ival.mul contains
  simp only
  constructor
  · have h := shr_le (α := α) (X.lo * Y.lo) P
    have hxl : (0 : α) ≤ (X.lo : α) / (2 : α) ^ P := by positivity
    have hyl : (0 : α) ≤ (Y.lo : α) / (2 : α) ^ P := by positivity
    calc (((X.lo * Y.lo) >>> P : Nat) : α) / (2 : α) ^ P
        ≤ ((X.lo : α) / (2 : α) ^ P) * ((Y.lo : α) / (2 : α) ^ P) := by
          rw [div_mul_div_comm, div_le_div_iff₀ hPp (by positivity)]
          push_cast at h; nlinarith
      _ ≤ x * y := mul_le_mul x1 y1 hyl hx0
  · have h := lt_shr_succ (α := α) (X.hi * Y.hi) P
    have hxh : (0 : α) ≤ (X.hi : α) / (2 : α) ^ P := le_trans hx0 x2
    calc x * y ≤ ((X.hi : α) / (2 : α) ^ P) * ((Y.hi : α) / (2 : α) ^ P) := mul_le_mul x2 y2 hy0 hxh
      _ ≤ ((((X.hi * Y.hi) >>> P) + 1 : Nat) : α) / (2 : α) ^ P := by
          rw [div_mul_div_comm, div_le_div_iff₀ (by positivity) hPp]
          push_cast at h ⊢; nlinarith

/-- the checked square root encloses the positive root -/
theorem sqrt_contains (iv s : Ival) (h : iv.sqrt = some s) (z : α) (hz : 0 ≤ z) (hc : contains iv (z ^ 2)) :
    contains s z := by
  unfold Ival.sqrt at h
  simp only at h
  split at h
  · rename_i hchk
    injection h with h; subst h
    obtain ⟨c1, c2⟩ := hchk
    obtain ⟨z1, z2⟩ := hc
    have hPp : (0 : α) < (2 : α) ^ P := two_pow_pos' P
    unfold contains
    simp only
    constructor
    · -- (l/2^P)^2 ≤ lo/2^P ≤ z^2
      have hl : (((isqrt (iv.lo * 2 ^ P)) : Nat) : α) * ((isqrt (iv.lo * 2 ^ P) : Nat) : α) ≤ (iv.lo : α) * (2 : α) ^ P := by
        have : ((isqrt (iv.lo * 2 ^ P) * isqrt (iv.lo * 2 ^ P) : Nat) : α) ≤ ((iv.lo * 2 ^ P : Nat) : α) := Nat.cast_le.mpr c1
        push_cast at this; exact this
      have hsq : (((isqrt (iv.lo * 2 ^ P) : Nat) : α) / (2 : α) ^ P) ^ 2 ≤ z ^ 2 := by
        refine le_trans ?_ z1
        rw [div_pow, div_le_div_iff₀ (by positivity) hPp]
        nlinarith
      exact (pow_le_pow_iff_left₀ (by positivity) hz (by norm_num)).mp hsq
    · have hh : (iv.hi : α) * (2 : α) ^ P ≤ (((isqrt (iv.hi * 2 ^ P) + 1 : Nat)) : α) * ((isqrt (iv.hi * 2 ^ P) + 1 : Nat) : α) := by
        have : ((iv.hi * 2 ^ P : Nat) : α) ≤ (((isqrt (iv.hi * 2 ^ P) + 1) * (isqrt (iv.hi * 2 ^ P) + 1) : Nat) : α) :=
          Nat.cast_le.mpr c2
        push_cast at this ⊢; exact this
      have hsq : z ^ 2 ≤ (((isqrt (iv.hi * 2 ^ P) + 1 : Nat) : α) / (2 : α) ^ P) ^ 2 := by
        refine le_trans z2 ?_
        rw [div_pow, div_le_div_iff₀ hPp (by positivity)]
        nlinarith
      exact (pow_le_pow_iff_left₀ hz (by positivity) (by norm_num)).mp hsq
  · cases h

theorem rootsFor_eq (r : Nat) : rootsFor r = rootsOfTwo r ⟨2 * one, 2 * one⟩ [] := by
  unfold rootsFor
  split
  · rename_i h
    simp [rootsTable]
  · rfl

/-- the list holds enclosures of u^(2^(m-1)), u^(2^(m-2)), …, u^(2^0) -/
def RootsOK (u : α) : Nat → List Ival → Prop
  | _, [] => True
  | 0, _ :: _ => False
  | m + 1, t :: rest => contains t (u ^ (2 ^ m)) ∧ RootsOK u m rest

theorem rootsOfTwoWith_ok (sq : Ival → Option Ival)
    (hsq : ∀ (iv s : Ival), sq iv = some s → ∀ z : α, 0 ≤ z → contains iv (z ^ 2) → contains s z)
    (u : α) (hu : 0 < u) : ∀ (k : Nat) (cur : Ival) (acc L : List Ival),
    rootsOfTwoWith sq k cur acc = some L → contains cur (u ^ (2 ^ k)) →
    ∃ tail, L = acc.reverse ++ tail ∧ RootsOK u k tail ∧ tail.length = k := by
  intro k
  induction k with
  | zero =>
    intro cur acc L h _
    change some acc.reverse = some L at h
    injection h with h
    exact ⟨[], by simp [h], trivial, rfl⟩
  | succ k ih =>
    intro cur acc L h hc
    change (match sq cur with
      | none => none
      | some s => rootsOfTwoWith sq k s (s :: acc)) = some L at h
    cases hs : sq cur with
    | none => rw [hs] at h; cases h
    | some s =>
      rw [hs] at h
      simp only at h
      have hz : contains s (u ^ (2 ^ k)) := by
        apply hsq cur s hs (u ^ (2 ^ k)) (by positivity)
        rw [← pow_mul, ← Nat.pow_succ]; exact hc
      obtain ⟨tail, t1, t2, t3⟩ := ih s (s :: acc) L h hz
      refine ⟨s :: tail, ?_, ⟨hz, t2⟩, by simp [t3]⟩
      rw [t1]; simp

theorem rootsOfTwo_ok (u : α) (hu : 0 < u) (k : Nat) (cur : Ival) (acc L : List Ival)
    (h : rootsOfTwo k cur acc = some L) (hc : contains cur (u ^ (2 ^ k))) :
    ∃ tail, L = acc.reverse ++ tail ∧ RootsOK u k tail ∧ tail.length = k :=
  rootsOfTwoWith_ok Ival.sqrt (fun iv s hs z hz hcz => sqrt_contains iv s hs z hz hcz) u hu k cur acc L h hc

theorem one_cast : ((one : Nat) : α) / (2 : α) ^ P = 1 := by
  unfold one; push_cast; field_simp

theorem go_ok (u : α) (hu : 0 < u) (r k : Nat) : ∀ (rs : List Ival) (m i : Nat) (acc : Ival) (E : Nat),
    RootsOK u m rs → rs.length = m → i + m = r → contains acc (u ^ E) →
    contains (pow2Frac.go r k i rs acc) (u ^ (E + k % 2 ^ m)) := by
  intro rs
  induction rs with
  | nil =>
    intro m i acc E _ hl _ hc
    have : m = 0 := by simpa using hl.symm
    subst this
    simpa [pow2Frac.go, Nat.mod_one] using hc
  | cons t rest ih =>
    intro m i acc E hok hl him hc
    cases m with
    | zero => simp at hl
    | succ m' =>
      obtain ⟨ht, hrest⟩ := hok
      have hidx : r - 1 - i = m' := by omega
      have hl' : rest.length = m' := by simpa using hl
      show contains (pow2Frac.go r k (i + 1) rest (if k.testBit (r - 1 - i) then acc.mul t else acc)) _
      rw [hidx]
      have hsplit : k % 2 ^ (m' + 1) = k % 2 ^ m' + 2 ^ m' * (k / 2 ^ m' % 2) := Nat.mod_pow_succ
      by_cases hb : k.testBit m' = true
      · simp only [hb, if_true]
        have hb' : k / 2 ^ m' % 2 = 1 := by
          rw [Nat.testBit_eq_decide_div_mod_eq] at hb; simpa using hb
        have hm := mul_contains acc t (u ^ E) (u ^ (2 ^ m')) hc ht (by positivity) (by positivity)
        rw [← pow_add] at hm
        have := ih m' (i + 1) (acc.mul t) (E + 2 ^ m') hrest hl' (by omega) hm
        rw [hsplit, hb', Nat.mul_one]
        rw [show E + (k % 2 ^ m' + 2 ^ m') = E + 2 ^ m' + k % 2 ^ m' by omega]
        exact this
      · have hb0 : k.testBit m' = false := by simpa using hb
        simp only [hb0, Bool.false_eq_true, if_false]
        have hb' : k / 2 ^ m' % 2 = 0 := by
          rw [Nat.testBit_eq_decide_div_mod_eq] at hb0
          have := Nat.mod_two_eq_zero_or_one (k / 2 ^ m')
          rcases this with h | h
          · exact h
          · simp [h] at hb0
        have := ih m' (i + 1) acc E hrest hl' (by omega) hc
        rw [hsplit, hb', Nat.mul_zero, Nat.add_zero]
        exact this

/-- `pow2Frac r k` encloses u^k when u^(2^r) = 2 (u = 2^(1/2^r)) -/
theorem pow2Frac_ok (u : α) (hu : 0 < u) (r k : Nat) (hur : u ^ (2 ^ r) = 2) (hk : k < 2 ^ r) (iv : Ival)
    (h : pow2Frac r k = some iv) : contains iv (u ^ k) := by
  unfold pow2Frac at h
  rw [rootsFor_eq] at h
  cases hr : rootsOfTwo r ⟨2 * one, 2 * one⟩ [] with
  | none => rw [hr] at h; cases h
  | some roots =>
    rw [hr] at h
    simp only at h
    injection h with h
    have hc0 : contains (⟨2 * one, 2 * one⟩ : Ival) (u ^ (2 ^ r)) := by
      rw [hur]
      unfold contains
      simp only
      have : ((2 * one : Nat) : α) / (2 : α) ^ P = 2 := by
        rw [Nat.cast_mul, mul_div_assoc, one_cast]; simp
      rw [this]; exact ⟨le_refl _, le_refl _⟩
    obtain ⟨tail, t1, t2, t3⟩ := rootsOfTwo_ok u hu r _ [] roots hr hc0
    simp only [List.reverse_nil, List.nil_append] at t1
    subst t1
    have h1 : contains (⟨one, one⟩ : Ival) (u ^ 0) := by
      unfold contains; simp only [pow_zero]; rw [one_cast]; exact ⟨le_refl _, le_refl _⟩
    have := go_ok u hu r k roots r 0 ⟨one, one⟩ 0 t2 t3 (by omega) h1
    rw [Nat.zero_add, Nat.mod_eq_of_lt hk] at this
    rw [← h]; exact this

/-- dividing an enclosure by 2^k -/
theorem shr_contains (t : Ival) (x : α) (k : Nat) (hx : contains t x) :
    contains (⟨t.lo >>> k, (t.hi >>> k) + 1⟩ : Ival) (x / (2 : α) ^ k) := by
  obtain ⟨x1, x2⟩ := hx
  have hPp : (0 : α) < (2 : α) ^ P := two_pow_pos' P
  have hk : (0 : α) < (2 : α) ^ k := two_pow_pos' k
  unfold contains
  simp only
  constructor
  · have h := shr_le (α := α) t.lo k
    calc ((t.lo >>> k : Nat) : α) / (2 : α) ^ P ≤ ((t.lo : α) / (2 : α) ^ k) / (2 : α) ^ P := by
          apply div_le_div_of_nonneg_right _ (le_of_lt hPp)
          rw [le_div_iff₀ hk]; exact h
      _ = ((t.lo : α) / (2 : α) ^ P) / (2 : α) ^ k := by rw [div_div, div_div, mul_comm]
      _ ≤ x / (2 : α) ^ k := div_le_div_of_nonneg_right x1 (le_of_lt hk)
  · have h := lt_shr_succ (α := α) t.hi k
    calc x / (2 : α) ^ k ≤ ((t.hi : α) / (2 : α) ^ P) / (2 : α) ^ k := div_le_div_of_nonneg_right x2 (le_of_lt hk)
      _ = ((t.hi : α) / (2 : α) ^ k) / (2 : α) ^ P := by rw [div_div, div_div, mul_comm]
      _ ≤ (((t.hi >>> k) + 1 : Nat) : α) / (2 : α) ^ P := by
          apply div_le_div_of_nonneg_right _ (le_of_lt hPp)
          rw [div_le_iff₀ hk]; push_cast; exact le_of_lt h

/-- `pow2Neg r d` encloses u^(-d) = 2^(-d/2^r) when u^(2^r) = 2 -/
theorem pow2Neg_ok (u : α) (hu : 0 < u) (r d : Nat) (hur : u ^ (2 ^ r) = 2) (w : Ival)
    (h : pow2Neg r d = some w) : contains w ((u ^ d)⁻¹) := by
  unfold pow2Neg at h
  simp only at h
  have hN : 0 < 2 ^ r := Nat.two_pow_pos r
  have hd : d = 2 ^ r * (d / 2 ^ r) + d % 2 ^ r := (Nat.div_add_mod d (2 ^ r)).symm
  have hud : u ^ d = (2 : α) ^ (d / 2 ^ r) * u ^ (d % 2 ^ r) := by
    conv_lhs => rw [hd]
    rw [pow_add, pow_mul, hur]
  have hPp : (0 : α) < (2 : α) ^ P := two_pow_pos' P
  by_cases hj : d % 2 ^ r = 0
  · simp only [hj, if_true] at h
    injection h with h
    rw [hud, hj, pow_zero, mul_one]
    have key := shr_contains (⟨one, one⟩ : Ival) (1 : α) (d / 2 ^ r)
      (by unfold contains; simp only; rw [one_cast]; exact ⟨le_refl _, le_refl _⟩)
    rw [one_div] at key
    obtain ⟨k1, k2⟩ := key
    rw [← h]
    unfold contains at *
    simp only at *
    refine ⟨k1, ?_⟩
    split
    · -- exact power of two: one = (one >>> q) · 2^q
      rename_i hdiv
      have hq : (one >>> (d / 2 ^ r)) * 2 ^ (d / 2 ^ r) = one := by
        rw [Nat.shiftRight_eq_div_pow]; exact Nat.div_mul_cancel (Nat.dvd_of_mod_eq_zero hdiv)
      have : ((one >>> (d / 2 ^ r) : Nat) : α) * (2 : α) ^ (d / 2 ^ r) = (one : α) := by
        have := congrArg (fun n : Nat => (n : α)) hq
        push_cast at this; exact this
      have hk : (0 : α) < (2 : α) ^ (d / 2 ^ r) := two_pow_pos' _
      rw [inv_eq_one_div, div_le_div_iff₀ hk hPp, one_mul]
      have h1 : ((one : Nat) : α) = (2 : α) ^ P := by unfold one; push_cast; rfl
      rw [← h1, ← this]
    · exact k2
  · simp only [hj, if_false] at h
    cases hp : pow2Frac r (2 ^ r - d % 2 ^ r) with
    | none => rw [hp] at h; cases h
    | some t =>
      rw [hp] at h
      simp only at h
      injection h with h
      have hjlt : d % 2 ^ r < 2 ^ r := Nat.mod_lt _ hN
      have ht := pow2Frac_ok u hu r (2 ^ r - d % 2 ^ r) hur (by omega) t hp
      have key := shr_contains t _ (d / 2 ^ r + 1) ht
      have hval : u ^ (2 ^ r - d % 2 ^ r) / (2 : α) ^ (d / 2 ^ r + 1) = (u ^ d)⁻¹ := by
        have hprod : u ^ (2 ^ r - d % 2 ^ r) * u ^ (d % 2 ^ r) = 2 := by
          rw [← pow_add, show 2 ^ r - d % 2 ^ r + d % 2 ^ r = 2 ^ r by omega, hur]
        have hujpos : (0 : α) < u ^ (d % 2 ^ r) := by positivity
        rw [hud, pow_succ]
        field_simp
        linarith
      rw [hval] at key
      rw [← h]; exact key

end UVerif.LnsSound
