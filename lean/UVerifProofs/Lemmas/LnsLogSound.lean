/-
  UVerifProofs.Lemmas.LnsLogSound — SOUNDNESS of the certified interval logarithm of `UVerif.Spec.Lns`
  (`floorLog`, `floorLogDown`, `floorLogUp`, `stepDown`, `stepUp`, `normDown`, `normUp`), over any linearly ordered field:
  if `floorLog r iv = some F` then every y in the interval satisfies 2^F ≤ y^(2^r) < 2^(F+1), i.e. F = ⌊2^r · log2 y⌋.
-/
import UVerif.Spec.Lns
import Mathlib.Tactic.Linarith
import Mathlib.Tactic.Ring
import Mathlib.Tactic.Positivity
import Mathlib.Tactic.SplitIfs
import Mathlib.Tactic.FieldSimp
import Mathlib.Tactic.GCongr
import Mathlib.Algebra.Order.Field.Basic
import Mathlib.Algebra.Order.Field.Power

set_option linter.unusedSimpArgs false
set_option linter.unusedVariables false
set_option linter.unnecessarySeqFocus false

namespace UVerif.LnsSound
open UVerif UVerif.Lns

variable {α : Type*} [Field α] [LinearOrder α] [IsStrictOrderedRing α]

/-- real value of a fixed-point mantissa/exponent pair -/
def val (st : Nat × Int) : α := (st.1 : α) / (2 : α) ^ P * (2 : α) ^ st.2

theorem two_zpow_pos (a : Int) : (0 : α) < (2 : α) ^ a := by positivity
theorem two_pow_pos' (k : Nat) : (0 : α) < (2 : α) ^ k := by positivity

/-- floor division: (n / 2^k) · 2^k ≤ n -/
theorem shr_le (n k : Nat) : ((n >>> k : Nat) : α) * (2 : α) ^ k ≤ (n : α) := by
  rw [Nat.shiftRight_eq_div_pow]
  have h := Nat.div_mul_le_self n (2 ^ k)
  have : ((n / 2 ^ k * 2 ^ k : Nat) : α) ≤ (n : α) := Nat.cast_le.mpr h
  push_cast at this; exact this

/-- and n < (n / 2^k + 1) · 2^k -/
theorem lt_shr_succ (n k : Nat) : (n : α) < (((n >>> k : Nat) : α) + 1) * (2 : α) ^ k := by
  rw [Nat.shiftRight_eq_div_pow]
  have h := Nat.lt_div_mul_add (a := n) (b := 2 ^ k) (Nat.two_pow_pos k)
  have h' : n < (n / 2 ^ k + 1) * 2 ^ k := by
    have := Nat.lt_mul_div_succ n (Nat.two_pow_pos k)
    rw [Nat.mul_comm] at this; exact this
  have : (n : α) < (((n / 2 ^ k + 1) * 2 ^ k : Nat) : α) := Nat.cast_lt.mpr h'
  push_cast at this; exact this

theorem val_def (M : Nat) (a : Int) : (val (M, a) : α) = (M : α) / (2 : α) ^ P * (2 : α) ^ a := rfl

/-- one squaring step, mantissa rounded down: the mantissa stays ≥ 1 and the value does not exceed the square -/
theorem stepDown_inv (st : Nat × Int) (hM : 2 ^ P ≤ st.1) :
    2 ^ P ≤ (stepDown st).1 ∧ (val (stepDown st) : α) ≤ (val st) ^ 2 := by
  obtain ⟨M, a⟩ := st
  simp only at hM
  have hPp : (0 : α) < (2 : α) ^ P := two_pow_pos' P
  have hsq : 2 ^ P * 2 ^ P ≤ M * M := Nat.mul_le_mul hM hM
  have hM2ge : 2 ^ P ≤ (M * M) >>> P := by
    rw [Nat.shiftRight_eq_div_pow, Nat.le_div_iff_mul_le (Nat.two_pow_pos P)]; exact hsq
  have hM2 : (((M * M) >>> P : Nat) : α) * (2 : α) ^ P ≤ (M : α) * (M : α) := by
    have := shr_le (α := α) (M * M) P; push_cast at this; exact this
  have hsqval : (val (M, a) : α) ^ 2 = (M : α) * (M : α) / ((2 : α) ^ P * (2 : α) ^ P) * (2 : α) ^ (2 * a) := by
    rw [val_def, mul_pow, div_pow, ← zpow_natCast ((2 : α) ^ a) 2, ← zpow_mul, mul_comm a]
    ring_nf
  have hza : (0 : α) < (2 : α) ^ (2 * a) := two_zpow_pos _
  unfold stepDown
  simp only
  by_cases hc : (M * M) >>> P ≥ 2 ^ (P + 1)
  · simp only [hc, if_true]
    constructor
    · rw [Nat.shiftRight_eq_div_pow, Nat.pow_one, Nat.le_div_iff_mul_le (by norm_num)]
      rw [Nat.pow_succ] at hc; omega
    · rw [val_def, hsqval]
      have h3 : ((((M * M) >>> P) >>> 1 : Nat) : α) * 2 ≤ (((M * M) >>> P : Nat) : α) := by
        have := shr_le (α := α) ((M * M) >>> P) 1; simpa using this
      have hz1 : (2 : α) ^ (2 * a + 1) = (2 : α) ^ (2 * a) * 2 := by
        rw [zpow_add₀ (by norm_num : (2 : α) ≠ 0)]; simp
      rw [hz1]
      have key : ((((M * M) >>> P) >>> 1 : Nat) : α) / (2 : α) ^ P * 2 ≤ (M : α) * (M : α) / ((2 : α) ^ P * (2 : α) ^ P) := by
        rw [div_mul_eq_mul_div, div_le_div_iff₀ hPp (by positivity)]
        nlinarith
      nlinarith
  · simp only [hc, if_false]
    refine ⟨hM2ge, ?_⟩
    rw [val_def, hsqval]
    have key : (((M * M) >>> P : Nat) : α) / (2 : α) ^ P ≤ (M : α) * (M : α) / ((2 : α) ^ P * (2 : α) ^ P) := by
      rw [div_le_div_iff₀ hPp (by positivity)]
      nlinarith
    exact mul_le_mul_of_nonneg_right key (le_of_lt hza)

theorem val_pos (st : Nat × Int) (h : 0 < st.1) : (0 : α) < val st := by
  obtain ⟨M, a⟩ := st
  rw [val_def]
  have : (0 : α) < (M : α) := Nat.cast_pos.mpr h
  positivity

theorem normDown_inv (v : Nat) (hv : 0 < v) :
    2 ^ P ≤ (normDown v).1 ∧ (val (normDown v) : α) ≤ (v : α) / (2 : α) ^ P := by
  have h1 : 2 ^ Nat.log2 v ≤ v := Nat.log2_self_le (by omega)
  have hPp : (0 : α) < (2 : α) ^ P := two_pow_pos' P
  unfold normDown
  simp only
  by_cases hc : Nat.log2 v ≥ P
  · simp only [hc, if_true]
    constructor
    · rw [Nat.shiftRight_eq_div_pow, Nat.le_div_iff_mul_le (Nat.two_pow_pos _), ← Nat.pow_add,
        show P + (Nat.log2 v - P) = Nat.log2 v by omega]
      exact h1
    · rw [val_def, zpow_natCast]
      have := shr_le (α := α) v (Nat.log2 v - P)
      rw [div_mul_eq_mul_div, div_le_div_iff_of_pos_right hPp]
      exact this
  · simp only [hc, if_false]
    constructor
    · rw [Nat.shiftLeft_eq]
      calc 2 ^ P = 2 ^ Nat.log2 v * 2 ^ (P - Nat.log2 v) := by rw [← Nat.pow_add]; congr 1; omega
        _ ≤ v * 2 ^ (P - Nat.log2 v) := Nat.mul_le_mul_right _ h1
    · rw [val_def, Nat.shiftLeft_eq, zpow_neg, zpow_natCast]
      push_cast
      have hk : (0 : α) < (2 : α) ^ (P - Nat.log2 v) := two_pow_pos' _
      apply le_of_eq
      field_simp

/-- iterating the rounded-down squaring step -/
theorem iterDown_inv (k : Nat) : ∀ st : Nat × Int, 2 ^ P ≤ st.1 →
    2 ^ P ≤ (iter stepDown k st).1 ∧ (val (iter stepDown k st) : α) ≤ (val st) ^ (2 ^ k) := by
  induction k with
  | zero => intro st h; simp [iter, h]
  | succ k ih =>
    intro st h
    obtain ⟨h1, h2⟩ := stepDown_inv (α := α) st h
    obtain ⟨h3, h4⟩ := ih (stepDown st) h1
    refine ⟨h3, ?_⟩
    show (val (iter stepDown k (stepDown st)) : α) ≤ _
    calc (val (iter stepDown k (stepDown st)) : α) ≤ (val (stepDown st)) ^ (2 ^ k) := h4
      _ ≤ ((val st) ^ 2) ^ (2 ^ k) := by
        apply pow_le_pow_left₀ (le_of_lt (val_pos _ (Nat.lt_of_lt_of_le (Nat.two_pow_pos P) h1))) h2
      _ = (val st) ^ (2 ^ (k + 1)) := by rw [← pow_mul, Nat.pow_succ]; ring_nf

/-- the lower run: 2^(floorLogDown r v) ≤ (v/2^P)^(2^r) -/
theorem floorLogDown_sound (r v : Nat) (hv : 0 < v) :
    ((2 : α) ^ (floorLogDown r v) : α) ≤ ((v : α) / (2 : α) ^ P) ^ (2 ^ r) := by
  obtain ⟨n1, n2⟩ := normDown_inv (α := α) v hv
  obtain ⟨i1, i2⟩ := iterDown_inv (α := α) r (normDown v) n1
  unfold floorLogDown
  have hPp : (0 : α) < (2 : α) ^ P := two_pow_pos' P
  have hge : (2 : α) ^ (iter stepDown r (normDown v)).2 ≤ val (iter stepDown r (normDown v)) := by
    generalize iter stepDown r (normDown v) = st at i1 ⊢
    obtain ⟨M, a⟩ := st
    simp only at i1 ⊢
    rw [val_def]
    have : (1 : α) ≤ (M : α) / (2 : α) ^ P := by
      rw [le_div_iff₀ hPp, one_mul]
      have : ((2 ^ P : Nat) : α) ≤ (M : α) := Nat.cast_le.mpr i1
      push_cast at this; exact this
    have hz := two_zpow_pos (α := α) a
    nlinarith
  calc ((2 : α) ^ (iter stepDown r (normDown v)).2 : α) ≤ val (iter stepDown r (normDown v)) := hge
    _ ≤ (val (normDown v)) ^ (2 ^ r) := i2
    _ ≤ ((v : α) / (2 : α) ^ P) ^ (2 ^ r) :=
      pow_le_pow_left₀ (le_of_lt (val_pos _ (Nat.lt_of_lt_of_le (Nat.two_pow_pos P) n1))) n2 _

theorem P_pos : 1 ≤ P := by unfold P; omega

/-- ceil-halving: M ≤ 2 · ((M+1)/2) -/
theorem le_two_mul_ceil_half (M : Nat) : (M : α) ≤ (2 : α) * (((M + 1) >>> 1 : Nat) : α) := by
  rw [Nat.shiftRight_eq_div_pow, Nat.pow_one]
  have : M ≤ 2 * ((M + 1) / 2) := by omega
  have h : (M : α) ≤ ((2 * ((M + 1) / 2) : Nat) : α) := Nat.cast_le.mpr this
  rw [Nat.cast_mul] at h; exact_mod_cast h

theorem val_halve (M : Nat) (a : Int) : (val (M, a) : α) ≤ val ((M + 1) >>> 1, a + 1) := by
  rw [val_def, val_def]
  have hPp : (0 : α) < (2 : α) ^ P := two_pow_pos' P
  have hz : (2 : α) ^ (a + 1) = (2 : α) ^ a * 2 := by rw [zpow_add₀ (by norm_num : (2 : α) ≠ 0)]; simp
  have hza := two_zpow_pos (α := α) a
  have h := le_two_mul_ceil_half (α := α) M
  rw [hz, div_mul_eq_mul_div, div_mul_eq_mul_div, div_le_div_iff_of_pos_right hPp]
  nlinarith

/-- one squaring step, mantissa rounded up: the mantissa ends below 2 and the value is at least the square -/
theorem stepUp_inv (st : Nat × Int) (hM : st.1 ≤ 2 ^ (P + 1)) :
    (stepUp st).1 < 2 ^ (P + 1) ∧ (val st : α) ^ 2 ≤ val (stepUp st) := by
  obtain ⟨M, a⟩ := st
  simp only at hM
  have hPp : (0 : α) < (2 : α) ^ P := two_pow_pos' P
  have hP1 := P_pos
  have hsq : M * M ≤ 2 ^ (P + 1) * 2 ^ (P + 1) := Nat.mul_le_mul hM hM
  have hq : (M * M) >>> P ≤ 2 ^ (P + 2) := by
    rw [Nat.shiftRight_eq_div_pow]
    apply Nat.div_le_of_le_mul
    calc M * M ≤ 2 ^ (P + 1) * 2 ^ (P + 1) := hsq
      _ = 2 ^ P * 2 ^ (P + 2) := by rw [← Nat.pow_add, ← Nat.pow_add]; congr 1 <;> omega
  have hsqval : (val (M, a) : α) ^ 2 = (M : α) * (M : α) / ((2 : α) ^ P * (2 : α) ^ P) * (2 : α) ^ (2 * a) := by
    rw [val_def, mul_pow, div_pow, ← zpow_natCast ((2 : α) ^ a) 2, ← zpow_mul, mul_comm a]
    ring_nf
  have hza : (0 : α) < (2 : α) ^ (2 * a) := two_zpow_pos _
  -- the square is below the rounded-up mantissa
  have hlt : (M : α) * (M : α) < ((((M * M) >>> P) + 1 : Nat) : α) * (2 : α) ^ P := by
    have := lt_shr_succ (α := α) (M * M) P; push_cast at this ⊢; exact this
  have h0 : (val (M, a) : α) ^ 2 ≤ val (((M * M) >>> P) + 1, 2 * a) := by
    rw [hsqval, val_def]
    apply mul_le_mul_of_nonneg_right _ (le_of_lt hza)
    rw [div_le_div_iff₀ (by positivity) hPp]
    nlinarith
  have hp2 : 2 ^ (P + 2) = 2 * 2 ^ (P + 1) := by rw [Nat.pow_succ]; ring
  have hp1 : 2 ^ (P + 1) = 2 * 2 ^ P := by rw [Nat.pow_succ]; ring
  have hpP : 2 ≤ 2 ^ P := by
    calc 2 = 2 ^ 1 := rfl
      _ ≤ 2 ^ P := Nat.pow_le_pow_right (by omega) hP1
  unfold stepUp
  simp only
  generalize hM2 : (M * M) >>> P + 1 = M2 at *
  have hM2le : M2 ≤ 2 ^ (P + 2) + 1 := by omega
  by_cases hc : M2 ≥ 2 ^ (P + 1)
  · simp only [hc, if_true]
    have h1 := val_halve (α := α) M2 (2 * a)
    have hM3le : (M2 + 1) >>> 1 ≤ 2 ^ (P + 1) + 1 := by
      rw [Nat.shiftRight_eq_div_pow, Nat.pow_one]; omega
    by_cases hc2 : (M2 + 1) >>> 1 ≥ 2 ^ (P + 1)
    · simp only [hc2, if_true]
      have h2 := val_halve (α := α) ((M2 + 1) >>> 1) (2 * a + 1)
      constructor
      · rw [Nat.shiftRight_eq_div_pow ((M2 + 1) >>> 1 + 1), Nat.pow_one]; omega
      · rw [show 2 * a + 2 = 2 * a + 1 + 1 by ring]
        exact le_trans h0 (le_trans h1 h2)
    · simp only [hc2, if_false]
      exact ⟨by omega, le_trans h0 h1⟩
  · simp only [hc, if_false]
    exact ⟨by omega, h0⟩

theorem two_zpow_mul_pow (a : Int) (k : Nat) : (2 : α) ^ a * (2 : α) ^ k = (2 : α) ^ (a + k) := by
  rw [zpow_add₀ (by norm_num : (2 : α) ≠ 0), zpow_natCast]

theorem normUp_inv (v : Nat) (hv : 0 < v) :
    (normUp v).1 ≤ 2 ^ (P + 1) ∧ 0 < (normUp v).1 ∧ ((v : α) / (2 : α) ^ P ≤ val (normUp v)) ∧
    ((v : α) / (2 : α) ^ P < (2 : α) ^ ((normUp v).2 + 1)) := by
  have h1 : 2 ^ Nat.log2 v ≤ v := Nat.log2_self_le (by omega)
  have h2 : v < 2 ^ (Nat.log2 v + 1) := Nat.lt_log2_self
  have hPp : (0 : α) < (2 : α) ^ P := two_pow_pos' P
  unfold normUp
  simp only
  by_cases hc : Nat.log2 v ≥ P
  · simp only [hc, if_true]
    set s := Nat.log2 v - P with hs
    have hq : v >>> s < 2 ^ (P + 1) := by
      rw [Nat.shiftRight_eq_div_pow]
      apply Nat.div_lt_of_lt_mul
      rw [← Nat.pow_add, show s + (P + 1) = Nat.log2 v + 1 by omega]; exact h2
    have hqpos : 0 < v >>> s := by
      rw [Nat.shiftRight_eq_div_pow]
      apply Nat.div_pos _ (Nat.two_pow_pos _)
      exact Nat.le_trans (Nat.pow_le_pow_right (by omega) (by omega)) h1
    have hbit : (if v % 2 ^ s = 0 then 0 else 1 : Nat) ≤ 1 := by split <;> omega
    refine ⟨by omega, by omega, ?_, ?_⟩
    · rw [val_def, zpow_natCast, div_mul_eq_mul_div, div_le_div_iff_of_pos_right hPp]
      -- v ≤ (v / 2^s + [rem ≠ 0]) · 2^s
      have hdm := Nat.div_add_mod v (2 ^ s)
      rw [Nat.shiftRight_eq_div_pow]
      have hnat : v ≤ (v / 2 ^ s + (if v % 2 ^ s = 0 then 0 else 1)) * 2 ^ s := by
        have hr : v % 2 ^ s < 2 ^ s := Nat.mod_lt _ (Nat.two_pow_pos _)
        split
        · rename_i h0; rw [Nat.add_zero]; rw [h0, Nat.add_zero, Nat.mul_comm] at hdm; omega
        · rw [Nat.add_mul, Nat.one_mul, Nat.mul_comm]; omega
      have : (v : α) ≤ (((v / 2 ^ s + (if v % 2 ^ s = 0 then 0 else 1)) * 2 ^ s : Nat) : α) := Nat.cast_le.mpr hnat
      push_cast at this ⊢; exact this
    · have hv2 : (v : α) < (2 : α) ^ (Nat.log2 v + 1) := by
        have : (v : α) < ((2 ^ (Nat.log2 v + 1) : Nat) : α) := Nat.cast_lt.mpr h2
        push_cast at this; exact this
      rw [div_lt_iff₀ hPp]
      have he : (s : Int) + 1 + ((P : Nat) : Int) = (((Nat.log2 v + 1 : Nat)) : Int) := by
        have hsP : s + P = Nat.log2 v := by omega
        have : ((s + P : Nat) : Int) = ((Nat.log2 v : Nat) : Int) := by rw [hsP]
        rw [Nat.cast_add] at this; rw [Nat.cast_add, Nat.cast_one]; linarith
      rw [two_zpow_mul_pow, he, zpow_natCast]; exact hv2
  · simp only [hc, if_false]
    have hlt : Nat.log2 v < P := by omega
    have hM : v <<< (P - Nat.log2 v) < 2 ^ (P + 1) := by
      rw [Nat.shiftLeft_eq]
      calc v * 2 ^ (P - Nat.log2 v) < 2 ^ (Nat.log2 v + 1) * 2 ^ (P - Nat.log2 v) :=
            Nat.mul_lt_mul_of_pos_right h2 (Nat.two_pow_pos _)
        _ = 2 ^ (P + 1) := by rw [← Nat.pow_add]; congr 1; omega
    have hk : (0 : α) < (2 : α) ^ (P - Nat.log2 v) := two_pow_pos' _
    have hval : (val (v <<< (P - Nat.log2 v), -((P - Nat.log2 v : Nat) : Int)) : α) = (v : α) / (2 : α) ^ P := by
      rw [val_def, Nat.shiftLeft_eq, zpow_neg, zpow_natCast]; push_cast; field_simp
    refine ⟨by omega, ?_, by rw [hval], ?_⟩
    · rw [Nat.shiftLeft_eq]; exact Nat.mul_pos hv (Nat.two_pow_pos _)
    · rw [div_lt_iff₀ hPp]
      have hv2 : (v : α) < (2 : α) ^ (Nat.log2 v + 1) := by
        have : (v : α) < ((2 ^ (Nat.log2 v + 1) : Nat) : α) := Nat.cast_lt.mpr h2
        push_cast at this; exact this
      have he : -((P - Nat.log2 v : Nat) : Int) + 1 + ((P : Nat) : Int) = (((Nat.log2 v + 1 : Nat)) : Int) := by
        have hsP : (P - Nat.log2 v) + Nat.log2 v = P := by omega
        have : (((P - Nat.log2 v) + Nat.log2 v : Nat) : Int) = ((P : Nat) : Int) := by rw [hsP]
        rw [Nat.cast_add] at this; rw [Nat.cast_add, Nat.cast_one]; linarith
      rw [two_zpow_mul_pow, he, zpow_natCast]; exact hv2

/-- iterating the rounded-up squaring step -/
theorem iterUp_inv (k : Nat) : ∀ st : Nat × Int, st.1 ≤ 2 ^ (P + 1) → 0 < st.1 →
    (iter stepUp k st).1 ≤ 2 ^ (P + 1) ∧ (1 ≤ k → (iter stepUp k st).1 < 2 ^ (P + 1)) ∧
    (val st : α) ^ (2 ^ k) ≤ val (iter stepUp k st) := by
  induction k with
  | zero => intro st h hp; simp [iter, h]
  | succ k ih =>
    intro st h hp
    obtain ⟨h1, h2⟩ := stepUp_inv (α := α) st h
    have hpos : 0 < (stepUp st).1 := by
      by_contra hc
      have h0 : (stepUp st).1 = 0 := by omega
      have hv := val_pos (α := α) st hp
      have : (0 : α) < (val st) ^ 2 := by positivity
      have hz : (val (stepUp st) : α) = 0 := by
        generalize stepUp st = st' at h0
        obtain ⟨M', a'⟩ := st'
        simp only at h0; subst h0; rw [val_def]; simp
      linarith
    obtain ⟨h3, h4, h5⟩ := ih (stepUp st) (by omega) hpos
    show (iter stepUp k (stepUp st)).1 ≤ _ ∧ _ ∧ _
    refine ⟨h3, ?_, ?_⟩
    · intro _
      rcases Nat.eq_zero_or_pos k with hk | hk
      · subst hk; simpa [iter] using h1
      · exact h4 hk
    · calc (val st : α) ^ (2 ^ (k + 1)) = ((val st) ^ 2) ^ (2 ^ k) := by rw [← pow_mul, Nat.pow_succ]; ring_nf
        _ ≤ (val (stepUp st)) ^ (2 ^ k) := by
          apply pow_le_pow_left₀ (by positivity) h2
        _ ≤ val (iter stepUp k (stepUp st)) := h5

/-- the upper run: (v/2^P)^(2^r) < 2^(floorLogUp r v + 1) -/
theorem floorLogUp_sound (r v : Nat) (hv : 0 < v) :
    ((v : α) / (2 : α) ^ P) ^ (2 ^ r) < (2 : α) ^ (floorLogUp r v + 1) := by
  obtain ⟨n1, n2, n3, n4⟩ := normUp_inv (α := α) v hv
  unfold floorLogUp
  rcases Nat.eq_zero_or_pos r with hr | hr
  · subst hr; simpa [iter] using n4
  · obtain ⟨i1, i2, i3⟩ := iterUp_inv (α := α) r (normUp v) n1 n2
    have hlt := i2 hr
    have hPp : (0 : α) < (2 : α) ^ P := two_pow_pos' P
    have hvpos : (0 : α) ≤ (v : α) / (2 : α) ^ P := by positivity
    have hup : (val (iter stepUp r (normUp v)) : α) < (2 : α) ^ ((iter stepUp r (normUp v)).2 + 1) := by
      generalize iter stepUp r (normUp v) = st at hlt ⊢
      obtain ⟨M, a⟩ := st
      simp only at hlt ⊢
      rw [val_def, zpow_add₀ (by norm_num : (2 : α) ≠ 0), zpow_one, mul_comm ((2 : α) ^ a) 2]
      have hz := two_zpow_pos (α := α) a
      have : (M : α) / (2 : α) ^ P < 2 := by
        rw [div_lt_iff₀ hPp]
        have h : (M : α) < ((2 ^ (P + 1) : Nat) : α) := Nat.cast_lt.mpr hlt
        rw [Nat.pow_succ] at h; push_cast at h; linarith
      exact mul_lt_mul_of_pos_right this hz
    calc ((v : α) / (2 : α) ^ P) ^ (2 ^ r) ≤ (val (normUp v)) ^ (2 ^ r) := pow_le_pow_left₀ hvpos n3 _
      _ ≤ val (iter stepUp r (normUp v)) := i3
      _ < _ := hup

/-- SOUNDNESS of the interval logarithm: if `floorLog r iv` answers F, then every y in the interval satisfies
    2^F ≤ y^(2^r) < 2^(F+1), i.e. F = ⌊2^r · log2 y⌋. -/
theorem floorLog_sound (r : Nat) (iv : Ival) (F : Int) (h : floorLog r iv = some F) (y : α)
    (hlo : (iv.lo : α) / (2 : α) ^ P ≤ y) (hhi : y ≤ (iv.hi : α) / (2 : α) ^ P) :
    (2 : α) ^ F ≤ y ^ (2 ^ r) ∧ y ^ (2 ^ r) < (2 : α) ^ (F + 1) := by
  unfold floorLog at h
  by_cases h0 : iv.lo = 0
  · simp [h0] at h
  · simp only [h0, if_false] at h
    by_cases hab : floorLogDown r iv.lo = floorLogUp r iv.hi
    · simp only [hab, if_true, Option.some.injEq] at h
      have hlopos : 0 < iv.lo := Nat.pos_of_ne_zero h0
      have hPp : (0 : α) < (2 : α) ^ P := two_pow_pos' P
      have hlo0 : (0 : α) < (iv.lo : α) / (2 : α) ^ P := by
        have : (0 : α) < (iv.lo : α) := Nat.cast_pos.mpr hlopos
        positivity
      have hy0 : (0 : α) < y := lt_of_lt_of_le hlo0 hlo
      have hhipos : 0 < iv.hi := by
        by_contra hc
        have : iv.hi = 0 := by omega
        rw [this] at hhi; simp at hhi; linarith
      have d := floorLogDown_sound (α := α) r iv.lo hlopos
      have u := floorLogUp_sound (α := α) r iv.hi hhipos
      rw [hab, h] at d
      rw [h] at u
      constructor
      · exact le_trans d (pow_le_pow_left₀ (le_of_lt hlo0) hlo _)
      · exact lt_of_le_of_lt (pow_le_pow_left₀ (le_of_lt hy0) hhi _) u
    · simp [hab] at h

end UVerif.LnsSound
