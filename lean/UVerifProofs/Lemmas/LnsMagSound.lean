/-
  UVerifProofs.Lemmas.LnsMagSound — SOUNDNESS of `UVerif.Lns.magOf` (the part of the C09 add/sub spec that locates the exact
  real sum on the lns lattice): for u > 0 with u^(2^r) = 2 in any linearly ordered field,
    magOf r Ea Eb sub = .zero      ⇒ the real magnitude is 0
    magOf r Ea Eb sub = .at G      ⇒ it is exactly u^G
    magOf r Ea Eb sub = .between G ⇒ u^G ≤ it < u^(G+1)
  where the real magnitude is u^Ea + u^Eb (sub = false) or |u^Ea - u^Eb| (sub = true).
-/
import UVerif.Spec.Lns
import UVerifProofs.Lemmas.LnsLogSound
import UVerifProofs.Lemmas.LnsExpSound
import Mathlib.Algebra.Order.Ring.Pow

set_option linter.unusedSimpArgs false
set_option linter.unusedVariables false
set_option linter.unnecessarySeqFocus false
set_option linter.unusedSectionVars false

namespace UVerif.LnsSound
open UVerif UVerif.Lns

variable {α : Type*} [Field α] [LinearOrder α] [IsStrictOrderedRing α]

/-- u^(2^r) = 2 with u > 0 forces u > 1 -/
theorem one_lt_of_pow_eq_two (u : α) (hu : 0 < u) (r : Nat) (hur : u ^ (2 ^ r) = 2) : 1 < u := by
  by_contra h
  have hle : u ≤ 1 := not_lt.mp h
  have : u ^ (2 ^ r) ≤ 1 := pow_le_one₀ (le_of_lt hu) hle
  rw [hur] at this; linarith

/-- from the N-th powers back to the bases: 2^F ≤ y^N < 2^(F+1) with 2 = u^N gives u^F ≤ y < u^(F+1) -/
theorem root_bounds (u : α) (hu : 0 < u) (r : Nat) (hur : u ^ (2 ^ r) = 2) (y : α) (hy : 0 < y) (F : Int)
    (h1 : (2 : α) ^ F ≤ y ^ (2 ^ r)) (h2 : y ^ (2 ^ r) < (2 : α) ^ (F + 1)) :
    u ^ F ≤ y ∧ y < u ^ (F + 1) := by
  have hN : 2 ^ r ≠ 0 := Nat.pos_iff_ne_zero.mp (Nat.two_pow_pos r)
  have e1 : ∀ G : Int, (u ^ G) ^ (2 ^ r) = (2 : α) ^ G := by
    intro G
    rw [← zpow_natCast (u ^ G), ← zpow_mul, mul_comm, zpow_mul, zpow_natCast, hur]
  constructor
  · have : (u ^ F) ^ (2 ^ r) ≤ y ^ (2 ^ r) := by rw [e1]; exact h1
    exact (pow_le_pow_iff_left₀ (by positivity) (le_of_lt hy) hN).mp this
  · have : y ^ (2 ^ r) < (u ^ (F + 1)) ^ (2 ^ r) := by rw [e1]; exact h2
    exact (pow_lt_pow_iff_left₀ (le_of_lt hy) (by positivity) hN).mp this

/-- small-w shortcut: 0 < x < 1/(2N) ⇒ 1 < (1+x) and (1+x)^N < 2, 1/2 < (1-x)^N and (1-x) < 1 -/
theorem small_bounds (x : α) (N : Nat) (hN : 1 ≤ N) (hx0 : 0 < x) (hx : x * (2 * (N : α)) < 1) :
    (1 + x) ^ N < 2 ∧ (1 : α) / 2 < (1 - x) ^ N := by
  have hNpos : (0 : α) < (N : α) := Nat.cast_pos.mpr (by omega)
  have hN1 : (1 : α) ≤ (N : α) := by exact_mod_cast hN
  have hxN : (N : α) * x < 1 / 2 := by nlinarith
  have hx1 : x < 1 / 2 := by nlinarith
  have hb := one_add_mul_le_pow (R := α) (a := -x) (by linarith) N
  have hb' : 1 - (N : α) * x ≤ (1 - x) ^ N := by
    have : 1 + (N : α) * (-x) = 1 - (N : α) * x := by ring
    rw [this] at hb; simpa [sub_eq_add_neg] using hb
  refine ⟨?_, by linarith⟩
  -- (1+x)^N (1-x)^N = (1-x²)^N ≤ 1
  have hprod : (1 + x) ^ N * (1 - x) ^ N ≤ 1 := by
    rw [← mul_pow]
    apply pow_le_one₀
    · nlinarith
    · nlinarith
  have hpos : (0 : α) < (1 - x) ^ N := by linarith
  have : (1 + x) ^ N ≤ 1 / (1 - x) ^ N := by
    rw [le_div_iff₀ hpos]; exact hprod
  have h2 : 1 / (1 - x) ^ N < 2 := by
    rw [div_lt_iff₀ hpos]; linarith
  linarith

/-- the real magnitude the spec talks about: u^Ea + u^Eb, or |u^Ea - u^Eb| -/
def realMag (u : α) (Ea Eb : Int) (sub : Bool) : α :=
  if sub then |u ^ Ea - u ^ Eb| else u ^ Ea + u ^ Eb

/-- factor out the larger term: the magnitude is u^hiE · (1 ± (u^d)⁻¹) -/
theorem realMag_factor (u : α) (hu1 : 1 < u) (Ea Eb : Int) (sub : Bool) :
    realMag u Ea Eb sub =
      u ^ (max Ea Eb) * (if sub then 1 - (u ^ ((max Ea Eb - min Ea Eb).toNat))⁻¹
                                else 1 + (u ^ ((max Ea Eb - min Ea Eb).toNat))⁻¹) := by
  have hu : 0 < u := by linarith
  have hlow : ∀ hi lo : Int, lo ≤ hi → u ^ lo = u ^ hi * (u ^ ((hi - lo).toNat))⁻¹ := by
    intro hi lo hle
    obtain ⟨d, hd⟩ : ∃ d : Nat, hi - lo = d := ⟨(hi - lo).toNat, by omega⟩
    rw [hd, Int.toNat_natCast, ← zpow_natCast, ← zpow_neg, ← zpow_add₀ (ne_of_gt hu)]
    congr 1; omega
  have hmono : ∀ hi lo : Int, lo ≤ hi → u ^ lo ≤ u ^ hi := fun hi lo h => zpow_le_zpow_right₀ (le_of_lt hu1) h
  unfold realMag
  rcases le_total Ea Eb with h | h
  · rw [max_eq_right h, min_eq_left h, hlow Eb Ea h]
    cases sub
    · simp only [Bool.false_eq_true, if_false]; ring
    · simp only [if_true]
      have hx : (u ^ ((Eb - Ea).toNat))⁻¹ ≤ 1 := by
        apply inv_le_one_of_one_le₀
        exact one_le_pow₀ (le_of_lt hu1)
      have hpos : (0 : α) < u ^ Eb := by positivity
      rw [show u ^ Eb * (u ^ ((Eb - Ea).toNat))⁻¹ - u ^ Eb = -(u ^ Eb * (1 - (u ^ ((Eb - Ea).toNat))⁻¹)) by ring,
        abs_neg, abs_of_nonneg (mul_nonneg (le_of_lt hpos) (by linarith))]
  · rw [max_eq_left h, min_eq_right h, hlow Ea Eb h]
    cases sub
    · simp only [Bool.false_eq_true, if_false]; ring
    · simp only [if_true]
      have hx : (u ^ ((Ea - Eb).toNat))⁻¹ ≤ 1 := by
        apply inv_le_one_of_one_le₀
        exact one_le_pow₀ (le_of_lt hu1)
      have hpos : (0 : α) < u ^ Ea := by positivity
      rw [show u ^ Ea - u ^ Ea * (u ^ ((Ea - Eb).toNat))⁻¹ = u ^ Ea * (1 - (u ^ ((Ea - Eb).toNat))⁻¹) by ring,
        abs_of_nonneg (mul_nonneg (le_of_lt hpos) (by linarith))]

/-- y in [u^F, u^(F+1)) scaled by u^hiE -/
theorem scale_bounds (u : α) (hu : 0 < u) (hiE F : Int) (y : α) (h : u ^ F ≤ y ∧ y < u ^ (F + 1)) :
    u ^ (hiE + F) ≤ u ^ hiE * y ∧ u ^ hiE * y < u ^ (hiE + F + 1) := by
  have hp : (0 : α) < u ^ hiE := by positivity
  rw [zpow_add₀ (ne_of_gt hu), show hiE + F + 1 = hiE + (F + 1) by ring, zpow_add₀ (ne_of_gt hu)]
  exact ⟨mul_le_mul_of_nonneg_left h.1 (le_of_lt hp), mul_lt_mul_of_pos_left h.2 hp⟩

/-- SOUNDNESS of `magOf`: with u = 2^(1/2^r) (u > 0, u^(2^r) = 2) the answer locates the REAL magnitude
    u^Ea + u^Eb resp. |u^Ea - u^Eb| on the lattice {u^G}. -/
theorem magOf_sound (u : α) (hu : 0 < u) (r : Nat) (hur : u ^ (2 ^ r) = 2) (Ea Eb : Int) (sub : Bool) :
    match magOf r Ea Eb sub with
    | .zero => realMag u Ea Eb sub = 0
    | .at G => realMag u Ea Eb sub = u ^ G
    | .between G => u ^ G ≤ realMag u Ea Eb sub ∧ realMag u Ea Eb sub < u ^ (G + 1)
    | .undecided => True := by
  have hu1 := one_lt_of_pow_eq_two u hu r hur
  have hN1 : 1 ≤ 2 ^ r := Nat.two_pow_pos r
  have hPp : (0 : α) < (2 : α) ^ P := two_pow_pos' P
  rw [realMag_factor u hu1 Ea Eb sub]
  unfold magOf
  simp only
  generalize hhi : max Ea Eb = hiE
  generalize hd : (hiE - min Ea Eb).toNat = d
  have hxpos : (0 : α) < (u ^ d)⁻¹ := by positivity
  have hpE : (0 : α) < u ^ hiE := by positivity
  have hNz : u ^ (((2 ^ r : Nat)) : Int) = 2 := by rw [zpow_natCast]; exact hur
  cases sub
  · -- addition
    simp only [Bool.not_false, if_true, Bool.false_eq_true, if_false]
    by_cases hd0 : d = 0
    · simp only [hd0, if_true, pow_zero, inv_one]
      rw [zpow_add₀ (ne_of_gt hu), hNz]; ring
    · simp only [hd0, if_false]
      cases hw : pow2Neg r d with
      | none => trivial
      | some w =>
        simp only
        obtain ⟨w1, w2⟩ := pow2Neg_ok u hu r d hur w hw
        by_cases hs : w.hi * (2 * 2 ^ r) < one
        · -- shortcut: 0 < x < 1/(2N)
          simp only [hs, if_true]
          have hxs : (u ^ d)⁻¹ * (2 * ((2 ^ r : Nat) : α)) < 1 := by
            have h1 : ((w.hi * (2 * 2 ^ r) : Nat) : α) < ((one : Nat) : α) := Nat.cast_lt.mpr hs
            have h2 : ((one : Nat) : α) = (2 : α) ^ P := by unfold one; push_cast; rfl
            rw [h2] at h1; push_cast at h1
            have h3 : (u ^ d)⁻¹ * (2 : α) ^ P ≤ (w.hi : α) := by rwa [le_div_iff₀ hPp] at w2
            push_cast
            have hk : (0 : α) < 2 * (2 : α) ^ r := by positivity
            nlinarith
          obtain ⟨b1, _⟩ := small_bounds ((u ^ d)⁻¹) (2 ^ r) hN1 hxpos hxs
          have hy : (0 : α) < 1 + (u ^ d)⁻¹ := by linarith
          have hb := root_bounds u hu r hur (1 + (u ^ d)⁻¹) hy 0
            (by simp; exact one_le_pow₀ (by linarith)) (by simpa using b1)
          have := scale_bounds u hu hiE 0 _ hb
          simpa using this
        · simp only [hs, if_false]
          cases hf : floorLog r ⟨one + w.lo, one + w.hi⟩ with
          | none => trivial
          | some F =>
            simp only
            have hy : (0 : α) < 1 + (u ^ d)⁻¹ := by linarith
            have hc1 : (((⟨one + w.lo, one + w.hi⟩ : Ival).lo : Nat) : α) / (2 : α) ^ P ≤ 1 + (u ^ d)⁻¹ := by
              simp only; rw [Nat.cast_add, add_div, one_cast]; linarith
            have hc2 : 1 + (u ^ d)⁻¹ ≤ (((⟨one + w.lo, one + w.hi⟩ : Ival).hi : Nat) : α) / (2 : α) ^ P := by
              simp only; rw [Nat.cast_add, add_div, one_cast]; linarith
            obtain ⟨f1, f2⟩ := floorLog_sound r _ F hf (1 + (u ^ d)⁻¹) hc1 hc2
            exact scale_bounds u hu hiE F _ (root_bounds u hu r hur _ hy F f1 f2)
  · -- subtraction
    simp only [Bool.not_true, Bool.false_eq_true, if_false, if_true]
    by_cases hd0 : d = 0
    · simp only [hd0, if_true, pow_zero, inv_one]; ring
    · simp only [hd0, if_false]
      by_cases hdN : d = 2 ^ r
      · simp only [hdN, if_true]
        rw [hur, zpow_sub₀ (ne_of_gt hu), hNz]; ring
      · simp only [hdN, if_false]
        cases hw : pow2Neg r d with
        | none => trivial
        | some w =>
          simp only
          obtain ⟨w1, w2⟩ := pow2Neg_ok u hu r d hur w hw
          by_cases hs : w.hi * (2 * 2 ^ r) < one
          · simp only [hs, if_true]
            have hxs : (u ^ d)⁻¹ * (2 * ((2 ^ r : Nat) : α)) < 1 := by
              have h1 : ((w.hi * (2 * 2 ^ r) : Nat) : α) < ((one : Nat) : α) := Nat.cast_lt.mpr hs
              have h2 : ((one : Nat) : α) = (2 : α) ^ P := by unfold one; push_cast; rfl
              rw [h2] at h1; push_cast at h1
              have h3 : (u ^ d)⁻¹ * (2 : α) ^ P ≤ (w.hi : α) := by rwa [le_div_iff₀ hPp] at w2
              push_cast
              have hk : (0 : α) < 2 * (2 : α) ^ r := by positivity
              nlinarith
            obtain ⟨_, b2⟩ := small_bounds ((u ^ d)⁻¹) (2 ^ r) hN1 hxpos hxs
            have hx1 : (u ^ d)⁻¹ < 1 := by
              have hNc : (1 : α) ≤ ((2 ^ r : Nat) : α) := by exact_mod_cast hN1
              nlinarith
            have hy : (0 : α) < 1 - (u ^ d)⁻¹ := by linarith
            have hb := root_bounds u hu r hur (1 - (u ^ d)⁻¹) hy (-1)
              (by rw [zpow_neg, zpow_one]; rw [one_div] at b2; exact le_of_lt b2)
              (by simp; exact pow_lt_one₀ (le_of_lt hy) (by linarith) (by omega))
            have := scale_bounds u hu hiE (-1) _ hb
            simpa [sub_eq_add_neg] using this
          · simp only [hs, if_false]
            by_cases hge : w.hi ≥ one
            · simp only [hge, if_true]
            · simp only [hge, if_false]
              cases hf : floorLog r ⟨one - w.hi, one - w.lo⟩ with
              | none => trivial
              | some F =>
                simp only
                have hwlo : w.lo ≤ w.hi := by
                  have : (w.lo : α) / (2 : α) ^ P ≤ (w.hi : α) / (2 : α) ^ P := le_trans w1 w2
                  rw [div_le_div_iff_of_pos_right hPp] at this
                  exact_mod_cast this
                have hhi' : w.hi < one := by omega
                have hx1 : (u ^ d)⁻¹ < 1 := by
                  have : (w.hi : α) / (2 : α) ^ P < 1 := by
                    rw [div_lt_one hPp]
                    have h1 : ((w.hi : Nat) : α) < ((one : Nat) : α) := Nat.cast_lt.mpr hhi'
                    have h2 : ((one : Nat) : α) = (2 : α) ^ P := by unfold one; push_cast; rfl
                    rwa [h2] at h1
                  linarith
                have hy : (0 : α) < 1 - (u ^ d)⁻¹ := by linarith
                have hc1 : (((⟨one - w.hi, one - w.lo⟩ : Ival).lo : Nat) : α) / (2 : α) ^ P ≤ 1 - (u ^ d)⁻¹ := by
                  simp only; rw [Nat.cast_sub (by omega), sub_div, one_cast]; linarith
                have hc2 : 1 - (u ^ d)⁻¹ ≤ (((⟨one - w.hi, one - w.lo⟩ : Ival).hi : Nat) : α) / (2 : α) ^ P := by
                  simp only; rw [Nat.cast_sub (by omega), sub_div, one_cast]; linarith
                obtain ⟨f1, f2⟩ := floorLog_sound r _ F hf (1 - (u ^ d)⁻¹) hc1 hc2
                exact scale_bounds u hu hiE F _ (root_bounds u hu r hur _ hy F f1 f2)

end UVerif.LnsSound
