/-
  UVerifProofs.Lemmas.LnsOps — operator-level helper lemmas for lns `*=` / `/=` (decode of numeric and special operands,
  the Wrapping tail, two's-complement readings add modulo 2^N).
-/
import UVerif.Spec.Lns
import UVerif.Model.Lns
import UVerifProofs.Lemmas.LnsBits
import UVerifProofs.Lemmas.LnsBlocks

set_option linter.unusedSimpArgs false
set_option linter.unusedVariables false
set_option linter.unnecessarySeqFocus false

namespace UVerif.LnsLemmas
open UVerif UVerif.Lns UVerif.Lns.Model

theorem setNaN_eq {n : Nat} (hn : 2 ≤ n) : setNaN n = 2 ^ (n - 1) + 2 ^ (n - 2) := by
  unfold setNaN setBit
  have h1 : (0 : Nat).testBit (n - 1) = false := by simp
  have hlt : 2 ^ (n - 2) < 2 ^ (n - 1) := Nat.pow_lt_pow_right (by omega) (by omega)
  have h2 : (0 + 2 ^ (n - 1)).testBit (n - 2) = false := by
    rw [Nat.zero_add, Nat.testBit_two_pow]; simp; omega
  simp only [if_true, h1, Bool.false_eq_true, if_false, h2]
  omega

/-- a numeric exponent field is strictly above the special pattern's value -/
theorem exp_range_strict {n x : Nat} (hn : 2 ≤ n) (hx : x < 2 ^ (n - 1)) (hne : x ≠ 2 ^ (n - 2)) :
    -((2 ^ (n - 2) : Nat) : Int) < toSigned (n - 1) x := by
  obtain ⟨p, hp, e2, e1, e0, e3⟩ := pow_n_var hn
  rw [toSigned_eq (by omega) hx, show n - 1 - 1 = n - 2 by omega]
  rw [e2] at hne ⊢; rw [e1] at hx ⊢
  push_cast
  split_ifs <;> omega

/-- numeric operand: the fields `decode` reads -/
theorem decode_numeric {n a : Nat} (hn : 2 ≤ n) (ha : a < 2 ^ n)
    (hz : a ≠ 2 ^ (n - 2)) (hnan : a ≠ 2 ^ (n - 1) + 2 ^ (n - 2)) :
    a % 2 ^ (n - 1) < 2 ^ (n - 1) ∧ a % 2 ^ (n - 1) ≠ 2 ^ (n - 2) ∧
    decode n a = Val.num (a.testBit (n - 1)) (toSigned (n - 1) (a % 2 ^ (n - 1))) := by
  obtain ⟨p, hp, e2, e1, e0, e3⟩ := pow_n_var hn
  have hm : a % 2 ^ (n - 1) < 2 ^ (n - 1) := Nat.mod_lt _ (Nat.two_pow_pos _)
  have m3 : a % 2 ^ (n - 1) = if a < 2 ^ (n - 1) then a else a - 2 ^ (n - 1) := by
    apply mod_lt2; rw [← two_pow_pred (by omega)]; exact ha
  have hne : a % 2 ^ (n - 1) ≠ 2 ^ (n - 2) := by
    rw [m3]; rw [e2] at hz hnan ⊢; rw [e1] at hnan ⊢; rw [e0] at ha
    split_ifs <;> omega
  refine ⟨hm, hne, ?_⟩
  rw [decode_eq hn ha, if_neg hne]
  have : a.testBit (n - 1) = decide (2 ^ (n - 1) ≤ a) :=
    testBit_top (by rwa [show n - 1 + 1 = n by omega])
  rw [this]

theorem decode_zeroEnc {n : Nat} (hn : 2 ≤ n) : decode n (2 ^ (n - 2)) = Val.zero := by
  have := (decode_special hn false).2
  simpa using this

theorem decode_nanEnc {n : Nat} (hn : 2 ≤ n) : decode n (2 ^ (n - 1) + 2 ^ (n - 2)) = Val.nan := by
  have := (decode_special hn true).2
  rw [Nat.add_comm]; simpa using this

theorem nanEnc_lt {n : Nat} (hn : 2 ≤ n) : 2 ^ (n - 1) + 2 ^ (n - 2) < 2 ^ n := by
  obtain ⟨p, hp, e2, e1, e0, e3⟩ := pow_n_var hn
  rw [e2, e1, e0]; omega

theorem zeroEnc_lt {n : Nat} (hn : 2 ≤ n) : 2 ^ (n - 2) < 2 ^ n := by
  obtain ⟨p, hp, e2, e1, e0, e3⟩ := pow_n_var hn
  rw [e2, e0]; omega

/-- two's-complement readings add modulo 2^N -/
theorem ofSigned_add {N x y : Nat} (hN : 1 ≤ N) (hx : x < 2 ^ N) (hy : y < 2 ^ N) :
    ofSigned N (toSigned N x + toSigned N y) = (x + y) % 2 ^ N := by
  unfold ofSigned
  have hx' : ∃ cx : Int, toSigned N x = (x : Int) - ((2 ^ N : Nat) : Int) * cx := by
    rw [toSigned_eq hN hx]; split
    · exact ⟨0, by simp⟩
    · exact ⟨1, by simp⟩
  have hy' : ∃ cy : Int, toSigned N y = (y : Int) - ((2 ^ N : Nat) : Int) * cy := by
    rw [toSigned_eq hN hy]; split
    · exact ⟨0, by simp⟩
    · exact ⟨1, by simp⟩
  obtain ⟨cx, hcx⟩ := hx'
  obtain ⟨cy, hcy⟩ := hy'
  rw [hcx, hcy]
  have : (x : Int) - ((2 ^ N : Nat) : Int) * cx + ((y : Int) - ((2 ^ N : Nat) : Int) * cy)
      = ((x + y : Nat) : Int) + ((2 ^ N : Nat) : Int) * (-(cx + cy)) := by push_cast; ring
  rw [this, Int.add_mul_emod_self_left, ← Int.natCast_mod, Int.toNat_natCast]

theorem ofSigned_sub {N x y : Nat} (hN : 1 ≤ N) (hx : x < 2 ^ N) (hy : y < 2 ^ N) :
    ofSigned N (toSigned N x - toSigned N y) = (x + (2 ^ N - y)) % 2 ^ N := by
  unfold ofSigned
  have hx' : ∃ cx : Int, toSigned N x = (x : Int) - ((2 ^ N : Nat) : Int) * cx := by
    rw [toSigned_eq hN hx]; split
    · exact ⟨0, by simp⟩
    · exact ⟨1, by simp⟩
  have hy' : ∃ cy : Int, toSigned N y = (y : Int) - ((2 ^ N : Nat) : Int) * cy := by
    rw [toSigned_eq hN hy]; split
    · exact ⟨0, by simp⟩
    · exact ⟨1, by simp⟩
  obtain ⟨cx, hcx⟩ := hx'
  obtain ⟨cy, hcy⟩ := hy'
  rw [hcx, hcy]
  have : (x : Int) - ((2 ^ N : Nat) : Int) * cx - ((y : Int) - ((2 ^ N : Nat) : Int) * cy)
      = ((x + (2 ^ N - y) : Nat) : Int) + ((2 ^ N : Nat) : Int) * (cy - cx - 1) := by
    rw [Nat.cast_add, Nat.cast_sub (by omega)]; ring
  rw [this, Int.add_mul_emod_self_left, ← Int.natCast_mod, Int.toNat_natCast]

/-- the Wrapping tail: `_block.assign(lexp); setsign(negative)` -/
theorem wrapTail {n v : Nat} (hn : 2 ≤ n) (hv : v < 2 ^ (n - 1)) (negative : Bool) :
    let r := setSign n (assign (n - 1) n v) negative
    r < 2 ^ n ∧ r.testBit (n - 1) = negative ∧ r % 2 ^ (n - 1) = v := by
  intro r
  obtain ⟨p, hp, e2, e1, e0, e3⟩ := pow_n_var hn
  have hX := sext_toSigned (t := n) (show 1 ≤ n - 1 by omega) (by omega) hv
  have hs := sext_eq (t := n) (show 1 ≤ n - 1 by omega) hv
  have hr : r = (sext (n - 1) n v) % 2 ^ (n - 1) + (if negative then 2 ^ (n - 1) else 0) := by
    show setSign n (assign (n - 1) n v) negative = _
    rw [assign_widen (by omega) hv, setSign_eq hn hX.1]
  have hm : (sext (n - 1) n v) % 2 ^ (n - 1) = v := by
    rw [hs]; split
    · rw [show 2 ^ n - 2 ^ (n - 1) = 2 ^ (n - 1) by omega, Nat.add_mod_right]; exact Nat.mod_eq_of_lt hv
    · exact Nat.mod_eq_of_lt hv
  rw [hm] at hr
  have hlt : r < 2 ^ n := by rw [hr]; cases negative <;> simp <;> omega
  refine ⟨hlt, ?_, ?_⟩
  · rw [testBit_top (by rwa [show n - 1 + 1 = n by omega]), hr]
    cases negative <;> simp <;> omega
  · rw [hr]; cases negative
    · simpa using Nat.mod_eq_of_lt hv
    · simp [Nat.mod_eq_of_lt hv]

/-- what the Wrapping `operator/=` computes on numeric operands: the exponent fields subtracted modulo 2^(nbits-1)
    (`lexp -= rexp`, i.e. `lexp += twosComplement(rexp)`) -/
theorem div_wrap_numeric (c : Cfg) (hn : 2 ≤ c.nbits) (hw : 1 ≤ c.w) (hs : c.wrap = true) (a b : Nat)
    (ha : a < 2 ^ c.nbits) (hb : b < 2 ^ c.nbits)
    (h1 : a ≠ 2 ^ (c.nbits - 1) + 2 ^ (c.nbits - 2)) (h2 : b ≠ 2 ^ (c.nbits - 1) + 2 ^ (c.nbits - 2))
    (h3 : a ≠ 2 ^ (c.nbits - 2)) (h4 : b ≠ 2 ^ (c.nbits - 2)) :
    div c a b < 2 ^ c.nbits ∧
    (div c a b).testBit (c.nbits - 1) = (a.testBit (c.nbits - 1) != b.testBit (c.nbits - 1)) ∧
    div c a b % 2 ^ (c.nbits - 1) =
      (a % 2 ^ (c.nbits - 1) + twosComp (c.nbits - 1) (b % 2 ^ (c.nbits - 1))) % 2 ^ (c.nbits - 1) := by
  unfold div
  simp only [isNaN_eq hn hw ha, isNaN_eq hn hw hb, isZero_eq hn hw ha, isZero_eq hn hw hb, sign_eq hw, hs,
    h1, h2, h3, h4, decide_false, Bool.false_eq_true, if_false, Bool.not_true]
  rw [assign_narrow (show ¬ c.nbits - 1 > c.nbits by omega), assign_narrow (show ¬ c.nbits - 1 > c.nbits by omega)]
  exact wrapTail hn (Nat.mod_lt _ (Nat.two_pow_pos _)) _

/-- adding the two's complement is subtracting, modulo 2^N -/
theorem add_twosComp_mod {N x y : Nat} (hy : y < 2 ^ N) :
    (x + twosComp N y) % 2 ^ N = (x + (2 ^ N - y)) % 2 ^ N := by
  rw [twosComp_eq hy]
  split
  · rename_i h0; subst h0; simp
  · rfl

theorem toSigned_inj {N x y : Nat} (hN : 1 ≤ N) (hx : x < 2 ^ N) (hy : y < 2 ^ N) :
    toSigned N x = toSigned N y ↔ x = y := by
  rw [toSigned_eq hN hx, toSigned_eq hN hy]
  rw [two_pow_pred hN] at hx hy ⊢
  generalize 2 ^ (N - 1) = q at *
  push_cast
  constructor
  · intro h; split_ifs at h <;> omega
  · intro h; rw [h]

/-- signed reading of the exponent field of any non-NaN encoding, with zero read as "below every number" -/
theorem field_of (n a : Nat) (hn : 2 ≤ n) (ha : a < 2 ^ n) (hnan : a ≠ 2 ^ (n - 1) + 2 ^ (n - 2)) :
    a % 2 ^ (n - 1) < 2 ^ (n - 1) ∧
    (a = 2 ^ (n - 2) → a % 2 ^ (n - 1) = 2 ^ (n - 2) ∧ a.testBit (n - 1) = false ∧
        toSigned (n - 1) (a % 2 ^ (n - 1)) = -((2 ^ (n - 2) : Nat) : Int)) := by
  refine ⟨Nat.mod_lt _ (Nat.two_pow_pos _), ?_⟩
  intro hz
  obtain ⟨p, hp, e2, e1, e0, e3⟩ := pow_n_var hn
  have hm : a % 2 ^ (n - 1) = 2 ^ (n - 2) := by rw [hz]; exact Nat.mod_eq_of_lt (by omega)
  refine ⟨hm, ?_, ?_⟩
  · rw [hz]; exact Nat.testBit_lt_two_pow (by omega)
  · rw [hm, toSigned_eq (by omega) (by omega), show n - 1 - 1 = n - 2 by omega, if_neg (by omega), e1, e2]
    push_cast; omega


/-- an encoding is `sign·2^(nbits-1) + field` -/
theorem enc_split {n a : Nat} (hn : 2 ≤ n) (ha : a < 2 ^ n) :
    a = (if a.testBit (n - 1) then 2 ^ (n - 1) else 0) + a % 2 ^ (n - 1) := by
  have ht : a.testBit (n - 1) = decide (2 ^ (n - 1) ≤ a) := testBit_top (by rwa [show n - 1 + 1 = n by omega])
  have m3 : a % 2 ^ (n - 1) = if a < 2 ^ (n - 1) then a else a - 2 ^ (n - 1) := by
    apply mod_lt2; rw [← two_pow_pred (by omega)]; exact ha
  rw [ht, m3]
  have h2 : 2 ^ n = 2 * 2 ^ (n - 1) := two_pow_pred (by omega)
  by_cases h : 2 ^ (n - 1) ≤ a
  · simp only [h, decide_true, if_true, if_neg (show ¬ a < 2 ^ (n - 1) by omega)]; omega
  · simp only [h, decide_false, Bool.false_eq_true, if_false, if_pos (show a < 2 ^ (n - 1) by omega)]; omega

/-- `decode` is injective on canonical encodings -/
theorem decode_inj {n a b : Nat} (hn : 2 ≤ n) (ha : a < 2 ^ n) (hb : b < 2 ^ n) (h : decode n a = decode n b) : a = b := by
  by_cases a1 : a = 2 ^ (n - 1) + 2 ^ (n - 2)
  · by_cases b1 : b = 2 ^ (n - 1) + 2 ^ (n - 2)
    · rw [a1, b1]
    · exfalso
      rw [a1, decode_nanEnc hn] at h
      by_cases b3 : b = 2 ^ (n - 2)
      · rw [b3, decode_zeroEnc hn] at h; cases h
      · obtain ⟨_, _, hd⟩ := decode_numeric hn hb b3 b1; rw [hd] at h; cases h
  by_cases a3 : a = 2 ^ (n - 2)
  · rw [a3, decode_zeroEnc hn] at h
    by_cases b1 : b = 2 ^ (n - 1) + 2 ^ (n - 2)
    · rw [b1, decode_nanEnc hn] at h; cases h
    by_cases b3 : b = 2 ^ (n - 2)
    · rw [a3, b3]
    · obtain ⟨_, _, hd⟩ := decode_numeric hn hb b3 b1; rw [hd] at h; cases h
  obtain ⟨la1, la2, hda⟩ := decode_numeric hn ha a3 a1
  rw [hda] at h
  by_cases b1 : b = 2 ^ (n - 1) + 2 ^ (n - 2)
  · rw [b1, decode_nanEnc hn] at h; cases h
  by_cases b3 : b = 2 ^ (n - 2)
  · rw [b3, decode_zeroEnc hn] at h; cases h
  obtain ⟨lb1, lb2, hdb⟩ := decode_numeric hn hb b3 b1
  rw [hdb] at h
  injection h with hs he
  have hf := (toSigned_inj (show 1 ≤ n - 1 by omega) la1 lb1).mp he
  rw [enc_split hn ha, enc_split hn hb, hs, hf]


end UVerif.LnsLemmas
