/-
  UVerifProofs.Lemmas.LnsRound — the guard/round/sticky rounding of lns::convert_ieee754 is round-half-to-even:
  `roundGRS x sr = rneShr x sr` (naturals) and `rne (x / 2^sr) = rneShr x sr` (the rational reading).
-/
import UVerif.Basic
import UVerif.Model.Lns
import Mathlib.Tactic.Linarith
import Mathlib.Tactic.Ring
import Mathlib.Tactic.Positivity
import Mathlib.Tactic.SplitIfs
import Mathlib.Tactic.FieldSimp
import Mathlib.Algebra.Order.Floor.Ring
import Mathlib.Data.Rat.Floor

set_option linter.unusedSimpArgs false
set_option linter.unusedVariables false
set_option linter.unnecessarySeqFocus false

namespace UVerif.LnsLemmas
open UVerif

theorem testBit_eq_div (x i : Nat) : x.testBit i = decide (x / 2 ^ i % 2 = 1) := Nat.testBit_eq_decide_div_mod_eq

/-- split x at bit k: x = (x / 2^(k+1))·2^(k+1) + bit_k·2^k + x % 2^k -/
theorem split_bit (x k : Nat) : x % 2 ^ (k + 1) = (x / 2 ^ k % 2) * 2 ^ k + x % 2 ^ k := by
  rw [Nat.mod_pow_succ]; ring

theorem roundGRS_eq_rneShr (x sr : Nat) (hsr : 1 ≤ sr) : Lns.Model.roundGRS x sr = rneShr x sr := by
  obtain ⟨k, rfl⟩ : ∃ k, sr = k + 1 := ⟨sr - 1, by omega⟩
  unfold Lns.Model.roundGRS rneShr
  simp only [Nat.add_sub_cancel]
  have hr := split_bit x k
  have hg := testBit_eq_div x k
  have hl : (x >>> (k + 1)).testBit 0 = decide ((x >>> (k + 1)) % 2 = 1) := by
    rw [Nat.testBit_zero]
  have hlow : x % 2 ^ k < 2 ^ k := Nat.mod_lt _ (Nat.two_pow_pos _)
  have hP : 2 ^ (k + 1) = 2 * 2 ^ k := by rw [Nat.pow_succ]; ring
  -- round || sticky  ⇔  the bits below the guard are not all zero
  have hrs : ((decide (k + 1 ≥ 2) && x.testBit (k + 1 - 2)) || (decide (k + 1 > 1) && x % 2 ^ (k + 1 - 2) != 0)) =
      decide (x % 2 ^ k ≠ 0) := by
    rcases k with _ | j
    · simp [Nat.mod_one]
    · have h2 := split_bit x j
      have hj : x % 2 ^ j < 2 ^ j := Nat.mod_lt _ (Nat.two_pow_pos _)
      have hb := testBit_eq_div x j
      simp only [show j + 1 + 1 ≥ 2 by omega, show j + 1 + 1 > 1 by omega, decide_true, Bool.true_and,
        show j + 1 + 1 - 2 = j by omega]
      rw [hb, h2, Bool.eq_iff_iff]
      simp only [Bool.or_eq_true, decide_eq_true_eq, bne_iff_ne, ne_eq]
      have hb2 : x / 2 ^ j % 2 = 0 ∨ x / 2 ^ j % 2 = 1 := Nat.mod_two_eq_zero_or_one _
      have hpos : 0 < 2 ^ j := Nat.two_pow_pos _
      rcases hb2 with h | h <;> simp [h]
  -- the not-round-not-sticky test
  have hnrs : ((!(decide (k + 1 ≥ 2) && x.testBit (k + 1 - 2))) && !(decide (k + 1 > 1) && x % 2 ^ (k + 1 - 2) != 0)) =
      decide (x % 2 ^ k = 0) := by
    have := hrs
    rw [← Bool.not_or, this]; simp
  rw [hrs, hnrs, hg, hl, hr, hP]
  have hb2 : x / 2 ^ k % 2 = 0 ∨ x / 2 ^ k % 2 = 1 := Nat.mod_two_eq_zero_or_one _
  have hq2 : (x >>> (k + 1)) % 2 = 0 ∨ (x >>> (k + 1)) % 2 = 1 := Nat.mod_two_eq_zero_or_one _
  generalize x >>> (k + 1) = q at *
  generalize x % 2 ^ k = lo at *
  generalize 2 ^ k = p at *
  have hp : 0 < p := by omega
  rcases hb2 with h | h <;> rcases hq2 with h' | h' <;> simp [h, h'] <;> (try split_ifs) <;> omega


/-- `rneShr x k` is round-half-to-even of the rational x / 2^k -/
theorem rne_div_two_pow (x k : Nat) : rne ((x : Rat) / ((2 ^ k : Nat) : Rat)) = (rneShr x k : Int) := by
  unfold rne rneShr
  have hPpos : (0 : Rat) < ((2 ^ k : Nat) : Rat) := by exact_mod_cast Nat.two_pow_pos k
  have hfl : ((x : Rat) / ((2 ^ k : Nat) : Rat)).floor = ((x / 2 ^ k : Nat) : Int) := by
    show ⌊(x : Rat) / ((2 ^ k : Nat) : Rat)⌋ = _
    rw [Rat.floor_natCast_div_natCast]; exact (Int.natCast_div x (2 ^ k)).symm
  have hsplit : (x : Rat) = ((x / 2 ^ k : Nat) : Rat) * ((2 ^ k : Nat) : Rat) + ((x % 2 ^ k : Nat) : Rat) := by
    have := Nat.div_add_mod x (2 ^ k)
    rw [Nat.mul_comm] at this
    have h2 : ((x / 2 ^ k * 2 ^ k + x % 2 ^ k : Nat) : Rat) = (x : Rat) := by rw [this]
    rw [← h2]; push_cast; ring
  have hlt : x % 2 ^ k < 2 ^ k := Nat.mod_lt _ (Nat.two_pow_pos _)
  generalize hPd : ((2 ^ k : Nat) : Rat) = P at *
  have hr : (x : Rat) / P - (((x / 2 ^ k : Nat) : Int) : Rat) = ((x % 2 ^ k : Nat) : Rat) / P := by
    rw [Int.cast_natCast]; nth_rewrite 1 [hsplit]; field_simp; ring
  simp only [hfl, hr, Nat.shiftRight_eq_div_pow]
  generalize x / 2 ^ k = q at *
  generalize hrd : x % 2 ^ k = r at *
  have hcast : ((2 * r : Nat) : Rat) = 2 * (r : Rat) := by push_cast; ring
  have c1 : ((r : Rat) / P < 1 / 2) ↔ 2 * r < 2 ^ k := by
    rw [div_lt_iff₀ hPpos]
    constructor
    · intro h
      have : ((2 * r : Nat) : Rat) < ((2 ^ k : Nat) : Rat) := by rw [hcast, hPd]; linarith
      exact_mod_cast this
    · intro h
      have : ((2 * r : Nat) : Rat) < ((2 ^ k : Nat) : Rat) := by exact_mod_cast h
      rw [hcast, hPd] at this; linarith
  have c2 : ((r : Rat) / P > 1 / 2) ↔ 2 * r > 2 ^ k := by
    rw [gt_iff_lt, lt_div_iff₀ hPpos]
    constructor
    · intro h
      have : ((2 ^ k : Nat) : Rat) < ((2 * r : Nat) : Rat) := by rw [hcast, hPd]; linarith
      exact_mod_cast this
    · intro h
      have : ((2 ^ k : Nat) : Rat) < ((2 * r : Nat) : Rat) := by exact_mod_cast h
      rw [hcast, hPd] at this; linarith
  simp only [c1, c2]
  split_ifs <;> first | rfl | omega | (push_cast; omega)

end UVerif.LnsLemmas
