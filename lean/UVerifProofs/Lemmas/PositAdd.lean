/-
  UVerifProofs.Lemmas.PositAdd — `module_add` / `module_subtract`: the (abits+1)-bit sum with its
  sticky LSB is the sticky image of the exact sum, hence rounds like the exact sum.
-/
import UVerifProofs.Lemmas.PositCuts

namespace UVerif.Posit

/-- sign factor -/
def sgn (b : Bool) : ℚ := if b then -1 else 1

theorem nearestB_transfer (n es : ℕ) (hn : 2 ≤ n) (σ : Bool) (X X' : ℚ) (hX : 0 < X) (hX' : 0 < X')
    (h : SameCuts n es X X') (r : ℕ) :
    nearestB n es (sgn σ * X) r = nearestB n es (sgn σ * X') r := by
  unfold nearestB sgn
  cases σ
  · simp only [Bool.false_eq_true, if_false, one_mul]
    rw [if_neg (ne_of_gt hX), if_neg (ne_of_gt hX'), if_pos hX, if_pos hX',
      nearestMagB_transfer n es hn X X' hX hX' h]
  · simp only [if_true]
    have h1 : (-1 : ℚ) * X < 0 := by linarith
    have h2 : (-1 : ℚ) * X' < 0 := by linarith
    rw [if_neg (ne_of_lt h1), if_neg (ne_of_lt h2), if_neg (not_lt.mpr (le_of_lt h1)),
      if_neg (not_lt.mpr (le_of_lt h2))]
    rw [show -(-1 * X) = X by ring, show -(-1 * X') = X' by ring,
      nearestMagB_transfer n es hn X X' hX hX' h]

/-- the part of `addCore` after the operands are aligned and ordered -/
def addTail (fb : ℕ) (sc : ℤ) (r1 r2 : ℕ) (r1s r2s : Bool) : Val :=
  let abits := fb + 4
  let differ := r1s != r2s
  let r2 := if differ then twosComp abits r2 else r2
  let full := r1 + r2
  let carry := full.testBit abits
  let sumv := full % 2 ^ (abits + 1)
  let shift : Int :=
    if carry then
      if r1s = r2s then -1
      else ((abits - (if sumv % 2 ^ abits = 0 then 0 else (sumv % 2 ^ abits).log2 + 1) : Nat) : Int)
    else 0
  if shift ≥ (abits : Int) then { fb := abits + 1, zero := true }
  else
    let hpos : Int := (abits : Int) - 1 - shift
    let sh : Nat := (1 + (abits : Int) - hpos).toNat
    let fr := (sumv <<< sh) % 2 ^ (abits + 1)
    { sign := r1s, scale := sc - shift, frac := fr, fb := abits + 1 }

theorem addCore_eq (fb : ℕ) (a b : Val) (s1 s2 sw : Bool) :
    addCore fb a b s1 s2 sw =
      addTail fb (max a.scale b.scale)
        (if sw then nshift fb b.frac (b.scale - max a.scale b.scale + 3)
          else nshift fb a.frac (a.scale - max a.scale b.scale + 3))
        (if sw then nshift fb a.frac (a.scale - max a.scale b.scale + 3)
          else nshift fb b.frac (b.scale - max a.scale b.scale + 3))
        (if sw then s2 else s1) (if sw then s1 else s2) := by
  unfold addCore addTail
  cases sw <;> cases s1 <;> cases s2 <;> rfl


/-- value of a normalised integer: d with msb at position h, shifted left so that the msb falls off
    an (fb+5)-bit fraction field -/
theorem norm_value (fb : ℕ) (sc : ℤ) (d h sh : ℕ) (σ : Bool) (hh : h + sh = fb + 5)
    (hd1 : 2 ^ h ≤ d) (hd2 : d < 2 ^ (h + 1)) :
    (Val.mk σ (sc + (h : ℤ) - ((fb : ℤ) + 3)) (d * 2 ^ sh - 2 ^ (fb + 5)) (fb + 5) false false).Fin ∧
    (Val.mk σ (sc + (h : ℤ) - ((fb : ℤ) + 3)) (d * 2 ^ sh - 2 ^ (fb + 5)) (fb + 5) false false).toRat
      = sgn σ * ((d : ℚ) * 2 ^ (sc - ((fb : ℤ) + 3))) := by
  have e1 : 2 ^ (fb + 5) = 2 ^ h * 2 ^ sh := by rw [← pow_add, hh]
  have hlo : 2 ^ (fb + 5) ≤ d * 2 ^ sh := by rw [e1]; exact Nat.mul_le_mul_right _ hd1
  have hhi : d * 2 ^ sh < 2 * 2 ^ (fb + 5) := by
    rw [e1, ← mul_assoc, ← pow_succ']
    exact Nat.mul_lt_mul_of_pos_right hd2 (Nat.two_pow_pos _)
  refine ⟨⟨rfl, rfl, ?_⟩, ?_⟩
  · show d * 2 ^ sh - 2 ^ (fb + 5) < 2 ^ (fb + 5)
    omega
  · rw [toRat_eq_tripleVal _ rfl]
    show tripleVal σ (sc + (h : ℤ) - ((fb : ℤ) + 3)) (fb + 5) (d * 2 ^ sh - 2 ^ (fb + 5)) = _
    unfold tripleVal valS sgn
    have hc : ((d * 2 ^ sh - 2 ^ (fb + 5) : ℕ) : ℚ) = (d : ℚ) * 2 ^ sh - 2 ^ (fb + 5) := by
      push_cast [Nat.cast_sub hlo]; ring
    have e2 : (2 : ℚ) ^ (sc + (h : ℤ) - ((fb : ℤ) + 3)) = 2 ^ (sc - ((fb : ℤ) + 3)) * 2 ^ h := by
      rw [show sc + (h : ℤ) - ((fb : ℤ) + 3) = (sc - ((fb : ℤ) + 3)) + (h : ℤ) by ring,
        zpow_add₀ (by norm_num), zpow_natCast]
    have e3 : (2 : ℚ) ^ (fb + 5) = 2 ^ h * 2 ^ sh := by exact_mod_cast e1
    rw [hc, e2, e3]
    have h1 : (0 : ℚ) < 2 ^ h := by positivity
    have h2 : (0 : ℚ) < 2 ^ sh := by positivity
    cases σ <;> simp <;> field_simp <;> ring

theorem testBit_top' (k a : ℕ) (ha : a < 2 ^ (k + 1)) : a.testBit k = decide (2 ^ k ≤ a) := by
  rcases Nat.eq_zero_or_pos k with rfl | hk
  · have : a = 0 ∨ a = 1 := by omega
    rcases this with rfl | rfl <;> simp
  · obtain ⟨N, rfl⟩ : ∃ N, k = N + 1 := ⟨k - 1, by omega⟩
    exact testBit_top N a ha

/-- same effective signs: the magnitudes are added -/
theorem addTail_same (fb : ℕ) (sc : ℤ) (r1 r2 : ℕ) (σ : Bool)
    (hlo : 2 ^ (fb + 3) ≤ r1 + r2) (hhi : r1 + r2 < 2 ^ (fb + 5)) :
    (addTail fb sc r1 r2 σ σ).Fin ∧
    (addTail fb sc r1 r2 σ σ).toRat = sgn σ * (((r1 + r2 : ℕ) : ℚ) * 2 ^ (sc - ((fb : ℤ) + 3))) := by
  have hp5 : 2 ^ (fb + 5) = 2 * 2 ^ (fb + 4) := by rw [pow_succ]; ring
  have hp4 : 2 ^ (fb + 4) = 2 * 2 ^ (fb + 3) := by rw [pow_succ]; ring
  have hcar := testBit_top' (fb + 4) (r1 + r2) hhi
  have hsum : (r1 + r2) % 2 ^ (fb + 4 + 1) = r1 + r2 := Nat.mod_eq_of_lt hhi
  by_cases hc : 2 ^ (fb + 4) ≤ r1 + r2
  · have hval : addTail fb sc r1 r2 σ σ =
        Val.mk σ (sc + ((fb + 4 : ℕ) : ℤ) - ((fb : ℤ) + 3)) ((r1 + r2) * 2 ^ 1 - 2 ^ (fb + 5)) (fb + 5)
          false false := by
      unfold addTail
      simp only [bne_self_eq_false, Bool.false_eq_true, if_false, hcar, hc, decide_true, if_true, hsum]
      rw [if_neg (by omega)]
      simp only [Val.mk.injEq, true_and, and_true]
      refine ⟨by push_cast; ring, ?_⟩
      have : (1 + ((fb + 4 : ℕ) : ℤ) - (((fb + 4 : ℕ) : ℤ) - 1 - -1)).toNat = 1 := by omega
      rw [this, Nat.shiftLeft_eq]
      have h2 : (r1 + r2) * 2 ^ 1 = ((r1 + r2) * 2 ^ 1 - 2 ^ (fb + 5)) + 2 ^ (fb + 4 + 1) := by
        rw [show fb + 4 + 1 = fb + 5 from rfl]; omega
      rw [h2, Nat.add_mod_right, Nat.mod_eq_of_lt (by rw [show fb + 4 + 1 = fb + 5 from rfl]; omega)]
      rw [show fb + 4 + 1 = fb + 5 from rfl]; omega
    rw [hval]
    exact norm_value fb sc (r1 + r2) (fb + 4) 1 σ (by ring) hc (by rw [show fb + 4 + 1 = fb + 5 from rfl]; exact hhi)
  · have hval : addTail fb sc r1 r2 σ σ =
        Val.mk σ (sc + ((fb + 3 : ℕ) : ℤ) - ((fb : ℤ) + 3)) ((r1 + r2) * 2 ^ 2 - 2 ^ (fb + 5)) (fb + 5)
          false false := by
      unfold addTail
      simp only [bne_self_eq_false, Bool.false_eq_true, if_false, hcar, hc, decide_false, hsum]
      rw [if_neg (by omega)]
      simp only [Val.mk.injEq, true_and, and_true]
      refine ⟨by push_cast; ring, ?_⟩
      have : (1 + ((fb + 4 : ℕ) : ℤ) - (((fb + 4 : ℕ) : ℤ) - 1 - 0)).toNat = 2 := by omega
      rw [this, Nat.shiftLeft_eq]
      have h2 : (r1 + r2) * 2 ^ 2 = ((r1 + r2) * 2 ^ 2 - 2 ^ (fb + 5)) + 2 ^ (fb + 4 + 1) := by
        rw [show fb + 4 + 1 = fb + 5 from rfl]; omega
      rw [h2, Nat.add_mod_right, Nat.mod_eq_of_lt (by rw [show fb + 4 + 1 = fb + 5 from rfl]; omega)]
      rw [show fb + 4 + 1 = fb + 5 from rfl]; omega
    rw [hval]
    exact norm_value fb sc (r1 + r2) (fb + 3) 2 σ (by ring) hlo (by rw [show fb + 3 + 1 = fb + 4 from rfl]; omega)


theorem log2_bounds (d : ℕ) (hd : 0 < d) : 2 ^ d.log2 ≤ d ∧ d < 2 ^ (d.log2 + 1) := by
  constructor
  · exact Nat.log2_self_le (by omega)
  · exact Nat.lt_log2_self

/-- opposite effective signs, r1 the larger: the magnitudes are subtracted -/
theorem addTail_diff (fb : ℕ) (sc : ℤ) (r1 r2 : ℕ) (σ τ : Bool) (hne : σ ≠ τ)
    (h0 : 0 < r2) (hle : r2 ≤ r1) (hhi : r1 < 2 ^ (fb + 4)) :
    (r1 = r2 → (addTail fb sc r1 r2 σ τ).zero = true) ∧
    (r2 < r1 → (addTail fb sc r1 r2 σ τ).Fin ∧
      (addTail fb sc r1 r2 σ τ).toRat = sgn σ * (((r1 - r2 : ℕ) : ℚ) * 2 ^ (sc - ((fb : ℤ) + 3)))) := by
  have hp5 : 2 ^ (fb + 4 + 1) = 2 * 2 ^ (fb + 4) := by rw [pow_succ]; ring
  have hbne : (σ != τ) = true := by cases σ <;> cases τ <;> simp_all
  have htc : twosComp (fb + 4) r2 = 2 ^ (fb + 4) - r2 := by
    unfold twosComp
    have e0 : r2 % 2 ^ (fb + 4) = r2 := Nat.mod_eq_of_lt (by omega)
    rw [e0, Nat.mod_eq_of_lt (by omega)]
  have hfull : r1 + (2 ^ (fb + 4) - r2) = 2 ^ (fb + 4) + (r1 - r2) := by omega
  have hlt : 2 ^ (fb + 4) + (r1 - r2) < 2 ^ (fb + 4 + 1) := by omega
  have hcar : (2 ^ (fb + 4) + (r1 - r2)).testBit (fb + 4) = true := by
    rw [testBit_top' (fb + 4) _ hlt]; simp
  have hsum : (2 ^ (fb + 4) + (r1 - r2)) % 2 ^ (fb + 4 + 1) = 2 ^ (fb + 4) + (r1 - r2) :=
    Nat.mod_eq_of_lt hlt
  have hlow : (2 ^ (fb + 4) + (r1 - r2)) % 2 ^ (fb + 4) = r1 - r2 := by
    rw [Nat.add_mod_left, Nat.mod_eq_of_lt (by omega)]
  have hpre : addTail fb sc r1 r2 σ τ =
      (let abits := fb + 4
       let sumv := 2 ^ (fb + 4) + (r1 - r2)
       let shift : Int := ((abits - (if r1 - r2 = 0 then 0 else (r1 - r2).log2 + 1) : Nat) : Int)
       if shift ≥ (abits : Int) then { fb := abits + 1, zero := true }
       else
         let hpos : Int := (abits : Int) - 1 - shift
         let sh : Nat := (1 + (abits : Int) - hpos).toNat
         let fr := (sumv <<< sh) % 2 ^ (abits + 1)
         { sign := σ, scale := sc - shift, frac := fr, fb := abits + 1 }) := by
    unfold addTail
    simp only [hbne, if_true, htc, hfull, hcar, hsum, hlow, if_neg hne]
  rw [hpre]
  constructor
  · intro h
    have : r1 - r2 = 0 := by omega
    simp only [this, if_true, Nat.sub_zero]
    simp
  · intro h
    have hd : 0 < r1 - r2 := by omega
    obtain ⟨l1, l2⟩ := log2_bounds (r1 - r2) hd
    generalize hdd : r1 - r2 = d at *
    have hlog : d.log2 < fb + 4 := by
      rw [Nat.log2_lt (by omega)]; omega
    generalize d.log2 = h at *
    simp only [if_neg (show ¬ d = 0 by omega)]
    have hshift : ((fb + 4 - (h + 1) : ℕ) : ℤ) = (fb : ℤ) + 3 - (h : ℤ) := by omega
    rw [hshift]
    rw [if_neg (by push_cast; omega)]
    have hsh : (1 + ((fb + 4 : ℕ) : ℤ) - (((fb + 4 : ℕ) : ℤ) - 1 - ((fb : ℤ) + 3 - (h : ℤ)))).toNat
        = fb + 5 - h := by omega
    simp only [hsh]
    obtain ⟨sh, hshd⟩ : ∃ sh, fb + 5 - h = sh := ⟨_, rfl⟩
    have hhs : h + sh = fb + 5 := by omega
    rw [hshd]
    have hfr : ((2 ^ (fb + 4) + d) <<< sh) % 2 ^ (fb + 4 + 1) = d * 2 ^ sh - 2 ^ (fb + 5) := by
      rw [Nat.shiftLeft_eq, Nat.add_mul]
      have e1 : 2 ^ (fb + 5) = 2 ^ h * 2 ^ sh := by rw [← pow_add, hhs]
      have hlo : 2 ^ (fb + 5) ≤ d * 2 ^ sh := by rw [e1]; exact Nat.mul_le_mul_right _ l1
      have hhi2 : d * 2 ^ sh < 2 * 2 ^ (fb + 5) := by
        rw [e1, ← mul_assoc, ← pow_succ']
        exact Nat.mul_lt_mul_of_pos_right l2 (Nat.two_pow_pos _)
      obtain ⟨t, ht⟩ : ∃ t, sh = t + 1 := ⟨sh - 1, by omega⟩
      have e2 : 2 ^ (fb + 4) * 2 ^ sh = 2 ^ (fb + 4 + 1) * 2 ^ t := by
        rw [ht, pow_succ, pow_succ]; ring
      rw [e2, Nat.mul_add_mod]
      have e3 : d * 2 ^ sh = (d * 2 ^ sh - 2 ^ (fb + 5)) + 2 ^ (fb + 4 + 1) := by
        rw [show fb + 4 + 1 = fb + 5 from rfl]; omega
      rw [e3, Nat.add_mod_right, Nat.mod_eq_of_lt (by rw [show fb + 4 + 1 = fb + 5 from rfl]; omega)]
      rw [show fb + 4 + 1 = fb + 5 from rfl]; omega
    rw [hfr]
    have hsc : sc - ((fb : ℤ) + 3 - (h : ℤ)) = sc + (h : ℤ) - ((fb : ℤ) + 3) := by ring
    rw [hsc]
    exact norm_value fb sc d h sh σ hhs l1 l2


/-- `nshift` is the sticky image of the exactly shifted significand -/
theorem nshift_sticky (fb frac : ℕ) (sh : ℤ) :
    Sticky (((2 ^ fb + frac : ℕ) : ℚ) * 2 ^ sh) (nshift fb frac sh) := by
  unfold nshift
  simp only []
  split
  · rename_i h
    obtain ⟨k, rfl⟩ : ∃ k : ℕ, sh = k := ⟨sh.toNat, by omega⟩
    simp only [Int.toNat_natCast, zpow_natCast, Nat.shiftLeft_eq]
    have := sticky_int ((2 ^ fb + frac) * 2 ^ k)
    push_cast at this ⊢; exact this
  · rename_i h
    obtain ⟨k, hk⟩ : ∃ k : ℕ, sh = -(k : ℤ) := ⟨(-sh).toNat, by omega⟩
    subst hk
    simp only [neg_neg, Int.toNat_natCast, zpow_neg, zpow_natCast]
    have := stickyShr_sticky (2 ^ fb + frac) k
    rw [div_eq_mul_inv] at this; exact this

theorem nshift_exact (fb frac : ℕ) (sh : ℤ) (h : 0 ≤ sh) :
    ((nshift fb frac sh : ℕ) : ℚ) = ((2 ^ fb + frac : ℕ) : ℚ) * 2 ^ sh := by
  unfold nshift
  simp only [ge_iff_le, h, if_true]
  obtain ⟨k, rfl⟩ : ∃ k : ℕ, sh = k := ⟨sh.toNat, by omega⟩
  simp only [Int.toNat_natCast, zpow_natCast, Nat.shiftLeft_eq]
  push_cast; ring

theorem nshift_three (fb frac : ℕ) : nshift fb frac 3 = (2 ^ fb + frac) * 8 := by
  unfold nshift
  simp [Nat.shiftLeft_eq]

theorem nshift_pos (fb frac : ℕ) (sh : ℤ) : 0 < nshift fb frac sh := by
  have h := nshift_sticky fb frac sh
  by_contra hc
  have h0 : nshift fb frac sh = 0 := by omega
  rw [h0] at h
  have := sticky_zero h
  have hx : (0 : ℚ) < ((2 ^ fb + frac : ℕ) : ℚ) := by
    have : 0 < 2 ^ fb + frac := by positivity
    exact_mod_cast this
  have := two_zpow_pos sh
  have : 0 < ((2 ^ fb + frac : ℕ) : ℚ) * 2 ^ sh := by positivity
  linarith

/-- a right-aligned operand stays below the hidden-bit position of the other -/
theorem nshift_lt (fb frac : ℕ) (sh : ℤ) (hf : frac < 2 ^ fb) (k : ℕ) (hk : 1 ≤ k)
    (hsh : sh + (fb : ℤ) + 1 ≤ k) : nshift fb frac sh < 2 ^ k := by
  have h := nshift_sticky fb frac sh
  obtain ⟨j, rfl⟩ : ∃ j, k = j + 1 := ⟨k - 1, by omega⟩
  have hx : ((2 ^ fb + frac : ℕ) : ℚ) < 2 ^ (fb + 1) := by
    have : 2 ^ fb + frac < 2 ^ (fb + 1) := by rw [pow_succ]; omega
    exact_mod_cast this
  have hP : ((2 ^ fb + frac : ℕ) : ℚ) * 2 ^ sh < 2 * ((2 ^ j : ℕ) : ℚ) := by
    have h1 : (2 : ℚ) ^ sh ≤ 2 ^ ((j : ℤ) + 1 - ((fb : ℤ) + 1)) :=
      zpow_le_zpow_right₀ (by norm_num) (by push_cast at hsh; omega)
    have h2 : (2 : ℚ) ^ ((j : ℤ) + 1 - ((fb : ℤ) + 1)) * 2 ^ (fb + 1) = 2 * 2 ^ j := by
      rw [← zpow_natCast, ← zpow_add₀ (by norm_num)]
      have : (j : ℤ) + 1 - ((fb : ℤ) + 1) + ((fb + 1 : ℕ) : ℤ) = ((j + 1 : ℕ) : ℤ) := by push_cast; ring
      rw [this, zpow_natCast, pow_succ]; ring
    have hpos := two_zpow_pos sh
    have hx0 : (0 : ℚ) ≤ ((2 ^ fb + frac : ℕ) : ℚ) := by positivity
    have hc : ((2 ^ j : ℕ) : ℚ) = 2 ^ j := by push_cast; rfl
    rw [hc]
    calc ((2 ^ fb + frac : ℕ) : ℚ) * 2 ^ sh < 2 ^ (fb + 1) * 2 ^ sh := by
          apply mul_lt_mul_of_pos_right hx hpos
      _ ≤ 2 ^ (fb + 1) * 2 ^ ((j : ℤ) + 1 - ((fb : ℤ) + 1)) := by
          apply mul_le_mul_of_nonneg_left h1 (by positivity)
      _ = 2 * 2 ^ j := by rw [mul_comm]; exact h2
  have := sticky_lt_even h (2 ^ j) hP
  rw [pow_succ]; omega


/-- result of an aligned add/sub: exact value S·2^g, computed value S'·2^g, S' the sticky image of S -/
def AddOut (fb : ℕ) (g : ℤ) (σ : Bool) (E : ℚ) (r : Val) : Prop :=
  r.Fin ∧ ∃ (S : ℚ) (S' : ℕ), Sticky S S' ∧ ((S' : ℚ) = S ∨ (2 : ℚ) ^ (fb + 2) ≤ S) ∧ 0 < S' ∧
    S = E ∧ r.toRat = sgn σ * ((S' : ℚ) * 2 ^ g)

theorem same_core (fb : ℕ) (sc : ℤ) (fl fs : ℕ) (e : ℤ) (hfl : fl < 2 ^ fb) (hfs : fs < 2 ^ fb)
    (he : e ≤ 3) (σ : Bool) (r1 r2 : ℕ)
    (hsum : r1 + r2 = nshift fb fl 3 + nshift fb fs e) :
    AddOut fb (sc - ((fb : ℤ) + 3)) σ
      (((2 ^ fb + fl : ℕ) : ℚ) * 8 + ((2 ^ fb + fs : ℕ) : ℚ) * 2 ^ e) (addTail fb sc r1 r2 σ σ) := by
  have h3 := nshift_three fb fl
  have hs := nshift_sticky fb fs e
  have hslt := nshift_lt fb fs e hfs (fb + 4) (by omega) (by omega)
  have hp3 : 2 ^ (fb + 3) = 2 ^ fb * 8 := by rw [pow_add]; norm_num
  have hp4 : 2 ^ (fb + 4) = 2 ^ fb * 16 := by rw [pow_add]; norm_num
  have hp5 : 2 ^ (fb + 5) = 2 ^ fb * 32 := by rw [pow_add]; norm_num
  obtain ⟨hfin, hval⟩ := addTail_same fb sc r1 r2 σ (by omega) (by omega)
  refine ⟨hfin, _, r1 + r2, ?_, Or.inr ?_, by omega, rfl, hval⟩
  · rw [hsum, h3]
    have := sticky_add_even ((2 ^ fb + fl) * 8) (by omega) hs
    push_cast at this ⊢; exact this
  · have h1 : (2 : ℚ) ^ (fb + 2) ≤ ((2 ^ fb + fl : ℕ) : ℚ) * 8 := by
      have : 2 ^ (fb + 2) ≤ (2 ^ fb + fl) * 8 := by
        rw [show fb + 2 = fb + 2 from rfl, pow_add]; omega
      exact_mod_cast this
    have h2 : (0 : ℚ) ≤ ((2 ^ fb + fs : ℕ) : ℚ) * 2 ^ e := by
      have := two_zpow_pos e; positivity
    linarith

theorem diff_core (fb : ℕ) (sc : ℤ) (fl fs : ℕ) (e : ℤ) (hfl : fl < 2 ^ fb) (hfs : fs < 2 ^ fb)
    (he : e ≤ 3) (he3 : e = 3 → fs ≤ fl) (σ τ : Bool) (hne : σ ≠ τ) :
    (nshift fb fl 3 = nshift fb fs e →
      (addTail fb sc (nshift fb fl 3) (nshift fb fs e) σ τ).zero = true ∧
      ((2 ^ fb + fl : ℕ) : ℚ) * 8 - ((2 ^ fb + fs : ℕ) : ℚ) * 2 ^ e = 0) ∧
    (nshift fb fl 3 ≠ nshift fb fs e →
      AddOut fb (sc - ((fb : ℤ) + 3)) σ
        (((2 ^ fb + fl : ℕ) : ℚ) * 8 - ((2 ^ fb + fs : ℕ) : ℚ) * 2 ^ e)
        (addTail fb sc (nshift fb fl 3) (nshift fb fs e) σ τ)) := by
  have h3 := nshift_three fb fl
  have hs := nshift_sticky fb fs e
  have hpos := nshift_pos fb fs e
  have hp3 : 2 ^ (fb + 3) = 2 ^ fb * 8 := by rw [pow_add]; norm_num
  have hp4 : 2 ^ (fb + 4) = 2 ^ fb * 16 := by rw [pow_add]; norm_num
  have hle : nshift fb fs e ≤ nshift fb fl 3 ∧ (e ≠ 3 → nshift fb fs e < nshift fb fl 3) := by
    by_cases h : e = 3
    · subst h
      have := he3 rfl
      rw [nshift_three, nshift_three]
      exact ⟨by omega, fun h => absurd rfl h⟩
    · have := nshift_lt fb fs e hfs (fb + 3) (by omega) (by omega)
      rw [h3]; exact ⟨by omega, fun _ => by omega⟩
  obtain ⟨d1, d2⟩ := addTail_diff fb sc (nshift fb fl 3) (nshift fb fs e) σ τ hne hpos hle.1
    (by rw [h3]; omega)
  constructor
  · intro heq
    refine ⟨d1 heq, ?_⟩
    have h : e = 3 := by
      by_contra hc
      have := hle.2 hc; omega
    subst h
    rw [nshift_three, nshift_three] at heq
    have : fl = fs := by omega
    rw [this]; norm_num
  · intro hneq
    have hlt : nshift fb fs e < nshift fb fl 3 := by omega
    obtain ⟨hfin, hval⟩ := d2 hlt
    refine ⟨hfin, _, nshift fb fl 3 - nshift fb fs e, ?_, ?_, by omega, rfl, hval⟩
    · have := sticky_even_sub (nshift fb fl 3) (by rw [h3]; omega) hs hle.1
      rw [h3] at this ⊢
      push_cast at this ⊢; exact this
    · by_cases h0 : 0 ≤ e
      · left
        have := nshift_exact fb fs e h0
        rw [Nat.cast_sub hle.1, this, h3]; push_cast; ring
      · right
        have hx : ((2 ^ fb + fs : ℕ) : ℚ) < 2 ^ (fb + 1) := by
          have : 2 ^ fb + fs < 2 ^ (fb + 1) := by rw [pow_succ]; omega
          exact_mod_cast this
        have h1 : (2 : ℚ) ^ e ≤ 2 ^ (-1 : ℤ) := zpow_le_zpow_right₀ (by norm_num) (by omega)
        have h1' : (2 : ℚ) ^ (-1 : ℤ) = 1 / 2 := by norm_num
        rw [h1'] at h1
        have hpe := two_zpow_pos e
        have hRS : ((2 ^ fb + fs : ℕ) : ℚ) * 2 ^ e < 2 ^ fb := by
          have hx0 : (0 : ℚ) ≤ ((2 ^ fb + fs : ℕ) : ℚ) := by positivity
          calc ((2 ^ fb + fs : ℕ) : ℚ) * 2 ^ e ≤ ((2 ^ fb + fs : ℕ) : ℚ) * (1 / 2) :=
                mul_le_mul_of_nonneg_left h1 hx0
            _ < 2 ^ (fb + 1) * (1 / 2) := by apply mul_lt_mul_of_pos_right hx (by norm_num)
            _ = 2 ^ fb := by rw [pow_succ]; ring
        have hRL : (2 : ℚ) ^ fb * 8 ≤ ((2 ^ fb + fl : ℕ) : ℚ) * 8 := by
          push_cast
          have : (0 : ℚ) ≤ (fl : ℚ) := by positivity
          nlinarith
        have hq : (2 : ℚ) ^ (fb + 2) = 2 ^ fb * 4 := by rw [pow_add]; norm_num
        have hpf : (0 : ℚ) < 2 ^ fb := by positivity
        rw [hq]; linarith


/-- magnitude of a triple in units of 2^(sc-(fb+3)) -/
theorem mag_eq (fb : ℕ) (scale sc : ℤ) (frac : ℕ) :
    valS scale ((frac : ℚ) / 2 ^ fb)
      = ((2 ^ fb + frac : ℕ) : ℚ) * 2 ^ (scale - sc + 3) * 2 ^ (sc - ((fb : ℤ) + 3)) := by
  unfold valS
  rw [mul_assoc, ← zpow_add₀ (by norm_num)]
  have : scale - sc + 3 + (sc - ((fb : ℤ) + 3)) = scale - (fb : ℤ) := by ring
  rw [this, zpow_sub₀ (by norm_num), zpow_natCast]
  have hp : (0 : ℚ) < 2 ^ fb := by positivity
  push_cast; field_simp

theorem sgn_ne (s1 s2 : Bool) (h : s1 ≠ s2) : sgn s2 = -sgn s1 := by
  unfold sgn; cases s1 <;> cases s2 <;> simp_all

theorem addCore_spec (fb : ℕ) (a b : Val) (ha : a.Fin) (hb : b.Fin) (hfa : a.fb = fb)
    (hfb : b.fb = fb) (s1 s2 sw : Bool) (hsw : s1 ≠ s2 → sw = absLt a b) :
    ((addCore fb a b s1 s2 sw).zero = true ∧
      sgn s1 * valS a.scale ((a.frac : ℚ) / 2 ^ fb) + sgn s2 * valS b.scale ((b.frac : ℚ) / 2 ^ fb) = 0) ∨
    (∃ (σ : Bool) (g : ℤ) (S : ℚ), AddOut fb g σ S (addCore fb a b s1 s2 sw) ∧
      sgn s1 * valS a.scale ((a.frac : ℚ) / 2 ^ fb) + sgn s2 * valS b.scale ((b.frac : ℚ) / 2 ^ fb)
        = sgn σ * (S * 2 ^ g)) := by
  have hla : a.frac < 2 ^ fb := by rw [← hfa]; exact ha.lt
  have hlb : b.frac < 2 ^ fb := by rw [← hfb]; exact hb.lt
  rw [addCore_eq]
  set sc := max a.scale b.scale with hsc
  rw [mag_eq fb a.scale sc, mag_eq fb b.scale sc]
  have hea : a.scale - sc + 3 ≤ 3 := by have := le_max_left a.scale b.scale; omega
  have heb : b.scale - sc + 3 ≤ 3 := by have := le_max_right a.scale b.scale; omega
  have h8 : (2 : ℚ) ^ (3 : ℤ) = 8 := by norm_num
  -- which operand carries the maximal scale
  by_cases hs12 : s1 = s2
  · -- effective addition
    subst hs12
    right
    by_cases hab : b.scale ≤ a.scale
    · have hsa : a.scale - sc + 3 = 3 := by rw [hsc, max_eq_left hab]; ring
      rw [hsa, h8]
      have := same_core fb sc a.frac b.frac (b.scale - sc + 3) hla hlb heb s1
        (if sw then nshift fb b.frac (b.scale - sc + 3) else nshift fb a.frac 3)
        (if sw then nshift fb a.frac 3 else nshift fb b.frac (b.scale - sc + 3))
        (by cases sw <;> (simp; try ring))
      refine ⟨s1, sc - ((fb : ℤ) + 3),
        ((2 ^ fb + a.frac : ℕ) : ℚ) * 8 + ((2 ^ fb + b.frac : ℕ) : ℚ) * 2 ^ (b.scale - sc + 3), ?_, by ring⟩
      simp only [ite_self]; exact this
    · have hsb : b.scale - sc + 3 = 3 := by rw [hsc, max_eq_right (by omega)]; ring
      rw [hsb, h8]
      have := same_core fb sc b.frac a.frac (a.scale - sc + 3) hlb hla hea s1
        (if sw then nshift fb b.frac 3 else nshift fb a.frac (a.scale - sc + 3))
        (if sw then nshift fb a.frac (a.scale - sc + 3) else nshift fb b.frac 3)
        (by cases sw <;> (simp; try ring))
      refine ⟨s1, sc - ((fb : ℤ) + 3),
        ((2 ^ fb + b.frac : ℕ) : ℚ) * 8 + ((2 ^ fb + a.frac : ℕ) : ℚ) * 2 ^ (a.scale - sc + 3), ?_, by ring⟩
      simp only [ite_self]; exact this
  · -- effective subtraction
    have hswv := hsw hs12
    have hsg := sgn_ne s1 s2 hs12
    have hs21 : s2 ≠ s1 := fun h => hs12 h.symm
    have hsg' := sgn_ne s2 s1 hs21
    unfold absLt at hswv
    by_cases hlarge : b.scale < a.scale ∨ (b.scale = a.scale ∧ b.frac ≤ a.frac)
    · -- a is the larger magnitude
      have hswf : sw = false := by
        rw [hswv]
        rcases hlarge with h | ⟨h1, h2⟩
        · rw [if_neg (by omega), if_pos (by omega)]
        · rw [if_neg (by omega), if_neg (by omega)]; simp; omega
      have hsa : a.scale - sc + 3 = 3 := by
        rw [hsc, max_eq_left (by rcases hlarge with h | ⟨h, _⟩ <;> omega)]; ring
      subst hswf
      simp only [Bool.false_eq_true, if_false]
      rw [hsa, h8]
      obtain ⟨d1, d2⟩ := diff_core fb sc a.frac b.frac (b.scale - sc + 3) hla hlb heb
        (by intro h3
            rcases hlarge with h | ⟨_, h2⟩
            · have : sc = a.scale := by rw [hsc, max_eq_left (by omega)]
              omega
            · exact h2) s1 s2 hs12
      by_cases heq : nshift fb a.frac 3 = nshift fb b.frac (b.scale - sc + 3)
      · left
        obtain ⟨z1, z2⟩ := d1 heq
        refine ⟨z1, ?_⟩
        rw [hsg]
        have : sgn s1 * (((2 ^ fb + a.frac : ℕ) : ℚ) * 8 * 2 ^ (sc - ((fb : ℤ) + 3))) +
            -sgn s1 * (((2 ^ fb + b.frac : ℕ) : ℚ) * 2 ^ (b.scale - sc + 3) * 2 ^ (sc - ((fb : ℤ) + 3)))
            = sgn s1 * ((((2 ^ fb + a.frac : ℕ) : ℚ) * 8 -
                ((2 ^ fb + b.frac : ℕ) : ℚ) * 2 ^ (b.scale - sc + 3)) * 2 ^ (sc - ((fb : ℤ) + 3))) := by
          ring
        rw [this, z2]; ring
      · right
        refine ⟨s1, sc - ((fb : ℤ) + 3), _, d2 heq, ?_⟩
        rw [hsg]; ring
    · -- b is the larger magnitude
      have hlarge' : a.scale < b.scale ∨ (a.scale = b.scale ∧ a.frac < b.frac) := by
        by_contra hc
        apply hlarge
        rcases lt_trichotomy a.scale b.scale with h | h | h
        · exact absurd (Or.inl h) hc
        · right; refine ⟨h.symm, ?_⟩
          by_contra h2
          exact hc (Or.inr ⟨h, by omega⟩)
        · left; exact h
      have hswt : sw = true := by
        rw [hswv]
        rcases hlarge' with h | ⟨h1, h2⟩
        · rw [if_pos h]
        · rw [if_neg (by omega), if_neg (by omega)]; simpa using h2
      have hsb : b.scale - sc + 3 = 3 := by
        rw [hsc, max_eq_right (by rcases hlarge' with h | ⟨h, _⟩ <;> omega)]; ring
      subst hswt
      simp only [if_true]
      rw [hsb, h8]
      obtain ⟨d1, d2⟩ := diff_core fb sc b.frac a.frac (a.scale - sc + 3) hlb hla hea
        (by intro h3
            rcases hlarge' with h | ⟨_, h2⟩
            · have : sc = b.scale := by rw [hsc, max_eq_right (by omega)]
              omega
            · omega) s2 s1 hs21
      by_cases heq : nshift fb b.frac 3 = nshift fb a.frac (a.scale - sc + 3)
      · left
        obtain ⟨z1, z2⟩ := d1 heq
        refine ⟨z1, ?_⟩
        rw [hsg]
        have : sgn s1 * (((2 ^ fb + a.frac : ℕ) : ℚ) * 2 ^ (a.scale - sc + 3) * 2 ^ (sc - ((fb : ℤ) + 3))) +
            -sgn s1 * (((2 ^ fb + b.frac : ℕ) : ℚ) * 8 * 2 ^ (sc - ((fb : ℤ) + 3)))
            = -sgn s1 * ((((2 ^ fb + b.frac : ℕ) : ℚ) * 8 -
                ((2 ^ fb + a.frac : ℕ) : ℚ) * 2 ^ (a.scale - sc + 3)) * 2 ^ (sc - ((fb : ℤ) + 3))) := by
          ring
        rw [this, z2]; ring
      · right
        refine ⟨s2, sc - ((fb : ℤ) + 3), _, d2 heq, ?_⟩
        rw [hsg']; ring


theorem toRat_eq_sgn (v : Val) (hz : v.zero = false) :
    v.toRat = sgn v.sign * valS v.scale ((v.frac : ℚ) / 2 ^ v.fb) :=
  toRat_eq_tripleVal v hz

/-- rounding the output of an aligned add/sub = rounding the exact result -/
theorem addOut_round (n es : ℕ) (hn : 2 ≤ n) (g : ℤ) (σ : Bool) (S : ℚ) (r : Val)
    (h : AddOut (fbitsOf n es) g σ S r) :
    nearestB n es (sgn σ * (S * 2 ^ g)) (convert n es r) = true := by
  obtain ⟨hfin, S0, S', hst, hcond, hpos, hS, hval⟩ := h
  subst hS
  have hSpos : 0 < S0 := sticky_pos hst hpos
  have hg := two_zpow_pos g
  have hS'q : (0 : ℚ) < (S' : ℚ) := by exact_mod_cast hpos
  have hc := convert_val_correct n es hn r hfin
  rw [hval] at hc
  rw [nearestB_transfer n es hn σ (S0 * 2 ^ g) ((S' : ℚ) * 2 ^ g) (by positivity) (by positivity)
    (sticky_sameCuts n es hn S0 S' g hst hcond)]
  exact hc

theorem nearestB_zero (n es : ℕ) : nearestB n es 0 0 = true := by
  unfold nearestB; simp

/-- `module_add` followed by `convert` is the correctly rounded sum -/
theorem moduleAdd_correct (n es : ℕ) (hn : 2 ≤ n) (a b : Val) (ha : a.Fin) (hb : b.Fin)
    (hfa : a.fb = fbitsOf n es) (hfb : b.fb = fbitsOf n es) :
    nearestB n es (a.toRat + b.toRat) (convert n es (moduleAdd (fbitsOf n es) a b)) = true := by
  unfold moduleAdd
  simp only [ha.ni, hb.ni, Bool.or_self, Bool.false_eq_true, if_false]
  rw [toRat_eq_sgn a ha.nz, toRat_eq_sgn b hb.nz, hfa, hfb]
  rcases addCore_spec (fbitsOf n es) a b ha hb hfa hfb a.sign b.sign
      ((a.sign != b.sign) && absLt a b)
      (by intro h; have : (a.sign != b.sign) = true := by simpa using h
          rw [this]; simp) with ⟨hz, hE⟩ | ⟨σ, g, S, hout, hE⟩
  · rw [hE]; unfold convert; rw [if_pos hz]; exact nearestB_zero n es
  · rw [hE]; exact addOut_round n es hn g σ S _ hout

theorem sgn_not (s : Bool) : sgn (!s) = -sgn s := by
  unfold sgn; cases s <;> simp

/-- `module_subtract` followed by `convert` is the correctly rounded difference -/
theorem moduleSub_correct (n es : ℕ) (hn : 2 ≤ n) (a b : Val) (ha : a.Fin) (hb : b.Fin)
    (hfa : a.fb = fbitsOf n es) (hfb : b.fb = fbitsOf n es) :
    nearestB n es (a.toRat - b.toRat) (convert n es (moduleSub (fbitsOf n es) a b)) = true := by
  unfold moduleSub
  simp only [ha.ni, hb.ni, Bool.or_self, Bool.false_eq_true, if_false]
  rw [toRat_eq_sgn a ha.nz, toRat_eq_sgn b hb.nz, hfa, hfb]
  have hsub : sgn a.sign * valS a.scale ((a.frac : ℚ) / 2 ^ fbitsOf n es) -
      sgn b.sign * valS b.scale ((b.frac : ℚ) / 2 ^ fbitsOf n es)
      = sgn a.sign * valS a.scale ((a.frac : ℚ) / 2 ^ fbitsOf n es) +
        sgn (!b.sign) * valS b.scale ((b.frac : ℚ) / 2 ^ fbitsOf n es) := by
    rw [sgn_not]; ring
  rw [hsub]
  rcases addCore_spec (fbitsOf n es) a b ha hb hfa hfb a.sign (!b.sign) (absLt a b)
      (fun _ => rfl) with ⟨hz, hE⟩ | ⟨σ, g, S, hout, hE⟩
  · rw [hE]; unfold convert; rw [if_pos hz]; exact nearestB_zero n es
  · rw [hE]; exact addOut_round n es hn g σ S _ hout

end UVerif.Posit
