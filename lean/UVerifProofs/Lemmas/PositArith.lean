/-
  UVerifProofs.Lemmas.PositArith — the arithmetic modules on (sign, scale, fraction) triples:
  `module_multiply` is exact; `convert(value)` rounds correctly.
-/
import UVerifProofs.Lemmas.PositDecode

namespace UVerif.Posit

/-- a well-formed non-special triple -/
structure Val.Fin (v : Val) : Prop where
  nz : v.zero = false
  ni : v.inf = false
  lt : v.frac < 2 ^ v.fb

theorem toRat_eq_tripleVal (v : Val) (hz : v.zero = false) :
    v.toRat = tripleVal v.sign v.scale v.fb v.frac := by
  unfold Val.toRat tripleVal valS
  simp only [hz, Bool.false_eq_true, if_false, pow2_eq_zpow]
  push_cast
  cases v.sign <;> simp <;> ring

/-- `convert(value, posit)` rounds a finite non-zero triple correctly -/
theorem convert_val_correct (n es : ℕ) (hn : 2 ≤ n) (v : Val) (hv : v.Fin) :
    nearestB n es v.toRat (convert n es v) = true := by
  unfold convert
  simp only [hv.nz, hv.ni, Bool.false_eq_true, if_false]
  rw [toRat_eq_tripleVal v hv.nz]
  exact convert_correct n es hn v.sign v.scale v.fb v.frac hv.lt

theorem tripleVal_ne_zero (sign : Bool) (scale : ℤ) (fb frac : ℕ) : tripleVal sign scale fb frac ≠ 0 := by
  unfold tripleVal
  have : 0 < valS scale ((frac : ℚ) / 2 ^ fb) := valS_pos (by positivity)
  cases sign <;> simp <;> linarith

/-- `module_multiply` is exact -/
theorem moduleMul_exact (fb : ℕ) (a b : Val) (ha : a.Fin) (hb : b.Fin) (hfa : a.fb = fb)
    (hfb : b.fb = fb) :
    (moduleMul fb a b).Fin ∧ (moduleMul fb a b).toRat = a.toRat * b.toRat := by
  obtain ⟨az, ai, al⟩ := ha
  obtain ⟨bz, bi, bl⟩ := hb
  rw [hfa] at al; rw [hfb] at bl
  have hra := toRat_eq_tripleVal a az
  have hrb := toRat_eq_tripleVal b bz
  rw [hra, hrb, hfa, hfb]
  unfold moduleMul
  simp only [ai, bi, az, bz, Bool.or_self, Bool.false_eq_true, if_false]
  by_cases hfb0 : fb > 0
  · rw [if_pos hfb0]
    set p := (2 ^ fb + a.frac) * (2 ^ fb + b.frac) with hp
    have hlo : 2 ^ (2 * fb) ≤ p := by
      rw [hp, two_mul, pow_add]; exact Nat.mul_le_mul (by omega) (by omega)
    have hhi : p < 2 ^ (2 * fb + 2) := by
      have h1 : 2 ^ fb + a.frac < 2 ^ (fb + 1) := by rw [pow_succ]; omega
      have h2 : 2 ^ fb + b.frac < 2 ^ (fb + 1) := by rw [pow_succ]; omega
      calc p < 2 ^ (fb + 1) * 2 ^ (fb + 1) := Nat.mul_lt_mul'' h1 h2
        _ = 2 ^ (2 * fb + 2) := by rw [← pow_add]; congr 1; omega
    have hm : 2 * (fb + 1) - 1 = 2 * fb + 1 := by omega
    have hmb : 2 * (fb + 1) = 2 * fb + 2 := by omega
    have hpow1 : 2 ^ (2 * fb + 2) = 2 * 2 ^ (2 * fb + 1) := by rw [pow_succ]; ring
    have hpow2 : 2 ^ (2 * fb + 1) = 2 * 2 ^ (2 * fb) := by rw [pow_succ]; ring
    have htop : p.testBit (2 * (fb + 1) - 1) = decide (2 ^ (2 * fb + 1) ≤ p) := by
      rw [hm]
      have := testBit_top (2 * fb) p (by rw [show 2 * fb + 2 = 2 * fb + 2 from rfl]; exact hhi)
      exact this
    have hpq : (p : ℚ) = (2 ^ fb + (a.frac : ℚ)) * (2 ^ fb + (b.frac : ℚ)) := by
      rw [hp]; push_cast; ring
    have h2fb : (0 : ℚ) < 2 ^ fb := by positivity
    rw [htop, hmb]
    by_cases ht : 2 ^ (2 * fb + 1) ≤ p
    · simp only [ht, decide_true, if_true]
      have hfr : (p <<< 1) % 2 ^ (2 * fb + 2) = 2 * p - 2 ^ (2 * fb + 2) := by
        rw [Nat.shiftLeft_eq, pow_one]
        have : p * 2 = (2 * p - 2 ^ (2 * fb + 2)) + 2 ^ (2 * fb + 2) := by omega
        rw [this, Nat.add_mod_right, Nat.mod_eq_of_lt (by omega)]
      refine ⟨⟨rfl, rfl, ?_⟩, ?_⟩
      · show (p <<< 1) % 2 ^ (2 * fb + 2) < 2 ^ (2 * fb + 2)
        exact Nat.mod_lt _ (by positivity)
      · rw [toRat_eq_tripleVal _ rfl]
        show tripleVal (a.sign != b.sign) (a.scale + b.scale + 1) (2 * fb + 2)
          ((p <<< 1) % 2 ^ (2 * fb + 2)) = _
        rw [hfr]
        unfold tripleVal valS
        have hc : ((2 * p - 2 ^ (2 * fb + 2) : ℕ) : ℚ) = 2 * (p : ℚ) - 2 ^ (2 * fb + 2) := by
          push_cast [Nat.cast_sub (show 2 ^ (2 * fb + 2) ≤ 2 * p by omega)]; ring
        rw [hc, hpq, zpow_add₀ (by norm_num), zpow_add₀ (by norm_num)]
        have e2 : (2 : ℚ) ^ (2 * fb + 2) = 2 ^ fb * 2 ^ fb * 4 := by
          rw [show 2 * fb + 2 = fb + fb + 2 by ring, pow_add, pow_add]; norm_num
        rw [e2]
        cases a.sign <;> cases b.sign <;> simp <;> field_simp <;> ring
    · simp only [ht, decide_false, Bool.false_eq_true, if_false]
      have hfr : (p <<< 2) % 2 ^ (2 * fb + 2) = 4 * p - 2 ^ (2 * fb + 2) := by
        rw [Nat.shiftLeft_eq]
        have : p * 2 ^ 2 = (4 * p - 2 ^ (2 * fb + 2)) + 2 ^ (2 * fb + 2) := by omega
        rw [this, Nat.add_mod_right, Nat.mod_eq_of_lt (by omega)]
      refine ⟨⟨rfl, rfl, ?_⟩, ?_⟩
      · show (p <<< 2) % 2 ^ (2 * fb + 2) < 2 ^ (2 * fb + 2)
        exact Nat.mod_lt _ (by positivity)
      · rw [toRat_eq_tripleVal _ rfl]
        show tripleVal (a.sign != b.sign) (a.scale + b.scale) (2 * fb + 2)
          ((p <<< 2) % 2 ^ (2 * fb + 2)) = _
        rw [hfr]
        unfold tripleVal valS
        have hc : ((4 * p - 2 ^ (2 * fb + 2) : ℕ) : ℚ) = 4 * (p : ℚ) - 2 ^ (2 * fb + 2) := by
          push_cast [Nat.cast_sub (show 2 ^ (2 * fb + 2) ≤ 4 * p by omega)]; ring
        rw [hc, hpq, zpow_add₀ (by norm_num)]
        have e2 : (2 : ℚ) ^ (2 * fb + 2) = 2 ^ fb * 2 ^ fb * 4 := by
          rw [show 2 * fb + 2 = fb + fb + 2 by ring, pow_add, pow_add]; norm_num
        rw [e2]
        cases a.sign <;> cases b.sign <;> simp <;> field_simp <;> ring
  · rw [if_neg hfb0]
    have : fb = 0 := by omega
    subst this
    have ha0 : a.frac = 0 := by simpa using al
    have hb0 : b.frac = 0 := by simpa using bl
    refine ⟨⟨rfl, rfl, by simp⟩, ?_⟩
    rw [toRat_eq_tripleVal _ rfl]
    show tripleVal (a.sign != b.sign) (a.scale + b.scale) (2 * (0 + 1)) 0 = _
    rw [ha0, hb0]
    unfold tripleVal valS
    rw [zpow_add₀ (by norm_num)]
    cases a.sign <;> cases b.sign <;> simp

/-! ### special encodings -/

theorem positVal_none_iff (n es a : ℕ) (ha : a < 2 ^ n) :
    positVal n es a = none ↔ a = 2 ^ (n - 1) := by
  unfold positVal
  simp only [Nat.mod_eq_of_lt ha]
  constructor
  · intro h
    by_contra hc
    rw [if_neg hc] at h
    split at h
    · exact absurd h (by simp)
    · split at h <;> exact absurd h (by simp)
  · intro h
    have : 0 < 2 ^ (n - 1) := by positivity
    rw [if_neg (by omega), if_pos h]

theorem positVal_zero_iff (n es a : ℕ) (hn : 2 ≤ n) (ha : a < 2 ^ n) :
    positVal n es a = some 0 ↔ a = 0 := by
  constructor
  · intro h
    by_contra hc
    have hnar : a ≠ 2 ^ (n - 1) := by
      intro h2; rw [(positVal_none_iff n es a ha).mpr h2] at h; exact absurd h (by simp)
    obtain ⟨h1, hz, _, _, _, h6⟩ := decode_value n es a hn ha hc hnar
    rw [h1, h6] at h
    exact tripleVal_ne_zero _ _ _ _ (Option.some.inj h)
  · rintro rfl
    unfold positVal; simp

theorem isNaR_iff (n a : ℕ) (ha : a < 2 ^ n) : isNaR n a = true ↔ a = 2 ^ (n - 1) := by
  unfold isNaR; rw [Nat.mod_eq_of_lt ha]; simp

theorem decode_fin (n es a : ℕ) (hn : 2 ≤ n) (ha : a < 2 ^ n) (h0 : a ≠ 0)
    (hnar : a ≠ 2 ^ (n - 1)) :
    (decode n es a).Fin ∧ (decode n es a).fb = fbitsOf n es ∧
      positVal n es a = some (decode n es a).toRat := by
  obtain ⟨h1, hz, hi, hl, hfb, _⟩ := decode_value n es a hn ha h0 hnar
  exact ⟨⟨hz, hi, hl⟩, hfb, h1⟩

/-! ### exact values are fixed points; uniqueness -/

/-- a magnitude encoding is the Standard's rounding of its own value -/
theorem nearestMagB_self (n es y : ℕ) (hn : 2 ≤ n) (hy0 : 0 < y) (hy : y < 2 ^ (n - 1)) :
    nearestMagB n es (posVal n es y) y = true := by
  obtain ⟨s, f, hf0, hf1, hv, he, _⟩ := posVal_coords n es y hn hy0 hy
  rw [hv, nearestMagB_iff n es y hn hf0 hf1, ← he]
  have hmx : y ≤ maxposEnc n := by unfold maxposEnc; omega
  refine ⟨hy0, hmx, fun h => ?_, fun h => ?_, fun _ _ => Or.inl ⟨by linarith, by linarith⟩⟩
  · have : maxposEnc n ≤ y := by exact_mod_cast h
    omega
  · have : y ≤ 1 := by exact_mod_cast h
    omega

/-- every real-valued posit is the correct rounding of its own value -/
theorem nearestB_self (n es a : ℕ) (hn : 2 ≤ n) (ha : a < 2 ^ n) (x : ℚ)
    (hx : positVal n es a = some x) : nearestB n es x a = true := by
  have hp := two_pow_pred n (by omega)
  have hpos : 0 < 2 ^ (n - 1) := by positivity
  unfold positVal at hx
  unfold nearestB
  simp only [Nat.mod_eq_of_lt ha] at hx ⊢
  by_cases h0 : a = 0
  · rw [if_pos h0] at hx
    rw [← Option.some.inj hx, h0]; simp
  · rw [if_neg h0] at hx
    by_cases h1 : a = 2 ^ (n - 1)
    · rw [if_pos h1] at hx; exact absurd hx (by simp)
    · rw [if_neg h1] at hx
      by_cases h2 : a < 2 ^ (n - 1)
      · rw [if_pos h2] at hx
        have hv := posVal_pos n es a hn (by omega) h2
        rw [← Option.some.inj hx, if_neg (ne_of_gt hv), if_pos hv,
          nearestMagB_self n es a hn (by omega) h2]
        simp [h2]
      · rw [if_neg h2] at hx
        have hv := posVal_pos n es (2 ^ n - a) hn (by omega) (by omega)
        have hneg : -posVal n es (2 ^ n - a) < 0 := by linarith
        rw [← Option.some.inj hx, if_neg (ne_of_lt hneg), if_neg (not_lt.mpr (le_of_lt hneg)), neg_neg,
          nearestMagB_self n es (2 ^ n - a) hn (by omega) (by omega)]
        simp; omega

/-- the rounding relation determines the result uniquely -/
theorem nearestB_unique (n es : ℕ) (hn : 2 ≤ n) (sign : Bool) (s : ℤ) (f : ℚ) (hf : 0 ≤ f)
    (hf1 : f < 1) (r r' : ℕ) (hr : r < 2 ^ n) (hr' : r' < 2 ^ n)
    (h : nearestB n es ((if sign then -1 else 1) * valS s f) r = true)
    (h' : nearestB n es ((if sign then -1 else 1) * valS s f) r' = true) : r = r' := by
  have hv := valS_pos (s := s) hf
  unfold nearestB at h h'
  simp only [Nat.mod_eq_of_lt hr, Nat.mod_eq_of_lt hr'] at h h'
  cases sign
  · simp only [Bool.false_eq_true, if_false, one_mul] at h h'
    rw [if_neg (ne_of_gt hv), if_pos hv] at h h'
    simp only [Bool.and_eq_true, decide_eq_true_eq] at h h'
    exact rneClamp_unique n _ r r' ((nearestMagB_iff n es r hn hf hf1).mp h.2)
      ((nearestMagB_iff n es r' hn hf hf1).mp h'.2)
  · simp only [if_true] at h h'
    have hneg : (-1 : ℚ) * valS s f < 0 := by linarith
    rw [if_neg (ne_of_lt hneg), if_neg (not_lt.mpr (le_of_lt hneg))] at h h'
    simp only [Bool.and_eq_true, decide_eq_true_eq] at h h'
    have e2 : -(-1 * valS s f) = valS s f := by ring
    rw [e2] at h h'
    have := rneClamp_unique n _ _ _ ((nearestMagB_iff n es _ hn hf hf1).mp h.2)
      ((nearestMagB_iff n es _ hn hf hf1).mp h'.2)
    omega

end UVerif.Posit
