import UVerif.Model.Posit
import Mathlib.Tactic.Linarith
import Mathlib.Tactic.SplitIfs

namespace UVerif.Posit

theorem twosComp_lt (n v : Nat) : twosComp n v < 2 ^ n := by
  unfold twosComp; exact Nat.mod_lt _ (Nat.two_pow_pos _)

theorem shr_mod_lt (x n es : Nat) : (x % 2 ^ (n + 3 + es)) >>> (n + 3 + es - n) < 2 ^ n := by
  rw [Nat.shiftRight_eq_div_pow]
  apply (Nat.div_lt_iff_lt_mul (Nat.two_pow_pos _)).2
  rw [← Nat.pow_add]
  have : n + (n + 3 + es - n) = n + 3 + es := by omega
  rw [this]
  exact Nat.mod_lt _ (Nat.two_pow_pos _)

/-- `convert_` never sets a bit at or above nbits (canonical result), for every configuration and every input. -/
theorem convert_raw_lt (n es : Nat) (hn : 1 ≤ n) (sign : Bool) (scale : Int) (fb frac : Nat) :
    convert_ n es sign scale fb frac < 2 ^ n := by
  have hp : 0 < 2 ^ n := Nat.two_pow_pos _
  have h1 : 1 < 2 ^ n := Nat.one_lt_two_pow (by omega)
  have hm : maxposEnc n < 2 ^ n := by
    unfold maxposEnc
    have : 2 ^ (n - 1) < 2 ^ n := Nat.pow_lt_pow_right (by decide) (by omega)
    omega
  unfold convert_
  simp only []
  split_ifs <;> first
    | exact twosComp_lt _ _
    | exact Nat.mod_lt _ hp
    | exact shr_mod_lt _ _ _
    | exact h1
    | exact hm

theorem convert_lt (n es : Nat) (hn : 1 ≤ n) (v : Val) : convert n es v < 2 ^ n := by
  unfold convert
  split
  · exact Nat.two_pow_pos _
  · split
    · exact Nat.pow_lt_pow_right (by decide) (by omega)
    · exact convert_raw_lt n es hn _ _ _ _

end UVerif.Posit
