/-
  UVerifProofs.Lemmas.PositConvert — `convert_` (posit_impl.hpp) rounds correctly:
  the bit string it assembles is the sticky image of the unbounded encoding scaled to the string's
  length, blast/bafter/bsticky implement round-to-nearest-even at the n-bit position, the
  projection branch is the clamp.
-/
import UVerifProofs.Lemmas.PositRound
import UVerif.Model.Posit

namespace UVerif.Posit

/-! ### range of the unbounded encoding -/

theorem enc0_bounds (es : ℕ) (k : ℤ) (u : ℚ) (hu : 0 ≤ u) (hu2 : u < 2 ^ es) :
    lo k ≤ enc0 es k u ∧ enc0 es k u < lo (k + 1) := by
  have hp : (0 : ℚ) < 2 ^ es := by positivity
  rw [enc0_eq, lo_succ]
  have h1 : 0 ≤ u / 2 ^ es := by positivity
  have h2 : u / 2 ^ es < 1 := by rw [div_lt_one hp]; exact hu2
  have := step_pos k
  constructor <;> nlinarith

theorem pow_mul_lo_negN (N : ℕ) : (2 : ℚ) ^ (N + 1) * lo (-(N : ℤ)) = 1 := by
  unfold lo
  rcases Nat.eq_zero_or_pos N with rfl | h
  · norm_num
  · rw [if_neg (by omega)]
    have : -(N : ℤ) - 1 = -((N + 1 : ℕ) : ℤ) := by push_cast; ring
    rw [this, zpow_neg, zpow_natCast]
    field_simp

theorem pow_mul_lo_N (N : ℕ) : (2 : ℚ) ^ (N + 1) * lo (N : ℤ) = 2 ^ (N + 1) - 1 := by
  unfold lo
  rw [if_pos (by omega)]
  have : -((N : ℤ) + 1) = -((N + 1 : ℕ) : ℤ) := by push_cast; ring
  rw [this, zpow_neg, zpow_natCast]
  field_simp

theorem pow_mul_lo_N1 (N : ℕ) : (2 : ℚ) ^ (N + 1) * lo ((N : ℤ) + 1) = 2 ^ (N + 1) - 1 / 2 := by
  unfold lo
  rw [if_pos (by omega)]
  have : -((N : ℤ) + 1 + 1) = -((N + 1 + 1 : ℕ) : ℤ) := by push_cast; ring
  rw [this, zpow_neg, zpow_natCast, pow_succ 2 (N + 1)]
  field_simp

theorem maxposEnc_cast (N : ℕ) : ((maxposEnc (N + 2) : ℕ) : ℚ) = 2 ^ (N + 1) - 1 := by
  unfold maxposEnc
  have h1 : 1 ≤ 2 ^ (N + 1) := Nat.one_le_two_pow
  simp only [show N + 2 - 1 = N + 1 from rfl]
  push_cast [Nat.cast_sub h1]; ring

/-- above the projection range: the encoding is ≥ maxpos -/
theorem Benc_ge_max (N es : ℕ) (k : ℤ) (u : ℚ) (hk : (N : ℤ) ≤ k) (hu : 0 ≤ u) (hu2 : u < 2 ^ es) :
    ((maxposEnc (N + 2) : ℕ) : ℚ) ≤ Benc (N + 2) es k u := by
  rw [maxposEnc_cast, ← pow_mul_lo_N]
  unfold Benc
  simp only [show N + 2 - 1 = N + 1 from rfl]
  have h1 := (enc0_bounds es k u hu hu2).1
  have h2 : lo (N : ℤ) ≤ lo k := lo_strictMono.monotone hk
  have hp : (0 : ℚ) < 2 ^ (N + 1) := by positivity
  nlinarith

/-- below the projection range: the encoding is < 1 = minpos -/
theorem Benc_lt_one (N es : ℕ) (k : ℤ) (u : ℚ) (hk : k + 1 ≤ -(N : ℤ)) (hu : 0 ≤ u)
    (hu2 : u < 2 ^ es) : Benc (N + 2) es k u < 1 := by
  rw [← pow_mul_lo_negN N]
  unfold Benc
  simp only [show N + 2 - 1 = N + 1 from rfl]
  have h1 := (enc0_bounds es k u hu hu2).2
  have h2 : lo (k + 1) ≤ lo (-(N : ℤ)) := lo_strictMono.monotone hk
  have hp : (0 : ℚ) < 2 ^ (N + 1) := by positivity
  nlinarith

/-- inside the regime range the encoding lies in [1, maxpos + 1/2) -/
theorem Benc_range (N es : ℕ) (k : ℤ) (u : ℚ) (hk1 : -(N : ℤ) ≤ k) (hk2 : k ≤ N) (hu : 0 ≤ u)
    (hu2 : u < 2 ^ es) :
    1 ≤ Benc (N + 2) es k u ∧ Benc (N + 2) es k u < ((maxposEnc (N + 2) : ℕ) : ℚ) + 1 / 2 := by
  rw [maxposEnc_cast]
  have e1 := pow_mul_lo_negN N
  have e2 := pow_mul_lo_N1 N
  unfold Benc
  simp only [show N + 2 - 1 = N + 1 from rfl]
  obtain ⟨h1, h2⟩ := enc0_bounds es k u hu hu2
  have h3 : lo (-(N : ℤ)) ≤ lo k := lo_strictMono.monotone hk1
  have h4 : lo (k + 1) ≤ lo ((N : ℤ) + 1) := lo_strictMono.monotone (by omega)
  have hp : (0 : ℚ) < 2 ^ (N + 1) := by positivity
  constructor <;> nlinarith

/-- an RNE result of an in-range encoding satisfies the clamped rule -/
theorem rneClamp_of_isRne (N : ℕ) (B : ℚ) (R : ℕ) (h1 : 1 ≤ B)
    (h2 : B < ((maxposEnc (N + 2) : ℕ) : ℚ) + 1 / 2) (h : IsRne B R) : RneClamp (N + 2) B R := by
  have key : ∀ a b : ℕ, (a : ℚ) < (b : ℚ) + 1 → a ≤ b := by
    intro a b hab
    have : (a : ℚ) < ((b + 1 : ℕ) : ℚ) := by push_cast; exact hab
    have : a < b + 1 := by exact_mod_cast this
    omega
  have hlo : (R : ℚ) - 1 / 2 ≤ B := by
    rcases h with ⟨a, _⟩ | ⟨a | a, _⟩ <;> linarith
  have hhi : B ≤ (R : ℚ) + 1 / 2 := by
    rcases h with ⟨_, a⟩ | ⟨a | a, _⟩ <;> linarith
  have hR1 : 1 ≤ R := key 1 R (by push_cast; linarith)
  have hR2 : R ≤ maxposEnc (N + 2) := key R _ (by linarith)
  refine ⟨hR1, hR2, fun hb => ?_, fun hb => ?_, fun _ _ => h⟩
  · have := key (maxposEnc (N + 2)) R (by linarith); omega
  · have := key R 1 (by push_cast; linarith); omega

/-! ### the assembled bit string -/

theorem shift_trunc (pt ptLen len n : ℕ) (h1 : pt < 2 ^ len) (h2 : len ≤ ptLen) (h3 : n ≤ len) :
    ((pt <<< (ptLen - len)) % 2 ^ ptLen) >>> (ptLen - n) = pt >>> (len - n) := by
  rw [Nat.shiftLeft_eq, Nat.shiftRight_eq_div_pow, Nat.shiftRight_eq_div_pow]
  have e1 : pt * 2 ^ (ptLen - len) < 2 ^ ptLen := by
    calc pt * 2 ^ (ptLen - len) < 2 ^ len * 2 ^ (ptLen - len) :=
          Nat.mul_lt_mul_of_pos_right h1 (by positivity)
      _ = 2 ^ ptLen := by rw [← pow_add]; congr 1; omega
  rw [Nat.mod_eq_of_lt e1]
  have e2 : ptLen - n = (len - n) + (ptLen - len) := by omega
  rw [e2, pow_add, Nat.mul_div_mul_right _ _ (by positivity)]

/-- the string assembled by `convert_` below the regime: exponent, fraction at `nf` bits, sticky -/
theorem assemble_sticky (es nf fb frac regime e : ℕ) (he : e < 2 ^ es) (hfrac : frac < 2 ^ fb) :
    Sticky ((regime : ℚ) * 2 ^ (es + nf + 1) + 2 ^ (nf + 1) * ((e : ℚ) + (frac : ℚ) / 2 ^ fb))
      ((regime <<< (es + nf + 1)) ||| (e <<< (nf + 1)) |||
        ((if nf ≤ fb then frac >>> (fb - nf) else frac <<< (nf - fb)) <<< 1) |||
        (if (if nf ≤ fb then decide (frac % 2 ^ (fb - nf) ≠ 0) else false) then 1 else 0)) ∧
    ((regime <<< (es + nf + 1)) ||| (e <<< (nf + 1)) |||
        ((if nf ≤ fb then frac >>> (fb - nf) else frac <<< (nf - fb)) <<< 1) |||
        (if (if nf ≤ fb then decide (frac % 2 ^ (fb - nf) ≠ 0) else false) then 1 else 0))
      < (regime + 1) * 2 ^ (es + nf + 1) := by
  generalize hfn : (if nf ≤ fb then frac >>> (fb - nf) else frac <<< (nf - fb)) = fracNf
  generalize hsb : (if nf ≤ fb then decide (frac % 2 ^ (fb - nf) ≠ 0) else false) = sb
  have hfn_lt : fracNf < 2 ^ nf := by
    rw [← hfn]
    split
    · rename_i h
      rw [Nat.shiftRight_eq_div_pow, Nat.div_lt_iff_lt_mul (by positivity), ← pow_add]
      rw [show nf + (fb - nf) = fb by omega]; exact hfrac
    · rename_i h
      rw [Nat.shiftLeft_eq]
      calc frac * 2 ^ (nf - fb) < 2 ^ fb * 2 ^ (nf - fb) :=
            Nat.mul_lt_mul_of_pos_right hfrac (by positivity)
        _ = 2 ^ nf := by rw [← pow_add]; congr 1; omega
  -- the or's are sums
  have hs : (if sb then 1 else 0 : ℕ) < 2 ^ 1 := by cases sb <;> simp
  have o1 : (regime <<< (es + nf + 1)) ||| (e <<< (nf + 1)) = (regime * 2 ^ es + e) <<< (nf + 1) := by
    have : e <<< (nf + 1) < 2 ^ (es + nf + 1) := by
      rw [Nat.shiftLeft_eq, show es + nf + 1 = es + (nf + 1) by ring, pow_add 2 es]
      exact Nat.mul_lt_mul_of_pos_right he (Nat.two_pow_pos _)
    rw [← Nat.shiftLeft_add_eq_or_of_lt this]
    simp only [Nat.shiftLeft_eq]
    rw [show es + nf + 1 = es + (nf + 1) by ring, pow_add]; ring
  have o2 : ((regime * 2 ^ es + e) <<< (nf + 1)) ||| (fracNf <<< 1)
      = ((regime * 2 ^ es + e) * 2 ^ nf + fracNf) <<< 1 := by
    have : fracNf <<< 1 < 2 ^ (nf + 1) := by
      rw [Nat.shiftLeft_eq, pow_succ]; omega
    rw [← Nat.shiftLeft_add_eq_or_of_lt this]
    simp only [Nat.shiftLeft_eq]
    rw [pow_succ]; ring
  rw [o1, o2, ← Nat.shiftLeft_add_eq_or_of_lt hs, Nat.shiftLeft_eq, pow_one]
  set A := (regime * 2 ^ es + e) * 2 ^ nf + fracNf with hA
  constructor
  · refine ⟨A, ?_⟩
    have hp : (0 : ℚ) < 2 ^ fb := by positivity
    have hP : (regime : ℚ) * 2 ^ (es + nf + 1) + 2 ^ (nf + 1) * ((e : ℚ) + (frac : ℚ) / 2 ^ fb)
        = 2 * (((regime * 2 ^ es + e) * 2 ^ nf : ℕ) : ℚ) + 2 * ((frac : ℚ) * 2 ^ nf / 2 ^ fb) := by
      push_cast; rw [show es + nf + 1 = es + nf + 1 from rfl, pow_succ, pow_add, pow_succ]; field_simp; ring
    rw [hP, hA]
    by_cases hle : nf ≤ fb
    · rw [if_pos hle] at hfn hsb
      obtain ⟨d, rfl⟩ : ∃ d, fb = nf + d := ⟨fb - nf, by omega⟩
      simp only [Nat.add_sub_cancel_left] at hfn hsb
      rw [Nat.shiftRight_eq_div_pow] at hfn
      have hdm := Nat.div_add_mod frac (2 ^ d)
      have hfq : (frac : ℚ) * 2 ^ nf / 2 ^ (nf + d) = (frac : ℚ) / 2 ^ d := by
        rw [pow_add]; field_simp
      rw [hfq]
      have hd : (0 : ℚ) < 2 ^ d := by positivity
      have hq : (frac : ℚ) = 2 ^ d * (fracNf : ℚ) + ((frac % 2 ^ d : ℕ) : ℚ) := by
        rw [← hfn]; exact_mod_cast hdm.symm
      have hrlt : ((frac % 2 ^ d : ℕ) : ℚ) < 2 ^ d := by
        exact_mod_cast Nat.mod_lt frac (by positivity)
      by_cases hz : frac % 2 ^ d = 0
      · left
        have : sb = false := by rw [← hsb]; simp [hz]
        subst this
        constructor
        · rw [hq, hz]; push_cast; field_simp; ring
        · simp; ring
      · right
        have : sb = true := by rw [← hsb]; simp [hz]
        subst this
        have hrpos : (0 : ℚ) < ((frac % 2 ^ d : ℕ) : ℚ) := by
          have : 0 < frac % 2 ^ d := by omega
          exact_mod_cast this
        have e1 : (frac : ℚ) / 2 ^ d = (fracNf : ℚ) + ((frac % 2 ^ d : ℕ) : ℚ) / 2 ^ d := by
          rw [hq]; field_simp
        have e2 : (0 : ℚ) < ((frac % 2 ^ d : ℕ) : ℚ) / 2 ^ d := by positivity
        have e3 : ((frac % 2 ^ d : ℕ) : ℚ) / 2 ^ d < 1 := by rw [div_lt_one hd]; exact hrlt
        refine ⟨?_, ?_, by simp; ring⟩
        · rw [e1]; push_cast; linarith
        · rw [e1]; push_cast; linarith
    · rw [if_neg hle] at hfn hsb
      subst hsb
      left
      obtain ⟨d, rfl⟩ : ∃ d, nf = fb + d := ⟨nf - fb, by omega⟩
      simp only [Nat.add_sub_cancel_left] at hfn
      rw [Nat.shiftLeft_eq] at hfn
      constructor
      · rw [← hfn]; push_cast; rw [pow_add]; field_simp
      · simp; ring
  · have hsb2 : (if sb then 1 else 0 : ℕ) ≤ 1 := by cases sb <;> simp
    have : A + 1 ≤ (regime + 1) * 2 ^ (es + nf) := by
      rw [hA]
      have h1 : (regime * 2 ^ es + e) + 1 ≤ (regime + 1) * 2 ^ es := by
        rw [Nat.add_mul]; omega
      calc (regime * 2 ^ es + e) * 2 ^ nf + fracNf + 1
          ≤ (regime * 2 ^ es + e) * 2 ^ nf + 2 ^ nf := by omega
        _ = ((regime * 2 ^ es + e) + 1) * 2 ^ nf := by ring
        _ ≤ ((regime + 1) * 2 ^ es) * 2 ^ nf := Nat.mul_le_mul_right _ h1
        _ = (regime + 1) * 2 ^ (es + nf) := by rw [pow_add]; ring
    calc A * 2 + (if sb then 1 else 0) < (A + 1) * 2 := by omega
      _ ≤ ((regime + 1) * 2 ^ (es + nf)) * 2 := Nat.mul_le_mul_right _ this
      _ = (regime + 1) * 2 ^ (es + nf + 1) := by rw [pow_succ]; ring


/-- the rounding tail of `convert_`, for an abstract regime pattern -/
theorem round_core (N es nf fb frac regime e run len : ℕ) (B : ℚ) (he : e < 2 ^ es)
    (hfrac : frac < 2 ^ fb) (hlen : len = run + es + nf + 3) (hlenN : N + 4 ≤ len)
    (hptLen : len ≤ N + 5 + es) (hreg : regime + 1 ≤ 2 ^ (run + 1))
    (hB : B * 2 ^ (len - (N + 2))
        = (regime : ℚ) * 2 ^ (es + nf + 1) + 2 ^ (nf + 1) * ((e : ℚ) + (frac : ℚ) / 2 ^ fb))
    (hB1 : 1 ≤ B) (hB2 : B < ((maxposEnc (N + 2) : ℕ) : ℚ) + 1 / 2) :
    let n := N + 2
    let ptLen := n + 3 + es
    let fracNf : Nat := if nf ≤ fb then frac >>> (fb - nf) else frac <<< (nf - fb)
    let sb : Bool := if nf ≤ fb then frac % 2 ^ (fb - nf) ≠ 0 else false
    let pt : Nat := ((regime <<< (es + nf + 1)) ||| (e <<< (nf + 1)) ||| (fracNf <<< 1)
                      ||| (if sb then 1 else 0)) % 2 ^ ptLen
    let blast := pt.testBit (len - n)
    let bafter := pt.testBit (len - n - 1)
    let bsticky := pt % 2 ^ (len - n - 1) ≠ 0
    let rb := (blast && bafter) || (bafter && bsticky)
    let ptt : Nat := ((pt <<< (ptLen - len)) % 2 ^ ptLen) >>> (ptLen - n)
    RneClamp (N + 2) B (if rb then (ptt + 1) % 2 ^ n else ptt) := by
  intro n ptLen fracNf sb pt0
  obtain ⟨hst, hlt⟩ := assemble_sticky es nf fb frac regime e he hfrac
  -- name the raw string
  set raw := ((regime <<< (es + nf + 1)) ||| (e <<< (nf + 1)) ||| (fracNf <<< 1)
                      ||| (if sb then 1 else 0)) with hraw
  have hraw_lt : raw < 2 ^ (len - 1) := by
    calc raw < (regime + 1) * 2 ^ (es + nf + 1) := hlt
      _ ≤ 2 ^ (run + 1) * 2 ^ (es + nf + 1) := Nat.mul_le_mul_right _ hreg
      _ = 2 ^ (len - 1) := by rw [← pow_add]; congr 1; omega
  have hraw_len : raw < 2 ^ len :=
    lt_of_lt_of_le hraw_lt (Nat.pow_le_pow_right (by norm_num) (by omega))
  have hraw_pt : raw < 2 ^ ptLen :=
    lt_of_lt_of_le hraw_len (Nat.pow_le_pow_right (by norm_num) (by omega))
  have hpt : pt0 = raw := Nat.mod_eq_of_lt hraw_pt
  intro blast bafter bsticky rb ptt
  have hj : 2 ≤ len - n := by omega
  have hptt : ptt = raw >>> (len - n) := by
    show ((pt0 <<< (ptLen - len)) % 2 ^ ptLen) >>> (ptLen - n) = _
    rw [hpt]; exact shift_trunc raw ptLen len n hraw_len (by omega) (by omega)
  -- the result is rneShr raw j
  have hbits := rneShr_bits raw (len - n) (by omega)
  have hrne := isRne_rneShr raw (len - n)
  have hst' := (isRne_sticky hst (len - n) hj (rneShr raw (len - n))).mp hrne
  have hBP : ((regime : ℚ) * 2 ^ (es + nf + 1) + 2 ^ (nf + 1) * ((e : ℚ) + (frac : ℚ) / 2 ^ fb))
      / 2 ^ (len - n) = B := by
    rw [← hB]; show _ / 2 ^ (len - (N + 2)) = _; field_simp
  rw [hBP] at hst'
  have hclamp := rneClamp_of_isRne N B _ hB1 hB2 hst'
  have hRle : rneShr raw (len - n) ≤ maxposEnc (N + 2) := hclamp.2.1
  have hmx : maxposEnc (N + 2) < 2 ^ (N + 1) := by unfold maxposEnc; simp
  have hpn : 2 ^ n = 2 * 2 ^ (N + 1) := by show 2 ^ (N + 2) = _; rw [pow_succ]; ring
  have hfin : (if rb then (ptt + 1) % 2 ^ n else ptt) = rneShr raw (len - n) := by
    rw [← hbits, hptt]
    have hrb : rb = ((raw.testBit (len - n) && raw.testBit (len - n - 1)) ||
        (raw.testBit (len - n - 1) && decide (raw % 2 ^ (len - n - 1) ≠ 0))) := by
      show ((pt0.testBit (len - n) && pt0.testBit (len - n - 1)) ||
        (pt0.testBit (len - n - 1) && decide (pt0 % 2 ^ (len - n - 1) ≠ 0))) = _
      rw [hpt]
    rw [← hrb]
    cases hrbv : rb
    · simp
    · simp only [if_true]
      have : raw >>> (len - n) + 1 = rneShr raw (len - n) := by
        rw [← hbits, ← hrb, hrbv]; simp
      rw [Nat.mod_eq_of_lt (by omega)]
  rw [hfin]; exact hclamp

/-! ### convert_ on magnitudes -/

theorem unconstrainedK_neg (es : ℕ) (scale : ℤ) (h : scale < 0) : unconstrainedK es scale < 0 := by
  unfold unconstrainedK
  simp only [if_pos h]
  generalize (-scale).toNat >>> es = t
  split <;> omega

theorem unconstrainedK_nonneg (es : ℕ) (scale : ℤ) (h : 0 ≤ scale) : 0 ≤ unconstrainedK es scale := by
  unfold unconstrainedK
  simp only [if_neg (not_lt.mpr h)]
  generalize scale.toNat >>> es = t
  split <;> omega

theorem rneClamp_one (N : ℕ) (B : ℚ) (h : B < 1) : RneClamp (N + 2) B 1 := by
  have hmx : 1 ≤ maxposEnc (N + 2) := by
    unfold maxposEnc; simp only [show N + 2 - 1 = N + 1 from rfl]
    have : 2 ≤ 2 ^ (N + 1) := by
      calc 2 = 2 ^ 1 := rfl
        _ ≤ 2 ^ (N + 1) := Nat.pow_le_pow_right (by norm_num) (by omega)
    omega
  have hq : (1 : ℚ) ≤ ((maxposEnc (N + 2) : ℕ) : ℚ) := by exact_mod_cast hmx
  exact ⟨le_refl _, hmx, fun hb => absurd (lt_of_le_of_lt (le_trans hq hb) h) (lt_irrefl _),
    fun _ => rfl, fun hb => absurd (lt_trans hb h) (lt_irrefl _)⟩

theorem rneClamp_max (N : ℕ) (B : ℚ) (h : ((maxposEnc (N + 2) : ℕ) : ℚ) ≤ B) :
    RneClamp (N + 2) B (maxposEnc (N + 2)) := by
  have hmx : 1 ≤ maxposEnc (N + 2) := by
    unfold maxposEnc; simp only [show N + 2 - 1 = N + 1 from rfl]
    have : 2 ≤ 2 ^ (N + 1) := by
      calc 2 = 2 ^ 1 := rfl
        _ ≤ 2 ^ (N + 1) := Nat.pow_le_pow_right (by norm_num) (by omega)
    omega
  refine ⟨hmx, le_refl _, fun _ => rfl, fun hb => ?_, fun _ hb => absurd (lt_of_le_of_lt h hb) (lt_irrefl _)⟩
  have : ((maxposEnc (N + 2) : ℕ) : ℚ) ≤ ((1 : ℕ) : ℚ) := by push_cast; linarith
  have : maxposEnc (N + 2) ≤ 1 := by exact_mod_cast this
  omega

theorem convert_mag (N es : ℕ) (scale : ℤ) (fb frac : ℕ) (hfrac : frac < 2 ^ fb) :
    RneClamp (N + 2) (encS (N + 2) es scale ((frac : ℚ) / 2 ^ fb))
      (convert_ (N + 2) es false scale fb frac) := by
  have hfp : (0 : ℚ) < 2 ^ fb := by positivity
  have hf0 : (0 : ℚ) ≤ (frac : ℚ) / 2 ^ fb := by positivity
  have hf1 : (frac : ℚ) / 2 ^ fb < 1 := by
    rw [div_lt_one hfp]; exact_mod_cast hfrac
  have he0 := eOf_nonneg es scale
  have he1 := eOf_lt es scale
  have hu0 : (0 : ℚ) ≤ (eOf es scale : ℚ) + (frac : ℚ) / 2 ^ fb := by
    have : (0 : ℚ) ≤ (eOf es scale : ℚ) := by exact_mod_cast he0
    linarith
  have hu2 : (eOf es scale : ℚ) + (frac : ℚ) / 2 ^ fb < 2 ^ es := by
    have : eOf es scale + 1 ≤ ((2 ^ es : ℕ) : ℤ) := by omega
    have := (Int.cast_le (R := ℚ)).mpr this
    push_cast at this; linarith
  have hP : (0 : ℤ) < ((2 ^ es : ℕ) : ℤ) := by positivity
  unfold convert_
  by_cases hproj : inwardProjection (N + 2) es scale = true
  · rw [if_pos hproj]
    unfold inwardProjection at hproj
    simp only [Bool.false_eq_true, if_false]
    have hN : ((N + 2 : ℕ) : ℤ) - 2 = N := by push_cast; ring
    rw [hN] at hproj
    by_cases hneg : scale < 0
    · rw [if_pos hneg] at hproj
      have hlt : scale < -((N : ℤ) * ((2 ^ es : ℕ) : ℤ)) := by simpa using hproj
      rw [if_pos (unconstrainedK_neg es scale hneg)]
      apply rneClamp_one
      unfold encS
      apply Benc_lt_one N es _ _ _ hu0 hu2
      have : kOf es scale < -(N : ℤ) := by
        unfold kOf
        rw [Int.ediv_lt_iff_lt_mul hP]; linarith
      omega
    · rw [if_neg hneg] at hproj
      have hgt : (N : ℤ) * ((2 ^ es : ℕ) : ℤ) < scale := by simpa using hproj
      rw [if_neg (not_lt.mpr (unconstrainedK_nonneg es scale (by omega)))]
      apply rneClamp_max
      unfold encS
      apply Benc_ge_max N es _ _ _ hu0 hu2
      unfold kOf
      rw [Int.le_ediv_iff_mul_le hP]; linarith
  · rw [if_neg hproj]
    have hnp : inwardProjection (N + 2) es scale = false := by simpa using hproj
    unfold inwardProjection at hnp
    have hN : ((N + 2 : ℕ) : ℤ) - 2 = N := by push_cast; ring
    rw [hN] at hnp
    have hk_eq : scale.fdiv ((2 ^ es : ℕ) : ℤ) = kOf es scale :=
      Int.fdiv_eq_ediv_of_nonneg _ (le_of_lt hP)
    have he_eq : scale.fmod ((2 ^ es : ℕ) : ℤ) = eOf es scale :=
      Int.fmod_eq_emod_of_nonneg _ (le_of_lt hP)
    have he_lt : (eOf es scale).toNat < 2 ^ es := by omega
    have heq : (((eOf es scale).toNat : ℕ) : ℚ) = (eOf es scale : ℚ) := by
      have := Int.toNat_of_nonneg he0
      exact_mod_cast this
    by_cases hs : 0 ≤ scale
    · have hle : scale ≤ (N : ℤ) * ((2 ^ es : ℕ) : ℤ) := by
        rw [if_neg (not_lt.mpr hs)] at hnp
        have : ¬ (scale > (N : ℤ) * ((2 ^ es : ℕ) : ℤ)) := by simpa using hnp
        omega
      have hk0 : 0 ≤ kOf es scale := Int.ediv_nonneg hs (le_of_lt hP)
      have hkN : kOf es scale ≤ N := by
        have : kOf es scale < (N : ℤ) + 1 := by
          unfold kOf; rw [Int.ediv_lt_iff_lt_mul hP]; nlinarith
        omega
      obtain ⟨m, hm⟩ : ∃ m : ℕ, (m : ℤ) = 1 + kOf es scale := ⟨(1 + kOf es scale).toNat, by omega⟩
      have hm1 : 1 ≤ m := by omega
      have hmN : m ≤ N + 1 := by omega
      have hrun : (1 + kOf es scale).toNat = m := by omega
      have hB := Benc_pos_regime N es m ((eOf es scale : ℚ) + (frac : ℚ) / 2 ^ fb) hm1 hmN
      rw [show (m : ℤ) - 1 = kOf es scale by omega] at hB
      obtain ⟨r1, r2⟩ := Benc_range N es (kOf es scale) _ (by omega) hkN hu0 hu2
      have := round_core N es (((N + 2 : ℕ) : ℤ) + 1 - (2 + (m : ℤ) + (es : ℤ))).toNat fb frac
        (2 ^ (m + 1) - 2) (eOf es scale).toNat m (1 + max (N + 2 + 1) (2 + m + es))
        (encS (N + 2) es scale ((frac : ℚ) / 2 ^ fb)) he_lt hfrac (by omega) (by omega) (by omega)
        (by have : 2 ≤ 2 ^ (m + 1) := by
              calc 2 = 2 ^ 1 := rfl
                _ ≤ 2 ^ (m + 1) := Nat.pow_le_pow_right (by norm_num) (by omega)
            omega)
        (by
          generalize hnf : (((N + 2 : ℕ) : ℤ) + 1 - (2 + (m : ℤ) + (es : ℤ))).toNat = nf
          generalize hj : (1 + max (N + 2 + 1) (2 + m + es)) - (N + 2) = j
          have h2le : 2 ≤ 2 ^ (m + 1) := by
            calc 2 = 2 ^ 1 := rfl
              _ ≤ 2 ^ (m + 1) := Nat.pow_le_pow_right (by norm_num) (by omega)
          have hX : (2 : ℚ) ^ (N + 1) * 2 ^ j = 2 ^ m * 2 ^ es * 2 ^ nf * 4 := by
            rw [← pow_add, show N + 1 + j = m + es + nf + 2 by omega]; ring
          have hY : (2 : ℚ) ^ (N + 1 - m) * 2 ^ j = 2 ^ es * 2 ^ nf * 4 := by
            rw [← pow_add, show N + 1 - m + j = es + nf + 2 by omega]; ring
          unfold encS
          rw [hB, heq]
          push_cast [Nat.cast_sub h2le]
          have hes : (0 : ℚ) < 2 ^ es := by positivity
          calc (2 ^ (N + 1) - 2 ^ (N + 1 - m) + 2 ^ (N + 1 - m) *
                  (((eOf es scale : ℚ) + (frac : ℚ) / 2 ^ fb) / 2 ^ es) / 2) * 2 ^ j
              = (2 : ℚ) ^ (N + 1) * 2 ^ j - 2 ^ (N + 1 - m) * 2 ^ j + 2 ^ (N + 1 - m) * 2 ^ j *
                  (((eOf es scale : ℚ) + (frac : ℚ) / 2 ^ fb) / 2 ^ es) / 2 := by ring
            _ = _ := by
              rw [hX, hY]; field_simp; ring)
        r1 r2
      simp only [hk_eq, he_eq, hrun, decide_eq_true hs, if_true]
      exact this
    · have hs' : scale < 0 := not_le.mp hs
      have hge : -((N : ℤ) * ((2 ^ es : ℕ) : ℤ)) ≤ scale := by
        rw [if_pos hs'] at hnp
        have : ¬ (scale < -((N : ℤ) * ((2 ^ es : ℕ) : ℤ))) := by simpa using hnp
        omega
      have hk0 : kOf es scale < 0 := by
        unfold kOf; rw [Int.ediv_lt_iff_lt_mul hP]; linarith
      have hkN : -(N : ℤ) ≤ kOf es scale := by
        unfold kOf; rw [Int.le_ediv_iff_mul_le hP]; linarith
      obtain ⟨m, hm⟩ : ∃ m : ℕ, (m : ℤ) = -kOf es scale := ⟨(-kOf es scale).toNat, by omega⟩
      have hm1 : 1 ≤ m := by omega
      have hmN : m ≤ N := by omega
      have hrun : (-kOf es scale).toNat = m := by omega
      have hB := Benc_neg_regime N es m ((eOf es scale : ℚ) + (frac : ℚ) / 2 ^ fb) hm1 hmN
      rw [show -(m : ℤ) = kOf es scale by omega] at hB
      obtain ⟨r1, r2⟩ := Benc_range N es (kOf es scale) _ hkN (by omega) hu0 hu2
      have := round_core N es (((N + 2 : ℕ) : ℤ) + 1 - (2 + (m : ℤ) + (es : ℤ))).toNat fb frac
        1 (eOf es scale).toNat m (1 + max (N + 2 + 1) (2 + m + es))
        (encS (N + 2) es scale ((frac : ℚ) / 2 ^ fb)) he_lt hfrac (by omega) (by omega) (by omega)
        (by have : 2 ≤ 2 ^ (m + 1) := by
              calc 2 = 2 ^ 1 := rfl
                _ ≤ 2 ^ (m + 1) := Nat.pow_le_pow_right (by norm_num) (by omega)
            omega)
        (by
          generalize hnf : (((N + 2 : ℕ) : ℤ) + 1 - (2 + (m : ℤ) + (es : ℤ))).toNat = nf
          generalize hj : (1 + max (N + 2 + 1) (2 + m + es)) - (N + 2) = j
          have hX : (2 : ℚ) ^ (N - m) * 2 ^ j = 2 ^ es * 2 ^ nf * 2 := by
            rw [← pow_add, show N - m + j = es + nf + 1 by omega]; ring
          unfold encS
          rw [hB, heq]
          have hes : (0 : ℚ) < 2 ^ es := by positivity
          calc (2 : ℚ) ^ (N - m) * (1 + ((eOf es scale : ℚ) + (frac : ℚ) / 2 ^ fb) / 2 ^ es) * 2 ^ j
              = (2 : ℚ) ^ (N - m) * 2 ^ j * (1 + ((eOf es scale : ℚ) + (frac : ℚ) / 2 ^ fb) / 2 ^ es) := by
                ring
            _ = _ := by
              rw [hX]; push_cast; field_simp; ring)
        r1 r2
      simp only [hk_eq, he_eq, hrun, decide_eq_false hs, Bool.false_eq_true, if_false]
      exact this

/-! ### convert_ with sign -/

theorem convert_sign (n es : ℕ) (scale : ℤ) (fb frac : ℕ) :
    convert_ n es true scale fb frac = twosComp n (convert_ n es false scale fb frac) := by
  unfold convert_
  split <;> simp

/-- value of a (sign, scale, fraction) triple -/
def tripleVal (sign : Bool) (scale : ℤ) (fb frac : ℕ) : ℚ :=
  (if sign then -1 else 1) * valS scale ((frac : ℚ) / 2 ^ fb)

/-- `convert_` returns the posit the Standard prescribes for the real (-1)^sign · 2^scale · (1 + frac/2^fb),
    for every nbits ≥ 2, every es, every input fraction width. -/
theorem convert_correct (n es : ℕ) (hn : 2 ≤ n) (sign : Bool) (scale : ℤ) (fb frac : ℕ)
    (hfrac : frac < 2 ^ fb) :
    nearestB n es (tripleVal sign scale fb frac) (convert_ n es sign scale fb frac) = true := by
  obtain ⟨N, rfl⟩ : ∃ N, n = N + 2 := ⟨n - 2, by omega⟩
  have hfp : (0 : ℚ) < 2 ^ fb := by positivity
  have hf0 : (0 : ℚ) ≤ (frac : ℚ) / 2 ^ fb := by positivity
  have hf1 : (frac : ℚ) / 2 ^ fb < 1 := by
    rw [div_lt_one hfp]; exact_mod_cast hfrac
  have hmag := convert_mag N es scale fb frac hfrac
  have hnm := (nearestMagB_iff (N + 2) es _ hn hf0 hf1).mpr hmag
  obtain ⟨hR1, hR2, _⟩ := hmag
  have hvpos : 0 < valS scale ((frac : ℚ) / 2 ^ fb) := valS_pos hf0
  have hp : 2 ^ (N + 2) = 2 * 2 ^ (N + 1) := by rw [pow_succ]; ring
  have hmx : maxposEnc (N + 2) < 2 ^ (N + 1) := by unfold maxposEnc; simp
  unfold nearestB tripleVal
  simp only [show N + 2 - 1 = N + 1 from rfl]
  cases sign
  · generalize convert_ (N + 2) es false scale fb frac = R at *
    simp only [Bool.false_eq_true, if_false, one_mul]
    rw [Nat.mod_eq_of_lt (by omega), if_neg (ne_of_gt hvpos), if_pos hvpos, hnm]
    simp; omega
  · rw [convert_sign]
    generalize convert_ (N + 2) es false scale fb frac = R at *
    have htc : twosComp (N + 2) R = 2 ^ (N + 2) - R := by
      unfold twosComp
      have e0 : R % 2 ^ (N + 2) = R := Nat.mod_eq_of_lt (by omega)
      rw [e0, Nat.mod_eq_of_lt (by omega)]
    have hneg : (-1 : ℚ) * valS scale ((frac : ℚ) / 2 ^ fb) < 0 := by linarith
    simp only [if_true]
    rw [htc, Nat.mod_eq_of_lt (by omega), if_neg (ne_of_lt hneg), if_neg (not_lt.mpr (le_of_lt hneg))]
    have e1 : 2 ^ (N + 2) - (2 ^ (N + 2) - R) = R := by omega
    have e2 : -(-1 * valS scale ((frac : ℚ) / 2 ^ fb)) = valS scale ((frac : ℚ) / 2 ^ fb) := by ring
    rw [e1, e2, hnm]
    simp; omega

end UVerif.Posit
