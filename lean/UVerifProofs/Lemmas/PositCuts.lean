/-
  UVerifProofs.Lemmas.PositCuts — two positive reals that compare alike with every (n+1)-bit posit
  value round to the same n-bit posit. (n+1)-bit posit values are (fbits+2)-bit integers times a power
  of two, so a sticky image (add/sub) or a sufficiently long truncation (div) keeps all comparisons.
-/
import UVerifProofs.Lemmas.PositSticky
import Mathlib.Algebra.Order.Archimedean.Basic

namespace UVerif.Posit

/-- every positive rational has coordinates 2^s(1+f) -/
theorem exists_coords (X : ℚ) (hX : 0 < X) : ∃ (s : ℤ) (f : ℚ), 0 ≤ f ∧ f < 1 ∧ X = valS s f := by
  obtain ⟨s, h1, h2⟩ := exists_mem_Ico_zpow hX (show (1 : ℚ) < 2 by norm_num)
  have hp := two_zpow_pos s
  refine ⟨s, X / 2 ^ s - 1, ?_, ?_, ?_⟩
  · rw [sub_nonneg, le_div_iff₀ hp]; linarith
  · rw [sub_lt_iff_lt_add, div_lt_iff₀ hp]
    rw [two_zpow_succ] at h2; linarith
  · unfold valS; field_simp; ring

theorem fbitsOf_succ_le (n es : ℕ) : fbitsOf (n + 1) es ≤ fbitsOf n es + 1 := by
  unfold fbitsOf; split <;> split <;> omega

/-- an (n+1)-bit posit magnitude value is m·2^(s-(fb+1)) with a (fb+2)-bit integer m, fb = fbits(n) -/
theorem cut_form (n es c : ℕ) (hn : 2 ≤ n) (hc0 : 0 < c) (hc : c < 2 ^ n) :
    ∃ (s : ℤ) (m : ℕ), 2 ^ (fbitsOf n es + 1) ≤ m ∧ m < 2 ^ (fbitsOf n es + 2) ∧
      posVal (n + 1) es c = (m : ℚ) * 2 ^ (s - ((fbitsOf n es : ℤ) + 1)) := by
  obtain ⟨N, rfl⟩ : ∃ N, n = N + 1 := ⟨n - 1, by omega⟩
  have hN : N + 1 + 1 = N + 2 := rfl
  have hbit : c.testBit (N + 1) = false := Nat.testBit_lt_two_pow hc
  have hy0 : 0 < (if c.testBit (N + 1) then twosComp (N + 2) c else c) := by rw [hbit]; simpa using hc0
  have hy : (if c.testBit (N + 1) then twosComp (N + 2) c else c) < 2 ^ (N + 1) := by
    rw [hbit]; simpa using hc
  obtain ⟨_, hnf⟩ := extract_spec N es c hy0 hy
  rw [hbit] at hnf
  simp only [Bool.false_eq_true, if_false] at hnf
  obtain ⟨_, f2, _, _, _⟩ := fields_spec N es c hc0 hc
  have hle := fbitsOf_succ_le (N + 1) es
  rw [hN] at hle
  generalize fbitsOf (N + 1) es = fb at *
  obtain ⟨d, hd⟩ : ∃ d, fb + 1 = (fields (N + 2) es c).nf + d := ⟨fb + 1 - (fields (N + 2) es c).nf, by omega⟩
  refine ⟨(fields (N + 2) es c).scale es, (2 ^ (fields (N + 2) es c).nf + (fields (N + 2) es c).f) * 2 ^ d,
    ?_, ?_, ?_⟩
  · rw [hd, pow_add]; exact Nat.mul_le_mul_right _ (by omega)
  · rw [show fb + 2 = (fields (N + 2) es c).nf + d + 1 by omega, pow_succ, pow_add]
    have : 2 ^ (fields (N + 2) es c).nf + (fields (N + 2) es c).f < 2 ^ (fields (N + 2) es c).nf * 2 := by omega
    calc _ < (2 ^ (fields (N + 2) es c).nf * 2) * 2 ^ d := Nat.mul_lt_mul_of_pos_right this (Nat.two_pow_pos _)
      _ = _ := by ring
  · unfold posVal
    simp only [hN]
    rw [pow2_eq_zpow]
    generalize fields (N + 2) es c = F at *
    have e : ((fb : ℤ) + 1) = ((F.nf + d : ℕ) : ℤ) := by rw [← hd]; push_cast; ring
    rw [e, zpow_sub₀ (by norm_num), zpow_natCast, pow_add]
    push_cast
    field_simp


/-- X and X' compare alike with every (n+1)-bit posit magnitude value -/
def SameCuts (n es : ℕ) (X X' : ℚ) : Prop :=
  ∀ c, 0 < c → c < 2 ^ n →
    (X < posVal (n + 1) es c ↔ X' < posVal (n + 1) es c) ∧
    (X = posVal (n + 1) es c ↔ X' = posVal (n + 1) es c)

theorem rneClamp_congr (n : ℕ) (hn : 2 ≤ n) (B B' : ℚ)
    (H : ∀ c : ℕ, 0 < c → c < 2 ^ n →
      (B < (c : ℚ) / 2 ↔ B' < (c : ℚ) / 2) ∧ (B = (c : ℚ) / 2 ↔ B' = (c : ℚ) / 2))
    (R : ℕ) (h : RneClamp n B R) : RneClamp n B' R := by
  have hp := two_pow_pred n (by omega)
  have h3 : 2 ≤ 2 ^ (n - 1) := by
    calc 2 = 2 ^ 1 := rfl
      _ ≤ 2 ^ (n - 1) := Nat.pow_le_pow_right (by norm_num) (by omega)
  obtain ⟨hR1, hR2, a3, a4, a5⟩ := h
  have hmx : maxposEnc n + 1 = 2 ^ (n - 1) := by unfold maxposEnc; omega
  have hle : ∀ c : ℕ, 0 < c → c < 2 ^ n → (B ≤ (c : ℚ) / 2 ↔ B' ≤ (c : ℚ) / 2) := by
    intro c h1 h2
    obtain ⟨x1, x2⟩ := H c h1 h2
    rw [le_iff_lt_or_eq, le_iff_lt_or_eq, x1, x2]
  have c2 : ((2 * maxposEnc n : ℕ) : ℚ) / 2 = (maxposEnc n : ℚ) := by push_cast; ring
  have c1 : ((2 : ℕ) : ℚ) / 2 = 1 := by norm_num
  have cm : ((2 * R - 1 : ℕ) : ℚ) / 2 = (R : ℚ) - 1 / 2 := by
    push_cast [Nat.cast_sub (show 1 ≤ 2 * R by omega)]; ring
  have cp : ((2 * R + 1 : ℕ) : ℚ) / 2 = (R : ℚ) + 1 / 2 := by push_cast; ring
  obtain ⟨m1, m2⟩ := H (2 * maxposEnc n) (by omega) (by omega)
  have m3 := hle 2 (by norm_num) (by omega)
  obtain ⟨o1, o2⟩ := H 2 (by norm_num) (by omega)
  obtain ⟨p1, p2⟩ := H (2 * R - 1) (by omega) (by omega)
  have p3 := hle (2 * R - 1) (by omega) (by omega)
  obtain ⟨q1, q2⟩ := H (2 * R + 1) (by omega) (by omega)
  rw [c2] at m1 m2
  rw [c1] at m3 o1 o2
  rw [cm] at p1 p2 p3
  rw [cp] at q1 q2
  refine ⟨hR1, hR2, fun hb => a3 ?_, fun hb => a4 (m3.mpr hb), fun hb1 hb2 => ?_⟩
  · rw [← not_lt] at hb ⊢; exact fun h => hb (m1.mp h)
  · have hb1' : 1 < B := by
      rw [← not_le] at hb1 ⊢; exact fun h => hb1 (m3.mp h)
    have := a5 hb1' (m1.mpr hb2)
    unfold IsRne at this ⊢
    rcases this with ⟨x, y⟩ | ⟨x | x, e⟩
    · left
      refine ⟨?_, q1.mp y⟩
      rw [← not_le] at x ⊢; exact fun h => x (p3.mpr h)
    · right; exact ⟨Or.inl (q2.mp x), e⟩
    · right; exact ⟨Or.inr (p2.mp x), e⟩

/-- reals with the same cuts have the same rounding -/
theorem nearestMagB_transfer (n es : ℕ) (hn : 2 ≤ n) (X X' : ℚ) (hX : 0 < X) (hX' : 0 < X')
    (h : SameCuts n es X X') (R : ℕ) : nearestMagB n es X R = nearestMagB n es X' R := by
  obtain ⟨s, f, hf0, hf1, rfl⟩ := exists_coords X hX
  obtain ⟨s', f', hf0', hf1', rfl⟩ := exists_coords X' hX'
  have hp : 2 ^ (n + 1 - 1) = 2 ^ n := by simp
  have H : ∀ c : ℕ, 0 < c → c < 2 ^ n →
      (encS n es s f < (c : ℚ) / 2 ↔ encS n es s' f' < (c : ℚ) / 2) ∧
      (encS n es s f = (c : ℚ) / 2 ↔ encS n es s' f' = (c : ℚ) / 2) := by
    intro c hc0 hc
    obtain ⟨x1, x2⟩ := h c hc0 hc
    have a1 := valS_lt_posVal_iff (n + 1) es c (by omega) hc0 (by rw [hp]; exact hc) (s := s) hf0 hf1
    have a2 := valS_lt_posVal_iff (n + 1) es c (by omega) hc0 (by rw [hp]; exact hc) (s := s') hf0' hf1'
    have b1 := posVal_eq_valS_iff (n + 1) es c (by omega) hc0 (by rw [hp]; exact hc) (s := s) hf0 hf1
    have b2 := posVal_eq_valS_iff (n + 1) es c (by omega) hc0 (by rw [hp]; exact hc) (s := s') hf0' hf1'
    rw [encS_succ n es _ _ (by omega)] at a1 a2 b1 b2
    constructor
    · rw [lt_div_iff₀ (by norm_num), lt_div_iff₀ (by norm_num), mul_comm, ← a1, mul_comm, ← a2]
      exact x1
    · rw [eq_div_iff (by norm_num), eq_div_iff (by norm_num), mul_comm, eq_comm, ← b1, mul_comm,
        eq_comm (a := 2 * encS n es s' f'), ← b2, eq_comm, x2, eq_comm]
  have H' : ∀ c : ℕ, 0 < c → c < 2 ^ n →
      (encS n es s' f' < (c : ℚ) / 2 ↔ encS n es s f < (c : ℚ) / 2) ∧
      (encS n es s' f' = (c : ℚ) / 2 ↔ encS n es s f = (c : ℚ) / 2) :=
    fun c a b => ⟨(H c a b).1.symm, (H c a b).2.symm⟩
  rw [Bool.eq_iff_iff, nearestMagB_iff n es R hn hf0 hf1, nearestMagB_iff n es R hn hf0' hf1']
  exact ⟨rneClamp_congr n hn _ _ H R, rneClamp_congr n hn _ _ H' R⟩


/-- comparisons with a cut m·2^e, scaled by the unit 2^g -/
theorem cut_scaled (S : ℚ) (g : ℤ) (T : ℚ) :
    (S * 2 ^ g < T ↔ S < T / 2 ^ g) ∧ (S * 2 ^ g = T ↔ S = T / 2 ^ g) := by
  have hp := two_zpow_pos g
  exact ⟨(lt_div_iff₀ hp).symm, (eq_div_iff (ne_of_gt hp)).symm⟩

/-- the sticky image of S has the same cuts as S, provided S is exact or at least 2^(fbits+2) units -/
theorem sticky_sameCuts (n es : ℕ) (hn : 2 ≤ n) (S : ℚ) (S' : ℕ) (g : ℤ) (hst : Sticky S S')
    (hcond : (S' : ℚ) = S ∨ (2 : ℚ) ^ (fbitsOf n es + 2) ≤ S) :
    SameCuts n es (S * 2 ^ g) ((S' : ℚ) * 2 ^ g) := by
  intro c hc0 hc
  rcases hcond with hcond | hcond
  · rw [hcond]; exact ⟨Iff.rfl, Iff.rfl⟩
  obtain ⟨sT, m, hm1, hm2, hT⟩ := cut_form n es c hn hc0 hc
  rw [hT]
  obtain ⟨a1, a2⟩ := cut_scaled S g ((m : ℚ) * 2 ^ (sT - ((fbitsOf n es : ℤ) + 1)))
  obtain ⟨b1, b2⟩ := cut_scaled (S' : ℚ) g ((m : ℚ) * 2 ^ (sT - ((fbitsOf n es : ℤ) + 1)))
  rw [a1, a2, b1, b2]
  have hdiv : (m : ℚ) * 2 ^ (sT - ((fbitsOf n es : ℤ) + 1)) / 2 ^ g
      = (m : ℚ) * 2 ^ (sT - ((fbitsOf n es : ℤ) + 1) - g) := by
    rw [mul_div_assoc, ← zpow_sub₀ (by norm_num)]
  rw [hdiv]
  generalize sT - ((fbitsOf n es : ℤ) + 1) - g = d
  generalize fbitsOf n es = fb at *
  by_cases hd : 1 ≤ d
  · obtain ⟨k, hk⟩ : ∃ k : ℕ, d = (k : ℤ) + 1 := ⟨(d - 1).toNat, by omega⟩
    have e : (m : ℚ) * 2 ^ d = 2 * (((m * 2 ^ k : ℕ) : ℤ) : ℚ) := by
      rw [hk, zpow_add₀ (by norm_num), zpow_natCast]; push_cast; ring
    rw [e]
    obtain ⟨x1, x2, _⟩ := sticky_cmp hst ((m * 2 ^ k : ℕ) : ℤ)
    exact ⟨x1, x2⟩
  · have hle : (m : ℚ) * 2 ^ d ≤ (m : ℚ) := by
      have : (2 : ℚ) ^ d ≤ 2 ^ (0 : ℤ) := zpow_le_zpow_right₀ (by norm_num) (by omega)
      rw [zpow_zero] at this
      have hm0 : (0 : ℚ) ≤ (m : ℚ) := by positivity
      nlinarith
    have hmq : (m : ℚ) < 2 ^ (fb + 2) := by exact_mod_cast hm2
    have hS : (m : ℚ) * 2 ^ d < S := by linarith
    have hS' : (2 : ℚ) ^ (fb + 2) ≤ (S' : ℚ) := by
      have := sticky_ge_even hst (2 ^ (fb + 1)) (by push_cast; rw [pow_succ] at hcond; linarith)
      have h2 : ((2 * 2 ^ (fb + 1) : ℕ) : ℚ) ≤ (S' : ℚ) := by exact_mod_cast this
      push_cast at h2; rw [pow_succ]; linarith
    have hS'' : (m : ℚ) * 2 ^ d < (S' : ℚ) := by linarith
    constructor
    · exact ⟨fun h => absurd h (not_lt.mpr (le_of_lt hS)), fun h => absurd h (not_lt.mpr (le_of_lt hS''))⟩
    · exact ⟨fun h => absurd h (ne_of_gt hS), fun h => absurd h (ne_of_gt hS'')⟩

end UVerif.Posit
