/-
  UVerifProofs.Lemmas.PositDecode — `decode` (decode_regime, assign_regime_pattern, extract_fields)
  returns the (sign, scale, fraction) triple whose value is the Standard's value of the encoding.
-/
import UVerifProofs.Lemmas.PositConvert

namespace UVerif.Posit

theorem runLen_pos_top (y N : ℕ) : 1 ≤ runLen y (y.testBit N) (N + 1) := by
  unfold runLen; simp

theorem runLen_zero_le (y N : ℕ) (hy0 : 0 < y) (hy : y < 2 ^ (N + 1)) (_ : y.testBit N = false) :
    runLen y false (N + 1) ≤ N := by
  obtain ⟨hs1, _⟩ := runLen_spec y false (N + 1)
  have hle := runLen_le y false (N + 1)
  by_contra hc
  have : runLen y false (N + 1) = N + 1 := by omega
  rw [this, Nat.mod_eq_of_lt hy] at hs1
  simp [Nat.mod_one] at hs1
  omega

/-- the regime decoded by the C++ (`decode_regime` + `assign_regime_pattern`) is the Standard's -/
theorem regime_eq (N es y : ℕ) (hy0 : 0 < y) (hy : y < 2 ^ (N + 1)) :
    assignRegimePattern (N + 2) (decodeRegime (N + 2) y) =
      ((fields (N + 2) es y).k, min (runLen y (y.testBit N) (N + 1) + 1) (N + 1)) := by
  have hm1 := runLen_pos_top y N
  have hle := runLen_le y (y.testBit N) (N + 1)
  have hk : (fields (N + 2) es y).k =
      if y.testBit N then (runLen y (y.testBit N) (N + 1) : ℤ) - 1
      else -(runLen y (y.testBit N) (N + 1) : ℤ) := by
    unfold fields; simp only [show N + 2 - 2 = N from rfl, show N + 2 - 1 = N + 1 from rfl]
  rw [hk]
  unfold decodeRegime assignRegimePattern
  simp only [show N + 2 - 2 = N from rfl, show N + 2 - 1 = N + 1 from rfl]
  rcases Nat.eq_zero_or_pos N with rfl | hN
  · -- n = 2: the only magnitude is 1
    have : y = 1 := by omega
    subst this
    simp [runLen]
  · have hst : (if N + 2 = 2 then N else N + 2 - 3) + 1 = N := by
      rw [if_neg (by omega)]; omega
    rw [hst]
    have hrun : runLen y (y.testBit N) (N + 1) = runLen y (y.testBit N) N + 1 := by
      conv_lhs => unfold runLen
      simp
    have hNN : ((N + 2 : ℕ) : ℤ) - 2 = (N : ℤ) := by push_cast; ring
    rw [hNN]
    cases ht : y.testBit N
    · have hz := runLen_zero_le y N hy0 hy ht
      rw [ht] at hrun hm1 hle
      simp only [Bool.false_eq_true, if_false]
      rw [hrun] at hz ⊢
      generalize runLen y false N = r at *
      rw [show (1 : ℕ) + r = r + 1 by omega]
      split_ifs <;> first | (exfalso; omega) | (refine Prod.ext ?_ ?_ <;> simp only [] <;> omega)
    · rw [ht] at hrun hm1 hle
      simp only [if_true]
      rw [hrun] at hle ⊢
      generalize runLen y true N = r at *
      rw [show (1 : ℕ) + r = r + 1 by omega]
      split_ifs <;> first | (exfalso; omega) | (refine Prod.ext ?_ ?_ <;> simp only [] <;> omega)


theorem fields_parts (N es y : ℕ) :
    (fields (N + 2) es y).e =
      ((y % 2 ^ (N - runLen y (y.testBit N) (N + 1))) >>>
        ((N - runLen y (y.testBit N) (N + 1)) - min es (N - runLen y (y.testBit N) (N + 1)))) <<<
        (es - min es (N - runLen y (y.testBit N) (N + 1))) ∧
    (fields (N + 2) es y).nf =
      (N - runLen y (y.testBit N) (N + 1)) - min es (N - runLen y (y.testBit N) (N + 1)) ∧
    (fields (N + 2) es y).f =
      y % 2 ^ (N - runLen y (y.testBit N) (N + 1)) %
        2 ^ ((N - runLen y (y.testBit N) (N + 1)) - min es (N - runLen y (y.testBit N) (N + 1))) := by
  unfold fields
  simp only [show N + 2 - 2 = N from rfl, show N + 2 - 1 = N + 1 from rfl]
  rw [show N + 1 - runLen y (y.testBit N) (N + 1) - 1 = N - runLen y (y.testBit N) (N + 1) by omega]
  exact ⟨rfl, rfl, rfl⟩

theorem extract_spec (N es raw : ℕ) 
    (hy0 : 0 < (if raw.testBit (N + 1) then twosComp (N + 2) raw else raw))
    (hy : (if raw.testBit (N + 1) then twosComp (N + 2) raw else raw) < 2 ^ (N + 1)) :
    extractFields (N + 2) es raw =
      { sign := raw.testBit (N + 1),
        scale := (fields (N + 2) es (if raw.testBit (N + 1) then twosComp (N + 2) raw else raw)).scale es,
        frac := (fields (N + 2) es (if raw.testBit (N + 1) then twosComp (N + 2) raw else raw)).f <<<
          (fbitsOf (N + 2) es -
            (fields (N + 2) es (if raw.testBit (N + 1) then twosComp (N + 2) raw else raw)).nf),
        fb := fbitsOf (N + 2) es } ∧
    (fields (N + 2) es (if raw.testBit (N + 1) then twosComp (N + 2) raw else raw)).nf
      ≤ fbitsOf (N + 2) es := by
  unfold extractFields
  simp only [show N + 2 - 1 = N + 1 from rfl]
  generalize (if raw.testBit (N + 1) then twosComp (N + 2) raw else raw) = y at *
  rw [regime_eq N es y hy0 hy]
  simp only []
  have hm1 := runLen_pos_top y N
  have hle := runLen_le y (y.testBit N) (N + 1)
  obtain ⟨fe, fnf, ff⟩ := fields_parts N es y
  unfold Fields.scale
  rw [fe, fnf, ff]
  generalize runLen y (y.testBit N) (N + 1) = m at *
  have hmsb : (((N + 2 : ℕ) : ℤ) - 1 - (1 + ((min (m + 1) (N + 1) : ℕ) : ℤ))) = ((N - m : ℕ) : ℤ) - 1 := by
    omega
  rw [hmsb]
  have hnle : N - m ≤ N - 1 := by omega
  generalize N - m = nrem at *
  have hne : (if es > 0 ∧ (nrem : ℤ) - 1 ≥ 0 then
      (if (nrem : ℤ) - 1 ≥ (es : ℤ) - 1 then es else ((nrem : ℤ) - 1 + 1).toNat) else 0) = min es nrem := by
    split_ifs <;> omega
  rw [hne]
  have h3 : ((nrem : ℤ) - 1 + 1).toNat = nrem := by omega
  rw [h3]
  have hnfr : (if (nrem : ℤ) - 1 - ((min es nrem : ℕ) : ℤ) < 0 then 0
      else ((nrem : ℤ) - 1 - ((min es nrem : ℕ) : ℤ) + 1).toNat) = nrem - min es nrem := by
    split_ifs <;> omega
  rw [hnfr]
  have he : (if min es nrem = 0 then 0
      else (y >>> (nrem - min es nrem) % 2 ^ min es nrem) <<< (es - min es nrem)) =
      (y % 2 ^ nrem) >>> (nrem - min es nrem) <<< (es - min es nrem) := by
    have hsplit : 2 ^ nrem = 2 ^ (nrem - min es nrem) * 2 ^ min es nrem := by
      rw [← pow_add]; congr 1; omega
    have hcore : (y % 2 ^ nrem) >>> (nrem - min es nrem) = y >>> (nrem - min es nrem) % 2 ^ min es nrem := by
      rw [Nat.shiftRight_eq_div_pow, Nat.shiftRight_eq_div_pow, hsplit, Nat.mod_mul_right_div_self]
    rw [hcore]
    split
    · rename_i h0; rw [h0]; simp [Nat.mod_one]
    · rfl
  have hf : y % 2 ^ nrem % 2 ^ (nrem - min es nrem) = y % 2 ^ (nrem - min es nrem) :=
    Nat.mod_mod_of_dvd y (pow_dvd_pow 2 (Nat.sub_le _ _))
  rw [he, hf]
  refine ⟨rfl, ?_⟩
  unfold fbitsOf
  split <;> omega


theorem testBit_top (N a : ℕ) (ha : a < 2 ^ (N + 2)) :
    a.testBit (N + 1) = decide (2 ^ (N + 1) ≤ a) := by
  have hp : 2 ^ (N + 2) = 2 * 2 ^ (N + 1) := by rw [pow_succ]; ring
  by_cases h : 2 ^ (N + 1) ≤ a
  · rw [Nat.testBit_eq_decide_div_mod_eq]
    have : a / 2 ^ (N + 1) = 1 := by
      apply Nat.div_eq_of_lt_le <;> omega
    simp [this, h]
  · rw [Nat.testBit_lt_two_pow (by omega)]; simp [h]

/-- decoding a non-special encoding yields a triple with the Standard's value -/
theorem decode_value (n es a : ℕ) (hn : 2 ≤ n) (ha : a < 2 ^ n) (h0 : a ≠ 0)
    (hnar : a ≠ 2 ^ (n - 1)) :
    positVal n es a = some (decode n es a).toRat ∧ (decode n es a).zero = false ∧
    (decode n es a).inf = false ∧ (decode n es a).frac < 2 ^ (decode n es a).fb ∧
    (decode n es a).fb = fbitsOf n es ∧
    (decode n es a).toRat = tripleVal (decode n es a).sign (decode n es a).scale (decode n es a).fb
      (decode n es a).frac := by
  obtain ⟨N, rfl⟩ : ∃ N, n = N + 2 := ⟨n - 2, by omega⟩
  simp only [show N + 2 - 1 = N + 1 from rfl] at hnar
  have hp : 2 ^ (N + 2) = 2 * 2 ^ (N + 1) := by rw [pow_succ]; ring
  have hpos : 0 < 2 ^ (N + 1) := by positivity
  have htb := testBit_top N a ha
  have hy0 : 0 < (if a.testBit (N + 1) then twosComp (N + 2) a else a) := by
    rw [htb]; unfold twosComp
    by_cases h : 2 ^ (N + 1) ≤ a
    · simp only [h, decide_true, if_true]
      rw [Nat.mod_eq_of_lt ha, Nat.mod_eq_of_lt (by omega)]; omega
    · simp only [h, decide_false, Bool.false_eq_true, if_false]; omega
  have hy : (if a.testBit (N + 1) then twosComp (N + 2) a else a) < 2 ^ (N + 1) := by
    rw [htb]; unfold twosComp
    by_cases h : 2 ^ (N + 1) ≤ a
    · simp only [h, decide_true, if_true]
      rw [Nat.mod_eq_of_lt ha, Nat.mod_eq_of_lt (by omega)]; omega
    · simp only [h, decide_false, Bool.false_eq_true, if_false]; omega
  obtain ⟨hex, hnf⟩ := extract_spec N es a hy0 hy
  obtain ⟨f1, f2, _, _, _⟩ := fields_spec N es _ hy0 hy
  have hdec : decode (N + 2) es a = extractFields (N + 2) es a := by
    unfold decode
    simp only [Nat.mod_eq_of_lt ha, show N + 2 - 1 = N + 1 from rfl, if_neg h0, if_neg hnar]
  rw [hdec, hex]
  have hyv : (if a.testBit (N + 1) then twosComp (N + 2) a else a) =
      if 2 ^ (N + 1) ≤ a then 2 ^ (N + 2) - a else a := by
    rw [htb]; unfold twosComp
    by_cases h : 2 ^ (N + 1) ≤ a
    · simp only [h, decide_true, if_true]
      rw [Nat.mod_eq_of_lt ha, Nat.mod_eq_of_lt (by omega)]
    · simp only [h, decide_false, Bool.false_eq_true, if_false]
  generalize (if a.testBit (N + 1) then twosComp (N + 2) a else a) = y at *
  generalize hF : fields (N + 2) es y = F at *
  obtain ⟨d, hd⟩ : ∃ d, fbitsOf (N + 2) es = F.nf + d := ⟨fbitsOf (N + 2) es - F.nf, by omega⟩
  have hfrac_lt : F.f <<< (fbitsOf (N + 2) es - F.nf) < 2 ^ fbitsOf (N + 2) es := by
    rw [hd, Nat.add_sub_cancel_left, Nat.shiftLeft_eq, pow_add]
    exact Nat.mul_lt_mul_of_pos_right f2 (Nat.two_pow_pos _)
  have hm : (1 + ((F.f <<< (fbitsOf (N + 2) es - F.nf) : ℕ) : ℚ) / ((2 ^ fbitsOf (N + 2) es : ℕ) : ℚ))
      * pow2 (F.scale es) = posVal (N + 2) es y := by
    unfold posVal; simp only [hF]
    rw [hd, Nat.add_sub_cancel_left, Nat.shiftLeft_eq]
    push_cast; rw [pow_add]
    congr 2
    field_simp
  refine ⟨?_, rfl, rfl, hfrac_lt, rfl, ?_⟩
  · unfold positVal Val.toRat
    simp only [Nat.mod_eq_of_lt ha, show N + 2 - 1 = N + 1 from rfl, if_neg h0, if_neg hnar,
      Bool.false_eq_true, if_false, hm, htb]
    by_cases h : 2 ^ (N + 1) ≤ a
    · rw [if_neg (by omega)]
      simp only [h, decide_true, if_true]
      rw [hyv, if_pos h]
    · rw [if_pos (by omega)]
      simp only [h, decide_false, Bool.false_eq_true, if_false]
      rw [hyv, if_neg h]
  · unfold Val.toRat tripleVal valS
    simp only [Bool.false_eq_true, if_false, pow2_eq_zpow]
    push_cast
    cases a.testBit (N + 1) <;> simp <;> ring

end UVerif.Posit
