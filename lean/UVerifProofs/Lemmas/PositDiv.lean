/-
  UVerifProofs.Lemmas.PositDiv — `module_divide`: the quotient truncated at 2·fhbits+4 fraction bits
  compares with every (n+1)-bit posit like the exact quotient (a quotient of two fhbits-bit
  significands that reaches a (fbits+2)-bit cut from above by less than one unit equals it).
-/
import UVerifProofs.Lemmas.PositAdd

namespace UVerif.Posit

/-- value of a normalised integer in a fraction field of width W -/
theorem norm_value_gen (W : ℕ) (t : ℤ) (d h sh : ℕ) (σ : Bool) (hh : h + sh = W)
    (hd1 : 2 ^ h ≤ d) (hd2 : d < 2 ^ (h + 1)) :
    (Val.mk σ t (d * 2 ^ sh - 2 ^ W) W false false).Fin ∧
    (Val.mk σ t (d * 2 ^ sh - 2 ^ W) W false false).toRat = sgn σ * ((d : ℚ) * 2 ^ (t - (h : ℤ))) := by
  have e1 : 2 ^ W = 2 ^ h * 2 ^ sh := by rw [← pow_add, hh]
  have hlo : 2 ^ W ≤ d * 2 ^ sh := by rw [e1]; exact Nat.mul_le_mul_right _ hd1
  have hhi : d * 2 ^ sh < 2 * 2 ^ W := by
    rw [e1, ← mul_assoc, ← pow_succ']
    exact Nat.mul_lt_mul_of_pos_right hd2 (Nat.two_pow_pos _)
  refine ⟨⟨rfl, rfl, ?_⟩, ?_⟩
  · show d * 2 ^ sh - 2 ^ W < 2 ^ W
    omega
  · rw [toRat_eq_tripleVal _ rfl]
    show tripleVal σ t W (d * 2 ^ sh - 2 ^ W) = _
    unfold tripleVal valS sgn
    have hc : ((d * 2 ^ sh - 2 ^ W : ℕ) : ℚ) = (d : ℚ) * 2 ^ sh - 2 ^ W := by
      push_cast [Nat.cast_sub hlo]; ring
    have e2 : (2 : ℚ) ^ t = 2 ^ (t - (h : ℤ)) * 2 ^ h := by
      rw [← zpow_natCast, ← zpow_add₀ (by norm_num)]; congr 1; ring
    have e3 : (2 : ℚ) ^ W = 2 ^ h * 2 ^ sh := by exact_mod_cast e1
    rw [hc, e2, e3]
    have h1 : (0 : ℚ) < 2 ^ h := by positivity
    have h2 : (0 : ℚ) < 2 ^ sh := by positivity
    cases σ <;> simp <;> field_simp <;> ring

/-- `module_divide`: the result is the quotient truncated at 2·fh+4 fraction bits -/
theorem moduleDiv_value (fb : ℕ) (a b : Val) (ha : a.Fin) (hb : b.Fin) (hfa : a.fb = fb)
    (hfb : b.fb = fb) (hpos : 0 < fb) :
    (moduleDiv fb a b).Fin ∧
    (moduleDiv fb a b).toRat = sgn (a.sign != b.sign) *
      ((((2 ^ fb + a.frac) * 2 ^ (2 * fb + 6) / (2 ^ fb + b.frac) : ℕ) : ℚ) *
        2 ^ (a.scale - b.scale - ((2 * fb + 6 : ℕ) : ℤ))) ∧
    2 ^ (2 * fb + 5) ≤ (2 ^ fb + a.frac) * 2 ^ (2 * fb + 6) / (2 ^ fb + b.frac) := by
  have hla : a.frac < 2 ^ fb := by rw [← hfa]; exact ha.lt
  have hlb : b.frac < 2 ^ fb := by rw [← hfb]; exact hb.lt
  have hdv : 3 * (fb + 1) + 4 = 3 * fb + 7 := by omega
  unfold moduleDiv
  have hK' : 3 * fb + 7 - (fb + 1) = 2 * fb + 6 := by omega
  simp only [ha.ni, hb.ni, ha.nz, hb.nz, Bool.or_self, Bool.false_eq_true, if_false, if_pos hpos, hdv, hK']
  set q := (2 ^ fb + a.frac) * 2 ^ (2 * fb + 6) / (2 ^ fb + b.frac) with hq
  have hxb : 0 < 2 ^ fb + b.frac := by positivity
  have hqlo : 2 ^ (2 * fb + 5) ≤ q := by
    rw [hq, Nat.le_div_iff_mul_le hxb]
    calc 2 ^ (2 * fb + 5) * (2 ^ fb + b.frac) ≤ 2 ^ (2 * fb + 5) * (2 * 2 ^ fb) :=
          Nat.mul_le_mul_left _ (by omega)
      _ = 2 ^ fb * 2 ^ (2 * fb + 6) := by rw [pow_succ 2 (2 * fb + 5)]; ring
      _ ≤ (2 ^ fb + a.frac) * 2 ^ (2 * fb + 6) := Nat.mul_le_mul_right _ (by omega)
  have hqhi : q < 2 ^ (2 * fb + 7) := by
    rw [hq, Nat.div_lt_iff_lt_mul hxb]
    calc (2 ^ fb + a.frac) * 2 ^ (2 * fb + 6) < (2 * 2 ^ fb) * 2 ^ (2 * fb + 6) :=
          Nat.mul_lt_mul_of_pos_right (by omega) (Nat.two_pow_pos _)
      _ = 2 ^ (2 * fb + 7) * 2 ^ fb := by rw [pow_succ 2 (2 * fb + 6)]; ring
      _ ≤ 2 ^ (2 * fb + 7) * (2 ^ fb + b.frac) := Nat.mul_le_mul_left _ (by omega)
  have hq0 : 0 < q := lt_of_lt_of_le (Nat.two_pow_pos _) hqlo
  obtain ⟨l1, l2⟩ := log2_bounds q hq0
  have hlog1 : 2 * fb + 5 ≤ q.log2 := by
    by_contra hc
    have : q < 2 ^ (2 * fb + 5) := by
      calc q < 2 ^ (q.log2 + 1) := l2
        _ ≤ 2 ^ (2 * fb + 5) := Nat.pow_le_pow_right (by norm_num) (by omega)
    omega
  have hlog2 : q.log2 ≤ 2 * fb + 6 := by
    by_contra hc
    have : 2 ^ (2 * fb + 7) ≤ q := by
      calc 2 ^ (2 * fb + 7) ≤ 2 ^ q.log2 := Nat.pow_le_pow_right (by norm_num) (by omega)
        _ ≤ q := l1
    omega
  generalize q.log2 = h at *
  have hsh : fb + 1 + (2 * fb + 6 - h) = 3 * fb + 7 - h := by omega
  rw [hsh]
  have hhs : h + (3 * fb + 7 - h) = 3 * fb + 7 := by omega
  have hfr : (q <<< (3 * fb + 7 - h)) % 2 ^ (3 * fb + 7) = q * 2 ^ (3 * fb + 7 - h) - 2 ^ (3 * fb + 7) := by
    rw [Nat.shiftLeft_eq]
    have e1 : 2 ^ (3 * fb + 7) = 2 ^ h * 2 ^ (3 * fb + 7 - h) := by rw [← pow_add, hhs]
    have hlo : 2 ^ (3 * fb + 7) ≤ q * 2 ^ (3 * fb + 7 - h) := by rw [e1]; exact Nat.mul_le_mul_right _ l1
    have hhi2 : q * 2 ^ (3 * fb + 7 - h) < 2 * 2 ^ (3 * fb + 7) := by
      rw [e1, ← mul_assoc, ← pow_succ']
      exact Nat.mul_lt_mul_of_pos_right l2 (Nat.two_pow_pos _)
    have e3 : q * 2 ^ (3 * fb + 7 - h) = (q * 2 ^ (3 * fb + 7 - h) - 2 ^ (3 * fb + 7)) + 2 ^ (3 * fb + 7) := by
      omega
    rw [e3, Nat.add_mod_right, Nat.mod_eq_of_lt (by omega)]
    omega
  rw [hfr]
  obtain ⟨n1, n2⟩ := norm_value_gen (3 * fb + 7)
    (a.scale - b.scale - (((3 * fb + 7 - h : ℕ) : ℤ) - ((fb + 1 : ℕ) : ℤ))) q h (3 * fb + 7 - h)
    (a.sign != b.sign) hhs l1 l2
  refine ⟨n1, ?_, hqlo⟩
  rw [n2]
  congr 3
  push_cast [Nat.cast_sub (show h ≤ 3 * fb + 7 by omega)]
  ring


/-- a truncated quotient ⌊num/xb⌋ has the same cuts as the exact quotient when the numerator is a
    multiple of 2^L ≥ xb and the quotient has at least fbits+2+L bits -/
theorem trunc_sameCuts (n es : ℕ) (hn : 2 ≤ n) (L num xb : ℕ) (hxb0 : 0 < xb)
    (hxb : xb ≤ 2 ^ L) (hdvdN : 2 ^ L ∣ num)
    (hqlo : 2 ^ (fbitsOf n es + 1 + L) ≤ num / xb) (g : ℤ) :
    SameCuts n es (((num : ℚ) / (xb : ℚ)) * 2 ^ g) (((num / xb : ℕ) : ℚ) * 2 ^ g) := by
  intro c hc0 hc
  obtain ⟨sT, m, hm1, hm2, hT⟩ := cut_form n es c hn hc0 hc
  rw [hT]
  generalize fbitsOf n es = fb at *
  set q := num / xb with hq
  set S : ℚ := (num : ℚ) / (xb : ℚ) with hS
  obtain ⟨a1, a2⟩ := cut_scaled S g ((m : ℚ) * 2 ^ (sT - ((fb : ℤ) + 1)))
  obtain ⟨b1, b2⟩ := cut_scaled (q : ℚ) g ((m : ℚ) * 2 ^ (sT - ((fb : ℤ) + 1)))
  rw [a1, a2, b1, b2]
  have hdiv : (m : ℚ) * 2 ^ (sT - ((fb : ℤ) + 1)) / 2 ^ g
      = (m : ℚ) * 2 ^ (sT - ((fb : ℤ) + 1) - g) := by
    rw [mul_div_assoc, ← zpow_sub₀ (by norm_num)]
  rw [hdiv]
  generalize sT - ((fb : ℤ) + 1) - g = d
  have hxbq : (0 : ℚ) < (xb : ℚ) := by exact_mod_cast hxb0
  -- floor facts
  have hf1 : q * xb ≤ num := Nat.div_mul_le_self _ _
  have hf2 : num < (q + 1) * xb := by
    have := Nat.lt_mul_div_succ num hxb0
    rw [hq, mul_comm (num / xb + 1) xb]; exact this
  have hq1 : (q : ℚ) ≤ S := by
    rw [hS, le_div_iff₀ hxbq]; exact_mod_cast hf1
  have hq2 : S < (q : ℚ) + 1 := by
    rw [hS, div_lt_iff₀ hxbq]; exact_mod_cast hf2
  by_cases hd : (L : ℤ) ≤ d
  · obtain ⟨k, hk⟩ : ∃ k : ℕ, d = (k : ℤ) + (L : ℤ) := ⟨(d - (L : ℤ)).toNat, by omega⟩
    have e : (m : ℚ) * 2 ^ d = ((m * 2 ^ k * 2 ^ L : ℕ) : ℚ) := by
      rw [hk, zpow_add₀ (by norm_num), zpow_natCast, zpow_natCast]; push_cast; ring
    rw [e]
    generalize htn : m * 2 ^ k * 2 ^ L = tn
    constructor
    · constructor
      · intro h
        exact lt_of_le_of_lt hq1 h
      · intro h
        have : q + 1 ≤ tn := by
          have : q < tn := by exact_mod_cast h
          omega
        have : ((q + 1 : ℕ) : ℚ) ≤ (tn : ℚ) := by exact_mod_cast this
        push_cast at this; linarith
    · constructor
      · intro h
        rw [h] at hq1 hq2
        have h1 : q ≤ tn := by exact_mod_cast hq1
        have h2 : tn < q + 1 := by exact_mod_cast hq2
        have : q = tn := by omega
        rw [this]
      · intro h
        have hqt : q = tn := by exact_mod_cast h
        rw [hqt] at hf1 hf2
        -- D = num − tn·xb is a multiple of 2^L below xb ≤ 2^L
        have hdvd : 2 ^ L ∣ num - tn * xb := by
          apply Nat.dvd_sub hdvdN
          rw [← htn]
          exact Dvd.intro_left (m * 2 ^ k * xb) (by ring)
        have hlt : num - tn * xb < 2 ^ L := by
          have h3 : num - tn * xb < xb := by
            rw [Nat.add_mul, Nat.one_mul] at hf2; omega
          omega
        have hz : num - tn * xb = 0 := Nat.eq_zero_of_dvd_of_lt hdvd hlt
        have heq : num = tn * xb := by omega
        rw [hS, div_eq_iff (ne_of_gt hxbq)]
        exact_mod_cast heq
  · have hL1 : 1 ≤ L ∨ L = 0 := by omega
    have hle : (m : ℚ) * 2 ^ d < (2 : ℚ) ^ (fb + 1 + L) := by
      have h1 : (2 : ℚ) ^ d ≤ 2 ^ ((L : ℤ) - 1) := zpow_le_zpow_right₀ (by norm_num) (by omega)
      have hm0 : (0 : ℚ) ≤ (m : ℚ) := by positivity
      have hmq : (m : ℚ) < 2 ^ (fb + 2) := by exact_mod_cast hm2
      have hz := two_zpow_pos ((L : ℤ) - 1)
      have e : (2 : ℚ) ^ (fb + 2) * 2 ^ ((L : ℤ) - 1) = 2 ^ (fb + 1 + L) := by
        rw [← zpow_natCast, ← zpow_add₀ (by norm_num), ← zpow_natCast]; congr 1; push_cast; ring
      calc (m : ℚ) * 2 ^ d ≤ (m : ℚ) * 2 ^ ((L : ℤ) - 1) := mul_le_mul_of_nonneg_left h1 hm0
        _ < 2 ^ (fb + 2) * 2 ^ ((L : ℤ) - 1) := by apply mul_lt_mul_of_pos_right hmq hz
        _ = 2 ^ (fb + 1 + L) := e
    have hqq : (2 : ℚ) ^ (fb + 1 + L) ≤ (q : ℚ) := by exact_mod_cast hqlo
    have hS' : (m : ℚ) * 2 ^ d < S := by linarith
    have hq' : (m : ℚ) * 2 ^ d < (q : ℚ) := by linarith
    constructor
    · exact ⟨fun h => absurd h (not_lt.mpr (le_of_lt hS')), fun h => absurd h (not_lt.mpr (le_of_lt hq'))⟩
    · exact ⟨fun h => absurd h (ne_of_gt hS'), fun h => absurd h (ne_of_gt hq')⟩

/-- the truncated quotient of `module_divide` has the same cuts as the exact quotient -/
theorem div_sameCuts (n es : ℕ) (hn : 2 ≤ n) (xa xb : ℕ) (hxb0 : 0 < xb)
    (hxb : xb < 2 ^ (fbitsOf n es + 1))
    (hqlo : 2 ^ (2 * fbitsOf n es + 5) ≤ xa * 2 ^ (2 * fbitsOf n es + 6) / xb) (g : ℤ) :
    SameCuts n es (((xa : ℚ) * 2 ^ (2 * fbitsOf n es + 6) / (xb : ℚ)) * 2 ^ g)
      (((xa * 2 ^ (2 * fbitsOf n es + 6) / xb : ℕ) : ℚ) * 2 ^ g) := by
  have h := trunc_sameCuts n es hn (fbitsOf n es + 4) (xa * 2 ^ (2 * fbitsOf n es + 6)) xb hxb0
    (le_trans (le_of_lt hxb) (Nat.pow_le_pow_right (by norm_num) (by omega)))
    (by have : 2 ^ (2 * fbitsOf n es + 6) = 2 ^ (fbitsOf n es + 2) * 2 ^ (fbitsOf n es + 4) := by
          rw [← pow_add]; congr 1; ring
        rw [this, ← mul_assoc]; exact Dvd.intro_left _ rfl)
    (by rw [show fbitsOf n es + 1 + (fbitsOf n es + 4) = 2 * fbitsOf n es + 5 by ring]; exact hqlo) g
  push_cast at h ⊢
  exact h


theorem sgn_div (s t : Bool) : sgn s / sgn t = sgn (s != t) := by
  unfold sgn; cases s <;> cases t <;> simp

theorem sgn_ne_zero (s : Bool) : sgn s ≠ 0 := by unfold sgn; cases s <;> simp

/-- `module_divide` followed by `convert` is the correctly rounded quotient -/
theorem moduleDiv_correct (n es : ℕ) (hn : 2 ≤ n) (a b : Val) (ha : a.Fin) (hb : b.Fin)
    (hfa : a.fb = fbitsOf n es) (hfb : b.fb = fbitsOf n es) :
    nearestB n es (a.toRat / b.toRat) (convert n es (moduleDiv (fbitsOf n es) a b)) = true := by
  have hla : a.frac < 2 ^ fbitsOf n es := by rw [← hfa]; exact ha.lt
  have hlb : b.frac < 2 ^ fbitsOf n es := by rw [← hfb]; exact hb.lt
  rw [toRat_eq_sgn a ha.nz, toRat_eq_sgn b hb.nz, hfa, hfb]
  have hE : sgn a.sign * valS a.scale ((a.frac : ℚ) / 2 ^ fbitsOf n es) /
      (sgn b.sign * valS b.scale ((b.frac : ℚ) / 2 ^ fbitsOf n es))
      = sgn (a.sign != b.sign) *
        ((((2 ^ fbitsOf n es + a.frac : ℕ) : ℚ) * 2 ^ (2 * fbitsOf n es + 6) /
          ((2 ^ fbitsOf n es + b.frac : ℕ) : ℚ)) *
          2 ^ (a.scale - b.scale - ((2 * fbitsOf n es + 6 : ℕ) : ℤ))) := by
    rw [← sgn_div]
    unfold valS
    have hsb := sgn_ne_zero b.sign
    have hp : (0 : ℚ) < 2 ^ fbitsOf n es := by positivity
    have hxb : (0 : ℚ) < ((2 ^ fbitsOf n es + b.frac : ℕ) : ℚ) := by
      have : 0 < 2 ^ fbitsOf n es + b.frac := by positivity
      exact_mod_cast this
    have hz1 := two_zpow_pos b.scale
    rw [show a.scale - b.scale - ((2 * fbitsOf n es + 6 : ℕ) : ℤ)
        = a.scale + (-b.scale) + (-((2 * fbitsOf n es + 6 : ℕ) : ℤ)) by ring,
      zpow_add₀ (by norm_num), zpow_add₀ (by norm_num), zpow_neg, zpow_neg, zpow_natCast]
    push_cast at hxb ⊢
    field_simp
  rw [hE]
  by_cases hpos : 0 < fbitsOf n es
  · obtain ⟨hfin, hval, hqlo⟩ := moduleDiv_value (fbitsOf n es) a b ha hb hfa hfb hpos
    have hc := convert_val_correct n es hn _ hfin
    rw [hval] at hc
    have hxb0 : 0 < 2 ^ fbitsOf n es + b.frac := by positivity
    have hcuts := div_sameCuts n es hn (2 ^ fbitsOf n es + a.frac) (2 ^ fbitsOf n es + b.frac) hxb0
      (by rw [pow_succ]; omega) hqlo (a.scale - b.scale - ((2 * fbitsOf n es + 6 : ℕ) : ℤ))
    have hg := two_zpow_pos (a.scale - b.scale - ((2 * fbitsOf n es + 6 : ℕ) : ℤ))
    have hX' : (0 : ℚ) < (((2 ^ fbitsOf n es + a.frac) * 2 ^ (2 * fbitsOf n es + 6) /
        (2 ^ fbitsOf n es + b.frac) : ℕ) : ℚ) := by
      have : 0 < (2 ^ fbitsOf n es + a.frac) * 2 ^ (2 * fbitsOf n es + 6) / (2 ^ fbitsOf n es + b.frac) :=
        lt_of_lt_of_le (Nat.two_pow_pos _) hqlo
      exact_mod_cast this
    have hX : (0 : ℚ) < ((2 ^ fbitsOf n es + a.frac : ℕ) : ℚ) * 2 ^ (2 * fbitsOf n es + 6) /
        ((2 ^ fbitsOf n es + b.frac : ℕ) : ℚ) := by
      have h1 : (0 : ℚ) < ((2 ^ fbitsOf n es + a.frac : ℕ) : ℚ) := by
        have : 0 < 2 ^ fbitsOf n es + a.frac := by positivity
        exact_mod_cast this
      have h2 : (0 : ℚ) < ((2 ^ fbitsOf n es + b.frac : ℕ) : ℚ) := by exact_mod_cast hxb0
      positivity
    rw [nearestB_transfer n es hn (a.sign != b.sign) _ _ (by positivity) (by positivity) hcuts]
    exact hc
  · have hfb0 : fbitsOf n es = 0 := by omega
    have ha0 : a.frac = 0 := by rw [hfb0] at hla; simpa using hla
    have hb0 : b.frac = 0 := by rw [hfb0] at hlb; simpa using hlb
    have hfin : (moduleDiv (fbitsOf n es) a b).Fin ∧ (moduleDiv (fbitsOf n es) a b).toRat =
        sgn (a.sign != b.sign) * 2 ^ (a.scale - b.scale) := by
      unfold moduleDiv
      simp only [ha.ni, hb.ni, ha.nz, hb.nz, Bool.or_self, Bool.false_eq_true, if_false, if_neg hpos]
      refine ⟨⟨rfl, rfl, by show 0 < 2 ^ _; positivity⟩, ?_⟩
      rw [toRat_eq_sgn _ rfl]
      unfold valS; simp
    have hc := convert_val_correct n es hn _ hfin.1
    rw [hfin.2] at hc
    rw [hfb0, ha0, hb0]
    have : sgn (a.sign != b.sign) * ((((2 ^ 0 + 0 : ℕ) : ℚ) * 2 ^ (2 * 0 + 6) / ((2 ^ 0 + 0 : ℕ) : ℚ)) *
        2 ^ (a.scale - b.scale - ((2 * 0 + 6 : ℕ) : ℤ))) = sgn (a.sign != b.sign) * 2 ^ (a.scale - b.scale) := by
      rw [zpow_sub₀ (by norm_num)]; norm_num
      left; ring
    rw [this]; rw [hfb0] at hc; exact hc

end UVerif.Posit
