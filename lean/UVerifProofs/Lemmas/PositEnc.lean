/-
  UVerifProofs.Lemmas.PositEnc — the "unbounded posit encoding".

  For a positive real x = 2^s·(1+f), 0 ≤ f < 1, put k = s div 2^es, e = s mod 2^es, u = e + f.
  `Benc n es k u` is the infinitely precise posit bit string of x (regime, terminator, exponent,
  fraction) read as a binary number with the binary point after the n-1 magnitude bits.
  Both `Benc` and the value are strictly monotone in the lexicographic order of (s, f), hence
  comparing values is the same as comparing unbounded encodings.
-/
import UVerif.Spec.Posit
import Mathlib.Tactic.Ring
import Mathlib.Tactic.Linarith
import Mathlib.Tactic.Positivity
import Mathlib.Tactic.FieldSimp
import Mathlib.Tactic.NormNum
import Mathlib.Algebra.Order.Field.Power
import Mathlib.Order.Monotone.Basic

namespace UVerif.Posit

/-! ### pow2 is zpow -/

theorem pow2_eq_zpow (e : ℤ) : pow2 e = (2 : ℚ) ^ e := by
  unfold pow2
  split
  · rename_i h
    have : e = ((e.toNat : ℕ) : ℤ) := (Int.toNat_of_nonneg h).symm
    conv_rhs => rw [this]
    rw [zpow_natCast]; push_cast; rfl
  · rename_i h
    have h' : 0 ≤ -e := by omega
    have : e = -(((-e).toNat : ℕ) : ℤ) := by rw [Int.toNat_of_nonneg h']; ring
    conv_rhs => rw [this]
    rw [zpow_neg, zpow_natCast]; push_cast
    rw [one_div]

theorem two_zpow_pos (e : ℤ) : (0 : ℚ) < (2 : ℚ) ^ e := by positivity

theorem two_zpow_succ (e : ℤ) : (2 : ℚ) ^ (e + 1) = 2 ^ e * 2 := zpow_add_one₀ (by norm_num) e

/-! ### the regime staircase -/

/-- lower end of the encoding interval of regime `k` (as a fraction of 2^(n-1)) -/
def lo (k : ℤ) : ℚ := if 0 ≤ k then 1 - 2 ^ (-(k + 1)) else 2 ^ (k - 1)

/-- width of the encoding interval of regime `k` -/
def step (k : ℤ) : ℚ := if 0 ≤ k then 2 ^ (-(k + 2)) else 2 ^ (k - 1)

theorem step_pos (k : ℤ) : 0 < step k := by
  unfold step; split <;> positivity

theorem lo_succ (k : ℤ) : lo (k + 1) = lo k + step k := by
  unfold lo step
  by_cases h0 : 0 ≤ k
  · have h1 : 0 ≤ k + 1 := by omega
    rw [if_pos h0, if_pos h0, if_pos h1]
    have e1 : -(k + 1) = -(k + 2) + 1 := by ring
    have e2 : -(k + 1 + 1) = -(k + 2) := by ring
    rw [e1, e2, two_zpow_succ]; ring
  · rw [if_neg h0, if_neg h0]
    by_cases h1 : 0 ≤ k + 1
    · have : k = -1 := by omega
      subst this
      norm_num
    · rw [if_neg h1]
      have e1 : k + 1 - 1 = (k - 1) + 1 := by ring
      rw [e1, two_zpow_succ]; ring

theorem lo_strictMono : StrictMono lo :=
  strictMono_int_of_lt_succ (fun k => by rw [lo_succ]; linarith [step_pos k])

theorem lo_pos (k : ℤ) : 0 < lo k := by
  unfold lo; split
  · rename_i h
    have : (2 : ℚ) ^ (-(k + 1)) ≤ 2 ^ (-1 : ℤ) := zpow_le_zpow_right₀ (by norm_num) (by omega)
    have h2 : (2 : ℚ) ^ (-1 : ℤ) = 1 / 2 := by norm_num
    rw [h2] at this
    linarith
  · positivity

/-- normalised unbounded encoding: a number in (0,1) -/
def enc0 (es : ℕ) (k : ℤ) (u : ℚ) : ℚ :=
  if 0 ≤ k then 1 - 2 ^ (-(k + 1)) + 2 ^ (-(k + 2)) * (u / 2 ^ es)
  else 2 ^ (k - 1) * (1 + u / 2 ^ es)

theorem enc0_eq (es : ℕ) (k : ℤ) (u : ℚ) : enc0 es k u = lo k + step k * (u / 2 ^ es) := by
  unfold enc0 lo step; split <;> ring

/-- the unbounded encoding of the positive real with regime `k` and exponent+fraction `u`
    for `n`-bit posits: binary point after the `n-1` magnitude bits. -/
def Benc (n es : ℕ) (k : ℤ) (u : ℚ) : ℚ := 2 ^ (n - 1) * enc0 es k u

theorem Benc_succ (n es : ℕ) (k : ℤ) (u : ℚ) (hn : 1 ≤ n) :
    Benc (n + 1) es k u = 2 * Benc n es k u := by
  unfold Benc
  have : n + 1 - 1 = (n - 1) + 1 := by omega
  rw [this, pow_succ]; ring

/-- lexicographic order on (regime, exponent+fraction) -/
theorem enc0_lt_of_lex (es : ℕ) {k k' : ℤ} {u u' : ℚ}
    (_ : 0 ≤ u) (hu2 : u < 2 ^ es) (hu' : 0 ≤ u') (_ : u' < 2 ^ es)
    (h : k < k' ∨ (k = k' ∧ u < u')) : enc0 es k u < enc0 es k' u' := by
  have hp : (0 : ℚ) < 2 ^ es := by positivity
  rw [enc0_eq, enc0_eq]
  rcases h with h | ⟨rfl, h⟩
  · have h1 : lo (k + 1) ≤ lo k' := lo_strictMono.monotone (by omega)
    rw [lo_succ] at h1
    have h2 : u / 2 ^ es < 1 := by rw [div_lt_one hp]; exact hu2
    have h3 : 0 ≤ u' / 2 ^ es := by positivity
    have := step_pos k
    have := step_pos k'
    nlinarith
  · have h2 : u / 2 ^ es < u' / 2 ^ es := by
      apply div_lt_div_of_pos_right h hp
    have := step_pos k
    nlinarith

/-! ### coordinates (s, f): x = 2^s (1+f) -/

/-- value of the coordinates -/
def valS (s : ℤ) (f : ℚ) : ℚ := 2 ^ s * (1 + f)

/-- regime of scale `s` -/
def kOf (es : ℕ) (s : ℤ) : ℤ := s / ((2 ^ es : ℕ) : ℤ)
/-- exponent field of scale `s` -/
def eOf (es : ℕ) (s : ℤ) : ℤ := s % ((2 ^ es : ℕ) : ℤ)

/-- unbounded encoding of 2^s (1+f) -/
def encS (n es : ℕ) (s : ℤ) (f : ℚ) : ℚ := Benc n es (kOf es s) ((eOf es s : ℚ) + f)

/-- lexicographic order on coordinates -/
def Lex (s : ℤ) (f : ℚ) (s' : ℤ) (f' : ℚ) : Prop := s < s' ∨ (s = s' ∧ f < f')

theorem lex_trichotomy (s : ℤ) (f : ℚ) (s' : ℤ) (f' : ℚ) :
    Lex s f s' f' ∨ (s = s' ∧ f = f') ∨ Lex s' f' s f := by
  unfold Lex
  rcases lt_trichotomy s s' with h | h | h
  · exact Or.inl (Or.inl h)
  · rcases lt_trichotomy f f' with g | g | g
    · exact Or.inl (Or.inr ⟨h, g⟩)
    · exact Or.inr (Or.inl ⟨h, g⟩)
    · exact Or.inr (Or.inr (Or.inr ⟨h.symm, g⟩))
  · exact Or.inr (Or.inr (Or.inl h))

theorem eOf_nonneg (es : ℕ) (s : ℤ) : 0 ≤ eOf es s :=
  Int.emod_nonneg _ (by positivity)

theorem eOf_lt (es : ℕ) (s : ℤ) : eOf es s < ((2 ^ es : ℕ) : ℤ) :=
  Int.emod_lt_of_pos _ (by positivity)

theorem kOf_eOf (es : ℕ) (s : ℤ) : kOf es s * ((2 ^ es : ℕ) : ℤ) + eOf es s = s := by
  unfold kOf eOf; rw [mul_comm]; exact Int.mul_ediv_add_emod s _

theorem valS_lt_of_lex {s s' : ℤ} {f f' : ℚ} (_ : 0 ≤ f) (hf1 : f < 1) (hf' : 0 ≤ f')
    (h : Lex s f s' f') : valS s f < valS s' f' := by
  unfold valS
  rcases h with h | ⟨rfl, h⟩
  · have h1 : (2 : ℚ) ^ (s + 1) ≤ 2 ^ s' := zpow_le_zpow_right₀ (by norm_num) (by omega)
    rw [two_zpow_succ] at h1
    have := two_zpow_pos s
    have := two_zpow_pos s'
    nlinarith
  · have := two_zpow_pos s
    nlinarith

theorem encS_lt_of_lex (n es : ℕ) {s s' : ℤ} {f f' : ℚ} (hf : 0 ≤ f) (hf1 : f < 1) (hf' : 0 ≤ f')
    (hf1' : f' < 1) (h : Lex s f s' f') : encS n es s f < encS n es s' f' := by
  unfold encS Benc
  have hp : (0 : ℚ) < 2 ^ (n - 1) := by positivity
  apply mul_lt_mul_of_pos_left _ hp
  have he := eOf_nonneg es s
  have he' := eOf_nonneg es s'
  have hl := eOf_lt es s
  have hl' := eOf_lt es s'
  have hc : ((eOf es s : ℤ) : ℚ) + 1 ≤ 2 ^ es := by
    have : eOf es s + 1 ≤ ((2 ^ es : ℕ) : ℤ) := by omega
    have := (Int.cast_le (R := ℚ)).mpr this
    push_cast at this; exact this
  have hc' : ((eOf es s' : ℤ) : ℚ) + 1 ≤ 2 ^ es := by
    have : eOf es s' + 1 ≤ ((2 ^ es : ℕ) : ℤ) := by omega
    have := (Int.cast_le (R := ℚ)).mpr this
    push_cast at this; exact this
  have hq : (0 : ℚ) ≤ (eOf es s : ℚ) := by exact_mod_cast he
  have hq' : (0 : ℚ) ≤ (eOf es s' : ℚ) := by exact_mod_cast he'
  apply enc0_lt_of_lex es (by linarith) (by linarith) (by linarith) (by linarith)
  rcases h with h | ⟨rfl, h⟩
  · have hk : kOf es s ≤ kOf es s' := Int.ediv_le_ediv (by positivity) (le_of_lt h)
    rcases lt_or_eq_of_le hk with hk | hk
    · exact Or.inl hk
    · right
      refine ⟨hk, ?_⟩
      have e1 := kOf_eOf es s
      have e2 := kOf_eOf es s'
      rw [hk] at e1
      have : eOf es s + 1 ≤ eOf es s' := by omega
      have := (Int.cast_le (R := ℚ)).mpr this
      push_cast at this
      linarith
  · right; exact ⟨rfl, by linarith⟩

/-- comparing values = comparing unbounded encodings (strict) -/
theorem encS_lt_iff_valS_lt (n es : ℕ) {s s' : ℤ} {f f' : ℚ} (hf : 0 ≤ f) (hf1 : f < 1)
    (hf' : 0 ≤ f') (hf1' : f' < 1) :
    encS n es s f < encS n es s' f' ↔ valS s f < valS s' f' := by
  rcases lex_trichotomy s f s' f' with h | ⟨rfl, rfl⟩ | h
  · exact ⟨fun _ => valS_lt_of_lex hf hf1 hf' h, fun _ => encS_lt_of_lex n es hf hf1 hf' hf1' h⟩
  · simp
  · have a := valS_lt_of_lex hf' hf1' hf h
    have b := encS_lt_of_lex n es hf' hf1' hf hf1 h
    exact ⟨fun c => absurd c (not_lt.mpr (le_of_lt b)), fun c => absurd c (not_lt.mpr (le_of_lt a))⟩

theorem encS_eq_iff_valS_eq (n es : ℕ) {s s' : ℤ} {f f' : ℚ} (hf : 0 ≤ f) (hf1 : f < 1)
    (hf' : 0 ≤ f') (hf1' : f' < 1) :
    encS n es s f = encS n es s' f' ↔ valS s f = valS s' f' := by
  rcases lex_trichotomy s f s' f' with h | ⟨rfl, rfl⟩ | h
  · have a := valS_lt_of_lex hf hf1 hf' h
    have b := encS_lt_of_lex n es hf hf1 hf' hf1' h
    exact ⟨fun c => absurd c (ne_of_lt b), fun c => absurd c (ne_of_lt a)⟩
  · simp
  · have a := valS_lt_of_lex hf' hf1' hf h
    have b := encS_lt_of_lex n es hf' hf1' hf hf1 h
    exact ⟨fun c => absurd c.symm (ne_of_lt b), fun c => absurd c.symm (ne_of_lt a)⟩

theorem encS_le_iff_valS_le (n es : ℕ) {s s' : ℤ} {f f' : ℚ} (hf : 0 ≤ f) (hf1 : f < 1)
    (hf' : 0 ≤ f') (hf1' : f' < 1) :
    encS n es s f ≤ encS n es s' f' ↔ valS s f ≤ valS s' f' := by
  rw [← not_lt, ← not_lt, encS_lt_iff_valS_lt n es hf' hf1' hf hf1]

theorem encS_succ (n es : ℕ) (s : ℤ) (f : ℚ) (hn : 1 ≤ n) :
    encS (n + 1) es s f = 2 * encS n es s f := Benc_succ n es _ _ hn

theorem valS_pos {s : ℤ} {f : ℚ} (hf : 0 ≤ f) : 0 < valS s f := by
  unfold valS; have := two_zpow_pos s; positivity

end UVerif.Posit
