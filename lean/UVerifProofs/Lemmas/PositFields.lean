/-
  UVerifProofs.Lemmas.PositFields — bit-level identity behind posit decoding:
  a magnitude y (0 < y < 2^(n-1)) IS the unbounded encoding of its value:
      y = Benc n es k (e + f/2^nf),    posVal n es y = 2^(k·2^es + e) · (1 + f/2^nf).
-/
import UVerifProofs.Lemmas.PositEnc

namespace UVerif.Posit

/-! ### run length -/

theorem testBit_mod_succ (y i : ℕ) :
    y % 2 ^ (i + 1) = (if y.testBit i then 2 ^ i else 0) + y % 2 ^ i := by
  rw [Nat.mod_pow_succ, Nat.testBit_eq_decide_div_mod_eq]
  rcases Nat.mod_two_eq_zero_or_one (y / 2 ^ i) with h | h <;> simp [h]
  omega

theorem runLen_le (y : ℕ) (b : Bool) (i : ℕ) : runLen y b i ≤ i := by
  induction i with
  | zero => simp [runLen]
  | succ i ih => unfold runLen; split <;> omega

/-- decomposition of the low `i` bits along the run of `b`-bits starting at position `i-1` -/
theorem runLen_spec (y : ℕ) (b : Bool) (i : ℕ) :
    y % 2 ^ i = (if b then (2 ^ (runLen y b i) - 1) * 2 ^ (i - runLen y b i) else 0)
        + y % 2 ^ (i - runLen y b i)
    ∧ (runLen y b i < i → y.testBit (i - runLen y b i - 1) = !b) := by
  induction i with
  | zero => simp [runLen]
  | succ i ih =>
    obtain ⟨ih1, ih2⟩ := ih
    have hle := runLen_le y b i
    unfold runLen
    by_cases hb : y.testBit i = b
    · rw [if_pos hb]
      have e1 : i + 1 - (runLen y b i + 1) = i - runLen y b i := by omega
      rw [e1]
      refine ⟨?_, fun h => ih2 (by omega)⟩
      rw [testBit_mod_succ, ih1, hb]
      cases b
      · simp
      · simp only [if_true]
        obtain ⟨d, hd⟩ : ∃ d, i = runLen y true i + d := ⟨i - runLen y true i, by omega⟩
        have e2 : i - runLen y true i = d := by omega
        rw [e2]
        generalize runLen y true i = m at *
        subst hd
        have h1 : 1 ≤ 2 ^ m := Nat.one_le_two_pow
        have h2 : 2 ^ (m + 1) = 2 * 2 ^ m := by rw [pow_succ]; ring
        rw [pow_add, h2]
        obtain ⟨A, hA⟩ : ∃ A, 2 ^ m = A + 1 := ⟨2 ^ m - 1, by omega⟩
        rw [hA]
        have : 2 * (A + 1) - 1 = 2 * A + 1 := by omega
        rw [this]
        simp only [Nat.add_sub_cancel]
        ring
    · rw [if_neg hb]
      refine ⟨by simp, fun _ => ?_⟩
      simp only [Nat.sub_zero, Nat.add_sub_cancel]
      cases b <;> cases h : y.testBit i <;> simp_all

/-! ### exponent / fraction split of the tail -/

theorem tail_spec (es nrem tail : ℕ) (h : tail < 2 ^ nrem) :
    (tail >>> (nrem - min es nrem)) <<< (es - min es nrem) < 2 ^ es
    ∧ tail % 2 ^ (nrem - min es nrem) < 2 ^ (nrem - min es nrem)
    ∧ ((((tail >>> (nrem - min es nrem)) <<< (es - min es nrem) : ℕ) : ℚ)
        + ((tail % 2 ^ (nrem - min es nrem) : ℕ) : ℚ) / ((2 ^ (nrem - min es nrem) : ℕ) : ℚ))
        * 2 ^ nrem = (tail : ℚ) * 2 ^ es := by
  refine ⟨?_, Nat.mod_lt _ (by positivity), ?_⟩
  · rw [Nat.shiftLeft_eq, Nat.shiftRight_eq_div_pow]
    rcases Nat.le_total es nrem with hle | hle
    · rw [min_eq_left hle]; simp
      rw [Nat.div_lt_iff_lt_mul (by positivity), ← pow_add]
      have : es + (nrem - es) = nrem := by omega
      rw [this]; exact h
    · rw [min_eq_right hle]; simp
      calc tail * 2 ^ (es - nrem) < 2 ^ nrem * 2 ^ (es - nrem) :=
            Nat.mul_lt_mul_of_pos_right h (by positivity)
        _ = 2 ^ es := by rw [← pow_add]; congr 1; omega
  · rw [Nat.shiftLeft_eq, Nat.shiftRight_eq_div_pow]
    rcases Nat.le_total es nrem with hle | hle
    · rw [min_eq_left hle]
      obtain ⟨d, rfl⟩ : ∃ d, nrem = es + d := ⟨nrem - es, by omega⟩
      simp only [Nat.add_sub_cancel_left, Nat.sub_self, pow_zero, mul_one]
      have hdm := Nat.div_add_mod tail (2 ^ d)
      have hq : (tail : ℚ) = 2 ^ d * ((tail / 2 ^ d : ℕ) : ℚ) + ((tail % 2 ^ d : ℕ) : ℚ) := by
        exact_mod_cast hdm.symm
      have hp : (0 : ℚ) < 2 ^ d := by positivity
      rw [hq]; push_cast; rw [pow_add]; field_simp
    · rw [min_eq_right hle]
      obtain ⟨d, rfl⟩ : ∃ d, es = nrem + d := ⟨es - nrem, by omega⟩
      simp only [Nat.add_sub_cancel_left, Nat.sub_self, pow_zero, Nat.div_one, Nat.mod_one]
      push_cast; rw [pow_add]; ring

/-! ### Benc on each side of the regime staircase -/

theorem Benc_pos_regime (N es m : ℕ) (u : ℚ) (hm : 1 ≤ m) (hmN : m ≤ N + 1) :
    Benc (N + 2) es ((m : ℤ) - 1) u
      = 2 ^ (N + 1) - 2 ^ (N + 1 - m) + 2 ^ (N + 1 - m) * (u / 2 ^ es) / 2 := by
  unfold Benc enc0
  rw [if_pos (by omega)]
  have e1 : -((m : ℤ) - 1 + 1) = -(m : ℤ) := by ring
  have e2 : -((m : ℤ) - 1 + 2) = -(m : ℤ) + (-1) := by ring
  rw [e1, e2, zpow_add₀ (by norm_num), zpow_neg, zpow_natCast]
  obtain ⟨d, hd⟩ : ∃ d, N + 1 = m + d := ⟨N + 1 - m, by omega⟩
  rw [show N + 2 - 1 = m + d by omega, hd, show m + d - m = d by omega]
  rw [pow_add]
  have hp : (0 : ℚ) < 2 ^ m := by positivity
  field_simp

theorem Benc_neg_regime (N es m : ℕ) (u : ℚ) (hm : 1 ≤ m) (hmN : m ≤ N) :
    Benc (N + 2) es (-(m : ℤ)) u = 2 ^ (N - m) * (1 + u / 2 ^ es) := by
  unfold Benc enc0
  rw [if_neg (by omega)]
  have e2 : -(m : ℤ) - 1 = -((m + 1 : ℕ) : ℤ) := by push_cast; ring
  rw [e2, zpow_neg, zpow_natCast]
  obtain ⟨d, rfl⟩ : ∃ d, N = m + d := ⟨N - m, by omega⟩
  rw [show m + d + 2 - 1 = d + (m + 1) by omega, show m + d - m = d by omega]
  rw [pow_add 2 d]
  have hp : (0 : ℚ) < 2 ^ (m + 1) := by positivity
  field_simp

/-! ### the fields of a magnitude -/

theorem fields_spec (N es y : ℕ) (hy0 : 0 < y) (hy : y < 2 ^ (N + 1)) :
    (fields (N + 2) es y).e < 2 ^ es ∧ (fields (N + 2) es y).f < 2 ^ (fields (N + 2) es y).nf ∧
    -(N : ℤ) ≤ (fields (N + 2) es y).k ∧ (fields (N + 2) es y).k ≤ N ∧
    (y : ℚ) = Benc (N + 2) es (fields (N + 2) es y).k
      (((fields (N + 2) es y).e : ℚ) +
        ((fields (N + 2) es y).f : ℚ) / ((2 ^ (fields (N + 2) es y).nf : ℕ) : ℚ)) := by
  have hmod : y % 2 ^ (N + 1) = y := Nat.mod_eq_of_lt hy
  obtain ⟨hs1, hs2⟩ := runLen_spec y (y.testBit N) (N + 1)
  have hle := runLen_le y (y.testBit N) (N + 1)
  have hm1 : 1 ≤ runLen y (y.testBit N) (N + 1) := by
    unfold runLen; simp
  rw [hmod] at hs1
  unfold fields
  simp only [show N + 2 - 2 = N from rfl, show N + 2 - 1 = N + 1 from rfl]
  generalize hm : runLen y (y.testBit N) (N + 1) = m at *
  have hnrem : N + 1 - m - 1 = N - m := by omega
  rw [hnrem]
  cases hr : y.testBit N
  · -- regime of zeros
    rw [hr] at hs1 hs2
    simp only [Bool.false_eq_true, if_false, Nat.zero_add, Bool.not_false] at hs1 hs2 ⊢
    have hmN : m ≤ N := by
      by_contra hc
      have : m = N + 1 := by omega
      rw [this] at hs1; simp at hs1; omega
    have hbit := hs2 (by omega)
    have e1 : N + 1 - m = (N - m) + 1 := by omega
    have e2 : N + 1 - m - 1 = N - m := by omega
    rw [e1, testBit_mod_succ] at hs1
    rw [e2] at hbit
    rw [hbit] at hs1
    simp only [if_true] at hs1
    have htl : y % 2 ^ (N - m) < 2 ^ (N - m) := Nat.mod_lt _ (by positivity)
    obtain ⟨t1, t2, t3⟩ := tail_spec es (N - m) (y % 2 ^ (N - m)) htl
    refine ⟨t1, t2, by omega, by omega, ?_⟩
    rw [Benc_neg_regime N es m _ hm1 hmN]
    have hp : (0 : ℚ) < 2 ^ es := by positivity
    have hy' : (y : ℚ) = 2 ^ (N - m) + ((y % 2 ^ (N - m) : ℕ) : ℚ) := by
      conv_lhs => rw [hs1]
      push_cast; ring
    rw [hy', mul_add, mul_one, mul_div_assoc', mul_comm, t3]
    field_simp
  · -- regime of ones
    rw [hr] at hs1 hs2
    simp only [if_true, Bool.not_true] at hs1 hs2 ⊢
    have htail : y % 2 ^ (N + 1 - m) = y % 2 ^ (N - m) := by
      by_cases hc : m = N + 1
      · subst hc; simp [Nat.mod_one]
      · have hbit := hs2 (by omega)
        have e1 : N + 1 - m = (N - m) + 1 := by omega
        have e2 : N + 1 - m - 1 = N - m := by omega
        rw [e1, testBit_mod_succ, ← e2, hbit]; simp
    rw [htail] at hs1
    have htl : y % 2 ^ (N - m) < 2 ^ (N - m) := Nat.mod_lt _ (by positivity)
    obtain ⟨t1, t2, t3⟩ := tail_spec es (N - m) (y % 2 ^ (N - m)) htl
    refine ⟨t1, t2, by omega, by omega, ?_⟩
    rw [Benc_pos_regime N es m _ hm1 hle]
    have hp : (0 : ℚ) < 2 ^ es := by positivity
    have h1 : 1 ≤ 2 ^ m := Nat.one_le_two_pow
    have hy' : (y : ℚ) = (2 ^ m - 1) * 2 ^ (N + 1 - m) + ((y % 2 ^ (N - m) : ℕ) : ℚ) := by
      conv_lhs => rw [hs1]
      push_cast [Nat.cast_sub h1]; ring
    have e3 : (2 : ℚ) ^ (N + 1) = 2 ^ m * 2 ^ (N + 1 - m) := by
      rw [← pow_add]; congr 1; omega
    rw [hy', e3]
    by_cases hc : m = N + 1
    · subst hc
      simp only [Nat.sub_self, pow_zero, mul_one] at t3 ⊢
      rw [show N - (N + 1) = 0 by omega] at t3 ⊢
      simp only [pow_zero, mul_one, Nat.mod_one, Nat.cast_zero, zero_mul] at t3 ⊢
      rw [t3]; simp
    · have e4 : (2 : ℚ) ^ (N + 1 - m) = 2 * 2 ^ (N - m) := by
        rw [← pow_succ']; congr 1; omega
      rw [e4]
      have key : ∀ u t : ℚ, u * 2 ^ (N - m) = t * 2 ^ es →
          2 * 2 ^ (N - m) * (u / 2 ^ es) / 2 = t := by
        intro u t h
        rw [mul_div_assoc', mul_assoc, mul_comm (2 ^ (N - m) : ℚ), h]
        field_simp
      rw [key _ _ t3]; ring


theorem kOf_eq (es : ℕ) (k : ℤ) (e : ℕ) (he : e < 2 ^ es) :
    kOf es (k * ((2 ^ es : ℕ) : ℤ) + e) = k ∧ eOf es (k * ((2 ^ es : ℕ) : ℤ) + e) = e := by
  unfold kOf eOf
  have hp : (0 : ℤ) < ((2 ^ es : ℕ) : ℤ) := by positivity
  have he' : ((e : ℕ) : ℤ) < ((2 ^ es : ℕ) : ℤ) := by exact_mod_cast he
  constructor
  · rw [add_comm, Int.add_mul_ediv_right _ _ (ne_of_gt hp), Int.ediv_eq_zero_of_lt (by positivity) he']
    simp
  · rw [add_comm, Int.add_mul_emod_self_right, Int.emod_eq_of_lt (by positivity) he']

/-- every magnitude is the unbounded encoding of its own value -/
theorem posVal_coords (n es y : ℕ) (hn : 2 ≤ n) (hy0 : 0 < y) (hy : y < 2 ^ (n - 1)) :
    ∃ (s : ℤ) (f : ℚ), 0 ≤ f ∧ f < 1 ∧ posVal n es y = valS s f ∧ (y : ℚ) = encS n es s f
      ∧ -((n : ℤ) - 2) ≤ kOf es s ∧ kOf es s ≤ (n : ℤ) - 2 := by
  obtain ⟨N, rfl⟩ : ∃ N, n = N + 2 := ⟨n - 2, by omega⟩
  obtain ⟨h1, h2, h3, h4, h5⟩ := fields_spec N es y hy0 hy
  obtain ⟨hk, he⟩ := kOf_eq es (fields (N + 2) es y).k (fields (N + 2) es y).e h1
  refine ⟨(fields (N + 2) es y).scale es,
    ((fields (N + 2) es y).f : ℚ) / ((2 ^ (fields (N + 2) es y).nf : ℕ) : ℚ), ?_, ?_, ?_, ?_, ?_, ?_⟩
  · positivity
  · rw [div_lt_one (by positivity)]; exact_mod_cast h2
  · unfold posVal valS; simp only []; rw [pow2_eq_zpow]; ring
  · unfold encS Fields.scale; rw [hk, he]; exact_mod_cast h5
  · unfold Fields.scale; rw [hk]; push_cast; linarith
  · unfold Fields.scale; rw [hk]; push_cast; linarith

end UVerif.Posit
