/-
  UVerifProofs.Lemmas.PositOrder — consequences of "a magnitude is the unbounded encoding of its value":
  posVal is strictly monotone, doubling the encoding in n+1 bits keeps the value, the (n+1)-bit
  encoding 2y+1 lies strictly between y and y+1; comparison of a real with a posit value is
  comparison of its unbounded encoding with the encoding; signed order of encodings = order of values.
-/
import UVerifProofs.Lemmas.PositFields
import UVerif.Model.Posit

namespace UVerif.Posit

theorem posVal_pos (n es y : ℕ) (hn : 2 ≤ n) (hy0 : 0 < y) (hy : y < 2 ^ (n - 1)) :
    0 < posVal n es y := by
  obtain ⟨s, f, hf0, _, hv, _⟩ := posVal_coords n es y hn hy0 hy
  rw [hv]; exact valS_pos hf0

/-- comparison of the real 2^s(1+f) with the value of a magnitude encoding -/
theorem valS_lt_posVal_iff (n es y : ℕ) (hn : 2 ≤ n) (hy0 : 0 < y) (hy : y < 2 ^ (n - 1))
    {s : ℤ} {f : ℚ} (hf : 0 ≤ f) (hf1 : f < 1) :
    valS s f < posVal n es y ↔ encS n es s f < (y : ℚ) := by
  obtain ⟨s', f', hf0', hf1', hv, he, _⟩ := posVal_coords n es y hn hy0 hy
  rw [hv, he]; exact (encS_lt_iff_valS_lt n es hf hf1 hf0' hf1').symm

theorem posVal_lt_valS_iff (n es y : ℕ) (hn : 2 ≤ n) (hy0 : 0 < y) (hy : y < 2 ^ (n - 1))
    {s : ℤ} {f : ℚ} (hf : 0 ≤ f) (hf1 : f < 1) :
    posVal n es y < valS s f ↔ (y : ℚ) < encS n es s f := by
  obtain ⟨s', f', hf0', hf1', hv, he, _⟩ := posVal_coords n es y hn hy0 hy
  rw [hv, he]; exact (encS_lt_iff_valS_lt n es hf0' hf1' hf hf1).symm

theorem posVal_eq_valS_iff (n es y : ℕ) (hn : 2 ≤ n) (hy0 : 0 < y) (hy : y < 2 ^ (n - 1))
    {s : ℤ} {f : ℚ} (hf : 0 ≤ f) (hf1 : f < 1) :
    posVal n es y = valS s f ↔ (y : ℚ) = encS n es s f := by
  obtain ⟨s', f', hf0', hf1', hv, he, _⟩ := posVal_coords n es y hn hy0 hy
  rw [hv, he]; exact (encS_eq_iff_valS_eq n es hf0' hf1' hf hf1).symm

/-- posVal is strictly monotone in the encoding (every n ≥ 2, every es). -/
theorem posVal_strictMono (n es y₁ y₂ : ℕ) (hn : 2 ≤ n) (h0 : 0 < y₁) (h12 : y₁ < y₂)
    (h2 : y₂ < 2 ^ (n - 1)) : posVal n es y₁ < posVal n es y₂ := by
  obtain ⟨s, f, hf0, hf1, hv, he, _⟩ := posVal_coords n es y₁ hn h0 (by omega)
  rw [hv, valS_lt_posVal_iff n es y₂ hn (by omega) h2 hf0 hf1, ← he]
  exact_mod_cast h12

theorem posVal_lt_iff (n es y₁ y₂ : ℕ) (hn : 2 ≤ n) (h1 : 0 < y₁) (h1' : y₁ < 2 ^ (n - 1))
    (h2 : 0 < y₂) (h2' : y₂ < 2 ^ (n - 1)) : posVal n es y₁ < posVal n es y₂ ↔ y₁ < y₂ := by
  constructor
  · intro h
    by_contra hc
    rcases Nat.lt_or_eq_of_le (Nat.le_of_not_lt hc) with hc | hc
    · have := posVal_strictMono n es y₂ y₁ hn h2 hc h1'
      linarith
    · subst hc; exact lt_irrefl _ h
  · intro h; exact posVal_strictMono n es y₁ y₂ hn h1 h h2'

theorem posVal_injective (n es y₁ y₂ : ℕ) (hn : 2 ≤ n) (h1 : 0 < y₁) (h1' : y₁ < 2 ^ (n - 1))
    (h2 : 0 < y₂) (h2' : y₂ < 2 ^ (n - 1)) (h : posVal n es y₁ = posVal n es y₂) : y₁ = y₂ := by
  rcases Nat.lt_trichotomy y₁ y₂ with hc | hc | hc
  · have := posVal_strictMono n es y₁ y₂ hn h1 hc h2'; linarith
  · exact hc
  · have := posVal_strictMono n es y₂ y₁ hn h2 hc h1'; linarith

/-- appending a zero bit keeps the value -/
theorem posVal_double (n es y : ℕ) (hn : 2 ≤ n) (hy0 : 0 < y) (hy : y < 2 ^ (n - 1)) :
    posVal (n + 1) es (2 * y) = posVal n es y := by
  obtain ⟨s, f, hf0, hf1, hv, he, _⟩ := posVal_coords n es y hn hy0 hy
  have hy2 : 2 * y < 2 ^ (n + 1 - 1) := by
    have : n + 1 - 1 = (n - 1) + 1 := by omega
    rw [this, pow_succ]; omega
  rw [hv, posVal_eq_valS_iff (n + 1) es (2 * y) (by omega) (by omega) hy2 hf0 hf1,
    encS_succ n es s f (by omega), ← he]
  push_cast; ring

/-- the (n+1)-bit posit 2y+1 lies strictly between the n-bit posits y and y+1 -/
theorem posVal_midpoint (n es y : ℕ) (hn : 2 ≤ n) (hy0 : 0 < y) (hy : y + 1 < 2 ^ (n - 1)) :
    posVal n es y < posVal (n + 1) es (2 * y + 1) ∧
    posVal (n + 1) es (2 * y + 1) < posVal n es (y + 1) := by
  have hp : 2 ^ (n + 1 - 1) = 2 * 2 ^ (n - 1) := by
    have : n + 1 - 1 = (n - 1) + 1 := by omega
    rw [this, pow_succ]; ring
  rw [← posVal_double n es y hn hy0 (by omega), ← posVal_double n es (y + 1) hn (by omega) hy]
  exact ⟨posVal_strictMono (n + 1) es _ _ (by omega) (by omega) (by omega) (by omega),
    posVal_strictMono (n + 1) es _ _ (by omega) (by omega) (by omega) (by omega)⟩

/-- comparison of a real with the (n+1)-bit midpoint posit 2y+1 -/
theorem valS_lt_mid_iff (n es y : ℕ) (hn : 2 ≤ n) (hy : y + 1 < 2 ^ (n - 1) + 1)
    {s : ℤ} {f : ℚ} (hf : 0 ≤ f) (hf1 : f < 1) :
    valS s f < posVal (n + 1) es (2 * y + 1) ↔ encS n es s f < (y : ℚ) + 1 / 2 := by
  have hp : 2 ^ (n + 1 - 1) = 2 * 2 ^ (n - 1) := by
    have : n + 1 - 1 = (n - 1) + 1 := by omega
    rw [this, pow_succ]; ring
  rw [valS_lt_posVal_iff (n + 1) es (2 * y + 1) (by omega) (by omega) (by omega) hf hf1,
    encS_succ n es s f (by omega)]
  push_cast
  constructor <;> intro h <;> linarith

theorem valS_eq_mid_iff (n es y : ℕ) (hn : 2 ≤ n) (hy : y + 1 < 2 ^ (n - 1) + 1)
    {s : ℤ} {f : ℚ} (hf : 0 ≤ f) (hf1 : f < 1) :
    valS s f = posVal (n + 1) es (2 * y + 1) ↔ encS n es s f = (y : ℚ) + 1 / 2 := by
  have hp : 2 ^ (n + 1 - 1) = 2 * 2 ^ (n - 1) := by
    have : n + 1 - 1 = (n - 1) + 1 := by omega
    rw [this, pow_succ]; ring
  rw [eq_comm, posVal_eq_valS_iff (n + 1) es (2 * y + 1) (by omega) (by omega) (by omega) hf hf1,
    encS_succ n es s f (by omega)]
  push_cast
  constructor <;> intro h <;> linarith

/-! ### signed encodings -/

/-- value of a signed encoding (|σ| < 2^(n-1)) -/
def sval (n es : ℕ) (σ : ℤ) : ℚ :=
  if σ = 0 then 0 else if 0 < σ then posVal n es σ.toNat else -posVal n es (-σ).toNat

theorem sval_strictMono (n es : ℕ) (hn : 2 ≤ n) (σ τ : ℤ) (h1 : -((2 ^ (n - 1) : ℕ) : ℤ) < σ)
    (h2 : σ < τ) (h3 : τ < ((2 ^ (n - 1) : ℕ) : ℤ)) : sval n es σ < sval n es τ := by
  unfold sval
  have P : ∀ z : ℤ, 0 < z → z < ((2 ^ (n - 1) : ℕ) : ℤ) → 0 < posVal n es z.toNat := by
    intro z hz hz2
    exact posVal_pos n es _ hn (by omega) (by omega)
  by_cases hs : σ = 0
  · subst hs
    have ht : τ ≠ 0 := by omega
    rw [if_pos rfl, if_neg ht, if_pos h2]
    exact P τ h2 h3
  · rw [if_neg hs]
    by_cases hs2 : 0 < σ
    · rw [if_pos hs2, if_neg (by omega), if_pos (by omega)]
      exact posVal_strictMono n es _ _ hn (by omega) (by omega) (by omega)
    · rw [if_neg hs2]
      have := P (-σ) (by omega) (by omega)
      by_cases ht : τ = 0
      · rw [if_pos ht]; linarith
      · rw [if_neg ht]
        by_cases ht2 : 0 < τ
        · rw [if_pos ht2]
          have := P τ ht2 h3
          linarith
        · rw [if_neg ht2]
          have := posVal_strictMono n es (-τ).toNat (-σ).toNat hn (by omega) (by omega) (by omega)
          linarith

theorem two_pow_pred (n : ℕ) (hn : 1 ≤ n) : 2 ^ n = 2 * 2 ^ (n - 1) := by
  have : n = (n - 1) + 1 := by omega
  conv_lhs => rw [this, pow_succ]
  ring

theorem toSigned_lo (n a : ℕ) (hn : 1 ≤ n) (ha : a < 2 ^ (n - 1)) : toSigned n a = a := by
  have hp := two_pow_pred n hn
  unfold toSigned
  rw [if_neg (by omega)]
  simp only [Nat.mod_eq_of_lt (show a < 2 ^ n by omega), if_pos ha]

theorem toSigned_hi (n a : ℕ) (hn : 1 ≤ n) (ha : 2 ^ (n - 1) ≤ a) (ha2 : a < 2 ^ n) :
    toSigned n a = (a : ℤ) - ((2 ^ n : ℕ) : ℤ) := by
  unfold toSigned
  rw [if_neg (by omega)]
  simp only [Nat.mod_eq_of_lt ha2, if_neg (show ¬ a < 2 ^ (n - 1) by omega)]

theorem toSigned_bounds (n a : ℕ) (hn : 1 ≤ n) (ha : a < 2 ^ n) :
    -((2 ^ (n - 1) : ℕ) : ℤ) ≤ toSigned n a ∧ toSigned n a < ((2 ^ (n - 1) : ℕ) : ℤ) := by
  have hp := two_pow_pred n hn
  by_cases h : a < 2 ^ (n - 1)
  · rw [toSigned_lo n a hn h]; constructor <;> omega
  · rw [toSigned_hi n a hn (by omega) ha]; constructor <;> omega

theorem positVal_eq_sval (n es a : ℕ) (hn : 2 ≤ n) (ha : a < 2 ^ n) :
    positVal n es a =
      if toSigned n a = -((2 ^ (n - 1) : ℕ) : ℤ) then none else some (sval n es (toSigned n a)) := by
  have hp := two_pow_pred n (by omega)
  have hpos : 0 < 2 ^ (n - 1) := by positivity
  unfold positVal sval
  simp only [Nat.mod_eq_of_lt ha]
  by_cases h2 : a < 2 ^ (n - 1)
  · rw [toSigned_lo n a (by omega) h2]
    by_cases h0 : a = 0
    · subst h0; simp
    · rw [if_neg h0, if_neg (by omega), if_pos h2, if_neg (by omega), if_neg (by omega),
        if_pos (by omega)]
      simp
  · rw [toSigned_hi n a (by omega) (by omega) ha]
    rw [if_neg (by omega)]
    by_cases h1 : a = 2 ^ (n - 1)
    · rw [if_pos h1, if_pos (by omega)]
    · rw [if_neg h1, if_neg h2, if_neg (by omega), if_neg (by omega), if_neg (by omega)]
      congr 3
      omega


/-- order on posit values with NaR (`none`) below every real -/
def optLt : Option ℚ → Option ℚ → Prop
  | none, none => False
  | none, some _ => True
  | some _, none => False
  | some x, some y => x < y

/-- the order of posit values (NaR least) is the two's complement order of the encodings -/
theorem optLt_positVal_iff (n es a b : ℕ) (hn : 2 ≤ n) (ha : a < 2 ^ n) (hb : b < 2 ^ n) :
    optLt (positVal n es a) (positVal n es b) ↔ toSigned n a < toSigned n b := by
  rw [positVal_eq_sval n es a hn ha, positVal_eq_sval n es b hn hb]
  obtain ⟨a1, a2⟩ := toSigned_bounds n a (by omega) ha
  obtain ⟨b1, b2⟩ := toSigned_bounds n b (by omega) hb
  by_cases h1 : toSigned n a = -((2 ^ (n - 1) : ℕ) : ℤ) <;>
  by_cases h2 : toSigned n b = -((2 ^ (n - 1) : ℕ) : ℤ)
  · rw [if_pos h1, if_pos h2]; simp only [optLt, false_iff]; omega
  · rw [if_pos h1, if_neg h2]; simp only [optLt, true_iff]; omega
  · rw [if_neg h1, if_pos h2]; simp only [optLt, false_iff]; omega
  · rw [if_neg h1, if_neg h2]; simp only [optLt]
    constructor
    · intro h
      by_contra hc
      rcases lt_or_eq_of_le (not_lt.mp hc) with hc | hc
      · have := sval_strictMono n es hn _ _ (by omega) hc a2
        linarith
      · rw [hc] at h; exact lt_irrefl _ h
    · intro h; exact sval_strictMono n es hn _ _ (by omega) h b2

theorem toSigned_injective (n a b : ℕ) (hn : 1 ≤ n) (ha : a < 2 ^ n) (hb : b < 2 ^ n)
    (h : toSigned n a = toSigned n b) : a = b := by
  have hp := two_pow_pred n hn
  by_cases h1 : a < 2 ^ (n - 1) <;> by_cases h2 : b < 2 ^ (n - 1)
  · rw [toSigned_lo n a hn h1, toSigned_lo n b hn h2] at h; omega
  · rw [toSigned_lo n a hn h1, toSigned_hi n b hn (by omega) hb] at h; omega
  · rw [toSigned_hi n a hn (by omega) ha, toSigned_lo n b hn h2] at h; omega
  · rw [toSigned_hi n a hn (by omega) ha, toSigned_hi n b hn (by omega) hb] at h; omega

theorem optLt_irrefl (x : Option ℚ) : ¬ optLt x x := by
  cases x <;> simp [optLt]

/-- distinct encodings have distinct values -/
theorem positVal_injective (n es a b : ℕ) (hn : 2 ≤ n) (ha : a < 2 ^ n) (hb : b < 2 ^ n)
    (h : positVal n es a = positVal n es b) : a = b := by
  apply toSigned_injective n a b (by omega) ha hb
  rcases lt_trichotomy (toSigned n a) (toSigned n b) with hc | hc | hc
  · have := (optLt_positVal_iff n es a b hn ha hb).mpr hc
    rw [h] at this; exact absurd this (optLt_irrefl _)
  · exact hc
  · have := (optLt_positVal_iff n es b a hn hb ha).mpr hc
    rw [h] at this; exact absurd this (optLt_irrefl _)

/-! ### extremes -/

theorem posVal_maxpos (n es : ℕ) (hn : 2 ≤ n) :
    posVal n es (maxposEnc n) = (2 : ℚ) ^ (((n : ℤ) - 2) * ((2 ^ es : ℕ) : ℤ)) := by
  obtain ⟨N, rfl⟩ : ∃ N, n = N + 2 := ⟨n - 2, by omega⟩
  have h1 : 1 ≤ 2 ^ (N + 1) := Nat.one_le_two_pow
  have h2 : 2 ≤ 2 ^ (N + 1) := by
    calc 2 = 2 ^ 1 := rfl
      _ ≤ 2 ^ (N + 1) := Nat.pow_le_pow_right (by norm_num) (by omega)
  have hv : (2 : ℚ) ^ ((((N + 2 : ℕ) : ℤ) - 2) * ((2 ^ es : ℕ) : ℤ)) = valS ((N : ℤ) * ((2 ^ es : ℕ) : ℤ)) 0 := by
    unfold valS; push_cast; ring_nf
  rw [hv, posVal_eq_valS_iff (N + 2) es _ (by omega) (by unfold maxposEnc; simp)
    (by unfold maxposEnc; simp) (le_refl _) (by norm_num)]
  unfold encS
  have hz : (N : ℤ) * ((2 ^ es : ℕ) : ℤ) = (N : ℤ) * ((2 ^ es : ℕ) : ℤ) + ((0 : ℕ) : ℤ) := by simp
  obtain ⟨k1, k2⟩ := kOf_eq es N 0 (by positivity)
  rw [hz, k1, k2]
  have := Benc_pos_regime N es (N + 1) (((0 : ℕ) : ℤ) + 0 : ℚ) (by omega) (by omega)
  push_cast at this
  simp only [add_sub_cancel_right] at this
  unfold maxposEnc
  push_cast [Nat.cast_sub h1]
  rw [this]; simp

theorem posVal_minpos (n es : ℕ) (hn : 2 ≤ n) :
    posVal n es 1 = (2 : ℚ) ^ (-((n : ℤ) - 2) * ((2 ^ es : ℕ) : ℤ)) := by
  obtain ⟨N, rfl⟩ : ∃ N, n = N + 2 := ⟨n - 2, by omega⟩
  have h2 : 2 ≤ 2 ^ (N + 1) := by
    calc 2 = 2 ^ 1 := rfl
      _ ≤ 2 ^ (N + 1) := Nat.pow_le_pow_right (by norm_num) (by omega)
  have hv : (2 : ℚ) ^ (-(((N + 2 : ℕ) : ℤ) - 2) * ((2 ^ es : ℕ) : ℤ)) = valS (-(N : ℤ) * ((2 ^ es : ℕ) : ℤ)) 0 := by
    unfold valS; push_cast; ring_nf
  rw [hv, posVal_eq_valS_iff (N + 2) es _ (by omega) (by omega) (by simp) (le_refl _) (by norm_num)]
  unfold encS
  have hz : -(N : ℤ) * ((2 ^ es : ℕ) : ℤ) = (-(N : ℤ)) * ((2 ^ es : ℕ) : ℤ) + ((0 : ℕ) : ℤ) := by simp
  obtain ⟨k1, k2⟩ := kOf_eq es (-(N : ℤ)) 0 (by positivity)
  rw [hz, k1, k2]
  rcases Nat.eq_zero_or_pos N with rfl | hN
  · unfold Benc enc0; norm_num
  · rw [Benc_neg_regime N es N _ hN (le_refl _)]; simp

/-! ### increment / decrement of encodings -/

theorem toSigned_incr (n a : ℕ) (hn : 2 ≤ n) (ha : a < 2 ^ n) (hmax : a ≠ maxposEnc n) :
    toSigned n (incr n a) = toSigned n a + 1 := by
  have hp := two_pow_pred n (by omega)
  have hpos : 0 < 2 ^ (n - 1) := by positivity
  unfold maxposEnc at hmax
  unfold incr
  by_cases h1 : a < 2 ^ (n - 1)
  · have e : (a + 1) % 2 ^ n = a + 1 := Nat.mod_eq_of_lt (by omega)
    rw [e, toSigned_lo n a (by omega) h1, toSigned_lo n (a + 1) (by omega) (by omega)]
    push_cast; ring
  · by_cases h2 : a + 1 = 2 ^ n
    · rw [h2, Nat.mod_self, toSigned_hi n a (by omega) (by omega) ha, toSigned_lo n 0 (by omega) hpos]
      omega
    · have e : (a + 1) % 2 ^ n = a + 1 := Nat.mod_eq_of_lt (by omega)
      rw [e, toSigned_hi n a (by omega) (by omega) ha,
        toSigned_hi n (a + 1) (by omega) (by omega) (by omega)]
      push_cast; ring

theorem incr_lt (n a : ℕ) : incr n a < 2 ^ n := Nat.mod_lt _ (by positivity)
theorem decr_lt (n a : ℕ) : decr n a < 2 ^ n := Nat.mod_lt _ (by positivity)

theorem incr_decr (n a : ℕ) (ha : a < 2 ^ n) : incr n (decr n a) = a := by
  unfold incr decr
  have hpos : 0 < 2 ^ n := by positivity
  rcases Nat.eq_zero_or_pos a with rfl | h
  · have e : (2 ^ n - 1) % 2 ^ n = 2 ^ n - 1 := Nat.mod_eq_of_lt (by omega)
    rw [Nat.zero_add, e, Nat.sub_add_cancel hpos, Nat.mod_self]
  · have : a + 2 ^ n - 1 = (a - 1) + 2 ^ n := by omega
    have e : (a - 1) % 2 ^ n = a - 1 := Nat.mod_eq_of_lt (by omega)
    rw [this, Nat.add_mod_right, e, Nat.sub_add_cancel h, Nat.mod_eq_of_lt ha]

end UVerif.Posit
